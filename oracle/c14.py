"""C14: the ray/box test never loses a ray that enters the box; rejects clear misses."""
from fractions import Fraction
from .common import *

def slab(bmin, bmax, o, d, inflate):
    """exact parameter interval of the ray inside the box inflated by `inflate` (absolute per-axis amounts); None if empty"""
    lo, hi = None, None   # None = -inf / +inf
    for k in range(3):
        mn, mx = bmin[k] - inflate[k], bmax[k] + inflate[k]
        if d[k] == 0:
            if not (mn <= o[k] <= mx): return None
            continue
        t0, t1 = (mn - o[k]) / d[k], (mx - o[k]) / d[k]
        if t0 > t1: t0, t1 = t1, t0
        lo = t0 if lo is None else max(lo, t0)
        hi = t1 if hi is None else min(hi, t1)
    return (lo, hi)

def enters(bmin, bmax, o, d, inflate, strict_margin=0):
    s = slab(bmin, bmax, o, d, inflate)
    if s is None: return False
    lo, hi = s
    if lo is not None and hi is not None and lo > hi: return False
    if hi is not None and hi <= 0: return False     # needs a point with t > 0
    return True

def judge(ln):
    if ln.op not in ('bb.hit', 'bb.newhit'): return ('skip', 'leaf')
    A = ln.args
    if not all_finite(A[:12]): return ('skip', 'malformed-operand')
    bmin, bmax, o, d = V(A, 0), V(A, 3), V(A, 6), V(A, 9)
    if ln.op == 'bb.newhit':
        # the two corners as handed to BBox3D::new, in any order: the box they span
        ca, cb = bmin, bmax
        bmin = tuple(min(ca[k], cb[k]) for k in range(3))
        bmax = tuple(max(ca[k], cb[k]) for k in range(3))
    if d == (0, 0, 0): return ('skip', 'zero-direction')
    # the caller-supplied reciprocal must be the float reciprocal of d (±inf for zeros): the generator guarantees it
    got = ln.res[0] == '1'
    zero = (Fraction(0),) * 3
    inside = enters(bmin, bmax, o, d, zero)
    if inside:
        if got: return ('ok', '')
        # classify for known findings
        key = 'lost-ray'
        for k in range(3):
            if d[k] == 0 and (o[k] == bmin[k] or o[k] == bmax[k]): key = 'lost-ray-in-face-plane-axis%d' % k
        s = slab(bmin, bmax, o, d, zero)
        if key == 'lost-ray' and s is not None and s[1] is not None and s[0] is not None and s[0] == s[1]:
            key = 'lost-ray-touching-only'
        return ('fail', key, 'ray passes through the box ahead of its origin but intersect() = false')
    # clear miss: still a miss after inflating the box by a relative 1e-6 of the scene scale
    scale = max([abs(x) for x in bmin + bmax + o] + [Fraction(1)])
    infl = (scale / 10**6,) * 3
    if enters(bmin, bmax, o, d, infl):
        return ('skip', 'grazing-band')
    if got: return ('fail', 'false-hit', 'ray misses the box by a clear margin but intersect() = true')
    return ('ok', '')
