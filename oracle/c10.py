"""C10: loop area, perimeter, normal and centroid are geometrically correct, and invariant under re-starts, redundant
collinear points, reversal (normal flips) and rigid motions.  Exact vector area; families of the same outline arrive as
consecutive lines announced by `# c10 family <id> <variant> …` comments."""
from fractions import Fraction
import math
from .common import *
from .planar import *

_fam = {}
_pending = None

def begin():
    global _fam, _pending, _last_loop
    _fam = {}; _pending = None; _last_loop = None

def comment(text):
    global _pending
    t = text.split()
    if len(t) >= 5 and t[1] == 'c10' and t[2] == 'family':
        _pending = (t[3], t[4])

def rel(a, b, tol):
    return abs(a - b) <= tol * max(abs(a), abs(b), 1e-300)

_last_loop = None

def judge_poly(ln):
    """the same outline as a Polygon3D: area and normal are the outer loop's (those of the preceding loop.metrics line),
    the outer centroid is the mean of the stored vertices"""
    R = ln.res
    if R[0] != 'ok': return ('skip', 'not-built')
    if _last_loop is None or _last_loop['args'] != ln.args: return ('skip', 'leaf')
    b = _last_loop
    tol = 1e-3 if FMT.name == 'f32' else 1e-9
    area = to_float(R[1]); n = tuple(to_float(t) for t in R[2:5]); cen = tuple(to_float(t) for t in R[5:8])
    if R[1] != b['area_tok']: return ('fail', 'polygon-area', 'Polygon3D::new: area %.17g, outer loop %.17g' % (area, b['area']))
    if list(R[2:5]) != list(b['normal_toks']):
        return ('fail', 'polygon-normal', 'Polygon3D::new: normal %s, outer loop %s' % (n, b['n']))
    sc = max(max(abs(c) for c in b['mean']), 1.0)
    if any(abs(cen[k] - b['mean'][k]) > tol * 10 * sc for k in range(3)):
        return ('fail', 'polygon-outer-centroid', 'outer centroid %s vs mean %s' % (cen, b['mean']))
    return ('ok', '')

def judge(ln):
    global _pending, _last_loop
    if ln.op == 'poly.metrics': return judge_poly(ln)
    if ln.op != 'loop.metrics': return ('skip', 'leaf')
    pend, _pending = _pending, None
    pts, i = rd_pts(ln.args, 0)
    if pts is None: return ('skip', 'malformed-operand')
    R = ln.res
    if R[0] != 'ok' and not R[0] in ('0', '1'): return ('skip', 'not-built')
    # result: L area perimeter centroid     (L = closed n verts normal [area perimeter])
    j = 0
    if R[0] == 'ok': j = 1
    try:
        L, j = rd_loop_state(R, j)
    except Exception:
        return ('skip', 'not-built')
    if not L.closed or L.pts is None: return ('skip', 'not-closed')
    tol = 1e-3 if FMT.name == 'f32' else 1e-9
    V = vector_area_rel(L.pts)
    true_area = fnorm(V)
    # the removed collinear input points do not change the area: compare with the input outline as well
    Vin = vector_area_rel(pts)
    area = to_float(L.area_tok)
    # rounding allowance: the shoelace sum of n cross products of coordinates up to M carries an absolute error of the
    # order n*M^2*ulp whatever the size of the outline, so a small outline far from the origin cannot meet a relative
    # tolerance on its area (the property's area is 'true area up to rounding')
    M_ = max([abs(float(c)) for p_ in L.pts for c in p_] + [1.0])
    allow = 16 * len(L.pts) * M_ * M_ * (2.0 ** -23 if FMT.name == 'f32' else 2.0 ** -52)
    if not rel(area, true_area, tol) and abs(area - float(true_area)) > allow:
        return ('fail', 'area', 'area %.17g vs exact %.17g' % (area, true_area))
    # `is_collinear` drops a vertex b between a and c when |ab x bc| < 1e-5, i.e. when the triangle a,b,c has less than
    # 0.5e-5 of area: every dropped vertex may change the enclosed area by that much in absolute terms (tolerance band of
    # the code's own redundancy test; it only matters for small outlines, where 0.5e-5 is not negligible)
    dropped = max(len(pts) - len(L.pts), 0)
    # is some input vertex inside the band of the code's redundancy test (not collinear, yet |ab x bc| < 2e-5)?  Whether it is
    # dropped then depends on the start vertex and on earlier drops, and perimeter and area move by the size of the band
    def _band(P):
        m_ = len(P)
        for k_ in range(m_):
            a_, b_, c_ = P[k_ - 1], P[k_], P[(k_ + 1) % m_]
            ab_ = tuple(float(b_[t] - a_[t]) for t in range(3)); bc_ = tuple(float(c_[t] - b_[t]) for t in range(3))
            cr_ = (ab_[1] * bc_[2] - ab_[2] * bc_[1], ab_[2] * bc_[0] - ab_[0] * bc_[2], ab_[0] * bc_[1] - ab_[1] * bc_[0])
            x_ = math.sqrt(sum(t * t for t in cr_))
            la_ = math.sqrt(sum(t * t for t in ab_)); lb_ = math.sqrt(sum(t * t for t in bc_))
            if 1e-7 * la_ * lb_ < x_ < 2e-5: return True
        return False
    band_in = _band(pts)
    if not rel(fnorm(Vin), true_area, max(tol, 1e-7)) and abs(float(fnorm(Vin)) - float(true_area)) > 1e-5 * dropped + allow:
        return ('fail', 'area-vs-input-outline', 'stored outline encloses %.17g, input outline %.17g' % (true_area, fnorm(Vin)))
    per = sum(fnorm(sub(L.pts[k], L.pts[(k + 1) % len(L.pts)])) for k in range(len(L.pts)))
    perimeter = to_float(L.perimeter_tok)
    if not rel(perimeter, per, tol): return ('fail', 'perimeter', 'perimeter %.17g vs %.17g' % (perimeter, per))
    n = tuple(to_float(t) for t in L.normal_toks)
    ln_ = math.sqrt(sum(c * c for c in n))
    if abs(ln_ - 1) > tol * 10: return ('fail', 'normal-not-unit', '|n| = %.17g' % ln_)
    Vf = tuple(float(c) for c in V)
    d = sum(n[k] * Vf[k] for k in range(3)) / true_area
    if d < 1 - 1e-6: return ('fail', 'normal-not-right-hand', 'n . (vector area)/|VA| = %.9g' % d)
    # the tail: area perimeter centroid as returned by the accessor functions
    rest = R[j:]
    cen = None
    if len(rest) >= 5:
        cen = tuple(to_float(t) for t in rest[-3:])
        mean = tuple(float(sum(p[k] for p in L.pts) / len(L.pts)) for k in range(3))
        sc = max(max(abs(c) for c in mean), 1.0)
        if any(abs(cen[k] - mean[k]) > tol * 10 * sc for k in range(3)): return ('fail', 'centroid', 'centroid %s vs mean %s' % (cen, mean))
    _last_loop = dict(args=ln.args, area_tok=L.area_tok, area=area, normal_toks=L.normal_toks, n=n,
                      mean=tuple(float(sum(p[k] for p in L.pts) / len(L.pts)) for k in range(3)))
    # family invariance
    if pend is not None:
        fid, variant = pend
        if variant == 'base' or fid not in _fam:
            _fam[fid] = dict(area=area, per=perimeter, n=n, variant=variant, cen=cen, nv=len(L.pts), allow=allow, dropped=dropped, band=band_in)
        else:
            b = _fam[fid]
            if not rel(area, b['area'], max(tol, 1e-9) * 100) and abs(area - b['area']) > allow + b.get('allow', 0.0) + 1e-5 * (dropped + b.get('dropped', 0)):
                return ('fail', 'area-not-invariant:' + variant, 'area %.17g vs base %.17g' % (area, b['area']))
            if not rel(perimeter, b['per'], max(tol, 1e-9) * 100) and (band_in or b.get('band')): return ('skip', 'band')
            if not rel(perimeter, b['per'], max(tol, 1e-9) * 100): return ('fail', 'perimeter-not-invariant:' + variant, 'perimeter %.17g vs base %.17g' % (perimeter, b['per']))
            if variant in ('shift', 'collinear') and b['variant'] == 'base':
                if sum(n[k] * b['n'][k] for k in range(3)) < 1 - 1e-6: return ('fail', 'normal-not-invariant:' + variant, 'normal changed')
            if variant in ('shift', 'collinear', 'reverse') and b['variant'] == 'base':
                # the same outline, re-started / reversed / with redundant collinear points: the same essential vertices
                if len(L.pts) != b['nv']:
                    if band_in or b.get('band'): return ('skip', 'band')
                    return ('fail', 'vertex-count-not-invariant:' + variant, '%d stored vertices vs %d for the base outline' % (len(L.pts), b['nv']))
                if cen is not None and b['cen'] is not None:
                    sc = max(max(abs(c) for c in cen), 1.0)
                    if any(abs(cen[k] - b['cen'][k]) > max(tol, 1e-9) * 100 * sc for k in range(3)):
                        if band_in or b.get('band'): return ('skip', 'band')
                        return ('fail', 'centroid-not-invariant:' + variant, 'centroid %s vs base %s' % (cen, b['cen']))
            if variant == 'reverse' and b['variant'] == 'base':
                if sum(n[k] * b['n'][k] for k in range(3)) > -1 + 1e-6: return ('fail', 'normal-not-flipped:reverse', 'normal did not flip')
    return ('ok', '')
