"""C15 (primitives): local and world bounds contain the primitive; in particular every reported hit."""
import math
from .common import to_float
from .prims import *
from . import c02, c15

def inside(box, X, tol):
    return all(box[k] - tol <= X[k] <= box[3 + k] + tol for k in range(3))

def judge(ln):
    op = ln.op
    if op not in ('bh.tri', 'bh.sp', 'bh.cy'): return c15.judge(ln)
    tk = Tok(ln.args)
    if op == 'bh.tri':
        xf = rd_chain(tk); P = rd_tri(tk)
    elif op == 'bh.sp': P = rd_sphere(tk)
    else: P = rd_cyl(tk)
    O, D = rd_ray(tk)
    if ln.res[0] == 'panic':
        return ('skip', 'illegal-constructor') if not P.legal else ('fail', 'panic-on-legal-input', 'panic')
    if not P.legal: return ('skip', 'malformed-operand')
    R = ln.res
    off = 9 if op == 'bh.tri' else 0
    vals = [to_float(t) for t in R[off:off + 12]]
    if not all(math.isfinite(v) for v in vals): return ('fail', 'non-finite-bounds', 'bounds not finite')
    lb = vals[0:6]; wb = vals[6:12]
    if op == 'bh.tri':
        a, b, c = [tuple(to_float(t) for t in R[3*i:3*i+3]) for i in range(3)]
        P = Prim('tri'); P.p = dict(a=a, b=b, c=c)
    sc = local_scale(P, (0.0, 0.0, 0.0))
    tol = c02.TOL() * sc * 100
    # sample surface points: for triangles the vertices and centroid; for quadrics parametrised points
    pts = []
    if P.kind == 'tri':
        a, b, c = P.p['a'], P.p['b'], P.p['c']
        pts = [a, b, c, tuple((a[k] + b[k] + c[k]) / 3 for k in range(3))]
        for X in pts:
            if not inside(lb, X, tol): return ('fail', 'local-bounds-lose-surface:tri', 'vertex/centroid outside bounds')
            if not inside(wb, X, tol): return ('fail', 'world-bounds-lose-surface:tri', 'vertex/centroid outside world bounds')
    else:
        r = P.p['r']
        if P.kind == 'cyl' and P.p['mode'] == 'axis':
            p0, ax, L = cyl_frame(P)
            # orthonormal pair perpendicular to the axis
            t = (1.0, 0.0, 0.0) if abs(ax[0]) < 0.9 else (0.0, 1.0, 0.0)
            e1 = unit(cross(ax, t)); e2 = cross(ax, e1)
            for i in range(12):
                a_ = 2 * math.pi * i / 12
                for s in (0.0, L / 2, L):
                    X = vadd(vadd(p0, vmul(ax, s)), vadd(vmul(e1, r * math.cos(a_)), vmul(e2, r * math.sin(a_))))
                    if P.p['full'] and not inside(wb, X, tol * 10):
                        return ('fail', 'world-bounds-lose-surface:cyl', 'point of the cylinder between p0 and p1 outside world bounds')
        else:
            zmin, zmax = P.p['zmin'], P.p['zmax']
            for i in range(12):
                a_ = P.p['pm'] * i / 11
                for j in range(5):
                    z = zmin + (zmax - zmin) * j / 4
                    if P.kind == 'sphere':
                        rho = math.sqrt(max(r * r - z * z, 0.0))
                    else: rho = r
                    x = (rho * math.cos(a_), rho * math.sin(a_), z)
                    if not inside(lb, x, tol): return ('fail', 'local-bounds-lose-surface:' + P.kind, 'surface point outside local bounds')
                    if not inside(wb, to_world(P, x), tol * 10): return ('fail', 'world-bounds-lose-surface:' + P.kind, 'surface point outside world bounds')
    # the reported hit
    rest = R[off + 12:]
    if rest and rest[0] == 'some':
        X = tuple(to_float(t) for t in rest[1:4])
        if P.kind == 'tri' and finite(O, D):
            # a ray grazing the triangle's plane (|cos| < 1e-6 to the normal): Moller-Trumbore's determinant is rounding noise and
            # the reported point is ill-conditioned; C02 treats such rays as its grazing band, so does this check
            a, b, c = P.p['a'], P.p['b'], P.p['c']
            nrm = cross(vsub(b, a), vsub(c, a))
            if norm(nrm) == 0 or norm(D) == 0 or abs(dot(nrm, D)) < 1e-6 * norm(nrm) * norm(D): return ('skip', 'grazing-band')
        if finite(X) and finite(O, D) and norm(O) < 1e9:
            if not inside(wb, X, tol * 10 + 8 * 2.0**-52 * norm(X)): return ('fail', 'world-bounds-lose-hit:' + P.kind, 'reported hit outside world bounds')
    return ('ok', '')
