"""C13: surface data at a hit is coherent (normal perpendicular to the surface and to the tangents, faces the ray;
side front iff the outward/declared/right-hand normal faces the ray; tangents tangent; unit normal for rigid transforms)."""
import math
from .common import to_float
from .prims import *
from . import c02

INFO_OPS = {'local', 'int'}

def judge(ln):
    if '.' not in ln.op: return ('skip', 'leaf')
    pre, suf = ln.op.split('.', 1)
    if pre not in READERS or suf not in INFO_OPS: return ('skip', 'leaf')
    tk = Tok(ln.args); P = READERS[pre](tk); O, D = rd_ray(tk)
    if ln.res[0] == 'panic':
        if not P.legal: return ('skip', 'illegal-constructor')
        if P.kind == 'src': return ('skip', 'source-proxy-disk')
        return ('fail', 'panic-on-legal-input', 'panic for legal constructor arguments and ray')
    if ln.res[0] != 'some': return ('skip', 'no-hit')
    if not P.legal or not finite(O, D) or norm(D) < 1e-9 or norm(D) > 1e9 or norm(O) > 1e9: return ('skip', 'malformed-operand')
    # zero-area parametrisations (zmin == zmax, phi_max == 0) have no tangent frame: outside the property's space
    if P.kind in ('sphere', 'cyl') and P.p.get('mode') != 'axis':
        if P.p['zmax'] - P.p['zmin'] < 1e-6 * P.p['r'] or P.p['pm'] < 1e-6: return ('skip', 'degenerate-primitive')
    if P.kind in ('cyl', 'disk') and P.p.get('pm', 1) < 1e-6: return ('skip', 'degenerate-primitive')
    r = ln.res
    X = tuple(to_float(t) for t in r[1:4]); n = tuple(to_float(t) for t in r[4:7]); side = int(r[7])
    dpdu = tuple(to_float(t) for t in r[8:11]); dpdv = tuple(to_float(t) for t in r[11:14])
    tol = 1e-3 if C.FMT.name == 'f32' else 1e-6
    if P.kind == 'src':
        # proxy disk facing the source: normal along -direction·sign; only check it faces the ray and is unit
        if not finite(n): return ('fail', 'non-finite-normal:src', 'normal not finite')
        if dot(n, D) > tol * norm(D) * max(norm(n), 1e-300): return ('fail', 'normal-not-facing-ray:src', 'n.d = %.3g' % dot(n, D))
        return ('ok', '')
    if suf == 'local':
        Q = Prim(P.kind); Q.p = P.p; Q.xf = None
        if P.kind == 'cyl' and P.p.get('mode') == 'axis':
            L = norm(vsub(P.p['p1'], P.p['p0']))
            Q.p = dict(mode='local', r=P.p['r'], zmin=0.0, zmax=L, pm=P.p['pm'], full=P.p['full'])
        P = Q
    if not finite(X): return ('skip', 'non-finite-hit')
    N = geo_normal(P, X)
    if N is None or norm(N) == 0: return ('skip', 'leaf')
    Nn = unit(N)
    # hits too close to a parametric singularity of the surface (sphere poles, disk centre) have no tangent frame
    if P.kind == 'sphere':
        x = to_local(P, X)
        if math.hypot(x[0], x[1]) < 1e-4 * P.p['r']:
            if not finite(n) or norm(n) == 0: return ('fail', 'degenerate-normal-at-pole', 'zero/NaN normal for a hit at the sphere pole')
            cz = dot(Nn, D) / norm(D)
            if abs(cz) > 1e-3:
                if norm(cross(unit(n), Nn)) > 1e-3: return ('fail', 'normal-not-perpendicular:sphere-pole', 'normal at the pole is not radial')
                if dot(n, D) > 0: return ('fail', 'normal-not-facing-ray:sphere-pole', 'n.d > 0 at the pole')
                if side != (0 if cz < 0 else 1): return ('fail', 'wrong-side:sphere-pole', 'side at the pole')
                return ('ok', '')
            return ('skip', 'parametric-singularity')
    if P.kind == 'disk':
        x = to_local(P, X)
        if norm(vsub(x, P.p['c'])) < 1e-6 * P.p['r']: return ('skip', 'parametric-singularity')
    if not finite(n) or not finite(dpdu) or not finite(dpdv):
        return ('fail', 'non-finite-surface-data:' + P.kind, 'NaN/inf in normal or tangents')
    cosang = dot(Nn, D) / norm(D)
    if abs(cosang) < 1e-6: return ('skip', 'grazing-band')
    ln_ = norm(n)
    if ln_ == 0: return ('fail', 'zero-normal:' + P.kind, 'zero normal although the ray is not grazing')
    nh = unit(n)
    # perpendicular to the surface = parallel to the geometric normal
    if norm(cross(nh, Nn)) > tol * 10: return ('fail', 'normal-not-perpendicular:' + P.kind, '|n x N| = %.3g' % norm(cross(nh, Nn)))
    # faces the incoming ray
    if dot(nh, D) > 0: return ('fail', 'normal-not-facing-ray:' + P.kind, 'n.d = %.3g > 0' % dot(nh, D))
    # unit when rigid
    rigid = P.xf is None or P.xf.rigid
    if rigid and abs(ln_ - 1) > tol: return ('fail', 'normal-not-unit:' + P.kind, '|n| = %.9g under a rigid transform' % ln_)
    # tangents are tangent
    for (nm, tv) in (('dpdu', dpdu), ('dpdv', dpdv)):
        lt = norm(tv)
        if lt == 0: continue
        if abs(dot(tv, Nn)) > tol * 10 * lt: return ('fail', 'tangent-not-tangent:' + P.kind, '%s has a normal component %.3g' % (nm, dot(tv, Nn) / lt))
    # side: front = the side the outward / declared / right-hand-rule normal points to  (spheres, disks, triangles)
    if P.kind in ('sphere', 'disk', 'tri'):
        want = 0 if cosang < 0 else 1
        # a transform that changes handedness keeps 'outward' for spheres; for disks/triangles the declared normal is mapped by M^-T
        if side != want: return ('fail', 'wrong-side:' + P.kind, 'side=%d but outward.n.d has sign %+d' % (side, -1 if cosang < 0 else 1))
    else:
        if side not in (0, 1): return ('fail', 'side-not-applicable:' + P.kind, 'side = %d' % side)
    return ('ok', '')
