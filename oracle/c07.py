"""C07: interval arithmetic encloses the exact result; result intervals are well formed."""
from fractions import Fraction
from .common import *

UNARY = {'ap.neg', 'ap.sqrt'}
BINARY = {'ap.add', 'ap.sub', 'ap.mul', 'ap.div', 'ap.addA', 'ap.subA', 'ap.mulA', 'ap.divA'}
SCALAR = {'ap.addF', 'ap.subF', 'ap.mulF', 'ap.divF', 'ap.addAF', 'ap.subAF', 'ap.mulAF', 'ap.divAF'}

def exact_range(kind, a, b):
    """exact image [lo,hi] of the operation over the boxes a, b (pairs of Fractions)"""
    if kind == 'add': return (a[0] + b[0], a[1] + b[1])
    if kind == 'sub': return (a[0] - b[1], a[1] - b[0])
    if kind == 'mul':
        c = [a[0]*b[0], a[0]*b[1], a[1]*b[0], a[1]*b[1]]
        return (min(c), max(c))
    if kind == 'div':
        c = [a[0]/b[0], a[0]/b[1], a[1]/b[0], a[1]/b[1]]
        return (min(c), max(c))
    raise ValueError(kind)

def judge(ln):
    op = ln.op
    if op not in UNARY and op not in BINARY and op not in SCALAR:
        return ('skip', 'leaf')
    A = ln.args
    if not all_finite(A):
        return ('skip', 'malformed-operand')
    a = (frac(A[0]), frac(A[1]))
    if a[0] > a[1]:
        return ('skip', 'malformed-operand')
    kind = op[3:6]
    if op in UNARY:
        b = None
    elif op in BINARY:
        b = (frac(A[2]), frac(A[3]))
        if b[0] > b[1]: return ('skip', 'malformed-operand')
    else:
        b = (frac(A[2]), frac(A[2]))
    if kind == 'div' and b[0] <= 0 <= b[1]:
        return ('skip', 'divisor-contains-zero')
    if kind == 'sqr' and a[0] < 0:
        return ('skip', 'negative-radicand')
    lo, hi = ext(ln.res[0]), ext(ln.res[1])
    if lo is None or hi is None:
        return ('fail', 'NaN bound')
    if not lo <= hi:
        return ('fail', 'ill-formed result: low > high')
    if kind == 'neg':
        elo, ehi = -a[1], -a[0]
    elif kind == 'sqr':
        # enclosure of sqrt over [a0,a1]: lo <= sqrt(a0) and sqrt(a1) <= hi
        ok_lo = (lo <= 0) or (lo != INF and lo * lo <= a[0])
        ok_hi = (hi == INF) or (hi >= 0 and hi * hi >= a[1])
        if ok_lo and ok_hi: return ('ok', '')
        return ('fail', 'sqrt not enclosed')
    else:
        elo, ehi = exact_range(kind, a, b)
    if lo <= elo and ehi <= hi:
        return ('ok', '')
    return ('fail', 'exact range [%s, %s] not inside result' % (float(elo), float(ehi)))

def nontrivial(ln):
    return ln.op in UNARY or ln.op in BINARY or ln.op in SCALAR
