"""C19: segment, triangle and vector predicates agree with exact geometry (away from the documented tolerances).

Every discrete answer is decided with exact rational arithmetic on the exact values of the printed operands.  A
configuration whose exact measure lies within a band around a threshold the crate documents/uses is skipped as 'band':
factor B = 3 for derived measures (|ab x bc| < 1e-5 collinearity, line distance 1e-5, |a x b|^2 < 1e-5 parallel, 1e-8
"barely touches", 100*EPSILON determinant ...), factor BC = 1.5 for thresholds applied to raw coordinates or coordinate
differences (1e-5 compare, 100*EPSILON is_zero, 1e-6 minimum container length), plus the worst-case rounding noise of a
well-conditioned evaluation where a parameter is compared with 0 / 1.  Inside the tolerance the predicate must answer
"coincident / collinear / coplanar", clearly outside it must answer "not".
Numeric results are compared with a float evaluation of the exact value (relative 1e-9 for f64, 1e-4 for f32, scaled by
the conditioning of the quantity).

Judged: the ops of harness group c19, the reported surface area on `dk.ctor / sp.ctor / cy.ctor` lines (printed by the
groups c02/c03; the aliases disk.ctor / sphere.ctor / cyl.ctor are accepted) and `bb.misc` (group c15).
Everything else: ('skip','leaf').

Skip keys: band (see above) | malformed-operand (non-finite/absurd operands, illegal constructor arguments) |
ill-conditioned (rounding noise of any evaluation in this float format reaches the tolerance / the quantity) |
degenerate, degenerate-segment (zero vector normalised; segment shorter than the coincidence tolerance and no clear-cut
exact answer) | underflow | point-off-plane (test_point's documented precondition) | beyond-metre-scale and
scale-dependent-tolerance (is_parallel's absolute |a x b|^2 test outside the property's metre-scale space) |
within-coincidence-tolerance (intersection parameters off by more than rounding but less than 1e-4) |
scaled-transform, not-built (primitive areas) | tie (max_extent) | leaf."""
from fractions import Fraction
import math
from . import common as C
from .common import frac, to_float, is_finite, vsub, vadd, vscale, vdot, vcross, vnorm2

B = 3                                    # band factor around every documented threshold on a *derived* measure
BC = Fraction(3, 2)                      # band factor for thresholds applied to raw coordinates / coordinate differences
T5 = Fraction(1, 10**5)                  # Point3D::compare / is_collinear / is_parallel / get_intersection_pt
BIG = 1e100                              # absurd operands
METRE = 100                              # "metre scale": |coordinate| <= 100 (needed only for scale-dependent predicates)

def REL(): return 1e-4 if C.FMT.name == 'f32' else 1e-9
def EPS(): return C.FMT.eps              # Float::EPSILON (exact Fraction)
def TINY(): return 100 * C.FMT.eps       # 100*EPSILON: is_zero / get_perpendicular / test_point / intersect_triangle

OK = ('ok', '')
BAND = ('skip', 'band')
MALFORMED = ('skip', 'malformed-operand')

# ---- helpers ------------------------------------------------------------------------------------------------------
def sane(toks):
    return all(is_finite(t) and abs(to_float(t)) < BIG for t in toks)

def P(toks, i): return (frac(toks[i]), frac(toks[i + 1]), frac(toks[i + 2]))
def fl(v): return tuple(float(c) for c in v)
def fsqrt(q): return math.sqrt(float(q)) if q > 0 else 0.0
def flen(v): return fsqrt(vnorm2(v))
def cheb(a, b): return max(abs(a[0] - b[0]), abs(a[1] - b[1]), abs(a[2] - b[2]))
def maxabs(*vs): return max([abs(c) for v in vs for c in v] + [Fraction(0)])
def g(x): return '%.6g' % float(x)

def num_ok(tok, exact, scale):
    """finite result token within REL*scale of the exact value (scale >= |exact| typically)"""
    if not is_finite(tok): return False
    return abs(to_float(tok) - float(exact)) <= REL() * float(scale)

def vec_ok(toks, i, exact, scale):
    return all(num_ok(toks[i + k], exact[k], scale) for k in range(3))

def near3(q, thr, f=B):
    """classify a non-negative exact measure against a threshold: 'in' (<= thr/f), 'out' (>= thr*f) or 'band'"""
    if q * f <= thr: return 'in'
    if q >= thr * f: return 'out'
    return 'band'

def near3sq(q2, thr, f=B):
    """same, for a squared measure q2 against thr (unsquared)"""
    if q2 * f * f <= thr * thr: return 'in'
    if q2 >= thr * thr * f * f: return 'out'
    return 'band'

def same_pt(a, b):
    """Point3D::compare / Vector3D::compare: every coordinate differs by less than 1e-5"""
    d = cheb(a, b)
    if d == 0: return 'in'
    if 16 * C.FMT.eps * maxabs(a, b) > T5: return 'band'       # (f32 far from the origin) the tolerance is below the rounding noise
    return near3(d, T5, BC)

# ---- vectors and points ------------------------------------------------------------------------------------------
def j_vec_cross(ln):
    a, b = P(ln.args, 0), P(ln.args, 3)
    x = vcross(a, b)
    sc = flen(a) * flen(b)
    if not vec_ok(ln.res, 0, x, sc):
        return ('fail', 'cross-product', 'a x b = (%s,%s,%s), reported (%s,%s,%s)' % (tuple(g(c) for c in x) + tuple(g(to_float(t)) if t != 'nan' else 'nan' for t in ln.res[:3])))
    return OK

def j_vec_len(ln):
    a = P(ln.args, 0); n2 = vnorm2(a)
    if float(n2) == 0.0 and n2 != 0: return ('skip', 'underflow')
    if not num_ok(ln.res[0], fsqrt(n2), fsqrt(n2)): return ('fail', 'length', '|a| = %s, reported %s' % (g(fsqrt(n2)), g(to_float(ln.res[0]))))
    if not num_ok(ln.res[1], n2, n2): return ('fail', 'length-squared', '|a|^2 = %s, reported %s' % (g(n2), g(to_float(ln.res[1]))))
    return OK

def j_pt_dist(ln):
    a, b = P(ln.args, 0), P(ln.args, 3); d = vsub(a, b); n2 = vnorm2(d)
    # the differences are formed in floating point: conditioning = |a|,|b| relative to |a-b|
    sc = max(fsqrt(n2), float(C.FMT.eps) / REL() * float(maxabs(a, b)))
    if not num_ok(ln.res[0], fsqrt(n2), sc): return ('fail', 'distance', '|a-b| = %s, reported %s' % (g(fsqrt(n2)), g(to_float(ln.res[0]))))
    if not num_ok(ln.res[1], n2, sc * sc): return ('fail', 'squared-distance', '|a-b|^2 = %s, reported %s' % (g(n2), g(to_float(ln.res[1]))))
    return OK

def j_vec_norm(ln):
    a = P(ln.args, 0); n2 = vnorm2(a)
    if n2 == 0: return ('skip', 'degenerate')          # normalising the zero vector is undefined
    if float(n2) < 1e-290 or (C.FMT.name == 'f32' and float(n2) < 1e-30): return ('skip', 'underflow')
    l = fsqrt(n2)
    ex = tuple(float(c) / l for c in a)
    if not vec_ok(ln.res, 0, ex, 1.0):
        return ('fail', 'normalize', 'a/|a| = (%s,%s,%s) not reported' % tuple(g(c) for c in ex))
    return OK

def j_vec_zero(ln):
    a = P(ln.args, 0); got = ln.res[0] == '1'
    m = maxabs(a); st = near3(m, TINY(), BC)
    if st == 'band': return BAND
    want = st == 'in'
    if got != want: return ('fail', 'is-zero', 'largest component %s, is_zero=%s' % (g(m), got))
    return OK

def j_vec_cmp(ln):
    a, b = P(ln.args, 0), P(ln.args, 3); got = ln.res[0] == '1'
    # the test is per coordinate: all three must be inside; one outside decides
    sts = [near3(abs(a[k] - b[k]), T5, BC) for k in range(3)]
    if 'out' in sts: want = False
    elif all(s == 'in' for s in sts): want = True
    else: return BAND
    if got != want: return ('fail', 'compare', 'max coordinate difference %s, compare=%s' % (g(cheb(a, b)), got))
    return OK

def j_vec_par(ln):
    a, b = P(ln.args, 0), P(ln.args, 3)
    par, same = ln.res[0] == '1', ln.res[1] == '1'
    za, zb = near3(maxabs(a), TINY(), BC), near3(maxabs(b), TINY(), BC)
    if za == 'band' or zb == 'band': return BAND
    if za == 'in' or zb == 'in':
        # documented: a (numerically) zero vector is parallel to nothing
        if par or same: return ('fail', 'zero-vector-parallel', 'a zero vector reported parallel (par=%s same=%s)' % (par, same))
        return OK
    if maxabs(a, b) > METRE: return ('skip', 'beyond-metre-scale')
    x = vcross(a, b); x2 = vnorm2(x)                    # the crate's measure: |a x b|^2 against 1e-5
    la2, lb2 = vnorm2(a), vnorm2(b)
    if x2 >= T5 * B:
        want = False
    elif x2 * B <= T5:
        # inside the documented tolerance; it only means "parallel" if the angle is small too
        if x2 * 10**6 > la2 * lb2: return ('skip', 'scale-dependent-tolerance')   # sin^2 > 1e-6 although |a x b|^2 < 1e-5/B
        want = True
    else: return BAND
    if par != want:
        return ('fail', 'is-parallel', '|a x b|^2 = %s, sin^2 = %s, is_parallel=%s' % (g(x2), g(x2 / (la2 * lb2)), par))
    d = vdot(a, b)
    wsame = want and d > 0
    if same != wsame:
        return ('fail', 'is-same-direction', 'parallel=%s, a.b = %s, is_same_direction=%s' % (want, g(d), same))
    return OK

def j_vec_perp(ln):
    a = P(ln.args, 0); m = maxabs(a)
    st = near3(m, TINY(), BC)
    if ln.res[0] == 'panic': return ('fail', 'panic', 'get_perpendicular panicked')
    if ln.res[0] == 'err':
        if st == 'in': return OK                       # documented: no perpendicular to a zero vector
        if st == 'band': return BAND
        return ('fail', 'perpendicular-refused', 'Err for a vector with largest component %s' % g(m))
    if st == 'band': return BAND
    if st == 'in':
        if m == 0: return ('fail', 'perpendicular-of-zero', 'Ok for the exact zero vector')
        # a tiny but non-zero vector: a perpendicular exists; if one is returned it must be right (checked below)
    if not sane(ln.res[1:4]): return ('fail', 'perpendicular-not-finite', 'non-finite perpendicular')
    v = P(ln.res, 1)
    lv, la = flen(v), flen(a)
    if abs(lv - 1.0) > max(REL(), 1e-9) * 10: return ('fail', 'perpendicular-not-unit', '|v| = %.12g' % lv)
    if abs(float(vdot(a, v))) > REL() * 10 * la * lv: return ('fail', 'not-perpendicular', 'a.v / |a||v| = %s' % g(float(vdot(a, v)) / (la * lv)))
    return OK

def j_vec_ops(ln):
    A = ln.args; R = ln.res
    a, b, s = P(A, 0), P(A, 3), frac(A[6])
    sc = float(maxabs(a, b))
    def bad(name): return ('fail', 'operator-' + name, 'operator %s disagrees with exact arithmetic' % name)
    if not vec_ok(R, 0, vadd(a, b), sc): return bad('add')
    if not vec_ok(R, 3, vsub(a, b), sc): return bad('sub')
    if not all(frac(R[6 + k]) == -a[k] for k in range(3) if is_finite(R[6 + k])) or not sane(R[6:9]): return bad('neg')
    ms = vscale(a, s)
    if not vec_ok(R, 9, ms, float(maxabs(ms))): return bad('mul-scalar')
    if s != 0:
        ds = vscale(a, 1 / s)
        if float(maxabs(ds)) < 1e290 and not vec_ok(R, 12, ds, float(maxabs(ds))): return bad('div-scalar')
    else:
        # division by zero: +-inf or NaN per IEEE, nothing to compare with exact geometry
        pass
    if not num_ok(R[15], vdot(a, b), flen(a) * flen(b)): return bad('dot')
    if not sane(R[16:19]) or not all(frac(R[16 + k]) == abs(a[k]) for k in range(3)): return bad('abs')
    return OK

# ---- collinearity, segments --------------------------------------------------------------------------------------
def ill_conditioned(pts, lens, thr):
    """the differences are formed in floating point: if eps*|coordinates|*|lengths| reaches the threshold the documented
    tolerance is below the arithmetic noise of *any* implementation in this format"""
    M = float(maxabs(*pts))
    return 16 * float(C.FMT.eps) * M * max(lens) > float(thr) / (2 * B)

def col_expect(a, b, c):
    """a.is_collinear(b, c): 'err' | True | False | None (band) | 'ill'"""
    sab, sac, sbc = same_pt(a, b), same_pt(a, c), same_pt(b, c)
    if sab == 'in' and sac == 'in': return 'err'                 # documented: three equal points
    if sab != 'out' and sac != 'out': return None
    if 'in' in (sab, sac, sbc): return True                      # two coincident points are collinear with anything
    ab, bc = vsub(b, a), vsub(c, b)
    if ill_conditioned((a, b, c), (flen(ab), flen(bc)), T5): return 'ill'
    st = near3sq(vnorm2(vcross(ab, bc)), T5)
    if st == 'in': return True
    if 'band' in (sab, sac, sbc): return None
    if st == 'out': return False
    return None

def j_pt_col(ln):
    a, b, c = P(ln.args, 0), P(ln.args, 3), P(ln.args, 6)
    want = col_expect(a, b, c)
    if want is None: return BAND
    if want == 'ill': return ('skip', 'ill-conditioned')
    R = ln.res
    if R[0] == 'panic': return ('fail', 'panic', 'is_collinear panicked')
    x = fsqrt(vnorm2(vcross(vsub(b, a), vsub(c, b))))
    if want == 'err':
        return OK if R[0] == 'err' else ('fail', 'three-equal-points-accepted', 'three coincident points: %s' % ' '.join(R))
    if R[0] == 'err': return ('fail', 'collinear-err', 'Err although the points are not all equal (|ab x bc| = %s)' % g(x))
    got = R[1] == '1'
    if got != want: return ('fail', 'collinear', '|ab x bc| = %s, is_collinear=%s' % (g(x), got))
    return OK

def j_seg_new(ln):
    A, R = ln.args, ln.res
    a, b = P(A, 0), P(A, 3)
    if R[0:6] != A[0:6] and not (sane(R[0:6]) and P(R, 0) == a and P(R, 3) == b): return ('fail', 'segment-ends', 'start/end are not the constructor arguments')
    d = vsub(b, a); M = float(maxabs(a, b)); l = flen(d)
    sc = max(l, float(C.FMT.eps) / REL() * M)
    if not num_ok(R[6], l, sc): return ('fail', 'segment-length', '|b-a| = %s, reported %s' % (g(l), g(to_float(R[6]))))
    if not vec_ok(R, 7, d, M): return ('fail', 'segment-vector', 'as_vector3d is not end-start')
    if not vec_ok(R, 10, vscale(d, -1), M): return ('fail', 'segment-reversed-vector', 'as_reversed_vector3d is not start-end')
    if not vec_ok(R, 13, vscale(vadd(a, b), Fraction(1, 2)), M): return ('fail', 'segment-midpoint', 'midpoint is not (start+end)/2')
    return OK

def k_and(x, y):
    if x is False or y is False: return False
    if x is None or y is None: return None
    return True
def k_or(x, y):
    if x is True or y is True: return True
    if x is None or y is None: return None
    return False
def k_same(a, b):
    s = same_pt(a, b)
    return True if s == 'in' else False if s == 'out' else None

def j_seg_cmp(ln):
    A = ln.args
    s, e, s2, e2 = P(A, 0), P(A, 3), P(A, 6), P(A, 9)
    want = k_or(k_and(k_same(s, s2), k_same(e, e2)), k_and(k_same(e, s2), k_same(s, e2)))
    if want is None: return BAND
    got = ln.res[0] == '1'
    if got != want: return ('fail', 'segment-compare', 'end point distances %s/%s (same order) %s/%s (reversed), compare=%s' % (g(cheb(s, s2)), g(cheb(e, e2)), g(cheb(e, s2)), g(cheb(s, e2)), got))
    return OK

def dist2_pt_seg(p, s, e):
    ab = vsub(e, s); ap = vsub(p, s); l2 = vnorm2(ab)
    if l2 == 0: return vnorm2(ap)
    t = vdot(ap, ab) / l2
    t = min(max(t, 0), 1)
    return vnorm2(vsub(ap, vscale(ab, t)))

def on_seg_exact(p, s, e):
    ab = vsub(e, s); ap = vsub(p, s)
    if vnorm2(vcross(ap, ab)) != 0: return False
    return 0 <= vdot(ap, ab) <= vnorm2(ab)

def pt_on_seg_status(s, e, q, by_distance=False):
    """segment with clearly distinct ends: 'inside' | 'outside' | 'band' | 'ill'   (+ a short reason).
    Collinearity tolerance: |aq x ab| < 1e-5 (is_collinear: distance to the line times the segment length); with
    by_distance (contains_point) also the distance to the line itself must be within 1e-5."""
    if q == s or q == e: return 'inside', 'end point'
    ab = vsub(e, s); aq = vsub(q, s); l2 = vnorm2(ab); l = fsqrt(l2)
    if ill_conditioned((s, e, q), (l, flen(aq)), T5): return 'ill', ''
    x2 = vnorm2(vcross(aq, ab))
    st = near3sq(x2, T5)
    if st != 'in':
        # off the line (or in the band): a point within the coincidence tolerance of an end counts as collinear all the same
        if same_pt(q, s) != 'out' or same_pt(q, e) != 'out': return 'band', ''
        if st == 'band': return 'band', ''
        return 'outside', 'off the line: |aq x ab| = %s' % g(fsqrt(x2))
    t = vdot(aq, ab) / l2
    dline = fsqrt(x2) / l
    if by_distance:
        sd = near3sq(x2 / l2, T5)
        if sd == 'band': return 'band', ''
        if sd == 'out': return 'outside', 'off the line by %s' % g(dline)
    delta = 4 * dline / l + 16 * float(C.FMT.eps) * (1 + float(maxabs(s, e, q)) / l)
    if delta < t < 1 - delta: return 'inside', 't = %s, %s off the line' % (g(t), g(dline))
    if t < -delta or t > 1 + delta: return 'outside', 't = %s' % g(t)
    return 'band', ''

def j_seg_cpt(ln):
    A, R = ln.args, ln.res
    s, e, p = P(A, 0), P(A, 3), P(A, 6)
    if R[0] == 'panic': return ('fail', 'panic', 'contains_point panicked')
    ab = vsub(e, s); linf = maxabs(ab)
    se = same_pt(s, e)
    got = None if R[0] == 'err' else (R[1] == '1')
    if se != 'out':
        # a segment shorter than the coincidence tolerance
        if got is None:
            if linf <= EPS() * B: return OK                                  # documented: zero-length segment
            if same_pt(p, s) != 'out' and same_pt(p, e) != 'out': return OK     # three equal points (is_collinear)
            return ('fail', 'contains-point-err', 'Err for a segment of extent %s and a distinct point' % g(linf))
        if linf == 0 and not got and p != s: return OK
        if dist2_pt_seg(p, s, e) >= (T5 * B) ** 2: want = False
        elif on_seg_exact(p, s, e) and linf > EPS() * B and p != s and p != e and min(vnorm2(vsub(p, s)), vnorm2(vsub(p, e))) * 100 > vnorm2(ab): want = True
        else: return ('skip', 'degenerate-segment')
        if got != want: return ('fail', 'point-on-short-segment-rejected' if want else 'far-point-on-short-segment-accepted', 'segment of extent %s, point at distance %s: contains_point=%s' % (g(linf), g(fsqrt(dist2_pt_seg(p, s, e))), got))
        return OK
    st, why = pt_on_seg_status(s, e, p, True)
    if st == 'ill': return ('skip', 'ill-conditioned')
    if st == 'band': return BAND
    if got is None: return ('fail', 'contains-point-err', 'Err for a proper segment (%s)' % why)
    want = st == 'inside'
    if got != want: return ('fail', 'point-on-segment-rejected' if want else 'point-off-segment-accepted', 'point %s the segment (%s) but contains_point=%s' % ('on' if want else 'off', why, got))
    return OK

def j_seg_cont(ln):
    A, R = ln.args, ln.res
    a1, b1, a2, b2 = P(A, 0), P(A, 3), P(A, 6), P(A, 9)
    if R[0] == 'panic': return ('fail', 'panic', 'contains panicked')
    got = None if R[0] == 'err' else (R[1] == '1')
    ab = vsub(b1, a1)
    stl = near3sq(vnorm2(ab), Fraction(1, 10**6), BC)          # |self| < 1e-6: a raw length, well conditioned
    if stl == 'band': return BAND
    if stl == 'in':
        if got is None: return OK                                              # documented: zero-length container
        return ('fail', 'contains-short-segment-accepted', 'container of length %s gave %s' % (g(flen(ab)), ' '.join(R)))
    if same_pt(a1, b1) != 'out':
        # container shorter than the 1e-5 coincidence tolerance (its end points are "the same point" for the library):
        # inside the documented tolerances, not judged (the crate answers through is_collinear's "two equal points" rule)
        return ('skip', 'degenerate-segment')
    (s1, w1), (s2, w2) = pt_on_seg_status(a1, b1, a2), pt_on_seg_status(a1, b1, b2)
    if 'ill' in (s1, s2): return ('skip', 'ill-conditioned')
    if 'outside' in (s1, s2): want = False
    elif s1 == 'inside' and s2 == 'inside': want = True
    else: return BAND
    why = 'start: %s %s; end: %s %s' % (s1, w1, s2, w2)
    if got is None: return ('fail', 'contains-err', 'Err for a proper container (%s)' % why)
    if got != want: return ('fail', 'contained-segment-rejected' if want else 'uncontained-segment-accepted', 'expected %s (%s), contains=%s' % (want, why, got))
    return OK

# ---- segment x segment -----------------------------------------------------------------------------------------
class Pair:
    """exact description of two segments a0->a1 (caller) and b0->b1 (input)"""
    def __init__(self, A):
        self.a0, self.a1, self.b0, self.b1 = P(A, 0), P(A, 3), P(A, 6), P(A, 9)
        self.a, self.b = vsub(self.a1, self.a0), vsub(self.b1, self.b0)
        self.n = vcross(self.a, self.b); self.n2 = vnorm2(self.n)
        self.delta = vsub(self.a0, self.b0)
        self.la, self.lb = flen(self.a), flen(self.b)
        self.M = float(maxabs(self.a0, self.a1, self.b0, self.b1))
        self.ill = ill_conditioned((self.a0, self.a1, self.b0, self.b1), (self.la, self.lb), T5)
        # parallel?  the crate refuses max|n_k| <= 1e-5 (since 2d3851b also for directions that nearly agree; before that it
        # refused |a x b|^2 < 1e-5 with a.b > 0, and this oracle treated that as a band)
        if self.n2 * B * B <= T5 * T5: self.par = 'par'
        elif maxabs(self.n) < T5 * B: self.par = 'band'
        else: self.par = 'cross'
        self.cop = None
        if self.par == 'cross':
            dn = vdot(self.delta, self.n)
            self.d2 = dn * dn / self.n2                      # squared distance between the supporting lines
            self.d = fsqrt(self.d2)
            self.cop = near3sq(self.d2, T5)                  # 'in' coplanar within tolerance, 'out' skew, 'band'
            self.ta = vdot(vcross(self.b, self.delta), self.n) / self.n2      # closest-approach parameters (exact)
            self.tb = vdot(vcross(self.a, self.delta), self.n) / self.n2
            self.sin = fsqrt(self.n2) / (self.la * self.lb)
            self.X = vadd(self.a0, vscale(self.a, self.ta))
            # position uncertainty of the crossing point for a well-conditioned evaluation
            self.u = (4 * self.d + 16 * float(C.FMT.eps) * (self.M + self.la + self.lb)) / self.sin
    def verdict(self):
        """'none-par' | 'none-skew' | 'some' | None (band) | 'ill'"""
        if self.ill: return 'ill'
        if self.par == 'par': return 'none-par'
        if self.par == 'band': return None
        if self.cop == 'out': return 'none-skew'
        if self.cop == 'in': return 'some'
        return None

def j_seg_ipt(ln):
    pr = Pair(ln.args); R = ln.res
    v = pr.verdict()
    if v == 'ill': return ('skip', 'ill-conditioned')
    if v is None: return BAND
    if R[0] == 'panic': return ('fail', 'panic', 'get_intersection_pt panicked')
    if R[0] == 'none':
        if v == 'some':
            return ('fail', 'crossing-lines-not-reported', 'coplanar (lines %s apart), sin(angle) = %s, |a x b| = %s, but None' % (g(pr.d), g(pr.sin), g(fsqrt(pr.n2))))
        return OK
    if v == 'none-par': return ('fail', 'crossing-reported-for-parallel-segments', '|a x b| = %s but Some' % g(fsqrt(pr.n2)))
    if v == 'none-skew': return ('fail', 'crossing-reported-for-skew-segments', 'supporting lines are %s apart but Some' % g(pr.d))
    if not sane(R[1:3]): return ('fail', 'intersection-params-not-finite', 'non-finite parameters')
    ta, tb = frac(R[1]), frac(R[2])
    pa = vadd(pr.a0, vscale(pr.a, ta)); pb = vadd(pr.b0, vscale(pr.b, tb))
    gap = flen(vsub(pa, pb))
    scale = pr.M + abs(float(ta)) * pr.la + abs(float(tb)) * pr.lb
    tol = 4 * pr.d + REL() * scale / pr.sin
    lim = max(tol, 10 * float(T5))          # generous: ten times the coincidence tolerance
    if gap > lim:
        return ('fail', 'intersection-params-locate-different-points', 'points at the returned parameters are %s apart (lines %s apart)' % (g(gap), g(pr.d)))
    ea, eb = abs(float(ta - pr.ta)) * pr.la * pr.sin, abs(float(tb - pr.tb)) * pr.lb * pr.sin
    if max(ea, eb) > lim:
        return ('fail', 'intersection-params-wrong', 't = (%s, %s), exact (%s, %s)' % (g(ta), g(tb), g(pr.ta), g(pr.tb)))
    if gap > tol or max(ea, eb) > tol: return ('skip', 'within-coincidence-tolerance')
    return OK

def rng_status(t, lo, hi, dl, band_lo, band_hi):
    """t against [lo, hi] with uncertainty dl and extra band widths: 'in' | 'out' | 'edge'"""
    if lo + band_lo + dl < t < hi - band_hi - dl: return 'in'
    if t < lo - band_lo - dl or t > hi + band_hi + dl: return 'out'
    return 'edge'

def j_seg_int(ln):
    pr = Pair(ln.args); R = ln.res
    if R[0] == 'panic': return ('fail', 'panic', 'intersect/touches panicked')
    gi = R[0] == '1'; k = 4 if gi else 1
    pi = R[1:4] if gi else None
    gt = R[k] == '1'
    pt = R[k + 1:k + 4] if gt else None
    v = pr.verdict()
    if v == 'ill': return ('skip', 'ill-conditioned')
    if v is None: return BAND
    if gi and not gt: return ('fail', 'crossing-without-touching', 'intersect=true but touches=false')
    if v in ('none-par', 'none-skew'):
        if gi or gt:
            what = 'parallel' if v == 'none-par' else 'skew'
            det = '|a x b| = %s' % g(fsqrt(pr.n2)) if v == 'none-par' else 'supporting lines %s apart' % g(pr.d)
            return ('fail', 'crossing-reported-for-%s-segments' % what, '%s but intersect=%s touches=%s' % (det, gi, gt))
        return OK
    da, db = pr.u / pr.la, pr.u / pr.lb
    m = 1e-8
    # exactly shared end points give exact parameters 0 / 1 in any evaluation order
    shared = pr.a0 == pr.b0 or pr.a0 == pr.b1 or pr.a1 == pr.b0
    A = rng_status(pr.ta, 0, 1, da, 0, 0)
    Bi = rng_status(pr.tb, 0, 1, db, 0, 0)
    # intersect(): t_b must clear the end points of the second segment by 1e-8
    if pr.tb < m / B - db or pr.tb > 1 - m / B + db: Bx = 'out'
    elif m * B + db < pr.tb < 1 - m * B - db: Bx = 'in'
    else: Bx = 'edge'
    def k3(x, y):
        if x == 'out' or y == 'out': return False
        if x == 'in' and y == 'in': return True
        return None
    want_i, want_t = k3(A, Bx), k3(A, Bi)
    if shared: want_i, want_t = False, True
    where = 't_a = %s, t_b = %s, lines %s apart, sin = %s' % (g(pr.ta), g(pr.tb), g(pr.d), g(pr.sin))
    if want_i is not None and gi != want_i:
        if gi:
            key = 'crossing-reported-at-end-point-of-second' if (A != 'out' and Bi != 'out') else 'crossing-reported-outside-segments'
            return ('fail', key, 'intersect=true but ' + where)
        return ('fail', 'crossing-missed', 'intersect=false but ' + where)
    if want_t is not None and gt != want_t:
        if gt: return ('fail', 'touching-reported-outside-segments', 'touches=true but ' + where)
        return ('fail', 'touching-missed', 'touches=false but ' + where)
    # reported points
    for got, ptoks, nm in ((gi, pi, 'intersect'), (gt, pt, 'touches')):
        if got:
            if not sane(ptoks): return ('fail', 'crossing-point-not-finite', nm + ' point not finite')
            e = flen(vsub(P(ptoks, 0), pr.X))
            tol = 2 * pr.u + REL() * (pr.M + pr.la) / pr.sin
            if e > max(tol, 10 * float(T5)): return ('fail', 'crossing-point-wrong', '%s point is %s from the exact crossing point (%s)' % (nm, g(e), where))
    if want_i is None and want_t is None: return BAND
    return OK

# ---- triangles ---------------------------------------------------------------------------------------------------
class Tri:
    def __init__(self, a, b, c):
        self.a, self.b, self.c = a, b, c
        self.e1, self.e2 = vsub(b, a), vsub(c, a)
        self.n = vcross(self.e1, self.e2); self.n2 = vnorm2(self.n); self.nl = fsqrt(self.n2)
        self.lab, self.lbc, self.lca = flen(self.e1), flen(vsub(c, b)), flen(self.e2)
        self.M = float(maxabs(a, b, c))
        lmax = max(self.lab, self.lbc, self.lca)
        # conditioning of everything that divides by |n|: (longest side)^2 / |n|  (>= ~1.15)
        self.cond = lmax * lmax / self.nl if self.nl > 0 else float('inf')
    def status(self):
        """Triangle3D::new: 'ok' | 'err' | None (band) | 'ill'"""
        a, b, c = self.a, self.b, self.c
        ps = (same_pt(a, b), same_pt(a, c), same_pt(b, c))
        if 'in' in ps: return 'err'                              # documented: two equal points
        if ill_conditioned((a, b, c), (self.lab, self.lbc), T5): return 'ill'
        st = near3sq(vnorm2(vcross(self.e1, vsub(c, b))), T5)    # documented: collinear points
        if st == 'in': return 'err'
        if 'band' in ps or st == 'band': return None
        return 'ok'

def tri_prelude(T, R):
    """common handling of `ok …` / `err` / `panic`; returns a verdict or None to go on"""
    st = T.status()
    if R[0] == 'panic': return ('fail', 'panic', 'Triangle3D::new panicked')
    if st == 'ill': return ('skip', 'ill-conditioned')
    if R[0] == 'err':
        if st == 'err': return OK
        if st is None: return BAND
        return ('fail', 'triangle-refused', 'proper triangle (|ab x ac| = %s, sides %s %s %s) refused' % (g(T.nl), g(T.lab), g(T.lbc), g(T.lca)))
    if st == 'err': return ('fail', 'degenerate-triangle-accepted', 'triangle with |ab x ac| = %s, sides %s %s %s accepted' % (g(T.nl), g(T.lab), g(T.lbc), g(T.lca)))
    return None

def j_tri_new(ln):
    A, R = ln.args, ln.res
    T = Tri(P(A, 0), P(A, 3), P(A, 6))
    v = tri_prelude(T, R)
    if v is not None: return v
    R = R[1:]
    if not sane(R[:20]): return ('fail', 'triangle-non-finite', 'non-finite derived quantity')
    eps = float(C.FMT.eps)
    lmin = min(T.lab, T.lbc, T.lca)
    rel = REL() * T.cond + 32 * eps * T.cond * (1 + T.M / lmin)       # relative accuracy owed to quantities ~ 1/|n|
    if rel > 1e-2: return ('skip', 'ill-conditioned')
    nh = tuple(float(c) / T.nl for c in T.n)
    if not all(abs(to_float(R[k]) - nh[k]) <= rel for k in range(3)):
        return ('fail', 'triangle-normal', 'unit normal (%s,%s,%s) expected' % tuple(g(c) for c in nh))
    area = T.nl / 2
    if abs(to_float(R[3]) - area) > rel * area: return ('fail', 'triangle-area', 'area %s expected, %s reported' % (g(area), g(to_float(R[3]))))
    rad = T.lab * T.lbc * T.lca / (2 * T.nl)
    if abs(to_float(R[4]) - rad) > rel * rad: return ('fail', 'triangle-circumradius', 'circumradius %s expected, %s reported' % (g(rad), g(to_float(R[4]))))
    asp = rad / lmin
    if R[5] != R[6] or abs(to_float(R[5]) - asp) > rel * asp: return ('fail', 'triangle-aspect-ratio', 'aspect ratio %s expected, %s reported' % (g(asp), g(to_float(R[5]))))
    l1, l2 = vnorm2(T.e1), vnorm2(T.e2)
    off = vscale(vadd(vscale(vcross(T.n, T.e1), l2), vscale(vcross(T.e2, T.n), l1)), 1 / (2 * T.n2))
    cc = vadd(T.a, off)
    e = flen(vsub(P(R, 7), cc))
    if e > rel * rad + REL() * T.M: return ('fail', 'triangle-circumcentre', 'circumcentre off by %s (circumradius %s)' % (g(e), g(rad)))
    cen = vscale(vadd(vadd(T.a, T.b), T.c), Fraction(1, 3))
    if not vec_ok(R, 10, cen, max(T.M, 1e-300)): return ('fail', 'triangle-centroid', 'centroid is not (a+b+c)/3')
    lo = tuple(min(T.a[k], T.b[k], T.c[k]) for k in range(3)); hi = tuple(max(T.a[k], T.b[k], T.c[k]) for k in range(3))
    if P(R, 13) != lo or P(R, 16) != hi: return ('fail', 'triangle-bounds', 'bounds are not the coordinate-wise min/max of the vertices')
    return OK

class RV:
    """a real value x (exact, of the expression evaluated on the float inputs) with a bound e on |float result - x|"""
    __slots__ = ('x', 'e')
    def __init__(self, x, e=Fraction(0)): self.x = Fraction(x); self.e = Fraction(e)

def _rv_u(): return Fraction(C.FMT.eps) / 2
def _rv_eta(): return Fraction(1, 2**149) if C.FMT.name == 'f32' else Fraction(1, 2**1074)

def rv_add(a, b, sign=1):
    x = a.x + sign * b.x; ein = a.e + b.e
    return RV(x, ein + _rv_u() * (abs(x) + ein))

def rv_mul(a, b):
    x = a.x * b.x; ein = abs(a.x) * b.e + abs(b.x) * a.e + a.e * b.e
    return RV(x, ein + _rv_u() * (abs(x) + ein) + _rv_eta())

def rv_div(a, b):
    if abs(b.x) <= b.e: return None
    x = a.x / b.x
    ein = (a.e * abs(b.x) + abs(a.x) * b.e) / (abs(b.x) * (abs(b.x) - b.e))
    return RV(x, ein + _rv_u() * (abs(x) + ein) + _rv_eta())

def rv_dot(u, v):
    return rv_add(rv_add(rv_mul(u[0], v[0]), rv_mul(u[1], v[1])), rv_mul(u[2], v[2]))

def tp_running(a, b, c, p):
    """(alpha, beta, w) of Triangle3D::test_point as RVs: the exact values on the given floats and rigorous bounds on what
    the float evaluation (in the crate's order of operations) can return; None when the determinant cannot be bounded away from 0"""
    A = [RV(t) for t in a]; B = [RV(t) for t in b]; Cc = [RV(t) for t in c]; Pp = [RV(t) for t in p]
    e1 = [rv_add(B[k], A[k], -1) for k in range(3)]
    e2 = [rv_add(Cc[k], A[k], -1) for k in range(3)]
    pa = [rv_add(Pp[k], A[k], -1) for k in range(3)]
    e2e2 = rv_dot(e2, e2); e1e2 = rv_dot(e2, e1); e1e1 = rv_dot(e1, e1)
    left1 = rv_dot(e1, pa); left2 = rv_dot(e2, pa)
    det = rv_add(rv_mul(e1e1, e2e2), rv_mul(e1e2, e1e2), -1)
    alpha = rv_div(rv_add(rv_mul(e2e2, left1), rv_mul(e1e2, left2), -1), det)
    ne = RV(-e1e2.x, e1e2.e)
    beta = rv_div(rv_add(rv_mul(ne, left1), rv_mul(e1e1, left2)), det)
    if alpha is None or beta is None: return None
    w = rv_add(rv_add(RV(1), alpha, -1), beta, -1)
    return (alpha.x, alpha.e), (beta.x, beta.e), (w.x, w.e)


TP_NAMES = ['VertexA', 'VertexB', 'VertexC', 'EdgeAB', 'EdgeBC', 'EdgeAC', 'Inside', 'Outside']

def j_tri_tp(ln):
    A, R = ln.args, ln.res
    T = Tri(P(A, 0), P(A, 3), P(A, 6)); p = P(A, 9)
    v = tri_prelude(T, R)
    if v is not None: return v
    got = int(R[1])
    if p == T.a: want = 0
    elif p == T.b: want = 1
    elif p == T.c: want = 2
    else:
        pa = vsub(p, T.a)
        size = max(T.lab, T.lbc, T.lca)
        h = abs(float(vdot(pa, T.n))) / T.nl
        eps = float(C.FMT.eps)
        if h > max(1e-9, 64 * eps * (1 + T.M / size)) * size: return ('skip', 'point-off-plane')      # documented precondition
        e11, e22, e12 = vnorm2(T.e1), vnorm2(T.e2), vdot(T.e1, T.e2)
        l1, l2 = vdot(T.e1, pa), vdot(T.e2, pa)
        al = (e22 * l1 - e12 * l2) / T.n2; be = (e11 * l2 - e12 * l1) / T.n2; w = 1 - al - be
        # A-posteriori (running) rounding-error bounds of the crate's own evaluation order, each operation rounded to nearest:
        # rigorous and case by case, so the documented tolerance (100 eps on the barycentric coordinates) can be decided for
        # well-conditioned triangles (the a-priori worst case is of the size of the tolerance itself)
        rv = tp_running(T.a, T.b, T.c, p)
        if rv is None: return BAND
        (al_r, n_al), (be_r, n_be), (w_r, n_w) = rv
        assert al_r == al and be_r == be and w_r == w
        tiny = TINY()
        def cls(c, e):
            if c + e < -tiny: return 'neg'
            if c - e > tiny: return 'pos'
            if c - e >= -tiny and c + e <= tiny: return 'zero'
            return 'band'
        ca, cb, cw = cls(al, n_al), cls(be, n_be), cls(w, n_w)
        if 'neg' in (ca, cb, cw): want = 7
        elif 'band' in (ca, cb, cw): return BAND
        else:
            z = (ca == 'zero', cb == 'zero', cw == 'zero')
            want = {(True, True, False): 0, (True, False, True): 2, (False, True, True): 1, (True, False, False): 5,
                    (False, False, True): 4, (False, True, False): 3, (False, False, False): 6}.get(z)
            if want is None: return BAND
    if got != want:
        return ('fail', 'point-in-triangle', 'expected %s, reported %s' % (TP_NAMES[want], TP_NAMES[got] if 0 <= got < 8 else got))
    return OK

def seg_cmp3(p, q, s, e):
    return k_or(k_and(k_same(p, s), k_same(q, e)), k_and(k_same(q, s), k_same(p, e)))

def j_tri_idx(ln):
    A, R = ln.args, ln.res
    vs = (P(A, 0), P(A, 3), P(A, 6)); i = int(A[9])
    v = tri_prelude(Tri(*vs), R)
    if v is not None: return v
    R = R[1:]
    if i > 2:
        return OK if R == ['err', 'err'] else ('fail', 'index-out-of-bounds-accepted', 'vertex/segment %d: %s' % (i, ' '.join(R)))
    if R[0] != 'ok' or not sane(R[1:4]) or P(R, 1) != vs[i]: return ('fail', 'vertex-index', 'vertex(%d) is not the %d-th constructor argument' % (i, i))
    if R[4] != 'ok' or not sane(R[5:12]): return ('fail', 'segment-index', 'segment(%d) missing' % i)
    s, e = vs[i], vs[(i + 1) % 3]
    if P(R, 5) != s or P(R, 8) != e: return ('fail', 'segment-index', 'segment(%d) does not join vertex %d to vertex %d' % (i, i, (i + 1) % 3))
    l = flen(vsub(e, s)); M = float(maxabs(s, e))
    if not num_ok(R[11], l, max(l, float(C.FMT.eps) / REL() * M)): return ('fail', 'segment-length', 'length %s expected' % g(l))
    return OK

def j_tri_edge(ln):
    A, R = ln.args, ln.res
    vs = (P(A, 0), P(A, 3), P(A, 6)); p, q = P(A, 9), P(A, 12)
    v = tri_prelude(Tri(*vs), R)
    if v is not None: return v
    R = R[1:]
    if R[0] != R[1]: return ('fail', 'edge-index-inconsistent', 'from_segment=%s from_points=%s' % (R[0], R[1]))
    want = '-'; undecided = False
    for i in range(3):
        m = seg_cmp3(p, q, vs[i], vs[(i + 1) % 3])
        if m is None: undecided = True; break
        if m: want = str(i); break
    if not undecided and R[0] != want:
        return ('fail', 'edge-index', 'edge %s expected, %s reported' % (want, R[0]))
    hv = k_or(k_or(k_same(vs[0], p), k_same(vs[1], p)), k_same(vs[2], p))
    if hv is not None and (R[2] == '1') != hv:
        return ('fail', 'has-vertex', 'nearest vertex is %s away, has_vertex=%s' % (g(min(cheb(x, p) for x in vs)), R[2]))
    if undecided and hv is None: return BAND
    return OK

def j_tri_cmp(ln):
    A, R = ln.args, ln.res
    vs = (P(A, 0), P(A, 3), P(A, 6)); ws = (P(A, 9), P(A, 12), P(A, 15))
    s1, s2 = Tri(*vs).status(), Tri(*ws).status()
    if R[0] == 'panic': return ('fail', 'panic', 'panic')
    if 'ill' in (s1, s2): return ('skip', 'ill-conditioned')
    if R[0] == 'err':
        if s1 == 'err' or s2 == 'err': return OK
        if s1 is None or s2 is None: return BAND
        return ('fail', 'triangle-refused', 'both triangles are proper')
    if s1 == 'err' or s2 == 'err': return ('fail', 'degenerate-triangle-accepted', 'a degenerate triangle was built')
    def has(p): return k_or(k_or(k_same(ws[0], p), k_same(ws[1], p)), k_same(ws[2], p))
    want = k_and(k_and(has(vs[0]), has(vs[1])), has(vs[2]))
    if want is None: return BAND
    got = R[1] == '1'
    if got != want: return ('fail', 'triangle-compare', 'same vertex set = %s, compare = %s' % (want, got))
    return OK

def j_tri_mt(ln):
    A, R = ln.args, ln.res
    o, d = P(A, 0), P(A, 3)
    T = Tri(P(A, 6), P(A, 9), P(A, 12))
    v = tri_prelude(T, R)
    if v is not None: return v
    R = R[1:]
    eps = float(C.FMT.eps); tiny = float(TINY())
    h = vcross(d, T.e2); det = vdot(T.e1, h)
    s = vsub(o, T.a)
    ld, ls = flen(d), flen(s)
    if ld == 0: return ('skip', 'degenerate')
    l1, l2 = T.lab, T.lca
    M = max(T.M, float(maxabs(o)))
    ndet = 32 * eps * ld * l1 * (l2 + eps * M)
    ad = abs(float(det))
    if ad <= tiny / B - ndet: want = 'none'                       # documented: ray parallel to the plane
    elif ad < tiny * B + ndet: return BAND
    else:
        u = vdot(s, h) / det
        q = vcross(s, T.e1)
        vv = vdot(d, q) / det
        t = vdot(T.e2, q) / det
        nz = 32 * eps * (ls + M) * ld * max(l1, l2) / ad * (1 + abs(float(u)) + abs(float(vv)))
        if nz > 1e-3: return ('skip', 'ill-conditioned')
        nt = 32 * eps * (ls + M) * l1 * l2 / ad
        def st(x, lo, hi, n):
            if lo + n < x < hi - n: return 'in'
            if x < lo - n or x > hi + n: return 'out'
            return 'edge'
        su, sv, sw = st(u, 0, 1, nz), st(vv, 0, 1, nz), st(u + vv, -1, 1, 2 * nz)
        tf = float(t)
        if tf >= tiny * B + nt * (1 + abs(tf)): stt = 'in'
        elif tf <= tiny / B - nt * (1 + abs(tf)): stt = 'out'
        else: stt = 'edge'
        alls = (su, sv, sw, stt)
        if 'out' in alls: want = 'none'
        elif all(x == 'in' for x in alls): want = 'some'
        elif R[0] == 'some': want = 'edge'                        # on the boundary: hit or miss are both fine, a reported hit must be right
        else: return BAND
    if want == 'none':
        if R[0] != 'none':
            return ('fail', 'ray-triangle-false-hit', 'no hit expected (det = %s%s) but %s' % (g(det), '' if ad <= tiny else ', u = %s, v = %s, t = %s' % (g(u), g(vv), g(t)), ' '.join(R[:1])))
        return OK
    if want != 'edge' and R[0] != 'some': return ('fail', 'ray-triangle-missed', 'hit expected at u = %s, v = %s, t = %s' % (g(u), g(vv), g(t)))
    if not sane(R[1:6]): return ('fail', 'ray-triangle-non-finite', 'non-finite hit')
    X = vadd(o, vscale(d, t))
    e = flen(vsub(P(R, 1), X))
    if e > (REL() + nt) * (M + abs(tf) * ld) * 4: return ('fail', 'ray-triangle-hit-point', 'hit point off by %s' % g(e))
    if abs(to_float(R[4]) - float(u)) > REL() + nz or abs(to_float(R[5]) - float(vv)) > REL() + nz:
        return ('fail', 'ray-triangle-uv', '(u,v) = (%s,%s) expected' % (g(u), g(vv)))
    return OK

# ---- surface areas of primitives and boxes -----------------------------------------------------------------------
def rd_ot(toks, i):
    """optional transform `N` | `Y n elem…` -> (present, has a non-unit scale, finite, next index)"""
    if toks[i] == 'N': return False, False, True, i + 1
    n = int(toks[i + 1]); i += 2
    scaled = False; fin = True
    for _ in range(n):
        k = toks[i]; i += 1
        if k in ('T', 'S'):
            v = toks[i:i + 3]; i += 3
            if not sane(v): fin = False
            elif k == 'S' and any(abs(frac(t)) != 1 for t in v): scaled = True
        elif k in ('RX', 'RY', 'RZ'):
            if not sane(toks[i:i + 1]): fin = False
            i += 1
    return True, scaled, fin, i

def area_check(kind, got_tok, want, what, scale=None):
    """scale: magnitude of the terms the area is a difference of (conditioning), default |area|"""
    if not is_finite(got_tok): return ('fail', kind + '-area', 'area not finite (%s)' % what)
    got = to_float(got_tok)
    if abs(got - want) > REL() * (abs(want) if scale is None else scale): return ('fail', kind + '-area', 'area %.12g expected (%s), %.12g reported' % (want, what, got))
    return OK

def phi_of(tok):
    """phi_max in degrees -> radians (None when outside the documented 0..360 range)"""
    pm = to_float(tok); e = float(C.FMT.eps)
    if not (-e <= pm <= 360 + e): return None
    return math.radians(min(max(pm, 0.0), 360.0))                # documented: accepted within EPSILON and clamped

def j_sphere(ln):
    A, R = ln.args, ln.res
    k = A[0]
    try:
        if k == 'S0': nums = A[1:5]; r = A[1]; z = None; pm = None; ot = None
        elif k == 'S1': nums = A[1:8]; r = A[1]; z = (A[5], A[6]); pm = A[7]; ot = None
        elif k == 'S2': nums = A[1:2]; r = A[1]; z = None; pm = None; ot = 2
        elif k == 'S3': nums = A[1:5]; r = A[1]; z = (A[2], A[3]); pm = A[4]; ot = 5
        else: return ('skip', 'leaf')
    except IndexError: return MALFORMED
    if not sane(nums): return MALFORMED
    if ot is not None:
        _, scaled, fin, _ = rd_ot(A, ot)
        if not fin: return MALFORMED
        if scaled: return ('skip', 'scaled-transform')
    rad = to_float(r)
    if rad <= 0: return MALFORMED
    zmin, zmax = (-2 * rad, 2 * rad) if z is None else (to_float(z[0]), to_float(z[1]))
    if zmin > zmax: return MALFORMED
    phi = 2 * math.pi if pm is None else phi_of(pm)
    if phi is None: return MALFORMED
    if R[0] != 'ok': return ('skip', 'not-built')
    zmin, zmax = max(zmin, -rad), min(zmax, rad)
    if zmin > zmax: return MALFORMED                     # zone entirely outside the sphere
    # spherical zone (Archimedes): phi * r * height
    return area_check('sphere', R[8], phi * rad * (zmax - zmin), 'r=%g z=[%g,%g] phi=%g' % (rad, zmin, zmax, phi))

def j_cyl(ln):
    A, R = ln.args, ln.res
    k = A[0]
    try:
        if k in ('C0', 'C1'):
            nums = A[1:8] if k == 'C0' else A[1:9]
            if not sane(nums): return MALFORMED
            L = flen(vsub(P(A, 4), P(A, 1))); rad = to_float(A[7])
            phi = 2 * math.pi if k == 'C0' else phi_of(A[8])
        elif k == 'C2':
            if not sane(A[1:5]): return MALFORMED
            _, scaled, fin, _ = rd_ot(A, 5)
            if not fin: return MALFORMED
            if scaled: return ('skip', 'scaled-transform')
            rad = to_float(A[1]); L = float(frac(A[3]) - frac(A[2])); phi = phi_of(A[4])
        else: return ('skip', 'leaf')
    except IndexError: return MALFORMED
    if rad <= 0 or L < 0 or phi is None: return MALFORMED
    if R[0] != 'ok': return ('skip', 'not-built')
    return area_check('cylinder', R[7], phi * rad * L, 'r=%g length=%g phi=%g' % (rad, L, phi))

def j_disk(ln):
    A, R = ln.args, ln.res
    k = A[0]
    try:
        if k == 'D0':
            if not sane(A[1:8]): return MALFORMED
            rad = to_float(A[7]); inner = 0.0; phi = 2 * math.pi
        elif k == 'D1':
            if not sane(A[1:13]): return MALFORMED
            _, scaled, fin, _ = rd_ot(A, 13)
            if not fin: return MALFORMED
            if scaled: return ('skip', 'scaled-transform')
            rad = to_float(A[7]); inner = to_float(A[8])
            pm = to_float(A[12]); phi = math.radians(min(max(pm, 0.0), 360.0))     # documented: clamped
        else: return ('skip', 'leaf')
    except IndexError: return MALFORMED
    if not (rad > inner >= 0): return MALFORMED
    if R[0] != 'ok': return ('skip', 'not-built')
    # annular sector: phi/2 * (R^2 - r^2)
    want = phi * 0.5 * float(frac(A[7]) ** 2 - (frac(A[8]) ** 2 if k == 'D1' else 0))
    return area_check('disk', R[1], want, 'R=%g r=%g phi=%g' % (rad, inner, phi), phi * 0.5 * (rad * rad + inner * inner))

def j_bb_misc(ln):
    A, R = ln.args, ln.res
    lo, hi = P(A, 0), P(A, 3)
    d = vsub(hi, lo)
    if min(d) < 0: return MALFORMED
    area = 2 * (d[0] * d[1] + d[0] * d[2] + d[1] * d[2])
    M = maxabs(lo, hi)
    # the extents are formed in floating point: allow eps*|coordinates| on each of them
    slack = 16 * C.FMT.eps * M * (d[0] + d[1] + d[2])
    if not is_finite(R[1]) or abs(frac(R[1]) - area) > Fraction(REL()) * area + slack:
        return ('fail', 'box-surface-area', 'area %s expected, %s reported' % (g(area), g(to_float(R[1])) if is_finite(R[1]) else R[1]))
    ax = int(R[0]); m = max(d)
    top = sorted(d, reverse=True)
    if top[0] - top[1] <= 8 * C.FMT.eps * max(M, top[0]): return ('skip', 'tie')
    if d[ax] != m: return ('fail', 'box-max-extent', 'extents %s %s %s, axis %d reported' % (g(d[0]), g(d[1]), g(d[2]), ax))
    return OK

# ---- dispatch ----------------------------------------------------------------------------------------------------
GEOM = {
    'vec.cross': j_vec_cross, 'vec.len': j_vec_len, 'vec.norm': j_vec_norm, 'vec.zero': j_vec_zero, 'vec.cmp': j_vec_cmp,
    'vec.par': j_vec_par, 'vec.perp': j_vec_perp, 'vec.ops': j_vec_ops, 'pt.dist': j_pt_dist, 'pt.col': j_pt_col,
    'seg.new': j_seg_new, 'seg.cmp': j_seg_cmp, 'seg.cpt': j_seg_cpt, 'seg.cont': j_seg_cont, 'seg.ipt': j_seg_ipt,
    'seg.int': j_seg_int, 'tri.new': j_tri_new, 'tri.tp': j_tri_tp, 'tri.idx': j_tri_idx, 'tri.edge': j_tri_edge,
    'tri.cmp': j_tri_cmp, 'tri.mt': j_tri_mt, 'bb.misc': j_bb_misc,
}
PRIM = {'sp.ctor': j_sphere, 'sphere.ctor': j_sphere, 'cy.ctor': j_cyl, 'cyl.ctor': j_cyl, 'dk.ctor': j_disk, 'disk.ctor': j_disk}

def judge(ln):
    op = ln.op
    f = PRIM.get(op)
    if f is not None: return f(ln)
    f = GEOM.get(op)
    if f is None: return ('skip', 'leaf')
    nums = ln.args[:-1] if op == 'tri.idx' else ln.args
    if not sane(nums):
        # absurd operands are outside the property; a panic is still not acceptable where none is documented
        if ln.res and ln.res[0] == 'panic': return ('fail', 'panic', 'panic on non-finite operands')
        return MALFORMED
    return f(ln)
