"""C19: segment, triangle and vector predicates agree with exact geometry (away from the documented tolerances).

Every discrete answer is decided with exact rational arithmetic on the exact values of the printed operands.  A
configuration whose exact measure lies within a factor B of a threshold the crate documents/uses (1e-5 coincidence and
collinearity, 100*EPSILON "zero", 1e-8 "barely touches", 1e-6 minimum segment length ...) is skipped as 'band'.
Numeric results are compared with a float evaluation of the exact value (relative 1e-9 for f64, 1e-4 for f32, scaled by
the conditioning of the quantity).

Judged: the ops of harness group c19, the reported surface area on `dk.ctor / sp.ctor / cy.ctor` lines (groups c02/c03;
aliases disk.ctor / sphere.ctor / cyl.ctor accepted) and `bb.misc` (group c15).  Everything else: ('skip','leaf')."""
from fractions import Fraction
import math
from . import common as C
from .common import frac, to_float, is_finite, vsub, vadd, vscale, vdot, vcross, vnorm2

B = 3                                    # band factor around every documented threshold
T5 = Fraction(1, 10**5)                  # Point3D::compare / is_collinear / is_parallel / get_intersection_pt
BIG = 1e100                              # absurd operands
METRE = 100                              # "metre scale": |coordinate| <= 100 (needed only for scale-dependent predicates)

def REL(): return 1e-4 if C.FMT.name == 'f32' else 1e-9
def EPS(): return C.FMT.eps              # Float::EPSILON (exact Fraction)
def TINY(): return 100 * C.FMT.eps       # 100*EPSILON: is_zero / get_perpendicular / test_point / intersect_triangle

OK = ('ok', '')
BAND = ('skip', 'band')
MALFORMED = ('skip', 'malformed-operand')

# ---- helpers ------------------------------------------------------------------------------------------------------
def sane(toks):
    return all(is_finite(t) and abs(to_float(t)) < BIG for t in toks)

def P(toks, i): return (frac(toks[i]), frac(toks[i + 1]), frac(toks[i + 2]))
def fl(v): return tuple(float(c) for c in v)
def fsqrt(q): return math.sqrt(float(q)) if q > 0 else 0.0
def flen(v): return fsqrt(vnorm2(v))
def cheb(a, b): return max(abs(a[0] - b[0]), abs(a[1] - b[1]), abs(a[2] - b[2]))
def maxabs(*vs): return max([abs(c) for v in vs for c in v] + [Fraction(0)])
def g(x): return '%.6g' % float(x)

def num_ok(tok, exact, scale):
    """finite result token within REL*scale of the exact value (scale >= |exact| typically)"""
    if not is_finite(tok): return False
    return abs(to_float(tok) - float(exact)) <= REL() * float(scale)

def vec_ok(toks, i, exact, scale):
    return all(num_ok(toks[i + k], exact[k], scale) for k in range(3))

def near3(q, thr):
    """classify a non-negative exact measure against a threshold: 'in' (<= thr/B), 'out' (>= thr*B) or 'band'"""
    if q * B <= thr: return 'in'
    if q >= thr * B: return 'out'
    return 'band'

def near3sq(q2, thr):
    """same, for a squared measure q2 against thr (unsquared)"""
    if q2 * B * B <= thr * thr: return 'in'
    if q2 >= thr * thr * B * B: return 'out'
    return 'band'

def same_pt(a, b):
    """Point3D::compare / Vector3D::compare: every coordinate differs by less than 1e-5"""
    return near3(cheb(a, b), T5)

def bits_equal(toks, i, src, j, n=3):
    return all(toks[i + k] == src[j + k] or (frac(toks[i + k]) == frac(src[j + k])) for k in range(n))

# ---- vectors and points ------------------------------------------------------------------------------------------
def j_vec_cross(ln):
    a, b = P(ln.args, 0), P(ln.args, 3)
    x = vcross(a, b)
    sc = flen(a) * flen(b)
    if not vec_ok(ln.res, 0, x, sc):
        return ('fail', 'cross-product', 'a x b = (%s,%s,%s), reported (%s,%s,%s)' % (tuple(g(c) for c in x) + tuple(g(to_float(t)) if t != 'nan' else 'nan' for t in ln.res[:3])))
    return OK

def j_vec_len(ln):
    a = P(ln.args, 0); n2 = vnorm2(a)
    if float(n2) == 0.0 and n2 != 0: return ('skip', 'underflow')
    if not num_ok(ln.res[0], fsqrt(n2), fsqrt(n2)): return ('fail', 'length', '|a| = %s, reported %s' % (g(fsqrt(n2)), g(to_float(ln.res[0]))))
    if not num_ok(ln.res[1], n2, n2): return ('fail', 'length-squared', '|a|^2 = %s, reported %s' % (g(n2), g(to_float(ln.res[1]))))
    return OK

def j_pt_dist(ln):
    a, b = P(ln.args, 0), P(ln.args, 3); d = vsub(a, b); n2 = vnorm2(d)
    # the differences are formed in floating point: conditioning = |a|,|b| relative to |a-b|
    sc = max(fsqrt(n2), float(C.FMT.eps) / REL() * float(maxabs(a, b)))
    if not num_ok(ln.res[0], fsqrt(n2), sc): return ('fail', 'distance', '|a-b| = %s, reported %s' % (g(fsqrt(n2)), g(to_float(ln.res[0]))))
    if not num_ok(ln.res[1], n2, sc * sc): return ('fail', 'squared-distance', '|a-b|^2 = %s, reported %s' % (g(n2), g(to_float(ln.res[1]))))
    return OK

def j_vec_norm(ln):
    a = P(ln.args, 0); n2 = vnorm2(a)
    if n2 == 0: return ('skip', 'degenerate')          # normalising the zero vector is undefined
    if float(n2) < 1e-290 or (C.FMT.name == 'f32' and float(n2) < 1e-30): return ('skip', 'underflow')
    l = fsqrt(n2)
    ex = tuple(float(c) / l for c in a)
    if not vec_ok(ln.res, 0, ex, 1.0):
        return ('fail', 'normalize', 'a/|a| = (%s,%s,%s) not reported' % tuple(g(c) for c in ex))
    return OK

def j_vec_zero(ln):
    a = P(ln.args, 0); got = ln.res[0] == '1'
    m = maxabs(a); st = near3(m, TINY())
    if st == 'band': return BAND
    want = st == 'in'
    if got != want: return ('fail', 'is-zero', 'largest component %s, is_zero=%s' % (g(m), got))
    return OK

def j_vec_cmp(ln):
    a, b = P(ln.args, 0), P(ln.args, 3); got = ln.res[0] == '1'
    # the test is per coordinate: all three must be inside; one outside decides
    sts = [near3(abs(a[k] - b[k]), T5) for k in range(3)]
    if 'out' in sts: want = False
    elif all(s == 'in' for s in sts): want = True
    else: return BAND
    if got != want: return ('fail', 'compare', 'max coordinate difference %s, compare=%s' % (g(cheb(a, b)), got))
    return OK

def j_vec_par(ln):
    a, b = P(ln.args, 0), P(ln.args, 3)
    par, same = ln.res[0] == '1', ln.res[1] == '1'
    za, zb = near3(maxabs(a), TINY()), near3(maxabs(b), TINY())
    if za == 'band' or zb == 'band': return BAND
    if za == 'in' or zb == 'in':
        # documented: a (numerically) zero vector is parallel to nothing
        if par or same: return ('fail', 'zero-vector-parallel', 'a zero vector reported parallel (par=%s same=%s)' % (par, same))
        return OK
    if maxabs(a, b) > METRE: return ('skip', 'beyond-metre-scale')
    x = vcross(a, b); x2 = vnorm2(x)                    # the crate's measure: |a x b|^2 against 1e-5
    la2, lb2 = vnorm2(a), vnorm2(b)
    if x2 >= T5 * B:
        want = False
    elif x2 * B <= T5:
        # inside the documented tolerance; it only means "parallel" if the angle is small too
        if x2 * 10**6 > la2 * lb2: return ('skip', 'scale-dependent-tolerance')   # sin^2 > 1e-6 although |a x b|^2 < 1e-5/B
        want = True
    else: return BAND
    if par != want:
        return ('fail', 'is-parallel', '|a x b|^2 = %s, sin^2 = %s, is_parallel=%s' % (g(x2), g(x2 / (la2 * lb2)), par))
    d = vdot(a, b)
    wsame = want and d > 0
    if same != wsame:
        return ('fail', 'is-same-direction', 'parallel=%s, a.b = %s, is_same_direction=%s' % (want, g(d), same))
    return OK

def j_vec_perp(ln):
    a = P(ln.args, 0); m = maxabs(a)
    st = near3(m, TINY())
    if ln.res[0] == 'panic': return ('fail', 'panic', 'get_perpendicular panicked')
    if ln.res[0] == 'err':
        if st == 'in': return OK                       # documented: no perpendicular to a zero vector
        if st == 'band': return BAND
        return ('fail', 'perpendicular-refused', 'Err for a vector with largest component %s' % g(m))
    if st == 'band': return BAND
    if st == 'in':
        if m == 0: return ('fail', 'perpendicular-of-zero', 'Ok for the exact zero vector')
        # a tiny but non-zero vector: a perpendicular exists; if one is returned it must be right (checked below)
    if not sane(ln.res[1:4]): return ('fail', 'perpendicular-not-finite', 'non-finite perpendicular')
    v = P(ln.res, 1)
    lv, la = flen(v), flen(a)
    if abs(lv - 1.0) > max(REL(), 1e-9) * 10: return ('fail', 'perpendicular-not-unit', '|v| = %.12g' % lv)
    if abs(float(vdot(a, v))) > REL() * 10 * la * lv: return ('fail', 'not-perpendicular', 'a.v / |a||v| = %s' % g(float(vdot(a, v)) / (la * lv)))
    return OK

def j_vec_ops(ln):
    A = ln.args; R = ln.res
    a, b, s = P(A, 0), P(A, 3), frac(A[6])
    sc = float(maxabs(a, b))
    def bad(name): return ('fail', 'operator-' + name, 'operator %s disagrees with exact arithmetic' % name)
    if not vec_ok(R, 0, vadd(a, b), sc): return bad('add')
    if not vec_ok(R, 3, vsub(a, b), sc): return bad('sub')
    if not all(frac(R[6 + k]) == -a[k] for k in range(3) if is_finite(R[6 + k])) or not sane(R[6:9]): return bad('neg')
    ms = vscale(a, s)
    if not vec_ok(R, 9, ms, float(maxabs(ms))): return bad('mul-scalar')
    if s != 0:
        ds = vscale(a, 1 / s)
        if float(maxabs(ds)) < 1e290 and not vec_ok(R, 12, ds, float(maxabs(ds))): return bad('div-scalar')
    else:
        # division by zero: +-inf or NaN per IEEE, nothing to compare with exact geometry
        pass
    if not num_ok(R[15], vdot(a, b), flen(a) * flen(b)): return bad('dot')
    if not sane(R[16:19]) or not all(frac(R[16 + k]) == abs(a[k]) for k in range(3)): return bad('abs')
    return OK

# ---- collinearity, segments --------------------------------------------------------------------------------------
def ill_conditioned(pts, lens, thr):
    """the differences are formed in floating point: if eps*|coordinates|*|lengths| reaches the threshold the documented
    tolerance is below the arithmetic noise of *any* implementation in this format"""
    M = float(maxabs(*pts))
    return 16 * float(C.FMT.eps) * M * max(lens) > float(thr) / (2 * B)

def col_expect(a, b, c):
    """a.is_collinear(b, c): 'err' | True | False | None (band) | 'ill'"""
    sab, sac, sbc = same_pt(a, b), same_pt(a, c), same_pt(b, c)
    if sab == 'in' and sac == 'in': return 'err'                 # documented: three equal points
    if sab != 'out' and sac != 'out': return None
    if 'in' in (sab, sac, sbc): return True                      # two coincident points are collinear with anything
    ab, bc = vsub(b, a), vsub(c, b)
    if ill_conditioned((a, b, c), (flen(ab), flen(bc)), T5): return 'ill'
    st = near3sq(vnorm2(vcross(ab, bc)), T5)
    if st == 'in': return True
    if 'band' in (sab, sac, sbc): return None
    if st == 'out': return False
    return None

def j_pt_col(ln):
    a, b, c = P(ln.args, 0), P(ln.args, 3), P(ln.args, 6)
    want = col_expect(a, b, c)
    if want is None: return BAND
    if want == 'ill': return ('skip', 'ill-conditioned')
    R = ln.res
    if R[0] == 'panic': return ('fail', 'panic', 'is_collinear panicked')
    x = fsqrt(vnorm2(vcross(vsub(b, a), vsub(c, b))))
    if want == 'err':
        return OK if R[0] == 'err' else ('fail', 'three-equal-points-accepted', 'three coincident points: %s' % ' '.join(R))
    if R[0] == 'err': return ('fail', 'collinear-err', 'Err although the points are not all equal (|ab x bc| = %s)' % g(x))
    got = R[1] == '1'
    if got != want: return ('fail', 'collinear', '|ab x bc| = %s, is_collinear=%s' % (g(x), got))
    return OK

def j_seg_new(ln):
    A, R = ln.args, ln.res
    a, b = P(A, 0), P(A, 3)
    if R[0:6] != A[0:6] and not (sane(R[0:6]) and P(R, 0) == a and P(R, 3) == b): return ('fail', 'segment-ends', 'start/end are not the constructor arguments')
    d = vsub(b, a); M = float(maxabs(a, b)); l = flen(d)
    sc = max(l, float(C.FMT.eps) / REL() * M)
    if not num_ok(R[6], l, sc): return ('fail', 'segment-length', '|b-a| = %s, reported %s' % (g(l), g(to_float(R[6]))))
    if not vec_ok(R, 7, d, M): return ('fail', 'segment-vector', 'as_vector3d is not end-start')
    if not vec_ok(R, 10, vscale(d, -1), M): return ('fail', 'segment-reversed-vector', 'as_reversed_vector3d is not start-end')
    if not vec_ok(R, 13, vscale(vadd(a, b), Fraction(1, 2)), M): return ('fail', 'segment-midpoint', 'midpoint is not (start+end)/2')
    return OK

def k_and(x, y):
    if x is False or y is False: return False
    if x is None or y is None: return None
    return True
def k_or(x, y):
    if x is True or y is True: return True
    if x is None or y is None: return None
    return False
def k_same(a, b):
    s = same_pt(a, b)
    return True if s == 'in' else False if s == 'out' else None

def j_seg_cmp(ln):
    A = ln.args
    s, e, s2, e2 = P(A, 0), P(A, 3), P(A, 6), P(A, 9)
    want = k_or(k_and(k_same(s, s2), k_same(e, e2)), k_and(k_same(e, s2), k_same(s, e2)))
    if want is None: return BAND
    got = ln.res[0] == '1'
    if got != want: return ('fail', 'segment-compare', 'end point distances %s/%s (same order) %s/%s (reversed), compare=%s' % (g(cheb(s, s2)), g(cheb(e, e2)), g(cheb(e, s2)), g(cheb(s, e2)), got))
    return OK

def dist2_pt_seg(p, s, e):
    ab = vsub(e, s); ap = vsub(p, s); l2 = vnorm2(ab)
    if l2 == 0: return vnorm2(ap)
    t = vdot(ap, ab) / l2
    t = min(max(t, 0), 1)
    return vnorm2(vsub(ap, vscale(ab, t)))

def on_seg_exact(p, s, e):
    ab = vsub(e, s); ap = vsub(p, s)
    if vnorm2(vcross(ap, ab)) != 0: return False
    return 0 <= vdot(ap, ab) <= vnorm2(ab)

def pt_on_seg_status(s, e, q):
    """segment with clearly distinct ends: 'inside' | 'outside' | 'band' | 'ill'   (+ a short reason)"""
    if q == s or q == e: return 'inside', 'end point'
    if same_pt(q, s) != 'out' or same_pt(q, e) != 'out': return 'band', ''      # coincidence zone of an end point
    ab = vsub(e, s); aq = vsub(q, s); l2 = vnorm2(ab); l = fsqrt(l2)
    if ill_conditioned((s, e, q), (l, flen(aq)), T5): return 'ill', ''
    x2 = vnorm2(vcross(aq, ab))
    st = near3sq(x2, T5)
    if st == 'band': return 'band', ''
    if st == 'out': return 'outside', 'off the line: |aq x ab| = %s' % g(fsqrt(x2))
    t = vdot(aq, ab) / l2
    dline = fsqrt(x2) / l
    delta = 4 * dline / l + 16 * float(C.FMT.eps) * (1 + float(maxabs(s, e, q)) / l)
    if delta < t < 1 - delta: return 'inside', 't = %s, %s off the line' % (g(t), g(dline))
    if t < -delta or t > 1 + delta: return 'outside', 't = %s' % g(t)
    return 'band', ''

def j_seg_cpt(ln):
    A, R = ln.args, ln.res
    s, e, p = P(A, 0), P(A, 3), P(A, 6)
    if R[0] == 'panic': return ('fail', 'panic', 'contains_point panicked')
    ab = vsub(e, s); linf = maxabs(ab)
    se = same_pt(s, e)
    got = None if R[0] == 'err' else (R[1] == '1')
    if se != 'out':
        # a segment shorter than the coincidence tolerance
        if got is None:
            if linf <= EPS() * B: return OK                                  # documented: zero-length segment
            if same_pt(p, s) != 'out' and same_pt(p, e) != 'out': return OK     # three equal points (is_collinear)
            return ('fail', 'contains-point-err', 'Err for a segment of extent %s and a distinct point' % g(linf))
        if linf == 0 and not got and p != s: return OK
        if dist2_pt_seg(p, s, e) >= (T5 * B) ** 2: want = False
        elif on_seg_exact(p, s, e) and linf > EPS() * B and p != s and p != e and min(vnorm2(vsub(p, s)), vnorm2(vsub(p, e))) * 100 > vnorm2(ab): want = True
        else: return ('skip', 'degenerate-segment')
        if got != want: return ('fail', 'contains-point-short-segment', 'segment of extent %s, point at distance %s: contains_point=%s' % (g(linf), g(fsqrt(dist2_pt_seg(p, s, e))), got))
        return OK
    st, why = pt_on_seg_status(s, e, p)
    if st == 'ill': return ('skip', 'ill-conditioned')
    if st == 'band': return BAND
    if got is None: return ('fail', 'contains-point-err', 'Err for a proper segment (%s)' % why)
    want = st == 'inside'
    if got != want: return ('fail', 'contains-point', 'point %s the segment (%s) but contains_point=%s' % ('on' if want else 'off', why, got))
    return OK

def j_seg_cont(ln):
    A, R = ln.args, ln.res
    a1, b1, a2, b2 = P(A, 0), P(A, 3), P(A, 6), P(A, 9)
    if R[0] == 'panic': return ('fail', 'panic', 'contains panicked')
    got = None if R[0] == 'err' else (R[1] == '1')
    ab = vsub(b1, a1)
    stl = near3sq(vnorm2(ab), Fraction(1, 10**6))
    if stl == 'band': return BAND
    if stl == 'in':
        if got is None: return OK                                              # documented: zero-length container
        return ('fail', 'contains-short-segment-accepted', 'container of length %s gave %s' % (g(flen(ab)), ' '.join(R)))
    if same_pt(a1, b1) != 'out':
        # container shorter than the coincidence tolerance (but longer than 1e-6): only clear-cut exact answers are judged
        if got is None: return ('skip', 'degenerate-segment')
        far = max(dist2_pt_seg(a2, a1, b1), dist2_pt_seg(b2, a1, b1)) >= (T5 * B) ** 2
        if far: want = False
        else: return ('skip', 'degenerate-segment')
        if got != want: return ('fail', 'contains-short-container', 'container of length %s reported to contain a segment %s away' % (g(flen(ab)), g(fsqrt(max(dist2_pt_seg(a2, a1, b1), dist2_pt_seg(b2, a1, b1))))))
        return OK
    (s1, w1), (s2, w2) = pt_on_seg_status(a1, b1, a2), pt_on_seg_status(a1, b1, b2)
    if 'ill' in (s1, s2): return ('skip', 'ill-conditioned')
    if 'outside' in (s1, s2): want = False
    elif s1 == 'inside' and s2 == 'inside': want = True
    else: return BAND
    why = 'start: %s %s; end: %s %s' % (s1, w1, s2, w2)
    if got is None: return ('fail', 'contains-err', 'Err for a proper container (%s)' % why)
    if got != want: return ('fail', 'contains', 'expected %s (%s), contains=%s' % (want, why, got))
    return OK

# ---- segment x segment -----------------------------------------------------------------------------------------
class Pair:
    """exact description of two segments a0->a1 (caller) and b0->b1 (input)"""
    def __init__(self, A):
        self.a0, self.a1, self.b0, self.b1 = P(A, 0), P(A, 3), P(A, 6), P(A, 9)
        self.a, self.b = vsub(self.a1, self.a0), vsub(self.b1, self.b0)
        self.n = vcross(self.a, self.b); self.n2 = vnorm2(self.n)
        self.delta = vsub(self.a0, self.b0)
        self.la, self.lb = flen(self.a), flen(self.b)
        self.M = float(maxabs(self.a0, self.a1, self.b0, self.b1))
        self.ill = ill_conditioned((self.a0, self.a1, self.b0, self.b1), (self.la, self.lb), T5)
        # parallel?  the crate refuses |a x b|^2 < 1e-5 with a.b > 0 (is_same_direction) and max|n_k| <= 1e-5 otherwise
        if self.n2 * B * B <= T5 * T5: self.par = 'par'
        elif self.n2 < T5 * B or maxabs(self.n) < T5 * B: self.par = 'band'
        else: self.par = 'cross'
        self.cop = None
        if self.par == 'cross':
            dn = vdot(self.delta, self.n)
            self.d2 = dn * dn / self.n2                      # squared distance between the supporting lines
            self.d = fsqrt(self.d2)
            self.cop = near3sq(self.d2, T5)                  # 'in' coplanar within tolerance, 'out' skew, 'band'
            self.ta = vdot(vcross(self.b, self.delta), self.n) / self.n2      # closest-approach parameters (exact)
            self.tb = vdot(vcross(self.a, self.delta), self.n) / self.n2
            self.sin = fsqrt(self.n2) / (self.la * self.lb)
            self.X = vadd(self.a0, vscale(self.a, self.ta))
            # position uncertainty of the crossing point for a well-conditioned evaluation
            self.u = (4 * self.d + 16 * float(C.FMT.eps) * (self.M + self.la + self.lb)) / self.sin
    def verdict(self):
        """'none-par' | 'none-skew' | 'some' | None (band) | 'ill'"""
        if self.ill: return 'ill'
        if self.par == 'par': return 'none-par'
        if self.par == 'band': return None
        if self.cop == 'out': return 'none-skew'
        if self.cop == 'in': return 'some'
        return None

def j_seg_ipt(ln):
    pr = Pair(ln.args); R = ln.res
    v = pr.verdict()
    if v == 'ill': return ('skip', 'ill-conditioned')
    if v is None: return BAND
    if R[0] == 'panic': return ('fail', 'panic', 'get_intersection_pt panicked')
    if R[0] == 'none':
        if v == 'some':
            return ('fail', 'crossing-lines-not-reported', 'coplanar (lines %s apart), sin(angle) = %s, |a x b| = %s, but None' % (g(pr.d), g(pr.sin), g(fsqrt(pr.n2))))
        return OK
    if v == 'none-par': return ('fail', 'crossing-reported-for-parallel-segments', '|a x b| = %s but Some' % g(fsqrt(pr.n2)))
    if v == 'none-skew': return ('fail', 'crossing-reported-for-skew-segments', 'supporting lines are %s apart but Some' % g(pr.d))
    if not sane(R[1:3]): return ('fail', 'intersection-params-not-finite', 'non-finite parameters')
    ta, tb = frac(R[1]), frac(R[2])
    pa = vadd(pr.a0, vscale(pr.a, ta)); pb = vadd(pr.b0, vscale(pr.b, tb))
    gap = flen(vsub(pa, pb))
    scale = pr.M + abs(float(ta)) * pr.la + abs(float(tb)) * pr.lb
    tol = 4 * pr.d + REL() * scale / pr.sin
    lim = max(tol, float(T5) * B)
    if gap > lim:
        return ('fail', 'intersection-params-locate-different-points', 'points at the returned parameters are %s apart (lines %s apart)' % (g(gap), g(pr.d)))
    ea, eb = abs(float(ta - pr.ta)) * pr.la * pr.sin, abs(float(tb - pr.tb)) * pr.lb * pr.sin
    if max(ea, eb) > lim:
        return ('fail', 'intersection-params-wrong', 't = (%s, %s), exact (%s, %s)' % (g(ta), g(tb), g(pr.ta), g(pr.tb)))
    if gap > tol or max(ea, eb) > tol: return ('skip', 'within-coincidence-tolerance')
    return OK

def rng_status(t, lo, hi, dl, band_lo, band_hi):
    """t against [lo, hi] with uncertainty dl and extra band widths: 'in' | 'out' | 'edge'"""
    if lo + band_lo + dl < t < hi - band_hi - dl: return 'in'
    if t < lo - band_lo - dl or t > hi + band_hi + dl: return 'out'
    return 'edge'

def j_seg_int(ln):
    pr = Pair(ln.args); R = ln.res
    if R[0] == 'panic': return ('fail', 'panic', 'intersect/touches panicked')
    gi = R[0] == '1'; k = 4 if gi else 1
    pi = R[1:4] if gi else None
    gt = R[k] == '1'
    pt = R[k + 1:k + 4] if gt else None
    v = pr.verdict()
    if v == 'ill': return ('skip', 'ill-conditioned')
    if v is None: return BAND
    if gi and not gt: return ('fail', 'crossing-without-touching', 'intersect=true but touches=false')
    if v in ('none-par', 'none-skew'):
        if gi or gt:
            what = 'parallel' if v == 'none-par' else 'skew'
            det = '|a x b| = %s' % g(fsqrt(pr.n2)) if v == 'none-par' else 'supporting lines %s apart' % g(pr.d)
            return ('fail', 'crossing-reported-for-%s-segments' % what, '%s but intersect=%s touches=%s' % (det, gi, gt))
        return OK
    da, db = pr.u / pr.la, pr.u / pr.lb
    m = 1e-8
    # exactly shared end points give exact parameters 0 / 1 in any evaluation order
    shared = pr.a0 == pr.b0 or pr.a0 == pr.b1 or pr.a1 == pr.b0
    A = rng_status(pr.ta, 0, 1, da, 0, 0)
    Bi = rng_status(pr.tb, 0, 1, db, 0, 0)
    # intersect(): t_b must clear the end points of the second segment by 1e-8
    if pr.tb < m / B - db or pr.tb > 1 - m / B + db: Bx = 'out'
    elif m * B + db < pr.tb < 1 - m * B - db: Bx = 'in'
    else: Bx = 'edge'
    def k3(x, y):
        if x == 'out' or y == 'out': return False
        if x == 'in' and y == 'in': return True
        return None
    want_i, want_t = k3(A, Bx), k3(A, Bi)
    if shared: want_i, want_t = False, True
    where = 't_a = %s, t_b = %s, lines %s apart, sin = %s' % (g(pr.ta), g(pr.tb), g(pr.d), g(pr.sin))
    if want_i is not None and gi != want_i:
        if gi:
            key = 'crossing-reported-at-end-point-of-second' if (A != 'out' and Bi != 'out') else 'crossing-reported-outside-segments'
            return ('fail', key, 'intersect=true but ' + where)
        return ('fail', 'crossing-missed', 'intersect=false but ' + where)
    if want_t is not None and gt != want_t:
        if gt: return ('fail', 'touching-reported-outside-segments', 'touches=true but ' + where)
        return ('fail', 'touching-missed', 'touches=false but ' + where)
    # reported points
    for got, ptoks, nm in ((gi, pi, 'intersect'), (gt, pt, 'touches')):
        if got:
            if not sane(ptoks): return ('fail', 'crossing-point-not-finite', nm + ' point not finite')
            e = flen(vsub(P(ptoks, 0), pr.X))
            tol = 2 * pr.u + REL() * (pr.M + pr.la) / pr.sin
            if e > max(tol, float(T5) * B): return ('fail', 'crossing-point-wrong', '%s point is %s from the exact crossing point (%s)' % (nm, g(e), where))
    if want_i is None and want_t is None: return BAND
    return OK
