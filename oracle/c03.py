"""C03: rays that clearly hit are reported, nearest crossing first; clear misses / surfaces behind are not reported."""
import math
from .common import to_float
from .prims import *
from . import c02

M = 1e-6

def judge(ln):
    if ln.op == 'pl.int':
        tk = Tok(ln.args); c, n = tk.v(), tk.v(); O, D = rd_ray(tk)
        if not (finite(c, n, O, D) and norm(n) > 1e-9 and 1e-9 < norm(D) < 1e9): return ('skip', 'malformed-operand')
        nh = unit(n); den = dot(nh, D)
        if abs(den) < 1e-4 * norm(D): return ('skip', 'band')
        t = dot(nh, vsub(c, O)) / den
        sc = max(norm(c), norm(O), 1e-3) / norm(D)
        if abs(t) < M * sc: return ('skip', 'band')
        want = t > 0
        got = ln.res[0] == 'some'
        if want != got: return ('fail', 'missed-hit' if want else 'false-hit', 'plane: expected %s' % ('hit' if want else 'no hit'))
        return ('ok', '')
    pr = c02.parse(ln)
    if pr is None: return ('skip', 'leaf')
    P, O, D, space, suf = pr
    if ln.res[0] == 'panic':
        return ('skip', 'illegal-constructor') if not P.legal else ('fail', 'panic-on-legal-input', 'panic for legal constructor arguments and ray')
    if not P.legal or not finite(O, D) or norm(D) < 1e-9 or norm(D) > 1e9 or norm(O) > 1e9: return ('skip', 'malformed-operand')
    got = ln.res[0] == 'some'
    if P.kind == 'src':
        ca = dot(unit(D), P.p['d']); ch = math.cos(P.p['a'] / 2)
        if abs(ca - ch) < 1e-6: return ('skip', 'band')
        want = ca > ch
        if want != got: return ('fail', 'missed-hit' if want else 'false-hit', 'source cone: expected %s' % want)
        return ('ok', '')
    if space == 'local':
        Q = Prim(P.kind); Q.p = P.p; Q.xf = None
        if P.kind == 'cyl' and P.p.get('mode') == 'axis':
            L = norm(vsub(P.p['p1'], P.p['p0']))
            Q.p = dict(mode='local', r=P.p['r'], zmin=0.0, zmax=L, pm=P.p['pm'], full=P.p['full'])
        P = Q
        # local entry points take input error boxes: only judge exact inputs (zero errors)
        tk = Tok(ln.args); c02.READERS[ln.op.split('.')[0]](tk); rd_ray(tk)
        errs = [to_float(t) for t in tk.rest()[:6]]
        if any(e != 0 for e in errs): return ('skip', 'input-error-box')
    exp = expected_hit(P, O, D, M)
    if exp[0] == 'band': return ('skip', 'band')
    if exp[0] == 'none':
        if got: return ('fail', 'false-hit:' + P.kind, 'a hit is reported but the ray clearly misses (or the surface is behind the origin)')
        return ('ok', '')
    t = exp[1]
    if not got: return ('fail', 'missed-hit:' + P.kind, 'the ray clearly crosses the surface at t=%.9g but nothing is reported' % t)
    X = tuple(to_float(x) for x in ln.res[1:4])
    E = vadd(O, vmul(D, t))
    sc = local_scale(P, to_local(P, O) if P.xf is not None else O)
    tol = c02.TOL() * sc * 1000 * max(1.0, norm(D) * 0 + 1)
    if not finite(X) or norm(vsub(X, E)) > tol:
        return ('fail', 'not-nearest:' + P.kind, 'reported hit is %.3g away from the first valid crossing (t=%.9g)' % (norm(vsub(X, E)) if finite(X) else float('nan'), t))
    return ('ok', '')
