"""Reference geometry for the ray-primitive oracles (C02, C03, C13, C15b).

Everything here is an *independent* description of the surfaces in terms of the constructor arguments and the attached
transform (never of the crate's intermediate quantities).  Computations use python doubles; all decisions are made with
explicit margins that are many orders of magnitude above double rounding (1e-6/1e-7 relative), so they are reliable for
judging an f64 (and a fortiori f32) implementation 'away from the tolerance band'."""
import math
from .common import to_float, is_finite
from . import common as C

def TOL():
    return 2e-3 if C.FMT.name == 'f32' else 1e-7

# ---- tiny linear algebra on floats -------------------------------------------------------------------------------
def vadd(a, b): return (a[0]+b[0], a[1]+b[1], a[2]+b[2])
def vsub(a, b): return (a[0]-b[0], a[1]-b[1], a[2]-b[2])
def vmul(a, s): return (a[0]*s, a[1]*s, a[2]*s)
def dot(a, b): return a[0]*b[0] + a[1]*b[1] + a[2]*b[2]
def cross(a, b): return (a[1]*b[2]-a[2]*b[1], a[2]*b[0]-a[0]*b[2], a[0]*b[1]-a[1]*b[0])
def norm(a): return math.sqrt(dot(a, a))
def unit(a):
    n = norm(a)
    return (a[0]/n, a[1]/n, a[2]/n)

def ident(): return [[1.0 if i == j else 0.0 for j in range(4)] for i in range(4)]
def mmul(a, b): return [[sum(a[i][k]*b[k][j] for k in range(4)) for j in range(4)] for i in range(4)]
def mpt(m, p): return tuple(m[i][0]*p[0] + m[i][1]*p[1] + m[i][2]*p[2] + m[i][3] for i in range(3))
def mvec(m, v): return tuple(m[i][0]*v[0] + m[i][1]*v[1] + m[i][2]*v[2] for i in range(3))
def mvecT(m, v): return tuple(m[0][i]*v[0] + m[1][i]*v[1] + m[2][i]*v[2] for i in range(3))

def elem(kind, a):
    I = ident(); J = ident()
    if kind == 'T':
        I[0][3], I[1][3], I[2][3] = a; J[0][3], J[1][3], J[2][3] = (-a[0], -a[1], -a[2])
    elif kind == 'S':
        for i in range(3):
            I[i][i] = a[i]; J[i][i] = 1.0 / a[i] if a[i] != 0 else float('inf')
    elif kind in ('RX', 'RY', 'RZ'):
        r = math.radians(a[0]); c, s = math.cos(r), math.sin(r)
        if kind == 'RX':
            I[1][1], I[1][2], I[2][1], I[2][2] = c, -s, s, c; J[1][1], J[1][2], J[2][1], J[2][2] = c, s, -s, c
        elif kind == 'RY':
            I[0][0], I[0][2], I[2][0], I[2][2] = c, s, -s, c; J[0][0], J[0][2], J[2][0], J[2][2] = c, -s, s, c
        else:
            I[0][0], I[0][1], I[1][0], I[1][1] = c, -s, s, c; J[0][0], J[0][1], J[1][0], J[1][1] = c, s, -s, c
    return I, J

class Xf:
    """a transform: matrix, inverse, rigid? (orthogonal linear part), scale magnitude range"""
    def __init__(self):
        self.m = ident(); self.inv = ident(); self.rigid = True; self.ok = True
    def push(self, kind, a):
        if not all(math.isfinite(x) for x in a): self.ok = False; return
        if kind == 'S':
            if any(x == 0 for x in a): self.ok = False; return
            if any(abs(abs(x) - 1.0) > 1e-12 for x in a): self.rigid = False
        E, Ei = elem(kind, a)
        self.m = mmul(self.m, E); self.inv = mmul(Ei, self.inv)

class Tok:
    def __init__(self, toks): self.t = toks; self.i = 0
    def tok(self):
        x = self.t[self.i]; self.i += 1; return x
    def f(self): return to_float(self.tok())
    def v(self): return (self.f(), self.f(), self.f())
    def rest(self): return self.t[self.i:]

def rd_chain(tk):
    n = int(tk.tok()); x = Xf()
    for _ in range(n):
        k = tk.tok()
        if k in ('T', 'S'): x.push(k, tk.v())
        elif k in ('RX', 'RY', 'RZ'): x.push(k, (tk.f(),))
    return x

def rd_optchain(tk):
    return rd_chain(tk) if tk.tok() == 'Y' else None

class Prim:
    """kind in tri, disk, sphere, cyl, src;  xf: Xf or None;  params dict;  legal: constructor arguments legal & finite"""
    def __init__(self, kind): self.kind = kind; self.xf = None; self.p = {}; self.legal = True

def finite(*xs):
    for x in xs:
        if isinstance(x, tuple):
            if not all(math.isfinite(c) for c in x): return False
        elif not math.isfinite(x): return False
    return True

def rd_tri(tk):
    P = Prim('tri'); P.p = dict(a=tk.v(), b=tk.v(), c=tk.v())
    P.legal = finite(P.p['a'], P.p['b'], P.p['c'])
    if P.legal:
        n = cross(vsub(P.p['b'], P.p['a']), vsub(P.p['c'], P.p['a']))
        sz = max(norm(vsub(P.p['b'], P.p['a'])), norm(vsub(P.p['c'], P.p['a'])), 1e-300)
        if norm(n) < 1e-9 * sz * sz: P.legal = False     # degenerate triangle: outside the property's space
    return P

def rd_disk(tk):
    k = tk.tok(); P = Prim('disk')
    c, n, r = tk.v(), tk.v(), tk.f()
    inner, pz, pm, xf = 0.0, None, 360.0, None
    if k == 'D1':
        inner = tk.f(); pz = tk.v(); pm = tk.f(); xf = rd_optchain(tk)
    P.xf = xf
    # the crate builds the disk's frame with Vector3D::get_perpendicular, which treats components below 100*EPSILON as zero
    # (2.2e-14 in f64, 1.2e-5 in the f32 build): a normal that short is not a legal argument
    from . import common as _C
    nmin = 1e-9 if _C.FMT.name != 'f32' else 1e-3
    P.legal = finite(c, n, r, inner, pm) and (pz is None or finite(pz)) and norm(n) > nmin and r > inner >= 0 and 0 <= pm <= 360 and (xf is None or xf.ok)
    if P.legal:
        nh = unit(n)
        if pz is not None:
            q = vsub(pz, vmul(nh, dot(nh, pz)))
            # the crate refuses phi_zero "parallel" to the normal by an absolute test |pz|^2 sin^2 < 1e-5: stay clear of it
            if dot(q, q) < 1e-4 or norm(pz) < 1e-9: P.legal = False
            else: pz = unit(q)
        P.p = dict(c=c, n=nh, r=r, inner=inner, pz=pz, pm=math.radians(pm), full=(pm >= 360.0))
    return P

def rd_sphere(tk):
    k = tk.tok(); P = Prim('sphere'); r = tk.f()
    c = (0.0, 0.0, 0.0); zmin, zmax, pm, xf = -2*r, 2*r, 360.0, None
    if k == 'S0': c = tk.v()
    elif k == 'S1': c = tk.v(); zmin = tk.f(); zmax = tk.f(); pm = tk.f()
    elif k == 'S2': xf = rd_optchain(tk)
    else: zmin = tk.f(); zmax = tk.f(); pm = tk.f(); xf = rd_optchain(tk)
    P.legal = finite(r, c, zmin, zmax, pm) and r > 1e-9 and zmin <= zmax and 0 <= pm <= 360 and (xf is None or xf.ok)
    if P.legal:
        if k in ('S0', 'S1'):
            xf = Xf()
            if any(abs(x) >= 100 * 2.0**-52 for x in c): xf.push('T', c)
        P.xf = xf
        P.p = dict(r=r, zmin=max(zmin, -r), zmax=min(zmax, r), pm=math.radians(pm), full=(pm >= 360.0))
    return P

def rd_cyl(tk):
    k = tk.tok(); P = Prim('cyl')
    if k in ('C0', 'C1'):
        p0, p1, r = tk.v(), tk.v(), tk.f()
        pm = tk.f() if k == 'C1' else 360.0
        P.legal = finite(p0, p1, r, pm) and r > 1e-9 and 0 <= pm <= 360 and norm(vsub(p1, p0)) > 1e-9
        if P.legal:
            P.p = dict(mode='axis', p0=p0, p1=p1, r=r, pm=math.radians(pm), full=(pm >= 360.0))
    else:
        r, zmin, zmax, pm = tk.f(), tk.f(), tk.f(), tk.f(); xf = rd_optchain(tk)
        P.legal = finite(r, zmin, zmax, pm) and r > 1e-9 and zmin <= zmax and 0 <= pm <= 360 and (xf is None or xf.ok)
        if P.legal:
            P.xf = xf
            P.p = dict(mode='local', r=r, zmin=zmin, zmax=zmax, pm=math.radians(pm), full=(pm >= 360.0))
    return P

def rd_src(tk):
    P = Prim('src'); d = tk.v(); a = tk.f()
    P.legal = finite(d, a) and norm(d) > 1e-9 and 0 < a < math.pi
    if P.legal: P.p = dict(d=unit(d), a=a)
    return P

def rd_ray(tk):
    return tk.v(), tk.v()

READERS = {'tri': rd_tri, 'dk': rd_disk, 'sp': rd_sphere, 'cy': rd_cyl, 'ds': rd_src}

def to_local(P, X):
    return mpt(P.xf.inv, X) if P.xf is not None else X
def vec_to_local(P, V):
    return mvec(P.xf.inv, V) if P.xf is not None else V
def to_world(P, X):
    return mpt(P.xf.m, X) if P.xf is not None else X
def normal_to_world(P, n):
    return mvecT(P.xf.inv, n) if P.xf is not None else n

def ang(y, x):
    a = math.atan2(y, x)
    return a + 2 * math.pi if a < 0 else a

def cyl_frame(P):
    """for axis-mode cylinders: (p0, axis unit, length)"""
    l = vsub(P.p['p1'], P.p['p0']); L = norm(l)
    return P.p['p0'], (l[0]/L, l[1]/L, l[2]/L), L

def surface_residual(P, X, tol):
    """is the WORLD point X on the surface of P within its clipping limits?  returns None if yes, else a reason string.
       tol is an absolute length tolerance in local units."""
    k = P.kind
    if k == 'tri':
        a, b, c = P.p['a'], P.p['b'], P.p['c']
        e1, e2 = vsub(b, a), vsub(c, a); n = cross(e1, e2); nn = norm(n)
        w = vsub(X, a)
        if abs(dot(n, w)) / nn > tol: return 'off the triangle plane by %.3g' % (dot(n, w) / nn)
        # barycentric
        d11, d12, d22 = dot(e1, e1), dot(e1, e2), dot(e2, e2)
        r1, r2 = dot(w, e1), dot(w, e2)
        det = d11 * d22 - d12 * d12
        u = (d22 * r1 - d12 * r2) / det; v = (d11 * r2 - d12 * r1) / det
        sz = max(math.sqrt(d11), math.sqrt(d22))
        m = tol / sz
        if u < -m or v < -m or u + v > 1 + m:
            # a sliver (nearly collinear vertices) makes the barycentric solve ill-conditioned by kappa = |e1||e2| / |e1 x e2|, for
            # the crate as for this oracle: judge the Euclidean distance from X to the triangle against tol * kappa instead
            kappa = math.sqrt(d11) * math.sqrt(d22) / nn
            def dseg(p, q):
                pq = vsub(q, p); t = max(0.0, min(1.0, dot(vsub(X, p), pq) / max(dot(pq, pq), 1e-300)))
                return norm(vsub(X, vadd(p, vmul(pq, t))))
            dist = min(dseg(a, b), dseg(b, c), dseg(c, a))
            if dist > tol * max(1.0, kappa):
                return 'outside the triangle (u=%.9g v=%.9g, %.3g from it; conditioning %.3g)' % (u, v, dist, kappa)
        return None
    x = to_local(P, X)
    if k == 'disk':
        c, n = P.p['c'], P.p['n']; w = vsub(x, c)
        if abs(dot(n, w)) > tol: return 'off the disk plane by %.3g' % dot(n, w)
        rho = norm(vsub(w, vmul(n, dot(n, w))))
        if rho > P.p['r'] + tol or rho < P.p['inner'] - tol: return 'radius %.9g outside [%.9g, %.9g]' % (rho, P.p['inner'], P.p['r'])
        if not P.p['full'] and P.p['pz'] is not None and rho > 10 * tol:
            px = dot(w, P.p['pz']); py = dot(w, cross(n, P.p['pz']))
            a = ang(py, px)
            if a > P.p['pm'] + tol / rho and a < 2 * math.pi - tol / rho: return 'angle %.9g beyond phi_max %.9g' % (a, P.p['pm'])
        return None
    if k == 'sphere':
        r = P.p['r']; d = norm(x)
        lim = 1e-5 * r
        extra = 2 * lim if (abs(x[0]) <= 2 * lim and abs(x[1]) <= 2 * lim) else 0.0   # documented pole nudge
        if abs(d - r) > tol + extra: return 'distance to centre %.12g, radius %.12g' % (d, r)
        if x[2] < P.p['zmin'] - tol or x[2] > P.p['zmax'] + tol: return 'z=%.9g outside [%.9g, %.9g]' % (x[2], P.p['zmin'], P.p['zmax'])
        rho = math.hypot(x[0], x[1])
        if not P.p['full'] and rho > 10 * tol + 2 * lim:
            a = ang(x[1], x[0])
            if a > P.p['pm'] + tol / rho and a < 2 * math.pi - tol / rho: return 'angle %.9g beyond phi_max %.9g' % (a, P.p['pm'])
        return None
    if k == 'cyl':
        r = P.p['r']
        if P.p['mode'] == 'axis':
            p0, ax, L = cyl_frame(P)
            w = vsub(X, p0); s = dot(w, ax)
            rho = norm(vsub(w, vmul(ax, s)))
            if abs(rho - r) > tol: return 'distance to the p0-p1 axis %.12g, radius %.12g' % (rho, r)
            if s < -tol or s > L + tol: return 'axial position %.9g outside [0, %.9g]' % (s, L)
            return None
        rho = math.hypot(x[0], x[1])
        if abs(rho - r) > tol: return 'distance to the axis %.12g, radius %.12g' % (rho, r)
        if x[2] < P.p['zmin'] - tol or x[2] > P.p['zmax'] + tol: return 'z=%.9g outside [%.9g, %.9g]' % (x[2], P.p['zmin'], P.p['zmax'])
        if not P.p['full']:
            a = ang(x[1], x[0])
            if a > P.p['pm'] + tol / rho and a < 2 * math.pi - tol / rho: return 'angle %.9g beyond phi_max %.9g' % (a, P.p['pm'])
        return None
    return None

def local_scale(P, O):
    """a length scale of the configuration in local units"""
    k = P.kind
    if k == 'tri':
        s = max(norm(P.p['a']), norm(P.p['b']), norm(P.p['c']))
    elif k == 'disk': s = P.p['r'] + norm(P.p['c'])
    elif k == 'sphere': s = P.p['r']
    elif k == 'cyl':
        s = P.p['r'] + (norm(P.p['p0']) + norm(P.p['p1']) if P.p['mode'] == 'axis' else max(abs(P.p['zmin']), abs(P.p['zmax'])))
    else: s = 1.0
    return max(s, norm(O), 1e-3)

def geo_normal(P, X):
    """a world-space normal direction of the surface at the world point X (outward / declared / right-hand rule)"""
    k = P.kind
    if k == 'tri':
        return cross(vsub(P.p['b'], P.p['a']), vsub(P.p['c'], P.p['a']))
    if k == 'disk': return normal_to_world(P, P.p['n'])
    if k == 'sphere':
        return normal_to_world(P, to_local(P, X))
    if k == 'cyl':
        if P.p['mode'] == 'axis':
            p0, ax, L = cyl_frame(P); w = vsub(X, p0)
            return vsub(w, vmul(ax, dot(w, ax)))
        x = to_local(P, X)
        return normal_to_world(P, (x[0], x[1], 0.0))
    return None

# ---- reference intersection (for C03) ---------------------------------------------------------------------------------

def crossings(P, O, D, m):
    """reference crossings of the WORLD ray with the unclipped surface, in order of t, as a list of (t, status) where status is
       'valid' (clearly inside all clips), 'clipped' (clearly outside one) or 'band' (within relative margin m of a decision
       boundary).  Returns None if the ray is within the margin of tangency/parallelism (whole case ambiguous)."""
    k = P.kind
    if k == 'src': return None
    if k == 'tri':
        a, b, c = P.p['a'], P.p['b'], P.p['c']
        e1, e2 = vsub(b, a), vsub(c, a); n = cross(e1, e2)
        den = dot(n, D)
        if abs(den) <= 1e-4 * norm(n) * norm(D): return None
        t = dot(n, vsub(a, O)) / den
        X = vadd(O, vmul(D, t)); w = vsub(X, a)
        d11, d12, d22 = dot(e1, e1), dot(e1, e2), dot(e2, e2)
        r1, r2 = dot(w, e1), dot(w, e2); det = d11 * d22 - d12 * d12
        u = (d22 * r1 - d12 * r2) / det; v = (d11 * r2 - d12 * r1) / det
        lo = min(u, v, 1 - u - v)
        st = 'valid' if lo > m else ('clipped' if lo < -m else 'band')
        return [(t, st)]
    o = to_local(P, O); d = vec_to_local(P, D)
    if k == 'cyl' and P.p['mode'] == 'axis':
        p0, ax, L = cyl_frame(P)
        # build a local frame: z along the axis
        w = vsub(O, p0); oz = dot(w, ax); dz = dot(D, ax)
        op = vsub(w, vmul(ax, oz)); dp = vsub(D, vmul(ax, dz))
        A = dot(dp, dp); B = 2 * dot(op, dp); Cc = dot(op, op) - P.p['r'] ** 2
        zf = lambda t: oz + t * dz
        zmin, zmax = 0.0, L
        # a partial cylinder built from two points: where phi = 0 lies is not part of the documented contract
        phif = None if P.p['full'] else 'unknown'
        r = P.p['r']
    elif k == 'cyl':
        A = d[0]*d[0] + d[1]*d[1]; B = 2 * (o[0]*d[0] + o[1]*d[1]); Cc = o[0]*o[0] + o[1]*o[1] - P.p['r'] ** 2
        zf = lambda t: o[2] + t * d[2]; zmin, zmax = P.p['zmin'], P.p['zmax']
        phif = (lambda t: ang(o[1] + t * d[1], o[0] + t * d[0])) if not P.p['full'] else None
        r = P.p['r']
    elif k == 'sphere':
        A = dot(d, d); B = 2 * dot(o, d); Cc = dot(o, o) - P.p['r'] ** 2
        zf = lambda t: o[2] + t * d[2]; zmin, zmax = P.p['zmin'], P.p['zmax']
        phif = (lambda t: ang(o[1] + t * d[1], o[0] + t * d[0])) if not P.p['full'] else None
        r = P.p['r']
    elif k == 'disk':
        n, c = P.p['n'], P.p['c']
        den = dot(n, d)
        if abs(den) <= 1e-4 * norm(d): return None
        t = dot(n, vsub(c, o)) / den
        x = vadd(o, vmul(d, t)); w = vsub(x, c); rho = norm(w)
        R, inner = P.p['r'], P.p['inner']
        st = 'valid'
        if rho > R * (1 + m) or rho < inner * (1 - m) - (m * R if inner > 0 else 0): st = 'clipped'
        elif rho > R * (1 - m) or (inner > 0 and rho < inner * (1 + m) + m * R): st = 'band'
        if st == 'valid' and not P.p['full']:
            if P.p['pz'] is None: st = 'band'
            elif rho < 1e-3 * R: st = 'band'
            else:
                a = ang(dot(w, cross(n, P.p['pz'])), dot(w, P.p['pz']))
                if abs(a - P.p['pm']) < 1e-4 or a < 1e-4 or a > 2 * math.pi - 1e-4: st = 'band'
                elif a > P.p['pm']: st = 'clipped'
        return [(t, st)]
    else:
        return None
    if A <= 1e-12 * max(dot(d, d), 1e-300) if k != 'sphere' else A <= 0: return None
    disc = B * B - 4 * A * Cc
    big = B * B + abs(4 * A * Cc)
    if disc < -1e-5 * big: return []
    if disc < 1e-5 * big: return None
    sq = math.sqrt(disc)
    q = -0.5 * (B - sq) if B < 0 else -0.5 * (B + sq)
    if q == 0: return None
    ts = sorted([q / A, Cc / q])
    out = []
    for t in ts:
        st = 'valid'
        z = zf(t)
        span = max(r, abs(zmax - zmin))
        zl_active = not (k == 'sphere' and zmin <= -r)
        zh_active = not (k == 'sphere' and zmax >= r)
        if (zl_active and z < zmin - m * span) or (zh_active and z > zmax + m * span): st = 'clipped'
        elif (zl_active and z < zmin + m * span) or (zh_active and z > zmax - m * span): st = 'band'
        if st == 'valid' and phif == 'unknown':
            st = 'band'
        if st == 'valid' and phif is not None:
            a = phif(t)
            if k == 'sphere':
                # near the poles phi is meaningless
                x0 = o[0] + t * d[0]; y0 = o[1] + t * d[1]
                if math.hypot(x0, y0) < 1e-3 * r: st = 'band'
            if st == 'valid':
                if abs(a - P.p['pm']) < 1e-4 or a < 1e-4 or a > 2 * math.pi - 1e-4: st = 'band'
                elif a > P.p['pm']: st = 'clipped'
        if k == 'sphere' and st == 'valid':
            x0 = o[0] + t * d[0]; y0 = o[1] + t * d[1]
            if math.hypot(x0, y0) < 3e-5 * r: st = 'band'   # documented singularity guard moves the point
        out.append((t, st))
    return out

def expected_hit(P, O, D, m):
    """('some', t) / ('none',) / ('band',)"""
    cr = crossings(P, O, D, m)
    if cr is None: return ('band',)
    scale_t = local_scale(P, O) / max(norm(D), 1e-300)
    for (t, st) in cr:
        if t < -m * scale_t: continue            # clearly behind
        if t <= m * scale_t: return ('band',)     # at zero distance
        if st == 'valid': return ('some', t)
        if st == 'band': return ('band',)
        # clipped: look at the next crossing
    return ('none',)
