"""C08: any sequence of refinement steps keeps a conforming mesh of the same region.

Judges `mesh.hist` lines (histories of split_edge / split_triangle / flip_diagonal / restore_delaunay / add_point / refine /
get_flipped_aspect_ratio steps on a mesh obtained by `from_polygon`) and `mesh.is_convex` lines.

Everything discrete is decided in exact integer arithmetic: every finite float token is m * 2^e; all the coordinates of one line are
scaled by one common power of two, so points are integer triples and orientations / areas / collinearity are exact.  The mesh lives in
a plane only up to rounding, therefore the combinatorial geometry (orientation of a triangle, barycentric coordinates, convexity of a
quadrilateral) is judged in the 2-D projection that drops the dominant coordinate of the exact vector area of the initial mesh (an
affine injective map on the plane of the mesh: incidence, orientation and area ratios are preserved).

A state is CONFORMING when
  * the printed slot count / n_valid agree with the slots listed, no valid slot is degenerate, all valid triangles have the orientation
    of the initial mesh (exact sign of the projected area),
  * no directed edge occurs twice, every edge whose reverse occurs in another valid triangle (interior edge) carries neighbour
    pointers on both sides that reference each other, every other edge (boundary edge) carries no pointer,
  * the boundary edges are exactly chains that subdivide the edges of the polygon (outer loop and holes) monotonically, every piece is
    flagged constrained,
  * the sum of the exact (vector) areas is the one of the initial mesh,
  * the cached area / centroid / circumcentre / aspect ratio / index of every valid slot agree with its vertices,
  * (after a successful step on a mesh without discarded slots) no discarded slot is left in the list handed to the user.

Admissibility of a step is decided on the state BEFORE the step (see `adm_*`, `classify_ap`); a history is judged step by step up to
the first step that is inadmissible or in a tolerance band (unless it left the printed state untouched, then it is passed over), or
that answered `err` and left a mesh that is not conforming any more (nothing is demanded of a failed step; when the mesh it leaves is
still a conforming mesh of the polygon the history goes on from there).  `panic` / `fuel` after an admissible step on a conforming mesh
is a failure.  A non-conforming mesh straight out of `from_polygon` is reported as `initial-mesh-not-conforming` (a finding about
from_polygon, i.e. C01/C09, which makes the line useless for C08).

Digest histories (d = 1) print neither the initial nor the intermediate states, so admissibility cannot be decided and nothing can be
held against the crate; they are `ok` when the final state is a conforming mesh of the polygon (the conclusion of the property holds
whatever the steps were) and skipped as `digest-history` otherwise.

Verdict of a line: fail > ok (at least one step judged) > skip (key = reason why judging stopped before the first judged step).
`report()` gives per step kind how many steps were reached with a known conforming pre-state and what became of them."""
from fractions import Fraction
import math, collections
from . import common as OC

STATS = collections.Counter()      # ('step', kind, outcome) counters; see report()
LAST_PANIC = ['']

class _Skip(Exception):
    def __init__(self, key): self.key = key

# ------------------------------------------------------------------------------------------------ tokens -> exact scaled integers
_DEC = {}
def _dec(tok):
    """finite float token -> (m, e) with value m * 2^e, m odd (or 0, e = 0); None when not finite"""
    r = _DEC.get(tok)
    if r is not None or tok in _DEC: return r
    r = None
    try:
        if tok != 'nan':
            b = int(tok, 16)
            if len(tok) == 16: s, ex, fr, bias, mb, emax = b >> 63, (b >> 52) & 0x7ff, b & ((1 << 52) - 1), 1075, 52, 0x7ff
            else: s, ex, fr, bias, mb, emax = b >> 31, (b >> 23) & 0xff, b & ((1 << 23) - 1), 150, 23, 0xff
            if ex != emax:
                if ex == 0: m, e = fr, 1 - bias
                else: m, e = fr | (1 << mb), ex - bias
                if m == 0: r = (0, 0)
                else:
                    tz = (m & -m).bit_length() - 1
                    r = ((-(m >> tz)) if s else (m >> tz), e + tz)
    except ValueError:
        r = None
    if len(_DEC) > 400000: _DEC.clear()
    _DEC[tok] = r
    return r

def tolerances():
    f32 = OC.FMT.name == 'f32'
    return {
        'ON': 10**4 if f32 else 10**9,        # "on the segment / in the plane / same area": relative 1/ON
        'REL': 1e-4 if f32 else 1e-9,         # cached floats
        'EPS': 1.2e-7 if f32 else 2.3e-16,
        'END': 1000,                          # inserted points at least 1/END (relative) away from vertices / edges
        'MARG': 10**3 if f32 else 10**6,      # margin of strict convexity / clear containment (sine of the turn at a corner)
    }

def sub(a, b): return (a[0] - b[0], a[1] - b[1], a[2] - b[2])
def dot(a, b): return a[0] * b[0] + a[1] * b[1] + a[2] * b[2]
def cross(a, b): return (a[1] * b[2] - a[2] * b[1], a[2] * b[0] - a[0] * b[2], a[0] * b[1] - a[1] * b[0])
def n2(a): return a[0] * a[0] + a[1] * a[1] + a[2] * a[2]
def orient2(a, b, c): return (b[0] - a[0]) * (c[1] - a[1]) - (b[1] - a[1]) * (c[0] - a[0])
def d2sq(a, b): return (a[0] - b[0]) ** 2 + (a[1] - b[1]) ** 2
def sgn(x): return (x > 0) - (x < 0)

# ------------------------------------------------------------------------------------------------ parsing
class Slot:
    __slots__ = ('text', 't', 'v', 'nb', 'cons', 'valid', 'idx', 'a2', 'derived')
    def __init__(self, text):
        self.text = text
        t = text.split(' ')
        if len(t) != 23: raise _Skip('malformed-state')
        self.t = t
        self.nb = [None if x == '-' else int(x) for x in t[9:12]]
        self.cons = [ch == '1' for ch in t[12]]
        self.valid = t[13] == '1'
        self.idx = int(t[22])
        self.v = None; self.a2 = None; self.derived = None

class State:
    __slots__ = ('text', 'nslots', 'nvalid', 'slots', 'suma2', 'boundary', 'ninvalid')

class Ctx:
    """one history line: scale, vertex table, projection, polygon loops"""
    def __init__(self):
        self.slotcache = {}
        self.K = 0
        self.sc = {}
        self.vid = {}
        self.P = []       # exact 3-D integer coordinates (value * 2^K)
        self.P2 = []      # projected
        self.tol = tolerances()

    def parse_state(self, text):
        parts = text.split(' ; ')
        head = parts[0].split(' ')
        if len(head) != 2: raise _Skip('malformed-state')
        st = State()
        st.text = text
        st.nslots, st.nvalid = int(head[0]), int(head[1])
        sl = []
        cache = self.slotcache
        for p in parts[1:]:
            s = cache.get(p)
            if s is None:
                s = Slot(p); cache[p] = s
            sl.append(s)
        st.slots = sl; st.suma2 = None; st.boundary = None
        return st

    def set_scale(self, toks):
        k = 0
        for t in toks:
            d = _dec(t)
            if d is None: raise _Skip('non-finite-coordinate')
            if -d[1] > k: k = -d[1]
        if k > 4000: raise _Skip('extreme-exponent')
        self.K = k

    def coord(self, tok):
        r = self.sc.get(tok)
        if r is None:
            d = _dec(tok)
            if d is None: raise _Skip('non-finite-coordinate')
            if d[1] + self.K < 0: raise _Skip('scale')          # cannot happen: set_scale saw every vertex token
            r = d[0] << (d[1] + self.K)
            self.sc[tok] = r
        return r

    def point(self, t3):
        c = self.coord
        return (c(t3[0]), c(t3[1]), c(t3[2]))

    def vertex(self, p):
        k = self.vid.get(p)
        if k is None:
            k = len(self.P); self.vid[p] = k; self.P.append(p)
            if self.P2 is not None and hasattr(self, 'u'): self.P2.append((p[self.u], p[self.w]))
        return k

    def slot_vertices(self, s):
        if s.v is None:
            t = s.t
            s.v = (self.vertex(self.point(t[0:3])), self.vertex(self.point(t[3:6])), self.vertex(self.point(t[6:9])))
        return s.v

    def set_projection(self, N):
        a = [abs(x) for x in N]
        self.ax = a.index(max(a))
        self.u, self.w = (self.ax + 1) % 3, (self.ax + 2) % 3
        self.sg = sgn(N[self.ax])
        self.N = N
        self.P2 = [(p[self.u], p[self.w]) for p in self.P]

    def fl(self, x):
        """scaled integer -> float"""
        return math.ldexp(float(x), -self.K)

def split_groups(rhs):
    return rhs.split(' | ')

def parse_args(A):
    """-> (digest, loops (list of list of 3-token lists), steps)"""
    i = 0
    d = A[i] != '0'; i += 1
    loops = []
    n = int(A[i]); i += 1
    loops.append([A[i + 3 * j:i + 3 * j + 3] for j in range(n)]); i += 3 * n
    h = int(A[i]); i += 1
    for _ in range(h):
        n = int(A[i]); i += 1
        loops.append([A[i + 3 * j:i + 3 * j + 3] for j in range(n)]); i += 3 * n
    k = int(A[i]); i += 1
    steps = []
    for _ in range(k):
        kind = A[i]; i += 1
        if kind == 'SE': steps.append(('SE', int(A[i]), int(A[i + 1]), A[i + 2:i + 5])); i += 5
        elif kind == 'ST': steps.append(('ST', int(A[i]), A[i + 1:i + 4])); i += 4
        elif kind == 'FD': steps.append(('FD', int(A[i]), int(A[i + 1]))); i += 2
        elif kind == 'RD': steps.append(('RD', A[i])); i += 1
        elif kind == 'AP': steps.append(('AP', A[i:i + 3])); i += 3
        elif kind == 'RF': steps.append(('RF', A[i], A[i + 1])); i += 2
        elif kind == 'FA': steps.append(('FA', int(A[i]), int(A[i + 1]))); i += 2
        else: raise _Skip('malformed-step')
    return d, loops, steps

# ------------------------------------------------------------------------------------------------ conformity of one state
def tri_a2(cx, v):
    P2 = cx.P2
    return orient2(P2[v[0]], P2[v[1]], P2[v[2]])

def check_topology(cx, st):
    """bookkeeping, orientation, reciprocity; fills st.suma2 and st.boundary.  Returns None or (key, detail)."""
    slots = st.slots
    n = len(slots)
    if st.nslots != n: return ('slot-count-wrong', 'printed slot count %d but %d slots listed' % (st.nslots, n))
    valid = [i for i in range(n) if slots[i].valid]
    st.ninvalid = n - len(valid)
    if st.nvalid != len(valid):
        return ('n-valid-wrong', 'n_valid_triangles is %d but %d slots are valid' % (st.nvalid, len(valid)))
    sg = cx.sg
    tot = 0
    edge = {}
    for i in valid:
        s = slots[i]
        v = cx.slot_vertices(s)
        if s.a2 is None: s.a2 = tri_a2(cx, v)
        if s.a2 == 0: return ('zero-area-triangle', 'valid slot %d has exact (projected) area 0' % i)
        if sgn(s.a2) != sg: return ('inverted-triangle', 'valid slot %d is oriented against the initial mesh' % i)
        tot += s.a2
        for e in range(3):
            key = (v[e], v[(e + 1) % 3])
            if key in edge:
                return ('edge-in-two-triangles-same-side', 'directed edge %d of slot %d is also edge %d of slot %d (two triangles on the same side of an edge)' % (e, i, edge[key][1], edge[key][0]))
            edge[key] = (i, e)
    boundary = []
    for (a, b), (i, e) in edge.items():
        nb = slots[i].nb[e]
        rev = edge.get((b, a))
        if rev is None:
            if nb is not None:
                if nb >= n: return ('neighbour-out-of-range', 'slot %d edge %d points to slot %d of %d' % (i, e, nb, n))
                if not slots[nb].valid: return ('neighbour-is-discarded-slot', 'valid slot %d edge %d points to the discarded slot %d' % (i, e, nb))
                return ('neighbour-does-not-share-edge', 'slot %d edge %d points to slot %d, which does not contain that edge reversed' % (i, e, nb))
            boundary.append((a, b, i, e))
        else:
            j, f = rev
            if nb is None:
                return ('interior-edge-without-pointer', 'edge %d of slot %d is shared with slot %d (edge %d) but has no neighbour pointer' % (e, i, j, f))
            if nb != j:
                if nb >= n: return ('neighbour-out-of-range', 'slot %d edge %d points to slot %d of %d' % (i, e, nb, n))
                if not slots[nb].valid: return ('neighbour-is-discarded-slot', 'valid slot %d edge %d points to the discarded slot %d (the edge is shared with slot %d)' % (i, e, nb, j))
                return ('neighbour-pointer-wrong', 'edge %d of slot %d is shared with slot %d but points to slot %d' % (e, i, j, nb))
    st.suma2 = tot
    st.boundary = boundary
    return None

def walk_loop(cx, st, out, loop, used, uncons):
    """follow the boundary edges along the closed polygon loop (vertex ids); True when every polygon edge is subdivided monotonically"""
    P = cx.P
    ON2 = cx.tol['ON'] ** 2
    m = len(loop)
    for q in range(m):
        A, B = loop[q], loop[(q + 1) % m]
        if A == B: continue
        pa = P[A]
        AB = sub(P[B], pa); L2 = n2(AB)
        cur = A; tprev = 0
        guard = 0
        while cur != B:
            guard += 1
            if guard > 100000: return False
            nxt = None
            for (v, i, e) in out.get(cur, ()):
                if v == B:
                    nxt = (v, i, e, L2); break
                d = sub(P[v], pa); t = dot(d, AB)
                if tprev < t < L2 and n2(cross(d, AB)) * ON2 <= L2 * L2:
                    nxt = (v, i, e, t); break
            if nxt is None: return False
            v, i, e, t = nxt
            if (cur, v) in used: return False
            used.add((cur, v))
            if not st.slots[i].cons[e]: uncons.append((i, e))
            cur = v; tprev = t
    return True

def check_outline(cx, st):
    """the boundary edges subdivide the polygon's edges; all flagged constrained.  Returns None or (key, detail)"""
    out = {}
    for (a, b, i, e) in st.boundary:
        out.setdefault(a, []).append((b, i, e))
    used_all = set(); uncons_all = []
    for li, loop in enumerate(cx.loops):
        okl = False
        for lp in (loop, loop[::-1]):
            used = set(used_all); uncons = []
            if walk_loop(cx, st, out, lp, used, uncons):
                okl = True; used_all = used; uncons_all += uncons
                break
        if not okl:
            return ('outline-changed', 'the boundary edges of the mesh no longer subdivide %s of the polygon' % ('the outer loop' if li == 0 else 'hole %d' % (li - 1)))
    if len(used_all) != len(st.boundary):
        for (a, b, i, e) in st.boundary:
            if (a, b) not in used_all:
                return ('outline-changed', 'edge %d of slot %d has no triangle on its other side but does not lie on the outline of the polygon' % (e, i))
    if uncons_all:
        i, e = uncons_all[0]
        return ('constraint-flag-lost', 'edge %d of slot %d lies on the outline of the polygon but is not flagged constrained' % (e, i))
    return None

def check_derived(cx, st):
    """cached floats of every valid slot against its vertices"""
    REL = cx.tol['REL']; EPS = cx.tol['EPS']
    P = cx.P; fl = cx.fl
    for pos, s in enumerate(st.slots):
        if not s.valid: continue
        if s.idx != pos: return ('slot-index-wrong', 'valid slot %d stores index %d' % (pos, s.idx))
        if s.derived is None:
            s.derived = _derived(cx, s, REL, EPS)
        if s.derived != 'ok':
            return (s.derived[0], 'slot %d: %s' % (pos, s.derived[1]))
    return None

def _derived(cx, s, REL, EPS):
    P = cx.P; fl = cx.fl
    v = s.v
    a, b, c = P[v[0]], P[v[1]], P[v[2]]
    try:
        ab = tuple(fl(x) for x in sub(b, a)); ac = tuple(fl(x) for x in sub(c, a)); bc = tuple(fl(x) for x in sub(c, b))
        fa = tuple(fl(x) for x in a); fb = tuple(fl(x) for x in b); fc = tuple(fl(x) for x in c)
    except OverflowError:
        return 'ok'
    t = s.t
    vals = [OC.to_float(x) for x in t[14:22]]
    ar, cc, cen, area = vals[0], vals[1:4], vals[4:7], vals[7]
    fin = math.isfinite
    cr = cross(ab, ac)
    cr2 = dot(cr, cr)
    A = 0.5 * math.sqrt(cr2)
    la, lb, lc = math.sqrt(dot(ab, ab)), math.sqrt(dot(bc, bc)), math.sqrt(dot(ac, ac))
    L = max(la, lb, lc); lmin = min(la, lb, lc)
    if A <= 0 or lmin <= 0: return 'ok'
    M = max(max(abs(x) for x in fa), max(abs(x) for x in fb), max(abs(x) for x in fc), 1e-300)
    # Heron / circumradius formulas lose eps * (L^2 / area)^2 relative accuracy, differences of coordinates eps * M / L
    cond = (L * L / A) ** 2
    noise = EPS * M / lmin
    tol = REL + 64 * EPS * cond + 64 * noise * (L * L / A)
    if tol < 0.01:
        if not (fin(area) and fin(ar)):
            return ('cached-value-not-finite', 'the cached area / aspect ratio of a well-shaped triangle is not finite')
        if abs(area - A) > tol * A:
            return ('cached-area-wrong', 'cached area %.17g, exact %.17g' % (area, A))
        R = la * lb * lc / (4 * A)
        if abs(ar - R / lmin) > tol * (R / lmin):
            return ('cached-aspect-ratio-wrong', 'cached aspect ratio %.17g, exact %.17g' % (ar, R / lmin))
    for k in range(3):
        ex = (fa[k] + fb[k] + fc[k]) / 3
        if not fin(cen[k]) or abs(cen[k] - ex) > REL * M + 8 * EPS * M:
            return ('cached-centroid-wrong', 'cached centroid coordinate %d is %.17g, exact %.17g' % (k, cen[k], ex))
    if L * L / A < 1e3:
        # circumcentre = a + ((ab x ac) x ab |ac|^2 + ac x (ab x ac) |ab|^2) / (2 |ab x ac|^2)
        t1 = cross(cr, ab); t2 = cross(ac, cr)
        ac2 = dot(ac, ac); ab2 = dot(ab, ab)
        R = la * lb * lc / (4 * A)
        for k in range(3):
            ex = fa[k] + (t1[k] * ac2 + t2[k] * ab2) / (2 * cr2)
            if not fin(cc[k]) or abs(cc[k] - ex) > (REL + 64 * EPS * cond + 64 * noise * (L * L / A)) * (M + R) * 4:
                return ('cached-circumcentre-wrong', 'cached circumcentre coordinate %d is %.17g, exact %.17g' % (k, cc[k], ex))
    return 'ok'

def conforming(cx, st, with_outline=True):
    r = check_topology(cx, st)
    if r: return r
    if with_outline:
        r = check_outline(cx, st)
        if r: return r
    return check_derived(cx, st)

# ------------------------------------------------------------------------------------------------ admissibility (on the pre-state)
def in_plane(cx, p):
    """|distance of p to the plane of the initial mesh| <= extent / ON"""
    d = dot(sub(p, cx.P0), cx.N)
    return d * d * cx.tol['ON'] ** 2 <= n2(cx.N) * cx.ext2

def adm_se(cx, st, i, e, p):
    if i >= len(st.slots) or not st.slots[i].valid or e > 2: return 'inadm'
    v = st.slots[i].v
    a, b = cx.P[v[e]], cx.P[v[(e + 1) % 3]]
    ab = sub(b, a); L2 = n2(ab); d = sub(p, a)
    t = dot(d, ab); c2 = n2(cross(d, ab))
    ON = cx.tol['ON']; END = cx.tol['END']
    on = c2 * ON * ON <= L2 * L2
    mid = t * END >= L2 and (L2 - t) * END >= L2
    if on and mid and in_plane(cx, p): return 'adm'
    if c2 * (ON // 100) ** 2 > L2 * L2 or t <= 0 or t >= L2: return 'inadm'
    return 'band'

def bary2(cx, v, p2):
    P2 = cx.P2
    A, B, C = P2[v[0]], P2[v[1]], P2[v[2]]
    return orient2(p2, B, C), orient2(A, p2, C), orient2(A, B, p2)

def adm_st(cx, st, i, p):
    if i >= len(st.slots) or not st.slots[i].valid: return 'inadm'
    s = st.slots[i]
    p2 = (p[cx.u], p[cx.w])
    sg = cx.sg
    lam = [sg * x for x in bary2(cx, s.v, p2)]
    tot = sg * s.a2
    END = cx.tol['END']
    if not in_plane(cx, p): return 'band'
    if all(l * END >= tot for l in lam): return 'adm'
    if any(l <= 0 for l in lam): return 'inadm'
    return 'band'

def quad_class(cx, q, sg):
    """q = 4 projected points in the order a, opposite, b, c: 'convex' / 'nonconvex' by a margin, else 'band'"""
    M2 = cx.tol['MARG'] ** 2
    res = 'convex'
    for k in range(4):
        x, y, z = q[k], q[(k + 1) % 4], q[(k + 2) % 4]
        o = orient2(x, y, z)
        l = d2sq(x, y) * d2sq(y, z)
        if o * o * M2 < l: return 'band'
        if sgn(o) != sg: res = 'nonconvex'
    return res

def flip_quad(cx, st, i, e):
    """(status, j, quad vertex ids a, opp, b, c) for the edge e of valid slot i"""
    s = st.slots[i]
    j = s.nb[e]
    if j is None or j >= len(st.slots) or not st.slots[j].valid: return ('no-neighbour', None, None)
    v = s.v
    a, b, c = v[e], v[(e + 1) % 3], v[(e + 2) % 3]
    w = st.slots[j].v
    opp = None
    for f in range(3):
        if w[f] == b and w[(f + 1) % 3] == a:
            opp = w[(f + 2) % 3]; cf = st.slots[j].cons[f]
    if opp is None: return ('no-neighbour', None, None)
    if s.cons[e] or cf: return ('constrained', j, (a, opp, b, c))
    return ('free', j, (a, opp, b, c))

def adm_fd(cx, st, i, e):
    if i >= len(st.slots) or not st.slots[i].valid or e > 2: return 'inadm'
    status, j, q = flip_quad(cx, st, i, e)
    if status != 'free': return 'inadm'
    k = quad_class(cx, [cx.P2[x] for x in q], cx.sg)
    return {'convex': 'adm', 'nonconvex': 'inadm', 'band': 'band'}[k]

def classify_ap(cx, st, p):
    """'inside' / 'edge' (within tolerance of an edge, away from the vertices) / 'vertex' / 'outside' (clearly) / 'band'"""
    if not in_plane(cx, p): return 'band'
    p2 = (p[cx.u], p[cx.w])
    sg = cx.sg
    ON = cx.tol['ON']; END = cx.tol['END']; MARG = cx.tol['MARG']
    best = 'outside'
    for s in st.slots:
        if not s.valid: continue
        lam = [sg * x for x in bary2(cx, s.v, p2)]
        tot = sg * s.a2
        mn = min(lam)
        if mn * MARG >= tot: return 'inside'
        if mn * MARG <= -tot: continue
        # near the boundary of this triangle
        if mn * ON >= -tot:
            small = sum(1 for l in lam if l * END < tot)
            if small >= 2: return 'vertex'
            if best in ('outside', 'band'): best = 'edge'
        elif best == 'outside': best = 'band'
    return best

# ------------------------------------------------------------------------------------------------ judging a history
def state_text(g, kind):
    """group text 'ok S' / 'err S' / 'ok 0 S' -> (class, flag, S)"""
    if g.startswith('ok '):
        rest = g[3:]
        if kind == 'AP': return 'ok', rest[0], rest[2:]
        return 'ok', None, rest
    if g.startswith('err '): return 'err', None, g[4:]
    return g, None, None

def area_check(cx, prev_sum, new_sum, exact, what):
    if exact:
        if new_sum != prev_sum:
            return ('area-changed', 'the exact sum of the triangle areas changed by a factor %.17g after %s (must be preserved exactly)' % (float(Fraction(new_sum, prev_sum)), what))
    else:
        if abs(new_sum - prev_sum) * cx.tol['ON'] > abs(prev_sum):
            return ('area-changed', 'the sum of the triangle areas changed by a factor %.17g after %s' % (float(Fraction(new_sum, prev_sum)), what))
    return None

def judge_fa(cx, st, step, g):
    """get_flipped_aspect_ratio on a conforming state: returns None (fine / not judged) or (key, detail); second value: judged?"""
    _, i, e = step
    if i >= len(st.slots) or not st.slots[i].valid or e > 2: return None, False, g == 'panic'
    if g == 'panic':
        return ('panic-in-flipped-aspect-ratio', 'get_flipped_aspect_ratio(%d, %d) panicked on a conforming mesh [%s]' % (i, e, LAST_PANIC[0])), True, True
    if g == 'err': return None, False, False
    status, j, q = flip_quad(cx, st, i, e)
    some = g.startswith('ok some')
    if status != 'free':
        if some: return ('flipped-aspect-ratio-offers-fixed-edge', 'get_flipped_aspect_ratio offers to flip edge %d of slot %d, which is %s' % (e, i, 'constrained' if status == 'constrained' else 'a boundary edge')), True, False
        return None, True, False
    k = quad_class(cx, [cx.P2[x] for x in q], cx.sg)
    if k == 'band': return None, False, False
    if k == 'nonconvex':
        if some: return ('flipped-aspect-ratio-offers-nonconvex-flip', 'get_flipped_aspect_ratio offers to flip edge %d of slot %d although the quadrilateral is not convex' % (e, i)), True, False
        return None, True, False
    if not some: return None, False, False     # refusing a convex flip keeps the mesh conforming
    x = OC.to_float(g.split(' ')[2])
    a, o, b, c = [cx.P[t] for t in q]
    def ar(p, q_, r):
        try:
            ab = [cx.fl(t) for t in sub(q_, p)]; ac = [cx.fl(t) for t in sub(r, p)]; bc = [cx.fl(t) for t in sub(r, q_)]
        except OverflowError: return None
        la, lb, lc = math.sqrt(dot(ab, ab)), math.sqrt(dot(bc, bc)), math.sqrt(dot(ac, ac))
        cr = cross(ab, ac); A = 0.5 * math.sqrt(dot(cr, cr))
        if A <= 0: return None
        return la * lb * lc / (4 * A) / min(la, lb, lc), (max(la, lb, lc) ** 2 / A) ** 2
    r1, r2 = ar(a, o, c), ar(o, b, c)
    if r1 is None or r2 is None: return None, False, False
    ex = max(r1[0], r2[0]); cond = max(r1[1], r2[1])
    tol = cx.tol['REL'] * 10 + 64 * cx.tol['EPS'] * cond * 1e3
    if tol < 0.01 and not (abs(x - ex) <= tol * ex):
        return ('flipped-aspect-ratio-wrong', 'get_flipped_aspect_ratio(%d, %d) = %.17g, exact %.17g' % (i, e, x, ex)), True, False
    return None, True, False

def judge_hist(ln):
    A = ln.args
    rhs = ln.text.partition(' => ')[2]
    panic_msg = LAST_PANIC[0]
    digest, loops_t, steps = parse_args(A)
    groups = split_groups(rhs)
    g0 = groups[0]
    if not g0.startswith('ok '):
        return ('skip', 'no-initial-mesh')
    cx = Ctx()
    # ---- parse every printed state, fix the common scale
    states = {}
    final = None
    if not digest:
        for gi, g in enumerate(groups):
            kind = steps[gi - 1][0] if gi > 0 and gi - 1 < len(steps) else None
            if kind == 'FA': continue
            cls, flag, txt = state_text(g, kind)
            if txt is not None:
                states[gi] = (cls, flag, cx.parse_state(txt))
    else:
        if groups[-1].startswith('final '):
            final = cx.parse_state(groups[-1][6:])
            groups = groups[:-1]
    vt = set()
    for lp in loops_t:
        for t3 in lp: vt.update(t3)
    for s in steps:
        if s[0] == 'SE': vt.update(s[3])
        elif s[0] == 'ST': vt.update(s[2])
        elif s[0] == 'AP': vt.update(s[1])
    for s in cx.slotcache.values():
        vt.update(s.t[0:9])
    cx.set_scale(vt)
    # ---- polygon
    cx.loops = [[cx.vertex(cx.point(t3)) for t3 in lp] for lp in loops_t]
    allp = [cx.P[k] for lp in cx.loops for k in lp]
    cx.P0 = allp[0]
    cx.ext2 = sum((max(p[k] for p in allp) - min(p[k] for p in allp)) ** 2 for k in range(3))
    N = (0, 0, 0)
    for lp in cx.loops:
        o = cx.P[lp[0]]
        for q in range(1, len(lp) - 1):
            c = cross(sub(cx.P[lp[q]], o), sub(cx.P[lp[q + 1]], o))
            N = (N[0] + c[0], N[1] + c[1], N[2] + c[2])
    if N == (0, 0, 0): return ('skip', 'degenerate-polygon')
    cx.set_projection(N)
    if digest:
        return judge_digest(cx, ln, steps, groups, final, panic_msg)
    # ---- initial mesh
    init = states[0][2]
    for s in init.slots: cx.slot_vertices(s)
    # the orientation of the mesh is that of its triangles (the outer loop may be given clockwise)
    tot = sum(tri_a2(cx, s.v) for s in init.slots if s.valid)
    if tot == 0: return ('fail', 'initial-mesh-not-conforming', 'the initial mesh has total area 0 (this belongs to the from_polygon properties C01/C09)')
    cx.sg = sgn(tot)
    r = conforming(cx, init)
    if r is None:
        # the area of the initial mesh is the area of the polygon (outer minus holes), exactly
        pa = polygon_a2(cx)
        if abs(init.suma2) != pa: r = ('area', 'the triangles have %.17g times the area of the polygon' % float(Fraction(abs(init.suma2), pa)))
    if r is not None:
        return ('fail', 'initial-mesh-not-conforming', 'from_polygon: %s: %s (this belongs to the from_polygon properties C01/C09)' % r)
    if init.ninvalid: return ('skip', 'initial-mesh-has-discarded-slots')
    area0 = init.suma2
    prev = init
    judged = 0
    stop = None
    for k, step in enumerate(steps):
        if k + 1 >= len(groups): break
        g = groups[k + 1]
        kind = step[0]
        # ---------------- read-only step
        if kind == 'FA':
            STATS[('reached', kind)] += 1
            r, jd, ended = judge_fa(cx, prev, step, g)
            if r:
                STATS[('fail', kind)] += 1
                return ('fail', r[0], 'step %d (FA): %s' % (k + 1, r[1]))
            if jd: judged += 1; STATS[('judged', kind)] += 1
            else: STATS[('unjudged', kind)] += 1
            if ended: stop = 'inadmissible-step'; break
            continue
        # ---------------- admissibility on the pre-state
        apc = None
        if kind == 'SE': adm = adm_se(cx, prev, step[1], step[2], cx.point(step[3]))
        elif kind == 'ST': adm = adm_st(cx, prev, step[1], cx.point(step[2]))
        elif kind == 'FD': adm = adm_fd(cx, prev, step[1], step[2])
        elif kind == 'AP':
            apc = classify_ap(cx, prev, cx.point(step[1]))
            adm = {'inside': 'adm', 'edge': 'adm', 'outside': 'adm', 'vertex': 'inadm', 'band': 'band'}[apc]
        else: adm = 'adm'
        what = describe(step)
        STATS[('reached', kind)] += 1
        if g == 'panic' or g == 'fuel':
            if adm == 'adm':
                STATS[('fail', kind)] += 1
                if g == 'fuel': return ('fail', 'runaway-in-' + LONG[kind], 'step %d (%s): did not terminate (fuel exhausted) on a conforming mesh' % (k + 1, what))
                return ('fail', 'panic-in-' + LONG[kind], 'step %d (%s): panic on a conforming mesh after an admissible step [%s]' % (k + 1, what, panic_msg))
            stop = 'inadmissible-step' if adm == 'inadm' else 'band'
            STATS[('stop-' + stop, kind)] += 1
            break
        if (k + 1) not in states: return ('skip', 'malformed-state')
        cls, flag, st = states[k + 1]
        unchanged = st.text == prev.text
        if adm != 'adm':
            if unchanged:
                STATS[('inadmissible-noop', kind)] += 1
                continue
            stop = 'inadmissible-step' if adm == 'inadm' else 'band'
            STATS[('stop-' + stop, kind)] += 1
            break
        if cls == 'err':
            if unchanged:
                # refused, nothing touched: the mesh is the same conforming mesh
                if kind == 'AP' and apc == 'outside': judged += 1; STATS[('judged', kind)] += 1
                else: STATS[('refused-unchanged', kind)] += 1
                continue
            if kind == 'AP' and apc == 'outside':
                STATS[('fail', kind)] += 1
                return ('fail', 'add-point-outside-changed-mesh', 'step %d (%s): the point lies in no triangle, add_point answered err but changed the mesh' % (k + 1, what))
            # the step failed half-way or gave up: nothing is demanded of the mesh it leaves behind; when that mesh happens to be a
            # conforming mesh of the polygon (without discarded slots) the history goes on from it, otherwise judging stops here
            if conforming(cx, st) is None and not st.ninvalid and area_check(cx, area0, st.suma2, False, '') is None:
                STATS[('err-left-conforming-mesh', kind)] += 1
                prev = st
                continue
            stop = 'stopped-after-err'
            STATS[('stopped-after-err', kind)] += 1
            break
        # ---------------- ok: the new state must be conforming
        if kind == 'AP' and apc == 'outside' and not unchanged:
            STATS[('fail', kind)] += 1
            return ('fail', 'add-point-outside-accepted', 'step %d (%s): the point lies clearly outside every live triangle but add_point inserted it' % (k + 1, what))
        if not unchanged:
            r = check_topology(cx, st)
            if r is None:
                exact = kind in ('ST', 'FD', 'RD') or (kind == 'SE' and prev.slots[step[1]].nb[step[2]] is not None)
                r = area_check(cx, prev.suma2, st.suma2, exact, what)
                if r is None: r = area_check(cx, area0, st.suma2, False, 'the history so far')
            if r is None: r = check_outline(cx, st)
            if r is None: r = check_derived(cx, st)
            if r is None and st.ninvalid and not prev.ninvalid:
                r = ('discarded-slot-left', '%d discarded slot(s) stay in the triangle list (get_trilist reports every slot)' % st.ninvalid)
            if r is not None:
                STATS[('fail', kind)] += 1
                return ('fail', LONG[kind] + '-broke-' + r[0], 'step %d (%s): %s' % (k + 1, what, r[1]))
            prev = st
        judged += 1
        STATS[('judged', kind)] += 1
    if judged == 0:
        return ('skip', stop or 'nothing-to-judge')
    if stop: STATS[('line-' + stop, '')] += 1
    return ('ok', '')

LONG = {'SE': 'split-edge', 'ST': 'split-triangle', 'FD': 'flip', 'RD': 'restore-delaunay', 'AP': 'add-point', 'RF': 'refine', 'FA': 'flipped-aspect-ratio'}

def describe(step):
    k = step[0]
    if k == 'SE': return 'SE slot %d edge %d' % (step[1], step[2])
    if k == 'ST': return 'ST slot %d' % step[1]
    if k == 'FD': return 'FD slot %d edge %d' % (step[1], step[2])
    if k == 'FA': return 'FA slot %d edge %d' % (step[1], step[2])
    if k == 'RD': return 'RD max_ar=%.6g' % OC.to_float(step[1])
    if k == 'RF': return 'RF max_area=%.6g max_ar=%.6g' % (OC.to_float(step[1]), OC.to_float(step[2]))
    return 'AP'

# ------------------------------------------------------------------------------------------------ digest histories (d = 1)
def polygon_a2(cx):
    """twice the projected area of the polygon (outer loop minus holes), exact"""
    pa = 0
    for li, lp in enumerate(cx.loops):
        o = cx.P2[lp[0]]
        pa2 = sum(orient2(o, cx.P2[lp[q]], cx.P2[lp[q + 1]]) for q in range(1, len(lp) - 1))
        pa += abs(pa2) if li == 0 else -abs(pa2)
    return pa

def judge_digest(cx, ln, steps, groups, final, panic_msg):
    """only digests after every step (not even the initial state is printed), so the admissibility of the steps cannot be decided and
    nothing can be held against the crate.  The conclusion of the property can still be confirmed: when the final state is a conforming
    mesh of the polygon the line satisfies the property whatever the steps were."""
    if final is None: return ('skip', 'digest-history')
    tot = 0
    for s in final.slots:
        if s.valid: tot += tri_a2(cx, cx.slot_vertices(s))
    if tot == 0: return ('skip', 'digest-history')
    cx.sg = sgn(tot)
    r = conforming(cx, final)
    if r is None and not final.ninvalid and abs(abs(final.suma2) - polygon_a2(cx)) * cx.tol['ON'] <= abs(final.suma2):
        STATS[('digest-final-conforming', '')] += 1
        return ('ok', '')
    STATS[('digest-final-not-conforming-unjudged', '')] += 1
    return ('skip', 'digest-history')

# ------------------------------------------------------------------------------------------------ is_convex
def judge_is_convex(ln):
    A = ln.args
    if len(A) != 12 or not OC.all_finite(A): return ('skip', 'malformed-operand')
    if not ln.res: return ('skip', 'malformed-operand')
    if ln.res[0] == 'panic': return ('fail', 'is-convex-panic', 'is_convex panicked [%s]' % LAST_PANIC[0])
    got = ln.res[0] == '1'
    p = [OC.V(A, 3 * k) for k in range(4)]
    e = [OC.vsub(p[(k + 1) % 4], p[k]) for k in range(4)]
    l2 = [OC.vnorm2(x) for x in e]
    L2 = max(l2)
    if L2 == 0 or min(l2) * 10**12 < L2: return ('skip', 'degenerate')
    det = OC.vdot(e[0], OC.vcross(OC.vsub(p[2], p[0]), OC.vsub(p[3], p[0])))
    ONP = 10**4 if OC.FMT.name == 'f32' else 10**9
    BAND2 = 10**6 if OC.FMT.name == 'f32' else 10**12      # sine of the turn at a corner below 1e-3 (f32) / 1e-6: undecided
    if det * det * ONP * ONP > L2 ** 3: return ('skip', 'non-coplanar')
    n = [OC.vcross(e[k], e[(k + 1) % 4]) for k in range(4)]      # turn at vertex k+1
    N = max(n, key=OC.vnorm2)
    if OC.vnorm2(N) == 0: return ('skip', 'degenerate')
    signs = []
    for k in range(4):
        d = OC.vdot(n[k], N)
        if d * d * BAND2 < OC.vnorm2(N) * l2[k] * l2[(k + 1) % 4]: return ('skip', 'band')
        signs.append(d > 0)
    exp = all(signs) or not any(signs)
    if got == exp: return ('ok', '')
    if exp:
        big = max(math.sqrt(float(OC.vnorm2(x))) for x in n)
        return ('fail', 'is-convex-rejects-convex-quad', 'a strictly convex planar quadrilateral (the sine of the turn at every corner exceeds %s; largest corner cross product %.3g) is reported as not convex' % ('1e-3' if OC.FMT.name == 'f32' else '1e-6', big))
    return ('fail', 'is-convex-accepts-nonconvex-quad', 'a quadrilateral with a reflex corner / crossing sides is reported as convex')

# ------------------------------------------------------------------------------------------------ entry points
def begin():
    STATS.clear(); LAST_PANIC[0] = ''

def comment(text):
    if text.startswith('# panic-kind'):
        a = text.find('['); b = text.rfind(']')
        LAST_PANIC[0] = text[a + 1:b] if 0 <= a < b else text
    return None

def judge(ln):
    try:
        if ln.op == 'mesh.hist':
            try: return judge_hist(ln)
            finally: LAST_PANIC[0] = ''
        if ln.op == 'mesh.is_convex': return judge_is_convex(ln)
        return ('skip', 'leaf')
    except _Skip as s:
        return ('skip', s.key)

def report():
    """per step kind: seen / judged / stops (for the oracle's author)"""
    kinds = ['SE', 'ST', 'FD', 'RD', 'AP', 'RF', 'FA']
    out = []
    for k in kinds:
        row = {key[0]: v for key, v in STATS.items() if key[1] == k}
        out.append('%s %s' % (k, ' '.join('%s=%d' % kv for kv in sorted(row.items()))))
    out.append(' '.join('%s=%d' % (key[0], v) for key, v in sorted(STATS.items()) if key[1] == ''))
    return '\n'.join(out)
