"""C12: merging holes into one outline preserves the polygon's region."""
from fractions import Fraction
import math
from .common import *
from .planar import *

def judge(ln):
    if ln.op != 'poly.cl': return ('skip', 'leaf')
    A = ln.args
    outer, i = rd_pts(A, 0)
    nh = int(A[i]); i += 1
    holes = []
    for _ in range(nh):
        h, i = rd_pts(A, i); holes.append(h)
    if outer is None or any(h is None for h in holes): return ('skip', 'malformed-operand')
    R = ln.res
    if R[0] == 'build-err': return ('skip', 'not-built')
    scale_ = max(fnorm(p) for p in outer)
    if scale_ > 1e6: return ('skip', 'outside-metre-scale')
    if R[0] == 'panic':
        # get_closed_loop = try_get_closed_loop().unwrap(): tell the known mechanism apart (exact re-enactment shared with C01/C09):
        # a bridge that is collinear with the edge following it makes Loop3D::push drop the bridge's end vertex
        key = 'panic'
        try:
            from . import c01 as G
            cs, _k = G.prepare(A, 0, [])
            if cs is not None and any(getattr(c, 'merge_lost', False) and cs.cand_precondition(c) is None for c in cs.cands):
                key = 'panic:merge-drops-vertex'
        except Exception:
            pass
        return ('fail', key, 'get_closed_loop panicked' + (' (push dropped a vertex of the merged outline)' if key != 'panic' else ''))
    L, j = rd_loop_state(R, 1)
    if L.pts is None: return ('fail', 'non-finite', 'merged outline has non-finite vertices')
    Vo = vector_area_rel(outer)
    ax = drop_axis(Vo)
    tol = 1e-3 if FMT.name == 'f32' else 1e-9
    if nh == 0:
        if L.pts != outer:
            # "unchanged" = the polygon's own outer loop, i.e. the input outline minus the vertices Loop3D::push/close dropped as
            # redundant (|ab x bc| < 1e-5: up to 5e-6 m2 each): an order-preserving (cyclic) subsequence enclosing the same area
            def cyc_subseq(sub_, full):
                m = len(full)
                for st in range(m):
                    it = iter(full[st:] + full[:st])
                    if all(any(q == v for q in it) for v in sub_): return True
                return False
            dropped = len(outer) - len(L.pts)
            if dropped <= 0 or len(L.pts) < 3 or not cyc_subseq(L.pts, outer):
                return ('fail', 'no-holes-changed', 'a polygon without holes was not returned unchanged')
            if abs(fnorm(vector_area_rel(L.pts)) - fnorm(Vo)) > 5e-6 * dropped + tol * max(fnorm(Vo), 1):
                return ('fail', 'no-holes-changed', 'a polygon without holes came back with %d vertices less and a different area' % dropped)
    # unobstructed bridges?  (only judge configurations where every hole is clear of the others and of the outline)
    allv = [outer] + holes
    # every input vertex must lie on the merged outline
    tol2 = Fraction(4, 10**10)      # (2e-5)^2: vertices closer than the coincidence tolerance are merged by push()
    for grp_i, grp in enumerate(allv):
        for p in grp:
            if p in L.pts: continue
            if dist2_to_outline(p, L.pts) > tol2 + Fraction(1, 10**20):
                # a vertex may legitimately be dropped only when it is collinear with its neighbours on the merged outline
                return ('fail', 'vertex-lost', 'a vertex of %s is not on the merged outline' % ('the outer loop' if grp_i == 0 else 'hole %d' % grp_i))
    # close outcome and metrics
    if R[j] != 'close': return ('skip', 'leaf')
    cls = R[j + 1]
    if cls != 'ok':
        return ('fail', 'merged-does-not-close', 'the merged outline cannot be closed (%s)' % cls)
    LC, k = rd_loop_state(R, j + 2)
    net = fnorm(Vo) - sum(fnorm(vector_area_rel(h)) for h in holes)
    area = to_float(LC.area_tok)
    if abs(area - net) > max(tol, 1e-9) * 100 * max(net, 1.0):
        return ('fail', 'net-area', 'merged outline encloses %.12g, polygon net area is %.12g' % (area, net))
    # exact: vector area of the merged outline = outer - sum |holes| along the outer normal  (bridges cancel)
    Vm = vector_area_rel(LC.pts)
    if dot(Vm, Vo) <= 0: return ('fail', 'normal-flipped', 'merged outline has the opposite orientation')
    n = tuple(to_float(t) for t in LC.normal_toks)
    Vf = tuple(float(c) for c in Vo); nv = fnorm(Vo)
    # the polygon's normal is the outer loop's normal (sign as stored by the outer loop = right-hand rule of its order)
    if abs(abs(sum(n[k] * Vf[k] for k in range(3)) / nv) - 1) > 1e-6: return ('fail', 'normal', 'merged normal not parallel to the polygon normal')
    return ('ok', '')
