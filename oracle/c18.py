"""C18: a successful refinement honours the requested aspect-ratio bound.

Judges the lines of harness group `c18`:
    mesh.tris POLY max_area max_ar => build-err | err | panic | ok <valid> ; a(3) b(3) c(3) aspect_ratio area ; ...      (valid triangles only)

For an `ok` result every returned triangle whose EXACT area is at least the refinement floor 1e-3 (by a margin of 1e-6
relative; triangles inside the margin are ignored) must have

        circumradius / shortest edge  <=  max_ar * (1 + 1e-9)          (f32 build: 1e-4)

The ratio is measured independently of the crate: with the exact squared edge lengths a2 <= b2 <= c2 and the exact squared
cross product X2 = |ab x ac|^2 of the printed vertices,  R = abc / (4 Area),  Area = sqrt(X2) / 2,  hence
(R / shortest)^2 = b2 * c2 / (4 * X2)  -- a rational number, compared exactly with the square of the bound.
Additionally the printed (cached) aspect ratio and area are cross-checked against the exact values (relative 1e-9, widened
by the conditioning of the crate's Heron-type formulas).  Polygons / refinement requests outside the space of C01 are
skipped with the precondition's key (machinery shared with c01.py)."""
from fractions import Fraction
import math
from . import common as OC
from . import c01 as G

STRIDE = 12          # ';' a(3) b(3) c(3) ar area
FLOOR = Fraction(1, 1000)

def judge_tris(cs, R, max_ar_tok):
    """independent of the candidate: the aspect-ratio bound on the printed triangles"""
    sc = cs.sc
    f32 = cs.f32
    U2 = sc.U2; U4 = U2 * U2
    n = int(R[1])
    if len(R) != 2 + STRIDE * n: return ('fail', 'oracle-format', 'unexpected number of result tokens')
    mar = OC.frac(max_ar_tok)
    tol = Fraction(1, 10**4) if f32 else Fraction(1, 10**9)
    bound2 = (mar * (1 + tol)) ** 2
    m = Fraction(1, 10**6)
    hi4 = 4 * (FLOOR * (1 + m)) ** 2 * U4        # X2 >= hi4  <=>  area >= floor (1 + 1e-6)
    lo4 = 4 * (FLOOR * (1 - m)) ** 2 * U4
    judged = 0; ignored = 0; small = 0
    u = float(OC.FMT.u)
    base = 1e-4 if f32 else 1e-9
    worst = None
    for t in range(n):
        b = 3 + STRIDE * t
        A, B, C = sc.pt(R, b), sc.pt(R, b + 3), sc.pt(R, b + 6)
        ab = G.sub3(B, A); ac = G.sub3(C, A); bc = G.sub3(C, B)
        X2 = G.n23(G.cross3(ab, ac))
        if X2 == 0:
            return ('fail', 'degenerate-triangle', 'returned triangle %d has zero area' % t)
        l2 = sorted((G.n23(ab), G.n23(bc), G.n23(ac)))
        ratio2 = Fraction(l2[1] * l2[2], 4 * X2)
        ratio = math.sqrt(float(ratio2))
        area = math.isqrt(X2) / (2 * U2)
        # cross-check of the cached values (conditioning: the crate's Heron products lose (longest edge / smallest gap) ulps)
        a_, b_, c_ = (math.sqrt(float(Fraction(x, U2))) for x in l2)
        gap = min(a_ + b_ - c_, a_ + c_ - b_, b_ + c_ - a_)
        cond = (a_ + b_ + c_) / gap if gap > 0 else float('inf')
        ctol = base + 64 * u * cond
        ar_tok, area_tok = R[b + 9], R[b + 10]
        if ctol < 1e-3:
            if not OC.is_finite(ar_tok) or abs(OC.to_float(ar_tok) - ratio) > ctol * ratio:
                return ('fail', 'reported-aspect-ratio-wrong', 'triangle %d: cached aspect ratio %r, exact circumradius / shortest edge = %.12g'
                        % (t, OC.to_float(ar_tok), ratio))
            if not OC.is_finite(area_tok) or abs(OC.to_float(area_tok) - area) > ctol * area:
                return ('fail', 'reported-area-wrong', 'triangle %d: cached area %r, exact area = %.12g' % (t, OC.to_float(area_tok), area))
        if X2 < lo4: small += 1; continue
        if X2 < hi4: ignored += 1; continue
        judged += 1
        if ratio2 > bound2:
            if worst is None or ratio2 > worst[0]: worst = (ratio2, t, ratio, area)
    if worst is not None:
        return ('fail', 'aspect-ratio-exceeded', 'triangle %d (area %.6g m2 >= 1e-3) has circumradius / shortest edge = %.9g > max_aspect_ratio = %.9g'
                % (worst[1], worst[3], worst[2], float(mar)))
    if judged == 0:
        return ('skip', 'band-area-floor' if ignored else 'all-triangles-below-floor')
    return ('ok', '')

def judge(ln):
    if ln.op != 'mesh.tris': return ('skip', 'leaf')
    R = ln.res
    if not R or R[0] == 'build-err': return ('skip', 'not-built')
    if R[0] == 'trilist-differs': return ('fail', 'trilist-differs', 'get_trilist() does not return the triangles of the slots (%s)' % ' '.join(R[1:]))
    if R[0] != 'ok': return ('skip', 'not-ok-' + R[0])
    A = ln.args
    n = int(R[1])
    extra = []
    for t in range(n):
        b = 3 + STRIDE * t
        extra += R[b:b + 9]
    if not all(G.finite_tok(t) for t in extra): return ('fail', 'non-finite-vertex', 'a returned triangle has a NaN or infinite coordinate')
    cs, key = G.prepare(A, 0, extra)
    if cs is None: return ('skip', key)
    ma_tok, mar_tok = A[cs.next], A[cs.next + 1]
    # polygon and request inside the space of C01?
    keys = []
    for c in cs.cands:
        k = cs.cand_precondition(c)
        if k is None and not G.params_in_space(ma_tok, mar_tok, cs.net_area_float(c)): k = 'refinement-outside-space'
        keys.append(k)
    if all(k is not None for k in keys): return ('skip', keys[0])
    if any(k is not None for k in keys): return ('skip', 'band-collinear-threshold')
    return judge_tris(cs, R, mar_tok)
