"""C16: reported transform error bounds are true bounds, and meaningful (judged exactly against the stored matrix)."""
from fractions import Fraction
from .common import *
from . import common as C

def gamma(n):
    u = C.FMT.u
    return n * u / (1 - n * u)

def row_abs(m, k, v, with_t):
    return abs(m[k][0] * v[0]) + abs(m[k][1] * v[1]) + abs(m[k][2] * v[2]) + (abs(m[k][3]) if with_t else 0)

def lin_abs(m, k, e):
    return abs(m[k][0]) * e[0] + abs(m[k][1]) * e[1] + abs(m[k][2]) * e[2]

def check(kind, m, x, e_in, got, err, is_point):
    """got/err: returned value and error; exact image of x (and of every x+δ, |δ|<=e_in) must be within err"""
    exact = mat_pt(m, x) if is_point else mat_vec(m, x)
    for k in range(3):
        carried = lin_abs(m, k, e_in) if e_in is not None else 0
        need = abs(got[k] - exact[k]) + carried
        if need > err[k]:
            return ('fail', 'bound-too-small:' + kind, 'axis %d: |returned-exact|+carried = %.6g > reported error %.6g' % (k, float(need), float(err[k])))
        # meaningful: within a constant factor of the first-order worst case; no translation term for vectors / carried errors
        first = gamma(4) * row_abs(m, k, x, is_point) + carried
        if err[k] > 8 * first + C.FMT.min_sub * 16:
            return ('fail', 'bound-not-meaningful:' + kind, 'axis %d: reported error %.6g > 8 x first-order worst case %.6g' % (k, float(err[k]), float(first)))
    return None

def judge(ln):
    op = ln.op
    if op not in ('tr.pterr', 'tr.vecerr', 'tr.ptprop', 'tr.vecprop', 'tr.rayerr', 'tr.rayprop'):
        return ('skip', 'leaf')
    if not all_finite(ln.res): return ('fail', 'non-finite', 'non-finite output')
    elems, i = parse_chain(ln.args, 0)
    rest = ln.args[i:]
    R = ln.res
    M = mat_from_tokens(R[-32:-16]); Minv = mat_from_tokens(R[-16:])
    if op in ('tr.pterr', 'tr.vecerr', 'tr.ptprop', 'tr.vecprop'):
        x = V(rest, 0)
        e = V(rest, 3) if op.endswith('prop') else None
        isp = op.startswith('tr.pt')
        for (off, m, name) in ((0, M, 'fwd'), (6, Minv, 'inv')):
            r = check(op + ':' + name, m, x, e, V(R, off), V(R, off + 3), isp)
            if r: return r
        return ('ok', '')
    # rays: origin (point) and direction (vector) with their errors; origin advanced by no more than its bound
    o = V(rest, 0); d = V(rest, 3)
    oe = V(rest, 6) if op == 'tr.rayprop' else None
    de = V(rest, 9) if op == 'tr.rayprop' else None
    for (off, m, name) in ((0, M, 'fwd'), (12, Minv, 'inv')):
        ro, rd, oerr, derr = V(R, off), V(R, off + 3), V(R, off + 6), V(R, off + 9)
        r = check(op + ':dir:' + name, m, d, de, rd, derr, False)
        if r: return r
        # the returned origin is the transformed origin advanced along the direction: recover the un-advanced point
        exact_o = mat_pt(m, o)
        l2 = vnorm2(rd)
        if l2 == 0:
            r = check(op + ':origin:' + name, m, o, oe, ro, oerr, True)
            if r: return r
            continue
        adv = vsub(ro, exact_o)
        # (a) advanced by no more than (a small multiple of) the bound, per axis
        for k in range(3):
            carried = lin_abs(m, k, oe) if oe is not None else 0
            bound = oerr[k]
            first = gamma(4) * row_abs(m, k, o, True) + carried
            if bound > 8 * first + C.FMT.min_sub * 16:
                return ('fail', 'bound-not-meaningful:' + op + ':origin:' + name, 'axis %d: %.6g > 8 x %.6g' % (k, float(bound), float(first)))
        # |advance| = dt*|rd| with dt = (|rd| . oerr)/|rd|^2  =>  |advance_k| <= sum_j oerr_j * (1+small)
        tot = sum(oerr)
        for k in range(3):
            if abs(adv[k]) > 2 * tot + C.FMT.min_sub * 16:
                return ('fail', 'origin-advanced-too-far:' + op + ':' + name, 'axis %d: advanced %.6g, error bound sum %.6g' % (k, float(adv[k]), float(tot)))
        # (b) no point of the origin's error box lies ahead of the advanced origin:  for all |δ|<=err: (exact_o+δ - ro).rd <= 0
        ahead = vdot(vsub(exact_o, ro), rd) + sum(abs(rd[k]) * oerr[k] for k in range(3))
        # the error box is centred on the COMPUTED image of the origin, which is not printed; it differs from the exact image by at
        # most the rigorous forward error gamma(4) * sum_j |m_kj||o_j| of the row sum (which can be far larger than |exact_o[k]|
        # itself when the terms cancel), plus the rounding of the advance o + d*dt
        slack = sum(abs(rd[k]) * (gamma(4) * row_abs(m, k, o, True) + C.FMT.u * 64 * (abs(ro[k]) + abs(exact_o[k]))) for k in range(3))
        if ahead > slack:
            return ('fail', 'error-box-ahead-of-origin:' + op + ':' + name, 'ahead by %.6g (slack %.3g)' % (float(ahead), float(slack)))
    return ('ok', '')
