"""Exact-arithmetic helpers shared by the oracles (python3 stdlib only).

A case line is `op tok tok … => tok tok …`; floats are hex bit patterns (16 digits = f64, 8 = f32) or `nan`.
Oracles never compare floats approximately: everything finite is turned into a Fraction."""
from fractions import Fraction
import struct, math

INF = float('inf')

class Fmt:
    def __init__(self, name):
        self.name = name
        if name == 'f32':
            self.bits, self.mant, self.expbits, self.bias = 32, 23, 8, 127
        else:
            self.bits, self.mant, self.expbits, self.bias = 64, 52, 11, 1023
        self.eps = Fraction(1, 2 ** self.mant)            # Float::EPSILON
        self.u = Fraction(1, 2 ** (self.mant + 1))        # unit roundoff
        self.min_sub = Fraction(1, 2 ** (self.bias - 1 + self.mant))

FMT = Fmt('f64')
def set_fmt(name):
    global FMT
    FMT = Fmt(name)

def is_nan(t): return t == 'nan'

def bits(t):
    return int(t, 16)

def to_float(t):
    """python float (f32 widened exactly) — only for inf/sign tests and reporting"""
    if t == 'nan': return float('nan')
    b = int(t, 16)
    if len(t) == 8:
        return struct.unpack('>f', b.to_bytes(4, 'big'))[0]
    return struct.unpack('>d', b.to_bytes(8, 'big'))[0]

def is_inf(t):
    return t != 'nan' and math.isinf(to_float(t))

def is_finite(t):
    return t != 'nan' and not math.isinf(to_float(t))

def sign_bit(t):
    b = int(t, 16)
    return (b >> (len(t) * 4 - 1)) & 1

def frac(t):
    """exact value of a finite float token"""
    f = to_float(t)
    return Fraction(f)

def ext(t):
    """extended value: Fraction, or +inf/-inf floats; None for NaN"""
    if t == 'nan': return None
    f = to_float(t)
    if math.isinf(f): return f
    return Fraction(f)

def le(a, b):
    """a <= b on extended values (Fraction or ±inf float)"""
    return a <= b

class Line:
    __slots__ = ('op', 'args', 'res', 'text')
    def __init__(self, text):
        self.text = text
        lhs, _, rhs = text.partition(' => ')
        t = lhs.split(' ')
        self.op = t[0]
        self.args = t[1:]
        self.res = rhs.split(' ') if rhs else []

def V(toks, i):
    """three floats starting at i -> tuple of Fractions"""
    return (frac(toks[i]), frac(toks[i + 1]), frac(toks[i + 2]))

def all_finite(toks):
    return all(is_finite(t) for t in toks)

def vsub(a, b): return (a[0]-b[0], a[1]-b[1], a[2]-b[2])
def vadd(a, b): return (a[0]+b[0], a[1]+b[1], a[2]+b[2])
def vscale(a, s): return (a[0]*s, a[1]*s, a[2]*s)
def vdot(a, b): return a[0]*b[0] + a[1]*b[1] + a[2]*b[2]
def vcross(a, b): return (a[1]*b[2]-a[2]*b[1], a[2]*b[0]-a[0]*b[2], a[0]*b[1]-a[1]*b[0])
def vnorm2(a): return vdot(a, a)

def isqrt_frac_bounds(q, digits=80):
    """rational bracket lo <= sqrt(q) <= hi with relative width 2^-digits"""
    if q == 0: return (Fraction(0), Fraction(0))
    n, d = q.numerator, q.denominator
    # sqrt(n/d) = sqrt(n*d)/d
    s = 1 << (2 * digits)
    r = math.isqrt(n * d * s)
    lo = Fraction(r, d * (1 << digits))
    hi = Fraction(r + 1, d * (1 << digits))
    return lo, hi

# ---- 4x4 matrices over Fractions (exact) and float evaluation of elementary transforms ----------------

def mat_identity():
    return [[Fraction(int(i == j)) for j in range(4)] for i in range(4)]

def mat_mul(a, b):
    return [[sum(a[i][k] * b[k][j] for k in range(4)) for j in range(4)] for i in range(4)]

def mat_pt(m, p):
    r = [m[i][0]*p[0] + m[i][1]*p[1] + m[i][2]*p[2] + m[i][3] for i in range(4)]
    return (r[0] / r[3], r[1] / r[3], r[2] / r[3])

def mat_vec(m, v):
    return tuple(m[i][0]*v[0] + m[i][1]*v[1] + m[i][2]*v[2] for i in range(3))

def det3(m):
    return (m[0][0]*(m[1][1]*m[2][2]-m[1][2]*m[2][1]) - m[0][1]*(m[1][0]*m[2][2]-m[1][2]*m[2][0])
            + m[0][2]*(m[1][0]*m[2][1]-m[1][1]*m[2][0]))

def mat_from_tokens(toks):
    """16 hex tokens, row major -> exact matrix"""
    return [[frac(toks[4*i + j]) for j in range(4)] for i in range(4)]

def parse_chain(toks, i):
    """returns (list of (kind, [hex args])), next index"""
    n = int(toks[i]); i += 1
    elems = []
    for _ in range(n):
        k = toks[i]; i += 1
        if k in ('T', 'S'):
            elems.append((k, toks[i:i+3])); i += 3
        elif k in ('RX', 'RY', 'RZ'):
            elems.append((k, toks[i:i+1])); i += 1
        else:
            elems.append(('I', []))
    return elems, i
