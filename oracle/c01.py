"""C01: a successful triangulation (ear clipping, with or without refinement) tiles exactly the polygon's region.

Judges the lines of harness group `c01`:
    mesh.from_polygon POLY                  => build-err | err | panic | ok STATE
    mesh.mesh_polygon POLY max_area max_ar  => build-err | err | panic | ok STATE
(POLY = the INPUT vertex lists fed to push/close/cut_hole, STATE = every slot of the mesh.)

Everything discrete is decided in exact integer arithmetic: every float of a line is a dyadic rational, so all coordinates
of a line are turned into integers over one common power-of-two denominator (times 6, so that edge midpoints and centroids
are integers too).  The polygon is judged in the 2-D projection that drops the dominant axis of the exact vector area of
its outer loop (affine on the plane: incidence, orientation, winding numbers and area ratios are preserved).

Reference region.  The polygon is what the crate stores (`Polygon3D`), i.e. the input lists after `Loop3D::push`/`close`
have dropped redundant vertices (repeated points; |ab x bc| < 1e-5).  That dropping is re-enacted exactly, with a
three-valued test: a decision that lies within the rounding band of the crate's threshold forks the simulation, and a
line is then judged against every candidate (ok if one candidate is satisfied, fail only if all fail).  The same
simulation re-enacts `Polygon3D::get_closed_loop` (nearest-vertex bridges) to decide whether every bridge is unobstructed
(precondition of the quantifier) and how many vertices the merged outline has (used by c09).

Checks on an `ok` result (valid slots only; the counter n_valid must equal the number of valid slots):
  (a) vertex-off-plane            a vertex further than 1e-6 (f32: 1e-3 x scale) from the polygon's plane
  (b) degenerate-triangle / orientation-flipped   exact signed area zero / of the sign opposite to the outer loop's (the crate's
      polygon normal is the right-hand normal of the outer loop's vertex order: set_area flips the first-three-vertices normal)
  (c) triangle-outside-outline / triangle-in-hole  vertices, centroid and edge midpoints: exact winding number, points within
      1e-6 of an outline are not judged; `-small` suffix when the offending point is less than 1e-4 inside the wrong side
  (d) area-mismatch               sum of exact (projected) triangle areas vs exact net area, relative 1e-7 (f32 1e-3);
      `area-mismatch-small` when the difference is below 5e-6 m2 per outline vertex (what the crate's absolute collinearity
      tolerance |ab x bc| < 1e-5 can remove);  triangles-overlap: the same directed edge twice, or (<= 400 triangles) two
      mesh edges crossing properly by more than the band (`-small`: by less than 1e-4)
Skip keys: not-built / not-ok-* (C01 speaks about successful calls), the quantifier's preconditions (outline-not-simple,
hole-*, bridge-obstructed, refinement-outside-space, ...) and bands (band-collinear-threshold, band-bridge-tie, ...).

This module also exports the shared machinery for c09.py and c18.py (`prepare`, `Case`, `combine`, ...)."""
from fractions import Fraction
import math
from . import common as OC

MAXFORK = 4            # at most 2^4 candidates for the stored polygon
R_COMPARE = Fraction(1, 10**5)      # Point3D::compare
R_COLLINEAR = Fraction(1, 10**5)    # Point3D::is_collinear (|ab x bc| < 1e-5)

# ---------------------------------------------------------------------------------------------------------------
# tokens -> integers

# smallest extent of an outline that is judged (see static_precondition); C09 lowers it for its well-conditioned clause
MIN_EXTENT = Fraction(1, 2)

class NonFinite(Exception): pass
class TooManyBands(Exception): pass

def dec(tok):
    """hex float token -> (m, e) with value m * 2^e exactly (m odd, or (0, None))"""
    if tok == 'nan': raise NonFinite()
    b = int(tok, 16)
    if len(tok) == 16:
        sign = b >> 63; ex = (b >> 52) & 0x7ff; mant = b & ((1 << 52) - 1)
        if ex == 0x7ff: raise NonFinite()
        if ex == 0: m, e = mant, -1074
        else: m, e = mant | (1 << 52), ex - 1075
    else:
        sign = b >> 31; ex = (b >> 23) & 0xff; mant = b & 0x7fffff
        if ex == 0xff: raise NonFinite()
        if ex == 0: m, e = mant, -149
        else: m, e = mant | (1 << 23), ex - 150
    if m == 0: return (0, None)
    tz = (m & -m).bit_length() - 1
    m >>= tz; e += tz
    return (-m if sign else m, e)

def finite_tok(t):
    if t == 'nan': return False
    b = int(t, 16)
    return ((b >> 52) & 0x7ff) != 0x7ff if len(t) == 16 else ((b >> 23) & 0xff) != 0xff

class Scale:
    """common integer grid of one line: value v  <->  integer v * U,  U = 6 * 2^sexp"""
    def __init__(self, toks):
        self.d = {}
        emin = 0
        for t in toks:
            if t in self.d: continue
            m, e = dec(t)
            self.d[t] = (m, e)
            if e is not None and e < emin: emin = e
        self.sexp = -emin
        self.U = 6 << self.sexp
        self.U2 = self.U * self.U
        self.ints = {}
    def i(self, t):
        v = self.ints.get(t)
        if v is None:
            m, e = self.d[t]
            v = 0 if e is None else (6 * m) << (e + self.sexp)
            self.ints[t] = v
        return v
    def pt(self, toks, k):
        return (self.i(toks[k]), self.i(toks[k + 1]), self.i(toks[k + 2]))
    def r2(self, r):
        """floor of (r*U)^2 for a rational length r: an integer squared distance d2 satisfies d <= r  <=>  d2 <= r2(r)"""
        r = Fraction(r)
        return (r.numerator * r.numerator * self.U2) // (r.denominator * r.denominator)

# ---------------------------------------------------------------------------------------------------------------
# integer vector helpers (3-D and 2-D)

def sub3(a, b): return (a[0] - b[0], a[1] - b[1], a[2] - b[2])
def dot3(a, b): return a[0] * b[0] + a[1] * b[1] + a[2] * b[2]
def cross3(a, b): return (a[1] * b[2] - a[2] * b[1], a[2] * b[0] - a[0] * b[2], a[0] * b[1] - a[1] * b[0])
def n23(a): return a[0] * a[0] + a[1] * a[1] + a[2] * a[2]

def vector_area2(pts):
    """2 x vector area (sum of v_i x v_{i+1}, relative to the first vertex), exact"""
    o = pts[0]
    sx = sy = sz = 0
    p = sub3(pts[1], o) if len(pts) > 1 else (0, 0, 0)
    for k in range(2, len(pts)):
        q = sub3(pts[k], o)
        c = cross3(p, q)
        sx += c[0]; sy += c[1]; sz += c[2]
        p = q
    return (sx, sy, sz)

def orient2(a, b, c):
    return (b[0] - a[0]) * (c[1] - a[1]) - (b[1] - a[1]) * (c[0] - a[0])

def area2x2(poly):
    """2 x signed area of a 2-D polygon"""
    s = 0
    o = poly[0]
    for k in range(1, len(poly) - 1):
        s += orient2(o, poly[k], poly[k + 1])
    return s

def on_segment2(a, b, p):
    if orient2(a, b, p) != 0: return False
    return min(a[0], b[0]) <= p[0] <= max(a[0], b[0]) and min(a[1], b[1]) <= p[1] <= max(a[1], b[1])

def segs_touch2(a, b, c, d):
    """closed segments share a point"""
    if max(a[0], b[0]) < min(c[0], d[0]) or max(c[0], d[0]) < min(a[0], b[0]): return False
    if max(a[1], b[1]) < min(c[1], d[1]) or max(c[1], d[1]) < min(a[1], b[1]): return False
    o1, o2 = orient2(a, b, c), orient2(a, b, d)
    o3, o4 = orient2(c, d, a), orient2(c, d, b)
    if ((o1 > 0 and o2 < 0) or (o1 < 0 and o2 > 0)) and ((o3 > 0 and o4 < 0) or (o3 < 0 and o4 > 0)): return True
    return (o1 == 0 and on_segment2(a, b, c)) or (o2 == 0 and on_segment2(a, b, d)) or \
           (o3 == 0 and on_segment2(c, d, a)) or (o4 == 0 and on_segment2(c, d, b))

def segs_cross2(a, b, c, d):
    """open segments cross transversally at a point interior to both"""
    if max(a[0], b[0]) <= min(c[0], d[0]) or max(c[0], d[0]) <= min(a[0], b[0]): return False
    if max(a[1], b[1]) <= min(c[1], d[1]) or max(c[1], d[1]) <= min(a[1], b[1]): return False
    o1, o2 = orient2(a, b, c), orient2(a, b, d)
    if not ((o1 > 0 and o2 < 0) or (o1 < 0 and o2 > 0)): return False
    o3, o4 = orient2(c, d, a), orient2(c, d, b)
    return (o3 > 0 and o4 < 0) or (o3 < 0 and o4 > 0)

def winding2(poly, p):
    """exact winding number of the closed polyline around p (p not on it)"""
    w = 0
    px, py = p
    a = poly[-1]
    for b in poly:
        if a[1] <= py:
            if b[1] > py and (b[0] - a[0]) * (py - a[1]) - (b[1] - a[1]) * (px - a[0]) > 0: w += 1
        elif b[1] <= py and (b[0] - a[0]) * (py - a[1]) - (b[1] - a[1]) * (px - a[0]) < 0: w -= 1
        a = b
    return w

def near_seg2(p, a, b, R2):
    """squared distance from p to the closed segment ab <= R2 (all integers, no division)"""
    abx, aby = b[0] - a[0], b[1] - a[1]
    apx, apy = p[0] - a[0], p[1] - a[1]
    L = abx * abx + aby * aby
    d = apx * abx + apy * aby
    if d <= 0: return apx * apx + apy * apy <= R2
    if d >= L:
        bx, by = p[0] - b[0], p[1] - b[1]
        return bx * bx + by * by <= R2
    cr = apx * aby - apy * abx
    return cr * cr <= R2 * L

def near_seg3(p, a, b, R2):
    ab = sub3(b, a); ap = sub3(p, a)
    L = n23(ab); d = dot3(ap, ab)
    if d <= 0: return n23(ap) <= R2
    if d >= L: return n23(sub3(p, b)) <= R2
    return n23(cross3(ap, ab)) <= R2 * L

class Outline:
    """closed 2-D polyline with edge boxes, for winding numbers and distance bands"""
    def __init__(self, p2):
        self.p = p2
        n = len(p2)
        self.edges = [(p2[k], p2[(k + 1) % n]) for k in range(n)]
        self.box = [(min(a[0], b[0]), max(a[0], b[0]), min(a[1], b[1]), max(a[1], b[1])) for a, b in self.edges]
        self.xmin = min(q[0] for q in p2); self.xmax = max(q[0] for q in p2)
        self.ymin = min(q[1] for q in p2); self.ymax = max(q[1] for q in p2)
    def near(self, p, R2, r):
        """p within the band (distance <= sqrt(R2); r = ceil of that) of the outline"""
        x, y = p
        if x < self.xmin - r or x > self.xmax + r or y < self.ymin - r or y > self.ymax + r: return False
        k = 0
        for (x0, x1, y0, y1) in self.box:
            if x0 - r <= x <= x1 + r and y0 - r <= y <= y1 + r:
                a, b = self.edges[k]
                if near_seg2(p, a, b, R2): return True
            k += 1
        return False
    def wind(self, p):
        x, y = p
        if x < self.xmin or x > self.xmax or y < self.ymin or y > self.ymax: return 0
        return winding2(self.p, p)

def simple2(p2):
    """no two non-adjacent edges of the closed polyline share a point; no zero-length edge"""
    n = len(p2)
    for k in range(n):
        if p2[k] == p2[(k + 1) % n]: return False
    for i in range(n):
        a, b = p2[i], p2[(i + 1) % n]
        for j in range(i + 1, n):
            if (j + 1) % n == i or (i + 1) % n == j:
                # adjacent edges: only the shared vertex may be common (no fold-back onto each other)
                if (i + 1) % n == j: s, p, q = b, a, p2[(j + 1) % n]
                else: s, p, q = a, b, p2[j]
                if n > 2 and orient2(s, p, q) == 0 and (p[0] - s[0]) * (q[0] - s[0]) + (p[1] - s[1]) * (q[1] - s[1]) > 0: return False
                continue
            if segs_touch2(a, b, p2[j], p2[(j + 1) % n]): return False
    return True

# ---------------------------------------------------------------------------------------------------------------
# three-valued re-enactment of Point3D::compare / is_collinear, Loop3D::push / close, Polygon3D::get_closed_loop

class Chooser:
    def __init__(self, pre):
        self.pre = pre; self.taken = []
    def pick(self):
        k = len(self.taken)
        v = self.pre[k] if k < len(self.pre) else True
        self.taken.append(v)
        if len(self.taken) > MAXFORK: raise TooManyBands()
        return v
    def res(self, v):
        return self.pick() if v is None else v

class Crate:
    """the crate's tolerance predicates on the integer grid; None = within the rounding band of the threshold"""
    def __init__(self, sc):
        self.sc = sc
        eps = float(OC.FMT.eps)
        self.eps = eps
        U = sc.U
        # compare: |dx| < 1e-5 ; the float subtraction and the constant are off by a few ulps (relative)
        w = Fraction(16 * eps)
        self.cmp_lo = R_COMPARE * (1 - w) * U      # |dx_int| <  cmp_lo -> clearly smaller
        self.cmp_hi = R_COMPARE * (1 + w) * U      # |dx_int| >  cmp_hi -> clearly not
    def same(self, a, b):
        band = False
        for k in range(3):
            d = abs(a[k] - b[k])
            if d > self.cmp_hi: return False
            if d >= self.cmp_lo: band = True
        return None if band else True
    def collinear(self, a, b, c):
        """True / False / None (band) / 'err' (three equal points)"""
        sab, sac, sbc = self.same(a, b), self.same(a, c), self.same(b, c)
        if sab is None or sac is None or sbc is None: return None
        if sab and sac: return 'err'
        if sab or sac or sbc: return True
        ab = sub3(b, a); bc = sub3(c, b)
        cr2 = n23(cross3(ab, bc))
        U2 = self.sc.U2
        lp = math.isqrt(n23(ab) * n23(bc)) / U2            # |ab||bc| in m^2
        E = 12 * self.eps * lp + 4 * self.eps * 1e-5
        q = Fraction(cr2, U2 * U2)
        lo = R_COLLINEAR - Fraction(E); hi = R_COLLINEAR + Fraction(E)
        if lo > 0 and q < lo * lo: return True
        if q > hi * hi: return False
        return None

def sim_push(cr, ch, verts, p):
    while True:
        n = len(verts)
        if n >= 1 and ch.res(cr.same(verts[-1], p)): return
        if n >= 2:
            c = cr.collinear(verts[-2], verts[-1], p)
            if c == 'err': c = True
            if ch.res(c):
                verts.pop(); continue
        break
    verts.append(p)

def sim_close(cr, ch, verts):
    """False when the crate's close() would refuse"""
    while True:
        n = len(verts)
        if n < 3: return False
        c = cr.collinear(verts[n - 2], verts[n - 1], verts[0])
        if c == 'err': return False
        if ch.res(c):
            verts.pop(); continue
        c = cr.collinear(verts[n - 1], verts[0], verts[1])
        if c == 'err': return False
        if ch.res(c):
            verts.pop(0); continue
        return True

class Cand:
    """one candidate for what the crate stores: outer, holes, the bridges of get_closed_loop, the merged closed outline"""
    pass

def simulate(cr, ch, outer_in, holes_in, tie_rel):
    c = Cand()
    c.ok = True
    def build(pts):
        v = []
        for p in pts: sim_push(cr, ch, v, p)
        if not sim_close(cr, ch, v): return None
        return v
    c.outer = build(outer_in)
    if c.outer is None: c.ok = False; return c
    c.holes = []
    for h in holes_in:
        hv = build(h)
        if hv is None: c.ok = False; return c
        c.holes.append(hv)
    # get_closed_loop
    Vo = vector_area2(c.outer)
    ret = list(c.outer)
    done = []
    c.bridges = []         # (ret outline before the merge, E, I, hole index, unmerged hole indices)
    c.tie = False
    c.merge_lost = False
    nh = len(c.holes)
    for _ in range(nh):
        best = None
        for j, e in enumerate(ret):
            for k in range(nh):
                if k in done: continue
                for l, q in enumerate(c.holes[k]):
                    d = (e[0] - q[0]) ** 2 + (e[1] - q[1]) ** 2 + (e[2] - q[2]) ** 2
                    if best is None or d < best[0]: best = (d, j, k, l)
        d0, j0, k0, l0 = best
        E, I = ret[j0], c.holes[k0][l0]
        # a different pair of points at (nearly) the same distance: the crate's float comparison may choose otherwise
        lim = d0 + (d0 * tie_rel.numerator) // tie_rel.denominator + 1
        for j, e in enumerate(ret):
            for k in range(nh):
                if k in done: continue
                for l, q in enumerate(c.holes[k]):
                    if e == E and q == I: continue
                    d = (e[0] - q[0]) ** 2 + (e[1] - q[1]) ** 2 + (e[2] - q[2]) ** 2
                    if d <= lim: c.tie = True
        c.bridges.append((list(ret), E, I, k0, [k for k in range(nh) if k not in done]))
        hole = c.holes[k0]; m = len(hole)
        same_dir = dot3(Vo, vector_area2(hole)) > 0
        aux = []
        expect = 0
        for i, e in enumerate(ret):
            sim_push(cr, ch, aux, e)
            if i == j0:
                for j in range(m + 1):
                    idx = (l0 + m - j) % m if same_dir else (l0 + j) % m
                    sim_push(cr, ch, aux, hole[idx])
                sim_push(cr, ch, aux, e)
        if len(aux) != len(ret) + m + 2: c.merge_lost = True
        ret = aux
        done.append(k0)
    c.merged_open = list(ret)
    mc = list(ret)
    c.merged_closes = sim_close(cr, ch, mc)
    c.merged = mc
    return c

def candidates(cr, outer_in, holes_in, tie_rel):
    """every candidate reachable through band decisions (DFS over the choices); raises TooManyBands"""
    out = []
    stack = [[]]
    while stack:
        pre = stack.pop()
        ch = Chooser(pre)
        c = simulate(cr, ch, outer_in, holes_in, tie_rel)
        c.nband = len(ch.taken)
        out.append(c)
        for k in range(len(pre), len(ch.taken)):
            stack.append(ch.taken[:k] + [not ch.taken[k]])
    return out

# ---------------------------------------------------------------------------------------------------------------
# a case = one line's polygon on the integer grid

def rd_poly_tokens(A, i):
    """POLY at A[i:] -> (outer token index list, hole token index lists, next index)"""
    n = int(A[i]); i += 1
    outer = [i + 3 * k for k in range(n)]; i += 3 * n
    h = int(A[i]); i += 1
    holes = []
    for _ in range(h):
        m = int(A[i]); i += 1
        holes.append([i + 3 * k for k in range(m)]); i += 3 * m
    return outer, holes, i

class Case:
    """polygon of a line, on the integer grid shared with `extra` (further float tokens of the line)"""
    def __init__(self, A, i0, extra):
        self.A = A
        oi, hi, self.next = rd_poly_tokens(A, i0)
        toks = []
        for k in oi: toks += A[k:k + 3]
        for h in hi:
            for k in h: toks += A[k:k + 3]
        self.sc = sc = Scale(toks + list(extra))          # may raise NonFinite
        self.outer_in = [sc.pt(A, k) for k in oi]
        self.holes_in = [[sc.pt(A, k) for k in h] for h in hi]
        self.maxc = max(abs(x) for p in self.outer_in for x in p) / sc.U
        self.f32 = OC.FMT.name == 'f32'
        self.cands = None
        self.key = None

    def static_precondition(self):
        """vertex counts, metre scale, simple input outline"""
        n = len(self.outer_in)
        if n < 3 or n > 40: return 'outer-vertex-count-outside-space'
        if len(self.holes_in) > 3: return 'hole-count-outside-space'
        for h in self.holes_in:
            if len(h) < 3 or len(h) > 8: return 'hole-vertex-count-outside-space'
        if self.maxc > 1e6: return 'outside-metre-scale'
        # "metre-scale coordinates": an outline less than half a metre across (the generator's shrunk family, edges of millimetres to
        # centimetres) is below the scale at which the crate's absolute tolerances (1e-5 on cross products, 1e-7 on heights) mean
        # what they are meant to mean; it is not judged (a panic there is still counted, as `panic-outside-space-...`)
        if max(n23(sub3(q, self.outer_in[0])) for q in self.outer_in) < self.sc.r2(MIN_EXTENT): return 'below-metre-scale'
        self.N = vector_area2(self.outer_in)
        if self.N == (0, 0, 0): return 'degenerate-outline'
        a = [abs(x) for x in self.N]
        self.ax = a.index(max(a))
        self.k0, self.k1 = [k for k in range(3) if k != self.ax]
        if not simple2(self.proj(self.outer_in)): return 'outline-not-simple'
        for h in self.holes_in:
            if not simple2(self.proj(h)): return 'hole-not-simple'
        return None

    def proj(self, pts):
        k0, k1 = self.k0, self.k1
        return [(p[k0], p[k1]) for p in pts]
    def p2(self, p):
        return (p[self.k0], p[self.k1])

    def make_candidates(self):
        cr = Crate(self.sc)
        tie_rel = Fraction(1, 10**4) if self.f32 else Fraction(1, 10**11)
        try:
            cs = candidates(cr, self.outer_in, self.holes_in, tie_rel)
        except TooManyBands:
            return 'band-collinear-threshold'
        cs = [c for c in cs if c.ok]
        if not cs: return 'band-stored-polygon-unknown'
        # identical candidates (band decisions without effect) are merged
        seen = []; out = []
        for c in cs:
            sig = (tuple(c.outer), tuple(tuple(h) for h in c.holes), tuple(c.merged))
            if sig in seen: continue
            seen.append(sig); out.append(c)
        self.cands = out
        return None

    def cand_precondition(self, c):
        """the candidate's stored polygon is inside the quantifier's space: simple loops, holes strictly inside and
        disjoint, every nearest-vertex bridge unobstructed.  Returns a skip key or None; prepares outlines."""
        sc = self.sc
        c.o2 = self.proj(c.outer)
        c.h2 = [self.proj(h) for h in c.holes]
        if len(c.outer) < 3 or not simple2(c.o2): return 'stored-outline-not-simple'
        c.O = Outline(c.o2)
        c.H = []
        for h in c.h2:
            if len(h) < 3 or not simple2(h): return 'stored-hole-not-simple'
            c.H.append(Outline(h))
        c.sgn = 1 if area2x2(c.o2) > 0 else -1
        # holes strictly inside the outer loop, pairwise disjoint, not nested
        for hi, h in enumerate(c.h2):
            for (a, b) in c.H[hi].edges:
                for (p, q) in c.O.edges:
                    if segs_touch2(a, b, p, q): return 'hole-touches-outline'
            if winding2(c.o2, h[0]) == 0: return 'hole-outside-outline'
            for hj in range(hi + 1, len(c.h2)):
                g = c.h2[hj]
                for (a, b) in c.H[hi].edges:
                    for (p, q) in c.H[hj].edges:
                        if segs_touch2(a, b, p, q): return 'holes-touch'
                if winding2(h, g[0]) != 0 or winding2(g, h[0]) != 0: return 'holes-nested'
        if c.tie: return 'band-bridge-tie'
        # bridges
        Rb = sc.r2(Fraction(1, 10**5) if not self.f32 else Fraction(1, 10**3))
        # the bridge E-I must be clear of the polygon's own geometry: every edge of the stored outer loop and holes, and
        # every earlier bridge (not of the crate's merged outline, which may already have lost vertices)
        geo = list(c.O.edges)
        for h in c.H: geo += h.edges
        for (ret, E, I, k0, remaining) in c.bridges:
            E2, I2 = self.p2(E), self.p2(I)
            for (a, b) in geo:
                if a == b: continue
                inc = None
                if a == E2 or a == I2: inc = (a, b)
                elif b == E2 or b == I2: inc = (b, a)
                if inc is not None:
                    s, q = inc
                    o = I2 if s == E2 else E2
                    if q == o: return 'bridge-obstructed'                      # an existing edge already joins E and I
                    if orient2(s, o, q) == 0 and (o[0] - s[0]) * (q[0] - s[0]) + (o[1] - s[1]) * (q[1] - s[1]) > 0:
                        return 'bridge-obstructed'                              # overlaps an incident edge
                    if near_seg2(q, E2, I2, Rb): return 'band-bridge-grazes'
                    continue
                if segs_touch2(E2, I2, a, b): return 'bridge-obstructed'
                if near_seg2(a, E2, I2, Rb) or near_seg2(b, E2, I2, Rb) or near_seg2(E2, a, b, Rb) or near_seg2(I2, a, b, Rb):
                    return 'band-bridge-grazes'
            geo.append((E2, I2))
        return None

    def net_area2x2(self, c):
        """2 x net area of the candidate's region in the projection (positive)"""
        return abs(area2x2(c.o2)) - sum(abs(area2x2(h)) for h in c.h2)

    def net_area_float(self, c):
        """net area in m^2 (float, for parameters and messages only)"""
        f = math.sqrt(float(Fraction(n23(vector_area2(c.outer)), self.sc.U2 * self.sc.U2))) / 2
        for h in c.holes:
            f -= math.sqrt(float(Fraction(n23(vector_area2(h)), self.sc.U2 * self.sc.U2))) / 2
        return f

def prepare(A, i0, extra):
    """-> (case, None) or (None, skip key)"""
    try:
        cs = Case(A, i0, extra)
    except NonFinite:
        return None, 'malformed-operand'
    k = cs.static_precondition()
    if k: return None, k
    k = cs.make_candidates()
    if k: return None, k
    return cs, None

def params_in_space(max_area_tok, max_ar_tok, area):
    """refinement request inside the quantifier: max_area >= area/2000, max_aspect_ratio in [0.8, 10]"""
    if not (OC.is_finite(max_area_tok) and OC.is_finite(max_ar_tok)): return False
    ma, mar = OC.to_float(max_area_tok), OC.to_float(max_ar_tok)
    return ma >= area / 2000 * (1 - 1e-6) and 0.8 * (1 - 1e-6) <= mar <= 10 * (1 + 1e-6)

def combine(verdicts):
    """verdicts of the candidates -> verdict of the line"""
    for v in verdicts:
        if v[0] == 'ok': return v
    if all(v[0] == 'fail' for v in verdicts): return verdicts[0]
    for v in verdicts:
        if v[0] == 'skip': return v
    return verdicts[0]

def cond_note(cs, c):
    """one clause describing how the stored polygon is conditioned (for failure details)"""
    sc = cs.sc
    mn_cross = None; mn_edge = None
    for pts in [c.outer] + c.holes:
        n = len(pts)
        for k in range(n):
            ab = sub3(pts[k], pts[k - 1]); bc = sub3(pts[(k + 1) % n], pts[k])
            cr = math.isqrt(n23(cross3(ab, bc))) / sc.U2
            e = math.isqrt(n23(bc)) / sc.U
            if mn_cross is None or cr < mn_cross: mn_cross = cr
            if mn_edge is None or e < mn_edge: mn_edge = e
    return 'outer %d vertices, %d holes, shortest edge %.3g m, smallest |ab x bc| at a vertex %.3g m2' % (len(c.outer), len(c.holes), mn_edge, mn_cross)

# ---------------------------------------------------------------------------------------------------------------
# C01 proper

SLOT = 24      # tokens per slot including the leading ';'

def judge_candidate(cs, c, tris, vert_pts, refine):
    """tris: list of (a, b, c) integer 3-D points of the VALID slots"""
    sc = cs.sc
    f32 = cs.f32
    k = cs.cand_precondition(c)
    if k: return ('skip', k)
    if refine is not None and not params_in_space(refine[0], refine[1], cs.net_area_float(c)):
        return ('skip', 'refinement-outside-space')
    U = sc.U
    scale = max(1.0, cs.maxc)
    # (a) every vertex in the polygon's plane
    N = vector_area2(c.outer); p0 = c.outer[0]; N2 = n23(N)
    tolp = Fraction(1, 10**6) if not f32 else Fraction(1, 10**3) * Fraction(scale)
    lim = tolp * tolp * sc.U2 * N2
    lim = lim.numerator // lim.denominator
    for p in vert_pts:
        d = dot3(sub3(p, p0), N)
        if d * d > lim:
            # beyond 1e-6 but within 100x of it (f64: 1e-4): the ill-conditioned circumcentre of a sliver triangle, inserted by
            # refine without a coplanarity test -- reported under its own key so that it can be told from a gross defect
            gross = d * d > lim * 10000
            return ('fail', 'vertex-off-plane' if gross else 'vertex-off-plane-small',
                    'a triangle vertex is %.3g off the polygon plane' % (abs(d) / math.isqrt(N2) / U))
    # band to the outlines
    rb = Fraction(1, 10**6) if not f32 else max(Fraction(1, 10**6), Fraction(8 * float(OC.FMT.eps) * scale))
    R2 = sc.r2(rb); r = math.isqrt(R2) + 1
    outlines = [c.O] + c.H
    def locate(p):
        """'band' | 'in' | 'out' | 'hole'"""
        for o in outlines:
            if o.near(p, R2, r): return 'band'
        if c.O.wind(p) == 0: return 'out'
        for h in c.H:
            if h.wind(p) != 0: return 'hole'
        return 'in'
    R2s = sc.r2(Fraction(1, 10**4)); rs = math.isqrt(R2s) + 1
    small = None
    sgn = c.sgn
    total = 0
    loc_cache = {}
    judged_pts = 0; band_pts = 0
    dir_edges = {}
    k0, k1 = cs.k0, cs.k1
    for ti, (a, b, cc) in enumerate(tris):
        a2 = (a[k0], a[k1]); b2 = (b[k0], b[k1]); c2 = (cc[k0], cc[k1])
        # (b) orientation
        ar = orient2(a2, b2, c2)
        if ar == 0 or n23(cross3(sub3(b, a), sub3(cc, a))) == 0:
            return ('fail', 'degenerate-triangle', 'valid triangle %d has zero area' % ti)
        if (ar > 0) != (sgn > 0):
            L2 = max((a2[0]-b2[0])**2 + (a2[1]-b2[1])**2, (b2[0]-c2[0])**2 + (b2[1]-c2[1])**2, (c2[0]-a2[0])**2 + (c2[1]-a2[1])**2)
            if abs(ar) * 10**9 < L2: return ('skip', 'band-sliver-orientation')
            return ('fail', 'orientation-flipped', 'valid triangle %d is oriented against the polygon normal (area %.6g m2)' % (ti, abs(ar) / 2 / sc.U2))
        total += ar
        # (c) inside the region: vertices, centroid, edge midpoints
        pts = [a2, b2, c2, ((a2[0] + b2[0] + c2[0]) // 3, (a2[1] + b2[1] + c2[1]) // 3),
               ((a2[0] + b2[0]) // 2, (a2[1] + b2[1]) // 2), ((b2[0] + c2[0]) // 2, (b2[1] + c2[1]) // 2), ((c2[0] + a2[0]) // 2, (c2[1] + a2[1]) // 2)]
        for pi, p in enumerate(pts):
            w = loc_cache.get(p)
            if w is None:
                w = locate(p); loc_cache[p] = w
                if w == 'band': band_pts += 1
                else: judged_pts += 1
            if w == 'out' or w == 'hole':
                names = ('vertex a', 'vertex b', 'vertex c', 'centroid', 'midpoint of ab', 'midpoint of bc', 'midpoint of ca')
                gross = not any(o.near(p, R2s, rs) for o in outlines)
                if w == 'out':
                    v = ('fail', 'triangle-outside-outline' + ('' if gross else '-small'),
                         'the %s of valid triangle %d lies outside the outer outline%s (at %.9g, %.9g in the projection)'
                         % (names[pi], ti, '' if gross else ' by less than 1e-4 m', p[0] / U, p[1] / U))
                else:
                    v = ('fail', 'triangle-in-hole' + ('' if gross else '-small'),
                         'the %s of valid triangle %d lies inside a hole%s (at %.9g, %.9g in the projection)'
                         % (names[pi], ti, '' if gross else ' by less than 1e-4 m', p[0] / U, p[1] / U))
                if gross: return v
                if small is None: small = v
        # the same directed edge twice = two equally oriented triangles on the same side of it
        for e in ((a, b), (b, cc), (cc, a)):
            if e in dir_edges:
                return ('fail', 'triangles-overlap', 'valid triangles %d and %d lie on the same side of a shared edge' % (dir_edges[e], ti))
            dir_edges[e] = ti
    # (d) areas
    net = cs.net_area2x2(c)
    total = abs(total)
    tol = 10**7 if not f32 else 10**3
    area_fail = None
    if abs(total - net) * tol > net:
        rel = float(Fraction(total - net, net))
        # a difference that the crate's collinearity tolerance explains (it drops vertices whose triangle with their
        # neighbours is below 5e-6 m2) is reported under its own key
        k3 = math.sqrt(float(Fraction(N2, N[cs.ax] ** 2)))            # projected area -> area in the plane
        diff = abs(total - net) / 2 / sc.U2 * k3
        mverts = len(cs.outer_in) + sum(len(h) + 2 for h in cs.holes_in)
        key = 'area-mismatch-small' if diff <= 5e-6 * mverts else 'area-mismatch'
        area_fail = ('fail', key, 'triangle areas sum to %.12g m2, the polygon has %.12g m2 (difference %.3g m2, relative %.3g)'
                     % (total / 2 / sc.U2 * k3, net / 2 / sc.U2 * k3, diff, rel))
        if key == 'area-mismatch': return area_fail
    if small is not None: return small
    if area_fail is not None: return area_fail
    # direct pairwise test: no two edges of the mesh cross properly
    if len(tris) <= 400:
        seen = set(); E = []
        for (a, b, cc) in tris:
            for (p, q) in ((a, b), (b, cc), (cc, a)):
                if (q, p) in seen or (p, q) in seen: continue
                seen.add((p, q))
                p2, q2 = (p[k0], p[k1]), (q[k0], q[k1])
                E.append((min(p2[0], q2[0]), max(p2[0], q2[0]), min(p2[1], q2[1]), max(p2[1], q2[1]), p2, q2))
        E.sort(key=lambda e: e[0])
        m = len(E)
        for i in range(m):
            x0, x1, y0, y1, p, q = E[i]
            j = i + 1
            while j < m and E[j][0] < x1:
                e = E[j]; j += 1
                if e[3] <= y0 or e[2] >= y1: continue
                u, v = e[4], e[5]
                if p == u or p == v or q == u or q == v: continue
                if segs_cross2(p, q, u, v):
                    # by a margin: every end point clearly off the other edge's line (collinear edges of a T-junction that
                    # rounding turned into a crossing, or a vertex rounded across an edge, are not overlaps)
                    def off(a, b, x, r2=None):
                        o = orient2(a, b, x)
                        return o * o > (R2 if r2 is None else r2) * ((b[0]-a[0])**2 + (b[1]-a[1])**2)
                    if off(p, q, u) and off(p, q, v) and off(u, v, p) and off(u, v, q):
                        deep = off(p, q, u, R2s) and off(p, q, v, R2s) and off(u, v, p, R2s) and off(u, v, q, R2s)
                        den = (q[0]-p[0]) * (v[1]-u[1]) - (q[1]-p[1]) * (v[0]-u[0])
                        s = Fraction((u[0]-p[0]) * (v[1]-u[1]) - (u[1]-p[1]) * (v[0]-u[0]), den)
                        return ('fail', 'triangles-overlap' if deep else 'triangles-overlap-small',
                                'two mesh edges cross at an interior point%s (at %.9g, %.9g in the projection)'
                                % ('' if deep else ', one end less than 1e-4 m beyond the other edge', float(p[0] + s * (q[0]-p[0])) / U, float(p[1] + s * (q[1]-p[1])) / U))
    if judged_pts == 0: return ('skip', 'band-all-points-on-outline')
    return ('ok', '')

def judge(ln):
    if ln.op == 'mesh.from_polygon': refine = False
    elif ln.op == 'mesh.mesh_polygon': refine = True
    else: return ('skip', 'leaf')
    R = ln.res
    if not R or R[0] == 'build-err': return ('skip', 'not-built')
    if R[0] == 'trilist-differs': return ('fail', 'trilist-differs', 'get_trilist() does not return the triangles of the slots (%s)' % ' '.join(R[1:]))
    if R[0] != 'ok': return ('skip', 'not-ok-' + R[0])           # C01 speaks about successful triangulations (C09: the others)
    A = ln.args
    nslots = int(R[1]); nvalid = int(R[2])
    if len(R) != 3 + SLOT * nslots: return ('fail', 'oracle-format', 'unexpected number of result tokens')
    extra = []
    valid_slots = []
    for s in range(nslots):
        b = 4 + SLOT * s
        if R[b + 13] == '1':
            valid_slots.append(b)
            extra += R[b:b + 9]
    if not all(finite_tok(t) for t in extra): return ('fail', 'non-finite-vertex', 'a valid triangle has a NaN or infinite coordinate')
    cs, key = prepare(A, 0, extra)
    if cs is None: return ('skip', key)
    # (e) the counter of valid triangles counts exactly the valid slots
    if nvalid != len(valid_slots):
        return ('fail', 'n-valid-mismatch', 'n_valid_triangles = %d but %d slots are valid' % (nvalid, len(valid_slots)))
    if not valid_slots: return ('fail', 'no-triangles', 'ok result without a valid triangle')
    sc = cs.sc
    tris = [(sc.pt(R, b), sc.pt(R, b + 3), sc.pt(R, b + 6)) for b in valid_slots]
    vert_pts = set()
    for t in tris: vert_pts.update(t)
    rf = (A[cs.next], A[cs.next + 1]) if refine else None
    v = combine([judge_candidate(cs, c, tris, vert_pts, rf) for c in cs.cands])
    return small_feature_key(cs, v)

def small_feature_key(cs, v):
    """a failure on a polygon one of whose edges is shorter than 1 cm gets the sub-key `:sub-cm-feature`: features of that size
    are below the resolution of the crate's absolute tolerances (|ab x bc| < 1e-5 m2 counts as collinear: every corner of a
    hole with 3 mm edges does), a family of failures recorded as one known finding; the same failure on a polygon without such
    features keeps its plain key"""
    if v[0] != 'fail' or v[1].endswith('-small') or cs.f32: return v          # tolerance-level keys and the f32 build are findings of their own
    sc = cs.sc
    lim = sc.r2(Fraction(1, 100))
    for pts in [cs.outer_in] + cs.holes_in:
        n = len(pts)
        for k in range(n):
            if n23(sub3(pts[(k + 1) % n], pts[k])) < lim:
                return ('fail', v[1] + ':sub-cm-feature', (v[2] if len(v) > 2 else v[1]) + ' [the polygon has an edge shorter than 1 cm]')
    return v
