"""C17: the interval quadratic solver encloses the true roots (judged exactly, sqrt bracketed to 2^-200)."""
from fractions import Fraction
import itertools
from .common import *

def choices(iv):
    lo, hi = iv
    if lo == hi: return [lo]
    return [lo, hi, (lo + hi) / 2, lo + (hi - lo) / 3]

def judge(ln):
    if ln.op != 'ap.solve': return ('skip', 'leaf')
    A = ln.args
    if not all_finite(A): return ('skip', 'malformed-operand')
    a = (frac(A[0]), frac(A[1])); b = (frac(A[2]), frac(A[3])); c = (frac(A[4]), frac(A[5]))
    if a[0] > a[1] or b[0] > b[1] or c[0] > c[1]: return ('skip', 'malformed-operand')
    if a[0] <= 0 <= a[1]: return ('skip', 'a-contains-zero')
    combos = list(itertools.product(choices(a), choices(b) + ([Fraction(0)] if b[0] < 0 < b[1] else []), choices(c)))
    discs = [(bb * bb - 4 * aa * cc, aa, bb, cc) for (aa, bb, cc) in combos]
    dmin = min(d[0] for d in discs); dmax = max(d[0] for d in discs)
    if ln.res[0] == 'none':
        if dmax < 0: return ('ok', '')
        # clearly positive for all choices?
        clear = all(d > Fraction(1, 10**6) * (bb * bb + abs(4 * aa * cc)) for (d, aa, bb, cc) in discs)
        if clear: return ('fail', 'missed-roots', 'discriminant clearly positive for every sampled coefficient choice but no roots returned')
        return ('skip', 'discriminant-band')
    R = ln.res[1:]
    if any(is_nan(t) for t in R): return ('fail', 'nan-root-bound', 'NaN in a returned bound')
    x1 = (ext(R[0]), ext(R[1])); x2 = (ext(R[2]), ext(R[3]))
    if not (x1[0] <= x1[1] and x2[0] <= x2[1]): return ('fail', 'ill-formed', 'returned interval with low > high')
    if not x1[0] <= x2[0]: return ('fail', 'not-ascending', 'first interval starts above the second')
    if dmin < 0:
        if dmax < 0: return ('fail', 'roots-of-negative-discriminant', 'roots returned although the discriminant is negative for every choice')
        return ('fail', 'roots-though-discriminant-negative-somewhere', 'roots returned although the discriminant is negative for an admissible coefficient choice')
    for (d, aa, bb, cc) in discs:
        sl, sh = isqrt_frac_bounds(d, 220)
        # roots (-b ± s)/(2a) with s in [sl, sh]
        def rng(sign):
            v = [(-bb + sign * s) / (2 * aa) for s in (sl, sh)]
            return (min(v), max(v))
        ra, rb = rng(-1), rng(+1)
        small, large = (ra, rb) if ra[0] + ra[1] <= rb[0] + rb[1] else (rb, ra)
        for (name, r, X) in (('smaller', small, x1), ('larger', large, x2)):
            if X[0] <= r[0] and r[1] <= X[1]: continue
            if r[1] < X[0] or r[0] > X[1]:
                # is it at least in the other interval? (mis-ordered enclosure) — classify
                other = x2 if X is x1 else x1
                key = 'root-in-wrong-interval' if (other[0] <= r[0] and r[1] <= other[1]) else 'root-not-enclosed'
                return ('fail', key, '%s root %.17g not in its interval [%s, %s] (a=%.17g b=%.17g c=%.17g)' % (name, float(r[0]), float(X[0]), float(X[1]), float(aa), float(bb), float(cc)))
            return ('skip', 'bracket-straddles-endpoint')
    return ('ok', '')
