"""C06: transforms and their inverses stay consistent under composition (judged on what the crate returned)."""
from fractions import Fraction
from .common import *
from .transforms import *

def close(got, want, mag, what):
    tol = rel_tol() * mag
    if abs(got - want) <= tol: return None
    return '%s: got %.17g want %.17g (tol %.3g)' % (what, float(got), float(want), float(tol))

def apply_abs(A, p, with_t=True):
    return [A[i][0]*abs(p[0]) + A[i][1]*abs(p[1]) + A[i][2]*abs(p[2]) + (A[i][3] if with_t else 0) for i in range(3)]

def judge(ln):
    op = ln.op
    if op == 'consts': return ('skip', 'leaf')
    elems, i = parse_chain(ln.args, 0)
    rest = ln.args[i:]
    if not all_finite(ln.res) and op not in ('tr.hands', 'info.tr'):
        return ('fail', 'non-finite', 'non-finite output')
    if op == 'info.tr' and all_finite(rest[:6] + rest[7:13]) and not all_finite(ln.res[:6] + ln.res[7:19] + ln.res[20:]):
        return ('fail', 'non-finite', 'non-finite output')
    M, Minv, A, Ainv = chain_reference(elems)
    if op == 'tr.chain':
        m = mat_from_tokens(ln.res[:16]); inv = mat_from_tokens(ln.res[16:32])
        # stored matrix equals the reference composition, stored inverse equals the reference inverse
        for i in range(4):
            for j in range(4):
                e = close(m[i][j], M[i][j], A[i][j] + Fraction(1, 10**6) * 0, 'm[%d][%d]' % (i, j))
                if e: return ('fail', 'composition-order', e)
                e = close(inv[i][j], Minv[i][j], Ainv[i][j], 'inv[%d][%d]' % (i, j))
                if e: return ('fail', 'inverse-order', e)
        # and the two stored matrices really are inverse to each other
        P = mat_mul(m, inv)
        Pa = mat_mul([[abs(x) for x in r] for r in m], [[abs(x) for x in r] for r in inv])
        for i in range(4):
            for j in range(4):
                e = close(P[i][j], Fraction(int(i == j)), Pa[i][j] + 1, 'm*inv[%d][%d]' % (i, j))
                if e: return ('fail', 'not-inverse', e)
        if [m[3][k] for k in range(4)] != [0, 0, 0, 1]: return ('fail', 'not-affine', 'last row')
        return ('ok', '')
    if op == 'tr.hands':
        want = scale_sign(elems) < 0
        got = ln.res[0] == '1'
        return ('ok', '') if want == got else ('fail', 'handedness', 'changes_hands=%s but scale sign product is %d' % (got, scale_sign(elems)))
    if op in ('tr.pt', 'tr.vec', 'tr.nrm'):
        p = V(rest, 0)
        a = V(ln.res, 0); b = V(ln.res, 3)
        if op == 'tr.pt':
            wa = mat_pt(M, p); wb = mat_pt(Minv, p)
            ma = apply_abs(A, p); mb = apply_abs(Ainv, p)
        elif op == 'tr.vec':
            wa = mat_vec(M, p); wb = mat_vec(Minv, p)
            ma = apply_abs(A, p, False); mb = apply_abs(Ainv, p, False)
        else:
            MT = [[Minv[j][i] for j in range(4)] for i in range(4)]
            MiT = [[M[j][i] for j in range(4)] for i in range(4)]
            AT = [[Ainv[j][i] for j in range(4)] for i in range(4)]
            AiT = [[A[j][i] for j in range(4)] for i in range(4)]
            wa = mat_vec(MT, p); wb = mat_vec(MiT, p)
            ma = apply_abs(AT, p, False); mb = apply_abs(AiT, p, False)
        for k in range(3):
            e = close(a[k], wa[k], ma[k], '%s forward[%d]' % (op, k))
            if e: return ('fail', 'apply-B-then-A', e)
            e = close(b[k], wb[k], mb[k], '%s inverse[%d]' % (op, k))
            if e: return ('fail', 'inverse-apply', e)
        return ('ok', '')
    if op == 'tr.box':
        bmin = V(rest, 0); bmax = V(rest, 3)
        for (res_off, MM, AA, name) in ((0, M, A, 'forward'), (6, Minv, Ainv, 'inverse')):
            rmin = V(ln.res, res_off); rmax = V(ln.res, res_off + 3)
            pts = [(x, y, z) for x in (bmin[0], bmax[0]) for y in (bmin[1], bmax[1]) for z in (bmin[2], bmax[2])]
            pts.append(tuple((bmin[k] + bmax[k]) / 2 for k in range(3)))
            pts.append(tuple((bmin[k] * 3 + bmax[k]) / 4 for k in range(3)))
            for p in pts:
                q = mat_pt(MM, p); mg = apply_abs(AA, p)
                for k in range(3):
                    tol = rel_tol() * mg[k]
                    if q[k] < rmin[k] - tol or q[k] > rmax[k] + tol:
                        return ('fail', 'box-loses-image', '%s box: image of %s not inside (axis %d)' % (name, [float(c) for c in p], k))
        return ('ok', '')
    if op == 'tr.ray':
        o = V(rest, 0); d = V(rest, 3)
        for (off, MM, AA, name) in ((0, M, A, 'forward'), (12, Minv, Ainv, 'inverse')):
            ro = V(ln.res, off); rd = V(ln.res, off + 3)
            wd = mat_vec(MM, d); wo = mat_pt(MM, o)
            md = apply_abs(AA, d, False); mo = apply_abs(AA, o)
            for k in range(3):
                e = close(rd[k], wd[k], md[k], 'ray %s dir[%d]' % (name, k))
                if e: return ('fail', 'ray-direction', e)
            # origin = wo + dt*wd with dt >= 0 and small
            l2 = vnorm2(wd)
            if l2 == 0:
                continue
            dt = vdot(vsub(ro, wo), wd) / l2
            tolo = rel_tol() * sum(mo)
            if dt * dt * l2 < 0 or dt < -tolo / max(l2, Fraction(1, 10**30)):
                return ('fail', 'ray-origin-backwards', 'dt=%.3g' % float(dt))
            resid = vsub(vsub(ro, wo), vscale(wd, dt))
            if any(abs(resid[k]) > tolo for k in range(3)):
                return ('fail', 'ray-off-line', 'origin left the exact image line by %s' % [float(x) for x in resid])
            # displaced by at most ~ the origin's error bound (first order): |dt*wd| <= 64*gamma*|mo|
            if any(abs(dt * wd[k]) > 64 * tolo for k in range(3)):
                return ('fail', 'ray-origin-too-far', 'origin advanced by %s' % [float(dt * wd[k]) for k in range(3)])
        return ('ok', '')
    if op == 'info.tr':
        if not all_finite(rest[:6] + rest[7:13]): return ('skip', 'malformed-operand')
        p = V(rest, 0); n = V(rest, 3); side = rest[6]; du = V(rest, 7); dv = V(rest, 10)
        MT = [[Minv[j][i] for j in range(4)] for i in range(4)]
        MiT = [[M[j][i] for j in range(4)] for i in range(4)]
        AT = [[Ainv[j][i] for j in range(4)] for i in range(4)]
        AiT = [[A[j][i] for j in range(4)] for i in range(4)]
        for (off, MM, AA, NT, NA, name) in ((0, M, A, MT, AT, 'transform'), (13, Minv, Ainv, MiT, AiT, 'inv_transform')):
            rp = V(ln.res, off); rn = V(ln.res, off + 3); rside = ln.res[off + 6]; rdu = V(ln.res, off + 7); rdv = V(ln.res, off + 10)
            if rside != side: return ('fail', 'info-side-changed', 'side changed by %s' % name)
            wp = mat_pt(MM, p); mp = apply_abs(AA, p)
            wn = mat_vec(NT, n); mn_ = apply_abs(NA, n, False)
            wdu = mat_vec(MM, du); mdu = apply_abs(AA, du, False)
            wdv = mat_vec(MM, dv); mdv = apply_abs(AA, dv, False)
            for k in range(3):
                for (g, w, m_, what, key) in ((rp, wp, mp, 'point', 'info-point'), (rn, wn, mn_, 'normal (inverse transpose)', 'info-normal-not-inverse-transpose'),
                                           (rdu, wdu, mdu, 'dpdu', 'info-tangent'), (rdv, wdv, mdv, 'dpdv', 'info-tangent')):
                    e = close(g[k], w[k], m_[k], '%s %s[%d]' % (name, what, k))
                    if e: return ('fail', key, e)
            # the carried normal stays perpendicular to the carried tangents (they were perpendicular before)
            for (tv, nm) in ((rdu, 'dpdu'), (rdv, 'dpdv')):
                d = vdot(rn, tv)
                import math
                scale = Fraction(math.sqrt(float(vnorm2(rn)) * float(vnorm2(tv))))
                if abs(d) > rel_tol() * 64 * max(scale, Fraction(1, 10**12)) and abs(vdot(n, du)) + abs(vdot(n, dv)) < Fraction(1, 10**9):
                    return ('fail', 'info-normal-not-perpendicular', '%s: normal . %s = %.3g' % (name, nm, float(d)))
        return ('ok', '')
    return ('skip', 'leaf')
