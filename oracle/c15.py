"""C15: bounding boxes bound (box algebra judged exactly; transformed boxes via the exact chain reference)."""
from .common import *
from . import c06

def box(toks, i): return (V(toks, i), V(toks, i + 3))
def contains(b, p): return all(b[0][k] <= p[k] <= b[1][k] for k in range(3))
def corners(b): return [(x, y, z) for x in (b[0][0], b[1][0]) for y in (b[0][1], b[1][1]) for z in (b[0][2], b[1][2])]

def judge(ln):
    op = ln.op
    if op == 'tr.box': return c06.judge(ln)
    if not op.startswith('bb.'): return ('skip', 'leaf')
    if not all_finite(ln.args): return ('skip', 'malformed-operand')
    A = ln.args
    if op == 'bb.new':
        a, b = V(A, 0), V(A, 3); r = box(ln.res, 0)
        ok = all(r[0][k] == min(a[k], b[k]) and r[1][k] == max(a[k], b[k]) for k in range(3))
        return ('ok', '') if ok else ('fail', 'new', 'not the coordinate-wise min/max')
    if op == 'bb.unionpt':
        b, p = box(A, 0), V(A, 6); r = box(ln.res, 0)
        ok = contains(r, p) and all(contains(r, c) for c in corners(b))
        tight = all(r[0][k] in (b[0][k], p[k]) and r[1][k] in (b[1][k], p[k]) for k in range(3))
        return ('ok', '') if ok and tight else ('fail', 'unionpt', 'union with a point does not contain both / is not tight')
    if op == 'bb.union':
        a, b = box(A, 0), box(A, 6); r = box(ln.res, 0)
        ok = all(contains(r, c) for c in corners(a) + corners(b))
        tight = all(r[0][k] in (a[0][k], b[0][k]) and r[1][k] in (a[1][k], b[1][k]) for k in range(3))
        return ('ok', '') if ok and tight else ('fail', 'union', 'union does not contain both operands / is not tight')
    if op == 'bb.inter':
        a, b = box(A, 0), box(A, 6); r = box(ln.res, 0)
        common = all(max(a[0][k], b[0][k]) <= min(a[1][k], b[1][k]) for k in range(3))
        if not common: return ('skip', 'disjoint')
        ok = all(contains(a, c) and contains(b, c) for c in corners(r))
        full = all(r[0][k] == max(a[0][k], b[0][k]) and r[1][k] == min(a[1][k], b[1][k]) for k in range(3))
        return ('ok', '') if ok and full else ('fail', 'inter', 'intersection box not inside both operands / not the full intersection')
    if op == 'bb.overlaps':
        a, b = box(A, 0), box(A, 6)
        common = all(max(a[0][k], b[0][k]) <= min(a[1][k], b[1][k]) for k in range(3))
        got = ln.res[0] == '1'
        return ('ok', '') if got == common else ('fail', 'overlaps', 'overlaps=%s but common point exists=%s' % (got, common))
    if op == 'bb.inside':
        b, p = box(A, 0), V(A, 6)
        w1 = contains(b, p)
        w2 = all(b[0][k] <= p[k] < b[1][k] for k in range(3))
        ok = (ln.res[0] == '1') == w1 and (ln.res[1] == '1') == w2
        return ('ok', '') if ok else ('fail', 'inside', 'point_inside / exclusive wrong')
    if op == 'bb.misc':
        b = box(A, 0)
        d = vsub(b[1], b[0])
        area = 2 * (d[0]*d[1] + d[0]*d[2] + d[1]*d[2])
        got = frac(ln.res[1])
        if abs(got - area) > FMT_tol() * max(area, 1): return ('fail', 'area', 'surface area')
        ax = int(ln.res[0])
        m = max(d)
        if d[ax] < m * (1 - FMT_tol()): return ('fail', 'max-extent', 'axis %d is not the longest' % ax)
        return ('ok', '')
    return ('skip', 'leaf')

def FMT_tol():
    from . import common as C
    return C.FMT.u * 64
