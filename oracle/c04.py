"""C04: loops admit exactly planar, non-self-crossing outlines (judged step by step on push/close histories)."""
from fractions import Fraction
import math
from .common import *
from .planar import *

MARG = Fraction(1, 10**6)

def parse_groups(res):
    return [g.split(' ') for g in ' '.join(res).split(' | ')]

def state_of(g):
    """g = [cls, closed, n, verts…, normal(3), [area, perimeter]] -> (cls, LoopState) ; ('panic', None)"""
    if g[0] == 'panic': return 'panic', None
    L, j = rd_loop_state(g, 1)
    L.tokens = g[1:]
    return g[0], L

def plane_of(pts):
    """exact plane (p0, normal) from the first non-collinear triple; None if there is none"""
    n = len(pts)
    for i in range(n - 2):
        nr = cross(sub(pts[i + 1], pts[i]), sub(pts[i + 2], pts[i + 1]))
        if n2(nr) != 0 and fnorm(nr) > 1e-9 * max(fnorm(sub(pts[i + 1], pts[i])) * fnorm(sub(pts[i + 2], pts[i + 1])), 1e-300):
            return pts[0], nr
    return None

def crossing_status(a, b, c, d, ax):
    """'cross' (clearly, properly), 'clear' (closed segments at least 1e-5 apart) or 'band'"""
    a2, b2, c2, d2 = proj1(a, ax), proj1(b, ax), proj1(c, ax), proj1(d, ax)
    if segs_properly_cross2(a2, b2, c2, d2):
        # interior to both by a margin: intersection parameters in (1e-6, 1-1e-6) and not nearly parallel
        den = (b2[0]-a2[0])*(d2[1]-c2[1]) - (b2[1]-a2[1])*(d2[0]-c2[0])
        s = ((c2[0]-a2[0])*(d2[1]-c2[1]) - (c2[1]-a2[1])*(d2[0]-c2[0])) / den
        t = ((c2[0]-a2[0])*(b2[1]-a2[1]) - (c2[1]-a2[1])*(b2[0]-a2[0])) / den
        la, lc = fnorm(sub(b, a)), fnorm(sub(d, c))
        sinang = abs(float(den)) / max(math.sqrt(float((b2[0]-a2[0])**2 + (b2[1]-a2[1])**2)) * math.sqrt(float((d2[0]-c2[0])**2 + (d2[1]-c2[1])**2)), 1e-300)
        m = Fraction(1, 10**4)
        # the crate takes two edges for parallel when no component of ab x cd exceeds 1e-5 (an ABSOLUTE bound on the
        # unnormalised cross product; until 2d3851b also when |ab x cd|^2 < 1e-5 for directions that agree): "clearly
        # transversal" keeps a factor 10 away from it
        cr = cross(sub(b, a), sub(d, c))
        crmax = max(abs(float(cr[0])), abs(float(cr[1])), abs(float(cr[2])))
        if m < s < 1 - m and m < t < 1 - m and sinang > 1e-3 and la > 1e-3 and lc > 1e-3 and crmax > 1e-4: return 'cross'
        return 'band'
    if segs_touch2(a2, b2, c2, d2): return 'band'
    dmin = min(dist2_point_segment(a, c, d), dist2_point_segment(b, c, d), dist2_point_segment(c, a, b), dist2_point_segment(d, a, b))
    return 'clear' if dmin > Fraction(1, 10**8) else 'band'

def normal_ok(L):
    if len(L.pts) < 3: return True
    n = tuple(to_float(t) for t in L.normal_toks)
    if not all(math.isfinite(c) for c in n): return False
    return abs(math.sqrt(sum(c * c for c in n)) - 1) < 1e-6

def judge(ln):
    if ln.op != 'loop.hist': return ('skip', 'leaf')
    A = ln.args
    k = int(A[0]); i = 1
    steps = []
    for _ in range(k):
        if A[i] == 'C': steps.append(('C', None)); i += 1
        else:
            t = A[i + 1:i + 4]; i += 4
            steps.append(('P', t))
    groups = parse_groups(ln.res)
    prev = LoopState(); prev.closed = False; prev.pts = []; prev.tokens = None
    judged = 0
    for (kind, t), g in zip(steps, groups):
        cls, S = state_of(g)
        if cls == 'panic': return ('fail', 'panic', 'loop construction panicked at step %d (%s)' % (judged, kind))
        if S.pts is None or prev.pts is None: return ('skip', 'malformed-operand')
        if cls == 'err' and prev.tokens is not None and S.tokens != prev.tokens:
            return ('fail', 'err-changed-loop', 'a refused %s changed the loop' % ('push' if kind == 'P' else 'close'))
        if kind == 'P':
            if not all(is_finite(x) for x in t): return ('skip', 'malformed-operand')
            p = (frac(t[0]), frac(t[1]), frac(t[2]))
            n = len(prev.pts)
            # a point that folds the outline back onto its last edge (a zero-width spike) keeps it "non-crossing" but can
            # only produce a vertex collinear with its neighbours: either answer is accepted
            foldback = False
            if n >= 2:
                a_, b_ = prev.pts[-2], prev.pts[-1]
                e_ = sub(b_, a_); w_ = sub(p, b_)
                if dot(e_, w_) < 0 and fnorm(cross(e_, w_)) < 1e-4 * max(fnorm(e_) * fnorm(w_), 1e-300): foldback = True
            if prev.closed:
                if cls != 'err': return ('fail', 'push-into-closed-loop-accepted', 'push into a closed loop succeeded')
            elif foldback:
                pass
            elif n >= 3 and not normal_ok(prev):
                return ('fail', 'normal-invalid', 'open loop with %d vertices has a non-unit / NaN normal' % n)
            elif n >= 3:
                pl = plane_of(prev.pts)
                if pl is None: prev = S; continue
                d = abs(plane_dist(p, pl[0], pl[1]))
                if d > 1e-6:
                    judged += 1
                    if cls != 'err': return ('fail', 'off-plane-point-accepted', 'a point %.3g off the plane was accepted' % d)
                elif d < 1e-8:
                    ax = drop_axis(pl[1])
                    last = prev.pts[-1]
                    stats = [crossing_status(last, p, prev.pts[e], prev.pts[e + 1], ax) for e in range(0, n - 2)]
                    degenerate = n2(sub(p, last)) < Fraction(1, 10**8)
                    if 'cross' in stats:
                        judged += 1
                        if cls != 'err': return ('fail', 'crossing-edge-accepted', 'an edge that clearly crosses an earlier edge was accepted')
                    elif all(s == 'clear' for s in stats) and not degenerate:
                        judged += 1
                        if cls != 'ok': return ('fail', 'valid-point-refused', 'a coplanar point whose edge stays clear of every earlier edge was refused')
            else:
                judged += 1
                if cls != 'ok': return ('fail', 'valid-point-refused', 'one of the first three points was refused')
            if cls == 'ok':
                # the outline after an accepted push: the old one minus the trailing vertices the new point makes redundant
                # (collinear with their neighbours / coincident), plus the point unless it repeats the (new) last vertex
                close_to = lambda u, v, t: all(abs(u[c] - v[c]) < t for c in range(3))
                if S.pts and S.pts == prev.pts[:len(S.pts)] and close_to(S.pts[-1], p, Fraction(1, 10**5)): k = len(S.pts)
                elif S.pts and S.pts[-1] == p and S.pts[:-1] == prev.pts[:len(S.pts) - 1]: k = len(S.pts) - 1
                else: return ('fail', 'pushed-point-not-last', 'after a successful push the outline is not the old one (minus trailing vertices) plus the point')
                for j in range(k, n):
                    if j == 0: return ('fail', 'first-vertex-dropped', 'a push dropped the only vertex')
                    a_, b_ = prev.pts[j - 1], prev.pts[j]
                    if close_to(a_, b_, Fraction(2, 10**5)) or close_to(b_, p, Fraction(2, 10**5)) or close_to(a_, p, Fraction(2, 10**5)): continue
                    if fnorm(cross(sub(b_, a_), sub(p, b_))) > 2e-5:
                        return ('fail', 'non-redundant-vertex-dropped', 'a push dropped vertex %d, which is not collinear with its neighbours' % j)
                if len(S.pts) == n + 1 and n >= 2:
                    a_, b_ = prev.pts[-2], prev.pts[-1]
                    if fnorm(cross(sub(b_, a_), sub(p, b_))) < 5e-6:
                        return ('fail', 'redundant-vertex-kept', 'a push kept a last vertex that the new point makes collinear with its neighbours')
                if len(S.pts) >= 3 and not normal_ok(S):
                    return ('fail', 'normal-invalid-after-push', 'after an accepted push the loop has %d vertices but a non-unit / NaN normal' % len(S.pts))
        else:
            if cls == 'ok':
                judged += 1
                if not S.closed: return ('fail', 'close-ok-not-closed', 'close() succeeded but the loop is not closed')
                m = len(S.pts)
                if m < 3: return ('fail', 'closed-with-less-than-3', 'closed loop with %d vertices' % m)
                for j in range(m):
                    a, b, c = S.pts[j - 1], S.pts[j], S.pts[(j + 1) % m]
                    cr = fnorm(cross(sub(b, a), sub(c, b)))
                    if cr < 1e-7 * max(1.0, fnorm(sub(b, a)) * fnorm(sub(c, b))) and cr < 1e-7:
                        return ('fail', 'closed-with-collinear-vertex', 'vertex %d of the closed loop is collinear with its neighbours' % j)
                pl = plane_of(S.pts)
                if pl is not None:
                    for q in S.pts:
                        if abs(plane_dist(q, pl[0], pl[1])) > 1e-5: return ('fail', 'closed-non-planar', 'closed loop is not planar')
        prev = S
    if judged == 0: return ('skip', 'band')
    return ('ok', '')
