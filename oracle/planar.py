"""Exact planar-polygon helpers for the loop / polygon / triangulation oracles.

Points are exact rationals (Fractions of the float coordinates).  A polygon that is coplanar up to rounding is judged in the
2-D projection that drops the dominant coordinate of its exact vector area (an affine map: incidence, orientation up to a
global sign, winding numbers and area ratios are preserved), so every decision below is exact."""
from fractions import Fraction
import math
from .common import frac, to_float, is_finite

def rd_pts(toks, i):
    """`n x y z …` -> (list of (Fraction,Fraction,Fraction), next index); None if a coordinate is not finite"""
    n = int(toks[i]); i += 1
    pts = []
    ok = True
    for _ in range(n):
        t = toks[i:i + 3]; i += 3
        if not all(is_finite(x) for x in t):
            ok = False; pts.append(None)
        else:
            pts.append((frac(t[0]), frac(t[1]), frac(t[2])))
    return (pts if ok else None), i

class LoopState:
    """`closed n verts… normal [area perimeter]`"""
    def __init__(self): pass

def rd_loop_state(toks, i):
    L = LoopState()
    L.closed = toks[i] == '1'; i += 1
    L.pts, i = rd_pts(toks, i)
    L.normal_toks = toks[i:i + 3]; i += 3
    L.area = L.perimeter = None
    if L.closed:
        L.area_tok, L.perimeter_tok = toks[i], toks[i + 1]; i += 2
    return L, i

def sub(a, b): return (a[0] - b[0], a[1] - b[1], a[2] - b[2])
def add(a, b): return (a[0] + b[0], a[1] + b[1], a[2] + b[2])
def scale(a, s): return (a[0] * s, a[1] * s, a[2] * s)
def dot(a, b): return a[0] * b[0] + a[1] * b[1] + a[2] * b[2]
def cross(a, b): return (a[1] * b[2] - a[2] * b[1], a[2] * b[0] - a[0] * b[2], a[0] * b[1] - a[1] * b[0])
def n2(a): return dot(a, a)
def fnorm(a): return math.sqrt(float(n2(a)))

def vector_area(pts):
    """½ Σ v_i × v_{i+1} (exact)"""
    s = (Fraction(0),) * 3
    n = len(pts)
    for i in range(n):
        s = add(s, cross(pts[i], pts[(i + 1) % n]))
    return scale(s, Fraction(1, 2))

def vector_area_rel(pts):
    """vector area computed relative to the first vertex (same value, smaller numbers)"""
    o = pts[0]
    q = [sub(p, o) for p in pts]
    return vector_area(q)

def drop_axis(nrm):
    a = [abs(x) for x in nrm]
    return a.index(max(a))

def project(pts, ax):
    k = [i for i in range(3) if i != ax]
    return [(p[k[0]], p[k[1]]) for p in pts]

def proj1(p, ax):
    k = [i for i in range(3) if i != ax]
    return (p[k[0]], p[k[1]])

def orient2(a, b, c):
    return (b[0] - a[0]) * (c[1] - a[1]) - (b[1] - a[1]) * (c[0] - a[0])

def on_segment2(a, b, p):
    if orient2(a, b, p) != 0: return False
    return min(a[0], b[0]) <= p[0] <= max(a[0], b[0]) and min(a[1], b[1]) <= p[1] <= max(a[1], b[1])

def winding2(poly, p):
    """exact winding number of the closed 2-D polyline around p (p must not be on it)"""
    w = 0
    n = len(poly)
    for i in range(n):
        a, b = poly[i], poly[(i + 1) % n]
        if a[1] <= p[1]:
            if b[1] > p[1] and orient2(a, b, p) > 0: w += 1
        else:
            if b[1] <= p[1] and orient2(a, b, p) < 0: w -= 1
    return w

def dist2_point_segment(p, a, b):
    """squared distance (exact rational) from p to the segment ab in 3-D"""
    ab = sub(b, a); ap = sub(p, a)
    L = n2(ab)
    if L == 0: return n2(ap)
    t = dot(ap, ab) / L
    if t < 0: t = Fraction(0)
    elif t > 1: t = Fraction(1)
    c = add(a, scale(ab, t))
    return n2(sub(p, c))

def dist2_to_outline(p, pts):
    n = len(pts)
    return min(dist2_point_segment(p, pts[i], pts[(i + 1) % n]) for i in range(n))

def segs_properly_cross2(a, b, c, d):
    """open segments ab and cd cross transversally at a point interior to both (2-D, exact)"""
    o1, o2 = orient2(a, b, c), orient2(a, b, d)
    o3, o4 = orient2(c, d, a), orient2(c, d, b)
    return (o1 * o2 < 0) and (o3 * o4 < 0)

def segs_touch2(a, b, c, d):
    """closed segments share at least one point (2-D, exact)"""
    o1, o2 = orient2(a, b, c), orient2(a, b, d)
    o3, o4 = orient2(c, d, a), orient2(c, d, b)
    if (o1 * o2 < 0) and (o3 * o4 < 0): return True
    return (o1 == 0 and on_segment2(a, b, c)) or (o2 == 0 and on_segment2(a, b, d)) or \
           (o3 == 0 and on_segment2(c, d, a)) or (o4 == 0 and on_segment2(c, d, b))

def plane_dist(p, p0, nrm):
    """signed distance of p to the plane through p0 with (non-unit, exact) normal nrm — as a float"""
    L = fnorm(nrm)
    if L == 0: return float('inf')
    return float(dot(sub(p, p0), nrm)) / L

def simple_polygon(p2):
    """no two non-adjacent edges share a point (exact) — O(n²)"""
    n = len(p2)
    for i in range(n):
        for j in range(i + 1, n):
            if j == i or (j + 1) % n == i or (i + 1) % n == j: continue
            if segs_touch2(p2[i], p2[(i + 1) % n], p2[j], p2[(j + 1) % n]): return False
    return True

def tri_area2(a, b, c):
    """4·area² of the 3-D triangle (exact)"""
    return n2(cross(sub(b, a), sub(c, a)))
