"""C02: every reported ray hit is a true hit (on the surface as constructed, within its clips, on the ray at t > 0)."""
import math
from .common import to_float, is_finite, all_finite
from .prims import *

LOCAL_OPS = {'basic', 'local', 'slocal'}
WORLD_OPS = {'int', 'sint'}

def parse(ln):
    """returns (P, O, D, space, hit point or None, result tokens after the point, kind of result) or None"""
    if '.' not in ln.op: return None
    pre, suf = ln.op.split('.', 1)
    if pre not in READERS or suf not in LOCAL_OPS | WORLD_OPS: return None
    tk = Tok(ln.args)
    P = READERS[pre](tk)
    O, D = rd_ray(tk)
    return P, O, D, ('local' if suf in LOCAL_OPS else 'world'), suf

def hit_point(ln):
    if ln.res[0] != 'some': return None
    return tuple(to_float(t) for t in ln.res[1:4])

def on_ray(O, D, X, tol_len):
    dd = dot(D, D)
    if dd == 0 or not math.isfinite(dd): return ('skip', 'degenerate-ray')
    t = dot(vsub(X, O), D) / dd
    res = norm(vsub(vsub(X, O), vmul(D, t)))
    if res > tol_len: return ('fail', 'off-ray', 'hit point is %.3g away from the ray line' % res)
    if t * math.sqrt(dd) <= -tol_len: return ('fail', 'behind-origin', 'hit at t=%.6g behind the ray origin' % t)
    return ('ok', t)

def FMT_NAME():
    from . import common as _C
    return _C.FMT.name

def judge(ln):
    if ln.op == 'pl.int':
        tk = Tok(ln.args); c, n = tk.v(), tk.v(); O, D = rd_ray(tk)
        if ln.res[0] != 'some': return ('skip', 'no-hit')
        if not (finite(c, n, O, D) and norm(n) > 1e-9 and norm(D) > 1e-9): return ('skip', 'malformed-operand')
        t = to_float(ln.res[1])
        if not math.isfinite(t): return ('fail', 'non-finite-hit', 'plane parameter not finite')
        X = vadd(O, vmul(D, t)); nh = unit(n)
        sc = max(norm(c), norm(O), abs(t) * norm(D), 1e-3)
        if t < 0: return ('fail', 'behind-origin', 't=%g' % t)
        if abs(dot(nh, vsub(X, c))) > TOL() * sc * 100: return ('fail', 'off-surface', 'plane hit off the plane by %.3g' % dot(nh, vsub(X, c)))
        return ('ok', '')
    pr = parse(ln)
    if pr is None: return ('skip', 'leaf')
    P, O, D, space, suf = pr
    if ln.res[0] == 'panic':
        return ('skip', 'illegal-constructor') if not P.legal else ('fail', 'panic-on-legal-input', 'panic for legal constructor arguments and ray')
    if ln.res[0] != 'some': return ('skip', 'no-hit')
    if not P.legal or not finite(O, D) or norm(D) < 1e-9 or norm(D) > 1e9 or norm(O) > 1e9: return ('skip', 'malformed-operand')
    X = hit_point(ln)
    if P.kind == 'src':
        # hit iff the ray direction is inside the cone; the point itself is at "infinity"
        # source lives in world space without transform
        ca = dot(unit(D), P.p['d'])
        if ca < math.cos(P.p['a'] / 2) - (1e-9 if FMT_NAME() != 'f32' else 1e-6): return ('fail', 'outside-cone', 'direction outside the source cone (cos %.12g < %.12g)' % (ca, math.cos(P.p['a'] / 2)))
        return ('ok', '')
    if not finite(X): return ('fail', 'non-finite-hit', 'hit point is not finite')
    if space == 'local':
        # local entry points: geometry without the attached transform, ray given in local space
        Q = Prim(P.kind); Q.p = P.p; Q.xf = None
        if P.kind == 'cyl' and P.p.get('mode') == 'axis':
            # local space of an axis-built cylinder: z from 0 to |p1-p0|
            L = norm(vsub(P.p['p1'], P.p['p0']))
            Q.p = dict(mode='local', r=P.p['r'], zmin=0.0, zmax=L, pm=P.p['pm'], full=P.p['full'])
        if P.kind == 'sphere': Q.xf = None
        P = Q
    if space == 'local':
        tk = Tok(ln.args); READERS[ln.op.split('.')[0]](tk); rd_ray(tk)
        errs = [to_float(t) for t in tk.rest()[:6]]
        if any(abs(e) > 1e-9 for e in errs): return ('skip', 'input-error-box')
    sc = local_scale(P, to_local(P, O) if P.xf is not None else O)
    # tolerance in local units; world residuals are measured in world units of comparable size (scales within 0.1..10)
    tol = TOL() * sc * 100
    # grazing rays: the hit point's forward error grows like 1/|cos(angle to the normal)|
    N = geo_normal(P, X)
    if N is not None and norm(N) > 0:
        ca = abs(dot(N, D)) / (norm(N) * norm(D))
        if ca < 1e-6: return ('skip', 'grazing-band')
        tol = tol / ca
    tol_ray = tol * 10
    if P.kind == 'sphere':
        # the documented pole nudge (a hit within 1e-5 r of the pole axis is moved to x = 1e-5 r in LOCAL space, to keep phi
        # defined) takes the reported point off the ray by up to 2e-5 r times the largest stretch of the attached transform
        xl = to_local(P, X)
        lim = 1e-5 * P.p['r']
        if abs(xl[0]) <= 2 * lim and abs(xl[1]) <= 2 * lim:
            stretch = 1.0
            if P.xf is not None:
                m = P.xf.m
                stretch = math.sqrt(sum(m[i][j] ** 2 for i in range(3) for j in range(3)))
            tol_ray += 2 * lim * stretch
    r = on_ray(O, D, X, tol_ray)
    if r[0] != 'ok': return r
    why = surface_residual(P, X, tol)
    if why: return ('fail', 'off-surface:' + P.kind, why)
    return ('ok', '')
