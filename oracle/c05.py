"""C05: point-in-loop / point-in-polygon answers (exact winding number in the projection; points within the coincidence
tolerance of the outline or of the plane band are skipped)."""
from fractions import Fraction
import math
from .common import *
from .planar import *

def inside_loop(pts, q, ax):
    return winding2(project(pts, ax), proj1(q, ax)) != 0

def judge(ln):
    if ln.op not in ('loop.tp', 'poly.tp'): return ('skip', 'leaf')
    A = ln.args
    outer, i = rd_pts(A, 0)
    holes = []
    if ln.op == 'poly.tp':
        nh = int(A[i]); i += 1
        for _ in range(nh):
            h, i = rd_pts(A, i); holes.append(h)
    if outer is None or any(h is None for h in holes): return ('skip', 'malformed-operand')
    if not all(is_finite(t) for t in A[i:i + 3]): return ('skip', 'malformed-operand')
    q = (frac(A[i]), frac(A[i + 1]), frac(A[i + 2]))
    if ln.res[0] == 'build-err': return ('skip', 'not-built')
    if ln.res[0] == 'panic': return ('fail', 'panic', 'test_point panicked on a built loop/polygon')
    if ln.res[0] == 'err': return ('fail', 'err-on-closed-loop', 'test_point returned Err on a closed loop/polygon')
    got = ln.res[1] == '1'
    V = vector_area_rel(outer)
    if n2(V) == 0: return ('skip', 'degenerate')
    ax = drop_axis(V)
    d = abs(plane_dist(q, outer[0], V))
    scale_ = max(fnorm(outer[0]), 1.0)
    if d > 1e-6 * max(1.0, scale_ * 1e-3):
        want = False
        if got != want: return ('fail', 'off-plane-inside', 'point %.3g off the plane reported inside' % d)
        return ('ok', '')
    if d > 1e-8: return ('skip', 'plane-band')
    # distance to every outline involved
    tol2 = Fraction(4, 10**10)     # (2e-5)^2: twice the coincidence tolerance
    if dist2_to_outline(q, outer) < tol2: return ('skip', 'outline-band')
    for h in holes:
        if dist2_to_outline(q, h) < tol2: return ('skip', 'outline-band')
    want = inside_loop(outer, q, ax)
    if want:
        for h in holes:
            if inside_loop(h, q, ax): want = False
    if got != want:
        # classify: does the internal ray (from the first edge's midpoint through q) pass through a vertex?
        mid = scale(add(outer[0], outer[1]), Fraction(1, 2))
        dirv = sub(q, mid)
        key = 'wrong-answer'
        # the library's on-edge shortcut bounds |(q-a) x (b-a)| < 1e-5, i.e. distance x edge length: for an edge shorter than 1
        # the band is wider than the 1e-5 coincidence tolerance
        for grp in [outer] + holes:
            for k in range(len(grp)):
                a_, b_ = grp[k], grp[(k + 1) % len(grp)]
                dd = math.sqrt(float(dist2_point_segment(q, a_, b_))); ll = fnorm(sub(b_, a_))
                if ll < 1.0 and dd * ll <= 1.05e-5:
                    return ('fail', 'on-edge-band-scales-with-edge-length', 'point %.3g from an edge of length %.3g is treated as on the outline (answer %s, exact %s)' % (dd, ll, got, want))
        if n2(dirv) != 0:
            def on_ray(v):
                w = sub(v, q); c = cross(dirv, w)
                return dot(w, dirv) > 0 and float(n2(c)) <= 1e-16 * float(n2(dirv)) * max(float(n2(w)), 1e-300)
            def along_ray(v, u):
                # the edge between the on-ray vertex v and its neighbour u runs along the ray: ahead of the query, not on the
                # ray, and either within twice the coincidence tolerance of the ray's line or within 2e-4 rad of its direction
                # (the parameter of the line intersection is then too ill-conditioned for test_point's snapping of 1e-8: at a
                # distance of 1e3 from the origin the placement noise of v is 5e-13 and moves it by 5e-13 / (sin x length),
                # i.e. by 1e-8 for an edge of half a metre at 1e-4 rad)
                w = sub(u, q); c = cross(dirv, w)
                if not (dot(w, dirv) > 0 and not on_ray(u)): return False
                if float(n2(c)) < 4e-10 * float(n2(dirv)): return True
                e = sub(u, v); ce = cross(dirv, e)
                return float(n2(ce)) < 4e-8 * float(n2(dirv)) * float(n2(e))
            for grp in [outer] + holes:
                m = len(grp)
                for k in range(m):
                    if on_ray(grp[k]):
                        key = 'wrong-answer-ray-through-vertex'
                        if along_ray(grp[k], grp[(k + 1) % m]) or along_ray(grp[k], grp[(k - 1) % m]):
                            return ('fail', 'wrong-answer-ray-through-vertex:edge-along-ray-within-tolerance',
                                    'test_point = %s but the exact winding number says %s (ray through a vertex whose neighbour is within 2e-5 of the ray)' % (got, want))
        return ('fail', key, 'test_point = %s but the exact winding number says %s' % (got, want))
    return ('ok', '')
