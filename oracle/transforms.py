"""Exact reference for chains of elementary transforms.

The elementary matrices are rebuilt from the same float values the crate stores (float `cos/sin` of the float radians,
float `1/x`), as exact rationals; products are then exact.  The crate's stored product differs from this reference only by
the rounding of its matrix multiplications, which the tolerances below (relative to Σ|a||b| magnitudes) allow for."""
from fractions import Fraction
import math, struct
from .common import *
from . import common as C

def f32r(x):
    return struct.unpack('>f', struct.pack('>f', x))[0]

def fl(x):
    """round a python float to the format under test"""
    return f32r(x) if C.FMT.name == 'f32' else x

def elem_matrices(kind, args):
    """(M, Minv) with exact rational entries equal to the floats the crate stores for this elementary transform"""
    I = mat_identity(); J = mat_identity()
    if kind == 'T':
        x, y, z = [frac(a) for a in args]
        I[0][3], I[1][3], I[2][3] = x, y, z
        J[0][3], J[1][3], J[2][3] = -x, -y, -z
    elif kind == 'S':
        v = [to_float(a) for a in args]
        for i in range(3):
            I[i][i] = Fraction(v[i])
            J[i][i] = Fraction(fl(1.0 / v[i])) if C.FMT.name == 'f64' else Fraction(f32r(f32r(1.0) / v[i]))
    elif kind in ('RX', 'RY', 'RZ'):
        d = to_float(args[0])
        if C.FMT.name == 'f64':
            rad = d * (math.pi / 180.0)
            c, s = math.cos(rad), math.sin(rad)
        else:
            rad = f32r(d * f32r(f32r(math.pi) / 180.0))
            c, s = f32r(math.cos(rad)), f32r(math.sin(rad))   # sinf/cosf are within 1 ulp of this; tolerance covers it
        c, s = Fraction(c), Fraction(s)
        if kind == 'RX':
            I[1][1], I[1][2], I[2][1], I[2][2] = c, -s, s, c
            J[1][1], J[2][1], J[1][2], J[2][2] = c, -s, s, c
        elif kind == 'RY':
            I[0][0], I[0][2], I[2][0], I[2][2] = c, s, -s, c
            J[0][0], J[2][0], J[0][2], J[2][2] = c, s, -s, c
        else:
            I[0][0], I[0][1], I[1][0], I[1][1] = c, -s, s, c
            J[0][0], J[1][0], J[0][1], J[1][1] = c, -s, s, c
    return I, J

def chain_reference(elems):
    """exact M = E1·E2·…·En and Minv = En⁻¹·…·E1⁻¹ (with the crate's float inverses of the elementary factors);
       also |M| products (entrywise product of absolute values) used to scale tolerances"""
    M = mat_identity(); Minv = mat_identity()
    A = mat_identity(); Ainv = mat_identity()
    for (k, a) in elems:
        E, Einv = elem_matrices(k, a)
        M = mat_mul(M, E)
        Minv = mat_mul(Einv, Minv)
        A = mat_mul(A, [[abs(x) for x in row] for row in E])
        Ainv = mat_mul([[abs(x) for x in row] for row in Einv], Ainv)
    return M, Minv, A, Ainv

def scale_sign(elems):
    s = 1
    for (k, a) in elems:
        if k == 'S':
            for t in a:
                if to_float(t) < 0: s = -s
    return s

def rel_tol():
    # 2^14 unit roundoffs: chains of <= 6 factors, libm within an ulp, f32 sinf/cosf differences
    return C.FMT.u * (1 << 14)
