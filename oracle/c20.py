"""C20: JSON round trip preserves geometry; malformed input is an error, never a panic."""
from fractions import Fraction
import math
from .common import *
from .planar import *
from . import c04

def parse_enc(toks, i):
    k = toks[i]
    if k == 'Z': return ('null',), i + 1
    if k == 'B': return ('bool', toks[i + 1]), i + 2
    if k == 'N': return ('num', toks[i + 1]), i + 2
    if k == 'S': return ('str',), i + 1
    if k in ('A', 'O'):
        n = int(toks[i + 1]); i += 2
        els = []
        for _ in range(n):
            e, i = parse_enc(toks, i); els.append(e)
        return (('arr' if k == 'A' else 'obj'), els), i
    return ('?',), i + 1

def classify(doc):
    """'valid' (clearly a valid planar simple outline), 'invalid:<why>' (clearly not), or 'band'; plus the points"""
    if doc[0] != 'arr': return 'invalid:not-an-array', None
    els = doc[1]
    if any(e[0] != 'num' for e in els): return 'invalid:non-number', None
    if len(els) % 3 != 0: return 'invalid:arity', None
    if len(els) < 9: return 'invalid:too-few-points', None
    toks = [e[1] for e in els]
    if not all(is_finite(t) for t in toks): return 'band', None
    if any(abs(to_float(t)) > 1e6 for t in toks): return 'band', None      # outside metre scale (only "never panic" is judged)
    pts = [(frac(toks[3*j]), frac(toks[3*j+1]), frac(toks[3*j+2])) for j in range(len(toks) // 3)]
    V = vector_area_rel(pts)
    if n2(V) == 0 or fnorm(V) < 1e-6: return 'band', pts
    ds = [abs(plane_dist(p, pts[0], V)) for p in pts]
    if max(ds) > 1e-5:
        return 'band', pts          # non-coplanar input: rejected or not depending on where the deviation sits; only "never panic" is judged
    if max(ds) > 1e-8: return 'band', pts
    # the crate measures coplanarity (gate 1e-7) against the plane of the FIRST THREE points: a deviation d of those points tilts
    # that plane and is amplified by the lever arm (extent of the outline / size of the first corner) at the far vertices
    e1, e2 = sub(pts[1], pts[0]), sub(pts[2], pts[1])
    corner = fnorm(cross(e1, e2)) / max(fnorm(e1), fnorm(e2), 1e-300)        # height of the first corner triangle
    extent = max(fnorm(sub(p, pts[0])) for p in pts)
    if corner <= 0 or max(ds) * (1 + extent / corner) * 4 > 1e-8: return 'band', pts
    ax = drop_axis(V); p2 = project(pts, ax)
    n = len(p2)
    # consecutive duplicates / tiny edges -> band
    for j in range(n):
        if n2(sub(pts[j], pts[(j + 1) % n])) < Fraction(1, 10**8): return 'band', pts
    crossing = False
    for a in range(n):
        for b in range(a + 1, n):
            if b == a or (b + 1) % n == a or (a + 1) % n == b: continue
            st = c04.crossing_status(pts[a], pts[(a + 1) % n], pts[b], pts[(b + 1) % n], ax)
            if st == 'cross': crossing = True
            elif st == 'band': return 'band', pts
    if crossing: return 'invalid:self-crossing', pts
    # adjacent edges folding back onto each other -> band
    for j in range(n):
        a, b, c = pts[j - 1], pts[j], pts[(j + 1) % n]
        if dot(sub(b, a), sub(c, b)) < 0 and fnorm(cross(sub(b, a), sub(c, b))) < 1e-4 * fnorm(sub(b, a)) * fnorm(sub(c, b)): return 'band', pts
    return 'valid', pts

def judge(ln):
    op = ln.op
    if op == 'json.unparsed':
        return ('ok', '') if ln.res[0] == 'err' else ('fail', 'unparsable-not-error', 'text rejected by the JSON parser did not give an error')
    if op in ('json.loop', 'json.poly'):
        if ln.res[0] == 'panic': return ('fail', 'panic', 'deserialisation panicked')
        doc, _ = parse_enc(ln.args, 0)
        kind, pts = classify(doc)
        if kind.startswith('invalid'):
            if ln.res[0] != 'err': return ('fail', 'malformed-accepted:' + kind[8:], 'a document that is %s was accepted' % kind[8:])
            return ('ok', '')
        if kind == 'band': return ('skip', 'band')
        if ln.res[0] != 'ok': return ('fail', 'valid-document-rejected', 'a valid planar outline was rejected')
        R = ln.res
        j = 1
        if op == 'json.poly': j = 1 + 1 + 3      # area normal
        L, j2 = rd_loop_state(R, j)
        if not L.closed: return ('fail', 'not-closed', 'deserialised loop is not closed')
        # same vertices in the same order (collinear ones may be dropped)
        it = iter(pts)
        for v in L.pts:
            for p in it:
                if p == v: break
            else:
                # the first vertex may have been dropped and re-appear rotated: check cyclic subsequence
                rot = None
                for s in range(len(pts)):
                    seq = pts[s:] + pts[:s]
                    it2 = iter(seq)
                    if all(any(p == v2 for p in it2) for v2 in L.pts): rot = s; break
                if rot is None: return ('fail', 'vertices-changed', 'deserialised vertices are not the input vertices in order')
                break
        area = to_float(L.area_tok)
        # the stored area is the area of the vertices kept (tight), which differs from the area of the document's outline
        # by at most what dropping 1e-5-collinear vertices can change (loose: 1e-5 x perimeter)
        kept_area = fnorm(vector_area_rel(L.pts)) if len(L.pts) >= 3 else 0.0
        true_area = fnorm(vector_area_rel(pts))
        per = sum(fnorm(sub(pts[j], pts[(j + 1) % len(pts)])) for j in range(len(pts)))
        tol = 1e-3 if FMT.name == 'f32' else 1e-9
        if abs(area - kept_area) > tol * 100 * max(kept_area, 1): return ('fail', 'area', 'area %.12g vs %.12g (of the vertices kept)' % (area, kept_area))
        if abs(area - true_area) > tol * 100 * max(true_area, 1) + 1e-5 * per: return ('fail', 'area-vs-document', 'area %.12g vs %.12g (of the document outline)' % (area, true_area))
        return ('ok', '')
    if op == 'json.ser.loop':
        pts, i = rd_pts(ln.args, 0)
        if pts is None or ln.res[0] in ('build-err', 'panic'): return ('skip', 'not-built') if ln.res[0] != 'panic' else ('fail', 'panic', 'serialisation panicked')
        n = int(ln.res[0])
        nums = ln.res[1:1 + n]
        if n % 3 != 0: return ('fail', 'ser-arity', 'serialised %d numbers' % n)
        out = [(frac(nums[3*j]), frac(nums[3*j+1]), frac(nums[3*j+2])) for j in range(n // 3)]
        for s in range(len(pts)):
            seq = pts[s:] + pts[:s]
            it = iter(seq)
            if all(any(p == v for p in it) for v in out): return ('ok', '')
        return ('fail', 'ser-vertices', 'serialised numbers are not the loop vertices in order')
    if op == 'json.ser.poly':
        # a polygon (with holes) is written as ONE outline: it must enclose the polygon's net area with the outer loop's orientation
        A = ln.args
        outer, i = rd_pts(A, 0)
        nh = int(A[i]); i += 1
        holes = []
        for _ in range(nh):
            h, i = rd_pts(A, i); holes.append(h)
        if outer is None or any(h is None for h in holes): return ('skip', 'malformed-operand')
        R = ln.res
        if R[0] == 'build-err': return ('skip', 'not-built')
        if R[0] == 'panic': return ('fail', 'panic', 'serialisation of a polygon panicked')
        if R[0] != 'ok': return ('skip', 'ser-err')        # an Err of the merge is C09/C12's business (known finding merge-drops-vertex)
        if max(fnorm(p) for p in outer) > 1e6: return ('skip', 'band')
        n = int(R[1]); nums = R[2:2 + n]
        if n % 3 != 0 or n < 9: return ('fail', 'ser-arity', 'a polygon was serialised as %d numbers' % n)
        if not all(is_finite(t) for t in nums): return ('fail', 'ser-non-finite', 'serialised polygon has non-finite numbers')
        out = [(frac(nums[3*j]), frac(nums[3*j+1]), frac(nums[3*j+2])) for j in range(n // 3)]
        Vo = vector_area_rel(outer)
        Vm = vector_area_rel(out)
        net = fnorm(Vo) - sum(fnorm(vector_area_rel(h)) for h in holes)
        got = fnorm(Vm)
        dropped = max(len(outer) + sum(len(h) + 2 for h in holes) - len(out), 0)
        tol = 1e-3 if FMT.name == 'f32' else 1e-9
        if dot(Vm, Vo) <= 0: return ('fail', 'ser-poly-orientation', 'the serialised outline of a polygon has the opposite orientation')
        if abs(got - net) > tol * 100 * max(net, 1.0) + 5e-6 * dropped:
            return ('fail', 'ser-poly-net-area', 'the serialised outline encloses %.12g, the polygon net area is %.12g (%d holes)' % (got, net, nh))
        return ('ok', '')
    return ('skip', 'leaf')
