"""C11: cutting a hole is all-or-nothing and accounts for its area."""
from fractions import Fraction
import math
from .common import *
from .planar import *

M2 = Fraction(1, 10**8)   # (1e-4)^2: "clearly" inside/outside = at least 1e-4 from every outline involved

def judge(ln):
    if ln.op != 'poly.cut': return ('skip', 'leaf')
    A = ln.args
    outer, i = rd_pts(A, 0)
    k = int(A[i]); i += 1
    cands = []
    for _ in range(k):
        kind = A[i]; i += 1
        pts, i = rd_pts(A, i)
        cands.append((kind, pts))
    if outer is None: return ('skip', 'malformed-operand')
    # results: cls area ninner | cls area ninner | ...
    groups = ' '.join(ln.res).split(' | ')
    if groups[0].startswith('build-err') or groups[0].startswith('panic') and len(groups) == 1:
        return ('skip', 'not-built') if groups[0].startswith('build-err') else ('fail', 'panic', 'panic while building / cutting')
    Vo = vector_area_rel(outer)
    if n2(Vo) == 0: return ('skip', 'degenerate')
    ax = drop_axis(Vo)
    o2 = project(outer, ax)
    area = fnorm(Vo)
    holes = []          # accepted so far (exact points)
    area_reported = False
    offplane = []       # accepted holes that are not clearly in the polygon's plane (threshold probes): decisions that involve them are band
    ninner = 0
    tol = 1e-3 if FMT.name == 'f32' else 1e-9
    judged = 0
    for (kind, pts), g in zip(cands, groups):
        t = g.split(' ')
        cls = t[0]
        if cls == 'nohole': continue
        if cls == 'panic': return ('fail', 'panic', 'cut_hole panicked')
        new_area = to_float(t[1]); new_n = int(t[2])
        if pts is None or kind != 'H':
            # an open / malformed candidate: must not change anything
            if cls == 'ok': return ('skip', 'malformed-operand')
            # before the crate has reported an area of its own, the comparison is against the exact area of the document's
            # outline, from which Loop3D may have dropped vertices worth up to 5e-6 m2 each (as in the accounting below; the
            # missing allowance was a false alarm of the thorough tier, seed 6: a 16-gon with one tolerance-collinear vertex)
            slack = 5e-6 * len(outer) if not area_reported else 0.0
            if new_n != ninner or abs(new_area - area) > tol * max(area, 1) + slack: return ('fail', 'err-changed-polygon', 'refused cut changed the polygon')
            area = new_area; area_reported = True
            continue
        Vh = vector_area_rel(pts)
        this_off = True
        # classification of the candidate
        reason = None
        clear = True
        if n2(Vh) == 0 or fnorm(Vh) < 1e-12: clear = False          # a degenerate candidate (no area): its plane is not defined
        else:
            # plane: every vertex within 1e-8 of the polygon's plane and normals parallel => coplanar; any vertex > 1e-5 off => different plane
            ds = [abs(plane_dist(p, outer[0], Vo)) for p in pts]
            this_off = max(ds) > 1e-8
            cosn = abs(float(dot(Vh, Vo))) / (fnorm(Vh) * fnorm(Vo))
            if max(ds) > 1e-5 or cosn < 1 - 1e-6: reason = 'plane'
            elif max(ds) > 1e-8 or cosn < 1 - 1e-12: clear = False
        if reason is None and clear:
            h2 = project(pts, ax)
            # every vertex clearly inside the outer loop and clearly outside existing holes
            for p, p2 in zip(pts, h2):
                if dist2_to_outline(p, outer) < M2: clear = False; break
                if winding2(o2, p2) == 0: reason = 'vertex-outside'; break
                for hi, H in enumerate(holes):
                    if dist2_to_outline(p, H) < M2: clear = False; break
                    if winding2(project(H, ax), p2) != 0:
                        if offplane[hi]: clear = False
                        else: reason = 'vertex-in-existing-hole'
                        break
                if reason or not clear: break
        if reason is None and clear:
            h2 = project(pts, ax)
            for hi, H in enumerate(holes):
                for p in H:
                    if dist2_to_outline(p, pts) < M2: clear = False; break
                    if winding2(h2, proj1(p, ax)) != 0:
                        if offplane[hi]: clear = False      # the existing hole is a plane-threshold probe: band
                        else: reason = 'encloses-existing-hole'
                        break
                if reason or not clear: break
        if reason is None and clear:
            # "lies inside": its edges do not cross the outline or an existing hole
            h2 = project(pts, ax)
            n = len(h2)
            for a in range(n):
                for grp in [o2] + [project(H, ax) for H in holes]:
                    m = len(grp)
                    for b in range(m):
                        if segs_touch2(h2[a], h2[(a + 1) % n], grp[b], grp[(b + 1) % m]): clear = False
        if not clear and reason is None:
            # ambiguous: follow the implementation's decision for the bookkeeping
            if cls == 'ok':
                holes.append(pts); offplane.append(this_off); ninner += 1
            area = new_area; area_reported = True
            continue
        judged += 1
        if reason is None:
            if cls != 'ok': return ('fail', 'admissible-hole-refused', 'a coplanar hole clearly inside the polygon and outside the existing holes was refused')
            ha = fnorm(Vh)
            if new_n != ninner + 1: return ('fail', 'hole-count', 'hole count %d after a successful cut, expected %d' % (new_n, ninner + 1))
            # the areas the crate stores are those of the outlines it keeps: Loop3D drops vertices whose triangle with their
            # neighbours is below the collinearity tolerance (|ab x bc| < 1e-5, i.e. up to 5e-6 m2 each), so the first
            # comparison (against the exact area of the document's outline) and the hole's own area carry that allowance;
            # after the first reported value the accounting is checked against the crate's own previous value
            slack = 5e-6 * len(pts) + (5e-6 * len(outer) if not area_reported else 0.0)
            if abs(new_area - (area - ha)) > max(tol, 1e-9) * 10 * max(area, 1) + slack: return ('fail', 'area-accounting', 'area %.12g after cutting %.12g out of %.12g' % (new_area, ha, area))
            holes.append(pts); offplane.append(this_off); ninner += 1; area = new_area; area_reported = True
        else:
            if cls == 'ok': return ('fail', 'inadmissible-hole-accepted:' + reason, 'a hole that is clearly inadmissible (%s) was accepted' % reason)
            slack = 5e-6 * len(outer) if not area_reported else 0.0
            if new_n != ninner or abs(new_area - area) > max(tol, 1e-9) * 10 * max(area, 1) + slack: return ('fail', 'err-changed-polygon', 'refused cut changed the polygon')
            area = new_area; area_reported = True
    if judged == 0: return ('skip', 'band')
    return ('ok', '')
