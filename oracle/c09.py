"""C09: triangulation is total -- no panic, no abort, no runaway; ear clipping of a well-conditioned polygon always completes.

Judges the lines of harness group `c09`:
    mesh.outcome k POLY [max_area max_ar] => build-err | err | panic | fuel | ok <slots> <n_valid>      (k=0 from_polygon, k=1 mesh_polygon)
and the harness comments
    # panic-kind family=... [message] (next line)     -> remembered, quoted in the verdict of the next line
    # abort <lhs>                                     -> the case died from a signal (abort / stack overflow): failure
    # timeout <lhs>                                   -> killed by the wall-clock watchdog: not judged (see comment())

Verdicts
  * panic                 -> fail `panic:<slug of the message>`
  * fuel (the model's 10000 refinement passes exhausted) -> fail `runaway`;   # abort -> fail `abort`
  * k=0 on a well-conditioned polygon (all edges >= 0.05, all angles >= 2 degrees, clearance between loops >= 0.05, at most
    40 vertices in total, every bridge unobstructed): must be `ok` with slots == n_valid and 1 <= n_valid <= V + sum(h_i + 2) - 2
    (ear clipping of the merged outline; the crate drops vertices that become collinear, which only lowers the count)
    else fail `well-conditioned-unrefined-failed` (`near-straight-unrefined-failed` when the only blemish of the polygon is a
    stored vertex whose turn is below 2 degrees, i.e. sits near the crate's collinearity threshold)
  * otherwise `err` is a legal answer -> ok.
Polygons outside the space of C01 (not simple, bridge obstructed, ...) are skipped with the precondition's key
(`panic-outside-space-...` when the answer was a panic, so that those stay countable).
The polygon machinery (exact re-enactment of push/close/get_closed_loop) is shared with c01.py."""
from fractions import Fraction
import math, re
from . import common as OC
from . import c01 as G

_last_panic = None

def begin():
    global _last_panic
    _last_panic = None

SLUGS = [
    ("don't share a segment", 'mark-as-neighbours-no-shared-segment'),
    ('obsolete triangle', 'add-point-obsolete-triangle'),
    ('would make the L', 'unwrap-push-self-intersecting'),
    ('non-coplanar point', 'unwrap-push-non-coplanar'),
    ('invalid triangle when getting flipped', 'flipped-aspect-ratio-invalid-triangle'),
    ('invalid neighbour when getting flipped', 'flipped-aspect-ratio-invalid-neighbour'),
    ('its own neighbor', 'triangle-own-neighbour'),
    ('flip diagonal with an invalid triangle', 'flip-diagonal-invalid-triangle'),
    ('flip diagonal of Triangle with no neighbour', 'flip-diagonal-no-neighbour'),
    ('flip diagonal with an invalid neighbour', 'flip-diagonal-invalid-neighbour'),
    ('not found on triangle when flipping', 'flip-diagonal-segment-not-found'),
    ('does not fall on an edge', 'split-edge-point-off-edge'),
    ('unreachable', 'unreachable-code'),
    ('out of bound', 'index-out-of-bounds'),
    ('out of range', 'index-out-of-bounds'),
    ('overflow', 'arithmetic-overflow'),
    ('test_point in an open', 'unwrap-test-point-open-loop'),
    ('three equal Point', 'unwrap-collinear-three-equal-points'),
]

def slug(msg):
    if not msg: return 'unknown'
    for sub, s in SLUGS:
        if sub in msg: return s
    m = re.search(r'"([^"]*)', msg)
    core = m.group(1) if m else msg
    words = re.findall(r'[A-Za-z]+', core.lower())
    return '-'.join(words[:6]) or 'unknown'

def wc_status(cs, c):
    """well-conditioning of a candidate (precondition already satisfied): 'wc' | 'near-straight' | None"""
    sc = cs.sc
    U2 = sc.U2
    total = len(cs.outer_in) + sum(len(h) for h in cs.holes_in)
    if total > 40: return None
    def edges_ok(pts):
        n = len(pts)
        for k in range(n):
            if G.n23(G.sub3(pts[(k + 1) % n], pts[k])) * 400 < U2: return False
        return True
    loops = [c.outer] + c.holes
    for pts in [cs.outer_in] + cs.holes_in + loops:
        if not edges_ok(pts): return None
    # angles between the two edges at every stored vertex: >= 2 degrees (no spike); a turn below 2 degrees = near straight
    c2 = Fraction(math.cos(math.radians(2.0))) ** 2
    near_straight = False
    for pts in loops:
        n = len(pts)
        for k in range(n):
            u = G.sub3(pts[k - 1], pts[k]); w = G.sub3(pts[(k + 1) % n], pts[k])
            d = G.dot3(u, w)
            if d * d > c2 * G.n23(u) * G.n23(w):
                if d > 0: return None
                near_straight = True
    # clearance between different loops
    R2 = sc.r2(Fraction(5, 100))
    for i in range(len(loops)):
        A = loops[i]; na = len(A)
        for j in range(i + 1, len(loops)):
            B = loops[j]; nb = len(B)
            for k in range(na):
                a0, a1 = A[k], A[(k + 1) % na]
                for l in range(nb):
                    b0, b1 = B[l], B[(l + 1) % nb]
                    if G.near_seg3(a0, b0, b1, R2) or G.near_seg3(b0, a0, a1, R2): return None
    return 'near-straight' if near_straight else 'wc'

cond_note = G.cond_note

def judge_candidate(cs, c, k, res, refine, panic_msg):
    key = cs.cand_precondition(c)
    if key:
        if res[0] == 'panic': return ('skip', 'panic-outside-space-' + key)
        return ('skip', key)
    if refine is not None and not G.params_in_space(refine[0], refine[1], cs.net_area_float(c)):
        return ('skip', ('panic-outside-space-' if res[0] == 'panic' else '') + 'refinement-outside-space')
    what = 'mesh_polygon' if k == 1 else 'from_polygon'
    if res[0] == 'panic':
        return ('fail', 'panic:' + slug(panic_msg), '%s panicked: [%s] (%s)' % (what, panic_msg or '?', cond_note(cs, c)))
    if res[0] == 'fuel':
        return ('fail', 'runaway', '%s did not finish within the fuel of the model (%s)' % (what, cond_note(cs, c)))
    if res[0] == 'trilist-differs':
        return ('fail', 'trilist-differs', 'get_trilist() does not return the triangles of the slots (%s)' % ' '.join(res[1:]))
    if res[0] not in ('ok', 'err'):
        return ('fail', 'oracle-format', 'unknown outcome %s' % res[0])
    if k == 1: return ('ok', '')
    wc = wc_status(cs, c)
    if res[0] == 'ok':
        slots, nv = int(res[1]), int(res[2])
        mmax = len(cs.outer_in) + sum(len(h) + 2 for h in cs.holes_in)
        if slots != nv:
            return ('fail', 'invalid-slots-unrefined', 'from_polygon returned %d slots of which %d are valid' % (slots, nv))
        if nv < 1 or nv > mmax - 2:
            return ('fail', 'triangle-count', 'from_polygon returned %d triangles; the merged outline has at most %d vertices' % (nv, mmax))
        return ('ok', '')
    # err
    if wc is None: return ('ok', '')
    key = 'well-conditioned-unrefined-failed' if wc == 'wc' else 'near-straight-unrefined-failed'
    if _lattice:
        # drawings on a lattice: exactly collinear vertices, bridges and chords are the rule, and every one of them meets the
        # crate's absolute collinearity tolerance (push / sanitize drop vertices, after which a re-pushed edge meets an earlier one)
        return ('fail', key + ':lattice', 'from_polygon returned Err for a well-conditioned polygon drawn on a 0.25 lattice (%s)' % cond_note(cs, c))
    # a vertex that carries more than one bridge (two holes hooked to the same outline vertex, or a hole hooked to the
    # vertex of an earlier hole that carries that hole's bridge) is told apart: get_closed_loop splices the later walk in after
    # the FIRST copy of such a vertex
    ends = []
    shared = False
    for (ret, E, I, k0, remaining) in c.bridges:
        if E in ends: shared = True
        ends.append(E); ends.append(I)
    if shared: key += ':shared-bridge-vertex'
    # the merged outline is built with Loop3D::push, which drops a vertex that is collinear (|ab x bc| < 1e-5) with its neighbours:
    # when a bridge happens to be collinear with the hole (or outline) edge that follows it, push drops the bridge's end vertex
    # and the walk cannot be closed any more
    merge_lost = bool(getattr(c, 'merge_lost', False))
    if merge_lost: key += ':merge-drops-vertex'
    return ('fail', key, 'from_polygon returned Err for a well-conditioned polygon (%s%s)' % (cond_note(cs, c), (', a vertex carries two bridges' if shared else '') + (', push dropped a vertex of the merged outline' if merge_lost else '')))

_lattice = False

def lattice_polygon(A, i0):
    """True when every vertex of the polygon (outline and holes) lies on a square lattice of 0.25 in the polygon's own plane:
    all squared vertex-to-vertex distances are multiples of 1/16 (rigid motions keep that) - the generators' family `grid`"""
    try:
        pts = []
        i = i0
        n = int(A[i]); i += 1
        pts += [tuple(OC.to_float(t) for t in A[i + 3 * j:i + 3 * j + 3]) for j in range(n)]; i += 3 * n
        nh = int(A[i]); i += 1
        for _ in range(nh):
            m = int(A[i]); i += 1
            pts += [tuple(OC.to_float(t) for t in A[i + 3 * j:i + 3 * j + 3]) for j in range(m)]; i += 3 * m
    except Exception:
        return False
    if len(pts) < 3 or len(pts) > 60: return False
    for a in range(len(pts)):
        for b in range(a + 1, len(pts)):
            d2 = sum((pts[a][k] - pts[b][k]) ** 2 for k in range(3)) * 16.0
            if abs(d2 - round(d2)) > 1e-6 * max(1.0, d2): return False
    return True

def judge_parts(k, A, i0, res, panic_msg):
    global _lattice
    _lattice = lattice_polygon(A, i0)
    # "well-conditioned" is defined by the property itself (edges >= 0.05, angles >= 2 degrees, ...): for the unrefined
    # triangulation (k = 0) outlines down to 10 cm across are judged (a thin chevron whose only diagonal is a few millimetres long
    # has edges of 5..15 cm); refinement requests keep the half-metre floor of the C01 space
    old = G.MIN_EXTENT
    if k == 0: G.MIN_EXTENT = Fraction(1, 10)
    try:
        cs, key = G.prepare(A, i0, [])
    finally:
        G.MIN_EXTENT = old
    if cs is None:
        if res[0] == 'panic': return ('skip', 'panic-outside-space-' + key)
        return ('skip', key)
    refine = (A[cs.next], A[cs.next + 1]) if k == 1 else None
    return G.combine([judge_candidate(cs, c, k, res, refine, panic_msg) for c in cs.cands])

def judge(ln):
    global _last_panic
    if ln.op != 'mesh.outcome':
        return ('skip', 'leaf')
    msg, _last_panic = _last_panic, None
    R = ln.res
    if not R or R[0] == 'build-err': return ('skip', 'not-built')
    k = int(ln.args[0])
    return judge_parts(k, ln.args, 1, R, msg)

def comment(text):
    global _last_panic
    if text.startswith('# panic-kind'):
        i = text.find('['); j = text.rfind(']')
        _last_panic = text[i + 1:j] if 0 <= i < j else text
        return None
    # A watchdog timeout is NOT judged: the harness kills a case after G3D_LIMIT_MS (1.5 s by default) of wall time, and a
    # legitimate refinement down to the 1e-3 area floor of a 100 m2 polygon takes longer than that (measured: 2 s for
    # max_aspect_ratio 0.86, ending in Err), the more so with 16 shards in parallel: wall time cannot tell "slow" from
    # "runaway" soundly.  Only a child that died from a signal (abort / stack overflow) is a failure.
    for tag, key in (('# abort ', 'abort'),):
        if text.startswith(tag):
            t = text[len(tag):].split(' ')
            if t[0] != 'mesh.outcome': return None
            try:
                k = int(t[1])
                v = judge_parts(k, t[1:], 1, ['fuel'], None)
            except Exception as e:
                return ('fail', key, 'the harness reported %s for a case the oracle could not parse (%r)' % (tag.strip('# '), e))
            if v[0] == 'fail':
                what = 'was killed by the watchdog (no answer within the time limit)' if key == 'runaway' else 'died from a signal (abort / stack overflow)'
                return ('fail', key, ('mesh_polygon' if k == 1 else 'from_polygon') + ' ' + what + v[2][v[2].find(' ('):])
            return None
    return None
