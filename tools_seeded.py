#!/usr/bin/env python3
"""Confirm seeded changes in a scratch worktree and run the checks against them.
usage: tools_seeded.py confirm <prop> <A|B>      (uses /tmp/mut/<prop>/OUT/<X>, copies to /verif/seeded/<prop>-<X>)
       tools_seeded.py run <id> [check ids...]   (applies /verif/seeded/<id>/patch.diff to /repo, runs ./check, reverts)"""
import sys, os, subprocess, json, shutil, time
def sh(cmd, cwd=None, timeout=1800):
    e=dict(os.environ); e['CARGO_NET_OFFLINE']='true'
    p=subprocess.run(cmd, cwd=cwd, shell=True, capture_output=True, text=True, env=e, timeout=timeout)
    return p.returncode, p.stdout+p.stderr
def confirm(prop, x):
    wt='/tmp/mut/%s'%prop; out='%s/OUT/%s'%(wt,x); dst='/verif/seeded/%s-%s'%(prop,x)
    sh('git checkout -- . && git clean -fdq -e OUT', wt)
    rc,o=sh('git apply --check %s/patch.diff'%out, wt)
    if rc: return dict(ok=False, why='patch does not apply: '+o[-300:])
    demo='tests/seeded_demo.rs'
    os.makedirs(wt+'/tests', exist_ok=True)
    shutil.copy(out+'/demo.rs', wt+'/'+demo)
    feat = ' --features verif' if 'features verif' in open(out+'/demo.rs').read() else ''
    # without the patch: demo passes
    rc0,o0=sh('cargo test --offline --test seeded_demo'+feat+' 2>&1 | tail -15', wt)
    pass_without = 'test result: ok' in o0 and 'FAILED' not in o0
    sh('git apply %s/patch.diff'%out, wt)
    rc1,o1=sh('cargo test --offline --lib 2>&1 | grep -E "^test result"', wt)
    suite_ok = 'ok. 131 passed; 0 failed' in o1
    rc2,o2=sh('cargo test --offline --doc 2>&1 | grep -E "^test result"', wt)
    doc_ok = '0 failed' in o2
    rc3,o3=sh('cargo test --offline --test seeded_demo'+feat+' 2>&1 | tail -15', wt)
    fail_with = 'FAILED' in o3 or 'failed' in o3
    sh('git checkout -- . && git clean -fdq -e OUT', wt)
    res=dict(ok=pass_without and suite_ok and doc_ok and fail_with, demo_passes_without_patch=pass_without, suite_passes_with_patch=suite_ok,
             doctests_pass_with_patch=doc_ok, demo_fails_with_patch=fail_with)
    if res['ok']:
        os.makedirs(dst, exist_ok=True)
        shutil.copy(out+'/patch.diff', dst+'/patch.diff'); shutil.copy(out+'/demo.rs', dst+'/demo.rs')
        m=json.load(open(out+'/meta.json')) if os.path.exists(out+'/meta.json') else {}
        meta=dict(property=prop, breaks=prop, summary=m.get('summary',''), needs_to_manifest=m.get('manifests_when',''),
                  produced_by='independent sub-agent given only the property text and a scratch worktree',
                  confirmed_by_me=dict(res, how='scratch worktree /tmp/mut/%s: cargo test --offline --lib/--doc with patch; demo as tests/seeded_demo.rs with and without patch'%prop))
        json.dump(meta, open(dst+'/meta.json','w'), indent=1)
    else:
        res['tail_with']=o3[-600:]; res['tail_without']=o0[-600:]; res['suite']=o1
    return res
def run(sid, checks):
    d='/verif/seeded/'+sid
    rc,o=sh('git -C /repo status --porcelain')
    if o.strip(): return dict(error='/repo not clean: '+o)
    rc,o=sh('git -C /repo apply %s/patch.diff'%d)
    if rc: return dict(error='apply failed '+o)
    out={}
    try:
        for c in checks:
            t=time.time()
            rc,o=sh('./check %s --tier quick'%c, '/verif', timeout=3600)
            lines=[l for l in o.split('\n') if l.startswith('VIOLATION') or l.startswith('['+c+'] tier')]
            out[c]=dict(rc=rc, detected=(rc==1), lines=lines, wall=round(time.time()-t,1))
    finally:
        sh('git -C /repo checkout -- .')
    return out
if __name__=='__main__':
    if sys.argv[1]=='confirm':
        print(json.dumps(confirm(sys.argv[2], sys.argv[3]), indent=1))
    else:
        sid=sys.argv[2]; checks=sys.argv[3:] or [sid.split('-')[0]]
        r=run(sid, checks); print(json.dumps(r, indent=1))
        mp='/verif/seeded/%s/meta.json'%sid
        if os.path.exists(mp) and 'error' not in r:
            m=json.load(open(mp)); m.setdefault('check_results',{}).update(r); json.dump(m,open(mp,'w'),indent=1)
