#[doc(hidden)]
pub mod __private229 {
    #[doc(hidden)]
    pub use crate::private::*;
}
use serde_core::__private229 as serde_core_private;
