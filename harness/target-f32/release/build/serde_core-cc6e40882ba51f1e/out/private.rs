#[doc(hidden)]
pub mod __private229 {
    #[doc(hidden)]
    pub use crate::private::*;
}
