//! generators for the scalar / algebra layer: C07 C17 C06 C15 C14 C16
use crate::common::*;
use geometry3d::round_error::{
    max_min, verif_next_float_down, verif_next_float_up, ApproxFloat,
};
use geometry3d::intersection::{IntersectionInfo, SurfaceSide};
use geometry3d::{gamma, BBox3D, Point3D, Ray3D, Transform, Vector3D};

const PI: Float = std::f64::consts::PI as Float;

pub fn consts(out: &mut Out) {
    let g3: Float = gamma!(3);
    let one: Float = 1.0;
    let v: Vec<Float> = vec![
        Float::EPSILON,
        100. * Float::EPSILON,
        Float::MAX,
        PI,
        g3,
        1. + 2. * g3,
        1e-5,
        1e-7,
        1e-6,
        1e-8,
        1e-3,
        one.to_radians(),
        one.to_degrees(),
        0.5,
        9E14,
        1E19,
        1. - 1e-8,
    ];
    let s: Vec<String> = v.iter().map(|x| hx(*x)).collect();
    out.case("consts", &s.join(" "));
}

// ---------------------------------------------------------------------------------------------
// floats and intervals

#[cfg(feature = "float")]
const MANT: u32 = 23;
#[cfg(not(feature = "float"))]
const MANT: u32 = 52;

fn from_bits(b: Bits) -> Float {
    Float::from_bits(b)
}

fn step_ulps(x: Float, k: i64) -> Float {
    // move k ulps along the ordered floats (finite inputs only)
    let mut y = x;
    for _ in 0..k.abs() {
        y = if k > 0 {
            verif_next_float_up(y)
        } else {
            verif_next_float_down(y)
        };
    }
    y
}

/// a finite float drawn from the classes named in C07's quantifier
pub fn any_finite(r: &mut Rng) -> Float {
    loop {
        let x = match r.below(9) {
            0 => from_bits(r.next() as Bits),
            1 => {
                // subnormal
                let m = (r.next() as Bits) & ((1 << MANT) - 1);
                let s = if r.bool() { 1 as Bits } else { 0 };
                from_bits(m | (s << (MANT + if MANT == 52 { 11 } else { 8 })))
            }
            2 => {
                // power of two +/- j ulp
                let e = r.below(if MANT == 52 { 2046 } else { 254 }) as Bits + 0;
                let base = from_bits(e << MANT);
                step_ulps(base, r.below(5) as i64 - 2) * r.sign()
            }
            3 => r.logmag(1e-6, 1e6),
            4 => r.logmag(1e-30, 1e30),
            5 => r.nice(10.),
            6 => {
                if r.bool() {
                    0.0
                } else {
                    -0.0
                }
            }
            7 => {
                // huge / tiny
                let e = if r.bool() {
                    r.range(if MANT == 52 { 290. } else { 30. }, if MANT == 52 { 308. } else { 38. })
                } else {
                    -r.range(if MANT == 52 { 290. } else { 30. }, if MANT == 52 { 323. } else { 45. })
                };
                (10.0 as Float).powf(e) * r.range(1., 10.) * r.sign()
            }
            _ => r.range(-1., 1.),
        };
        if x.is_finite() {
            return x;
        }
    }
}

/// a well-formed finite interval: point, narrow (few ulps), wide, or straddling zero
pub fn any_interval(r: &mut Rng) -> (Float, Float) {
    let a = any_finite(r);
    let (lo, hi) = match r.below(5) {
        0 => (a, a),
        1 => (a, step_ulps(a, 1 + r.below(4) as i64)),
        2 => {
            let b = any_finite(r);
            (a, b)
        }
        3 => {
            // relative width up to 1e-6
            let w = a.abs() * r.range(0., 1e-6);
            (a - w, a + w)
        }
        _ => {
            let b = any_finite(r);
            (-a.abs(), b.abs())
        }
    };
    let (lo, hi) = if lo <= hi { (lo, hi) } else { (hi, lo) };
    if lo.is_finite() && hi.is_finite() {
        (lo, hi)
    } else {
        (a, a)
    }
}

fn nonzero_interval(r: &mut Rng) -> (Float, Float) {
    loop {
        let (lo, hi) = any_interval(r);
        if lo > 0. || hi < 0. {
            return (lo, hi);
        }
    }
}
fn nonneg_interval(r: &mut Rng) -> (Float, Float) {
    loop {
        let (lo, hi) = any_interval(r);
        if lo >= 0. {
            return (lo, hi);
        }
        if hi <= 0. {
            return (-hi, -lo);
        }
    }
}
fn malformed_float(r: &mut Rng) -> Float {
    match r.below(4) {
        0 => Float::INFINITY,
        1 => Float::NEG_INFINITY,
        2 => Float::NAN,
        _ => any_finite(r),
    }
}

fn ap(lh: (Float, Float)) -> ApproxFloat {
    ApproxFloat {
        low: lh.0,
        high: lh.1,
    }
}
fn ha(a: ApproxFloat) -> String {
    format!("{} {}", hx(a.low), hx(a.high))
}
fn hi2(lh: (Float, Float)) -> String {
    format!("{} {}", hx(lh.0), hx(lh.1))
}

pub const C07_FORMS: [&str; 18] = [
    "neg", "sqrt", "add", "sub", "mul", "div", "addF", "subF", "mulF", "divF", "addA", "subA",
    "mulA", "divA", "addAF", "subAF", "mulAF", "divAF",
];

fn c07_apply(form: &str, a: ApproxFloat, b: ApproxFloat, s: Float) -> ApproxFloat {
    match form {
        "neg" => -a,
        "sqrt" => a.sqrt(),
        "add" => a + b,
        "sub" => a - b,
        "mul" => a * b,
        "div" => a / b,
        "addF" => a + s,
        "subF" => a - s,
        "mulF" => a * s,
        "divF" => a / s,
        "addA" => {
            let mut x = a;
            x += b;
            x
        }
        "subA" => {
            let mut x = a;
            x -= b;
            x
        }
        "mulA" => {
            let mut x = a;
            x *= b;
            x
        }
        "divA" => {
            let mut x = a;
            x /= b;
            x
        }
        "addAF" => {
            let mut x = a;
            x += s;
            x
        }
        "subAF" => {
            let mut x = a;
            x -= s;
            x
        }
        "mulAF" => {
            let mut x = a;
            x *= s;
            x
        }
        "divAF" => {
            let mut x = a;
            x /= s;
            x
        }
        _ => unreachable!(),
    }
}

fn c07_one(out: &mut Out, form: &str, a: (Float, Float), b: (Float, Float), s: Float) {
    let r = c07_apply(form, ap(a), ap(b), s);
    let lhs = match form {
        "neg" | "sqrt" => format!("ap.{} {}", form, hi2(a)),
        "add" | "sub" | "mul" | "div" | "addA" | "subA" | "mulA" | "divA" => {
            format!("ap.{} {} {}", form, hi2(a), hi2(b))
        }
        _ => format!("ap.{} {} {}", form, hi2(a), hx(s)),
    };
    out.case(&lhs, &ha(r));
}

pub fn c07(r: &mut Rng, out: &mut Out, n: usize) {
    // regression corpus: the pre-fix counterexamples
    c07_one(out, "neg", (1., 2.), (0., 0.), 0.);
    c07_one(out, "sub", (1., 2.), (0., 10.), 0.);
    c07_one(out, "subA", (1., 2.), (0., 10.), 0.);
    c07_one(out, "mulF", (1., 2.), (0., 0.), -3.);
    c07_one(out, "mulF", (0.1, 0.1), (0., 0.), -0.3);
    for i in 0..n {
        let form = C07_FORMS[i % 18];
        let well_formed = r.below(16) != 0;
        let (a, b, s) = if well_formed {
            let a = if form == "sqrt" {
                nonneg_interval(r)
            } else {
                any_interval(r)
            };
            let (b, s) = if form.starts_with("div") {
                let b = nonzero_interval(r);
                (b, b.0)
            } else {
                (any_interval(r), any_finite(r))
            };
            (a, b, s)
        } else {
            (
                (malformed_float(r), malformed_float(r)),
                (malformed_float(r), malformed_float(r)),
                malformed_float(r),
            )
        };
        c07_one(out, form, a, b, s);
        // leaf helpers
        if i % 6 == 0 {
            let x = if well_formed { any_finite(r) } else { malformed_float(r) };
            out.case(&format!("nu {}", hx(x)), &hx(verif_next_float_up(x)));
            out.case(&format!("nd {}", hx(x)), &hx(verif_next_float_down(x)));
            let e = any_finite(r).abs();
            out.case(
                &format!("ap.fve {} {}", hx(x), hx(e)),
                &ha(ApproxFloat::from_value_and_error(x, e)),
            );
            let aa = ap(a);
            out.case(
                &format!("ap.mid {}", hi2(a)),
                &format!("{} {}", hx(aa.midpoint()), hx(aa.absolute_error())),
            );
            let q = [any_finite(r), any_finite(r), x, any_finite(r)];
            let (mx, mn) = max_min(&q);
            out.case(
                &format!("ap.maxmin {} {} {} {}", hx(q[0]), hx(q[1]), hx(q[2]), hx(q[3])),
                &format!("{} {}", hx(mx), hx(mn)),
            );
        }
    }
    // the top of the range: an end point that rounds to exactly Float::MAX while the exact result lies above it must still
    // be pushed outwards (to infinity); the same at the bottom
    for j in 0..(n / 48 + 18) {
        let form = C07_FORMS[j % 18];
        let top = step_ulps(Float::MAX, -(r.below(3) as i64));
        let sgn = r.sign();
        let a = match r.below(3) {
            0 => (sgn * top, sgn * top),
            1 => {
                if sgn > 0. {
                    (r.nice(10.), top)
                } else {
                    (-top, r.nice(10.))
                }
            }
            _ => {
                if sgn > 0. {
                    (step_ulps(top, -2), top)
                } else {
                    (-top, -step_ulps(top, -2))
                }
            }
        };
        let small = |r: &mut Rng| -> Float {
            match r.below(4) {
                0 => r.nice(10.),
                1 => r.logmag(1e-6, 1e6),
                2 => Float::MAX * Float::EPSILON * (r.range(0.001, 0.2) as Float) * r.sign(),
                _ => 1.0 + r.range(0., 1e-9),
            }
        };
        let b0 = small(r);
        let b = match r.below(3) {
            0 => (b0, b0),
            1 => (b0.min(0.), b0.max(0.) + small(r).abs()),
            _ => (b0, step_ulps(b0, 1 + r.below(3) as i64)),
        };
        let b = if form.starts_with("div") && b.0 <= 0. && b.1 >= 0. { (b0.abs().max(1e-3), b0.abs().max(1e-3)) } else { b };
        let a = if form == "sqrt" && a.0 < 0. { (0., top) } else { a };
        c07_one(out, form, a, b, small(r));
        if j % 6 == 0 {
            out.case(&format!("nu {}", hx(sgn * top)), &hx(verif_next_float_up(sgn * top)));
            out.case(&format!("nd {}", hx(sgn * top)), &hx(verif_next_float_down(sgn * top)));
        }
    }
}

// ---------------------------------------------------------------------------------------------
// C17

fn rel_interval(r: &mut Rng, v: Float) -> (Float, Float) {
    match r.below(3) {
        0 => (v, v),
        1 => {
            let w = v.abs() * r.range(0., 1e-6);
            (v - w, v + w)
        }
        _ => (step_ulps(v, -(r.below(3) as i64)), step_ulps(v, r.below(3) as i64)),
    }
}

pub fn solve_line(out: &mut Out, a: (Float, Float), b: (Float, Float), c: (Float, Float)) {
    let res = ApproxFloat::solve_quadratic(ap(a), ap(b), ap(c));
    let rhs = match res {
        None => "none".to_string(),
        Some((x1, x2)) => format!("some {} {}", ha(x1), ha(x2)),
    };
    out.case(&format!("ap.solve {} {} {}", hi2(a), hi2(b), hi2(c)), &rhs);
}

pub fn c17(r: &mut Rng, out: &mut Out, n: usize) {
    for i in 0..n {
        // choose roots / discriminant regimes explicitly
        let a = r.logmag(1e-3, 1e3);
        let (b, c) = match i % 4 {
            0 => {
                // two well separated real roots r1, r2
                let r1 = r.logmag(1e-3, 1e3);
                let r2 = r.logmag(1e-3, 1e3);
                (-a * (r1 + r2), a * r1 * r2)
            }
            1 => {
                // clearly negative discriminant
                let b = r.logmag(1e-3, 1e3);
                let c = (b * b / (4. * a)) * r.range(1.001, 10.);
                (b, c)
            }
            2 => (r.logmag(1e-6, 1e6), r.logmag(1e-6, 1e6)),
            _ => {
                // near-double root
                let r1 = r.logmag(1e-3, 1e3);
                let r2 = r1 * (1. + r.range(-1e-4, 1e-4));
                (-a * (r1 + r2), a * r1 * r2)
            }
        };
        solve_line(out, rel_interval(r, a), rel_interval(r, b), rel_interval(r, c));
    }
}

// ---------------------------------------------------------------------------------------------
// transforms

pub fn any_angle(r: &mut Rng) -> Float {
    match r.below(4) {
        0 => (r.below(33) as Float - 16.) * 45.,
        1 => (r.below(17) as Float - 8.) * 90.,
        _ => r.range(-720., 720.),
    }
}

pub fn scale_factor(r: &mut Rng) -> Float {
    let m = match r.below(3) {
        0 => r.pick(&[0.1, 0.25, 0.5, 1., 2., 4., 10.]) as Float,
        _ => r.logmag(0.1, 10.).abs(),
    };
    if r.below(4) == 0 {
        -m
    } else {
        m
    }
}

/// one elementary transform and its text
pub fn any_elem(r: &mut Rng, tscale: f64) -> (Transform, String) {
    match r.below(6) {
        0 => {
            let (x, y, z) = (r.nice(tscale), r.nice(tscale), r.nice(tscale));
            (
                Transform::translate(x, y, z),
                format!("T {} {} {}", hx(x), hx(y), hx(z)),
            )
        }
        1 => {
            let (x, y, z) = if r.bool() {
                let s = scale_factor(r);
                (s, s, s)
            } else {
                (scale_factor(r), scale_factor(r), scale_factor(r))
            };
            (
                Transform::scale(x, y, z),
                format!("S {} {} {}", hx(x), hx(y), hx(z)),
            )
        }
        2 => {
            let d = any_angle(r);
            (Transform::rotate_x(d), format!("RX {}", hx(d)))
        }
        3 => {
            let d = any_angle(r);
            (Transform::rotate_y(d), format!("RY {}", hx(d)))
        }
        4 => {
            let d = any_angle(r);
            (Transform::rotate_z(d), format!("RZ {}", hx(d)))
        }
        _ => (Transform::new(), "I".to_string()),
    }
}

/// the chains of the transform properties (C06, C16): mostly `any_chain`, now and then a chain that magnifies (or shrinks) strongly —
/// a translation followed by three to five scalings in the same direction (factors at the ends of the admitted range), with
/// an occasional rotation in between: the transformed direction of a ray is then far from unit length
pub fn transform_chain(r: &mut Rng) -> (Transform, String) {
    if r.below(12) != 0 {
        return any_chain(r, 6, 1e3);
    }
    let up = r.bool();
    if !up && r.below(3) == 0 {
        // six shrinking scalings and nothing else: the determinant is of the order of 1e-18 (far below machine epsilon) and,
        // with an odd number of mirrored axes, negative
        let mut t = Transform::new();
        let mut parts: Vec<String> = vec![];
        let mirrored = r.below(6);
        for i in 0..6 {
            let m = r.pick(&[0.1, 0.1, 0.125]) as Float;
            let (sx, sy, sz) = if i == mirrored {
                match r.below(4) {
                    0 => (-m, m, m),
                    1 => (m, -m, m),
                    2 => (m, m, -m),
                    _ => (-m, -m, -m),
                }
            } else if r.below(5) == 0 {
                (-m, -m, m)
            } else {
                (m, m, m)
            };
            t *= Transform::scale(sx, sy, sz);
            parts.push(format!("S {} {} {}", hx(sx), hx(sy), hx(sz)));
        }
        return (t, format!("{} {}", parts.len(), parts.join(" ")));
    }
    let k = 3 + r.below(3);
    let mut t = Transform::new();
    let mut parts: Vec<String> = vec![];
    let (x, y, z) = (r.nice(1e3), r.nice(1e3), r.nice(1e3));
    t *= Transform::translate(x, y, z);
    parts.push(format!("T {} {} {}", hx(x), hx(y), hx(z)));
    for i in 0..k {
        let f = |r: &mut Rng| -> Float {
            let m = if up { r.pick(&[10., 10., 8., 5.]) } else { r.pick(&[0.1, 0.1, 0.125, 0.2]) } as Float;
            if r.below(6) == 0 {
                -m
            } else {
                m
            }
        };
        let (sx, sy, sz) = if r.bool() {
            let s = f(r);
            (s, s, s)
        } else {
            (f(r), f(r), f(r))
        };
        t *= Transform::scale(sx, sy, sz);
        parts.push(format!("S {} {} {}", hx(sx), hx(sy), hx(sz)));
        if i == 1 && parts.len() < 6 && r.bool() {
            let d = any_angle(r);
            t *= Transform::rotate_y(d);
            parts.push(format!("RY {}", hx(d)));
        }
        if parts.len() >= 6 {
            break;
        }
    }
    (t, format!("{} {}", parts.len(), parts.join(" ")))
}

/// a chain of 0..=maxlen elementary transforms composed with `*=`
pub fn any_chain(r: &mut Rng, maxlen: usize, tscale: f64) -> (Transform, String) {
    let n = r.below(maxlen + 1);
    let mut t = Transform::new();
    let mut s = format!("{}", n);
    for _ in 0..n {
        let (e, es) = any_elem(r, tscale);
        t *= e;
        s.push(' ');
        s.push_str(&es);
    }
    (t, s)
}

fn hm(m: &[Float; 16]) -> String {
    m.iter().map(|x| hx(*x)).collect::<Vec<_>>().join(" ")
}
fn hbox(b: &BBox3D) -> String {
    format!("{} {}", hp(b.min), hp(b.max))
}
fn hray(r: &Ray3D) -> String {
    format!("{} {}", hp(r.origin), hv(r.direction))
}
pub fn any_box(r: &mut Rng, scale: f64) -> BBox3D {
    let a = r.pt(scale);
    let mut b = r.pt(scale);
    // zero extents now and then
    if r.below(6) == 0 {
        match r.below(3) {
            0 => b.x = a.x,
            1 => b.y = a.y,
            _ => b.z = a.z,
        }
    }
    BBox3D::new(a, b)
}

pub fn c06(r: &mut Rng, out: &mut Out, n: usize) {
    // regression: the pre-fix counterexample translate(1,2,3) *= rotate_z(90) at (1,0,0)
    {
        let mut t = Transform::translate(1., 2., 3.);
        t *= Transform::rotate_z(90.);
        let s = format!("2 T {} {} {} RZ {}", hx(1.), hx(2.), hx(3.), hx(90.));
        let p = Point3D::new(1., 0., 0.);
        out.case(
            &format!("tr.pt {} {}", s, hp(p)),
            &format!("{} {}", hp(t.transform_pt(p)), hp(t.inv_transform_pt(p))),
        );
        let (m, i) = t.verif_elements();
        out.case(&format!("tr.chain {}", s), &format!("{} {}", hm(&m), hm(&i)));
    }
    for i in 0..n {
        let (t, s) = transform_chain(r);
        match i % 8 {
            7 => {
                // a surface frame (point, two tangents, their normal) carried through IntersectionInfo::transform
                let dpdu = r.vec(3.);
                let mut dpdv = r.vec(3.);
                if dpdu.cross(dpdv).length() < 0.1 {
                    dpdv = Vector3D::new(dpdu.y + 1., -dpdu.x, dpdu.z + 0.5);
                }
                let normal = dpdv.cross(dpdu).get_normalized();
                let info = IntersectionInfo { p: r.pt(10.), normal, side: SurfaceSide::Front, dpdu, dpdv };
                let a = info.transform(&t);
                let b = info.inv_transform(&t);
                let hi = |i: &IntersectionInfo| format!("{} {} {} {} {}", hp(i.p), hv(i.normal), match i.side { SurfaceSide::Front => 0, SurfaceSide::Back => 1, SurfaceSide::NonApplicable => 2 }, hv(i.dpdu), hv(i.dpdv));
                out.case(&format!("info.tr {} {}", s, hi(&info)), &format!("{} {}", hi(&a), hi(&b)));
            }
            0 => {
                let (m, inv) = t.verif_elements();
                out.case(&format!("tr.chain {}", s), &format!("{} {}", hm(&m), hm(&inv)));
                out.case(&format!("tr.hands {}", s), hb(t.changes_hands()));
            }
            1 | 2 => {
                let p = r.pt(10.);
                out.case(
                    &format!("tr.pt {} {}", s, hp(p)),
                    &format!("{} {}", hp(t.transform_pt(p)), hp(t.inv_transform_pt(p))),
                );
            }
            3 => {
                let p = r.vec(10.);
                out.case(
                    &format!("tr.vec {} {}", s, hv(p)),
                    &format!("{} {}", hv(t.transform_vec(p)), hv(t.inv_transform_vec(p))),
                );
            }
            4 => {
                let p = r.unit_vec();
                out.case(
                    &format!("tr.nrm {} {}", s, hv(p)),
                    &format!("{} {}", hv(t.transform_normal(p)), hv(t.inv_transform_normal(p))),
                );
            }
            5 => {
                let b = any_box(r, 10.);
                out.case(
                    &format!("tr.box {} {}", s, hbox(&b)),
                    &format!("{} {}", hbox(&t.transform_bbox(b)), hbox(&t.inv_transform_bbox(b))),
                );
            }
            _ => {
                let ray = Ray3D {
                    origin: r.pt(10.),
                    direction: if r.bool() { r.unit_vec() } else { r.vec(5.) },
                };
                let a = t.transform_ray(&ray);
                let b = t.inv_transform_ray(&ray);
                out.case(
                    &format!("tr.ray {} {}", s, hray(&ray)),
                    &format!(
                        "{} {} {} {} {} {}",
                        hray(&a.0),
                        hp(a.1),
                        hp(a.2),
                        hray(&b.0),
                        hp(b.1),
                        hp(b.2)
                    ),
                );
            }
        }
    }
}

pub fn c16(r: &mut Rng, out: &mut Out, n: usize) {
    for i in 0..n {
        let (t, s) = transform_chain(r);
        let (me, mi) = t.verif_elements();
        let mats = format!("{} {}", hm(&me), hm(&mi));
        let big = r.pick(&[1., 10., 1e3, 1e6]);
        let p = Point3D::new(r.range(-big, big), r.range(-big, big), r.range(-big, big));
        let v = Vector3D::new(p.x, p.y, p.z);
        let e = Point3D::new(
            r.range(0., 1e-3),
            r.range(0., 1e-3),
            r.range(0., 1e-3),
        );
        let e2 = Point3D::new(
            r.range(0., 1e-3),
            r.range(0., 1e-3),
            r.range(0., 1e-3),
        );
        match i % 6 {
            0 => {
                let a = t.transform_pt_with_error(p);
                let b = t.inv_transform_pt_with_error(p);
                out.case(
                    &format!("tr.pterr {} {}", s, hp(p)),
                    &format!("{} {} {} {} {}", hp(a.0), hp(a.1), hp(b.0), hp(b.1), mats),
                );
            }
            1 => {
                let a = t.transform_vec_with_error(v);
                let b = t.inv_transform_vec_with_error(v);
                out.case(
                    &format!("tr.vecerr {} {}", s, hv(v)),
                    &format!("{} {} {} {} {}", hv(a.0), hp(a.1), hv(b.0), hp(b.1), mats),
                );
            }
            2 => {
                let a = t.transform_pt_propagate_error(p, e);
                let b = t.inv_transform_pt_propagate_error(p, e);
                out.case(
                    &format!("tr.ptprop {} {} {}", s, hp(p), hp(e)),
                    &format!("{} {} {} {} {}", hp(a.0), hp(a.1), hp(b.0), hp(b.1), mats),
                );
            }
            3 => {
                let a = t.transform_vec_propagate_error(v, e);
                let b = t.inv_transform_vec_propagate_error(v, e);
                out.case(
                    &format!("tr.vecprop {} {} {}", s, hv(v), hp(e)),
                    &format!("{} {} {} {} {}", hv(a.0), hp(a.1), hv(b.0), hp(b.1), mats),
                );
            }
            4 => {
                let ray = Ray3D {
                    origin: p,
                    direction: if r.bool() { r.unit_vec() } else { r.vec(5.) },
                };
                let a = t.transform_ray(&ray);
                let b = t.inv_transform_ray(&ray);
                out.case(
                    &format!("tr.rayerr {} {}", s, hray(&ray)),
                    &format!(
                        "{} {} {} {} {} {} {}",
                        hray(&a.0), hp(a.1), hp(a.2), hray(&b.0), hp(b.1), hp(b.2), mats
                    ),
                );
            }
            _ => {
                let ray = Ray3D {
                    origin: p,
                    direction: if r.bool() { r.unit_vec() } else { r.vec(5.) },
                };
                let a = t.transform_ray_propagate_error(&ray, e, e2);
                let b = t.inv_transform_ray_propagate_error(&ray, e, e2);
                out.case(
                    &format!("tr.rayprop {} {} {} {}", s, hray(&ray), hp(e), hp(e2)),
                    &format!(
                        "{} {} {} {} {} {} {}",
                        hray(&a.0), hp(a.1), hp(a.2), hray(&b.0), hp(b.1), hp(b.2), mats
                    ),
                );
            }
        }
    }
}

pub fn c15(r: &mut Rng, out: &mut Out, n: usize) {
    for i in 0..n {
        let a = any_box(r, 10.);
        // second box: overlapping, touching, disjoint
        let b = match r.below(4) {
            0 => any_box(r, 10.),
            1 => BBox3D::new(a.max, r.pt(10.)), // shares a corner
            2 => {
                let d = r.vec(3.);
                BBox3D::new(a.min + d, a.max + d)
            }
            _ => {
                let d = Vector3D::new(30., 0., 0.);
                BBox3D::new(a.min + d, a.max + d)
            }
        };
        let p = match r.below(3) {
            0 => r.pt(10.),
            1 => a.min,
            _ => Point3D::new(
                r.range(a.min.x as f64, a.max.x as f64),
                r.range(a.min.y as f64, a.max.y as f64),
                a.max.z,
            ),
        };
        match i % 8 {
            0 => {
                let (q, w) = (r.pt(10.), r.pt(10.));
                out.case(&format!("bb.new {} {}", hp(q), hp(w)), &hbox(&BBox3D::new(q, w)));
            }
            1 => out.case(
                &format!("bb.unionpt {} {}", hbox(&a), hp(p)),
                &hbox(&BBox3D::from_union_point(&a, p)),
            ),
            2 => out.case(
                &format!("bb.union {} {}", hbox(&a), hbox(&b)),
                &hbox(&BBox3D::from_union(&a, &b)),
            ),
            3 => out.case(
                &format!("bb.inter {} {}", hbox(&a), hbox(&b)),
                &hbox(&BBox3D::from_intersection(&a, &b)),
            ),
            4 => out.case(
                &format!("bb.overlaps {} {}", hbox(&a), hbox(&b)),
                hb(a.overlaps(&b)),
            ),
            5 => out.case(
                &format!("bb.inside {} {}", hbox(&a), hp(p)),
                &format!("{} {}", hb(a.point_inside(p)), hb(a.point_inside_exclusive(p))),
            ),
            6 => out.case(
                &format!("bb.misc {}", hbox(&a)),
                &format!("{} {}", a.max_extent() as u8, hx(a.surface_area())),
            ),
            _ => {
                let (t, s) = any_chain(r, 6, 1e3);
                out.case(
                    &format!("tr.box {} {}", s, hbox(&a)),
                    &format!("{} {}", hbox(&t.transform_bbox(a)), hbox(&t.inv_transform_bbox(a))),
                );
            }
        }
    }
}

/// the two corners as given to `BBox3D::new` (any order per component, zero extents now and then)
pub fn any_corners(r: &mut Rng, scale: f64) -> (Point3D, Point3D) {
    let a = r.pt(scale);
    let mut b = r.pt(scale);
    if r.below(6) == 0 {
        match r.below(3) {
            0 => b.x = a.x,
            1 => b.y = a.y,
            _ => b.z = a.z,
        }
    }
    (a, b)
}

pub fn c14(r: &mut Rng, out: &mut Out, n: usize) {
    for _ in 0..n {
        let scale = r.pick(&[1., 10., 1e3]);
        // the corners go through `BBox3D::new` in the order drawn ("any corner order" is part of the property):
        // the `bb.newhit` line carries the raw corners, the `bb.hit` line the normalised box
        let (ca, cb) = any_corners(r, scale);
        let raw = r.below(2) == 0;
        let bx = BBox3D::new(ca, cb);
        // a target point: inside the box, or clearly outside
        let inside = Point3D::new(
            r.range(bx.min.x as f64, bx.max.x as f64),
            r.range(bx.min.y as f64, bx.max.y as f64),
            r.range(bx.min.z as f64, bx.max.z as f64),
        );
        let origin = match r.below(5) {
            0 => inside,
            1 | 2 => {
                // exactly on one of the six face planes (any axis, either side); the other two coordinates anywhere or
                // inside the box's extent (a ray lying in a face plane, or leaving through it)
                let mut o = if r.bool() { inside } else { Point3D::new(r.nice(scale), r.nice(scale), r.nice(scale)) };
                let hi = r.bool();
                match r.below(3) {
                    0 => o.x = if hi { bx.max.x } else { bx.min.x },
                    1 => o.y = if hi { bx.max.y } else { bx.min.y },
                    _ => o.z = if hi { bx.max.z } else { bx.min.z },
                }
                o
            }
            _ => r.pt(2. * scale),
        };
        let mut d = match r.below(4) {
            0 => r.unit_vec(),
            1 => r.vec(3.),
            _ => {
                // aimed at a point of the box (or just beside it)
                let tgt = if r.bool() { inside } else { r.pt(2. * scale) };
                let v = tgt - origin;
                if r.bool() {
                    v
                } else {
                    -v
                }
            }
        };
        // exact zeros in the direction
        for k in 0..3 {
            if r.below(5) == 0 {
                // either sign of zero on every axis (the reciprocal is +inf or -inf)
                let z = if r.bool() { 0. } else { -0.0 };
                match k {
                    0 => d.x = z,
                    1 => d.y = z,
                    _ => d.z = z,
                }
            }
        }
        if r.below(8) == 0 {
            d.x = -0.0;
        }
        let inv = Vector3D::new(1. / d.x, 1. / d.y, 1. / d.z);
        let ray = Ray3D { origin, direction: d };
        if raw {
            out.case(
                &format!("bb.newhit {} {} {} {}", hp(ca), hp(cb), hray(&ray), hv(inv)),
                hb(BBox3D::new(ca, cb).intersect(&ray, &inv)),
            );
        } else {
            out.case(
                &format!("bb.hit {} {} {}", hbox(&bx), hray(&ray), hv(inv)),
                hb(bx.intersect(&ray, &inv)),
            );
        }
    }
}
