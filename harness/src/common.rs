use geometry3d::{Point3D, Vector3D};
use std::io::Write;

#[cfg(feature = "float")]
pub type Float = f32;
#[cfg(not(feature = "float"))]
pub type Float = f64;
#[cfg(feature = "float")]
pub const FMT: &str = "f32";
#[cfg(not(feature = "float"))]
pub const FMT: &str = "f64";

#[cfg(feature = "float")]
pub type Bits = u32;
#[cfg(not(feature = "float"))]
pub type Bits = u64;

pub fn hash_str(s: &str) -> u64 {
    let mut h: u64 = 0xcbf29ce484222325;
    for b in s.bytes() {
        h ^= b as u64;
        h = h.wrapping_mul(0x100000001b3);
    }
    h
}

/// xorshift64* — every random choice of the harness derives from one state
pub struct Rng(pub u64);
impl Rng {
    pub fn new(seed: u64) -> Self {
        let mut r = Rng(seed.wrapping_mul(0x9E3779B97F4A7C15) | 1);
        for _ in 0..8 {
            r.next();
        }
        r
    }
    pub fn next(&mut self) -> u64 {
        let mut x = self.0;
        x ^= x >> 12;
        x ^= x << 25;
        x ^= x >> 27;
        self.0 = x;
        x.wrapping_mul(0x2545F4914F6CDD1D)
    }
    pub fn below(&mut self, n: usize) -> usize {
        (self.next() % (n as u64)) as usize
    }
    pub fn bool(&mut self) -> bool {
        self.next() & 1 == 1
    }
    /// uniform in [0,1)
    pub fn unit(&mut self) -> f64 {
        (self.next() >> 11) as f64 / (1u64 << 53) as f64
    }
    pub fn range(&mut self, lo: f64, hi: f64) -> Float {
        (lo + (hi - lo) * self.unit()) as Float
    }
    pub fn sign(&mut self) -> Float {
        if self.bool() {
            1.0
        } else {
            -1.0
        }
    }
    /// log-uniform magnitude in [lo,hi], random sign
    pub fn logmag(&mut self, lo: f64, hi: f64) -> Float {
        let l = lo.ln() + (hi.ln() - lo.ln()) * self.unit();
        (l.exp() as Float) * self.sign()
    }
    pub fn pick<T: Copy>(&mut self, xs: &[T]) -> T {
        xs[self.below(xs.len())]
    }
    /// a "round" number at metre scale, often exactly representable
    pub fn nice(&mut self, scale: f64) -> Float {
        match self.below(4) {
            0 => ((self.unit() * 2.0 - 1.0) * scale).round() as Float,
            1 => (((self.unit() * 2.0 - 1.0) * scale * 4.0).round() / 4.0) as Float,
            _ => self.range(-scale, scale),
        }
    }
    pub fn vec(&mut self, scale: f64) -> Vector3D {
        Vector3D::new(self.nice(scale), self.nice(scale), self.nice(scale))
    }
    pub fn pt(&mut self, scale: f64) -> Point3D {
        Point3D::new(self.nice(scale), self.nice(scale), self.nice(scale))
    }
    pub fn unit_vec(&mut self) -> Vector3D {
        loop {
            let v = Vector3D::new(
                self.range(-1., 1.),
                self.range(-1., 1.),
                self.range(-1., 1.),
            );
            let l = v.length();
            if l > 0.1 && l <= 1.0 {
                return v / l;
            }
        }
    }
}

pub fn hx(x: Float) -> String {
    if x.is_nan() {
        return "nan".to_string();
    }
    #[cfg(feature = "float")]
    return format!("{:08x}", x.to_bits());
    #[cfg(not(feature = "float"))]
    return format!("{:016x}", x.to_bits());
}
pub fn hv(v: Vector3D) -> String {
    format!("{} {} {}", hx(v.x), hx(v.y), hx(v.z))
}
pub fn hp(v: Point3D) -> String {
    format!("{} {} {}", hx(v.x), hx(v.y), hx(v.z))
}
pub fn hb(b: bool) -> &'static str {
    if b {
        "1"
    } else {
        "0"
    }
}

pub struct Out {
    buf: Vec<u8>,
}
impl Out {
    pub fn new() -> Self {
        Out {
            buf: Vec::with_capacity(1 << 20),
        }
    }
    pub fn raw(&mut self, s: &str) {
        self.buf.extend_from_slice(s.as_bytes());
        self.buf.push(b'\n');
        if self.buf.len() > (1 << 20) {
            self.flush();
        }
    }
    pub fn case(&mut self, lhs: &str, rhs: &str) {
        self.raw(&format!("{} => {}", lhs, rhs));
    }
    pub fn flush(&mut self) {
        let so = std::io::stdout();
        let mut l = so.lock();
        l.write_all(&self.buf).unwrap();
        l.flush().unwrap();
        self.buf.clear();
    }
}

/// runs `f`, mapping a panic to the outcome string `panic`
pub fn guarded<F: FnOnce() -> String + std::panic::UnwindSafe>(f: F) -> String {
    match std::panic::catch_unwind(f) {
        Ok(s) => s,
        Err(_) => "panic".to_string(),
    }
}
