//! structured polygon generators shared by the loop / polygon / triangulation groups:
//! 2-D outlines of several families (+ holes), placed in 3-D by a random frame.
use crate::common::*;
use geometry3d::{Loop3D, Point3D, Polygon3D, Vector3D};

pub type P2 = (f64, f64);

#[derive(Clone, Debug)]
pub struct Poly2 {
    pub family: &'static str,
    pub outer: Vec<P2>,
    pub holes: Vec<Vec<P2>>,
}

#[derive(Clone, Copy, Debug)]
pub struct Frame {
    pub o: Point3D,
    pub u: Vector3D,
    pub v: Vector3D,
    pub n: Vector3D,
    pub kind: &'static str,
}

impl Frame {
    pub fn place(&self, p: P2) -> Point3D {
        self.o + self.u * (p.0 as Float) + self.v * (p.1 as Float)
    }
    /// a point at signed height h above the plane
    pub fn place_h(&self, p: P2, h: f64) -> Point3D {
        self.place(p) + self.n * (h as Float)
    }
    /// the same plane with the in-plane geometry scaled by `s` (heights above the plane stay absolute)
    pub fn scaled(&self, s: f64) -> Frame {
        Frame { o: self.o, u: self.u * (s as Float), v: self.v * (s as Float), n: self.n, kind: self.kind }
    }
}

/// a frame at the origin turned by a right angle computed with sin/cos: the in-plane axes carry 1e-17-level noise that is
/// NOT absorbed by an offset, so an edge lying on one of the in-plane axes has a noise-level extent along a world axis
pub fn noise_frame_at_origin(r: &mut Rng) -> Frame {
    let a = ((1 + 2 * r.below(2)) as Float) * 90.;
    let (s, c) = (a.to_radians().sin(), a.to_radians().cos());
    let (u, v) = match r.below(3) {
        0 => (Vector3D::new(c, s, 0.), Vector3D::new(-s, c, 0.)),
        1 => (Vector3D::new(c, 0., -s), Vector3D::new(0., 1., 0.)),
        _ => (Vector3D::new(0., c, s), Vector3D::new(0., -s, c)),
    };
    Frame { o: Point3D::new(0., 0., 0.), u, v, n: u.cross(v), kind: "right-angle-noise" }
}

pub fn any_frame(r: &mut Rng) -> Frame {
    let off = match r.below(4) {
        0 => 0.,
        1 => 10.,
        _ => 1e3,
    };
    let o = if off == 0. {
        Point3D::new(0., 0., 0.)
    } else {
        r.pt(off)
    };
    match r.below(4) {
        0 => {
            // coordinate planes, any handedness
            let ax = [
                Vector3D::new(1., 0., 0.),
                Vector3D::new(0., 1., 0.),
                Vector3D::new(0., 0., 1.),
            ];
            let i = r.below(3);
            let (u, v) = (ax[i], ax[(i + 1) % 3]);
            let (u, v) = if r.bool() { (u, v) } else { (v, u) };
            Frame { o, u, v, n: u.cross(v), kind: "coordinate" }
        }
        1 => {
            // right-angle rotations carrying 1e-16-level trigonometric noise
            let a = (r.below(4) as Float) * 90.;
            let (s, c) = (a.to_radians().sin(), a.to_radians().cos());
            let (u, v) = match r.below(3) {
                0 => (Vector3D::new(c, s, 0.), Vector3D::new(-s, c, 0.)),
                1 => (Vector3D::new(c, 0., -s), Vector3D::new(0., 1., 0.)),
                _ => (Vector3D::new(0., c, s), Vector3D::new(0., -s, c)),
            };
            Frame { o, u, v, n: u.cross(v), kind: "right-angle-noise" }
        }
        _ => {
            let n = r.unit_vec();
            let mut u = n.cross(r.unit_vec());
            while u.length() < 0.2 {
                u = n.cross(r.unit_vec());
            }
            u.normalize();
            let mut v = n.cross(u);
            v.normalize();
            Frame { o, u, v, n, kind: "oblique" }
        }
    }
}

fn sorted_angles(r: &mut Rng, n: usize, min_gap: f64) -> Vec<f64> {
    // n angles in [0, 2pi) with a minimum gap (so that edges are not tiny)
    let two_pi = 2. * std::f64::consts::PI;
    loop {
        let mut a: Vec<f64> = (0..n).map(|_| r.unit() * two_pi).collect();
        a.sort_by(|x, y| x.partial_cmp(y).unwrap());
        let mut ok = true;
        for i in 0..n {
            let d = if i + 1 < n { a[i + 1] - a[i] } else { a[0] + two_pi - a[i] };
            if d < min_gap || d > 2.8 {
                ok = false;
            }
        }
        if ok {
            return a;
        }
    }
}

pub fn convex(r: &mut Rng, n: usize, rx: f64, ry: f64) -> Vec<P2> {
    let a = sorted_angles(r, n, 0.9 / n as f64);
    a.iter().map(|t| (rx * t.cos(), ry * t.sin())).collect()
}

pub fn star(r: &mut Rng, n: usize, rmin: f64, rmax: f64) -> Vec<P2> {
    let a = sorted_angles(r, n, 1.5 / n as f64);
    a.iter()
        .map(|t| {
            let rad = rmin + (rmax - rmin) * r.unit();
            (rad * t.cos(), rad * t.sin())
        })
        .collect()
}

/// rectilinear "staircase" outline, optionally with redundant collinear points on its long edges
pub fn rectilinear(r: &mut Rng, steps: usize, redundant: bool) -> Vec<P2> {
    // monotone staircase from (0,0) up/right, closed by the two long edges
    let mut pts: Vec<P2> = vec![(0., 0.)];
    let (mut x, mut y) = (0., 0.);
    let mut w = 0.;
    for _ in 0..steps {
        let dx = (1. + (r.below(4) as f64)) * 0.5;
        let dy = (1. + (r.below(4) as f64)) * 0.5;
        x += dx;
        w = x;
        pts.push((x, y));
        y += dy;
        pts.push((x, y));
    }
    // back along the top to x = 0 and down
    if redundant {
        pts.push((w * 0.5, y));
    }
    pts.push((0., y));
    if redundant {
        pts.push((0., y * 0.5));
    }
    // the outline runs clockwise so far (right then up … then left, down): that is counter-clockwise? keep as is,
    // both windings are legal input
    pts
}

pub fn comb(r: &mut Rng, teeth: usize) -> Vec<P2> {
    let mut pts: Vec<P2> = vec![(0., 0.)];
    let tw = 1.0;
    let total = (2 * teeth - 1) as f64 * tw;
    pts.push((total, 0.));
    let h = 2. + r.unit() * 2.;
    for i in (0..teeth).rev() {
        let x1 = (2 * i + 1) as f64 * tw;
        let x0 = (2 * i) as f64 * tw;
        pts.push((x1, h));
        pts.push((x0, h));
        if i > 0 {
            pts.push((x0, 1.));
            pts.push((x0 - tw, 1.));
        }
    }
    pts
}

pub fn reverse_if(r: &mut Rng, mut p: Vec<P2>) -> Vec<P2> {
    if r.bool() {
        p.reverse();
    }
    p
}
pub fn rotate_start(r: &mut Rng, p: Vec<P2>) -> Vec<P2> {
    let k = r.below(p.len());
    let mut q = p[k..].to_vec();
    q.extend_from_slice(&p[..k]);
    q
}

/// a small convex hole with `n` vertices around `c`, radius `rad`, given winding and start
pub fn hole(r: &mut Rng, n: usize, c: P2, rad: f64) -> Vec<P2> {
    let phase = r.unit() * 6.28;
    let mut p: Vec<P2> = (0..n)
        .map(|i| {
            let t = phase + (i as f64) * 2. * std::f64::consts::PI / n as f64;
            (c.0 + rad * t.cos(), c.1 + rad * t.sin())
        })
        .collect();
    if r.bool() {
        p.reverse();
    }
    rotate_start(r, p)
}

/// a polygon of one of the families, with up to `max_holes` holes (only for families with a known free disc)
pub fn any_poly2(r: &mut Rng, max_vertices: usize, max_holes: usize) -> Poly2 {
    let fam = r.below(5);
    let nh = if max_holes == 0 { 0 } else { r.below(max_holes + 1) };
    let (family, outer, free): (&'static str, Vec<P2>, Option<(P2, f64)>) = match fam {
        0 => {
            let n = 3 + r.below(max_vertices.min(12) - 2);
            let (rx, ry) = (2. + 6. * r.unit(), 2. + 6. * r.unit());
            ("convex", convex(r, n, rx, ry), Some(((0., 0.), 0.45 * rx.min(ry))))
        }
        1 => {
            let n = 5 + r.below(max_vertices.min(24) - 4);
            let rmin = 2. + 3. * r.unit();
            let rmax = rmin * (1.2 + 1.5 * r.unit());
            ("star", star(r, n, rmin, rmax), Some(((0., 0.), 0.55 * rmin)))
        }
        2 => {
            let steps = 1 + r.below(((max_vertices.saturating_sub(4)) / 2).max(1).min(8));
            let red = r.bool();
            ("rectilinear", rectilinear(r, steps, red), None)
        }
        3 => {
            let teeth = 2 + r.below(3);
            ("comb", comb(r, teeth), None)
        }
        _ => {
            // axis-parallel rectangle (possibly a square) with a big free disc
            let (w, h) = (4. + 6. * r.unit().round(), 4. + 6. * r.unit().round());
            (
                "rectangle",
                vec![(-w / 2., -h / 2.), (w / 2., -h / 2.), (w / 2., h / 2.), (-w / 2., h / 2.)],
                Some(((0., 0.), 0.45 * w.min(h))),
            )
        }
    };
    let outer = reverse_if(r, outer);
    let outer = rotate_start(r, outer);
    let mut holes = vec![];
    if let Some((c, rad)) = free {
        // put the holes on a ring inside the free disc, in distinct sectors
        let k = nh;
        for i in 0..k {
            let n = 3 + r.below(6);
            let (hc, hr) = if k == 1 {
                let off = rad * 0.4 * r.unit();
                let t = r.unit() * 6.28;
                ((c.0 + off * t.cos(), c.1 + off * t.sin()), rad * (0.15 + 0.3 * r.unit()))
            } else {
                let t = (i as f64 + 0.3 * r.unit()) * 6.283 / k as f64;
                ((c.0 + 0.55 * rad * t.cos(), c.1 + 0.55 * rad * t.sin()), rad * (0.1 + 0.12 * r.unit()))
            };
            holes.push(hole(r, n, hc, hr));
        }
    }
    Poly2 { family, outer, holes }
}

pub fn build_loop(f: &Frame, pts: &[P2]) -> Result<Loop3D, String> {
    let mut l = Loop3D::new();
    for p in pts {
        l.push(f.place(*p))?;
    }
    l.close()?;
    Ok(l)
}

pub fn build_polygon(f: &Frame, p: &Poly2) -> Result<Polygon3D, String> {
    let outer = build_loop(f, &p.outer)?;
    let mut poly = Polygon3D::new(outer)?;
    for h in &p.holes {
        let hl = build_loop(f, h)?;
        poly.cut_hole(hl)?;
    }
    Ok(poly)
}

/// points of a 2-D outline as 3-D points (for writing a case line)
pub fn placed(f: &Frame, pts: &[P2]) -> Vec<Point3D> {
    pts.iter().map(|p| f.place(*p)).collect()
}
pub fn hpts(pts: &[Point3D]) -> String {
    let mut s = format!("{}", pts.len());
    for p in pts {
        s.push(' ');
        s.push_str(&hp(*p));
    }
    s
}
