//! generators for the ray–primitive intersection layer: C02 C03 C13 C15b
//!
//! Every case line names a primitive by its *constructor call* (so the constructor model is compared too), then a
//! ray (and for the `*_local_ray` entry points the two error vectors), and prints everything the crate returned.
use crate::common::*;
use crate::g_algebra::{any_angle, any_chain, scale_factor};
use geometry3d::intersection::{IntersectionInfo, SurfaceSide};
use geometry3d::round_error::ApproxFloat;
use geometry3d::{
    BBox3D, Cylinder3D, Disk3D, DistantSource3D, Plane3D, Point3D, Ray3D, Sphere3D, Transform,
    Triangle3D, Vector3D,
};
use std::collections::BTreeMap;
use std::panic::AssertUnwindSafe;
use std::rc::Rc;

const PI: f64 = std::f64::consts::PI;
const TINY: Float = 100. * Float::EPSILON;
/// about MAX^(2/3): squares overflow
#[cfg(feature = "float")]
const HUGE: Float = 1e25;
#[cfg(not(feature = "float"))]
const HUGE: Float = 1e200;

// ---------------------------------------------------------------------------------------------
// printing

fn hbox(b: &BBox3D) -> String {
    format!("{} {}", hp(b.min), hp(b.max))
}
fn hray(r: &Ray3D) -> String {
    format!("{} {}", hp(r.origin), hv(r.direction))
}
fn hm(m: &[Float; 16]) -> String {
    m.iter().map(|x| hx(*x)).collect::<Vec<_>>().join(" ")
}
fn side_code(s: SurfaceSide) -> u8 {
    match s {
        SurfaceSide::Front => 0,
        SurfaceSide::Back => 1,
        SurfaceSide::NonApplicable => 2,
    }
}
fn hinfo(i: &IntersectionInfo) -> String {
    format!(
        "{} {} {} {} {}",
        hp(i.p),
        hv(i.normal),
        side_code(i.side),
        hv(i.dpdu),
        hv(i.dpdv)
    )
}
fn hoinfo(o: &Option<IntersectionInfo>) -> String {
    match o {
        None => "none".to_string(),
        Some(i) => format!("some {}", hinfo(i)),
    }
}
fn hopt(o: &Option<Point3D>) -> String {
    match o {
        None => "none".to_string(),
        Some(p) => format!("some {}", hp(*p)),
    }
}
fn hopf(o: &Option<(Point3D, Float)>) -> String {
    match o {
        None => "none".to_string(),
        Some((p, f)) => format!("some {} {}", hp(*p), hx(*f)),
    }
}
fn hot(o: &Option<Rc<Transform>>) -> String {
    match o {
        None => "none".to_string(),
        Some(t) => {
            let (m, i) = t.verif_elements();
            format!("some {} {}", hm(&m), hm(&i))
        }
    }
}
fn ha(a: ApproxFloat) -> String {
    format!("{} {}", hx(a.low), hx(a.high))
}

// ---------------------------------------------------------------------------------------------
// optional transform chains

/// an optional chain with its text (`N` | `Y <chain>`)
#[derive(Clone)]
struct OT {
    t: Option<Transform>,
    s: String,
}
impl OT {
    fn none() -> Self {
        OT { t: None, s: "N".to_string() }
    }
    fn some(t: Transform, s: String) -> Self {
        OT { t: Some(t), s: format!("Y {}", s) }
    }
    fn rc(&self) -> Option<Rc<Transform>> {
        self.t.as_ref().map(|t| Rc::new(t.clone()))
    }
}

fn elem_translate(r: &mut Rng, sc: f64) -> (Transform, String) {
    let (x, y, z) = (r.nice(sc), r.nice(sc), r.nice(sc));
    (Transform::translate(x, y, z), format!("T {} {} {}", hx(x), hx(y), hx(z)))
}
fn elem_rotate(r: &mut Rng) -> (Transform, String) {
    let d = any_angle(r);
    match r.below(3) {
        0 => (Transform::rotate_x(d), format!("RX {}", hx(d))),
        1 => (Transform::rotate_y(d), format!("RY {}", hx(d))),
        _ => (Transform::rotate_z(d), format!("RZ {}", hx(d))),
    }
}
fn elem_scale(r: &mut Rng, uniform: bool) -> (Transform, String) {
    let (x, y, z) = if uniform {
        let s = scale_factor(r);
        (s, s, s)
    } else {
        (scale_factor(r), scale_factor(r), scale_factor(r))
    };
    (Transform::scale(x, y, z), format!("S {} {} {}", hx(x), hx(y), hx(z)))
}

/// the transform attached to a primitive: none, translation, rotation, (non-)uniform scale, rigid composition,
/// arbitrary composition of up to `maxlen` elements
fn prim_chain(r: &mut Rng, maxlen: usize) -> OT {
    match r.below(8) {
        0 => OT::none(),
        1 => {
            let (t, s) = elem_translate(r, 10.);
            {
                let mut c = Transform::new();
                c *= t;
                OT::some(c, format!("1 {}", s))
            }
        }
        2 => {
            let (t, s) = elem_rotate(r);
            {
                let mut c = Transform::new();
                c *= t;
                OT::some(c, format!("1 {}", s))
            }
        }
        3 => {
            let (t, s) = elem_scale(r, false);
            {
                let mut c = Transform::new();
                c *= t;
                OT::some(c, format!("1 {}", s))
            }
        }
        4 => {
            // rigid: translate * rotate * rotate
            let n = 2 + r.below(maxlen.max(2) - 1);
            let mut t = Transform::new();
            let mut s = format!("{}", n);
            for k in 0..n {
                let (e, es) = if k == 0 { elem_translate(r, 10.) } else { elem_rotate(r) };
                t *= e;
                s.push(' ');
                s.push_str(&es);
            }
            OT::some(t, s)
        }
        5 => {
            // translate * rotate * non-uniform scale
            let mut t = Transform::new();
            let mut s = "3".to_string();
            for k in 0..3 {
                let (e, es) = match k {
                    0 => elem_translate(r, 10.),
                    1 => elem_rotate(r),
                    _ => elem_scale(r, false),
                };
                t *= e;
                s.push(' ');
                s.push_str(&es);
            }
            OT::some(t, s)
        }
        _ => {
            let (t, s) = any_chain(r, maxlen, 10.);
            OT::some(t, s)
        }
    }
}

// ---------------------------------------------------------------------------------------------
// primitive specs = constructor calls

#[derive(Clone)]
enum Spec {
    Tri { a: Point3D, b: Point3D, c: Point3D },
    DiskNew { c: Point3D, n: Vector3D, r: Float },
    DiskDet { c: Point3D, n: Vector3D, r: Float, inner: Float, pz: Vector3D, pm: Float, tr: OT },
    SphNew { r: Float, c: Point3D },
    SphPartial { r: Float, c: Point3D, zmin: Float, zmax: Float, pm: Float },
    SphTr { r: Float, tr: OT },
    SphPT { r: Float, zmin: Float, zmax: Float, pm: Float, tr: OT },
    CylNew { p0: Point3D, p1: Point3D, r: Float },
    CylPartial { p0: Point3D, p1: Point3D, r: Float, pm: Float },
    CylTr { r: Float, zmin: Float, zmax: Float, pm: Float, tr: OT },
    Src { d: Vector3D, angle: Float },
}

enum Prim {
    Tri(Triangle3D),
    Disk(Disk3D),
    Sph(Sphere3D),
    Cyl(Cylinder3D),
    Src(DistantSource3D),
}

fn catch<T, F: FnOnce() -> T>(f: F) -> Option<T> {
    std::panic::catch_unwind(AssertUnwindSafe(f)).ok()
}

impl Spec {
    fn kind(&self) -> &'static str {
        match self {
            Spec::Tri { .. } => "tri",
            Spec::DiskNew { .. } | Spec::DiskDet { .. } => "dk",
            Spec::SphNew { .. } | Spec::SphPartial { .. } | Spec::SphTr { .. } | Spec::SphPT { .. } => "sp",
            Spec::CylNew { .. } | Spec::CylPartial { .. } | Spec::CylTr { .. } => "cy",
            Spec::Src { .. } => "ds",
        }
    }
    fn text(&self) -> String {
        match self {
            Spec::Tri { a, b, c } => format!("{} {} {}", hp(*a), hp(*b), hp(*c)),
            Spec::DiskNew { c, n, r } => format!("D0 {} {} {}", hp(*c), hv(*n), hx(*r)),
            Spec::DiskDet { c, n, r, inner, pz, pm, tr } => format!(
                "D1 {} {} {} {} {} {} {}",
                hp(*c), hv(*n), hx(*r), hx(*inner), hv(*pz), hx(*pm), tr.s
            ),
            Spec::SphNew { r, c } => format!("S0 {} {}", hx(*r), hp(*c)),
            Spec::SphPartial { r, c, zmin, zmax, pm } => {
                format!("S1 {} {} {} {} {}", hx(*r), hp(*c), hx(*zmin), hx(*zmax), hx(*pm))
            }
            Spec::SphTr { r, tr } => format!("S2 {} {}", hx(*r), tr.s),
            Spec::SphPT { r, zmin, zmax, pm, tr } => {
                format!("S3 {} {} {} {} {}", hx(*r), hx(*zmin), hx(*zmax), hx(*pm), tr.s)
            }
            Spec::CylNew { p0, p1, r } => format!("C0 {} {} {}", hp(*p0), hp(*p1), hx(*r)),
            Spec::CylPartial { p0, p1, r, pm } => {
                format!("C1 {} {} {} {}", hp(*p0), hp(*p1), hx(*r), hx(*pm))
            }
            Spec::CylTr { r, zmin, zmax, pm, tr } => {
                format!("C2 {} {} {} {} {}", hx(*r), hx(*zmin), hx(*zmax), hx(*pm), tr.s)
            }
            Spec::Src { d, angle } => format!("{} {}", hv(*d), hx(*angle)),
        }
    }
    /// runs the constructor; `None` = it panicked (or returned `Err`)
    fn build(&self) -> Option<Prim> {
        match self.clone() {
            Spec::Tri { a, b, c } => catch(|| Triangle3D::new(a, b, c).ok()).flatten().map(Prim::Tri),
            Spec::DiskNew { c, n, r } => catch(|| Disk3D::new(c, n, r)).map(Prim::Disk),
            Spec::DiskDet { c, n, r, inner, pz, pm, tr } => {
                catch(|| Disk3D::new_detailed(c, n, r, inner, pz, pm, tr.rc())).map(Prim::Disk)
            }
            Spec::SphNew { r, c } => catch(|| Sphere3D::new(r, c)).map(Prim::Sph),
            Spec::SphPartial { r, c, zmin, zmax, pm } => {
                catch(|| Sphere3D::new_partial(r, c, zmin, zmax, pm)).map(Prim::Sph)
            }
            Spec::SphTr { r, tr } => catch(|| Sphere3D::new_transformed(r, tr.rc())).map(Prim::Sph),
            Spec::SphPT { r, zmin, zmax, pm, tr } => {
                catch(|| Sphere3D::new_partial_transformed(r, zmin, zmax, pm, tr.rc())).map(Prim::Sph)
            }
            Spec::CylNew { p0, p1, r } => catch(|| Cylinder3D::new(p0, p1, r)).map(Prim::Cyl),
            Spec::CylPartial { p0, p1, r, pm } => {
                catch(|| Cylinder3D::new_partial(p0, p1, r, pm)).map(Prim::Cyl)
            }
            Spec::CylTr { r, zmin, zmax, pm, tr } => {
                catch(|| Cylinder3D::new_transformed(r, zmin, zmax, pm, tr.rc())).map(Prim::Cyl)
            }
            Spec::Src { d, angle } => catch(|| DistantSource3D::new(d, angle)).map(Prim::Src),
        }
    }
}

impl Prim {
    fn transform(&self) -> Option<Rc<Transform>> {
        match self {
            Prim::Tri(p) => p.transform().clone(),
            Prim::Disk(p) => p.transform().clone(),
            Prim::Sph(p) => p.transform().clone(),
            Prim::Cyl(p) => p.transform().clone(),
            Prim::Src(p) => p.transform().clone(),
        }
    }
    fn to_world(&self, p: Point3D) -> Point3D {
        match self.transform() {
            Some(t) => t.transform_pt(p),
            None => p,
        }
    }
    fn intersect(&self, ray: &Ray3D) -> Option<IntersectionInfo> {
        match self {
            Prim::Tri(p) => p.intersect(ray),
            Prim::Disk(p) => p.intersect(ray),
            Prim::Sph(p) => p.intersect(ray),
            Prim::Cyl(p) => p.intersect(ray),
            Prim::Src(p) => p.intersect(ray),
        }
    }
    fn simple_intersect(&self, ray: &Ray3D) -> Option<Point3D> {
        match self {
            Prim::Tri(p) => p.simple_intersect(ray),
            Prim::Disk(p) => p.simple_intersect(ray),
            Prim::Sph(p) => p.simple_intersect(ray),
            Prim::Cyl(p) => p.simple_intersect(ray),
            Prim::Src(p) => p.simple_intersect(ray),
        }
    }
    fn local(&self, ray: &Ray3D, oe: Point3D, de: Point3D) -> Option<IntersectionInfo> {
        match self {
            Prim::Tri(p) => p.intersect_local_ray(ray, oe, de),
            Prim::Disk(p) => p.intersect_local_ray(ray, oe, de),
            Prim::Sph(p) => p.intersect_local_ray(ray, oe, de),
            Prim::Cyl(p) => p.intersect_local_ray(ray, oe, de),
            Prim::Src(p) => p.intersect_local_ray(ray, oe, de),
        }
    }
    fn slocal(&self, ray: &Ray3D, oe: Point3D, de: Point3D) -> Option<Point3D> {
        match self {
            Prim::Tri(p) => p.simple_intersect_local_ray(ray, oe, de),
            Prim::Disk(p) => p.simple_intersect_local_ray(ray, oe, de),
            Prim::Sph(p) => p.simple_intersect_local_ray(ray, oe, de),
            Prim::Cyl(p) => p.simple_intersect_local_ray(ray, oe, de),
            Prim::Src(p) => p.simple_intersect_local_ray(ray, oe, de),
        }
    }
    /// `basic_intersection` where public (triangle, disk, cylinder)
    fn basic(&self, ray: &Ray3D, oe: Point3D, de: Point3D) -> Option<String> {
        match self {
            Prim::Tri(p) => Some(match p.basic_intersection(ray, oe, de) {
                None => "none".to_string(),
                Some((q, u, v)) => format!("some {} {} {}", hp(q), hx(u), hx(v)),
            }),
            Prim::Disk(p) => Some(hopf(&p.basic_intersection(ray, oe, de))),
            Prim::Cyl(p) => Some(hopf(&p.basic_intersection(ray, oe, de))),
            _ => None,
        }
    }
    /// `intersection_info` where it exists (disk, sphere, cylinder)
    fn info(&self, ray: &Ray3D, phit: Point3D, phi: Float) -> Option<Option<IntersectionInfo>> {
        match self {
            Prim::Disk(p) => Some(p.intersection_info(ray, phit, phi)),
            Prim::Sph(p) => Some(p.intersection_info(ray, phit, phi)),
            Prim::Cyl(p) => Some(p.intersection_info(ray, phit, phi)),
            _ => None,
        }
    }
}

// ---------------------------------------------------------------------------------------------
// statistics (printed as `# stat` comment lines, ignored by the driver)

pub struct Stats(BTreeMap<String, usize>);
impl Stats {
    fn new() -> Self {
        Stats(BTreeMap::new())
    }
    fn add(&mut self, k: String) {
        *self.0.entry(k).or_insert(0) += 1;
    }
    fn dump(&self, out: &mut Out) {
        for (k, v) in &self.0 {
            out.raw(&format!("# stat {} {}", k, v));
        }
    }
}
fn class_of(rhs: &str) -> &str {
    rhs.split(' ').next().unwrap_or("")
}

// ---------------------------------------------------------------------------------------------
// emitting one entry-point call

const ENTRIES: [&str; 5] = ["int", "sint", "local", "slocal", "basic"];

/// calls one entry point on the primitive and prints the line.  `ray` is a world ray for `int`/`sint` and a local
/// ray for the others.
fn emit(
    out: &mut Out,
    st: &mut Stats,
    tag: &str,
    spec: &Spec,
    prim: &Option<Prim>,
    entry: &str,
    ray: &Ray3D,
    oe: Point3D,
    de: Point3D,
) {
    let kind = spec.kind();
    // entry points that do not exist for this primitive fall back to the closest one
    let entry = match (kind, entry) {
        ("sp", "basic") | ("ds", "basic") => "slocal",
        (_, e) => e,
    };
    let lhs = match entry {
        "int" | "sint" => format!("{}.{} {} {}", kind, entry, spec.text(), hray(ray)),
        _ => format!("{}.{} {} {} {} {}", kind, entry, spec.text(), hray(ray), hp(oe), hp(de)),
    };
    let rhs = match prim {
        None => "panic".to_string(),
        Some(p) => guarded(AssertUnwindSafe(|| match entry {
            "int" => hoinfo(&p.intersect(ray)),
            "sint" => hopt(&p.simple_intersect(ray)),
            "local" => hoinfo(&p.local(ray, oe, de)),
            "slocal" => hopt(&p.slocal(ray, oe, de)),
            _ => p.basic(ray, oe, de).unwrap(),
        })),
    };
    st.add(format!("{} {} {}", kind, tag, class_of(&rhs)));
    out.case(&lhs, &rhs);
}

fn zero_pt() -> Point3D {
    Point3D::new(0., 0., 0.)
}

fn small_err(r: &mut Rng) -> Point3D {
    match r.below(4) {
        0 => zero_pt(),
        1 => Point3D::new(r.range(0., 1e-12), r.range(0., 1e-12), r.range(0., 1e-12)),
        2 => Point3D::new(r.range(0., 1e-6), r.range(0., 1e-6), r.range(0., 1e-6)),
        _ => Point3D::new(r.range(0., 1e-3), r.range(0., 1e-3), r.range(0., 1e-3)),
    }
}

// ---------------------------------------------------------------------------------------------
// spec generators

fn pos_mag(r: &mut Rng, lo: f64, hi: f64) -> Float {
    r.logmag(lo, hi).abs()
}

fn any_phi_max(r: &mut Rng) -> Float {
    match r.below(10) {
        0 | 1 | 2 => 360.,
        3 => 180.,
        4 => 90.,
        5 => 270.,
        6 => r.range(1., 359.),
        7 => r.range(0., 720.).min(360.),
        8 => r.pick(&[0., -Float::EPSILON, 360. + Float::EPSILON, -Float::EPSILON / 2.]),
        _ => r.range(5., 355.),
    }
}
fn bad_phi_max(r: &mut Rng) -> Float {
    match r.below(6) {
        0 => -1.,
        1 => 361.,
        2 => -2. * Float::EPSILON,
        3 => 360.0000000000001, // the next float above 360 is 360 + 5.7e-14
        4 => Float::NAN,
        _ => r.range(360.5, 1000.),
    }
}

fn axis_vec(r: &mut Rng) -> Vector3D {
    let s = r.sign();
    match r.below(3) {
        0 => Vector3D::new(s, 0., 0.),
        1 => Vector3D::new(0., s, 0.),
        _ => Vector3D::new(0., 0., s),
    }
}
fn any_dir(r: &mut Rng) -> Vector3D {
    match r.below(4) {
        0 => axis_vec(r),
        1 => r.unit_vec(),
        2 => loop {
            let v = r.vec(5.);
            if v.length() > 0.1 {
                return v;
            }
        },
        _ => {
            // axis with tiny contamination (exercises get_perpendicular's TINY branches)
            let mut v = axis_vec(r);
            let k = r.pick(&[0.5, 0.99, 1.01, 2., 1e3]) as Float * TINY * r.sign();
            match r.below(3) {
                0 => v.x += k,
                1 => v.y += k,
                _ => v.z += k,
            }
            v
        }
    }
}

fn gen_tri(r: &mut Rng) -> Spec {
    loop {
        let sc = r.pick(&[1., 10., 10., 1e3]);
        let (a, b, c) = match r.below(6) {
            0 | 1 => {
                // in a coordinate plane
                let h = r.nice(sc);
                let mk = |r: &mut Rng, k: usize| {
                    let (u, v) = (r.nice(sc), r.nice(sc));
                    match k {
                        0 => Point3D::new(h, u, v),
                        1 => Point3D::new(u, h, v),
                        _ => Point3D::new(u, v, h),
                    }
                };
                let k = r.below(3);
                (mk(r, k), mk(r, k), mk(r, k))
            }
            2 => {
                // sliver
                let a = r.pt(sc);
                let d = r.unit_vec() * (sc as Float);
                let e = r.unit_vec() * (sc as Float * r.pick(&[1e-3, 1e-2, 0.05]) as Float);
                (a, a + d, a + d * (r.range(0.2, 0.8)) + e)
            }
            3 => {
                // right triangle with unit legs (exact arithmetic for the threshold probes)
                let a = Point3D::new(r.nice(4.).round(), r.nice(4.).round(), r.nice(4.).round());
                let (u, v) = match r.below(3) {
                    0 => (Vector3D::new(1., 0., 0.), Vector3D::new(0., 1., 0.)),
                    1 => (Vector3D::new(0., 1., 0.), Vector3D::new(0., 0., 1.)),
                    _ => (Vector3D::new(0., 0., 1.), Vector3D::new(1., 0., 0.)),
                };
                let k = r.pick(&[1., 2., 4., 0.5]) as Float;
                if r.bool() {
                    (a, a + u * k, a + v * k)
                } else {
                    (a, a + v * k, a + u * k)
                }
            }
            _ => (r.pt(sc), r.pt(sc), r.pt(sc)),
        };
        let s = Spec::Tri { a, b, c };
        if s.build().is_some() {
            return s;
        }
    }
}

fn non_parallel(r: &mut Rng, n: Vector3D) -> Vector3D {
    loop {
        let v = any_dir(r);
        let c = n.cross(v).length() / (n.length() * v.length());
        if c > 0.05 {
            return v;
        }
    }
}

fn gen_disk(r: &mut Rng, legal: bool) -> Spec {
    let sc = r.pick(&[1., 10., 10., 100.]);
    let c = if r.below(4) == 0 { zero_pt() } else { r.pt(sc) };
    let n = any_dir(r);
    let rad = if r.bool() { pos_mag(r, 0.05, 20.) } else { r.pick(&[0.5, 1., 2., 4.]) as Float };
    if legal {
        if r.below(3) == 0 {
            return Spec::DiskNew { c, n, r: rad };
        }
        let inner = match r.below(12) {
            0..=3 => 0.,
            4 => rad * (1. - Float::EPSILON), // just legal
            5..=8 => rad * r.range(0.05, 0.95),
            _ => rad * r.pick(&[0.5, 0.25, 0.75]) as Float,
        };
        let pz = match r.below(4) {
            0 => n.get_perpendicular().unwrap_or(Vector3D::new(1., 0., 0.)),
            _ => non_parallel(r, n),
        };
        let pm = match r.below(8) {
            0 => r.range(360., 400.),
            1 => r.range(-10., 0.5),
            _ => any_phi_max(r),
        };
        Spec::DiskDet { c, n, r: rad, inner, pz, pm, tr: prim_chain(r, 4) }
    } else {
        match r.below(8) {
            0 => Spec::DiskNew { c, n: Vector3D::new(0., 0., 0.), r: rad },
            1 => {
                // all components below get_perpendicular's TINY
                let k = r.pick(&[0.5, 0.99]) as Float * TINY;
                Spec::DiskNew { c, n: Vector3D::new(k, -k, k), r: rad }
            }
            2 => Spec::DiskNew { c, n, r: r.pick(&[0., -1., -0.5]) as Float },
            3 => Spec::DiskDet { c, n, r: rad, inner: rad * r.pick(&[1., 1.5]) as Float, pz: non_parallel(r, n), pm: 360., tr: OT::none() },
            4 => Spec::DiskDet { c, n, r: -rad, inner: -2. * rad, pz: non_parallel(r, n), pm: 360., tr: OT::none() },
            5 => Spec::DiskDet { c, n, r: rad, inner: -0.5 * rad, pz: non_parallel(r, n), pm: 360., tr: prim_chain(r, 2) },
            6 => {
                // phi_zero (nearly) parallel to the normal: |dot^2 - |a|^2|b|^2| = sin^2(delta) |pz|^2 around 1e-5
                let nn = n.get_normalized();
                let p = non_parallel(r, nn);
                let perp = (p - nn * (nn * p)).get_normalized();
                let k = r.pick(&[0., 0.5, 0.99, 1.01, 2.]) as Float;
                let delta = (k * 1e-5 as Float).sqrt();
                let l = r.pick(&[1., 1., 2., 0.5]) as Float;
                let pz = (nn + perp * delta) * l * r.sign();
                Spec::DiskDet { c, n, r: rad, inner: 0., pz, pm: 360., tr: OT::none() }
            }
            _ => {
                // phi_zero (nearly) zero: is_zero's 100 EPSILON inside is_parallel; a zero phi_zero is NOT rejected
                let k = r.pick(&[0., 0.5, 0.99, 1.01, 2.]) as Float * TINY;
                Spec::DiskDet { c, n, r: rad, inner: 0., pz: Vector3D::new(k, -k, k * r.sign()), pm: 360., tr: OT::none() }
            }
        }
    }
}

/// zmin/zmax of a sphere of radius `rad`
fn sphere_clip(r: &mut Rng, rad: Float) -> (Float, Float) {
    match r.below(8) {
        0 => (-rad, rad),
        1 => (-2. * rad, 2. * rad),
        2 => (rad * r.range(-0.95, 0.), rad * r.range(0.05, 0.95)),
        3 => (rad * r.range(-0.95, 0.9), rad),
        4 => (-rad, rad * r.range(-0.9, 0.95)),
        5 => (0., rad * 3.),
        6 => {
            let z = rad * r.range(-0.9, 0.9);
            (z, z)
        }
        _ => {
            let a = rad * r.range(-0.95, 0.9);
            (a, a + (rad - a) * r.range(0.05, 0.95))
        }
    }
}

fn gen_sphere(r: &mut Rng, legal: bool, maxchain: usize) -> Spec {
    let rad = if r.bool() { pos_mag(r, 0.05, 20.) } else { r.pick(&[0.5, 1., 2., 4.]) as Float };
    let centre = |r: &mut Rng| -> Point3D {
        match r.below(5) {
            0 => zero_pt(),
            1 => {
                let k = r.pick(&[0.5, 0.99, 1.01, 2.]) as Float * TINY;
                Point3D::new(k * r.sign(), 0.5 * k, -0.25 * k)
            }
            _ => r.pt(10.),
        }
    };
    if legal {
        match r.below(6) {
            0 => Spec::SphNew { r: rad, c: centre(r) },
            1 | 2 => {
                let (zmin, zmax) = sphere_clip(r, rad);
                Spec::SphPartial { r: rad, c: centre(r), zmin, zmax, pm: any_phi_max(r) }
            }
            3 => Spec::SphTr { r: rad, tr: prim_chain(r, maxchain) },
            _ => {
                let (zmin, zmax) = sphere_clip(r, rad);
                Spec::SphPT { r: rad, zmin, zmax, pm: any_phi_max(r), tr: prim_chain(r, maxchain) }
            }
        }
    } else {
        match r.below(7) {
            0 => Spec::SphNew { r: -rad, c: centre(r) }, // zmin = 2r > zmax = -2r
            1 => Spec::SphPartial { r: rad, c: centre(r), zmin: 0.5 * rad, zmax: -0.5 * rad, pm: 360. },
            2 => Spec::SphPartial { r: rad, c: centre(r), zmin: -rad, zmax: rad, pm: bad_phi_max(r) },
            3 => Spec::SphPT { r: -rad, zmin: -1., zmax: 1., pm: 360., tr: OT::none() }, // clamp(-r, r) asserts
            4 => Spec::SphPT { r: Float::NAN, zmin: -1., zmax: 1., pm: 360., tr: OT::none() },
            5 => Spec::SphPT { r: 0., zmin: -1., zmax: 1., pm: 360., tr: prim_chain(r, 2) }, // legal for the constructor: NaN angles
            _ => {
                let z = rad * r.range(-0.5, 0.5);
                Spec::SphPT { r: rad, zmin: z, zmax: z - Float::EPSILON * rad, pm: 180., tr: OT::none() }
            }
        }
    }
}

fn cyl_ends(r: &mut Rng) -> (Point3D, Point3D) {
    let p0 = if r.below(4) == 0 { zero_pt() } else { r.pt(10.) };
    let len = if r.bool() { pos_mag(r, 0.1, 20.) } else { r.pick(&[1., 2., 5.]) as Float };
    let d = match r.below(6) {
        0 => Vector3D::new(0., 0., 1.),
        1 => Vector3D::new(0., 0., -1.),
        2 => axis_vec(r),
        3 => {
            // in a coordinate plane
            let a = r.range(0., 2. * PI);
            match r.below(3) {
                0 => Vector3D::new(a.cos(), a.sin(), 0.),
                1 => Vector3D::new(a.cos(), 0., a.sin()),
                _ => Vector3D::new(0., a.cos(), a.sin()),
            }
        }
        _ => r.unit_vec(),
    };
    (p0, p0 + d * len)
}

fn gen_cyl(r: &mut Rng, legal: bool, maxchain: usize) -> Spec {
    let rad = if r.bool() { pos_mag(r, 0.05, 10.) } else { r.pick(&[0.5, 1., 2.]) as Float };
    if legal {
        match r.below(6) {
            0 | 1 => {
                let (p0, p1) = cyl_ends(r);
                Spec::CylNew { p0, p1, r: rad }
            }
            2 => {
                let (p0, p1) = cyl_ends(r);
                Spec::CylPartial { p0, p1, r: rad, pm: any_phi_max(r) }
            }
            3 => {
                // degenerate axis (p0 == p1): zmin = zmax = 0, atan2(0, 0)
                let p0 = r.pt(5.);
                Spec::CylPartial { p0, p1: p0, r: rad, pm: 360. }
            }
            _ => {
                let zmin = match r.below(3) {
                    0 => 0.,
                    _ => r.nice(5.),
                };
                let zmax = zmin + if r.below(8) == 0 { 0. } else { pos_mag(r, 0.1, 20.) };
                Spec::CylTr { r: rad, zmin, zmax, pm: any_phi_max(r), tr: prim_chain(r, maxchain) }
            }
        }
    } else {
        let (p0, p1) = cyl_ends(r);
        match r.below(4) {
            0 => Spec::CylTr { r: rad, zmin: 1., zmax: r.pick(&[0.5, -1., 1. - Float::EPSILON]) as Float, pm: 360., tr: OT::none() },
            1 => Spec::CylPartial { p0, p1, r: rad, pm: bad_phi_max(r) },
            2 => Spec::CylTr { r: rad, zmin: 0., zmax: 1., pm: bad_phi_max(r), tr: prim_chain(r, 2) },
            _ => Spec::CylNew { p0, p1, r: -rad }, // not rejected by the constructor
        }
    }
}

fn gen_src(r: &mut Rng, legal: bool) -> Spec {
    let d = any_dir(r);
    let angle = if legal {
        match r.below(6) {
            0 => 0.0093,
            1 => r.range(0.001, 0.1),
            2 => r.range(0.1, 3.0),
            3 => r.pick(&[0.5, 1., 2.]) as Float,
            4 => (PI / 2.) as Float,
            _ => pos_mag(r, 1e-4, 3.),
        }
    } else {
        // proxy disk cannot be built: radius = 10 tan(angle/2) <= 0
        match r.below(4) {
            0 => 0.,
            1 => r.range(3.2, 6.2), // tan(angle/2) < 0
            2 => -r.range(0.01, 1.),
            _ => (2. * PI) as Float,
        }
    };
    Spec::Src { d, angle }
}

// ---------------------------------------------------------------------------------------------
// local geometry used for aiming (plain f64 geometry; only the *inputs* matter, never compared)

#[derive(Clone, Copy, Debug, PartialEq)]
enum RK {
    Surf,    // aimed at an interior surface point from outside
    Edge,    // aimed at a clip edge +- margin
    Para,    // triangle: inside the parallelogram but outside the triangle
    Inside,  // origin inside a closed shape (or close to the surface on either side)
    Behind,  // the surface lies behind the origin
    Miss,    // clear miss
    Tangent, // grazing
    Near,    // origin within a few TINY of the surface
    Through, // from outside through the far side of a clipped shape (the near crossing is likely clipped)
    Random,
}

struct Geo {
    centre: Point3D,
    size: f64,
}

fn perp_unit(r: &mut Rng, n: Vector3D) -> Vector3D {
    loop {
        let w = n.cross(r.unit_vec());
        if w.length() > 0.2 * n.length() {
            return w.get_normalized();
        }
    }
}

impl Spec {
    /// sphere: (radius, zmin, zmax clamped, phi_max rad); cylinder: (radius, zmin, zmax, phi_max rad)
    fn quadric(&self) -> Option<(f64, f64, f64, f64)> {
        let pmr = |pm: Float| (pm as f64).max(0.).min(360.).to_radians();
        match self {
            Spec::SphNew { r, .. } | Spec::SphTr { r, .. } => Some((*r as f64, -*r as f64, *r as f64, 2. * PI)),
            Spec::SphPartial { r, zmin, zmax, pm, .. } | Spec::SphPT { r, zmin, zmax, pm, .. } => {
                let ra = (*r as f64).abs();
                Some((*r as f64, (*zmin as f64).max(-ra).min(ra), (*zmax as f64).max(-ra).min(ra), pmr(*pm)))
            }
            Spec::CylNew { p0, p1, r } => Some((*r as f64, 0., (*p1 - *p0).length() as f64, 2. * PI)),
            Spec::CylPartial { p0, p1, r, pm } => Some((*r as f64, 0., (*p1 - *p0).length() as f64, pmr(*pm))),
            Spec::CylTr { r, zmin, zmax, pm, .. } => Some((*r as f64, *zmin as f64, *zmax as f64, pmr(*pm))),
            _ => None,
        }
    }
    fn disk_frame(&self) -> Option<(Point3D, Vector3D, Vector3D, Vector3D, f64, f64, f64)> {
        // centre, normal, e1, e2, radius, inner, phi_max rad
        match self {
            Spec::DiskNew { c, n, r } => {
                let nn = n.get_normalized();
                let pz = n.get_perpendicular().ok()?;
                let e1 = (pz - nn * (nn * pz)).get_normalized();
                Some((*c, nn, e1, nn.cross(e1), *r as f64, 0., 2. * PI))
            }
            Spec::DiskDet { c, n, r, inner, pz, pm, .. } => {
                let nn = n.get_normalized();
                let e1 = (*pz - nn * (nn * *pz)).get_normalized();
                Some((*c, nn, e1, nn.cross(e1), *r as f64, *inner as f64, (*pm as f64).max(0.).min(360.).to_radians()))
            }
            _ => None,
        }
    }
    fn geo(&self) -> Geo {
        match self {
            Spec::Tri { a, b, c } => {
                let g = Point3D::new((a.x + b.x + c.x) / 3., (a.y + b.y + c.y) / 3., (a.z + b.z + c.z) / 3.);
                let s = (*a - g).length().max((*b - g).length()).max((*c - g).length());
                Geo { centre: g, size: s as f64 }
            }
            Spec::DiskNew { c, r, .. } | Spec::DiskDet { c, r, .. } => Geo { centre: *c, size: (*r as f64).abs().max(1e-3) },
            Spec::Src { .. } => Geo { centre: zero_pt(), size: 1. },
            _ => {
                let (rad, zmin, zmax, _) = self.quadric().unwrap();
                let is_cyl = self.kind() == "cy";
                if is_cyl {
                    let h = (zmax - zmin).abs();
                    Geo { centre: Point3D::new(0., 0., ((zmin + zmax) / 2.) as Float), size: (rad.abs() + h / 2.).max(1e-3) }
                } else {
                    Geo { centre: zero_pt(), size: rad.abs().max(1e-3) }
                }
            }
        }
    }
    /// local surface point for normalised parameters; `[0,1]^2` is the surface (triangle: `pu + pv <= 1`)
    fn local_point(&self, pu: f64, pv: f64) -> Point3D {
        match self {
            Spec::Tri { a, b, c } => *a + (*b - *a) * (pu as Float) + (*c - *a) * (pv as Float),
            Spec::DiskNew { .. } | Spec::DiskDet { .. } => match self.disk_frame() {
                Some((c, _n, e1, e2, rad, inner, pm)) => {
                    let phi = pu * pm;
                    let rho = rad - pv * (rad - inner);
                    c + e1 * ((rho * phi.cos()) as Float) + e2 * ((rho * phi.sin()) as Float)
                }
                None => zero_pt(),
            },
            Spec::Src { d, angle } => {
                // a direction at pu * half-angle from the axis
                let dn = d.get_normalized();
                let th = pu * (*angle as f64) / 2.;
                let az = pv * 2. * PI;
                let e1 = dn.get_perpendicular().unwrap_or(Vector3D::new(1., 0., 0.)).get_normalized();
                let e2 = dn.cross(e1);
                let v = dn * (th.cos() as Float) + (e1 * (az.cos() as Float) + e2 * (az.sin() as Float)) * (th.sin() as Float);
                Point3D::new(v.x, v.y, v.z)
            }
            _ => {
                let (rad, zmin, zmax, pm) = self.quadric().unwrap();
                let phi = pu * pm;
                let z = zmin + pv * (zmax - zmin);
                if self.kind() == "cy" {
                    Point3D::new((rad * phi.cos()) as Float, (rad * phi.sin()) as Float, z as Float)
                } else {
                    let z = z.max(-rad.abs()).min(rad.abs());
                    let rho = (rad * rad - z * z).max(0.).sqrt();
                    Point3D::new((rho * phi.cos()) as Float, (rho * phi.sin()) as Float, z as Float)
                }
            }
        }
    }
    /// local unit normal at a surface point
    fn local_normal(&self, p: Point3D) -> Vector3D {
        let v = match self {
            Spec::Tri { a, b, c } => (*b - *a).cross(*c - *a),
            Spec::DiskNew { n, .. } | Spec::DiskDet { n, .. } => *n,
            Spec::Src { d, .. } => *d,
            _ => {
                if self.kind() == "cy" {
                    Vector3D::new(p.x, p.y, 0.)
                } else {
                    Vector3D::new(p.x, p.y, p.z)
                }
            }
        };
        let l = v.length();
        if l > 0. && l.is_finite() {
            v / l
        } else {
            Vector3D::new(0., 0., 1.)
        }
    }
    fn closed(&self) -> bool {
        matches!(self.kind(), "sp" | "cy")
    }
}

fn edge_margin(r: &mut Rng) -> f64 {
    r.pick(&[1e-15, 1e-13, 1e-11, 1e-9, 1e-6, 1e-3, 0.02]) * if r.bool() { 1. } else { -1. }
}

/// (origin, target) in local coordinates
fn local_ray(r: &mut Rng, spec: &Spec, rk: RK) -> (Point3D, Point3D) {
    let g = spec.geo();
    let sz = g.size as Float;
    let is_tri = spec.kind() == "tri";
    let interior = |r: &mut Rng| -> (f64, f64) {
        let (mut u, mut v) = (r.unit(), r.unit());
        if is_tri && u + v > 1. {
            u = 1. - u;
            v = 1. - v;
        }
        (u, v)
    };
    let outside = |r: &mut Rng| -> Point3D {
        let k = if r.below(4) == 0 { r.range(1.02, 1.3) } else { r.range(1.5, 6.) };
        g.centre + r.unit_vec() * (sz * k)
    };
    match rk {
        RK::Surf => {
            let (u, v) = interior(r);
            (outside(r), spec.local_point(u, v))
        }
        RK::Edge => {
            let (mut u, mut v) = interior(r);
            let m = edge_margin(r);
            if is_tri {
                match r.below(4) {
                    0 => u = m,
                    1 => v = m,
                    2 => {
                        // hypotenuse u + v = 1 + m
                        v = 1. + m - u;
                    }
                    _ => {
                        // a vertex
                        let k = r.below(3);
                        u = if k == 1 { 1. + m } else { m };
                        v = if k == 2 { 1. - m } else { -m };
                    }
                }
            } else {
                match r.below(5) {
                    0 => u = m,
                    1 => u = 1. + m,
                    2 => v = m,
                    3 => v = 1. + m,
                    _ => {
                        u = if r.bool() { m } else { 1. + m };
                        v = if r.bool() { edge_margin(r) } else { 1. + edge_margin(r) };
                    }
                }
            }
            (outside(r), spec.local_point(u, v))
        }
        RK::Para => {
            // u, v in [0,1] with u + v > 1
            let (mut u, mut v) = (r.unit(), r.unit());
            if u + v <= 1. {
                u = 1. - u;
                v = 1. - v;
            }
            if !is_tri {
                // quadrics / disk: beyond both edges
                u = 1. + r.range(0.01, 0.5) as f64;
                v = if r.bool() { 1. + r.range(0.01, 0.5) as f64 } else { -(r.range(0.01, 0.5) as f64) };
            }
            (outside(r), spec.local_point(u, v))
        }
        RK::Inside => {
            let (u, v) = interior(r);
            let tgt = spec.local_point(u, v);
            let o = if spec.closed() {
                let (rad, zmin, zmax, _) = spec.quadric().unwrap();
                if spec.kind() == "cy" {
                    let rho = rad.abs() * r.unit().sqrt() * 0.98;
                    let a = r.unit() * 2. * PI;
                    let z = zmin + (zmax - zmin) * r.unit();
                    Point3D::new((rho * a.cos()) as Float, (rho * a.sin()) as Float, z as Float)
                } else {
                    zero_pt() + r.unit_vec() * ((rad.abs() * 0.98 * r.unit()) as Float)
                }
            } else {
                // close to the surface, either side
                let n = spec.local_normal(tgt);
                let (u2, v2) = interior(r);
                spec.local_point(u2, v2) + n * (sz * r.range(-0.5, 0.5))
            };
            (o, tgt)
        }
        RK::Behind => {
            // the ray leaves from `o` away from the target: caller reverses; here give (o, tgt)
            let (u, v) = interior(r);
            (outside(r), spec.local_point(u, v))
        }
        RK::Miss => {
            // passes the bounding ball at >= 1.5 radii
            let o = g.centre + r.unit_vec() * (sz * r.range(2., 6.));
            let w = perp_unit(r, g.centre - o);
            (o, g.centre + w * (sz * r.range(2.5, 6.)))
        }
        RK::Tangent => {
            let m = edge_margin(r);
            if spec.closed() {
                let (rad, zmin, zmax, _) = spec.quadric().unwrap();
                let rad = rad.abs().max(1e-6);
                if spec.kind() == "cy" {
                    let dd = rad * r.range(1.2, 5.) as f64;
                    let a = r.unit() * 2. * PI;
                    let oz = zmin + (zmax - zmin) * (r.range(-0.5, 1.5) as f64);
                    let o = Point3D::new((dd * a.cos()) as Float, (dd * a.sin()) as Float, oz as Float);
                    let (cx, cy) = (-a.cos(), -a.sin());
                    let s = if r.bool() { 1. } else { -1. };
                    let (wx, wy) = (-cy * s, cx * s);
                    let k = rad / dd;
                    let (nx, ny) = (-k * cx + (1. - k * k).sqrt() * wx, -k * cy + (1. - k * k).sqrt() * wy);
                    let z = zmin + (zmax - zmin) * r.unit();
                    let q = Point3D::new((rad * (1. + m) * nx) as Float, (rad * (1. + m) * ny) as Float, z as Float);
                    (o, q)
                } else {
                    let o = outside(r);
                    let oc = zero_pt() - o;
                    let dd = oc.length() as f64;
                    let c = oc / (dd as Float);
                    let w = perp_unit(r, c);
                    let k = (rad / dd).min(1.);
                    let n = c * (-k as Float) + w * ((1. - k * k).max(0.).sqrt() as Float);
                    (o, zero_pt() + n * ((rad * (1. + m)) as Float))
                }
            } else {
                // grazing a flat primitive: origin at a tiny height above an in-plane line through the target
                let (u, v) = interior(r);
                let tgt = spec.local_point(u, v);
                let n = spec.local_normal(tgt);
                let t = perp_unit(r, n);
                let h = sz * (r.pick(&[0., 1e-15, 1e-12, 1e-9, 1e-6, 1e-3]) as Float) * r.sign();
                (tgt + n * h - t * (sz * r.range(0.5, 3.)), tgt)
            }
        }
        RK::Near => {
            let (u, v) = interior(r);
            let tgt = spec.local_point(u, v);
            let n = spec.local_normal(tgt);
            let k = r.pick(&[0., 0.5, 0.99, 1.01, 2., 10., 1e3, 1e6]) as Float * TINY * r.sign();
            // direction mostly along the normal so that t ~ k
            let d = if r.bool() { n } else { (n + perp_unit(r, n) * r.range(0., 0.5)).get_normalized() };
            (tgt - d * k, tgt - d * k + d)
        }
        RK::Through => {
            // aim from outside at a surface point on the far side: target is an interior point, origin on the
            // opposite side of the axis / centre
            let (u, v) = interior(r);
            let tgt = spec.local_point(u, v);
            let n = spec.local_normal(tgt);
            let w = perp_unit(r, n);
            let o = tgt - n * (sz * r.range(2.2, 6.)) + w * (sz * r.range(-0.6, 0.6));
            (o, tgt)
        }
        RK::Random => {
            let o = if r.bool() { outside(r) } else { g.centre + r.unit_vec() * (sz * r.range(0., 1.)) };
            (o, g.centre + r.unit_vec() * (sz * r.range(0., 2.)))
        }
    }
}

/// a small malformed stream: zero / huge / non-finite components
fn maybe_malform(r: &mut Rng, ray: Ray3D) -> Ray3D {
    if r.below(40) != 0 {
        return ray;
    }
    let mut ray = ray;
    match r.below(7) {
        0 => ray.direction = Vector3D::new(0., 0., 0.),
        1 => ray.direction = ray.direction * HUGE,
        2 => ray.direction = ray.direction * (1. / HUGE),
        3 => ray.origin = Point3D::new(ray.origin.x * HUGE, ray.origin.y, ray.origin.z * HUGE.sqrt()),
        4 => ray.direction.y = Float::NAN,
        5 => ray.direction.x = Float::INFINITY,
        _ => ray.origin.z = Float::NEG_INFINITY,
    }
    ray
}

fn finish_dir(r: &mut Rng, d: Vector3D) -> Vector3D {
    match r.below(4) {
        0 => d,
        1 | 2 => {
            let l = d.length();
            if l > 0. {
                d / l
            } else {
                d
            }
        }
        _ => d * r.logmag(0.01, 100.).abs(),
    }
}

/// builds the ray for an entry point: world ray for `int`/`sint` (local points mapped through the primitive's
/// transform), local ray otherwise
fn make_ray(r: &mut Rng, spec: &Spec, prim: &Option<Prim>, entry: &str, rk: RK) -> Ray3D {
    if let Spec::Src { .. } = spec {
        // only the direction matters
        let o = r.pt(10.);
        let d = match rk {
            RK::Surf | RK::Inside | RK::Through | RK::Near => {
                let v = spec.local_point(r.unit(), r.unit());
                Vector3D::new(v.x, v.y, v.z)
            }
            RK::Edge | RK::Tangent | RK::Para => {
                let v = spec.local_point(1. + edge_margin(r), r.unit());
                Vector3D::new(v.x, v.y, v.z)
            }
            RK::Behind => {
                let v = spec.local_point(r.unit(), r.unit());
                Vector3D::new(-v.x, -v.y, -v.z)
            }
            _ => r.unit_vec(),
        };
        let ray = Ray3D { origin: o, direction: finish_dir(r, d) };
        return maybe_malform(r, ray);
    }
    let (o, t) = local_ray(r, spec, rk);
    let world = matches!(entry, "int" | "sint");
    let (o, t) = match (world, prim) {
        (true, Some(p)) => (p.to_world(o), p.to_world(t)),
        _ => (o, t),
    };
    let d = if rk == RK::Behind { o - t } else { t - o };
    let ray = Ray3D { origin: o, direction: finish_dir(r, d) };
    maybe_malform(r, ray)
}

fn gen_spec(r: &mut Rng, kind: usize, legal: bool, maxchain: usize) -> Spec {
    match kind {
        0 => gen_tri(r),
        1 => gen_disk(r, legal),
        2 => gen_sphere(r, legal, maxchain),
        3 => gen_cyl(r, legal, maxchain),
        _ => gen_src(r, legal),
    }
}

// ---------------------------------------------------------------------------------------------
// constructor / quadratic / info lines

fn ctor_line(out: &mut Out, st: &mut Stats, spec: &Spec, prim: &Option<Prim>) {
    let kind = spec.kind();
    let rhs = match prim {
        None => "panic".to_string(),
        Some(Prim::Disk(d)) => format!("ok {} {}", hx(d.area()), hot(d.transform())),
        Some(Prim::Sph(s)) => guarded(AssertUnwindSafe(|| {
            format!(
                "ok {} {} {} {} {} {}",
                hx(s.radius),
                hbox(&s.bounds()),
                hx(s.area()),
                hp(s.centre()),
                hbox(&s.world_bounds()),
                hot(s.transform())
            )
        })),
        Some(Prim::Cyl(c)) => guarded(AssertUnwindSafe(|| {
            format!("ok {} {} {} {}", hbox(&c.bounds()), hx(c.area()), hbox(&c.world_bounds()), hot(c.transform()))
        })),
        Some(Prim::Tri(t)) => {
            out.case(
                &format!("tri.bounds {}", spec.text()),
                &format!("{} {}", hbox(&t.bounds()), hbox(&t.world_bounds())),
            );
            return;
        }
        Some(Prim::Src(s)) => {
            out.case(
                &format!("ds.new {}", spec.text()),
                &format!(
                    "{} {} {} {} {} {}",
                    hv(s.direction), hx(s.omega), hx(s.angle), hx(s.cos_half_alpha), hx(s.tan_half_alpha), hx(s.area())
                ),
            );
            return;
        }
    };
    st.add(format!("{} ctor {}", kind, class_of(&rhs)));
    out.case(&format!("{}.ctor {}", kind, spec.text()), &rhs);
}

fn quad_line(out: &mut Out, spec: &Spec, prim: &Option<Prim>, ray: &Ray3D, oe: Point3D, de: Point3D) {
    let kind = spec.kind();
    let fve = ApproxFloat::from_value_and_error;
    let dx = fve(ray.direction.x, de.x);
    let dy = fve(ray.direction.y, de.y);
    let dz = fve(ray.direction.z, de.z);
    let ox = fve(ray.origin.x, oe.x);
    let oy = fve(ray.origin.y, oe.y);
    let oz = fve(ray.origin.z, oe.z);
    let rhs = match (prim, spec.quadric()) {
        (None, _) | (_, None) => "panic".to_string(),
        (Some(p), Some((rad, _, _, _))) => {
            let (a, b, c) = match p {
                Prim::Sph(s) => {
                    let a = dx * dx + dy * dy + dz * dz;
                    let b = (ox * dx + oy * dy + oz * dz) * 2.;
                    let c = ox * ox + oy * oy + oz * oz - s.radius * s.radius;
                    (a, b, c)
                }
                _ => {
                    let radius = rad as Float;
                    let a = dx * dx + dy * dy;
                    let b = (dx * ox + dy * oy) * 2.;
                    let c = ox * ox + oy * oy - radius * radius;
                    (a, b, c)
                }
            };
            let sol = match ApproxFloat::solve_quadratic(a, b, c) {
                None => "none".to_string(),
                Some((x1, x2)) => format!("some {} {}", ha(x1), ha(x2)),
            };
            format!("{} {} {} {}", ha(a), ha(b), ha(c), sol)
        }
    };
    out.case(&format!("{}.quad {} {} {} {}", kind, spec.text(), hray(ray), hp(oe), hp(de)), &rhs);
}

/// `intersection_info` called directly with an arbitrary point / phi / ray (reaches `NonApplicable`)
fn info_line(r: &mut Rng, out: &mut Out, st: &mut Stats, spec: &Spec, prim: &Option<Prim>) {
    let kind = spec.kind();
    if !matches!(kind, "dk" | "sp" | "cy") {
        return;
    }
    let (u, v) = (r.unit(), r.unit());
    let mut phit = spec.local_point(u, v);
    if r.below(4) == 0 {
        // pole of a sphere / centre of a disk: divisions by zero
        phit = spec.geo().centre + spec.local_normal(phit) * 0.;
        if kind == "sp" {
            if let Some((rad, _, _, _)) = spec.quadric() {
                phit = Point3D::new(0., 0., rad as Float * r.sign());
            }
        }
    }
    let n = spec.local_normal(phit);
    let d = match r.below(4) {
        0 => perp_unit(r, n), // (nearly) perpendicular to the normal
        1 => {
            // exactly perpendicular for axis-aligned normals
            let a = axis_vec(r);
            if (a * n).abs() < 0.5 {
                a
            } else {
                perp_unit(r, n)
            }
        }
        _ => { let uv = r.unit_vec(); finish_dir(r, uv) },
    };
    let ray = Ray3D { origin: r.pt(5.), direction: d };
    let phi = r.range(0., 2. * PI);
    let rhs = match prim {
        None => "panic".to_string(),
        Some(p) => guarded(AssertUnwindSafe(|| hoinfo(&p.info(&ray, phit, phi).unwrap()))),
    };
    if let Some(side) = rhs.split(' ').nth(7) {
        st.add(format!("{} info side{}", kind, side));
    }
    out.case(&format!("{}.info {} {} {} {}", kind, spec.text(), hray(&ray), hp(phit), hx(phi)), &rhs);
}

// ---------------------------------------------------------------------------------------------
// plane, get_side, IntersectionInfo::new / transform

fn plane_cases(r: &mut Rng, out: &mut Out, st: &mut Stats) {
    let exact = r.bool();
    let (p, n) = if exact {
        // axis normal, small integer offset: the arithmetic around the thresholds is exact
        (Point3D::new(r.nice(4.).round(), r.nice(4.).round(), r.nice(4.).round()), axis_vec(r))
    } else {
        (r.pt(10.), any_dir(r))
    };
    let pl = Plane3D::new(p, n);
    out.case(&format!("pl.new {} {}", hp(p), hv(n)), &format!("{} {}", hv(pl.normal), hx(pl.d)));
    let nn = n.get_normalized();
    // test_point: |n.p - d| < EPSILON
    {
        let k = r.pick(&[0., 0.5, 0.99, 1., 1.01, 2., 1e3]) as Float * Float::EPSILON * r.sign();
        let w = perp_unit(r, nn);
        let base = if exact && r.bool() { Point3D::new(0., 0., 0.) + nn * (nn * p) } else { p };
        let q = match r.below(3) {
            0 => base + nn * k,
            1 => base + nn * k + w * r.range(-3., 3.),
            _ => r.pt(10.),
        };
        let res = pl.test_point(q);
        st.add(format!("pl test {}", hb(res)));
        out.case(&format!("pl.test {} {} {}", hp(p), hv(n), hp(q)), hb(res));
    }
    // intersect: |den| < EPSILON ; t < 0
    {
        let w = perp_unit(r, nn);
        let k = r.pick(&[0., 0.5, 0.99, 1., 1.01, 2., 1e3, 1e12]) as Float * Float::EPSILON * r.sign();
        let d = match r.below(4) {
            0 => {
                if exact {
                    // in-plane axis + k * normal
                    let mut a = axis_vec(r);
                    while (a * nn).abs() > 0.5 {
                        a = axis_vec(r);
                    }
                    a + nn * k
                } else {
                    w + nn * k
                }
            }
            1 => { let uv = r.unit_vec(); finish_dir(r, uv) },
            2 => nn * r.sign(),
            _ => r.vec(3.),
        };
        let h = match r.below(4) {
            0 => 0.,
            1 => r.pick(&[1e-300, 1e-16, 1e-12]) as Float * r.sign(),
            _ => r.range(-5., 5.),
        };
        let o = p + nn * h + w * r.range(-3., 3.);
        let ray = Ray3D { origin: o, direction: d };
        let res = pl.intersect(&ray);
        st.add(format!("pl int {}", if res.is_some() { "some" } else { "none" }));
        out.case(
            &format!("pl.int {} {} {}", hp(p), hv(n), hray(&ray)),
            &match res {
                None => "none".to_string(),
                Some(t) => format!("some {}", hx(t)),
            },
        );
    }
}

fn side_cases(r: &mut Rng, out: &mut Out, st: &mut Stats) {
    let n = match r.below(3) {
        0 => axis_vec(r),
        1 => r.unit_vec(),
        _ => r.vec(3.),
    };
    let d = match r.below(4) {
        0 => axis_vec(r),
        1 => {
            let w = perp_unit(r, if n.length() > 0. { n } else { Vector3D::new(0., 0., 1.) });
            w
        }
        2 => Vector3D::new(0., 0., 0.),
        _ => { let uv = r.unit_vec(); finish_dir(r, uv) },
    };
    let (nn, s) = SurfaceSide::get_side(n, d);
    st.add(format!("side {}", side_code(s)));
    out.case(&format!("side {} {}", hv(n), hv(d)), &format!("{} {}", hv(nn), side_code(s)));
    // IntersectionInfo::new
    let ray = Ray3D { origin: r.pt(5.), direction: d };
    let p = r.pt(5.);
    let (dpdu, dpdv) = match r.below(4) {
        0 => (axis_vec(r), axis_vec(r)), // possibly parallel: zero cross product, NaN normal
        _ => (r.vec(3.), r.vec(3.)),
    };
    let z = Vector3D::new(0., 0., 0.);
    let info = IntersectionInfo::new(&ray, p, r.range(0., 1.), r.range(0., 1.), dpdu, dpdv, r.vec(1.), r.vec(1.), z);
    out.case(&format!("info.new {} {} {} {}", hray(&ray), hp(p), hv(dpdu), hv(dpdv)), &hinfo(&info));
    // transform / inv_transform
    let (t, ts) = any_chain(r, 4, 10.);
    let a = info.transform(&t);
    let b = info.inv_transform(&t);
    out.case(&format!("info.tr {} {}", ts, hinfo(&info)), &format!("{} {}", hinfo(&a), hinfo(&b)));
}

// ---------------------------------------------------------------------------------------------
// exact threshold probes for Möller–Trumbore

fn tri_probes(r: &mut Rng, out: &mut Out, st: &mut Stats) {
    // right triangle a, a+k e1, a+k e2 in a coordinate plane: N = k^2 e3, determinant a = -d.N ... all exact
    let k = r.pick(&[1., 2., 0.5]) as Float;
    let a0 = Point3D::new(r.nice(3.).round(), r.nice(3.).round(), 0.);
    let (b0, c0) = (a0 + Vector3D::new(k, 0., 0.), a0 + Vector3D::new(0., k, 0.));
    let spec = Spec::Tri { a: a0, b: b0, c: c0 };
    let prim = spec.build();
    let zero = zero_pt();
    let f = r.pick(&[0.5, 0.99, 1., 1.01, 2., 100.]) as Float * r.sign();
    match r.below(3) {
        0 => {
            // |a| around TINY: direction almost in the plane, det = -dz * k^2
            let dz = f * TINY / (k * k);
            let tgt = a0 + Vector3D::new(0.25 * k, 0.25 * k, 0.);
            let d = Vector3D::new(1., 0.5, dz);
            let o = tgt - d * r.pick(&[1., 2., 0.5]) as Float;
            let ray = Ray3D { origin: o, direction: d };
            emit(out, st, "probe-det", &spec, &prim, r.pick(&["basic", "int", "slocal"]), &ray, zero, zero);
        }
        1 => {
            // t around TINY: unit direction along -z, origin at height f*TINY
            let tgt = a0 + Vector3D::new(0.25 * k, 0.5 * k, 0.);
            let o = tgt + Vector3D::new(0., 0., f * TINY);
            let ray = Ray3D { origin: o, direction: Vector3D::new(0., 0., -1.) };
            emit(out, st, "probe-t", &spec, &prim, r.pick(&["basic", "int", "local"]), &ray, zero, zero);
        }
        _ => {
            // u, v, u+v exactly at / next to the range ends: vertical ray through exactly representable points
            let e = r.pick(&[0., 1., -1., 4., -4.]) as Float * Float::EPSILON;
            let (u, v) = match r.below(5) {
                0 => (e, 0.25),
                1 => (1. + e, 0.),
                2 => (0.25, e),
                3 => (0.5 + e, 0.5),
                _ => (0., 1. + e),
            };
            let tgt = a0 + Vector3D::new(u * k, v * k, 0.);
            let s = r.sign();
            let o = tgt + Vector3D::new(0., 0., 2. * s);
            let ray = Ray3D { origin: o, direction: Vector3D::new(0., 0., -s) };
            emit(out, st, "probe-uv", &spec, &prim, r.pick(&["basic", "int", "sint"]), &ray, zero, zero);
        }
    }
}

/// sphere pole guard: |x|,|y| < 1e-5 * radius
fn pole_probe(r: &mut Rng, out: &mut Out, st: &mut Stats) {
    // round radii, and arbitrary ones: for about one radius in ten the hit point re-projected onto the sphere has |z| one ulp
    // above the radius, so that the polar angle is only defined thanks to the clamp of its cosine
    let rad = if r.bool() { r.pick(&[1., 2., 0.5, 3.7]) as Float } else { r.range(0.05, 5.) };
    let spec = if r.bool() {
        Spec::SphNew { r: rad, c: zero_pt() }
    } else {
        Spec::SphPT { r: rad, zmin: -rad, zmax: rad, pm: r.pick(&[360., 180.]) as Float, tr: OT::none() }
    };
    let prim = spec.build();
    let f = r.pick(&[0., 0.5, 0.99, 1.01, 2.]) as Float;
    let lim = 1e-5 * rad;
    let (x, y) = match r.below(3) {
        0 => (f * lim, 0.5 * lim),
        1 => (0.5 * lim * r.sign(), f * lim * r.sign()),
        _ => (f * lim * r.sign(), f * lim * r.sign()),
    };
    // exactly along the axis one time in four
    let (x, y) = if r.below(4) == 0 { (0., 0.) } else { (x, y) };
    let s = r.sign();
    // from outside towards the pole, or from inside (far root) towards it
    let ray = if r.below(3) == 0 {
        Ray3D { origin: Point3D::new(x, y, 0.25 * rad * s), direction: Vector3D::new(0., 0., s) }
    } else {
        Ray3D { origin: Point3D::new(x, y, 3. * rad * s), direction: Vector3D::new(0., 0., -s) }
    };
    let zero = zero_pt();
    emit(out, st, "probe-pole", &spec, &prim, r.pick(&["local", "slocal", "int", "sint"]), &ray, zero, zero);
}

// ---------------------------------------------------------------------------------------------
// groups

fn pick_kind(r: &mut Rng) -> usize {
    // tri, disk, sphere, cylinder, source
    r.pick(&[0, 0, 0, 1, 1, 1, 2, 2, 2, 2, 3, 3, 3, 3, 4])
}

fn one_case(r: &mut Rng, out: &mut Out, st: &mut Stats, rks: &[RK], maxchain: usize) {
    let kind = pick_kind(r);
    let legal = r.below(20) != 0;
    let spec = gen_spec(r, kind, legal, maxchain);
    let prim = spec.build();
    if r.below(8) == 0 {
        ctor_line(out, st, &spec, &prim);
    }
    let reps = 1 + r.below(3);
    for _ in 0..reps {
        let entry = r.pick(&ENTRIES);
        let rk = r.pick(rks);
        let ray = make_ray(r, &spec, &prim, entry, rk);
        let (oe, de) = if matches!(entry, "int" | "sint") { (zero_pt(), zero_pt()) } else { (small_err(r), small_err(r)) };
        emit(out, st, &format!("{:?}", rk), &spec, &prim, entry, &ray, oe, de);
        if matches!(spec.kind(), "sp" | "cy") && r.below(6) == 0 {
            quad_line(out, &spec, &prim, &ray, oe, de);
        }
    }
    if r.below(10) == 0 {
        info_line(r, out, st, &spec, &prim);
    }
}

/// "every reported hit is a true hit": emphasis on rays near the boundary of the hit set
pub fn c02(r: &mut Rng, out: &mut Out, n: usize) {
    let mut st = Stats::new();
    let rks = [
        RK::Surf, RK::Surf, RK::Edge, RK::Edge, RK::Edge, RK::Para, RK::Para, RK::Inside, RK::Near, RK::Tangent,
        RK::Tangent, RK::Through, RK::Behind, RK::Miss, RK::Random,
    ];
    for i in 0..n {
        match i % 16 {
            0 => plane_cases(r, out, &mut st),
            1 => tri_probes(r, out, &mut st),
            2 => side_cases(r, out, &mut st),
            3 => pole_probe(r, out, &mut st),
            _ => one_case(r, out, &mut st, &rks, 4),
        }
    }
    st.dump(out);
}

/// "clear hits are reported, nearest first; clear misses are not"
pub fn c03(r: &mut Rng, out: &mut Out, n: usize) {
    let mut st = Stats::new();
    let rks = [
        RK::Surf, RK::Surf, RK::Surf, RK::Surf, RK::Inside, RK::Inside, RK::Through, RK::Through, RK::Behind,
        RK::Behind, RK::Miss, RK::Miss, RK::Miss, RK::Random, RK::Edge, RK::Tangent,
    ];
    for i in 0..n {
        match i % 24 {
            0 => plane_cases(r, out, &mut st),
            1 => tri_probes(r, out, &mut st),
            2 => pole_probe(r, out, &mut st),
            _ => one_case(r, out, &mut st, &rks, 4),
        }
    }
    st.dump(out);
}

/// "surface data coherent": pairs of opposite rays reaching the same surface point from both sides
pub fn c13(r: &mut Rng, out: &mut Out, n: usize) {
    let mut st = Stats::new();
    for i in 0..(n + 1) / 2 {
        // rays through (or next to) a pole of the sphere: the parametrisation is singular there
        if i % 10 == 0 {
            pole_probe(r, out, &mut st);
        }
        let kind = r.pick(&[0, 0, 1, 1, 2, 2, 2, 3, 3, 3, 4]);
        let legal = r.below(40) != 0;
        let spec = gen_spec(r, kind, legal, 4);
        let prim = spec.build();
        let entry = r.pick(&["int", "int", "int", "local"]);
        if let Spec::Src { .. } = spec {
            // same direction from two origins, or opposite directions
            let rk = r.pick(&[RK::Surf, RK::Surf, RK::Edge]);
            let ray = make_ray(r, &spec, &prim, entry, rk);
            let ray2 = if r.bool() {
                Ray3D { origin: r.pt(10.), direction: ray.direction }
            } else {
                Ray3D { origin: ray.origin, direction: -ray.direction }
            };
            emit(out, &mut st, "pairA", &spec, &prim, entry, &ray, zero_pt(), zero_pt());
            emit(out, &mut st, "pairB", &spec, &prim, entry, &ray2, zero_pt(), zero_pt());
            continue;
        }
        let g = spec.geo();
        let sz = g.size as Float;
        let (mut u, mut v) = (r.unit(), r.unit());
        if kind == 0 && u + v > 1. {
            u = 1. - u;
            v = 1. - v;
        }
        let p = spec.local_point(u, v);
        let nrm = spec.local_normal(p);
        // a direction crossing the surface at p (pointing against the normal)
        let d = match r.below(4) {
            0 => -nrm,
            _ => (-nrm + perp_unit(r, nrm) * r.range(0., 1.5)).get_normalized(),
        };
        // A comes from the normal's side; B from the other side (inside a closed shape when s2 is small)
        let s1 = sz * r.range(0.3, 4.);
        let s2 = if spec.closed() && r.below(3) != 0 { sz * r.range(0.02, 0.4) } else { sz * r.range(0.3, 4.) };
        let (oa, ob) = (p - d * s1, p + d * s2);
        let world = entry == "int";
        let map = |q: Point3D| match (&prim, world) {
            (Some(pr), true) => pr.to_world(q),
            _ => q,
        };
        let (pw, oaw, obw) = (map(p), map(oa), map(ob));
        let unit = r.bool();
        let fin = |v: Vector3D| if unit && v.length() > 0. { v.get_normalized() } else { v };
        let ra = Ray3D { origin: oaw, direction: fin(pw - oaw) };
        let rb = Ray3D { origin: obw, direction: fin(pw - obw) };
        let (oe, de) = if world { (zero_pt(), zero_pt()) } else { (small_err(r), small_err(r)) };
        emit(out, &mut st, "pairA", &spec, &prim, entry, &ra, oe, de);
        emit(out, &mut st, "pairB", &spec, &prim, entry, &rb, oe, de);
    }
    st.dump(out);
}

/// bounds / world_bounds together with a hit point of `simple_intersect` on the same primitive
pub fn c15b(r: &mut Rng, out: &mut Out, n: usize) {
    let mut st = Stats::new();
    let rks = [RK::Surf, RK::Surf, RK::Surf, RK::Edge, RK::Inside, RK::Through, RK::Tangent, RK::Random, RK::Miss];
    for _ in 0..n {
        match r.below(3) {
            0 => {
                // a triangle carried by a chain: the vertices are transformed with the crate, then the triangle is built
                let (t, ts) = any_chain(r, 6, 10.);
                let (spec0, a, b, c) = match gen_tri(r) {
                    Spec::Tri { a, b, c } => (Spec::Tri { a, b, c }, a, b, c),
                    _ => unreachable!(),
                };
                let (aw, bw, cw) = (t.transform_pt(a), t.transform_pt(b), t.transform_pt(c));
                let specw = Spec::Tri { a: aw, b: bw, c: cw };
                let prim = match specw.build() {
                    Some(p) => Some(p),
                    None => continue, // degenerate after a singular scale: Triangle3D::new refuses it
                };
                let rk = r.pick(&rks);
                let ray = make_ray(r, &specw, &prim, "sint", rk);
                if let Some(Prim::Tri(tri)) = &prim {
                    let hit = tri.simple_intersect(&ray);
                    st.add(format!("bh tri {}", if hit.is_some() { "some" } else { "none" }));
                    out.case(
                        &format!("bh.tri {} {} {}", ts, spec0.text(), hray(&ray)),
                        &format!(
                            "{} {} {} {} {} {}",
                            hp(aw), hp(bw), hp(cw), hbox(&tri.bounds()), hbox(&tri.world_bounds()), hopt(&hit)
                        ),
                    );
                }
            }
            k => {
                let legal = r.below(30) != 0;
                let spec = if k == 1 { gen_sphere(r, legal, 6) } else { gen_cyl(r, legal, 6) };
                let prim = spec.build();
                let rk = r.pick(&rks);
                let ray = make_ray(r, &spec, &prim, "sint", rk);
                let rhs = match &prim {
                    None => "panic".to_string(),
                    Some(Prim::Sph(s)) => {
                        format!("{} {} {}", hbox(&s.bounds()), hbox(&s.world_bounds()), hopt(&s.simple_intersect(&ray)))
                    }
                    Some(Prim::Cyl(s)) => {
                        format!("{} {} {}", hbox(&s.bounds()), hbox(&s.world_bounds()), hopt(&s.simple_intersect(&ray)))
                    }
                    _ => unreachable!(),
                };
                st.add(format!("bh {} {}", spec.kind(), rhs.split(' ').nth(12).unwrap_or("panic")));
                out.case(&format!("bh.{} {} {}", spec.kind(), spec.text(), hray(&ray)), &rhs);
            }
        }
    }
    st.dump(out);
}
