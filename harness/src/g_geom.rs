//! generators for the segment / triangle / loop / polygon / json layer: C19 C04 C05 C10 C11 C12 C20
use crate::common::*;
use crate::polygen::*;
use geometry3d::{Loop3D, Point3D, Polygon3D, Ray3D, Segment3D, Triangle3D, Vector3D};
use std::panic::AssertUnwindSafe;

const EPS: f64 = Float::EPSILON as f64;
/// the four probe factors around a threshold
const FS: [f64; 4] = [0.5, 0.99, 1.01, 2.0];

fn probe(r: &mut Rng) -> f64 {
    match r.below(10) {
        0 => 1.0,
        1 => 0.999999,
        2 => 1.000001,
        _ => r.pick(&FS),
    }
}

fn hbb(b: &geometry3d::BBox3D) -> String {
    format!("{} {}", hp(b.min), hp(b.max))
}
fn hseg(s: &Segment3D) -> String {
    format!("{} {} {}", hp(s.start), hp(s.end), hx(s.length))
}
fn h2(a: Point3D, b: Point3D) -> String {
    format!("{} {}", hp(a), hp(b))
}
fn res_b(r: Result<bool, String>) -> String {
    match r {
        Ok(b) => format!("ok {}", hb(b)),
        Err(_) => "err".into(),
    }
}
fn opt_n(o: Option<usize>) -> String {
    match o {
        None => "-".into(),
        Some(n) => format!("{}", n),
    }
}
fn ulps(x: Float, k: i64) -> Float {
    let mut y = x;
    for _ in 0..k.abs() {
        y = if k > 0 {
            geometry3d::round_error::verif_next_float_up(y)
        } else {
            geometry3d::round_error::verif_next_float_down(y)
        };
    }
    y
}
fn v2p(v: Vector3D) -> Point3D {
    Point3D::new(v.x, v.y, v.z)
}
fn p2v(v: Point3D) -> Vector3D {
    Vector3D::new(v.x, v.y, v.z)
}

// =================================================================================================
// C19  vector / segment / triangle predicates

/// a frame whose origin is exactly 0 (so that tiny probe quantities survive) or any frame
fn probe_frame(r: &mut Rng) -> Frame {
    let mut f = any_frame(r);
    if r.below(3) != 0 {
        f.o = Point3D::new(0., 0., 0.);
    }
    f
}

fn c19_vec(r: &mut Rng, out: &mut Out) {
    let tiny = 100. * EPS;
    let a = match r.below(6) {
        0 => r.unit_vec(),
        1 => r.vec(1e3),
        2 => {
            // components around the is_zero / get_perpendicular threshold
            let mut c = [0.0 as Float; 3];
            for k in 0..3 {
                c[k] = match r.below(4) {
                    0 => 0.,
                    1 => (tiny * probe(r)) as Float * r.sign(),
                    2 => (tiny * 1e-3) as Float,
                    _ => r.nice(2.),
                };
            }
            Vector3D::new(c[0], c[1], c[2])
        }
        3 => {
            let f = any_frame(r);
            f.u * r.nice(5.) // axis-aligned with 1e-16 noise
        }
        _ => r.vec(10.),
    };
    let b = match r.below(8) {
        0 => a * r.nice(3.),           // parallel / antiparallel / zero
        1 => a * r.nice(3.) + r.vec(1e-3), // nearly parallel
        2 => {
            // |a x b|^2 around the 1e-5 threshold of is_parallel: unit vectors at a small angle
            let n = a.get_normalized();
            let p = match n.get_perpendicular() {
                Ok(p) => p.get_normalized(),
                Err(_) => Vector3D::new(1., 0., 0.),
            };
            let s = (1e-5 * probe(r)).sqrt() as Float;
            (n + p * s) * r.sign()
        }
        3 => {
            // compare(): componentwise 1e-5
            let mut d = [0.0 as Float; 3];
            for k in 0..3 {
                d[k] = if r.bool() { (1e-5 * probe(r)) as Float * r.sign() } else { r.range(-1e-5, 1e-5) };
            }
            a + Vector3D::new(d[0], d[1], d[2])
        }
        4 => a,
        _ => r.vec(10.),
    };
    let s = match r.below(5) {
        0 => 0.,
        1 => -1.,
        _ => r.nice(10.),
    };
    let (pa, pb) = (v2p(a), v2p(b));
    match r.below(9) {
        0 => out.case(&format!("vec.cross {} {}", hv(a), hv(b)), &hv(a.cross(b))),
        1 => out.case(&format!("vec.len {}", hv(a)), &format!("{} {}", hx(a.length()), hx(a.length_squared()))),
        2 => {
            let mut m = a;
            m.normalize();
            assert!(hv(m) == hv(a.get_normalized()));
            out.case(&format!("vec.norm {}", hv(a)), &hv(m));
        }
        3 => {
            assert!(a.is_zero() == pa.is_zero());
            out.case(&format!("vec.zero {}", hv(a)), hb(a.is_zero()));
        }
        4 => {
            assert!(a.compare(b) == pa.compare(pb));
            out.case(&format!("vec.cmp {} {}", hv(a), hv(b)), hb(a.compare(b)));
        }
        5 => out.case(
            &format!("vec.par {} {}", hv(a), hv(b)),
            &format!("{} {}", hb(a.is_parallel(b)), hb(a.is_same_direction(b))),
        ),
        6 => out.case(
            &format!("vec.perp {}", hv(a)),
            &match a.get_perpendicular() {
                Ok(v) => format!("ok {}", hv(v)),
                Err(_) => "err".into(),
            },
        ),
        7 => {
            // all operator impls of Vector3D and Point3D share these bodies; check they agree, print once
            let add = a + b;
            let sub = a - b;
            let neg = -a;
            let mul = a * s;
            let div = a / s;
            let dot = a * b;
            let same = |x: String, y: String| assert!(x == y, "operator impls differ");
            same(hv(add), hp(pa + b));
            same(hv(add), hp(pa + pb));
            same(hv(sub), hv(pa - pb));
            same(hv(sub), hp(pa - b));
            same(hx(dot), hx(pa * b));
            same(hx(dot), hx(pa * pb));
            same(hx(dot), hx(a * pb));
            same(hv(mul), hp(pa * s));
            same(hv(div), hp(pa / s));
            let mut t = a;
            t += b;
            same(hv(add), hv(t));
            let mut t = a;
            t -= b;
            same(hv(sub), hv(t));
            let mut t = a;
            t *= s;
            same(hv(mul), hv(t));
            let mut t = a;
            t /= s;
            same(hv(div), hv(t));
            let mut t = pa;
            t += pb;
            same(hv(add), hp(t));
            let mut t = pa;
            t += b;
            same(hv(add), hp(t));
            let mut t = pa;
            t -= b;
            same(hv(sub), hp(t));
            let mut t = pa;
            t *= s;
            same(hv(mul), hp(t));
            let mut t = pa;
            t /= s;
            same(hv(div), hp(t));
            out.case(
                &format!("vec.ops {} {} {}", hv(a), hv(b), hx(s)),
                &format!("{} {} {} {} {} {} {}", hv(add), hv(sub), hv(neg), hv(mul), hv(div), hx(dot), hv(a.abs())),
            );
        }
        _ => out.case(
            &format!("pt.dist {} {}", hp(pa), hp(pb)),
            &format!("{} {}", hx(pa.distance(pb)), hx(pa.squared_distance(pb))),
        ),
    }
}

fn c19_collinear(r: &mut Rng, out: &mut Out) {
    let f = probe_frame(r);
    let l1 = r.pick(&[0.5, 1., 2., 7.3]);
    let l2 = r.pick(&[0.25, 1., 3., 5.1]);
    let a = f.place((0., 0.));
    let b = f.place((l1, 0.));
    let c = match r.below(8) {
        0 => f.place((l1 + l2, 0.)),
        1 => f.place((l1 * r.unit(), 0.)),
        2 => {
            // |ab x bc| = |ab| * height  around 1e-5
            let h = 1e-5 * probe(r) / l1;
            f.place((l1 + l2, h * r.sign() as f64))
        }
        3 => a,
        4 => b,
        5 => {
            // c within the compare() tolerance of a or b
            let d = 1e-5 * probe(r);
            let base = if r.bool() { (0., 0.) } else { (l1, 0.) };
            f.place_h((base.0 + d * r.sign() as f64, base.1), if r.bool() { d * 0.5 } else { 0. })
        }
        _ => f.place_h((r.range(-5., 5.) as f64, r.range(-5., 5.) as f64), r.range(-1., 1.) as f64),
    };
    let b = if r.below(12) == 0 {
        // all three (nearly) equal
        let d = 1e-5 * probe(r);
        f.place((d, 0.))
    } else {
        b
    };
    let (a, b, c) = match r.below(3) {
        0 => (a, b, c),
        1 => (c, a, b),
        _ => (b, c, a),
    };
    out.case(
        &format!("pt.col {} {} {}", hp(a), hp(b), hp(c)),
        &res_b(a.is_collinear(b, c)),
    );
}

/// a pair of segments from the C19 input space, in a random frame
fn seg_pair(r: &mut Rng) -> (Point3D, Point3D, Point3D, Point3D) {
    let f = probe_frame(r);
    let ang = r.unit() * 6.283;
    let (ca, sa) = (ang.cos(), ang.sin());
    let la = r.pick(&[0.3, 1., 2., 4.5, 10.]);
    let lb = r.pick(&[0.3, 1., 2., 4.5, 10.]);
    // first segment: from p0 along direction (ca, sa)
    let p0 = (r.range(-3., 3.) as f64, r.range(-3., 3.) as f64);
    let p1 = (p0.0 + la * ca, p0.1 + la * sa);
    let at = |t: f64| (p0.0 + t * (p1.0 - p0.0), p0.1 + t * (p1.1 - p0.1));
    let ang2 = ang + 0.2 + r.unit() * 2.7; // crossing angle in (0.2, 2.9)
    let (cb, sb) = (ang2.cos(), ang2.sin());
    // second segment through point x of the first one's line, with parameter tb at that point
    let through = |x: (f64, f64), tb: f64| {
        let q0 = (x.0 - tb * lb * cb, x.1 - tb * lb * sb);
        let q1 = (q0.0 + lb * cb, q0.1 + lb * sb);
        (q0, q1)
    };
    let kind = r.below(16);
    let (q0, q1, h0, h1): (P2, P2, f64, f64) = match kind {
        0 | 1 => {
            // coplanar crossing at interior parameters
            let (q0, q1) = through(at(r.unit()), r.unit());
            (q0, q1, 0., 0.)
        }
        2 => {
            // coplanar, lines cross outside one of the segments
            let ta = if r.bool() { 1. + r.unit() * 2. } else { -r.unit() * 2. };
            let tb = if r.bool() { r.unit() } else { 1. + r.unit() };
            let (q0, q1) = through(at(ta), tb);
            (q0, q1, 0., 0.)
        }
        3 => {
            // parallel, laterally offset (same or opposite direction)
            let off = r.pick(&[1e-9, 1e-6, 1e-3, 0.1, 1.]);
            let s = r.unit() * 1.5 - 0.5;
            let q0 = (at(s).0 - off * sa, at(s).1 + off * ca);
            let q1 = (q0.0 + lb * ca, q0.1 + lb * sa);
            if r.bool() {
                (q0, q1, 0., 0.)
            } else {
                (q1, q0, 0., 0.)
            }
        }
        4 => {
            // collinear: overlapping / contained / disjoint / identical / reversed
            let (s, e) = match r.below(6) {
                0 => (r.unit() * 0.5, 0.5 + r.unit() * 0.5), // contained
                1 => (0., 1.),
                2 => (1., 0.),
                3 => (0.5, 1.5),
                4 => (1.2, 2.),
                _ => (-0.5, 1.5), // contains the first
            };
            (at(s), at(e), 0., 0.)
        }
        5 => {
            // skew: crossing in projection, lifted by h in 1e-9 .. 1
            let (q0, q1) = through(at(r.unit()), r.unit());
            let h = r.logmag(1e-9, 1.) as f64;
            (q0, q1, h, h)
        }
        6 => {
            // skew with the supporting lines about 1e-5 apart (coplanarity threshold)
            let (q0, q1) = through(at(r.unit()), r.unit());
            let h = 1e-5 * probe(r);
            (q0, q1, h, h)
        }
        7 => {
            // sharing an end point
            let e = if r.bool() { p0 } else { p1 };
            let other = (e.0 + lb * cb, e.1 + lb * sb);
            if r.bool() {
                (e, other, 0., 0.)
            } else {
                (other, e, 0., 0.)
            }
        }
        8 => {
            // T-junction exactly at an end point of the second segment (t_b = 0 or 1)
            let x = at(r.unit());
            let (q0, q1) = through(x, if r.bool() { 0. } else { 1. });
            (q0, q1, 0., 0.)
        }
        9 => {
            // T-junction: an end point of the first lies on the second (t_a = 0 or 1)
            let (q0, q1) = through(if r.bool() { p0 } else { p1 }, r.unit());
            (q0, q1, 0., 0.)
        }
        10 => {
            // t_b around 1e-8 and 1 - 1e-8 (the "barely touches" range of intersect)
            let tb = if r.bool() { 1e-8 * probe(r) } else { 1. - 1e-8 * probe(r) };
            let (q0, q1) = through(at(r.unit()), tb);
            (q0, q1, 0., 0.)
        }
        11 => {
            // t_a around 0 and 1
            let ta = match r.below(4) {
                0 => 1e-9 * r.sign() as f64,
                1 => 1. + 1e-9 * r.sign() as f64,
                2 => 1e-17,
                _ => 1. - 1e-16,
            };
            let (q0, q1) = through(at(ta), r.unit());
            (q0, q1, 0., 0.)
        }
        12 => {
            // nearly (anti)parallel: |a x b|^2 around 1e-5, or |a x b| around 1e-5
            let target = if r.bool() { (1e-5 * probe(r)).sqrt() } else { 1e-5 * probe(r) };
            let s = (target / (la * lb)).min(1.0);
            let th = ang + s.asin();
            let (c2, s2) = (th.cos(), th.sin());
            let x = at(r.unit());
            let tb = r.unit();
            let q0 = (x.0 - tb * lb * c2, x.1 - tb * lb * s2);
            let q1 = (q0.0 + lb * c2, q0.1 + lb * s2);
            if r.bool() {
                (q0, q1, 0., 0.)
            } else {
                (q1, q0, 0., 0.)
            }
        }
        13 => {
            // zero-length / tiny second segment
            let x = at(r.unit());
            let l = match r.below(4) {
                0 => 0.,
                1 => 1e-6 * probe(r),
                2 => EPS * probe(r),
                _ => 1e-5 * probe(r),
            };
            (x, (x.0 + l * cb, x.1 + l * sb), 0., 0.)
        }
        14 => {
            // second segment tilted out of the plane (one end in the plane)
            let (q0, q1) = through(at(r.unit()), r.unit());
            (q0, q1, 0., r.logmag(1e-9, 1.) as f64)
        }
        _ => {
            let q0 = (r.range(-5., 5.) as f64, r.range(-5., 5.) as f64);
            let q1 = (r.range(-5., 5.) as f64, r.range(-5., 5.) as f64);
            (q0, q1, r.range(-1., 1.) as f64, r.range(-1., 1.) as f64)
        }
    };
    let (a0, a1) = (f.place(p0), f.place(p1));
    let (b0, b1) = (f.place_h(q0, h0), f.place_h(q1, h1));
    if r.bool() {
        (a0, a1, b0, b1)
    } else {
        (b0, b1, a0, a1)
    }
}

/// the plane of the two segments is tilted so that one component of a x b sits around the 1e-5 branch threshold
fn seg_pair_tilted(r: &mut Rng) -> (Point3D, Point3D, Point3D, Point3D) {
    // a and b unit-ish vectors spanning a plane with normal (1, 0, eps) / (eps, 1, 0)...
    let e = 1e-5 * probe(r);
    let (u, v) = match r.below(3) {
        // normal = u x v
        0 => (Vector3D::new(0., 1., 0.), Vector3D::new(-e as Float, 0., 1.)), // n = (1, 0, e)
        1 => (Vector3D::new(0., 0., 1.), Vector3D::new(1., -e as Float, 0.)), // n = (e, 1, 0)
        _ => (Vector3D::new(e as Float, 1., 0.), Vector3D::new(0., 0., 1.)),  // n = (1, -e, 0)
    };
    let o = Point3D::new(0., 0., 0.);
    let a0 = o;
    let a1 = o + u;
    let x = o + u * r.range(0.1, 0.9);
    let tb = r.range(0.1, 0.9);
    let b0 = x - v * tb;
    let b1 = b0 + v;
    (a0, a1, b0, b1)
}

fn c19_seg(r: &mut Rng, out: &mut Out) {
    let (a0, a1, b0, b1) = if r.below(12) == 0 { seg_pair_tilted(r) } else { seg_pair(r) };
    let s = Segment3D::new(a0, a1);
    let o = Segment3D::new(b0, b1);
    match r.below(6) {
        0 => out.case(
            &format!("seg.new {}", h2(a0, a1)),
            &format!(
                "{} {} {} {}",
                hseg(&s),
                hv(s.as_vector3d()),
                hv(s.as_reversed_vector3d()),
                hp(s.midpoint())
            ),
        ),
        1 => {
            // compare: equal / reversed / end points within 1e-5
            let d = Vector3D::new(
                (1e-5 * probe(r)) as Float * r.sign(),
                r.range(-1e-5, 1e-5),
                r.range(-1e-5, 1e-5),
            );
            let (c0, c1) = match r.below(6) {
                0 => (a0, a1),
                1 => (a1, a0),
                2 => (a0 + d, a1),
                3 => (a1, a0 + d),
                4 => (a1 + d, a0 - d),
                _ => (b0, b1),
            };
            let o = Segment3D::new(c0, c1);
            out.case(&format!("seg.cmp {} {}", h2(a0, a1), h2(c0, c1)), hb(s.compare(&o)));
        }
        2 => out.case(
            &format!("seg.cont {} {}", h2(a0, a1), h2(b0, b1)),
            &res_b(s.contains(&o)),
        ),
        3 | 4 => out.case(
            &format!("seg.ipt {} {}", h2(a0, a1), h2(b0, b1)),
            &match s.get_intersection_pt(&o) {
                None => "none".into(),
                Some((ta, tb)) => format!("some {} {}", hx(ta), hx(tb)),
            },
        ),
        _ => {
            let sentinel = Point3D::new(7., 7., 7.);
            let mut p = sentinel;
            let i = s.intersect(&o, &mut p);
            let mut q = sentinel;
            let t = s.touches(&o, &mut q);
            let sh = |b: bool, p: Point3D| {
                if b {
                    format!("1 {}", hp(p))
                } else {
                    assert!(hp(p) == hp(sentinel));
                    "0".to_string()
                }
            };
            out.case(
                &format!("seg.int {} {}", h2(a0, a1), h2(b0, b1)),
                &format!("{} {}", sh(i, p), sh(t, q)),
            );
        }
    }
}

/// segment × point (contains_point), and contains() threshold probes
fn c19_seg_point(r: &mut Rng, out: &mut Out) {
    let f = probe_frame(r);
    let len = r.pick(&[0.5, 1., 3., 10.]);
    let kind = r.below(12);
    let (a, b): (Point3D, Point3D) = match kind {
        0 => {
            // degenerate / EPSILON-length segment starting at the origin (exact small components)
            let l = match r.below(3) {
                0 => 0.,
                _ => EPS * probe(r),
            } as Float;
            let d = match r.below(4) {
                0 => Vector3D::new(l, 0., 0.),
                1 => Vector3D::new(0., l, 0.),
                2 => Vector3D::new(0., 0., l),
                _ => Vector3D::new(l, l, l),
            };
            (Point3D::new(0., 0., 0.), v2p(d))
        }
        1 => {
            // ties between the components (dominant-component selection)
            let c = [0., 1., -1.];
            let d = Vector3D::new(
                (r.pick(&c) * len) as Float,
                (r.pick(&c) * len) as Float,
                (r.pick(&c) * len) as Float,
            );
            let o = if r.bool() { Point3D::new(0., 0., 0.) } else { r.pt(5.) };
            (o, o + d)
        }
        2 => {
            // contains(): the x (or y) component of a long segment is around TINY = 1e-6
            let e = (1e-6 * probe(r)) as Float * r.sign();
            let d = match r.below(3) {
                0 => Vector3D::new(e, len as Float, 0.),
                1 => Vector3D::new(e, e * 0.5, len as Float),
                _ => Vector3D::new(0., e, len as Float),
            };
            (Point3D::new(0., 0., 0.), v2p(d))
        }
        3 => {
            // contains(): |self| around 1e-6
            let l = 1e-6 * probe(r);
            (f.place((0., 0.)), f.place((l, 0.)))
        }
        4 | 5 => {
            // a segment along one coordinate axis whose other two components carry rounding noise (a few ulps, as a right-angle
            // rotation leaves behind): the component used to interpolate along the segment must be the dominant one
            let major = r.below(3);
            let mut pa = [r.nice(8.) as Float, r.nice(8.) as Float, r.nice(8.) as Float];
            for k in 0..3 {
                if pa[k] == 0. {
                    pa[k] = 6.3;
                }
            }
            let mut pb = pa;
            pb[major] = pa[major] + (len as Float) * r.sign();
            for k in 0..3 {
                if k != major {
                    pb[k] = ulps(pa[k], r.below(4) as i64 - 1);
                }
            }
            (Point3D::new(pa[0], pa[1], pa[2]), Point3D::new(pb[0], pb[1], pb[2]))
        }
        _ => (f.place((0., 0.)), f.place((len, 0.))),
    };
    let noisy_axis = kind == 4 || kind == 5;
    let ab = b - a;
    let dirn = if ab.length() > 0. { ab.get_normalized() } else { f.u };
    let perp = match dirn.get_perpendicular() {
        Ok(p) => p.get_normalized(),
        Err(_) => f.v,
    };
    let t = match r.below(10) {
        0 => 0.,
        1 => 1.,
        2 => ulps(1., r.below(3) as i64 + 1) as f64,
        3 => -(EPS * 0.25),
        4 => 1. + r.unit(),
        5 => -r.unit(),
        _ => r.unit(),
    };
    let on = a + ab * (t as Float);
    let p = match r.below(7) {
        0 => on,
        1 => {
            // perpendicular offset with |(b-a) x (p-a)| around 1e-5 (collinearity tolerance)
            let l = ab.length() as f64;
            let h = if l > 0. { 1e-5 * probe(r) / l } else { 1e-5 * probe(r) };
            on + perp * (h as Float)
        }
        2 => a,
        3 => b,
        4 => on + perp * r.logmag(1e-9, 1.),
        5 => {
            // within compare() tolerance of an end point
            let e = if r.bool() { a } else { b };
            e + perp * ((1e-5 * probe(r)) as Float * 0.5) + dirn * ((1e-5 * probe(r)) as Float)
        }
        _ => on,
    };
    // on a noisy axis segment: the query's minor components are the start's, a few ulps off the other way
    let p = if noisy_axis && r.bool() {
        let tt = if r.bool() { 0.2 + 0.6 * r.unit() } else { r.pick(&[1.5, 2.5, -0.5, -3.]) };
        let on = a + ab * (tt as Float);
        let mut q = [on.x, on.y, on.z];
        let aa = [a.x, a.y, a.z];
        let abv = [ab.x, ab.y, ab.z];
        for k in 0..3 {
            if abv[k].abs() < 1e-9 {
                q[k] = ulps(aa[k], 1 - r.below(4) as i64);
            }
        }
        Point3D::new(q[0], q[1], q[2])
    } else {
        p
    };
    let s = Segment3D::new(a, b);
    if r.below(3) != 0 {
        out.case(&format!("seg.cpt {} {}", h2(a, b), hp(p)), &res_b(s.contains_point(p)));
    } else {
        // second segment along the first, with end points chosen like p
        let q = a + ab * (r.pick(&[0., 1., 0.5, 1. + EPS, -EPS, 0.25, 2.]) as Float);
        let (c, d) = if r.bool() { (p, q) } else { (q, p) };
        let o = Segment3D::new(c, d);
        out.case(&format!("seg.cont {} {}", h2(a, b), h2(c, d)), &res_b(s.contains(&o)));
    }
}


/// exact (origin-based, axis-aligned) probes for the tolerances inside contains_point / contains
fn c19_seg_probe(r: &mut Rng, out: &mut Out) {
    let o = Point3D::new(0., 0., 0.);
    let ax = |k: usize, x: Float| match k {
        0 => Vector3D::new(x, 0., 0.),
        1 => Vector3D::new(0., x, 0.),
        _ => Vector3D::new(0., 0., x),
    };
    match r.below(5) {
        0 => {
            // contains_point on a segment of length ~EPSILON, query point far away (so that is_collinear says Ok(true))
            let l = (EPS * probe(r)) as Float * r.sign();
            let k = r.below(3);
            let b = match r.below(3) {
                0 => v2p(ax(k, l)),
                1 => Point3D::new(l, l, l),
                _ => v2p(ax(k, l) + ax((k + 1) % 3, l * 0.5)),
            };
            let p = match r.below(3) {
                0 => v2p(ax(k, r.pick(&[1., -1., 0.5]))),
                1 => r.pt(3.),
                _ => v2p(ax(k, l * 0.5)),
            };
            let s = Segment3D::new(o, b);
            out.case(&format!("seg.cpt {} {}", h2(o, b), hp(p)), &res_b(s.contains_point(p)));
        }
        1 => {
            // ties between |ab| components; point at an end (or inside), displaced sideways within the collinearity tolerance,
            // so that the parameters along different axes fall on different sides of 0 / 1
            let len = r.pick(&[0.5, 1., 3.]) as Float;
            let c = [0., 1., -1.];
            let d = Vector3D::new(r.pick(&c) as Float * len, r.pick(&c) as Float * len, r.pick(&c) as Float * len);
            let d = if r.below(4) == 0 {
                // near-ties
                Vector3D::new(d.x, ulps(d.y, r.below(3) as i64 - 1), d.z)
            } else {
                d
            };
            let t = r.pick(&[0., 1., 0.5, 1e-7, 1. - 1e-7]) as Float;
            let l = d.length() as f64;
            let e = if l > 0. { (r.pick(&[1e-6, 3e-6, 1e-5 * 0.99, 1e-5 * 1.01]) / l) as Float } else { 1e-6 };
            let off = match r.below(4) {
                0 => Vector3D::new(e, 0., 0.),
                1 => Vector3D::new(0., -e, 0.),
                2 => Vector3D::new(0., 0., e),
                _ => Vector3D::new(-e, e, 0.),
            };
            let p = o + d * t + off;
            let s = Segment3D::new(o, v2p(d));
            out.case(&format!("seg.cpt {} {}", h2(o, v2p(d)), hp(p)), &res_b(s.contains_point(p)));
        }
        2 => {
            // contains(): first non-negligible component of a long segment around TINY = 1e-6; the other segment's
            // end points are displaced in that component (within the collinearity tolerance) so the branch taken shows
            let len = r.pick(&[0.5, 1., 3.]) as Float;
            let e = (1e-6 * probe(r)) as Float * r.sign();
            let (d, k) = match r.below(3) {
                0 => (Vector3D::new(e, len, 0.), 0),
                1 => (Vector3D::new(e, 0., len), 0),
                _ => (Vector3D::new(0., e, len), 1),
            };
            let dl = (r.pick(&[3e-6, -3e-6, 8e-6]) / len as f64) as Float;
            let (t1, t2) = (r.pick(&[0., 0.25, 0.5]) as Float, r.pick(&[1., 0.75, 0.5]) as Float);
            let c0 = o + d * t1 + ax(k, dl);
            let c1 = o + d * t2 + if r.bool() { ax(k, dl) } else { ax(k, 0.) };
            let s = Segment3D::new(o, v2p(d));
            let oth = Segment3D::new(c0, c1);
            out.case(&format!("seg.cont {} {}", h2(o, v2p(d)), h2(c0, c1)), &res_b(s.contains(&oth)));
        }
        3 => {
            // contains(): |self| around 1e-6, axis-aligned and exact; other segment collinear, far from / near the origin
            let k = r.below(3);
            let l = (1e-6 * probe(r)) as Float;
            let b = if r.below(3) == 0 {
                // |self| >= 1e-6 but every component below 1e-6: the "should never get here" Err of contains()
                v2p(ax(k, l * 0.8) + ax((k + 1) % 3, l * 0.8))
            } else {
                v2p(ax(k, l))
            };
            let (c0, c1) = match r.below(3) {
                0 => (v2p(ax(k, l * 0.25)), v2p(ax(k, l * 0.75))),
                1 => (v2p(ax(k, 1.)), v2p(ax(k, 2.))),
                _ => (v2p(ax(k, l * 0.5)), v2p(ax(k, 1.))),
            };
            let s = Segment3D::new(o, b);
            let oth = Segment3D::new(c0, c1);
            out.case(&format!("seg.cont {} {}", h2(o, b), h2(c0, c1)), &res_b(s.contains(&oth)));
        }
        _ => {
            // intersect(): t_b exactly / nearly 1e-8 and 1 - 1e-8 with exact axis-aligned data:
            // a = (0,-1,0)->(0,1,0) crosses b = (-t,0,0)->(1-t,0,0) at parameter t of b
            let t = match r.below(4) {
                0 => 1e-8,
                1 => 1. - 1e-8,
                2 => 1e-8 * probe(r),
                _ => 1. - 1e-8 * probe(r),
            } as Float;
            let k = r.below(3);
            let (u, v) = (ax(k, 1.), ax((k + 1) % 3, 1.));
            let (a0, a1) = (o - v, o + v);
            let (b0, b1) = (o - u * t, o + u * (1. - t));
            let (s, oth) = (Segment3D::new(a0, a1), Segment3D::new(b0, b1));
            let sentinel = Point3D::new(7., 7., 7.);
            let (mut p, mut q) = (sentinel, sentinel);
            let i = s.intersect(&oth, &mut p);
            let tt = s.touches(&oth, &mut q);
            let sh = |b: bool, p: Point3D| if b { format!("1 {}", hp(p)) } else { "0".to_string() };
            out.case(
                &format!("seg.int {} {}", h2(a0, a1), h2(b0, b1)),
                &format!("{} {}", sh(i, p), sh(tt, q)),
            );
        }
    }
}

fn tri_result(t: &Triangle3D) -> String {
    format!(
        "{} {} {} {} {} {} {} {}",
        hv(t.normal()),
        hx(t.area()),
        hx(t.circumradius()),
        hx(t.aspect_ratio()),
        hx(t.aspect_ratio()),
        hp(t.circumcenter()),
        hp(t.centroid()),
        hbb(&t.bounds())
    )
}

fn any_triangle(r: &mut Rng) -> (Frame, Point3D, Point3D, Point3D) {
    let f = probe_frame(r);
    let a = (r.range(-3., 3.) as f64, r.range(-3., 3.) as f64);
    let l1 = r.pick(&[0.2, 1., 3., 8.]);
    let th = r.unit() * 6.283;
    let b = (a.0 + l1 * th.cos(), a.1 + l1 * th.sin());
    let c = match r.below(10) {
        0 => {
            // collinear within tolerance: |ab x bc| around 1e-5
            let h = 1e-5 * probe(r) / l1;
            let t = 1. + r.unit();
            (a.0 + t * (b.0 - a.0) - h * th.sin(), a.1 + t * (b.1 - a.1) + h * th.cos())
        }
        1 => {
            // c within compare() of a or b
            let e = if r.bool() { a } else { b };
            (e.0 + 1e-5 * probe(r) * r.sign() as f64, e.1 + 0.5e-5 * r.unit())
        }
        2 => {
            // needle / cap shapes
            let h = r.logmag(1e-4, 1e-1) as f64;
            let t = r.unit();
            (a.0 + t * (b.0 - a.0) - h * th.sin(), a.1 + t * (b.1 - a.1) + h * th.cos())
        }
        _ => {
            let l2 = r.pick(&[0.2, 1., 3., 8.]);
            let th2 = th + 0.15 + r.unit() * 2.8;
            let s = r.sign() as f64;
            (a.0 + l2 * (s * th2).cos(), a.1 + l2 * (s * th2).sin())
        }
    };
    let b = if r.below(25) == 0 { (a.0 + 1e-5 * probe(r), a.1) } else { b };
    (f, f.place(a), f.place(b), f.place(c))
}

fn c19_tri(r: &mut Rng, out: &mut Out) {
    let (f, a, b, c) = any_triangle(r);
    let abc = format!("{} {} {}", hp(a), hp(b), hp(c));
    let tr = std::panic::catch_unwind(|| Triangle3D::new(a, b, c));
    let with = |g: &dyn Fn(&Triangle3D) -> String| -> String {
        match &tr {
            Err(_) => "panic".into(),
            Ok(Err(_)) => "err".into(),
            Ok(Ok(t)) => format!("ok {}", g(t)),
        }
    };
    let tiny = 100. * EPS;
    match r.below(8) {
        0 => out.case(&format!("tri.new {}", abc), &with(&|t| tri_result(t))),
        1 | 2 | 3 => {
            // query point by barycentric coordinates
            let e1 = b - a;
            let e2 = c - a;
            let bary = |r: &mut Rng| -> (f64, f64) {
                match r.below(12) {
                    0 => (0., 0.),
                    1 => (1., 0.),
                    2 => (0., 1.),
                    3 => (r.unit(), 0.),
                    4 => (0., r.unit()),
                    5 => {
                        let t = r.unit();
                        (t, 1. - t)
                    }
                    6 => (r.range(-0.5, 1.5) as f64, r.range(-0.5, 1.5) as f64),
                    _ => {
                        let (x, y) = (r.unit(), r.unit());
                        if x + y > 1. {
                            (1. - x, 1. - y)
                        } else {
                            (x, y)
                        }
                    }
                }
            };
            let (mut al, mut be) = bary(r);
            // threshold probes: shift a coordinate by ±f·100ε
            match r.below(5) {
                0 => al += tiny * probe(r) * r.sign() as f64,
                1 => be += tiny * probe(r) * r.sign() as f64,
                2 => {
                    let d = tiny * probe(r) * r.sign() as f64;
                    al += d * 0.5;
                    be += d * 0.5;
                }
                _ => {}
            }
            let mut p = a + e1 * (al as Float) + e2 * (be as Float);
            if r.below(10) == 0 {
                p = p + f.n * r.logmag(1e-9, 1.);
            }
            if r.below(12) == 0 {
                p = r.pick(&[a, b, c]);
            }
            out.case(
                &format!("tri.tp {} {}", abc, hp(p)),
                &with(&|t| format!("{}", t.test_point(p) as u8)),
            );
        }
        4 => {
            let i = r.below(5);
            out.case(
                &format!("tri.idx {} {}", abc, i),
                &with(&|t| {
                    format!(
                        "{} {}",
                        match t.vertex(i) {
                            Ok(v) => format!("ok {}", hp(v)),
                            Err(_) => "err".into(),
                        },
                        match t.segment(i) {
                            Ok(s) => format!("ok {}", hseg(&s)),
                            Err(_) => "err".into(),
                        }
                    )
                }),
            );
        }
        5 => {
            let vs = [a, b, c];
            let i = r.below(3);
            let j = r.below(3);
            let d = Vector3D::new((1e-5 * probe(r)) as Float * r.sign(), r.range(-1e-5, 1e-5), 0.);
            let p = if r.bool() { vs[i] } else { vs[i] + d };
            let q = match r.below(4) {
                0 => r.pt(5.),
                1 => vs[j] + d,
                _ => vs[j],
            };
            out.case(
                &format!("tri.edge {} {} {}", abc, hp(p), hp(q)),
                &with(&|t| {
                    format!(
                        "{} {} {}",
                        opt_n(t.get_edge_index_from_segment(&Segment3D::new(p, q))),
                        opt_n(t.get_edge_index_from_points(p, q)),
                        hb(t.has_vertex(p))
                    )
                }),
            );
        }
        6 => {
            let d = Vector3D::new((1e-5 * probe(r)) as Float * r.sign(), 0., r.range(-1e-5, 1e-5));
            let perm = r.below(6);
            let vs = [a, b, c];
            let ix = [[0, 1, 2], [1, 2, 0], [2, 0, 1], [0, 2, 1], [2, 1, 0], [1, 0, 2]][perm];
            let (mut d0, d1, mut d2) = (vs[ix[0]], vs[ix[1]], vs[ix[2]]);
            match r.below(4) {
                0 => d0 = d0 + d,
                1 => d2 = r.pt(5.),
                _ => {}
            }
            let t2 = std::panic::catch_unwind(|| Triangle3D::new(d0, d1, d2));
            let res = match (&tr, &t2) {
                (Ok(Ok(s)), Ok(Ok(t))) => format!("ok {}", hb(s.compare(t))),
                _ => "err".into(),
            };
            out.case(&format!("tri.cmp {} {} {} {}", abc, hp(d0), hp(d1), hp(d2)), &res);
        }
        _ => c19_mt(r, out, &f, a, b, c),
    }
}

fn c19_mt(r: &mut Rng, out: &mut Out, f: &Frame, a: Point3D, b: Point3D, c: Point3D) {
    let tiny = 100. * EPS;
    let e1 = b - a;
    let e2 = c - a;
    let (mut u, mut v) = match r.below(10) {
        0 => (0., 0.),
        1 => (1., 0.),
        2 => (0., 1.),
        3 => (r.unit(), 0.),
        4 => (0., r.unit()),
        5 => {
            let t = r.unit();
            (t, 1. - t)
        }
        6 => (r.range(-0.5, 1.5) as f64, r.range(-0.5, 1.5) as f64),
        7 => {
            // in the parallelogram but beyond the diagonal
            let (x, y) = (r.unit(), r.unit());
            if x + y > 1. {
                (x, y)
            } else {
                (1. - x, 1. - y)
            }
        }
        _ => {
            let (x, y) = (r.unit(), r.unit());
            if x + y > 1. {
                (1. - x, 1. - y)
            } else {
                (x, y)
            }
        }
    };
    if r.below(4) == 0 {
        u += EPS * r.pick(&[-1., 1., 4., -4.]);
        v += EPS * r.pick(&[0., 1., -1.]);
    }
    let target = a + e1 * (u as Float) + e2 * (v as Float);
    let n = e1.cross(e2);
    let nl = n.length();
    let nn = if nl > 0. { n / nl } else { f.n };
    let (origin, direction) = match r.below(8) {
        0 => {
            // ray (nearly) parallel to the plane: a = e1·(d×e2) = -d·n around ±TINY
            let d_in = (e1 * r.range(-1., 1.) + e2 * r.range(-1., 1.)).get_normalized();
            let k = (tiny * probe(r)) as Float / (if nl > 0. { nl } else { 1. }) * r.sign();
            let d = d_in + nn * k;
            (target - d * r.range(0.5, 2.), d)
        }
        1 => {
            // origin just in front of the plane: t around TINY
            let d = nn * r.sign();
            let t = (tiny * probe(r)) as Float;
            (target - d * t, d)
        }
        2 => {
            // origin behind / on the plane
            let d = (nn * r.sign() + r.unit_vec() * 0.3).get_normalized();
            let t = r.pick(&[0., -1., -1e-9]) as Float;
            (target - d * t, d)
        }
        3 => {
            // unnormalised direction
            let d = nn * r.sign() * r.range(0.1, 10.) + r.vec(1.);
            (target - d * r.range(0.1, 3.), d)
        }
        _ => {
            let o = target + nn * (r.sign() * r.range(0.1, 5.)) + r.vec(2.);
            let d = target - o;
            let d = if r.bool() { d.get_normalized() } else { d };
            (o, d)
        }
    };
    let ray = Ray3D { origin, direction };
    out.case(
        &format!("tri.mt {} {} {} {} {}", hp(origin), hv(direction), hp(a), hp(b), hp(c)),
        // `intersect_triangle` itself is not exported: reach it through `Triangle3D::basic_intersection`
        &match std::panic::catch_unwind(|| Triangle3D::new(a, b, c)) {
            Err(_) => "panic".into(),
            Ok(Err(_)) => "err".into(),
            Ok(Ok(t)) => {
                let z = Point3D::new(0., 0., 0.);
                match t.basic_intersection(&ray, z, z) {
                    None => "ok none".into(),
                    Some((p, u, v)) => format!("ok some {} {} {}", hp(p), hx(u), hx(v)),
                }
            }
        },
    );
}

pub fn c19(r: &mut Rng, out: &mut Out, n: usize) {
    for _ in 0..n {
        match r.below(11) {
            0 | 1 => c19_vec(r, out),
            2 => c19_collinear(r, out),
            3 | 4 | 5 => c19_seg(r, out),
            6 => c19_seg_point(r, out),
            7 => c19_seg_probe(r, out),
            _ => c19_tri(r, out),
        }
    }
}

// =================================================================================================
// shared helpers for loops and polygons

/// observable state of a loop: `closed n verts… normal [area perimeter]`
fn loop_state(l: &Loop3D) -> String {
    let mut s = format!("{} {} {}", hb(l.closed()), hpts(l.vertices()), hv(l.normal()));
    if l.closed() {
        s.push_str(&format!(" {} {}", hx(l.area().unwrap()), hx(l.perimeter().unwrap())));
    }
    s
}

/// push all + close; `None` when any call fails (the driver replays exactly this)
fn build_raw(pts: &[Point3D]) -> Option<Loop3D> {
    let mut l = build_raw_open(pts)?;
    l.close().ok()?;
    Some(l)
}
fn build_raw_open(pts: &[Point3D]) -> Option<Loop3D> {
    let mut l = Loop3D::new();
    for p in pts {
        l.push(*p).ok()?;
    }
    Some(l)
}
fn build_raw_polygon(outer: &[Point3D], holes: &[Vec<Point3D>]) -> Option<Polygon3D> {
    let o = build_raw(outer)?;
    let mut pg = Polygon3D::new(o).ok()?;
    for h in holes {
        let hl = build_raw(h)?;
        pg.cut_hole(hl).ok()?;
    }
    Some(pg)
}
fn hholes(holes: &[Vec<Point3D>]) -> String {
    let mut s = format!("{}", holes.len());
    for h in holes {
        s.push(' ');
        s.push_str(&hpts(h));
    }
    s
}
fn res_str<T>(r: std::thread::Result<Result<T, String>>, f: impl Fn(&T) -> String) -> String {
    match r {
        Err(_) => "panic".into(),
        Ok(Err(_)) => "err".into(),
        Ok(Ok(t)) => format!("ok {}", f(&t)),
    }
}
fn catch<T>(f: impl FnOnce() -> T) -> std::thread::Result<T> {
    std::panic::catch_unwind(AssertUnwindSafe(f))
}
fn mid(a: P2, b: P2) -> P2 {
    ((a.0 + b.0) * 0.5, (a.1 + b.1) * 0.5)
}
fn lerp(a: P2, b: P2, t: f64) -> P2 {
    (a.0 + (b.0 - a.0) * t, a.1 + (b.1 - a.1) * t)
}
fn dist2(a: P2, b: P2) -> f64 {
    ((a.0 - b.0).powi(2) + (a.1 - b.1).powi(2)).sqrt()
}

/// big outlines (polygen's rejection sampling of angles does not terminate for many vertices):
/// evenly spaced angles with jitter, radius constant-ish ellipse (convex-like) or varying (star)
fn big_outline(r: &mut Rng, n: usize, starlike: bool) -> Vec<P2> {
    let two_pi = 2. * std::f64::consts::PI;
    let ph = r.unit() * two_pi;
    let (rx, ry) = (4. + 6. * r.unit(), 4. + 6. * r.unit());
    (0..n)
        .map(|i| {
            let t = ph + (i as f64 + 0.6 * (r.unit() - 0.5)) * two_pi / n as f64;
            let k = if starlike { 0.55 + 0.45 * r.unit() } else { 1. };
            (k * rx * t.cos(), k * ry * t.sin())
        })
        .collect()
}

/// an outline with 3..=maxv vertices from the polygen families (+ big convex / star outlines up to 60)
fn any_outline(r: &mut Rng, maxv: usize) -> Vec<P2> {
    match r.below(16) {
        0 | 1 if maxv >= 20 => {
            let n = 12 + r.below(maxv - 12 + 1);
            let o = big_outline(r, n, r.0 & 16 == 0);
            let o = reverse_if(r, o);
            rotate_start(r, o)
        }
        _ => any_poly2(r, maxv.min(24), 0).outer,
    }
}

// =================================================================================================
// C04  loop construction histories

#[derive(Clone, Copy)]
enum Step {
    P(Point3D),
    C,
}

fn run_history(out: &mut Out, steps: &[Step]) {
    let mut lhs = format!("loop.hist {}", steps.len());
    for s in steps {
        match s {
            Step::P(p) => lhs.push_str(&format!(" P {}", hp(*p))),
            Step::C => lhs.push_str(" C"),
        }
    }
    let mut l = Loop3D::new();
    let mut res: Vec<String> = vec![];
    for s in steps {
        let r = catch(|| match s {
            Step::P(p) => l.push(*p),
            Step::C => l.close(),
        });
        match r {
            Err(_) => {
                res.push("panic".into());
                break;
            }
            Ok(Ok(())) => res.push(format!("ok {}", loop_state(&l))),
            Ok(Err(_)) => res.push(format!("err {}", loop_state(&l))),
        }
    }
    out.case(&lhs, &res.join(" | "));
}

/// history items before placement: a 2-D point with a height above the plane, or a close
#[derive(Clone, Copy)]
enum Item {
    P(P2, f64),
    C,
}

fn c04_history(r: &mut Rng) -> Vec<Step> {
    let f = any_frame(r);
    let base = any_outline(r, 60);
    let n = base.len();
    let mut items: Vec<Item> = base.iter().map(|p| Item::P(*p, 0.)).collect();
    let mut closes_at_end = 1;
    let nm = r.pick(&[0, 1, 1, 1, 2, 3]);
    for _ in 0..nm {
        let len = items.len();
        // positions are re-read from `items` so that mutations compose
        let pt = |items: &Vec<Item>, i: usize| -> P2 {
            match items[i % items.len()] {
                Item::P(p, _) => p,
                Item::C => (0., 0.),
            }
        };
        let where_ = r.below(3); // start / middle / end
        let i = match where_ {
            0 => 0,
            1 => 1 + r.below(len.max(3) - 2),
            _ => len - 1,
        }
        .min(len - 1);
        match r.below(14) {
            0 => {
                // redundant collinear point(s)
                let k = 1 + r.below(2);
                match where_ {
                    0 => {
                        // first pushed point lies inside the closing edge
                        for j in 0..k {
                            let q = lerp(pt(&items, len - 1), pt(&items, 0), (j as f64 + 1.) / (k as f64 + 1.));
                            items.insert(j, Item::P(q, 0.));
                        }
                    }
                    2 => {
                        for j in 0..k {
                            let q = lerp(pt(&items, len - 1), pt(&items, 0), (j as f64 + 1.) / (k as f64 + 2.));
                            items.push(Item::P(q, 0.));
                        }
                    }
                    _ => {
                        for j in 0..k {
                            let q = lerp(pt(&items, i), pt(&items, i + 1), (j as f64 + 1.) / (k as f64 + 1.));
                            items.insert(i + 1 + j, Item::P(q, 0.));
                        }
                    }
                }
            }
            1 => {
                // the same point 2 or 3 times in a row
                let k = 1 + r.below(2);
                let it = items[i];
                for _ in 0..k {
                    items.insert(i, it);
                }
            }
            2 => {
                // nearly the same point (compare() tolerance 1e-5)
                let p = pt(&items, i);
                let d = 1e-5 * probe(r);
                let q = (p.0 + d * r.sign() as f64, p.1 + r.range(-1., 1.) as f64 * d * 0.5);
                items.insert(i + r.below(2), Item::P(q, 0.));
            }
            3 => {
                // candidate edge clearly crossing an earlier edge
                if i >= 3 {
                    let j = r.below(i - 2);
                    let m = mid(pt(&items, j), pt(&items, j + 1));
                    let p = pt(&items, i);
                    let t = r.pick(&[1.5, 2., 1.05]);
                    let q = (p.0 + (m.0 - p.0) * t, p.1 + (m.1 - p.1) * t);
                    items.insert(i + 1, Item::P(q, 0.));
                }
            }
            4 => {
                // candidate edge ending on / just before / just across an earlier edge (t_a of the new edge ~ 1)
                if i >= 3 {
                    let j = r.below(i - 2);
                    let tb = r.pick(&[0.5, 0., 1., 1e-8, 1. - 1e-8, 0.5e-8, 2e-8]);
                    let m = lerp(pt(&items, j), pt(&items, j + 1), tb);
                    let p = pt(&items, i);
                    let t = r.pick(&[1., 1. - 1e-9, 1. + 1e-9]);
                    let q = (p.0 + (m.0 - p.0) * t, p.1 + (m.1 - p.1) * t);
                    items.insert(i + 1, Item::P(q, 0.));
                }
            }
            5 => {
                // off-plane point at 0.5x / 0.99x / 1.01x / 2x the 1e-7 tolerance, or clearly off
                let h = match r.below(4) {
                    0 => r.pick(&[0.1, 1., -0.5, 1e-3]),
                    _ => 1e-7 * probe(r) * r.sign() as f64,
                };
                let k = if r.below(5) == 0 { r.below(3.min(len)) } else { i };
                if let Item::P(p, _) = items[k] {
                    if r.bool() {
                        items[k] = Item::P(p, h);
                    } else {
                        // an extra off-plane point
                        let q = mid(p, pt(&items, k + 1));
                        items.insert(k + 1, Item::P(q, h));
                    }
                }
            }
            6 => {
                // closing too early
                let k = r.below(3).min(len);
                items.insert(k, Item::C);
            }
            7 => {
                // closing in the middle, pushes after close
                items.insert(i + 1, Item::C);
            }
            8 => {
                closes_at_end = r.pick(&[0, 2, 3]);
            }
            9 => {
                // spike: out to a tip and back to the same vertex (re-traced edge)
                let p = pt(&items, i);
                let c = (0., 0.);
                let tip = if r.bool() {
                    (p.0 + (p.0 - c.0) * 0.3, p.1 + (p.1 - c.1) * 0.3)
                } else {
                    (p.0 + (c.0 - p.0) * 0.3, p.1 + (c.1 - p.1) * 0.3)
                };
                items.insert(i + 1, Item::P(tip, 0.));
                items.insert(i + 2, Item::P(p, 0.));
            }
            10 => {
                // the whole outline re-traced backwards (weakly simple, zero area)
                let fwd: Vec<Item> = items.clone();
                for it in fwd.iter().rev().skip(1) {
                    items.push(*it);
                }
            }
            11 => {
                // nearly collinear point: |ab x bc| around 1e-5
                let (a, b) = (pt(&items, i), pt(&items, i + 1));
                let l = dist2(a, b);
                if l > 0. {
                    let d = 1e-5 * probe(r) / l * r.sign() as f64;
                    let m = mid(a, b);
                    let q = (m.0 - (b.1 - a.1) / l * d, m.1 + (b.0 - a.0) / l * d);
                    if where_ == 2 {
                        items.push(Item::P(q, 0.));
                    } else {
                        items.insert(i + 1, Item::P(q, 0.));
                    }
                }
            }
            12 => {
                // push after close: the first point again, or a new one
                items.push(Item::C);
                let q = if r.bool() { pt(&items, 0) } else { (r.range(-5., 5.) as f64, r.range(-5., 5.) as f64) };
                items.push(Item::P(q, 0.));
            }
            _ => {
                // the first point repeated at the end (explicitly closed outline)
                let it = items[0];
                items.push(it);
            }
        }
    }
    let _ = n;
    for _ in 0..closes_at_end {
        items.push(Item::C);
    }
    items
        .iter()
        .map(|it| match it {
            Item::P(p, h) => Step::P(if *h == 0. { f.place(*p) } else { f.place_h(*p, *h) }),
            Item::C => Step::C,
        })
        .collect()
}

/// unstructured history: random points (few distinct values) and closes
fn c04_junk(r: &mut Rng) -> Vec<Step> {
    let k = 1 + r.below(9);
    let pool: Vec<Point3D> = (0..4)
        .map(|_| Point3D::new(r.below(3) as Float, r.below(3) as Float, if r.below(4) == 0 { 1. } else { 0. }))
        .collect();
    (0..k)
        .map(|_| match r.below(6) {
            0 => Step::C,
            1 => Step::P(r.pt(5.)),
            _ => Step::P(r.pick(&pool)),
        })
        .collect()
}

pub fn c04(r: &mut Rng, out: &mut Out, n: usize) {
    for i in 0..n {
        match i % 16 {
            0 => {
                let h = c04_junk(r);
                run_history(out, &h);
            }
            1 => c04_aux(r, out),
            _ => {
                let h = c04_history(r);
                run_history(out, &h);
            }
        }
    }
}

/// sanitize / remove / index on built loops
fn c04_aux(r: &mut Rng, out: &mut Out) {
    let f = any_frame(r);
    let mut o = any_outline(r, 24);
    // redundant points survive only through remove(); add some anyway (push drops them)
    if r.bool() {
        let i = r.below(o.len());
        let q = mid(o[i], o[(i + 1) % o.len()]);
        o.insert(i + 1, q);
    }
    let pts = placed(&f, &o);
    let built = build_raw(&pts);
    if r.below(4) == 0 {
        let i = r.below(o.len() + 3);
        let res = match &built {
            None => "build-err".to_string(),
            Some(l) => format!(
                "{} {}",
                l.len(),
                match catch(|| l[i]) {
                    Ok(p) => format!("ok {}", hp(p)),
                    Err(_) => "panic".into(),
                }
            ),
        };
        out.case(&format!("loop.idx {} {}", hpts(&pts), i), &res);
        return;
    }
    let k = r.pick(&[0, 1, 1, 2, 3, 6]);
    let mut idx: Vec<usize> = vec![];
    let mut len = built.as_ref().map(|l| l.len()).unwrap_or(3);
    for _ in 0..k {
        let i = if r.below(10) == 0 { len + r.below(2) } else { r.below(len.max(1)) };
        idx.push(i);
        len = len.saturating_sub(1);
    }
    let reopen = r.below(4) == 0;
    let lhs = format!(
        "loop.sanitize {} {}{} {}",
        hpts(&pts),
        k,
        idx.iter().map(|i| format!(" {}", i)).collect::<String>(),
        hb(reopen)
    );
    let res = match built {
        None => "build-err".to_string(),
        Some(l) => {
            let mut l = l;
            let rm = catch(|| {
                for i in &idx {
                    l.remove(*i);
                }
            });
            match rm {
                Err(_) => "panic".into(),
                Ok(()) => {
                    if reopen {
                        l.open();
                    }
                    let before = loop_state(&l);
                    format!("{} -> {}", before, res_str(catch(|| l.sanitize()), |s| loop_state(s)))
                }
            }
        }
    };
    out.case(&lhs, &res);
}

// =================================================================================================
// C10  metrics of closed loops: families of re-parametrised / moved copies in consecutive lines

fn metrics_line(out: &mut Out, pts: &[Point3D]) {
    let res = match catch(|| build_raw(pts)) {
        Err(_) => "panic".to_string(),
        Ok(None) => "build-err".to_string(),
        Ok(Some(l)) => format!(
            "{} {} {} {}",
            loop_state(&l),
            res_str(catch(|| l.area()), |x| hx(*x)),
            res_str(catch(|| l.perimeter()), |x| hx(*x)),
            res_str(catch(|| l.centroid()), |p| hp(*p))
        ),
    };
    out.case(&format!("loop.metrics {}", hpts(pts)), &res);
    // the same outline as a polygon (`Polygon3D::new`): its area and normal are the outer loop's, its outer centroid the mean
    let pres = match catch(|| build_raw(pts).map(|l| Polygon3D::new(l))) {
        Err(_) => "panic".to_string(),
        Ok(None) => "build-err".to_string(),
        Ok(Some(Err(_))) => "err".to_string(),
        Ok(Some(Ok(pg))) => format!("ok {} {} {}", hx(pg.area()), hv(pg.normal()), hp(pg.outer_centroid())),
    };
    out.case(&format!("poly.metrics {}", hpts(pts)), &pres);
}

pub fn c10(r: &mut Rng, out: &mut Out, n: usize) {
    let mut emitted = 0;
    let mut fam = 0;
    while emitted < n {
        fam += 1;
        let f = any_frame(r);
        let mut base = any_outline(r, 60);
        // a third of the families are small outlines (areas well below 1, down to ~1e-3): the sign decisions of
        // `set_area` must not depend on the magnitude of the area
        if r.below(3) == 0 {
            let k = r.pick(&[0.3, 0.1, 0.03]);
            for q in base.iter_mut() {
                *q = (q.0 * k, q.1 * k);
            }
        }
        let m = base.len();
        let variants = 2 + r.below(6);
        for k in 0..variants {
            let (kind, o, fr): (String, Vec<P2>, Frame) = if k == 0 {
                ("base".into(), base.clone(), f)
            } else {
                match r.below(5) {
                    0 => {
                        let s = 1 + r.below(m - 1);
                        let mut q = base[s..].to_vec();
                        q.extend_from_slice(&base[..s]);
                        (format!("shift {}", s), q, f)
                    }
                    1 => {
                        let mut q = base.clone();
                        q.reverse();
                        ("reverse".into(), q, f)
                    }
                    2 => {
                        // collinear insertions (start / middle / end of the vertex list)
                        let mut q = base.clone();
                        let cnt = 1 + r.below(3);
                        for _ in 0..cnt {
                            let len = q.len();
                            match r.below(3) {
                                0 => {
                                    let p = lerp(q[len - 1], q[0], r.pick(&[0.5, 0.25, 0.9]));
                                    q.insert(0, p);
                                }
                                1 => {
                                    let p = lerp(q[len - 1], q[0], r.pick(&[0.5, 0.25, 0.9]));
                                    q.push(p);
                                }
                                _ => {
                                    let i = r.below(len - 1);
                                    let p = lerp(q[i], q[i + 1], r.pick(&[0.5, 0.25, 0.9]));
                                    q.insert(i + 1, p);
                                }
                            }
                        }
                        ("collinear".into(), q, f)
                    }
                    3 => ("moved".into(), base.clone(), any_frame(r)),
                    _ => {
                        // moved + shifted + maybe reversed
                        let s = r.below(m);
                        let mut q = base[s..].to_vec();
                        q.extend_from_slice(&base[..s]);
                        if r.bool() {
                            q.reverse();
                        }
                        ("moved-shift".into(), q, any_frame(r))
                    }
                }
            };
            out.raw(&format!("# c10 family {} {} frame {}", fam, kind, fr.kind));
            metrics_line(out, &placed(&fr, &o));
            emitted += 1;
        }
    }
}

// =================================================================================================
// C12  get_closed_loop

fn closed_loop_line(out: &mut Out, outer: &[Point3D], holes: &[Vec<Point3D>]) {
    let res = match catch(|| build_raw_polygon(outer, holes)) {
        Err(_) => "build-panic".to_string(),
        Ok(None) => "build-err".to_string(),
        Ok(Some(pg)) => match catch(|| pg.get_closed_loop()) {
            Err(_) => "panic".into(),
            Ok(l) => {
                let before = loop_state(&l);
                let mut l = l;
                match catch(|| l.close()) {
                    Err(_) => format!("ok {} close panic", before),
                    Ok(c) => format!(
                        "ok {} close {} {}",
                        before,
                        if c.is_ok() { "ok" } else { "err" },
                        loop_state(&l)
                    ),
                }
            }
        },
    };
    out.case(&format!("poly.cl {} {}", hpts(outer), hholes(holes)), &res);
}

/// an outline with a known free disc (centre, radius) for placing holes
fn outline_with_disc(r: &mut Rng) -> (Vec<P2>, P2, f64, f64) {
    let (o, c, rad, ext) = match r.below(4) {
        0 => {
            let n = 3 + r.below(10);
            let (rx, ry) = (2. + 6. * r.unit(), 2. + 6. * r.unit());
            (convex(r, n, rx, ry), (0., 0.), 0.45 * rx.min(ry), rx.max(ry))
        }
        1 => {
            let n = 5 + r.below(16);
            let rmin = 2. + 3. * r.unit();
            let rmax = rmin * (1.2 + 1.5 * r.unit());
            (star(r, n, rmin, rmax), (0., 0.), 0.55 * rmin, rmax)
        }
        2 => {
            // L-shape: free disc in the thick corner
            (
                vec![(0., 0.), (8., 0.), (8., 3.), (3., 3.), (3., 8.), (0., 8.)],
                (1.5, 1.5),
                1.3,
                8.,
            )
        }
        _ => {
            let (w, h) = (4. + 6. * r.unit().round(), 4. + 6. * r.unit().round());
            (
                vec![(-w / 2., -h / 2.), (w / 2., -h / 2.), (w / 2., h / 2.), (-w / 2., h / 2.)],
                (0., 0.),
                0.45 * w.min(h),
                w.max(h),
            )
        }
    };
    let o = reverse_if(r, o);
    (rotate_start(r, o), c, rad, ext)
}

/// k disjoint holes (3..=8 vertices, any winding / start) inside the free disc
fn holes_in_disc(r: &mut Rng, k: usize, c: P2, rad: f64) -> Vec<Vec<P2>> {
    (0..k)
        .map(|i| {
            let n = 3 + r.below(6);
            let (hc, hr) = if k == 1 {
                let off = rad * 0.4 * r.unit();
                let t = r.unit() * 6.28;
                ((c.0 + off * t.cos(), c.1 + off * t.sin()), rad * (0.15 + 0.3 * r.unit()))
            } else {
                let t = (i as f64 + 0.3 * r.unit()) * 6.283 / k as f64;
                ((c.0 + 0.55 * rad * t.cos(), c.1 + 0.55 * rad * t.sin()), rad * (0.1 + 0.12 * r.unit()))
            };
            hole(r, n, hc, hr)
        })
        .collect()
}

pub fn c12(r: &mut Rng, out: &mut Out, n: usize) {
    let mut emitted = 0;
    while emitted < n {
        if r.below(100) == 0 {
            // OUTSIDE the stated metre-scale input space, kept to reach a branch: every outer vertex is further than
            // sqrt(9E14) from every hole vertex, so the nearest-pair search of get_closed_loop finds nothing
            let w = 1e8;
            let f = Frame { o: Point3D::new(0., 0., 0.), u: Vector3D::new(1., 0., 0.), v: Vector3D::new(0., 1., 0.), n: Vector3D::new(0., 0., 1.), kind: "coordinate" };
            let o = vec![(-w, -w), (w, -w), (w, w), (-w, w)];
            let k = 1 + r.below(3);
            let hs = holes_in_disc(r, k, (0., 0.), 10.);
            let mut holes: Vec<Vec<Point3D>> = hs.iter().map(|h| h.iter().map(|p| f.place((p.0.round(), p.1.round()))).collect()).collect();
            if r.bool() {
                // one more hole next to a corner of the outline: found in the first pass; the far ones are then not found
                // and the ids remembered from the first pass are used again
                let (sx, sy) = (r.sign() as f64, r.sign() as f64);
                let nv = 3 + r.below(4);
                let hn = hole(r, nv, (0., 0.), 12.);
                let near: Vec<Point3D> = hn.iter().map(|p| f.place((sx * (w - 40.) + p.0.round(), sy * (w - 40.) + p.1.round()))).collect();
                let at = r.below(holes.len() + 1);
                holes.insert(at, near);
            }
            closed_loop_line(out, &placed(&f, &o), &holes);
            emitted += 1;
            continue;
        }
        let f = any_frame(r);
        let (o, c, rad, _) = outline_with_disc(r);
        let outer = placed(&f, &o);
        let k = r.pick(&[0, 1, 1, 1, 2, 2, 3]);
        let hs = holes_in_disc(r, k, c, rad);
        if k == 1 && r.below(3) == 0 {
            // every start vertex and both windings of the same hole
            let h = &hs[0];
            for rev in 0..2 {
                for s in 0..h.len() {
                    let mut q = h[s..].to_vec();
                    q.extend_from_slice(&h[..s]);
                    if rev == 1 {
                        q.reverse();
                    }
                    closed_loop_line(out, &outer, &[placed(&f, &q)]);
                    emitted += 1;
                }
            }
        } else {
            let holes: Vec<Vec<Point3D>> = hs.iter().map(|h| placed(&f, h)).collect();
            closed_loop_line(out, &outer, &holes);
            emitted += 1;
        }
    }
}

// =================================================================================================
// C05  point in loop / polygon (+ is_diagonal, contains_segment, accessors of open loops)

/// query points of the C05 input space for an outline (2-D point, height)
fn c05_query(r: &mut Rng, o: &[P2]) -> (P2, f64) {
    let n = o.len();
    let (mut x0, mut x1, mut y0, mut y1) = (1e9, -1e9, 1e9, -1e9);
    for p in o {
        x0 = p.0.min(x0);
        x1 = p.0.max(x1);
        y0 = p.1.min(y0);
        y1 = p.1.max(y1);
    }
    let i = r.below(n);
    let (a, b) = (o[i], o[(i + 1) % n]);
    let l = dist2(a, b).max(1e-12);
    let nrm = (-(b.1 - a.1) / l, (b.0 - a.0) / l);
    let m0 = mid(o[0], o[1]); // the ray of test_point starts from here
    let mut h = 0.;
    let q = match r.below(16) {
        0 | 1 | 2 => {
            let mx = 0.1 * (x1 - x0);
            let my = 0.1 * (y1 - y0);
            (r.range(x0 - mx, x1 + mx) as f64, r.range(y0 - my, y1 + my) as f64)
        }
        3 | 4 => {
            // either side of an edge midpoint at 1e-4 .. 1e-1
            let d = r.pick(&[1e-4, 1e-3, 1e-2, 1e-1]) * r.sign() as f64;
            let m = mid(a, b);
            (m.0 + nrm.0 * d, m.1 + nrm.1 * d)
        }
        5 | 6 => {
            // around a vertex at 1e-4 .. 1e-1 (any direction)
            let d = r.pick(&[1e-4, 1e-3, 1e-2, 1e-1]);
            let t = r.unit() * 6.283;
            (a.0 + d * t.cos(), a.1 + d * t.sin())
        }
        7 => {
            // prolongation of an edge
            let t = if r.bool() { 1. + r.pick(&[1e-4, 1e-2, 0.5, 2.]) } else { -r.pick(&[1e-4, 1e-2, 0.5, 2.]) };
            lerp(a, b, t)
        }
        8 => a,
        9 => lerp(a, b, r.unit()),
        10 => {
            // within / beyond the collinearity tolerance of an edge: |edge x (p - a)| around 1e-5
            let d = 1e-5 * probe(r) / l * r.sign() as f64;
            let m = lerp(a, b, r.unit());
            (m.0 + nrm.0 * d, m.1 + nrm.1 * d)
        }
        11 => {
            // on the line from the first edge's midpoint through a vertex: the ray passes exactly through that vertex
            let t = r.pick(&[0.3, 0.7, 0.999, 1.001, 1.5]);
            lerp(m0, a, t)
        }
        12 => {
            // close to the first edge's midpoint (start of the ray)
            let d = r.pick(&[0., 1e-9, 1e-4, 1e-2]);
            let t = r.unit() * 6.283;
            (m0.0 + d * t.cos(), m0.1 + d * t.sin())
        }
        13 => {
            h = match r.below(3) {
                0 => r.pick(&[0.1, -1., 1e-3]),
                _ => 1e-7 * probe(r) * r.sign() as f64,
            };
            (r.range(x0, x1) as f64, r.range(y0, y1) as f64)
        }
        14 => {
            // on the ray through an edge midpoint
            lerp(m0, mid(a, b), r.pick(&[0.5, 0.99, 1.01, 2.]))
        }
        _ => (r.range(x0, x1) as f64, r.range(y0, y1) as f64),
    };
    (q, h)
}

/// coordinates that differ from the frame's origin only by trigonometric noise (< 1e-12) are set to the origin's
fn snap_noise(f: &Frame, q: Point3D) -> Point3D {
    let s = |c: Float, o: Float| if (c - o).abs() < 1e-12 { o } else { c };
    Point3D::new(s(q.x, f.o.x), s(q.y, f.o.y), s(q.z, f.o.z))
}

fn place_q(f: &Frame, q: (P2, f64)) -> Point3D {
    if q.1 == 0. {
        f.place(q.0)
    } else {
        f.place_h(q.0, q.1)
    }
}

/// one `loop.tp` line
fn tp_line(out: &mut Out, pts: &[Point3D], q: Point3D) {
    let built = catch(|| build_raw(pts));
    let res = match &built {
        Err(_) => "panic".to_string(),
        Ok(None) => "build-err".into(),
        Ok(Some(l)) => res_str(catch(|| l.test_point(q)), |b| hb(*b).to_string()),
    };
    out.case(&format!("loop.tp {} {}", hpts(pts), hp(q)), &res);
}

pub fn c05(r: &mut Rng, out: &mut Out, n: usize) {
    // regression input (repaired by "fix: get_intersection_pt solves nearly parallel segments that point the same way"):
    // the test ray passes through vertex 3 and the edge leaving it is within 1.7e-4 rad of the ray
    #[cfg(not(feature = "float"))]
    {
        let v: [(f64, f64, f64); 9] = [
            (-0.6587870131341929, -1.1532300190111715, -2.0896722537351597),
            (-0.1890985036711491, -0.7175441733595345, -1.6253698528517995),
            (0.5908853749968501, -0.11207882582412744, -1.005354523663084),
            (-0.7024782868391015, 0.06678216866295164, -0.5202549705390381),
            (-0.8469385418674555, 0.5859997258664175, 0.17260439811906814),
            (-1.8571160119675238, 0.2150597182686002, -0.10176963241301072),
            (-1.905265467087613, -0.2600144814799593, -0.6999904180180437),
            (-2.203540315396835, -0.8255266780166781, -1.3643454813370886),
            (-1.5759942138923195, -0.97338714477967, -1.677852841767832),
        ];
        let pts: Vec<Point3D> = v.iter().map(|p| Point3D::new(p.0, p.1, p.2)).collect();
        tp_line(out, &pts, Point3D::new(-0.5075034169336001, -0.6347363167308615, -1.456341228467147));
    }
    // regression input (repaired by "fix: point-in-loop takes the side of an edge at a vertex on the ray from the sign ..."):
    // a square of side 200 in a tilted plane, the ray through a corner
    #[cfg(not(feature = "float"))]
    {
        let pts: Vec<Point3D> = [
            (-100.0, -100.0, -126.50000000000001),
            (100.0, -100.0, 103.50000000000001),
            (100.0, 100.0, 126.50000000000001),
            (-100.0, 100.0, -103.50000000000001),
        ]
        .iter()
        .map(|p: &(f64, f64, f64)| Point3D::new(p.0, p.1, p.2))
        .collect();
        tp_line(out, &pts, Point3D::new(62.5, 25.0, 74.75000000000001));
    }
    let mut emitted = 0;
    while emitted < n {
        if r.below(40) == 0 {
            // large loops in tilted planes, the test ray through a corner: for loops a few hundred units across the cross
            // products of the vertex rule have squared lengths of 1e10 and more, beyond any absolute tolerance
            let sz = r.pick(&[60., 100., 150., 300., 1000.]);
            let k = r.range(0., 2.) as f64;
            let k2 = r.range(-0.3, 0.3) as f64;
            let f = |x: f64, y: f64| -> Point3D { Point3D::new((x * sz) as Float, (y * sz) as Float, (k * x * sz + k2 * y * sz) as Float) };
            let asp = r.pick(&[1., 1., 0.6, 1.7]);
            let mut o: Vec<(f64, f64)> = vec![(-1., -asp), (1., -asp), (1., asp), (-1., asp)];
            if r.bool() {
                // an L: one more corner to pass through
                o = vec![(-1., -asp), (1., -asp), (1., asp), (0.2, asp), (0.2, 0.3 * asp), (-1., 0.3 * asp)];
            }
            if r.bool() {
                o = vec![o[1], o[0]].into_iter().chain(o[2..].iter().rev().cloned()).collect();
            }
            let pts: Vec<Point3D> = o.iter().map(|p| f(p.0, p.1)).collect();
            let m0 = ((o[0].0 + o[1].0) / 2., (o[0].1 + o[1].1) / 2.);
            for _ in 0..3 {
                let v = o[2 + r.below(o.len() - 2)];
                let t = r.pick(&[0.25, 0.375, 0.5, 0.625, 0.75, 1.25]);
                let q = (m0.0 + (v.0 - m0.0) * t, m0.1 + (v.1 - m0.1) * t);
                tp_line(out, &pts, f(q.0, q.1));
                emitted += 1;
            }
            continue;
        }
        if r.below(40) == 0 {
            // the test ray runs exactly ALONG an edge: a rectangle with a notch in the side that carries the first edge, queried
            // on the line of that side (in the notch mouth, beyond the far corner, and just inside the notch)
            let f = any_frame(r);
            let (w, h) = (r.range(4., 12.) as f64, r.range(2., 6.) as f64);
            let (n0, n1, nd) = (w * r.range(0.3, 0.4) as f64, w * r.range(0.55, 0.7) as f64, h * r.range(0.2, 0.5) as f64);
            let o: Vec<P2> = vec![(0., 0.), (n0, 0.), (n0, nd), (n1, nd), (n1, 0.), (w, 0.), (w, h), (0., h)];
            let o: Vec<P2> = if r.bool() { o } else {
                let mut t = vec![o[1], o[0]];
                for k in (2..o.len()).rev() { t.push(o[k]); }
                t
            };
            let pts = placed(&f, &o);
            for _ in 0..3 {
                let q2 = match r.below(5) {
                    0 => (0.5 * (n0 + n1), 0.),
                    1 => (n0 + 0.25 * (n1 - n0), 0.),
                    2 => (w + 1., 0.),
                    3 => (0.5 * (n0 + n1), 0.5 * nd),
                    _ => (n1 - 0.1 * (n1 - n0), 0.),
                };
                tp_line(out, &pts, place_q(&f, (q2, 0.)));
                emitted += 1;
            }
            continue;
        }
        if r.below(16) == 0 {
            // the test ray (from the first edge's midpoint through the query) passes exactly through a vertex A, and the edge
            // that leaves A (or arrives at it) makes an angle eps with the ray: below about 1e-4 rad the two count as parallel
            // for Vector3D::is_parallel, whose bound on |a x b|^2 is absolute
            let f = any_frame(r);
            let sc = r.pick(&[0.5, 1., 1., 3.]);
            let eps = r.pick(&[1e-6, 1e-5, 5e-5, 1e-4, 3e-4, 1e-3]) * r.sign() as f64;
            let l = r.range(0.8, 3.) as f64;
            let ax = r.range(-0.6, 0.6) as f64; // A is not straight above the midpoint: the ray is oblique in the frame
            let a = (ax, 2.);
            let dl = ((ax * ax + 4.) as f64).sqrt();
            let (dx, dy) = (ax / dl, 2. / dl);
            // B = A + l * (ray direction turned by eps)
            let b = (a.0 + l * (dx * eps.cos() - dy * eps.sin()), a.1 + l * (dx * eps.sin() + dy * eps.cos()));
            let top = b.1;
            let o: Vec<P2> = vec![(-1., 0.), (1., 0.), (2.5 + ax.max(0.), 1.), a, b, (-2.5 + b.0.min(0.), top), (-2.5 + ax.min(0.), 1.)];
            let o: Vec<P2> = o.iter().map(|p| (p.0 * sc, p.1 * sc)).collect();
            let o: Vec<P2> = if r.bool() { o } else {
                // the other winding with the same first edge
                let mut t = vec![o[1], o[0]];
                for k in (2..o.len()).rev() { t.push(o[k]); }
                t
            };
            let pts = placed(&f, &o);
            let m0 = mid(o[0], o[1]);
            let av = (a.0 * sc, a.1 * sc);
            for _ in 0..3 {
                let t = r.pick(&[0.2, 0.5, 0.8, 0.95, 1.2, 1.6]);
                let q = place_q(&f, (lerp(m0, av, t), 0.));
                tp_line(out, &pts, q);
                emitted += 1;
            }
            continue;
        }
        if r.below(12) == 0 {
            // an outline with an edge ON an in-plane axis of a noisy right-angle frame at the origin (the noise of that edge
            // along one world axis is not absorbed by any offset), queried on the prolongation of that edge at clean coordinates
            let f = noise_frame_at_origin(r);
            let (w, h) = (4. + 20. * r.unit(), 1. + 4. * r.unit());
            let x0 = -w * r.pick(&[0., 0.5, 1.]);
            let o: Vec<P2> = if r.bool() {
                vec![(x0, 0.), (x0 + w, 0.), (x0 + w, h), (x0, h)]
            } else {
                vec![(x0, 0.), (x0 + w, 0.), (x0 + w, h), (x0 + 0.5 * w, h), (x0 + 0.5 * w, 0.5 * h), (x0, 0.5 * h)]
            };
            let o = if r.bool() { o } else { let mut t = o.clone(); t.reverse(); t };
            let k = r.below(o.len());
            let o: Vec<P2> = o.iter().cycle().skip(k).take(o.len()).cloned().collect();
            let pts = placed(&f, &o);
            let built = catch(|| build_raw(&pts));
            for _ in 0..4 {
                let t = r.pick(&[-1., -0.5, -0.1, -0.01, 0.25, 0.5, 1.01, 1.1, 1.5, 2.]);
                let q2 = (x0 + w * t, 0.);
                let q = snap_noise(&f, f.place(q2));
                let res = match &built {
                    Err(_) => "panic".to_string(),
                    Ok(None) => "build-err".into(),
                    Ok(Some(l)) => res_str(catch(|| l.test_point(q)), |b| hb(*b).to_string()),
                };
                out.case(&format!("loop.tp {} {}", hpts(&pts), hp(q)), &res);
                emitted += 1;
            }
            continue;
        }
        let f = any_frame(r);
        match r.below(10) {
            0 | 1 | 2 | 3 | 4 => {
                let o = any_outline(r, 40);
                let pts = placed(&f, &o);
                let built = catch(|| build_raw(&pts));
                for _ in 0..(2 + r.below(8)) {
                    let q = place_q(&f, c05_query(r, &o));
                    // a loop in a plane that carries 1e-16-level trigonometric noise, queried at "clean" coordinates:
                    // the noise of the query is snapped away (half of the time)
                    let q = if f.kind == "right-angle-noise" && r.bool() { snap_noise(&f, q) } else { q };
                    let res = match &built {
                        Err(_) => "panic".to_string(),
                        Ok(None) => "build-err".into(),
                        Ok(Some(l)) => res_str(catch(|| l.test_point(q)), |b| hb(*b).to_string()),
                    };
                    out.case(&format!("loop.tp {} {}", hpts(&pts), hp(q)), &res);
                    emitted += 1;
                }
            }
            5 | 6 | 7 => {
                let (o, c, rad, _) = outline_with_disc(r);
                let k = r.pick(&[0, 1, 1, 2, 3]);
                let hs = holes_in_disc(r, k, c, rad);
                let outer = placed(&f, &o);
                let holes: Vec<Vec<Point3D>> = hs.iter().map(|h| placed(&f, h)).collect();
                let built = catch(|| build_raw_polygon(&outer, &holes));
                for _ in 0..(2 + r.below(8)) {
                    // queries relative to the outer loop or to one of the holes
                    let which = r.below(k + 1);
                    let q2 = if which == 0 { c05_query(r, &o) } else { c05_query(r, &hs[which - 1]) };
                    let q = place_q(&f, q2);
                    let res = match &built {
                        Err(_) => "panic".to_string(),
                        Ok(None) => "build-err".into(),
                        Ok(Some(pg)) => res_str(catch(|| pg.test_point(q)), |b| hb(*b).to_string()),
                    };
                    out.case(&format!("poly.tp {} {} {}", hpts(&outer), hholes(&holes), hp(q)), &res);
                    emitted += 1;
                }
            }
            8 if r.bool() => {
                // queries on a closed loop mutilated by remove(): index / remainder panics inside test_point, is_diagonal
                let o = any_outline(r, 6);
                let pts = placed(&f, &o);
                let m = o.len();
                let k = r.pick(&[0, 1, m.saturating_sub(2), m.saturating_sub(1), m, m + 1]);
                let mut idx: Vec<usize> = vec![];
                for j in 0..k {
                    idx.push(if r.below(3) == 0 { 0 } else { r.below((m + 1).saturating_sub(j).max(1)) });
                }
                let q = place_q(&f, c05_query(r, &o));
                let (sa, sb) = (f.place(o[0]), f.place(o[m / 2]));
                let s = Segment3D::new(sa, sb);
                let res = match catch(|| build_raw(&pts)) {
                    Err(_) => "panic".to_string(),
                    Ok(None) => "build-err".into(),
                    Ok(Some(mut l)) => match catch(|| {
                        for i in &idx {
                            l.remove(*i);
                        }
                    }) {
                        Err(_) => "panic".into(),
                        Ok(()) => format!(
                            "{} {} {} {} {} {}",
                            loop_state(&l),
                            res_str(catch(|| l.test_point(q)), |b| hb(*b).to_string()),
                            res_str(catch(|| l.is_diagonal(s)), |b| hb(*b).to_string()),
                            match catch(|| l.contains_segment(&s)) {
                                Ok(b) => format!("ok {}", hb(b)),
                                Err(_) => "panic".into(),
                            },
                            res_str(catch(|| l.centroid()), |p| hp(*p)),
                            res_str(catch(|| l.is_coplanar(q)), |b| hb(*b).to_string())
                        ),
                    },
                };
                out.case(
                    &format!(
                        "loop.rm {} {}{} {} {}",
                        hpts(&pts),
                        k,
                        idx.iter().map(|i| format!(" {}", i)).collect::<String>(),
                        hp(q),
                        h2(sa, sb)
                    ),
                    &res,
                );
                emitted += 1;
            }
            8 => {
                // accessors / test_point on an OPEN loop
                let o = any_outline(r, 12);
                let k = r.below(o.len() + 1);
                let pts = placed(&f, &o[..k]);
                let q = place_q(&f, c05_query(r, &o));
                let res = match catch(|| build_raw_open(&pts)) {
                    Err(_) => "panic".to_string(),
                    Ok(None) => "build-err".into(),
                    Ok(Some(l)) => format!(
                        "{} {} {} {} {} {}",
                        loop_state(&l),
                        res_str(catch(|| l.area()), |x| hx(*x)),
                        res_str(catch(|| l.perimeter()), |x| hx(*x)),
                        res_str(catch(|| l.centroid()), |p| hp(*p)),
                        res_str(catch(|| l.test_point(q)), |b| hb(*b).to_string()),
                        res_str(catch(|| l.is_coplanar(q)), |b| hb(*b).to_string())
                    ),
                };
                out.case(&format!("loop.open {} {}", hpts(&pts), hp(q)), &res);
                emitted += 1;
            }
            _ => {
                // is_diagonal / contains_segment
                let o = any_outline(r, 24);
                let m = o.len();
                let pts = placed(&f, &o);
                let built = catch(|| build_raw(&pts));
                for _ in 0..(2 + r.below(6)) {
                    let (i, j) = (r.below(m), r.below(m));
                    let (a, b): (P2, P2) = match r.below(11) {
                        0 | 1 | 2 => (o[i], o[j]),
                        3 => (o[i], o[(i + 1) % m]),
                        4 => (o[(i + 1) % m], o[i]),
                        5 => {
                            // part of an edge / an edge prolonged
                            let (p, q) = (o[i], o[(i + 1) % m]);
                            (lerp(p, q, r.pick(&[0., 0.25, -0.5])), lerp(p, q, r.pick(&[1., 0.75, 1.5])))
                        }
                        6 => {
                            let d = r.pick(&[0., 0.5e-5, 0.99e-5, 1.01e-5, 2e-5]);
                            (o[i], (o[i].0 + d, o[i].1))
                        }
                        7 => (c05_query(r, &o).0, c05_query(r, &o).0),
                        8 => (o[i], mid(o[j], o[(j + 1) % m])),
                        9 => {
                            // the edge itself, prolonged by about 1e-7 (the "different length" tolerance of is_diagonal)
                            let (p, q) = (o[i], o[(i + 1) % m]);
                            let l = dist2(p, q).max(1e-9);
                            let d = 1e-7 * probe(r) / l;
                            if r.bool() { (p, lerp(p, q, 1. + d)) } else { (lerp(p, q, -d), q) }
                        }
                        _ => (o[i], lerp(o[i], o[j], r.pick(&[0.5, 1.5]))),
                    };
                    let (pa, pb) = (f.place(a), f.place(b));
                    let s = Segment3D::new(pa, pb);
                    let res = match &built {
                        Err(_) => "panic".to_string(),
                        Ok(None) => "build-err".into(),
                        Ok(Some(l)) => format!(
                            "{} {}",
                            res_str(catch(|| l.is_diagonal(s)), |b| hb(*b).to_string()),
                            match catch(|| l.contains_segment(&s)) {
                                Ok(b) => format!("ok {}", hb(b)),
                                Err(_) => "panic".into(),
                            }
                        ),
                    };
                    out.case(&format!("loop.diag {} {}", hpts(&pts), h2(pa, pb)), &res);
                    emitted += 1;
                }
            }
        }
    }
}

// =================================================================================================
// C11  cut_hole histories

fn poly_state(pg: &Polygon3D) -> String {
    let mut s = format!(
        "{} {} {} {}",
        hx(pg.area()),
        hv(pg.normal()),
        loop_state(pg.outer()),
        pg.n_inner_loops()
    );
    for i in 0..pg.n_inner_loops() {
        s.push(' ');
        s.push_str(&loop_state(pg.inner(i).unwrap()));
    }
    s
}

pub fn c11(r: &mut Rng, out: &mut Out, n: usize) {
    for case in 0..n {
        let f = any_frame(r);
        let (o, c, rad, ext) = outline_with_disc(r);
        let outer = placed(&f, &o);
        if case % 8 == 7 {
            c11_misc(r, out, &f, &o, c, rad);
            continue;
        }
        let k = 1 + r.below(4);
        // candidates: (closed?, points)
        let mut cands: Vec<(bool, Vec<Point3D>)> = vec![];
        let mut last_inside: Option<(P2, f64)> = None;
        let ring = holes_in_disc(r, 3, c, rad);
        for j in 0..k {
            let nv = 3 + r.below(6);
            let (closed, pts): (bool, Vec<Point3D>) = match r.below(14) {
                13 if j == 0 && o.len() > 3 => {
                    // a hole one of whose vertices lies on the line from the midpoint of the FIRST outer edge through another
                    // outer vertex: the ray of the point-in-loop test (which leaves the tested point away from that midpoint)
                    // then passes exactly through a vertex of the outline (the vertex rule of the crossing count decides)
                    let m = mid(o[0], o[1]);
                    let i = 2 + r.below(o.len() - 2);
                    // (before the vertex: inside for the convex families; beyond it: the vertex lies BEHIND the tested point on
                    // the ray's line and must not be counted)
                    let t = r.pick(&[0.3, 0.5, 0.7, 1.05, 1.15]);
                    let p = lerp(m, o[i], t);
                    // beyond the vertex only `p` is outside: the other two vertices are well inside
                    let q1 = lerp(p, c, if t > 1. { 0.4 } else { 0.15 });
                    let q2 = (q1.0 + 0.06 * rad, q1.1 + 0.045 * rad);
                    (true, placed(&f, &[p, q1, q2]))
                }
                12 if j == 0 => {
                    // a small hole just inside the outline next to the midpoint of the FIRST outer edge (where the ray of the
                    // point-in-loop test starts): clearly admissible when the corner angles allow it, else band
                    let (a, b) = (o[0], o[1]);
                    let l = dist2(a, b).max(1e-9);
                    // inward normal of a counter-clockwise outline (the families used here are counter-clockwise)
                    let nrm = (-(b.1 - a.1) / l, (b.0 - a.0) / l);
                    let m = mid(a, b);
                    let dd = r.pick(&[0.12, 0.2, 0.3]);
                    let hn = 3 + r.below(3);
                    let h = hole(r, hn, (m.0 + nrm.0 * dd, m.1 + nrm.1 * dd), 0.06);
                    (true, placed(&f, &h))
                }
                13 | 12 | 0 | 1 | 2 => {
                    // clearly inside (disjoint sectors of the free disc)
                    let h = ring[j % 3].clone();
                    let cx = h.iter().map(|p| p.0).sum::<f64>() / h.len() as f64;
                    let cy = h.iter().map(|p| p.1).sum::<f64>() / h.len() as f64;
                    last_inside = Some(((cx, cy), dist2((cx, cy), h[0])));
                    (true, placed(&f, &h))
                }
                3 => {
                    // clearly outside
                    let t = r.unit() * 6.283;
                    let h = hole(r, nv, (c.0 + 3. * ext * t.cos(), c.1 + 3. * ext * t.sin()), 0.3 * rad);
                    (true, placed(&f, &h))
                }
                4 => {
                    // straddling the outline
                    let i = r.below(o.len());
                    let ctr = if r.bool() { o[i] } else { mid(o[i], o[(i + 1) % o.len()]) };
                    (true, placed(&f, &hole(r, nv, ctr, 0.25 * rad)))
                }
                5 => {
                    // parallel plane at a small / clear offset
                    let hh = match r.below(3) {
                        0 => r.pick(&[0.5, -0.01]),
                        _ => 1e-7 * probe(r) * r.sign() as f64,
                    };
                    let h = ring[j % 3].clone();
                    (true, h.iter().map(|p| f.place_h(*p, hh)).collect())
                }
                6 => {
                    // tilted plane: normals at a small or a large angle (is_parallel threshold: sin^2 ~ 1e-5)
                    let ang = match r.below(3) {
                        0 => r.pick(&[0.3, 1.2, 1.5707963267948966]),
                        _ => (1e-5 * probe(r)).sqrt(),
                    };
                    let h = ring[j % 3].clone();
                    let hc = h[0];
                    let pts: Vec<Point3D> = h
                        .iter()
                        .map(|p| {
                            // rotate about the axis through hc parallel to v: x' = hc + (dx cos, dy, dx sin)
                            let dx = p.0 - hc.0;
                            f.place_h((hc.0 + dx * ang.cos(), p.1), dx * ang.sin())
                        })
                        .collect();
                    (true, pts)
                }
                7 => {
                    // enclosing an existing hole
                    let grow = r.pick(&[1.5, 2.5]);
                    match last_inside {
                        Some((ctr, rr)) => (true, placed(&f, &hole(r, nv, ctr, rr * grow))),
                        None => (true, placed(&f, &hole(r, nv, c, 0.9 * rad))),
                    }
                }
                8 => {
                    // inside an existing hole
                    match last_inside {
                        Some((ctr, rr)) => (true, placed(&f, &hole(r, nv, ctr, rr * 0.3))),
                        None => (true, placed(&f, &hole(r, nv, c, 0.1 * rad))),
                    }
                }
                9 => {
                    // the same hole again / a copy of an earlier candidate
                    if cands.is_empty() {
                        (true, placed(&f, &ring[0]))
                    } else {
                        let i = r.below(cands.len());
                        cands[i].clone()
                    }
                }
                10 if r.bool() => {
                    // a candidate that is not even a loop (self-crossing bow-tie): reported as `nohole`, nothing is cut
                    let h = &ring[j % 3];
                    let ctr = h[0];
                    let bow = vec![ctr, (ctr.0 + 0.2, ctr.1), (ctr.0, ctr.1 + 0.2), (ctr.0 + 0.2, ctr.1 + 0.2)];
                    (true, placed(&f, &bow))
                }
                10 => (false, placed(&f, &ring[j % 3])), // not closed
                _ => {
                    // touching the outline from inside: one vertex of the hole on an outer vertex / edge
                    let i = r.below(o.len());
                    let p = if r.bool() { o[i] } else { mid(o[i], o[(i + 1) % o.len()]) };
                    let q1 = lerp(p, c, 0.3);
                    let q2 = (q1.0 + 0.1 * rad, q1.1 + 0.07 * rad);
                    (true, placed(&f, &[p, q1, q2]))
                }
            };
            cands.push((closed, pts));
        }
        let mut lhs = format!("poly.cut {} {}", hpts(&outer), k);
        for (closed, pts) in &cands {
            lhs.push_str(&format!(" {} {}", if *closed { "H" } else { "U" }, hpts(pts)));
        }
        let res = match catch(|| build_raw(&outer).and_then(|l| Polygon3D::new(l).ok())) {
            Err(_) => "panic".to_string(),
            Ok(None) => "build-err".into(),
            Ok(Some(mut pg)) => {
                let mut res: Vec<String> = vec![];
                for (closed, pts) in &cands {
                    let hl = if *closed { build_raw(pts) } else { build_raw_open(pts) };
                    match hl {
                        None => res.push("nohole".into()),
                        Some(hl) => match catch(|| pg.cut_hole(hl)) {
                            Err(_) => {
                                res.push("panic".into());
                                break;
                            }
                            Ok(Ok(())) => res.push(format!("ok {} {}", hx(pg.area()), pg.n_inner_loops())),
                            Ok(Err(_)) => res.push(format!("err {} {}", hx(pg.area()), pg.n_inner_loops())),
                        },
                    }
                }
                res.join(" | ")
            }
        };
        out.case(&lhs, &res);
    }
}

fn c11_misc(r: &mut Rng, out: &mut Out, f: &Frame, o: &[P2], c: P2, rad: f64) {
    let outer = placed(f, o);
    if r.below(4) == 0 {
        // Polygon3D::new / From<Loop3D> on an open loop
        let k = r.below(o.len() + 1);
        let pts = &outer[..k];
        let res = match build_raw_open(pts) {
            None => "build-err".to_string(),
            Some(l) => {
                let l2 = l.clone();
                let a = match catch(|| Polygon3D::new(l)) {
                    Err(_) => "panic",
                    Ok(Ok(_)) => "ok",
                    Ok(Err(_)) => "err",
                };
                let b = match catch(|| {
                    let p: Polygon3D = l2.into();
                    p
                }) {
                    Err(_) => "panic",
                    Ok(_) => "ok",
                };
                format!("{} {}", a, b)
            }
        };
        out.case(&format!("poly.from {}", hpts(pts)), &res);
        return;
    }
    let k = r.below(3);
    let hs = holes_in_disc(r, k, c, rad);
    let holes: Vec<Vec<Point3D>> = hs.iter().map(|h| placed(f, h)).collect();
    let m = o.len();
    let i = r.below(m);
    let (a, b) = match r.below(5) {
        0 => (o[i], o[(i + 1) % m]),
        1 => (o[(i + 1) % m], o[i]),
        2 if k > 0 => (hs[0][0], hs[0][1]),
        3 if k > 0 => {
            let h = &hs[k - 1];
            (h[h.len() - 1], h[0])
        }
        _ => (o[i], o[r.below(m)]),
    };
    let (pa, pb) = (f.place(a), f.place(b));
    let s = Segment3D::new(pa, pb);
    let res = match catch(|| build_raw_polygon(&outer, &holes)) {
        Err(_) => "panic".to_string(),
        Ok(None) => "build-err".into(),
        Ok(Some(pg)) => {
            let via_from = match build_raw(&outer) {
                None => "build-err".to_string(),
                Some(l) => match catch(|| {
                    let p: Polygon3D = l.into();
                    p
                }) {
                    Err(_) => "panic".into(),
                    Ok(p) => format!("ok {} {}", hx(p.area()), hv(p.normal())),
                },
            };
            format!(
                "{} {} ok {} {}",
                poly_state(&pg),
                hp(pg.outer_centroid()),
                hb(pg.contains_segment(&s)),
                via_from
            )
        }
    };
    out.case(&format!("poly.misc {} {} {}", hpts(&outer), hholes(&holes), h2(pa, pb)), &res);
}

// =================================================================================================
// C20  JSON (de)serialisation of Loop3D / Polygon3D

use serde_json::Value;

/// prefix encoding of a parsed JSON value (numbers as the crate's Float obtains them)
fn enc(v: &Value, s: &mut String) {
    match v {
        Value::Null => s.push_str(" Z"),
        Value::Bool(b) => s.push_str(&format!(" B {}", hb(*b))),
        Value::Number(x) => s.push_str(&format!(" N {}", hx(x.as_f64().expect("as_f64") as Float))),
        Value::String(_) => s.push_str(" S"),
        Value::Array(a) => {
            s.push_str(&format!(" A {}", a.len()));
            for e in a {
                enc(e, s);
            }
        }
        Value::Object(o) => {
            s.push_str(&format!(" O {}", o.len()));
            for (_, e) in o {
                enc(e, s);
            }
        }
    }
}

fn num_text(r: &mut Rng, x: Float) -> String {
    // several spellings of the same / nearly the same number
    if x == x.round() && x.abs() < 1e9 && r.bool() {
        return format!("{}", x as i64); // integer literal -> PosInt / NegInt
    }
    match r.below(4) {
        0 => format!("{:e}", x),
        1 => format!("{:.6}", x),
        _ => format!("{:?}", x),
    }
}

fn flat_text(r: &mut Rng, pts: &[Point3D]) -> Vec<String> {
    let mut v = vec![];
    for p in pts {
        v.push(num_text(r, p.x));
        v.push(num_text(r, p.y));
        v.push(num_text(r, p.z));
    }
    v
}

fn json_case(out: &mut Out, text: &str, as_poly: bool) {
    out.raw(&format!("# json {}", text.replace('\n', "\\n")));
    let parsed: Result<Value, _> = serde_json::from_str(text);
    let res = if as_poly {
        match catch(|| serde_json::from_str::<Polygon3D>(text)) {
            Err(_) => "panic".to_string(),
            Ok(Err(_)) => "err".into(),
            Ok(Ok(pg)) => format!("ok {}", poly_state(&pg)),
        }
    } else {
        match catch(|| serde_json::from_str::<Loop3D>(text)) {
            Err(_) => "panic".to_string(),
            Ok(Err(_)) => "err".into(),
            Ok(Ok(l)) => format!("ok {}", loop_state(&l)),
        }
    };
    match parsed {
        Err(_) => {
            // serde_json itself rejects the text (syntax error, number out of range): the crate's code is not reached
            out.case("json.unparsed", &res);
        }
        Ok(v) => {
            let mut s = String::new();
            enc(&v, &mut s);
            out.case(&format!("{}{}", if as_poly { "json.poly" } else { "json.loop" }, s), &res);
        }
    }
}

pub fn c20(r: &mut Rng, out: &mut Out, n: usize) {
    for case in 0..n {
        let f = any_frame(r);
        let as_poly = r.bool();
        match case % 10 {
            0 => {
                // serialisation of loops
                let o = any_outline(r, 30);
                let pts = placed(&f, &o);
                let res = match build_raw(&pts) {
                    None => "build-err".to_string(),
                    Some(l) => match catch(|| serde_json::to_value(&l)) {
                        Err(_) => "panic".into(),
                        Ok(Err(_)) => "err".into(),
                        Ok(Ok(Value::Array(a))) => {
                            let mut s = format!("{}", a.len());
                            for e in &a {
                                s.push_str(&format!(" {}", hx(e.as_f64().unwrap() as Float)));
                            }
                            s
                        }
                        Ok(Ok(_)) => "not-an-array".into(),
                    },
                };
                out.case(&format!("json.ser.loop {}", hpts(&pts)), &res);
            }
            1 => {
                // serialisation of polygons (= of get_closed_loop)
                let (o, c, rad, _) = outline_with_disc(r);
                let k = r.below(4);
                let hs = holes_in_disc(r, k, c, rad);
                let outer = placed(&f, &o);
                let holes: Vec<Vec<Point3D>> = hs.iter().map(|h| placed(&f, h)).collect();
                let res = match build_raw_polygon(&outer, &holes) {
                    None => "build-err".to_string(),
                    Some(pg) => match catch(|| serde_json::to_value(&pg)) {
                        Err(_) => "panic".into(),
                        Ok(Err(_)) => "err".into(),
                        Ok(Ok(Value::Array(a))) => {
                            let mut s = format!("ok {}", a.len());
                            for e in &a {
                                s.push_str(&format!(" {}", hx(e.as_f64().unwrap() as Float)));
                            }
                            s
                        }
                        Ok(Ok(_)) => "not-an-array".into(),
                    },
                };
                out.case(&format!("json.ser.poly {} {}", hpts(&outer), hholes(&holes)), &res);
            }
            2 | 3 => {
                // valid documents: the crate's own serialisation, read back
                let (o, c, rad, _) = outline_with_disc(r);
                let k = if as_poly { r.below(3) } else { 0 };
                let hs = holes_in_disc(r, k, c, rad);
                let outer = placed(&f, &o);
                let holes: Vec<Vec<Point3D>> = hs.iter().map(|h| placed(&f, h)).collect();
                if let Some(pg) = build_raw_polygon(&outer, &holes) {
                    if let Ok(Ok(text)) = catch(|| serde_json::to_string(&pg)) {
                        json_case(out, &text, as_poly);
                        continue;
                    }
                }
                let text = format!("[{}]", flat_text(r, &outer).join(","));
                json_case(out, &text, as_poly);
            }
            4 => {
                // valid documents with other number spellings
                let o = any_outline(r, 30);
                let pts = placed(&f, &o);
                let text = format!("[{}]", flat_text(r, &pts).join(if r.bool() { "," } else { " ,\n " }));
                json_case(out, &text, as_poly);
            }
            _ => {
                // mutation stream
                let o = any_outline(r, 12);
                let mut o2 = o.clone();
                let mut hs: Vec<f64> = vec![0.; o2.len()];
                // geometric mutations first
                match r.below(8) {
                    0 => {
                        // collinear outline
                        o2 = (0..3 + r.below(3)).map(|i| (i as f64, 2. * i as f64)).collect();
                        hs = vec![0.; o2.len()];
                    }
                    1 => {
                        // non-coplanar
                        let i = r.below(o2.len());
                        hs[i] = if r.bool() { 0.3 } else { 1e-7 * probe(r) };
                    }
                    2 => {
                        // self-crossing: swap two neighbours
                        let i = r.below(o2.len());
                        let j = (i + 1) % o2.len();
                        o2.swap(i, j);
                    }
                    3 => {
                        // too few points
                        let k = r.below(3);
                        o2.truncate(k);
                        hs.truncate(k);
                    }
                    4 => {
                        // repeated points
                        let i = r.below(o2.len());
                        let p = o2[i];
                        o2.insert(i, p);
                        hs.insert(i, 0.);
                        if r.bool() {
                            o2.insert(i, p);
                            hs.insert(i, 0.);
                        }
                    }
                    _ => {}
                }
                let pts: Vec<Point3D> = o2.iter().zip(hs.iter()).map(|(p, h)| place_q(&f, (*p, *h))).collect();
                let mut toks = flat_text(r, &pts);
                // structural mutations
                let text = match r.below(16) {
                    0 => {
                        toks.pop();
                        format!("[{}]", toks.join(","))
                    }
                    1 => {
                        toks.pop();
                        toks.pop();
                        format!("[{}]", toks.join(","))
                    }
                    2 => {
                        toks.push("1.5".into());
                        format!("[{}]", toks.join(","))
                    }
                    3 => {
                        if !toks.is_empty() {
                            let i = r.below(toks.len());
                            toks[i] = r.pick(&["\"1.0\"", "null", "true", "[]", "{}", "[1.0]", "\"x\""]).to_string();
                        }
                        format!("[{}]", toks.join(","))
                    }
                    4 => {
                        // nested arrays of points
                        let inner: Vec<String> = toks.chunks(3).map(|c| format!("[{}]", c.join(","))).collect();
                        format!("[{}]", inner.join(","))
                    }
                    5 => r.pick(&["null", "true", "3.5", "\"loop\"", "{}", "[]", "[null]", "0", "[[]]"]).to_string(),
                    6 => format!("{{\"vertices\":[{}]}}", toks.join(",")),
                    7 => {
                        // number out of range / syntax errors: rejected by serde_json itself
                        if !toks.is_empty() {
                            let i = r.below(toks.len());
                            toks[i] = r.pick(&["1e999", "-1e999", "NaN", "1.", ".5", "0x10", "Infinity"]).to_string();
                        }
                        format!("[{}]", toks.join(","))
                    }
                    8 => {
                        let t = format!("[{}]", toks.join(","));
                        let cut = r.below(t.len().max(1));
                        t[..cut].to_string() // truncated text
                    }
                    9 => {
                        // huge / tiny / special numbers that do parse
                        if !toks.is_empty() {
                            let i = r.below(toks.len());
                            toks[i] = r
                                .pick(&["18446744073709551615", "-9223372036854775808", "1e308", "1e-400", "-0.0", "-0", "1e39", "123456789012345678901234567890"])
                                .to_string();
                        }
                        format!("[{}]", toks.join(","))
                    }
                    10 => {
                        // object / null in the middle at a multiple of three (first slot of a point)
                        if toks.len() >= 3 {
                            let i = 3 * r.below(toks.len() / 3);
                            toks[i] = r.pick(&["null", "{\"x\":1}", "\"a\""]).to_string();
                        }
                        format!("[{}]", toks.join(","))
                    }
                    _ => format!("[{}]", toks.join(",")),
                };
                json_case(out, &text, as_poly);
            }
        }
    }
}
