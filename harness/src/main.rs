//! g3d-harness: runs the real geometry3d crate on generated cases and prints one line per case
//! `op args… => implementation result…` (floats as hex bit patterns).  The Lean driver recomputes
//! every line with the model; the Python oracles judge the implementation results exactly.
#![allow(clippy::all)]
mod common;
mod g_algebra;
mod g_geom;
mod g_mesh;
mod g_prim;
pub mod polygen;

use common::*;

fn main() {
    let args: Vec<String> = std::env::args().collect();
    if args.len() < 4 {
        eprintln!("usage: g3d-harness <group> <seed> <n>");
        std::process::exit(2);
    }
    let group = args[1].as_str();
    let seed: u64 = args[2].parse().expect("seed");
    let n: usize = args[3].parse().expect("n");
    // silence panic messages of the library; panics are caught and reported as outcomes
    std::panic::set_hook(Box::new(|_| {}));
    let mut rng = Rng::new(seed ^ hash_str(group));
    let mut out = Out::new();
    out.raw(&format!("# fmt {}", FMT));
    g_algebra::consts(&mut out);
    match group {
        "consts" => {}
        "c07" => g_algebra::c07(&mut rng, &mut out, n),
        "c17" => g_algebra::c17(&mut rng, &mut out, n),
        "c06" => g_algebra::c06(&mut rng, &mut out, n),
        "c15" => g_algebra::c15(&mut rng, &mut out, n),
        "c14" => g_algebra::c14(&mut rng, &mut out, n),
        "c16" => g_algebra::c16(&mut rng, &mut out, n),
        "c19" => g_geom::c19(&mut rng, &mut out, n),
        "c04" => g_geom::c04(&mut rng, &mut out, n),
        "c05" => g_geom::c05(&mut rng, &mut out, n),
        "c10" => g_geom::c10(&mut rng, &mut out, n),
        "c11" => g_geom::c11(&mut rng, &mut out, n),
        "c12" => g_geom::c12(&mut rng, &mut out, n),
        "c20" => g_geom::c20(&mut rng, &mut out, n),
        "c01" => g_mesh::c01(&mut rng, &mut out, n),
        "c08" => g_mesh::c08(&mut rng, &mut out, n),
        "c09" => g_mesh::c09(&mut rng, &mut out, n),
        "c18" => g_mesh::c18(&mut rng, &mut out, n),
        "c02" => g_prim::c02(&mut rng, &mut out, n),
        "c03" => g_prim::c03(&mut rng, &mut out, n),
        "c13" => g_prim::c13(&mut rng, &mut out, n),
        "c15b" => g_prim::c15b(&mut rng, &mut out, n),
        _ => {
            eprintln!("unknown group {}", group);
            std::process::exit(2);
        }
    }
    out.flush();
}
