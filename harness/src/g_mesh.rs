//! generators for the triangulation layer (triangulation3d.rs): C01 C08 C09 C18
//!
//! Every case that may run `refine` (and every history) is executed in a forked child process with a wall-clock
//! watchdog: a case that does not finish in `limit_ms()` is reported as `# timeout …` (a comment line that the
//! Lean driver skips) plus a note on stderr.
use crate::common::*;
use crate::polygen::*;
use geometry3d::{Loop3D, Point3D, Polygon3D, Triangulation3D, VerifPiece};
use std::collections::BTreeMap;
use std::fmt::Write as _;
use std::panic::AssertUnwindSafe;

// =================================================================================================
// watchdog: run a closure in a forked child, read its answer from a pipe, kill it on timeout

#[repr(C)]
struct PollFd {
    fd: i32,
    events: i16,
    revents: i16,
}
extern "C" {
    fn fork() -> i32;
    fn pipe(fds: *mut i32) -> i32;
    fn read(fd: i32, buf: *mut u8, n: usize) -> isize;
    fn write(fd: i32, buf: *const u8, n: usize) -> isize;
    fn close(fd: i32) -> i32;
    fn poll(fds: *mut PollFd, n: u64, timeout: i32) -> i32;
    fn kill(pid: i32, sig: i32) -> i32;
    fn waitpid(pid: i32, status: *mut i32, opts: i32) -> i32;
    fn _exit(code: i32) -> !;
}

enum Forked {
    Done(String),
    Timeout,
    Abort(i32),
}

/// wall-clock limit of one case in milliseconds (`G3D_LIMIT_MS`, default 1500)
fn limit_ms() -> u64 {
    std::env::var("G3D_LIMIT_MS").ok().and_then(|s| s.parse().ok()).unwrap_or(1500)
}

fn run_forked(limit: u64, f: impl FnOnce() -> String) -> Forked {
    unsafe {
        let mut fds = [0i32; 2];
        if pipe(fds.as_mut_ptr()) != 0 {
            panic!("pipe failed");
        }
        let pid = fork();
        if pid < 0 {
            panic!("fork failed");
        }
        if pid == 0 {
            close(fds[0]);
            let s = f();
            let b = s.as_bytes();
            let mut off = 0usize;
            while off < b.len() {
                let n = write(fds[1], b.as_ptr().add(off), b.len() - off);
                if n <= 0 {
                    _exit(3);
                }
                off += n as usize;
            }
            close(fds[1]);
            _exit(0);
        }
        close(fds[1]);
        let start = std::time::Instant::now();
        let mut buf: Vec<u8> = Vec::new();
        let mut chunk = vec![0u8; 1 << 16];
        loop {
            let el = start.elapsed().as_millis() as u64;
            if el >= limit {
                kill(pid, 9);
                let mut st = 0i32;
                waitpid(pid, &mut st, 0);
                close(fds[0]);
                return Forked::Timeout;
            }
            let mut pfd = PollFd { fd: fds[0], events: 1, revents: 0 };
            let rc = poll(&mut pfd, 1, (limit - el).min(1000) as i32);
            if rc <= 0 {
                continue;
            }
            let n = read(fds[0], chunk.as_mut_ptr(), chunk.len());
            if n <= 0 {
                break;
            }
            buf.extend_from_slice(&chunk[..n as usize]);
        }
        let mut st = 0i32;
        waitpid(pid, &mut st, 0);
        close(fds[0]);
        if st & 0x7f != 0 {
            return Forked::Abort(st & 0x7f);
        }
        if (st >> 8) & 0xff != 0 {
            return Forked::Abort(-((st >> 8) & 0xff));
        }
        Forked::Done(String::from_utf8_lossy(&buf).into_owned())
    }
}

// =================================================================================================
// outcomes, state printing

enum Oc<T> {
    Ok(T),
    Err,
    Panic(String),
}

fn panic_msg(e: Box<dyn std::any::Any + Send>) -> String {
    let m = if let Some(s) = e.downcast_ref::<&str>() {
        s.to_string()
    } else if let Some(s) = e.downcast_ref::<String>() {
        s.clone()
    } else {
        "?".to_string()
    };
    let m: String = m.chars().map(|c| if c == '\n' || c == '\r' { ' ' } else { c }).collect();
    // keep the kind, drop the data; normalise numbers so that equal sites group together
    let cut = m.find(" Triangle 1").unwrap_or(m.len());
    m[..cut].chars().take(90).map(|c| if c.is_ascii_digit() { '#' } else { c }).collect()
}

fn call<T>(f: impl FnOnce() -> Result<T, String>) -> Oc<T> {
    match std::panic::catch_unwind(AssertUnwindSafe(f)) {
        Ok(Ok(t)) => Oc::Ok(t),
        Ok(Err(_)) => Oc::Err,
        Err(e) => Oc::Panic(panic_msg(e)),
    }
}

fn opt_n(o: Option<usize>) -> String {
    match o {
        None => "-".into(),
        Some(n) => format!("{}", n),
    }
}

fn slot_str(s: &mut String, p: &VerifPiece) {
    let _ = write!(
        s,
        "{} {} {} {} {} {} {}{}{} {} {} {} {} {} {}",
        hp(p.vertices[0]),
        hp(p.vertices[1]),
        hp(p.vertices[2]),
        opt_n(p.neighbours[0]),
        opt_n(p.neighbours[1]),
        opt_n(p.neighbours[2]),
        hb(p.constraints[0]),
        hb(p.constraints[1]),
        hb(p.constraints[2]),
        hb(p.valid),
        hx(p.aspect_ratio),
        hp(p.circumcenter),
        hp(p.centroid),
        hx(p.area),
        p.index
    );
}

/// `<slots> <n_valid> ; SLOT ; SLOT …`
fn state_str(t: &Triangulation3D) -> String {
    let st = t.verif_state();
    let mut s = String::with_capacity(64 + st.len() * 420);
    let _ = write!(s, "{} {}", st.len(), t.n_valid_triangles());
    for p in st.iter() {
        s.push_str(" ; ");
        slot_str(&mut s, p);
    }
    s
}

fn fnv64(s: &str) -> u64 {
    let mut h: u64 = 0xcbf29ce484222325;
    for b in s.bytes() {
        h ^= b as u64;
        h = h.wrapping_mul(0x100000001b3);
    }
    h
}

fn digest_str(t: &Triangulation3D) -> String {
    format!("#{:016x} {} {}", fnv64(&state_str(t)), t.n_triangles(), t.n_valid_triangles())
}

fn show_state(digest: bool, t: &Triangulation3D) -> String {
    if digest {
        digest_str(t)
    } else {
        state_str(t)
    }
}

fn tris_str(t: &Triangulation3D) -> String {
    let st = t.verif_state();
    let nv = st.iter().filter(|p| p.valid).count();
    let mut s = format!("{}", nv);
    for p in st.iter().filter(|p| p.valid) {
        let _ = write!(
            s,
            " ; {} {} {} {} {}",
            hp(p.vertices[0]),
            hp(p.vertices[1]),
            hp(p.vertices[2]),
            hx(p.aspect_ratio),
            hx(p.area)
        );
    }
    s
}

/// `get_trilist()` against the slots of the verif hook: `None` when they agree (same length, same corners in the same order)
fn trilist_differs(t: &Triangulation3D) -> Option<String> {
    let st = t.verif_state();
    let tl = t.get_trilist();
    if tl.len() != st.len() {
        return Some(format!("{} {}", tl.len(), st.len()));
    }
    for (i, (tr, p)) in tl.iter().zip(st.iter()).enumerate() {
        let same = |a: Point3D, b: Point3D| a.x.to_bits() == b.x.to_bits() && a.y.to_bits() == b.y.to_bits() && a.z.to_bits() == b.z.to_bits();
        if !(same(tr.a(), p.vertices[0]) && same(tr.b(), p.vertices[1]) && same(tr.c(), p.vertices[2])) {
            return Some(format!("{} {} slot {}", tl.len(), st.len(), i));
        }
    }
    None
}

fn valid_area_sum(t: &Triangulation3D) -> f64 {
    t.verif_state().iter().filter(|p| p.valid).map(|p| p.area as f64).sum()
}

// =================================================================================================
// polygons

#[derive(Clone)]
struct MPoly {
    family: &'static str,
    frame_kind: &'static str,
    outer: Vec<Point3D>,
    holes: Vec<Vec<Point3D>>,
    nholes: usize,
}

fn shoelace(p: &[P2]) -> f64 {
    let n = p.len();
    let mut a = 0.;
    for i in 0..n {
        let (x0, y0) = p[i];
        let (x1, y1) = p[(i + 1) % n];
        a += x0 * y1 - x1 * y0;
    }
    (a * 0.5).abs()
}

fn holes_in_disc(r: &mut Rng, c: P2, rad: f64, k: usize) -> Vec<Vec<P2>> {
    let mut holes = vec![];
    for i in 0..k {
        let n = 3 + r.below(6);
        let (hc, hr) = if k == 1 {
            let off = rad * 0.4 * r.unit();
            let t = r.unit() * 6.28;
            ((c.0 + off * t.cos(), c.1 + off * t.sin()), rad * (0.15 + 0.3 * r.unit()))
        } else {
            let t = (i as f64 + 0.3 * r.unit()) * 6.283 / k as f64;
            ((c.0 + 0.55 * rad * t.cos(), c.1 + 0.55 * rad * t.sin()), rad * (0.1 + 0.12 * r.unit()))
        };
        holes.push(hole(r, n, hc, hr));
    }
    holes
}

/// all polygen families with 3..40 vertices and 0..=max_holes holes of 3..8 vertices
fn gen_poly2(r: &mut Rng, max_holes: usize) -> Poly2 {
    let nh = if max_holes == 0 {
        0
    } else {
        // half of the polygons have no hole
        if r.bool() {
            0
        } else {
            1 + r.below(max_holes)
        }
    };
    if r.below(14) == 0 {
        return probe_collinear(r);
    }
    if max_holes >= 2 && r.below(12) == 0 {
        return shared_corner(r);
    }
    if r.below(24) == 0 {
        return dart(r);
    }
    let (family, outer, c, rad): (&'static str, Vec<P2>, P2, f64) = match r.below(7) {
        0 => {
            let n = 3 + r.below(10);
            let (rx, ry) = (2. + 6. * r.unit(), 2. + 6. * r.unit());
            ("convex", convex(r, n, rx, ry), (0., 0.), 0.45 * rx.min(ry))
        }
        1 => {
            let n = 12 + r.below(29);
            let (rx, ry) = (4. + 4. * r.unit(), 4. + 4. * r.unit());
            ("convex", convex(r, n, rx, ry), (0., 0.), 0.6 * rx.min(ry))
        }
        2 => {
            let n = 5 + r.below(20);
            let rmin = 2. + 3. * r.unit();
            let rmax = rmin * (1.2 + 1.5 * r.unit());
            ("star", star(r, n, rmin, rmax), (0., 0.), 0.55 * rmin)
        }
        3 => {
            let n = 20 + r.below(11);
            let rmin = 4. + 2. * r.unit();
            let rmax = rmin * (1.2 + 0.8 * r.unit());
            ("star", star(r, n, rmin, rmax), (0., 0.), 0.7 * rmin)
        }
        4 => {
            let m = 9 * (1 + r.below(2));
            let steps = 1 + r.below(m);
            let red = r.bool();
            let o = rectilinear(r, steps, red);
            // the column above the first tread is free: x in [0,x1], y in [0,ytop]
            let x1 = o[1].0;
            let ytop = o.iter().fold(0f64, |m, p| m.max(p.1));
            ("rectilinear", o, (x1 * 0.5, ytop * 0.5), 0.45 * (x1 * 0.5).min(ytop * 0.5))
        }
        5 => {
            let teeth = 2 + r.below(8);
            let o = comb(r, teeth);
            let total = (2 * teeth - 1) as f64;
            // the bar y in [0,1] is free
            ("comb", o, (total * 0.5, 0.5), 0.45 * 0.5)
        }
        _ => {
            let (w, h) = (4. + 6. * r.unit().round(), 4. + 6. * r.unit().round());
            (
                "rectangle",
                vec![(-w / 2., -h / 2.), (w / 2., -h / 2.), (w / 2., h / 2.), (-w / 2., h / 2.)],
                (0., 0.),
                0.45 * w.min(h),
            )
        }
    };
    let outer = reverse_if(r, outer);
    let outer = rotate_start(r, outer);
    let holes = holes_in_disc(r, c, rad, nh);
    // drawings on a grid: one polygon with holes in ten has all its coordinates snapped to a quarter of a metre (collinear
    // bridges and edges lining up with vertices become common).  The choice is derived from the coordinates themselves, not
    // drawn, so that the case stream of every seed is otherwise unchanged.
    if nh > 0 && (family == "star" || family == "convex") && outer[0].0.to_bits() % 10 == 0 {
        let snap = |p: &P2| -> P2 { ((p.0 * 4.).round() / 4., (p.1 * 4.).round() / 4.) };
        let dedup = |v: Vec<P2>| -> Vec<P2> {
            let mut o: Vec<P2> = vec![];
            for p in v {
                if o.last() != Some(&p) {
                    o.push(p);
                }
            }
            if o.len() > 1 && o.first() == o.last() {
                o.pop();
            }
            o
        };
        let outer = dedup(outer.iter().map(snap).collect());
        let holes: Vec<Vec<P2>> = holes.iter().map(|h| dedup(h.iter().map(snap).collect())).filter(|h| h.len() >= 3).collect();
        if outer.len() >= 3 {
            return Poly2 { family: "grid", outer, holes };
        }
    }
    Poly2 { family, outer, holes }
}

/// an L-shaped outline whose reflex corner (the origin) is the outline vertex nearest to each of two or three small holes
/// lying in different directions from it: every hole is bridged to that same vertex (or to a vertex of a hole merged before),
/// so `get_closed_loop` has to pick the right copy of a vertex that already carries a bridge, at a reflex corner
fn shared_corner(r: &mut Rng) -> Poly2 {
    let (h, w, d, w2) = (4. + 3. * r.unit(), 4. + 3. * r.unit(), 4. + 3. * r.unit(), 4. + 3. * r.unit());
    let outer = vec![(0., 0.), (0., h), (-w, h), (-w, -d), (w2, -d), (w2, 0.)];
    let k = 2 + r.below(2);
    // directions inside the 270-degree interior wedge (90..360 degrees), well apart from its two sides and from each other
    let mut dirs: Vec<f64> = vec![135., 225., 315.];
    if k == 2 {
        dirs.remove(r.below(3));
    }
    // any order of cutting
    if r.bool() {
        dirs.reverse();
    }
    let mut holes = vec![];
    for t in dirs {
        let t = (t + 30. * (r.unit() - 0.5)).to_radians();
        let rho = 0.9 + 0.8 * r.unit();
        let rad = 0.18 + 0.12 * r.unit();
        let n = 3 + r.below(6);
        holes.push(hole(r, n, (rho * t.cos(), rho * t.sin()), rad));
    }
    let outer = reverse_if(r, outer);
    let outer = rotate_start(r, outer);
    Poly2 { family: "shared-corner", outer, holes }
}

/// a thin chevron: outer apex T, inner apex R a distance `delta` (millimetres to centimetres) straight below it, two wing
/// tips A and B.  Its only internal diagonal is T--R, while every edge is 5..15 cm long and every corner angle is at least 3
/// degrees (146 / 3..8 / 202 / 3..8): a well-conditioned polygon, by the property's own definition, whose every triangulation
/// needs that short chord
fn dart(r: &mut Rng) -> Poly2 {
    let delta = r.pick(&[0.004, 0.008, 0.02]);
    // wing angle theta: the chord TR seen from a wing tip; edge length e ~ delta / sin(theta) must stay >= 5.5 cm
    let th_max = (delta / 0.055f64).min(0.14).asin().to_degrees();
    let th = 3.0 + (th_max - 3.0).max(0.) * r.unit();
    let e = delta / th.to_radians().sin();
    let s = 0.3 * e;
    let outer: Vec<P2> = vec![(0., 0.), (-e, -0.5 * delta - s), (0., -delta), (e, -0.5 * delta - s)];
    let outer = reverse_if(r, outer);
    let outer = rotate_start(r, outer);
    Poly2 { family: "dart", outer, holes: vec![] }
}

/// threshold probe of `is_collinear` (1e-5 on the cross product) inside `push`, `close` and the ear loop, and of the
/// convex-corner test: a rectangle with one extra vertex displaced by `d` from its bottom edge, `|cross| = fac * 1e-5`
fn probe_collinear(r: &mut Rng) -> Poly2 {
    let fac = match r.below(8) {
        0 => 1.0,
        1 => 0.999999,
        2 => 1.000001,
        3 => 10.,
        _ => r.pick(&[0.5, 0.99, 1.01, 2.0]),
    };
    let (w, h) = (1. + 5. * r.unit(), 1. + 3. * r.unit());
    let x = w * (0.2 + 0.6 * r.unit());
    let d = fac * 1e-5 / w * if r.bool() { 1. } else { -1. };
    let outer = vec![(0., 0.), (x, d), (w, 0.), (w, h), (0., h)];
    let outer = reverse_if(r, outer);
    let outer = rotate_start(r, outer);
    let holes = if r.below(4) == 0 { holes_in_disc(r, (w * 0.5, h * 0.5), 0.4 * w.min(h), 1) } else { vec![] };
    Poly2 { family: "probe-collinear", outer, holes }
}

fn poly2_area(p: &Poly2) -> f64 {
    shoelace(&p.outer) - p.holes.iter().map(|h| shoelace(h)).sum::<f64>()
}

fn scale_poly2(p: &Poly2, s: f64) -> Poly2 {
    Poly2 {
        family: p.family,
        outer: p.outer.iter().map(|q| (q.0 * s, q.1 * s)).collect(),
        holes: p.holes.iter().map(|h| h.iter().map(|q| (q.0 * s, q.1 * s)).collect()).collect(),
    }
}

fn place_poly(f: &Frame, p: &Poly2) -> MPoly {
    MPoly {
        family: p.family,
        frame_kind: f.kind,
        outer: placed(f, &p.outer),
        holes: p.holes.iter().map(|h| placed(f, h)).collect(),
        nholes: p.holes.len(),
    }
}

/// push all + close + new + cut_hole; `None` when any call fails or panics (the driver replays exactly this)
fn build(mp: &MPoly) -> Option<Polygon3D> {
    let r = std::panic::catch_unwind(AssertUnwindSafe(|| -> Option<Polygon3D> {
        let raw = |pts: &[Point3D]| -> Option<Loop3D> {
            let mut l = Loop3D::new();
            for p in pts {
                l.push(*p).ok()?;
            }
            l.close().ok()?;
            Some(l)
        };
        let o = raw(&mp.outer)?;
        let mut pg = Polygon3D::new(o).ok()?;
        for h in &mp.holes {
            let hl = raw(h)?;
            pg.cut_hole(hl).ok()?;
        }
        Some(pg)
    }));
    match r {
        Ok(x) => x,
        Err(_) => None,
    }
}

fn poly_str(mp: &MPoly) -> String {
    let mut s = hpts(&mp.outer);
    let _ = write!(s, " {}", mp.holes.len());
    for h in &mp.holes {
        s.push(' ');
        s.push_str(&hpts(h));
    }
    s
}

// =================================================================================================
// statistics (stderr summary)

#[derive(Default)]
struct Stats {
    /// (family/holes, class) -> count
    classes: BTreeMap<(String, String), usize>,
    /// panic kind -> (count, first example line)
    panics: BTreeMap<String, (usize, String)>,
    /// Ok results whose valid triangles do not sum to the polygon area
    area_bad: usize,
    area_checked: usize,
    area_examples: Vec<String>,
    timeouts: usize,
    aborts: usize,
    steps: BTreeMap<String, usize>,
}

impl Stats {
    fn class(&mut self, fam: &str, cls: &str) {
        *self.classes.entry((fam.to_string(), cls.to_string())).or_insert(0) += 1;
    }
    fn panic(&mut self, kind: &str, line: &str) {
        let e = self.panics.entry(kind.to_string()).or_insert((0, String::new()));
        e.0 += 1;
        if e.1.is_empty() {
            e.1 = line.to_string();
        }
    }
    fn report(&self, group: &str) {
        eprintln!("== {} summary ==", group);
        let mut fams: Vec<String> = self.classes.keys().map(|k| k.0.clone()).collect();
        fams.dedup();
        for f in fams {
            let mut s = format!("{:<24}", f);
            for c in ["ok", "err", "panic", "timeout", "build-err", "abort"] {
                if let Some(n) = self.classes.get(&(f.clone(), c.to_string())) {
                    let _ = write!(s, " {}={}", c, n);
                }
            }
            eprintln!("{}", s);
        }
        for (k, (n, ex)) in &self.panics {
            let exs: String = ex.chars().take(4000).collect();
            eprintln!("panic kind [{}] x{}  e.g. {}", k, n, exs);
        }
        eprintln!(
            "area check: {} ok results checked, {} mismatches, timeouts {}, aborts {}",
            self.area_checked, self.area_bad, self.timeouts, self.aborts
        );
        for e in &self.area_examples {
            let exs: String = e.chars().take(6000).collect();
            eprintln!("area mismatch e.g. {}", exs);
        }
        if !self.steps.is_empty() {
            let mut s = String::from("history steps:");
            for (k, n) in &self.steps {
                let _ = write!(s, " {}={}", k, n);
            }
            eprintln!("{}", s);
        }
    }
}

// =================================================================================================
// C01 / C09 / C18 : from_polygon and mesh_polygon

#[derive(Clone, Copy, PartialEq)]
enum Show {
    Full,    // c01: mesh.from_polygon / mesh.mesh_polygon, full state
    Outcome, // c09: mesh.outcome
    Tris,    // c18: mesh.tris
}

/// the answer of the child: lines `rhs`, `class`, `panic kind`, `area sum`, `poly area`
fn mesh_case(mp: &MPoly, refine: Option<(Float, Float)>, show: Show) -> String {
    let pg = match build(mp) {
        None => return "build-err\nbuild-err\n\n0\n0".to_string(),
        Some(pg) => pg,
    };
    let poly_area = pg.area() as f64;
    let r = call(|| match refine {
        None => Triangulation3D::from_polygon(&pg),
        Some((ma, mar)) => Triangulation3D::mesh_polygon(&pg, ma, mar),
    });
    match r {
        Oc::Err => "err\nerr\n\n0\n0".to_string(),
        Oc::Panic(k) => format!("panic\npanic\n{}\n0\n0", k),
        Oc::Ok(t) => {
            // what a user sees is `get_trilist()`: it must be the triangles of the slots, slot by slot (the verif hook shows
            // the same slots with their bookkeeping)
            if let Some(d) = trilist_differs(&t) {
                return format!("trilist-differs {}\ntrilist-differs\n\n0\n0", d);
            }
            let body = match show {
                Show::Full => state_str(&t),
                Show::Outcome => format!("{} {}", t.n_triangles(), t.n_valid_triangles()),
                Show::Tris => tris_str(&t),
            };
            format!("ok {}\nok\n\n{:e}\n{:e}", body, valid_area_sum(&t), poly_area)
        }
    }
}

fn fam_key(mp: &MPoly) -> String {
    format!("{}/{}h", mp.family, mp.nholes)
}

fn emit_mesh_case(
    out: &mut Out,
    st: &mut Stats,
    mp: &MPoly,
    refine: Option<(Float, Float)>,
    show: Show,
) {
    let lhs = match (show, refine) {
        (Show::Full, None) => format!("mesh.from_polygon {}", poly_str(mp)),
        (Show::Full, Some((a, x))) => format!("mesh.mesh_polygon {} {} {}", poly_str(mp), hx(a), hx(x)),
        (Show::Outcome, None) => format!("mesh.outcome 0 {}", poly_str(mp)),
        (Show::Outcome, Some((a, x))) => format!("mesh.outcome 1 {} {} {}", poly_str(mp), hx(a), hx(x)),
        (Show::Tris, None) => format!("mesh.tris {} {} {}", poly_str(mp), hx(Float::MAX), hx(Float::MAX)),
        (Show::Tris, Some((a, x))) => format!("mesh.tris {} {} {}", poly_str(mp), hx(a), hx(x)),
    };
    let refine = match (show, refine) {
        (Show::Tris, None) => Some((Float::MAX, Float::MAX)),
        (_, x) => x,
    };
    let fam = format!("{}{}", fam_key(mp), if refine.is_some() { "+refine" } else { "" });
    let ans = if refine.is_some() {
        run_forked(limit_ms(), || mesh_case(mp, refine, show))
    } else {
        Forked::Done(mesh_case(mp, refine, show))
    };
    match ans {
        Forked::Timeout => {
            st.timeouts += 1;
            st.class(&fam, "timeout");
            eprintln!("note: timeout ({} ms) in {} case, model skipped", limit_ms(), fam);
            out.raw(&format!("# timeout {}", lhs));
        }
        Forked::Abort(sig) => {
            st.aborts += 1;
            st.class(&fam, "abort");
            eprintln!("note: child aborted (signal/exit {}) in {} case, model skipped", sig, fam);
            out.raw(&format!("# abort {}", lhs));
        }
        Forked::Done(s) => {
            let parts: Vec<&str> = s.split('\n').collect();
            let (rhs, cls, kind) = (parts[0], parts[1], parts[2]);
            st.class(&fam, cls);
            let line = format!("{} => {}", lhs, rhs);
            if cls == "panic" {
                st.panic(kind, &line);
                out.raw(&format!("# panic-kind family={} [{}] (next line)", fam, kind));
            }
            if cls == "ok" {
                let sum: f64 = parts[3].parse().unwrap_or(0.);
                let pa: f64 = parts[4].parse().unwrap_or(0.);
                st.area_checked += 1;
                if (sum - pa).abs() > 1e-6 * pa.abs().max(1e-3) {
                    st.area_bad += 1;
                    out.raw(&format!("# area-mismatch family={} triangles={:e} polygon={:e} (next line)", fam, sum, pa));
                    if st.area_examples.len() < 6 {
                        st.area_examples.push(format!("[{} sum {:e} vs polygon {:e}] {}", fam, sum, pa, line));
                    }
                }
            }
            out.raw(&line);
        }
    }
}

/// refinement parameters for a polygon of 2-D area `a2` (may rescale the polygon so that runs stay short)
fn refine_params(r: &mut Rng, p2: &Poly2) -> (Poly2, Float, Float) {
    let max_ar: f64 = match r.below(10) {
        0..=2 => 0.8 + 0.7 * r.unit(),
        3..=6 => 1.5 + 2.5 * r.unit(),
        _ => 4. + 6. * r.unit(),
    };
    let a2 = poly2_area(p2);
    // `refine` ignores triangles below 1e-3: the work is bounded by area/1e-3 triangles when the aspect-ratio
    // bound is demanding; shrink such polygons (and a share of the others)
    let shrink = (max_ar < 1.6 && r.below(40) != 0) || r.below(4) == 0;
    let (p, a) = if shrink {
        let target = (0.02f64.ln() + (0.5f64.ln() - 0.02f64.ln()) * r.unit()).exp();
        let s = (target / a2).sqrt();
        (scale_poly2(p2, s), target)
    } else {
        (p2.clone(), a2)
    };
    let k = match r.below(10) {
        0 => 200. * (10f64).powf(r.unit()), // area/2000 .. area/200
        1..=3 => 20. * (10f64).powf(r.unit()),
        _ => 2. * (10f64).powf(r.unit()),
    };
    ((p), (a / k) as Float, max_ar as Float)
}

fn c01_like(r: &mut Rng, out: &mut Out, n: usize, show: Show, group: &str) {
    let mut st = Stats::default();
    for _ in 0..n {
        let f = any_frame(r);
        let p2 = gen_poly2(r, 3);
        let refine = match show {
            Show::Tris => r.below(10) != 0,
            _ => r.below(10) < 6,
        };
        if refine {
            let (p2, ma, mar) = refine_params(r, &p2);
            let mp = place_poly(&f, &p2);
            emit_mesh_case(out, &mut st, &mp, Some((ma, mar)), show);
        } else {
            let p2 = if r.below(5) == 0 {
                let a2 = poly2_area(&p2);
                let target = (0.02f64.ln() + (0.5f64.ln() - 0.02f64.ln()) * r.unit()).exp();
                scale_poly2(&p2, (target / a2).sqrt())
            } else {
                p2
            };
            let mp = place_poly(&f, &p2);
            emit_mesh_case(out, &mut st, &mp, None, show);
        }
    }
    st.report(group);
}

pub fn c01(r: &mut Rng, out: &mut Out, n: usize) {
    c01_like(r, out, n, Show::Full, "c01");
}
pub fn c09(r: &mut Rng, out: &mut Out, n: usize) {
    // recorded finding (known_findings.json, C09-merge-drops-vertex-shared): a well-conditioned polygon in general position for
    // which from_polygon returns Err — two holes are hooked to the same vertex and push drops a vertex of the merged outline
    #[cfg(not(feature = "float"))]
    {
        let p3 = |v: &[(f64, f64)]| -> Vec<Point3D> { v.iter().map(|p| Point3D::new(p.0, p.1, 0.)).collect() };
        let mp = MPoly {
            family: "regression",
            frame_kind: "xy",
            outer: p3(&[
                (-1.2865690630193998, 4.469626166254279),
                (3.3845524612439446, 3.511952521551846),
                (3.2879686542271918, -0.8162292387393585),
                (0.8493354300752882, -2.9506475565968864),
                (-2.7381675906582013, -2.841236672960086),
                (-3.1801162360668904, 0.7894551704835665),
            ]),
            holes: vec![
                p3(&[(-0.9936217908662166, 0.8841033137599438), (-0.39694528357115577, 0.9099337523950658), (-0.48410496653995305, 1.4479475190251834)]),
                p3(&[(1.267152281112807, 0.6044340253194727), (1.2689369989661388, 1.045060289891185), (0.7353717351113651, 1.05275117999144), (0.9033507061437395, 0.611412644732505)]),
                p3(&[(-0.7880052381857388, -0.24833006250504724), (-0.9716072561928338, -0.6111988491301136), (-0.9787242969713167, -1.0088533396071524), (-0.5387389023061483, -0.9329383014466646), (-0.5013868742644354, -0.5615853433779059)]),
            ],
            nholes: 3,
        };
        let mut st = Stats::default();
        emit_mesh_case(out, &mut st, &mp, None, Show::Outcome);
    }
    c01_like(r, out, n, Show::Outcome, "c09");
}

/// threshold probes of `refine`: `area < 1e-3`, `aspect_ratio > max_aspect_ratio`, `area > max_area`
fn c18_probe(r: &mut Rng, out: &mut Out, st: &mut Stats) {
    let mut f = any_frame(r);
    if r.bool() {
        f.o = Point3D::new(0., 0., 0.);
    }
    let fac = match r.below(8) {
        0 => 1.0,
        1 => 0.999999,
        2 => 1.000001,
        _ => r.pick(&[0.5, 0.99, 1.01, 2.0]),
    };
    match r.below(4) {
        1 => {
            // metre-scale right triangles sharing their hypotenuse (a rectangle, or a right triangle with a second triangle on
            // its hypotenuse): the circumcentre of an oversized right triangle is the midpoint of the hypotenuse, so the first
            // insertion is an EDGE split of a shared edge; the area bound sits between a quarter and a half of the area, so the
            // pieces are small enough and only the aspect-ratio bound can ask for more work
            let (outer, a2): (Vec<P2>, f64) = if r.below(3) == 0 {
                let w = 1. + 3. * r.unit();
                let h = w / (2. + 3. * r.unit());
                (vec![(0., 0.), (w, 0.), (w, h), (0., h)], w * h * (0.27 + 0.2 * r.unit()))
            } else {
                // hypotenuse A=(0,0) -> B=(l,0); right-angle corner C on the circle over AB; the neighbour's apex D on the other
                // side, off the perpendicular bisector, with a smaller area than the right triangle; the area bound lies between
                // the two areas: only the right triangle is oversized, and the edge split halves the (acceptable) neighbour
                let l = 1. + 3. * r.unit();
                let th = (60. + 60. * r.unit()).to_radians();
                let c = (0.5 * l + 0.5 * l * th.cos(), 0.5 * l * th.sin());
                let d = 0.5 * l * th.sin() * (0.6 + 0.3 * r.unit());
                let u = if r.bool() { -0.3 + 0.5 * r.unit() } else { 0.8 + 0.5 * r.unit() };
                let a_rt = 0.25 * l * l * th.sin();
                let a_nb = 0.5 * l * d;
                let t = 0.1 + 0.8 * r.unit();
                (vec![(0., 0.), (u * l, -d), (l, 0.), c], (a_nb * 1.02) * (1. - t) + (a_rt * 0.98) * t)
            };
            let p2 = Poly2 { family: "probe-right", outer: rotate_start(r, outer), holes: vec![] };
            let mp = place_poly(&f, &p2);
            let ma = a2;
            let mar = r.pick(&[1.3, 1.6, 2.0]) as Float;
            emit_mesh_case(out, st, &mp, Some((ma as Float, mar)), Show::Tris);
        }
        0 => {
            // a right triangle (or a rectangle made of two) whose area is fac * 1e-3
            let w = 0.02 + 0.08 * r.unit();
            let two = r.bool();
            let area = fac * 1e-3;
            let h = if two { area / w } else { 2. * area / w };
            let outer: Vec<P2> = if two {
                vec![(0., 0.), (w, 0.), (w, h), (0., h)]
            } else {
                vec![(0., 0.), (w, 0.), (0., h)]
            };
            let p2 = Poly2 { family: "probe-1e-3", outer: rotate_start(r, outer), holes: vec![] };
            let mp = place_poly(&f, &p2);
            // max_area far below, any aspect ratio bound
            let mar = r.pick(&[0.6, 1.0, 3.0]) as Float;
            emit_mesh_case(out, st, &mp, Some(((area / 8.) as Float, mar)), Show::Tris);
        }
        _ => {
            // take the ear-clipping of a small polygon and put a bound exactly at / next to a cached value
            let p2 = gen_poly2(r, 1);
            let a2 = poly2_area(&p2);
            let p2 = scale_poly2(&p2, (0.3 / a2).sqrt());
            let mp = place_poly(&f, &p2);
            let pg = match build(&mp) {
                Some(pg) => pg,
                None => return,
            };
            let t = match call(|| Triangulation3D::from_polygon(&pg)) {
                Oc::Ok(t) => t,
                _ => return,
            };
            let s = t.verif_state();
            if s.is_empty() {
                return;
            }
            let p = s[r.below(s.len())];
            let up = |x: Float, k: i32| -> Float {
                let mut y = x;
                for _ in 0..k.abs() {
                    y = if k > 0 {
                        geometry3d::round_error::verif_next_float_up(y)
                    } else {
                        geometry3d::round_error::verif_next_float_down(y)
                    };
                }
                y
            };
            let k = r.pick(&[-1, 0, 0, 1]);
            if r.bool() {
                // max_aspect_ratio at the cached aspect ratio of one triangle
                let ma = (pg.area() as f64 / (2. + 6. * r.unit())) as Float;
                emit_mesh_case(out, st, &mp, Some((ma, up(p.aspect_ratio, k))), Show::Tris);
            } else {
                let mar = (2. + 4. * r.unit()) as Float;
                emit_mesh_case(out, st, &mp, Some((up(p.area, k), mar)), Show::Tris);
            }
        }
    }
}

pub fn c18(r: &mut Rng, out: &mut Out, n: usize) {
    let mut st = Stats::default();
    let mut k = 0;
    while k < n {
        if r.below(5) == 0 {
            c18_probe(r, out, &mut st);
            k += 1;
            continue;
        }
        let f = any_frame(r);
        let p2 = gen_poly2(r, 3);
        let (p2, ma, mar) = refine_params(r, &p2);
        let mp = place_poly(&f, &p2);
        emit_mesh_case(out, &mut st, &mp, Some((ma, mar)), Show::Tris);
        k += 1;
    }
    st.report("c18");
}

// =================================================================================================
// C08 : histories of single steps

#[derive(Clone, Copy)]
enum Step {
    SE(usize, usize, Point3D),
    ST(usize, Point3D),
    FD(usize, usize),
    RD(Float),
    AP(Point3D),
    RF(Float, Float),
    FA(usize, usize),
}

fn step_str(s: &Step) -> String {
    match s {
        Step::SE(i, e, p) => format!("SE {} {} {}", i, e, hp(*p)),
        Step::ST(i, p) => format!("ST {} {}", i, hp(*p)),
        Step::FD(i, e) => format!("FD {} {}", i, e),
        Step::RD(x) => format!("RD {}", hx(*x)),
        Step::AP(p) => format!("AP {}", hp(*p)),
        Step::RF(a, x) => format!("RF {} {}", hx(*a), hx(*x)),
        Step::FA(i, e) => format!("FA {} {}", i, e),
    }
}
fn step_name(s: &Step) -> &'static str {
    match s {
        Step::SE(..) => "SE",
        Step::ST(..) => "ST",
        Step::FD(..) => "FD",
        Step::RD(..) => "RD",
        Step::AP(..) => "AP",
        Step::RF(..) => "RF",
        Step::FA(..) => "FA",
    }
}

/// applies one step; returns (printed result, class, panic kind, continue?)
fn apply_step(t: &mut Triangulation3D, s: &Step, digest: bool) -> (String, &'static str, String, bool) {
    let unit = |t: &mut Triangulation3D, r: Oc<()>| -> (String, &'static str, String, bool) {
        match r {
            Oc::Ok(()) => (format!("ok {}", show_state(digest, t)), "ok", String::new(), true),
            Oc::Err => (format!("err {}", show_state(digest, t)), "err", String::new(), true),
            Oc::Panic(k) => ("panic".to_string(), "panic", k, false),
        }
    };
    match *s {
        Step::SE(i, e, p) => {
            let r = call(|| t.verif_split_edge(i, e, p));
            unit(t, r)
        }
        Step::ST(i, p) => {
            let r = call(|| t.verif_split_triangle(i, p));
            unit(t, r)
        }
        Step::FD(i, e) => {
            let r = call(|| t.verif_flip_diagonal(i, e));
            unit(t, r)
        }
        Step::RD(x) => {
            let r = call(|| t.verif_restore_delaunay(x));
            unit(t, r)
        }
        Step::RF(a, x) => {
            let r = call(|| t.verif_refine(a, x));
            unit(t, r)
        }
        Step::AP(p) => match call(|| t.verif_add_point(p)) {
            Oc::Ok(b) => (format!("ok {} {}", hb(b), show_state(digest, t)), "ok", String::new(), true),
            Oc::Err => (format!("err {}", show_state(digest, t)), "err", String::new(), true),
            Oc::Panic(k) => ("panic".to_string(), "panic", k, false),
        },
        Step::FA(i, e) => match call(|| t.verif_flipped_aspect_ratio(i, e)) {
            Oc::Ok(None) => ("ok none".to_string(), "ok", String::new(), true),
            Oc::Ok(Some(x)) => (format!("ok some {}", hx(x)), "ok", String::new(), true),
            Oc::Err => ("err".to_string(), "err", String::new(), true),
            Oc::Panic(k) => ("panic".to_string(), "panic", k, false),
        },
    }
}

fn comb3(p: &VerifPiece, w: (f64, f64, f64)) -> Point3D {
    let (a, b, c) = (p.vertices[0], p.vertices[1], p.vertices[2]);
    let (w0, w1, w2) = (w.0 as Float, w.1 as Float, w.2 as Float);
    Point3D::new(
        a.x * w0 + b.x * w1 + c.x * w2,
        a.y * w0 + b.y * w1 + c.y * w2,
        a.z * w0 + b.z * w1 + c.z * w2,
    )
}
/// the point `a + t (b - a)` of edge `e` of the slot
fn edge_point(p: &VerifPiece, e: usize, t: f64) -> Point3D {
    let a = p.vertices[e % 3];
    let b = p.vertices[(e + 1) % 3];
    let t = t as Float;
    if t == 0.5 {
        // the midpoint exactly as the crate computes it
        return Point3D::new((a.x + b.x) * 0.5, (a.y + b.y) * 0.5, (a.z + b.z) * 0.5);
    }
    Point3D::new(a.x + (b.x - a.x) * t, a.y + (b.y - a.y) * t, a.z + (b.z - a.z) * t)
}

fn flippable(t: &Triangulation3D, st: &[VerifPiece]) -> Vec<(usize, usize)> {
    let mut v = vec![];
    for (i, p) in st.iter().enumerate() {
        if !p.valid {
            continue;
        }
        for e in 0..3 {
            if let Oc::Ok(Some(_)) = call(|| t.verif_flipped_aspect_ratio(i, e)) {
                v.push((i, e));
            }
        }
    }
    v
}

/// the canonical list of single steps explored exhaustively at a state
fn canonical_steps(t: &Triangulation3D, total_area: f64) -> Vec<Step> {
    let st = t.verif_state();
    let mut v: Vec<Step> = vec![];
    let mut first_boundary: Option<(usize, usize)> = None;
    let mut first_invalid: Option<usize> = None;
    for (i, p) in st.iter().enumerate() {
        if !p.valid {
            if first_invalid.is_none() {
                first_invalid = Some(i);
            }
            continue;
        }
        for e in 0..3 {
            v.push(Step::SE(i, e, edge_point(p, e, 0.5)));
            match call(|| t.verif_flipped_aspect_ratio(i, e)) {
                Oc::Ok(Some(_)) => v.push(Step::FD(i, e)),
                _ => {}
            }
            if p.neighbours[e].is_none() && first_boundary.is_none() {
                first_boundary = Some((i, e));
            }
        }
        v.push(Step::ST(i, p.centroid));
    }
    v.push(Step::RD(0.9));
    v.push(Step::RF((total_area / 6.) as Float, 1.5));
    if let Some(p) = st.iter().find(|p| p.valid) {
        v.push(Step::AP(p.centroid));
        v.push(Step::AP(edge_point(p, 1, 0.5)));
        // inadmissible: split a triangle at one of its own vertices (Err after the invalidation)
        v.push(Step::ST(p.index, p.vertices[1]));
    }
    // inadmissible: flip across a boundary edge (panic), steps on an invalid / missing slot
    if let Some((i, e)) = first_boundary {
        v.push(Step::FD(i, e));
        v.push(Step::FA(i, e));
    }
    let bad = first_invalid.unwrap_or(st.len());
    let p0 = st.iter().find(|p| p.valid).map(|p| p.centroid).unwrap_or(Point3D::new(0., 0., 0.));
    v.push(Step::SE(bad, 0, p0));
    v.push(Step::ST(bad, p0));
    v
}

struct Shape {
    name: &'static str,
    outer: Vec<P2>,
    holes: Vec<Vec<P2>>,
}

fn shapes(r: &mut Rng, jitter: bool) -> Vec<Shape> {
    let mut j = |x: f64| -> f64 {
        if jitter {
            x + 0.3 * (r.unit() - 0.5)
        } else {
            x
        }
    };
    let hex: Vec<P2> = (0..6)
        .map(|i| {
            let t = i as f64 * std::f64::consts::PI / 3.;
            (3. * t.cos(), 3. * t.sin())
        })
        .collect();
    vec![
        Shape { name: "triangle", outer: vec![(j(0.), j(0.)), (j(4.), j(0.)), (j(1.), j(3.))], holes: vec![] },
        Shape { name: "square", outer: vec![(0., 0.), (4., 0.), (4., 4.), (0., 4.)], holes: vec![] },
        Shape { name: "rectangle", outer: vec![(0., 0.), (j(6.), 0.), (j(6.), j(2.)), (0., j(2.))], holes: vec![] },
        Shape { name: "quad", outer: vec![(j(0.), j(0.)), (j(5.), j(0.5)), (j(4.), j(3.)), (j(0.5), j(4.))], holes: vec![] },
        Shape { name: "dart", outer: vec![(j(0.), j(0.)), (j(4.), j(0.)), (j(1.2), j(1.2)), (j(0.), j(4.))], holes: vec![] },
        Shape {
            name: "L-shape",
            outer: vec![(0., 0.), (4., 0.), (4., 2.), (2., 2.), (2., 4.), (0., 4.)],
            holes: vec![],
        },
        Shape { name: "hexagon", outer: hex.iter().map(|p| (j(p.0), j(p.1))).collect(), holes: vec![] },
        Shape {
            name: "square+hole",
            outer: vec![(0., 0.), (6., 0.), (6., 6.), (0., 6.)],
            holes: vec![vec![(j(2.), j(2.)), (j(4.), j(2.5)), (j(3.), j(4.))]],
        },
        Shape {
            name: "square+sqhole",
            outer: vec![(0., 0.), (6., 0.), (6., 6.), (0., 6.)],
            holes: vec![vec![(2., 2.), (2., 4.), (4., 4.), (4., 2.)]],
        },
    ]
}

fn rev_rot(r: &mut Rng, v: Vec<P2>) -> Vec<P2> {
    let v = reverse_if(r, v);
    rotate_start(r, v)
}

fn shape_poly(r: &mut Rng, sh: &Shape, f: &Frame, shuffle: bool) -> MPoly {
    let outer = if shuffle { rev_rot(r, sh.outer.clone()) } else { sh.outer.clone() };
    let holes: Vec<Vec<P2>> = sh
        .holes
        .iter()
        .map(|h| if shuffle { rev_rot(r, h.clone()) } else { h.clone() })
        .collect();
    let p2 = Poly2 { family: sh.name, outer, holes };
    place_poly(f, &p2)
}

/// the answer of the child for one history: lines `lhs`, `rhs`, `class of the last step`, `panic kind`,
/// `step names`, `area sum (or -1)`, `polygon area`
fn hist_answer(mp: &MPoly, digest: bool, choose: &mut dyn FnMut(&Triangulation3D, usize, f64) -> Option<Step>) -> String {
    let mut lhs_steps: Vec<String> = vec![];
    let mut res: Vec<String> = vec![];
    let mut names: Vec<&'static str> = vec![];
    let pg = match build(mp) {
        None => return format!("mesh.hist {} {} 0\nbuild-err\nbuild-err\n\n\n-1\n0", hb(digest), poly_str(mp)),
        Some(pg) => pg,
    };
    let total = pg.area() as f64;
    let mut cls: &'static str;
    let mut kind = String::new();
    let mut area = -1.0f64;
    match call(|| Triangulation3D::from_polygon(&pg)) {
        Oc::Err => {
            res.push("err".into());
            cls = "err";
        }
        Oc::Panic(k) => {
            res.push("panic".into());
            cls = "panic";
            kind = k;
        }
        Oc::Ok(mut t) => {
            res.push(format!("ok {}", show_state(digest, &t)));
            cls = "ok";
            let mut alive = true;
            let mut k = 0usize;
            while alive {
                let s = match choose(&t, k, total) {
                    Some(s) => s,
                    None => break,
                };
                lhs_steps.push(step_str(&s));
                names.push(step_name(&s));
                let (txt, c, kd, cont) = apply_step(&mut t, &s, digest);
                if cont {
                    let truev = t.verif_state().iter().filter(|p| p.valid).count();
                    if t.n_valid_triangles() > t.n_triangles() {
                        names.push("state:counter-wrapped");
                    } else if t.n_valid_triangles() != truev {
                        names.push("state:counter-drift");
                    }
                }
                res.push(txt);
                cls = c;
                if c == "panic" {
                    kind = kd;
                }
                alive = cont;
                k += 1;
            }
            if alive {
                if digest {
                    res.push(format!("final {}", state_str(&t)));
                }
                area = valid_area_sum(&t);
            }
        }
    }
    let lhs = format!("mesh.hist {} {} {}{}{}", hb(digest), poly_str(mp), lhs_steps.len(),
        if lhs_steps.is_empty() { "" } else { " " }, lhs_steps.join(" "));
    format!("{}\n{}\n{}\n{}\n{}\n{:e}\n{:e}", lhs, res.join(" | "), cls, kind, names.join(","), area, total)
}

/// a random step: mostly admissible for the current mesh, sometimes not
fn random_step(r: &mut Rng, t: &Triangulation3D, total: f64, allow_panicky: bool) -> Step {
    let st = t.verif_state();
    let valid: Vec<usize> = st.iter().enumerate().filter(|(_, p)| p.valid).map(|(i, _)| i).collect();
    let invalid: Vec<usize> = st.iter().enumerate().filter(|(_, p)| !p.valid).map(|(i, _)| i).collect();
    if valid.is_empty() {
        return Step::RD(1.0);
    }
    let vi = valid[r.below(valid.len())];
    let p = st[vi];
    let bary = |r: &mut Rng| -> (f64, f64, f64) {
        let (a, b, c) = (0.05 + r.unit(), 0.05 + r.unit(), 0.05 + r.unit());
        let s = a + b + c;
        (a / s, b / s, c / s)
    };
    let w = r.below(100);
    if w < 30 {
        let e = r.below(3);
        let tt = if r.bool() { 0.5 } else { 0.1 + 0.8 * r.unit() };
        Step::SE(vi, e, edge_point(&p, e, tt))
    } else if w < 50 {
        let b = bary(r);
        Step::ST(vi, comb3(&p, b))
    } else if w < 65 {
        let fl = flippable(t, &st);
        if fl.is_empty() {
            Step::FA(vi, r.below(3))
        } else {
            let (i, e) = fl[r.below(fl.len())];
            Step::FD(i, e)
        }
    } else if w < 73 {
        Step::RD((0.6 + 2.4 * r.unit()) as Float)
    } else if w < 83 {
        match r.below(10) {
            0..=5 => {
                let b = bary(r);
                Step::AP(comb3(&p, b))
            }
            6 | 7 => {
                let e = r.below(3);
                let tt = if r.bool() { 0.5 } else { 0.1 + 0.8 * r.unit() };
                Step::AP(edge_point(&p, e, tt))
            }
            8 => Step::AP(p.vertices[r.below(3)]),
            _ => {
                // outside the polygon: far along an edge direction, or slightly beyond an edge
                let e = r.below(3);
                Step::AP(edge_point(&p, e, if r.bool() { 40. } else { -0.3 }))
            }
        }
    } else if w < 85 {
        Step::RF((total / (2. + 18. * r.unit())) as Float, (1.2 + 3.8 * r.unit()) as Float)
    } else if w < 90 {
        Step::FA(vi, r.below(3))
    } else {
        // inadmissible stream
        let bad_slot = |r: &mut Rng| -> usize {
            if !invalid.is_empty() && r.below(4) != 0 {
                invalid[r.below(invalid.len())]
            } else if allow_panicky {
                st.len() + r.below(2)
            } else if !invalid.is_empty() {
                invalid[r.below(invalid.len())]
            } else {
                vi
            }
        };
        match r.below(if allow_panicky { 12 } else { 8 }) {
            0 => Step::SE(bad_slot(r), r.below(3), p.centroid),
            1 => Step::ST(bad_slot(r), p.centroid),
            // point outside the triangle
            2 => Step::ST(vi, comb3(&p, (1.4, -0.7, 0.3))),
            // point at a vertex / on an edge: `Triangle3D::new` fails after the invalidation
            3 => Step::ST(vi, p.vertices[r.below(3)]),
            4 => Step::ST(vi, edge_point(&p, r.below(3), 0.5)),
            // split an edge at one of its end points / at a point off the edge
            5 => {
                let e = r.below(3);
                Step::SE(vi, e, p.vertices[(e + r.below(2)) % 3])
            }
            6 => Step::SE(vi, r.below(3), p.centroid),
            7 => {
                // flipped aspect ratio of a constrained / boundary edge (Ok(None))
                let e = (0..3).find(|e| p.constraints[*e] || p.neighbours[*e].is_none()).unwrap_or(0);
                Step::FA(vi, e)
            }
            // the panicky ones (they end the history)
            8 => {
                let e = (0..3).find(|e| p.neighbours[*e].is_none()).unwrap_or(r.below(3));
                Step::FD(vi, e)
            }
            9 => Step::FD(bad_slot(r), r.below(3)),
            10 => Step::FA(bad_slot(r), r.below(3)),
            _ => match r.below(3) {
                0 => Step::SE(vi, 3, p.centroid),
                1 => Step::FD(vi, 3 + r.below(2)),
                _ => Step::FA(vi, 3),
            },
        }
    }
}

fn is_convex_case(r: &mut Rng, out: &mut Out) {
    let mut f = any_frame(r);
    if r.bool() {
        f.o = Point3D::new(0., 0., 0.);
    }
    let eps = Float::EPSILON as f64;
    let fac = match r.below(8) {
        0 => 1.0,
        1 => 0.999999,
        2 => 1.000001,
        _ => r.pick(&[0.5, 0.99, 1.01, 2.0]),
    };
    let mut q: Vec<(P2, f64)> = match r.below(8) {
        0 | 1 => {
            // convex quad (either winding)
            let (rx, ry) = (1. + 3. * r.unit(), 1. + 3. * r.unit());
            let c = convex(r, 4, rx, ry);
            reverse_if(r, c).into_iter().map(|p| (p, 0.)).collect()
        }
        2 => {
            // reflex quad
            let d = 0.2 + 1.2 * r.unit();
            let v = vec![(0., 0.), (4., 0.), (d, d), (0., 4.)];
            rev_rot(r, v).into_iter().map(|p| (p, 0.)).collect()
        }
        3 => {
            // a collinear triple somewhere in the cycle
            let t = 0.1 + 0.8 * r.unit();
            let v = vec![(0., 0.), (4. * t, 0.), (4., 0.), (2., 3.)];
            rev_rot(r, v).into_iter().map(|p| (p, 0.)).collect()
        }
        4 => {
            // bow-tie / repeated points
            let c = convex(r, 4, 2., 2.);
            let v = if r.bool() { vec![c[0], c[2], c[1], c[3]] } else { vec![c[0], c[1], c[1], c[3]] };
            v.into_iter().map(|p| (p, 0.)).collect()
        }
        5 => {
            // `is_zero` probe: a corner whose cross product is fac * 100 eps
            let d = fac * 100. * eps;
            let v = vec![(0., 0.), (1., 0.), (2., d), (1., 1.)];
            rotate_start(r, v).into_iter().map(|p| (p, 0.)).collect()
        }
        6 => {
            // `is_parallel` probe (1e-5 on |d^2 - a^2 b^2|): one vertex lifted off the plane
            let h = (fac * 1e-5f64).sqrt() * r.pick(&[0.5, 0.7, 1.0, 1.4, 2.0]);
            let v = vec![((0., 0.), 0.), ((1., 0.), 0.), ((1., 1.), 0.), ((0., 1.), h)];
            let k = r.below(4);
            let mut w = v[k..].to_vec();
            w.extend_from_slice(&v[..k]);
            w
        }
        _ => {
            // quad lifted by a random height
            let c = convex(r, 4, 2., 2.);
            let h = 10f64.powf(-5. + 4. * r.unit());
            c.into_iter().enumerate().map(|(i, p)| (p, if i == 2 { h } else { 0. })).collect()
        }
    };
    if q.len() != 4 {
        q.truncate(4);
    }
    let pts: Vec<Point3D> = q.iter().map(|(p, h)| f.place_h(*p, *h)).collect();
    let lhs = format!("mesh.is_convex {} {} {} {}", hp(pts[0]), hp(pts[1]), hp(pts[2]), hp(pts[3]));
    let rhs = guarded(|| hb(Triangulation3D::verif_is_convex(pts[0], pts[1], pts[2], pts[3])).to_string());
    out.case(&lhs, &rhs);
}

fn absorb_hist(out: &mut Out, st: &mut Stats, name: &str, ans: Forked, seed_note: &str) {
    match ans {
        Forked::Timeout => {
            st.timeouts += 1;
            st.class(name, "timeout");
            eprintln!("note: timeout ({} ms) in history {} ({}), model skipped", limit_ms(), name, seed_note);
            out.raw(&format!("# timeout mesh.hist {} {}", name, seed_note));
        }
        Forked::Abort(sig) => {
            st.aborts += 1;
            st.class(name, "abort");
            eprintln!("note: child aborted ({}) in history {} ({}), model skipped", sig, name, seed_note);
            out.raw(&format!("# abort mesh.hist {} {}", name, seed_note));
        }
        Forked::Done(s) => {
            let parts: Vec<&str> = s.split('\n').collect();
            let (lhs, rhs, cls, kind, names) = (parts[0], parts[1], parts[2], parts[3], parts[4]);
            st.class(name, cls);
            let line = format!("{} => {}", lhs, rhs);
            if cls == "panic" {
                st.panic(kind, &line);
                out.raw(&format!("# panic-kind history={} [{}] (next line)", name, kind));
            }
            for n in names.split(',').filter(|s| !s.is_empty()) {
                *st.steps.entry(n.to_string()).or_insert(0) += 1;
            }
            for rs in rhs.split(" | ").skip(1) {
                let c = rs.split(' ').next().unwrap_or("");
                *st.steps.entry(format!("res:{}", c)).or_insert(0) += 1;
            }
            out.raw(&line);
        }
    }
}

pub fn c08(r: &mut Rng, out: &mut Out, n: usize) {
    let mut st = Stats::default();
    // exhaustive exploration: fixed shapes, the frame and the starting offset of the path counter come from the seed
    let fixed = shapes(r, false);
    let frames: Vec<Frame> = (0..fixed.len()).map(|_| any_frame(r)).collect();
    let offset = r.next() % 1000;
    let mut counters: Vec<u64> = vec![0; fixed.len()];
    let mut next_shape = 0usize;
    for _ in 0..n {
        let w = r.below(100);
        if w < 8 {
            is_convex_case(r, out);
        } else if w < 60 {
            // one path of the exhaustive tree of shape `si`
            let si = next_shape % fixed.len();
            next_shape += 1;
            let c = counters[si];
            counters[si] += 1;
            let depth = if fixed[si].outer.len() <= 4 && fixed[si].holes.is_empty() { 3 } else { 2 };
            let mp = shape_poly(r, &fixed[si], &frames[si], false);
            let ans = run_forked(limit_ms(), || {
                let mut code = c;
                let mut first = true;
                let mut choose = |t: &Triangulation3D, k: usize, total: f64| -> Option<Step> {
                    if k >= depth {
                        return None;
                    }
                    let steps = canonical_steps(t, total);
                    let len = steps.len() as u64;
                    let d = if first { (code + offset) % len } else { code % len };
                    first = false;
                    code /= len;
                    Some(steps[d as usize])
                };
                hist_answer(&mp, false, &mut choose)
            });
            absorb_hist(out, &mut st, fixed[si].name, ans, &format!("path {}", c));
        } else if w < 66 {
            // attrition: failing splits leave invalid slots and stale neighbour pointers behind; later steps run into them
            // (double invalidation, `n_valid_triangles` drifting below the true count and finally wrapping around)
            let jit = shapes(r, true);
            let si = r.below(jit.len());
            let f = any_frame(r);
            let mp = shape_poly(r, &jit[si], &f, true);
            let child_seed = r.next();
            let ans = run_forked(limit_ms(), || {
                let mut cr = Rng::new(child_seed);
                let mut choose = |t: &Triangulation3D, k: usize, _total: f64| -> Option<Step> {
                    if k >= 60 {
                        return None;
                    }
                    let st = t.verif_state();
                    let valid: Vec<usize> = st.iter().enumerate().filter(|(_, p)| p.valid).map(|(i, _)| i).collect();
                    if valid.is_empty() {
                        return None;
                    }
                    let mut stale: Vec<(usize, usize)> = vec![];
                    for &i in &valid {
                        for e in 0..3 {
                            if let Some(nb) = st[i].neighbours[e] {
                                if nb < st.len() && !st[nb].valid {
                                    stale.push((i, e));
                                }
                            }
                        }
                    }
                    // once the counter has drifted below the true number of valid slots, drain the mesh: the counter
                    // reaches 0 first and the next invalidation wraps it around
                    let drift = valid.len() as i128 - t.n_valid_triangles() as i128;
                    if drift > 0 && cr.below(10) < 8 {
                        let i = valid[cr.below(valid.len())];
                        return Some(Step::ST(i, st[i].vertices[0]));
                    }
                    if !stale.is_empty() && cr.below(10) < 6 {
                        let (i, e) = stale[cr.below(stale.len())];
                        return Some(match cr.below(12) {
                            0 => Step::FD(i, e),
                            1 => Step::FA(i, e),
                            _ => Step::SE(i, e, edge_point(&st[i], e, 0.5)),
                        });
                    }
                    let i = valid[cr.below(valid.len())];
                    let e = cr.below(3);
                    Some(match cr.below(12) {
                        0..=6 => Step::ST(i, st[i].vertices[cr.below(3)]),
                        7 => Step::FA(i, e),
                        8 => Step::RD((0.6 + 2. * cr.unit()) as Float),
                        9 => Step::AP(comb3(&st[i], (0.3, 0.3, 0.4))),
                        10 => Step::SE(i, e, st[i].vertices[e]),
                        _ => Step::SE(i, e, edge_point(&st[i], e, 0.5)),
                    })
                };
                hist_answer(&mp, false, &mut choose)
            });
            absorb_hist(out, &mut st, "attrition", ans, &format!("child seed {}", child_seed));
        } else {
            // a random history on a jittered shape in a random frame
            let jit = shapes(r, true);
            let si = r.below(jit.len());
            let f = any_frame(r);
            let mp = shape_poly(r, &jit[si], &f, true);
            let len = match r.below(20) {
                0 => 120 + r.below(180),
                1..=5 => 40 + r.below(80),
                _ => 3 + r.below(38),
            };
            let child_seed = r.next();
            let digest = len > 12;
            let ans = run_forked(limit_ms(), || {
                let mut cr = Rng::new(child_seed);
                let mut choose = |t: &Triangulation3D, k: usize, total: f64| -> Option<Step> {
                    if k >= len {
                        return None;
                    }
                    // panicky steps only near the end, so that long histories stay long
                    Some(random_step(&mut cr, t, total, k + 3 >= len))
                };
                hist_answer(&mp, digest, &mut choose)
            });
            absorb_hist(out, &mut st, jit[si].name, ans, &format!("child seed {}", child_seed));
        }
    }
    st.report("c08");
}
