#!/bin/bash
# usage: tools_seeded_batch.sh <letter...> -- <prop...> ; confirms and runs seeded changes sequentially (one /repo patch at a time)
letters=(); while [ "$1" != "--" ]; do letters+=("$1"); shift; done; shift
cd /verif
for p in "$@"; do
  for x in "${letters[@]}"; do
    [ -d /tmp/mut/$p/OUT/$x ] || { echo "$p-$x: no output"; continue; }
    r=$(python3 tools_seeded.py confirm $p $x | python3 -c "import json,sys; d=json.load(sys.stdin); print(d['ok'], {k:v for k,v in d.items() if k not in ('ok',) and not k.startswith('tail')} if not d['ok'] else '')")
    echo "$p-$x confirm: $r"
    case "$r" in True*) python3 tools_seeded.py run $p-$x | python3 -c "
import json,sys
d=json.load(sys.stdin)
for k,v in d.items():
    print('   check', k, 'detected' if isinstance(v,dict) and v.get('detected') else 'MISSED', (v.get('lines') if isinstance(v,dict) else v))
" ;; esac
  done
done
