#!/usr/bin/env python3
"""print the failing loop.hist cases of the last C04 run step by step: tools_c04show.py [key] [max]"""
import sys, glob
sys.path.insert(0, '/verif')
from oracle import common as OC, c04
key = sys.argv[1] if len(sys.argv) > 1 else None
mx = int(sys.argv[2]) if len(sys.argv) > 2 else 3
k = 0
for f in sorted(glob.glob('/verif/work/C04/cases-*.txt')):
    for t in open(f):
        t = t.rstrip('\n')
        if not t.startswith('loop.hist'): continue
        ln = OC.Line(t); v = c04.judge(ln)
        if v[0] != 'fail' or (key and v[1] != key): continue
        print('==', v)
        A = ln.args; n = int(A[0]); i = 1; steps = []
        for _ in range(n):
            if A[i] == 'C': steps.append('C'); i += 1
            else: steps.append(tuple(OC.to_float(x) for x in A[i+1:i+4])); i += 4
        for st, g in zip(steps, c04.parse_groups(ln.res)):
            cls, S = c04.state_of(g)
            print('  ', st if st == 'C' else tuple(round(c, 7) for c in st), '->', cls, None if S is None else (len(S.pts), 'closed' if S.closed else 'open'))
        k += 1
        if k >= mx: sys.exit(0)
