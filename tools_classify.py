#!/usr/bin/env python3
"""debug helper: classify oracle failures of the last run of a property:  tools_classify.py C02 c02 [n examples]"""
import sys,glob,collections,importlib; sys.path.insert(0,'/verif')
from oracle import common as OC
pid, orc = sys.argv[1], sys.argv[2]
nex = int(sys.argv[3]) if len(sys.argv)>3 else 1
m = importlib.import_module('oracle.'+orc)
c=collections.Counter(); ex=collections.defaultdict(list)
for f in glob.glob('/verif/work/%s/cases-*.txt'%pid):
    for t in open(f):
        t=t.rstrip('\n')
        if not t or t[0]=='#': continue
        ln=OC.Line(t)
        try: v=m.judge(ln)
        except Exception as e: v=('fail','exception',repr(e))
        if v[0]=='fail':
            k=(ln.op,v[1]); c[k]+=1
            if len(ex[k])<nex: ex[k].append((v[2] if len(v)>2 else '', t))
for k,v in c.most_common(): 
    print(v,k)
    for d,t in ex[k]: print('     ',d); print('     ',t[:700])
