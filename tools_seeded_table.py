import json,re,sys,glob,os
def row(sid):
    d=json.load(open('/verif/seeded/%s/meta.json'%sid))
    summ=d.get('summary','').replace('|','\\|').replace('\n',' ')
    if len(summ)>230: summ=summ[:229]+'…'
    parts=[]
    for chk,v in d.get('check_results',{}).items():
        if not isinstance(v,dict): continue
        lines=' '.join(v.get('lines',[]))
        m=re.search(r'fail=(\d+)',lines); m2=re.search(r'cases=(\d+) model-agrees=(\d+)',lines)
        f=int(m.group(1)) if m else 0; dis=(int(m2.group(1))-int(m2.group(2))) if m2 else 0
        if not v.get('detected'):
            parts.append('%s: silent'%chk + (' (correctly: the change breaks %s)'%d.get('breaks') if d.get('breaks')!=chk else '')); continue
        nf='no-failing-input-found' in lines
        if f>0 and dis>0: parts.append('%s: oracle (%d) + correspondence (%d)'%(chk,f,dis))
        elif f>0: parts.append('%s: oracle (%d)'%(chk,f))
        elif dis>0: parts.append('%s: correspondence (%d)%s'%(chk,dis,', `no-failing-input-found`' if nf else ''))
        else: parts.append('%s: proof obligation / build%s'%(chk,', `no-failing-input-found`' if nf else ''))
    extra=' (at 2d3851b: these lines were rewritten by 644d823)' if d.get('obsolete_since') else ''
    return '| %s | %s | %s |'%(sid,summ,'; '.join(parts)+extra)
letters=sys.argv[1]
ids=sorted(os.path.basename(p) for p in glob.glob('/verif/seeded/C*-[%s]'%letters))
print('| seeded | what | caught by (quick tier, seed 1) |\n|---|---|---|')
for i in ids: print(row(i))
