#!/usr/bin/env python3
"""Run one oracle over a case file exactly the way ./check does (without the model driver):
   tools_oracle_run.py <oracle module, e.g. c19> <cases.txt> [f32] [max examples per key]
prints verdict counts and, per failure key, a few failing lines."""
import sys, importlib, collections
sys.path.insert(0, '/verif')
from oracle import common as OC
name, path = sys.argv[1], sys.argv[2]
f32 = len(sys.argv) > 3 and sys.argv[3] == 'f32'
mx = int(sys.argv[4]) if len(sys.argv) > 4 else 3
OC.set_fmt('f32' if f32 else 'f64')
orc = importlib.import_module('oracle.' + name)
if hasattr(orc, 'begin'): orc.begin()
ok = 0; skips = collections.Counter(); fails = collections.defaultdict(list); ops = collections.Counter()
for text in open(path):
    text = text.rstrip('\n')
    if text.startswith('#') and hasattr(orc, 'comment'):
        cv = orc.comment(text)
        if cv is not None and cv[0] == 'fail': fails[('comment', cv[1])].append((cv[2] if len(cv) > 2 else cv[1], text))
    if not text or text.startswith('#'): continue
    ln = OC.Line(text); ops[ln.op] += 1
    try: v = orc.judge(ln)
    except Exception as e: v = ('fail', 'oracle-exception', repr(e))
    if len(v) == 2: v = (v[0], v[1], v[1])
    if v[0] == 'ok': ok += 1
    elif v[0] == 'skip': skips[(ln.op, v[1])] += 1
    else: fails[(ln.op, v[1])].append((v[2], text))
print('ops', dict(ops)); print('ok', ok); print('skipped', dict(skips)); print('failed', {k: len(v) for k, v in fails.items()})
for k, v in fails.items():
    print(len(v), k)
    for d, t in v[:mx]: print('     ', d); print('     ', t[:1500])
