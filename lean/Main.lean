import G3d.Driver
def main (args : List String) : IO UInt32 := G3d.driverMain args
