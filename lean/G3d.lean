import G3d.Num
import G3d.NumFloat
import G3d.Model.Vec
import G3d.Model.Approx
import G3d.Model.BBox
import G3d.Model.Transform
