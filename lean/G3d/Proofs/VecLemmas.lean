import G3d.Proofs.TransformReal
import G3d.Model.Vec
/-! Unfolding lemmas for `V3` (any scalar type) and basic exact-arithmetic vector algebra. -/
namespace G3d
open Num

section generic
variable {α : Type} [Num α]
theorem V3.add_def (a b : V3 α) : a + b = ⟨a.x + b.x, a.y + b.y, a.z + b.z⟩ := rfl
theorem V3.sub_def (a b : V3 α) : a - b = ⟨a.x - b.x, a.y - b.y, a.z - b.z⟩ := rfl
theorem V3.neg_def (a : V3 α) : -a = ⟨-a.x, -a.y, -a.z⟩ := rfl
end generic

/-- unfold every vector operation into components (exact instance), then normalise the scalar operations -/
macro "vec_real" : tactic =>
  `(tactic| (simp only [V3.add_def, V3.sub_def, V3.neg_def, V3.smul, V3.sdiv, V3.dot, V3.cross, V3.lengthSquared,
      V3.length, V3.abs, V3.normalize, Ray.project, V3.mk.injEq]; num_real))
macro "vec_real_at" h:ident : tactic =>
  `(tactic| (simp only [V3.add_def, V3.sub_def, V3.neg_def, V3.smul, V3.sdiv, V3.dot, V3.cross, V3.lengthSquared,
      V3.length, V3.abs, V3.normalize, Ray.project, V3.mk.injEq] at $h:ident; num_real_at $h))

@[ext] theorem V3.ext' {a b : V3 ℝ} (hx : a.x = b.x) (hy : a.y = b.y) (hz : a.z = b.z) : a = b := by
  cases a; cases b; simp_all

end G3d
