import G3d.Proofs.VecLemmas
import Mathlib.Tactic.Ring
import Mathlib.Tactic.Linarith
/-!
# Vector-area ("shoelace") algebra over ℝ

`pathSum [v₀,…,v_k] = Σ v_i × v_{i+1}` (open path) and `cyc vs = pathSum (vs ++ [v₀])` (closed outline): twice the vector
area.  The lemmas are the algebra behind C10 (start vertex, reversal, translation, redundant collinear points) and C12/C01
(a bridge traversed once in each direction encloses nothing; cutting an ear).
-/
namespace G3d.Shoelace
open G3d Num

noncomputable section

/-- prove an identity between `V3 ℝ` expressions componentwise (opaque vectors are atoms) -/
macro "v3_ring" : tactic =>
  `(tactic| (apply V3.ext' <;>
      simp only [V3.add_def, V3.sub_def, V3.neg_def, V3.smul, V3.cross, V3.zero] <;> num_real <;> ring))

def pathSum : List (V3 ℝ) → V3 ℝ
  | [] => ⟨0, 0, 0⟩
  | [_] => ⟨0, 0, 0⟩
  | a :: b :: t => a.cross b + pathSum (b :: t)

/-- twice the vector area of the closed outline -/
def cyc : List (V3 ℝ) → V3 ℝ
  | [] => ⟨0, 0, 0⟩
  | a :: t => pathSum (a :: t ++ [a])

@[simp] theorem pathSum_nil : pathSum [] = ⟨0, 0, 0⟩ := rfl
@[simp] theorem pathSum_single (a : V3 ℝ) : pathSum [a] = ⟨0, 0, 0⟩ := rfl
theorem pathSum_cons2 (a b : V3 ℝ) (t : List (V3 ℝ)) : pathSum (a :: b :: t) = a.cross b + pathSum (b :: t) := rfl

theorem zero_add' (v : V3 ℝ) : (⟨0, 0, 0⟩ : V3 ℝ) + v = v := by v3_ring
theorem add_zero' (v : V3 ℝ) : v + (⟨0, 0, 0⟩ : V3 ℝ) = v := by v3_ring
theorem add_assoc' (a b c : V3 ℝ) : a + b + c = a + (b + c) := by v3_ring
theorem add_comm' (a b : V3 ℝ) : a + b = b + a := by v3_ring
theorem cross_self (a : V3 ℝ) : a.cross a = ⟨0, 0, 0⟩ := by v3_ring
theorem cross_anti (a b : V3 ℝ) : a.cross b = -(b.cross a) := by v3_ring

/-- splitting a path at a vertex -/
theorem pathSum_append (l1 : List (V3 ℝ)) (e : V3 ℝ) (l2 : List (V3 ℝ)) :
    pathSum (l1 ++ e :: l2) = pathSum (l1 ++ [e]) + pathSum (e :: l2) := by
  induction l1 with
  | nil => simp [zero_add']
  | cons a t ih =>
    cases t with
    | nil =>
      simp only [List.cons_append, List.nil_append, pathSum_cons2, pathSum_single, add_zero']
    | cons b t' =>
      simp only [List.cons_append, pathSum_cons2] at ih ⊢
      rw [ih, add_assoc']

theorem pathSum_snoc (l : List (V3 ℝ)) (a b : V3 ℝ) :
    pathSum (l ++ [a, b]) = pathSum (l ++ [a]) + a.cross b := by
  rw [pathSum_append l a [b]]
  simp [pathSum_cons2, add_zero']

/-- **start vertex**: the closed-outline sum does not depend on where the outline starts -/
theorem cyc_rotate (a : V3 ℝ) (t : List (V3 ℝ)) : cyc (t ++ [a]) = cyc (a :: t) := by
  cases t with
  | nil => rfl
  | cons b t' =>
    show pathSum (b :: t' ++ [a] ++ [b]) = pathSum (a :: (b :: t') ++ [a])
    have h1 : b :: t' ++ [a] ++ [b] = (b :: t') ++ [a, b] := by simp
    rw [h1, pathSum_snoc]
    simp only [List.cons_append, pathSum_cons2]
    rw [add_comm']

theorem cyc_rotate_n (vs : List (V3 ℝ)) (k : Nat) : cyc (vs.rotate k) = cyc vs := by
  induction k generalizing vs with
  | zero => simp
  | succ k ih =>
    cases vs with
    | nil => simp
    | cons a t =>
      rw [show (a :: t).rotate (k + 1) = (t ++ [a]).rotate k by simp [List.rotate_cons_succ]]
      rw [ih, cyc_rotate]

/-- **reversal** flips the sign -/
theorem pathSum_reverse (l : List (V3 ℝ)) : pathSum l.reverse = -(pathSum l) := by
  induction l with
  | nil => simp; v3_ring
  | cons a t ih =>
    cases t with
    | nil => simp; v3_ring
    | cons b t' =>
      have : (a :: b :: t').reverse = (b :: t').reverse.dropLast ++ [b, a] := by
        have hb : (b :: t').reverse = (b :: t').reverse.dropLast ++ [b] := by
          simp [List.reverse_cons]
        rw [List.reverse_cons, hb]; simp
      have hb : (b :: t').reverse = (b :: t').reverse.dropLast ++ [b] := by simp [List.reverse_cons]
      rw [this, pathSum_snoc, ← hb, ih, pathSum_cons2, cross_anti b a]
      v3_ring

theorem cyc_reverse (vs : List (V3 ℝ)) : cyc vs.reverse = -(cyc vs) := by
  cases vs with
  | nil => simp [cyc]; v3_ring
  | cons a t =>
    -- reverse (a :: t) = reverse t ++ [a]; its cyc equals cyc (a :: reverse t) by rotation
    rw [List.reverse_cons, cyc_rotate]
    show pathSum (a :: t.reverse ++ [a]) = -(pathSum (a :: t ++ [a]))
    have : a :: t.reverse ++ [a] = (a :: t ++ [a]).reverse := by simp
    rw [this, pathSum_reverse]

/-- **translation**: a rigid shift changes an open path's sum by `t × (last − first)` … -/
theorem pathSum_translate (t : V3 ℝ) : ∀ (l : List (V3 ℝ)) (a z : V3 ℝ),
    pathSum ((a :: l ++ [z]).map (· + t)) = pathSum (a :: l ++ [z]) + t.cross (z - a) := by
  intro l
  induction l with
  | nil => intro a z; simp [pathSum_cons2]; v3_ring
  | cons b l' ih =>
    intro a z
    have := ih b z
    simp only [List.cons_append, List.map_cons, pathSum_cons2] at this ⊢
    rw [this]
    v3_ring

/-- … so the closed-outline sum is translation invariant -/
theorem cyc_translate (t : V3 ℝ) (vs : List (V3 ℝ)) : cyc (vs.map (· + t)) = cyc vs := by
  cases vs with
  | nil => rfl
  | cons a l =>
    show pathSum ((a + t) :: l.map (· + t) ++ [a + t]) = pathSum (a :: l ++ [a])
    have := pathSum_translate t l a a
    simp only [List.cons_append, List.map_cons, List.map_append, List.map_nil] at this ⊢
    rw [this]
    v3_ring

/-- **a redundant collinear point** `m = a + s (b − a)` between `a` and `b` adds nothing -/
theorem collinear_insert (a b : V3 ℝ) (s : ℝ) :
    a.cross (a + (b - a).smul s) + (a + (b - a).smul s).cross b = a.cross b := by v3_ring

theorem pathSum_insert_collinear (l1 l2 : List (V3 ℝ)) (a b : V3 ℝ) (s : ℝ) :
    pathSum (l1 ++ a :: (a + (b - a).smul s) :: b :: l2) = pathSum (l1 ++ a :: b :: l2) := by
  rw [pathSum_append l1 a, pathSum_append l1 a (b :: l2)]
  simp only [pathSum_cons2]
  rw [← add_assoc' (a.cross _), collinear_insert]

/-- **a bridge traversed once in each direction encloses nothing**: inserting at vertex `e` a closed walk `w₀ … w₀`
    reached from `e` and left back to `e` adds exactly the walk's own sum -/
theorem pathSum_bridge (l1 l2 w : List (V3 ℝ)) (e w0 : V3 ℝ) :
    pathSum (l1 ++ e :: (w0 :: w ++ [w0]) ++ e :: l2) = pathSum (l1 ++ e :: l2) + pathSum (w0 :: w ++ [w0]) := by
  have h1 : l1 ++ e :: (w0 :: w ++ [w0]) ++ e :: l2 = (l1 ++ e :: (w0 :: w ++ [w0])) ++ e :: l2 := by simp
  rw [h1, pathSum_append (l1 ++ e :: (w0 :: w ++ [w0])) e l2, pathSum_append l1 e l2]
  have h2 : l1 ++ e :: (w0 :: w ++ [w0]) ++ [e] = l1 ++ e :: ((w0 :: w) ++ [w0, e]) := by simp
  rw [h2, pathSum_append l1 e]
  have h3 : e :: (w0 :: w ++ [w0, e]) = (e :: w0 :: w) ++ [w0, e] := by simp
  rw [h3, pathSum_snoc]
  simp only [List.cons_append, pathSum_cons2]
  rw [cross_anti w0 e]
  v3_ring

/-- **cutting an ear**: removing vertex `b` between `a` and `c` removes exactly the ear triangle's sum `cyc [a, b, c]` -/
theorem cyc_triangle (a b c : V3 ℝ) : cyc [a, b, c] = a.cross b + b.cross c + c.cross a := by
  simp [cyc, pathSum_cons2]; v3_ring

theorem pathSum_cut_ear (l1 l2 : List (V3 ℝ)) (a b c : V3 ℝ) :
    pathSum (l1 ++ a :: b :: c :: l2) = pathSum (l1 ++ a :: c :: l2) + cyc [a, b, c] := by
  rw [pathSum_append l1 a, pathSum_append l1 a (c :: l2), cyc_triangle]
  simp only [pathSum_cons2]
  rw [cross_anti c a]
  v3_ring

end
end G3d.Shoelace
