import G3d.Proofs.ApproxReal
import G3d.Model.Sphere
import G3d.Model.Cylinder
/-! Exact-input semantics of the sphere / cylinder `basic_intersection`: solve the quadratic, then pick the nearest
    positive root whose re-projected point passes the clipping test. -/
namespace G3d
open Num

noncomputable section

/-- the two real roots in ascending order, or `none` when the discriminant is negative -/
def sortedRoots (a b c : ℝ) : Option (ℝ × ℝ) :=
  if b * b - a * c * 4 < 0 then none
  else if (qroot a b c).1 > (qroot a b c).2 then some ((qroot a b c).2, (qroot a b c).1)
  else some ((qroot a b c).1, (qroot a b c).2)

/-- **specification of the selection**: the nearer root if it is positive and unclipped, otherwise the farther root if it is
    positive and unclipped, otherwise nothing -/
def selectSpec (calcF : ℝ → V3 ℝ × ℝ) (clip : V3 ℝ → ℝ → Bool) (t0 t1 : ℝ) : Option (V3 ℝ × ℝ) :=
  if t1 ≤ 0 then none
  else if 0 < t0 ∧ clip (calcF t0).1 (calcF t0).2 = false then some (calcF t0)
  else if clip (calcF t1).1 (calcF t1).2 = false then some (calcF t1) else none

/-- the if-tree shared by `Sphere3D::approx_basic_intersection` and `Cylinder3D::basic_intersection` -/
theorem select_tree (calcA : Approx ℝ → V3 ℝ × ℝ) (clip : V3 ℝ → ℝ → Bool) (t0 t1 : ℝ) :
    (if ((pt t1).low <=. (0:ℝ)) = true then none else
      if clip (calcA (if ((pt t0).low >. (0:ℝ)) = true then pt t0 else pt t1)).1
          (calcA (if ((pt t0).low >. (0:ℝ)) = true then pt t0 else pt t1)).2 = true then
        if (!((pt t0).low >. (0:ℝ))) = true then none else
        if clip (calcA (pt t1)).1 (calcA (pt t1)).2 = true then none
        else some (calcA (pt t1))
      else some (calcA (if ((pt t0).low >. (0:ℝ)) = true then pt t0 else pt t1)))
    = selectSpec (fun t => calcA (pt t)) clip t0 t1 := by
  simp only [pt_low, selectSpec, real_le_dec, real_gt_dec, decide_eq_true_eq]
  num_real
  by_cases c1 : t1 ≤ 0
  · simp [c1]
  · by_cases c2 : 0 < t0
    · by_cases c3 : clip (calcA (pt t0)).1 (calcA (pt t0)).2 = true
      · by_cases c5 : clip (calcA (pt t1)).1 (calcA (pt t1)).2 = true <;> simp [c1, c2, c3, c5]
      · simp [c1, c2, c3]
    · by_cases c3 : clip (calcA (pt t1)).1 (calcA (pt t1)).2 = true <;> simp [c1, c2, c3]

theorem sphere_basic_exact (s : Sphere ℝ) (ray : Ray ℝ) (a b c : ℝ)
    (hq : s.quadCoeffs ray ⟨0, 0, 0⟩ ⟨0, 0, 0⟩ = (pt a, pt b, pt c)) :
    s.approxBasicIntersection ray ⟨0, 0, 0⟩ ⟨0, 0, 0⟩ =
      match sortedRoots a b c with
      | none => none
      | some (t0, t1) => selectSpec (fun t => s.calcPhitAndPhi ray (pt t)) s.clipped t0 t1 := by
  unfold Sphere.approxBasicIntersection
  rw [hq]
  simp only [solve_point, sortedRoots]
  split_ifs
  · rfl
  · num_real; exact select_tree _ _ _ _
  · num_real; exact select_tree _ _ _ _

theorem cyl_basic_exact (s : Cylinder ℝ) (ray : Ray ℝ) (a b c : ℝ)
    (hq : s.quadCoeffs ray ⟨0, 0, 0⟩ ⟨0, 0, 0⟩ = (pt a, pt b, pt c)) :
    s.basicIntersection ray ⟨0, 0, 0⟩ ⟨0, 0, 0⟩ =
      match sortedRoots a b c with
      | none => none
      | some (t0, t1) => selectSpec (fun t => s.calcPhitAndPhi ray (pt t)) s.clipped t0 t1 := by
  unfold Cylinder.basicIntersection
  rw [hq]
  simp only [solve_point, sortedRoots]
  split_ifs
  · rfl
  · num_real; exact select_tree _ _ _ _
  · num_real; exact select_tree _ _ _ _

end
end G3d
