import Mathlib.Data.EReal.Operations
import Mathlib.Analysis.Real.Sqrt
import Mathlib.Tactic.Linarith
import G3d.Model.Approx
/-!
# Laws of a rounded (IEEE-style) arithmetic, as far as `ApproxFloat` relies on them

`Rounded F` collects *hypotheses* about a scalar type `F` carrying a `Num` instance: a value map into the
extended reals, a NaN predicate, and the facts about rounding that interval arithmetic needs:

* every basic operation on finite operands is **faithful**: one `next_float_down` step below the computed
  result is `≤` the exact real result, one `next_float_up` step above is `≥` it (overflow to ±∞ included);
* `next_float_down/up` never increase/decrease the value and are monotone in the value
  (this is what the "step across zero" repair of `next_float_*` provides);
* `<` compares values.

The theorems of `Props/C07.lean` hold for every `F` with these laws.  They are not axioms: they are fields of a
structure, i.e. hypotheses of each theorem.  `Proofs/SoftFloat*.lean` discharges them for a concrete executable
model of binary64/binary32 defined in Lean; the correspondence check compares that soft-float (and the hardware)
with the crate bit for bit.
-/
namespace G3d
open Num

class Rounded (F : Type) [Num F] where
  nan : F → Prop
  val : F → EReal
  zero_val : ¬ nan (0 : F) ∧ val (0 : F) = 0
  neg_spec : ∀ a : F, ¬ nan a → ¬ nan (-a) ∧ val (-a) = - val a
  nextDown_spec : ∀ a : F, ¬ nan a → ¬ nan (nextDown a) ∧ val (nextDown a) ≤ val a
  nextUp_spec : ∀ a : F, ¬ nan a → ¬ nan (nextUp a) ∧ val a ≤ val (nextUp a)
  nextDown_mono : ∀ a b : F, ¬ nan a → ¬ nan b → val a ≤ val b → val (nextDown a) ≤ val (nextDown b)
  nextUp_mono : ∀ a b : F, ¬ nan a → ¬ nan b → val a ≤ val b → val (nextUp a) ≤ val (nextUp b)
  lt_iff : ∀ a b : F, ¬ nan a → ¬ nan b → (Num.lt a b = true ↔ val a < val b)
  add_spec : ∀ (a b : F) (x y : ℝ), ¬ nan a → ¬ nan b → val a = x → val b = y →
    ¬ nan (a + b) ∧ val (nextDown (a + b)) ≤ ((x + y : ℝ) : EReal) ∧ ((x + y : ℝ) : EReal) ≤ val (nextUp (a + b))
  sub_spec : ∀ (a b : F) (x y : ℝ), ¬ nan a → ¬ nan b → val a = x → val b = y →
    ¬ nan (a - b) ∧ val (nextDown (a - b)) ≤ ((x - y : ℝ) : EReal) ∧ ((x - y : ℝ) : EReal) ≤ val (nextUp (a - b))
  mul_spec : ∀ (a b : F) (x y : ℝ), ¬ nan a → ¬ nan b → val a = x → val b = y →
    ¬ nan (a * b) ∧ val (nextDown (a * b)) ≤ ((x * y : ℝ) : EReal) ∧ ((x * y : ℝ) : EReal) ≤ val (nextUp (a * b))
  div_spec : ∀ (a b : F) (x y : ℝ), ¬ nan a → ¬ nan b → val a = x → val b = y → y ≠ 0 →
    ¬ nan (a / b) ∧ val (nextDown (a / b)) ≤ ((x / y : ℝ) : EReal) ∧ ((x / y : ℝ) : EReal) ≤ val (nextUp (a / b))
  sqrt_spec : ∀ (a : F) (x : ℝ), ¬ nan a → val a = x → 0 ≤ x →
    ¬ nan (Num.sqrt a) ∧ val (nextDown (Num.sqrt a)) ≤ ((Real.sqrt x : ℝ) : EReal)
      ∧ ((Real.sqrt x : ℝ) : EReal) ≤ val (nextUp (Num.sqrt a))
  /-- `x - 0.0` and `x + 0.0` are exact (used by `From<Float>`) -/
  sub_zero_exact : ∀ (a : F) (x : ℝ), ¬ nan a → val a = x → ¬ nan (a - 0) ∧ val (a - 0) = x
  add_zero_exact : ∀ (a : F) (x : ℝ), ¬ nan a → val a = x → ¬ nan (a + 0) ∧ val (a + 0) = x
  /-- the literals `4.` and `0.5` of `solve_quadratic` are exact -/
  four_val : ¬ nan (4 : F) ∧ val (4 : F) = ((4 : ℝ) : EReal)
  half_val : ¬ nan (0.5 : F) ∧ val (0.5 : F) = (((1 : ℝ) / 2 : ℝ) : EReal)

namespace Rounded
variable {F : Type} [Num F] [Rounded F]

/-- a finite, non-NaN float with real value `x` -/
def Is (a : F) (x : ℝ) : Prop := ¬ nan a ∧ val a = (x : EReal)

/-- `lo` is a valid (possibly infinite) lower bound of the real `x` -/
def Lo (lo : F) (x : ℝ) : Prop := ¬ nan lo ∧ val lo ≤ (x : EReal)
/-- `hi` is a valid (possibly infinite) upper bound of the real `x` -/
def Hi (hi : F) (x : ℝ) : Prop := ¬ nan hi ∧ (x : EReal) ≤ val hi

theorem Lo.mono {lo : F} {x y : ℝ} (h : Lo lo x) (hxy : x ≤ y) : Lo lo y :=
  ⟨h.1, le_trans h.2 (EReal.coe_le_coe_iff.2 hxy)⟩
theorem Hi.mono {hi : F} {x y : ℝ} (h : Hi hi x) (hxy : y ≤ x) : Hi hi y :=
  ⟨h.1, le_trans (EReal.coe_le_coe_iff.2 hxy) h.2⟩

theorem Lo.nextDown {lo : F} {x : ℝ} (h : Lo lo x) : Lo (nextDown lo) x :=
  ⟨(nextDown_spec lo h.1).1, le_trans (nextDown_spec lo h.1).2 h.2⟩
theorem Hi.nextUp {hi : F} {x : ℝ} (h : Hi hi x) : Hi (nextUp hi) x :=
  ⟨(nextUp_spec hi h.1).1, le_trans h.2 (nextUp_spec hi h.1).2⟩

theorem Is.lo {a : F} {x : ℝ} (h : Is a x) : Lo a x := ⟨h.1, le_of_eq h.2⟩
theorem Is.hi {a : F} {x : ℝ} (h : Is a x) : Hi a x := ⟨h.1, le_of_eq h.2.symm⟩

theorem is_zero : Is (0 : F) 0 := ⟨zero_val.1, by simpa using (zero_val (F := F)).2⟩

/-- selection by `<`: the smaller of two non-NaN floats is a lower bound of whatever either bounds -/
theorem lo_min {p q : F} (hp : ¬ nan p) (hq : ¬ nan q) :
    ¬ nan (if Num.lt q p then q else p) ∧ val (if Num.lt q p then q else p) ≤ val p
      ∧ val (if Num.lt q p then q else p) ≤ val q := by
  by_cases h : Num.lt q p = true
  · have := (lt_iff q p hq hp).1 h
    simp only [h, if_true]
    exact ⟨hq, le_of_lt this, le_refl _⟩
  · have hn : ¬ val q < val p := fun hlt => h ((lt_iff q p hq hp).2 hlt)
    simp only [h]
    exact ⟨hp, le_refl _, not_lt.1 hn⟩

theorem hi_max {p q : F} (hp : ¬ nan p) (hq : ¬ nan q) :
    ¬ nan (if Num.gt q p then q else p) ∧ val p ≤ val (if Num.gt q p then q else p)
      ∧ val q ≤ val (if Num.gt q p then q else p) := by
  unfold Num.gt
  by_cases h : Num.lt p q = true
  · have := (lt_iff p q hp hq).1 h
    simp only [h, if_true]
    exact ⟨hq, le_of_lt this, le_refl _⟩
  · have hn : ¬ val p < val q := fun hlt => h ((lt_iff p q hp hq).2 hlt)
    simp only [h]
    exact ⟨hp, le_refl _, not_lt.1 hn⟩

/-- what `max_min` returns on four non-NaN floats -/
theorem maxMin4_spec {a0 a1 a2 a3 : F} (h0 : ¬ nan a0) (h1 : ¬ nan a1) (h2 : ¬ nan a2) (h3 : ¬ nan a3) :
    let r := maxMin4 a0 a1 a2 a3
    (¬ nan r.1 ∧ val a0 ≤ val r.1 ∧ val a1 ≤ val r.1 ∧ val a2 ≤ val r.1 ∧ val a3 ≤ val r.1) ∧
    (¬ nan r.2 ∧ val r.2 ≤ val a0 ∧ val r.2 ≤ val a1 ∧ val r.2 ≤ val a2 ∧ val r.2 ≤ val a3) := by
  intro r
  -- unfold the three steps
  have s1x := hi_max (p := a0) (q := a1) h0 h1
  have s1n := lo_min (p := a0) (q := a1) h0 h1
  have s2x := hi_max (p := (if Num.gt a1 a0 then a1 else a0)) (q := a2) s1x.1 h2
  have s2n := lo_min (p := (if Num.lt a1 a0 then a1 else a0)) (q := a2) s1n.1 h2
  have s3x := hi_max (q := a3) s2x.1 h3
  have s3n := lo_min (q := a3) s2n.1 h3
  refine ⟨⟨s3x.1, ?_, ?_, ?_, s3x.2.2⟩, ⟨s3n.1, ?_, ?_, ?_, s3n.2.2⟩⟩
  · exact le_trans s1x.2.1 (le_trans s2x.2.1 s3x.2.1)
  · exact le_trans s1x.2.2 (le_trans s2x.2.1 s3x.2.1)
  · exact le_trans s2x.2.2 s3x.2.1
  · exact le_trans s3n.2.1 (le_trans s2n.2.1 s1n.2.1)
  · exact le_trans s3n.2.1 (le_trans s2n.2.1 s1n.2.2)
  · exact le_trans s3n.2.1 s2n.2.2

end Rounded
end G3d

namespace G3d
open Num
namespace Rounded
variable {F : Type} [Num F] [Rounded F]

theorem lo_of_four {q0 q1 q2 q3 : F} {e0 e1 e2 e3 z : ℝ}
    (h0 : Lo q0 e0) (h1 : Lo q1 e1) (h2 : Lo q2 e2) (h3 : Lo q3 e3)
    (hz : e0 ≤ z ∨ e1 ≤ z ∨ e2 ≤ z ∨ e3 ≤ z) : Lo (maxMin4 q0 q1 q2 q3).2 z := by
  have s := (maxMin4_spec h0.1 h1.1 h2.1 h3.1).2
  refine ⟨s.1, ?_⟩
  rcases hz with h | h | h | h
  · exact le_trans s.2.1 (h0.mono h).2
  · exact le_trans s.2.2.1 (h1.mono h).2
  · exact le_trans s.2.2.2.1 (h2.mono h).2
  · exact le_trans s.2.2.2.2 (h3.mono h).2

theorem hi_of_four {q0 q1 q2 q3 : F} {e0 e1 e2 e3 z : ℝ}
    (h0 : Hi q0 e0) (h1 : Hi q1 e1) (h2 : Hi q2 e2) (h3 : Hi q3 e3)
    (hz : z ≤ e0 ∨ z ≤ e1 ∨ z ≤ e2 ∨ z ≤ e3) : Hi (maxMin4 q0 q1 q2 q3).1 z := by
  have s := (maxMin4_spec h0.1 h1.1 h2.1 h3.1).1
  refine ⟨s.1, ?_⟩
  rcases hz with h | h | h | h
  · exact le_trans (h0.mono h).2 s.2.1
  · exact le_trans (h1.mono h).2 s.2.2.1
  · exact le_trans (h2.mono h).2 s.2.2.2.1
  · exact le_trans (h3.mono h).2 s.2.2.2.2

/-- one outward step applied *after* selecting the minimum of raw results (the `*Assign` bodies) -/
theorem lo_nd_of_four {p0 p1 p2 p3 : F} {e0 e1 e2 e3 z : ℝ}
    (n0 : ¬ nan p0) (n1 : ¬ nan p1) (n2 : ¬ nan p2) (n3 : ¬ nan p3)
    (h0 : Lo (nextDown p0) e0) (h1 : Lo (nextDown p1) e1) (h2 : Lo (nextDown p2) e2) (h3 : Lo (nextDown p3) e3)
    (hz : e0 ≤ z ∨ e1 ≤ z ∨ e2 ≤ z ∨ e3 ≤ z) : Lo (nextDown (maxMin4 p0 p1 p2 p3).2) z := by
  have s := (maxMin4_spec n0 n1 n2 n3).2
  refine ⟨(nextDown_spec _ s.1).1, ?_⟩
  rcases hz with h | h | h | h
  · exact le_trans (nextDown_mono _ _ s.1 n0 s.2.1) (h0.mono h).2
  · exact le_trans (nextDown_mono _ _ s.1 n1 s.2.2.1) (h1.mono h).2
  · exact le_trans (nextDown_mono _ _ s.1 n2 s.2.2.2.1) (h2.mono h).2
  · exact le_trans (nextDown_mono _ _ s.1 n3 s.2.2.2.2) (h3.mono h).2

theorem hi_nu_of_four {p0 p1 p2 p3 : F} {e0 e1 e2 e3 z : ℝ}
    (n0 : ¬ nan p0) (n1 : ¬ nan p1) (n2 : ¬ nan p2) (n3 : ¬ nan p3)
    (h0 : Hi (nextUp p0) e0) (h1 : Hi (nextUp p1) e1) (h2 : Hi (nextUp p2) e2) (h3 : Hi (nextUp p3) e3)
    (hz : z ≤ e0 ∨ z ≤ e1 ∨ z ≤ e2 ∨ z ≤ e3) : Hi (nextUp (maxMin4 p0 p1 p2 p3).1) z := by
  have s := (maxMin4_spec n0 n1 n2 n3).1
  refine ⟨(nextUp_spec _ s.1).1, ?_⟩
  rcases hz with h | h | h | h
  · exact le_trans (h0.mono h).2 (nextUp_mono _ _ n0 s.1 s.2.1)
  · exact le_trans (h1.mono h).2 (nextUp_mono _ _ n1 s.1 s.2.2.1)
  · exact le_trans (h2.mono h).2 (nextUp_mono _ _ n2 s.1 s.2.2.2.1)
  · exact le_trans (h3.mono h).2 (nextUp_mono _ _ n3 s.1 s.2.2.2.2)

/-- the three facts a faithful binary operation yields, packaged -/
theorem add_lo_hi {a b : F} {x y : ℝ} (ha : Is a x) (hb : Is b y) :
    ¬ nan (a + b) ∧ Lo (nextDown (a + b)) (x + y) ∧ Hi (nextUp (a + b)) (x + y) := by
  obtain ⟨n, l, h⟩ := add_spec a b x y ha.1 hb.1 ha.2 hb.2
  exact ⟨n, ⟨(nextDown_spec _ n).1, l⟩, ⟨(nextUp_spec _ n).1, h⟩⟩
theorem sub_lo_hi {a b : F} {x y : ℝ} (ha : Is a x) (hb : Is b y) :
    ¬ nan (a - b) ∧ Lo (nextDown (a - b)) (x - y) ∧ Hi (nextUp (a - b)) (x - y) := by
  obtain ⟨n, l, h⟩ := sub_spec a b x y ha.1 hb.1 ha.2 hb.2
  exact ⟨n, ⟨(nextDown_spec _ n).1, l⟩, ⟨(nextUp_spec _ n).1, h⟩⟩
theorem mul_lo_hi {a b : F} {x y : ℝ} (ha : Is a x) (hb : Is b y) :
    ¬ nan (a * b) ∧ Lo (nextDown (a * b)) (x * y) ∧ Hi (nextUp (a * b)) (x * y) := by
  obtain ⟨n, l, h⟩ := mul_spec a b x y ha.1 hb.1 ha.2 hb.2
  exact ⟨n, ⟨(nextDown_spec _ n).1, l⟩, ⟨(nextUp_spec _ n).1, h⟩⟩
theorem div_lo_hi {a b : F} {x y : ℝ} (ha : Is a x) (hb : Is b y) (hy : y ≠ 0) :
    ¬ nan (a / b) ∧ Lo (nextDown (a / b)) (x / y) ∧ Hi (nextUp (a / b)) (x / y) := by
  obtain ⟨n, l, h⟩ := div_spec a b x y ha.1 hb.1 ha.2 hb.2 hy
  exact ⟨n, ⟨(nextDown_spec _ n).1, l⟩, ⟨(nextUp_spec _ n).1, h⟩⟩

end Rounded
end G3d
