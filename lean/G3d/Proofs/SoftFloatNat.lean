import Mathlib.Tactic.Ring
import Mathlib.Tactic.Linarith
import Mathlib.Tactic.Positivity
import Mathlib.Algebra.Order.Ring.Nat
import G3d.SoftFloat
/-! Integer-level facts about the ordinal encoding: `N` is strictly increasing, `floorOrd` is its floor-inverse,
    rounding picks one of the two neighbours. -/
namespace G3d.Fmt
variable (F : Fmt)

theorem T_pos : 0 < 2 ^ F.t := Nat.pos_of_ne_zero (by positivity)

/-- `N` on a decomposed ordinal -/
theorem N_ef (e f : Nat) (hf : f < 2 ^ F.t) :
    F.N (2 ^ F.t * e + f) = if e = 0 then f else (2 ^ F.t + f) * 2 ^ (e - 1) := by
  have hdiv : (2 ^ F.t * e + f) / 2 ^ F.t = e := by
    rw [Nat.mul_add_div (T_pos F), Nat.div_eq_of_lt hf, Nat.add_zero]
  have hmod : (2 ^ F.t * e + f) % 2 ^ F.t = f := by
    rw [Nat.mul_add_mod, Nat.mod_eq_of_lt hf]
  simp only [N, hdiv, hmod]

theorem decomp (m : Nat) : m = 2 ^ F.t * (m / 2 ^ F.t) + m % 2 ^ F.t := (Nat.div_add_mod m (2 ^ F.t)).symm

/-- the gap to the next float: `N (m+1) = N m + 2^(max e 1 - 1)` -/
theorem N_succ (m : Nat) : F.N (m + 1) = F.N m + 2 ^ (m / 2 ^ F.t - 1) := by
  have hT := T_pos F
  have hf : m % 2 ^ F.t < 2 ^ F.t := Nat.mod_lt m hT
  have hm : m = 2 ^ F.t * (m / 2 ^ F.t) + m % 2 ^ F.t := decomp F m
  generalize m / 2 ^ F.t = e at hm ⊢
  generalize m % 2 ^ F.t = f at hm hf ⊢
  by_cases hlast : f + 1 < 2 ^ F.t
  · have h1 : m + 1 = 2 ^ F.t * e + (f + 1) := by omega
    rw [h1, hm, N_ef F e (f + 1) hlast, N_ef F e f hf]
    by_cases h0 : e = 0
    · simp [h0]
    · simp only [h0, if_false]; ring
  · have hfT : 2 ^ F.t = f + 1 := by omega
    have hmul : 2 ^ F.t * (e + 1) = 2 ^ F.t * e + 2 ^ F.t := by ring
    have h1 : m + 1 = 2 ^ F.t * (e + 1) + 0 := by omega
    rw [h1, hm, N_ef F (e + 1) 0 hT, N_ef F e f hf]
    by_cases h0 : e = 0
    · simp [h0]; omega
    · have he : e + 1 - 1 = (e - 1) + 1 := by omega
      simp only [Nat.succ_ne_zero, if_false, h0, he, pow_succ]
      rw [hfT]; ring

theorem N_lt_succ (m : Nat) : F.N m < F.N (m + 1) := by
  rw [N_succ]; exact Nat.lt_add_of_pos_right (Nat.pos_of_ne_zero (by positivity))

theorem N_strictMono : StrictMono F.N := strictMono_nat_of_lt_succ (N_lt_succ F)

theorem N_le_iff {a b : Nat} : F.N a ≤ F.N b ↔ a ≤ b := (N_strictMono F).le_iff_le
theorem N_lt_iff {a b : Nat} : F.N a < F.N b ↔ a < b := (N_strictMono F).lt_iff_lt

theorem N_zero : F.N 0 = 0 := by
  have := N_ef F 0 0 (T_pos F); simpa using this
theorem N_one : F.N 1 = 1 := by
  have := N_succ F 0; rw [N_zero] at this; simpa using this
theorem N_pos {m : Nat} (h : 0 < m) : 0 < F.N m := by
  have := (N_lt_iff F).2 h; rwa [N_zero] at this

/-- **`floorOrd` is the floor-inverse of `N`** -/
theorem floorOrd_spec (Y : Nat) : F.N (F.floorOrd Y) ≤ Y ∧ Y < F.N (F.floorOrd Y + 1) := by
  have hT := T_pos F
  unfold floorOrd
  split
  · -- small: the ordinal equals the scaled value
    rename_i hsmall
    have hpow : 2 ^ (F.t + 1) = 2 ^ F.t * 2 := pow_succ 2 F.t
    have key : ∀ m, m ≤ 2 ^ (F.t + 1) → F.N m = m := by
      intro m hm
      by_cases h1 : m < 2 ^ F.t
      · have := N_ef F 0 m h1; simpa using this
      · by_cases h2 : m < 2 ^ (F.t + 1)
        · have hf : m - 2 ^ F.t < 2 ^ F.t := by omega
          have := N_ef F 1 (m - 2 ^ F.t) hf
          have e : 2 ^ F.t * 1 + (m - 2 ^ F.t) = m := by omega
          rw [e] at this; simp at this; omega
        · have hm' : m = 2 ^ F.t * 2 + 0 := by omega
          rw [hm', N_ef F 2 0 hT]; simp
    rw [key Y (le_of_lt hsmall), key (Y + 1) (by omega)]
    omega
  · rename_i hbig
    have hbig' : 2 ^ (F.t + 1) ≤ Y := not_lt.1 hbig
    have hY0 : Y ≠ 0 := by have : 0 < 2 ^ (F.t + 1) := Nat.pos_of_ne_zero (by positivity); omega
    set L := Nat.log2 Y with hL
    have hL1 : 2 ^ L ≤ Y := Nat.log2_self_le hY0
    have hL2 : Y < 2 ^ (L + 1) := Nat.lt_log2_self
    have hLt : F.t + 1 ≤ L := by
      by_contra hc
      have : L + 1 ≤ F.t + 1 := by omega
      have := Nat.pow_le_pow_right (show 0 < 2 by norm_num) this
      omega
    simp only []
    set k := L - F.t with hk
    have hk1 : 1 ≤ k := by omega
    have hLk : L = F.t + k := by omega
    set q := Y / 2 ^ k with hq
    have hkpos : 0 < 2 ^ k := Nat.pos_of_ne_zero (by positivity)
    have q_lo : 2 ^ F.t ≤ q := by
      rw [hq, Nat.le_div_iff_mul_le hkpos, ← pow_add, ← hLk]; exact hL1
    have q_hi : q < 2 ^ (F.t + 1) := by
      rw [hq, Nat.div_lt_iff_lt_mul hkpos, ← pow_add]
      have : F.t + 1 + k = L + 1 := by omega
      rw [this]; exact hL2
    have qk_le : q * 2 ^ k ≤ Y := Nat.div_mul_le_self Y (2 ^ k)
    have qk_gt : Y < (q + 1) * 2 ^ k := by
      have := Nat.lt_mul_div_succ Y hkpos
      rw [Nat.mul_comm] at this; exact this
    have hpow : 2 ^ (F.t + 1) = 2 ^ F.t * 2 := pow_succ 2 F.t
    have hf : q - 2 ^ F.t < 2 ^ F.t := by omega
    have e1 : (k + 1) * 2 ^ F.t + (q - 2 ^ F.t) = 2 ^ F.t * (k + 1) + (q - 2 ^ F.t) := by ring
    have hN : F.N ((k + 1) * 2 ^ F.t + (q - 2 ^ F.t)) = q * 2 ^ k := by
      rw [e1, N_ef F (k + 1) (q - 2 ^ F.t) hf]
      simp only [Nat.succ_ne_zero, if_false, Nat.add_sub_cancel]
      have : 2 ^ F.t + (q - 2 ^ F.t) = q := by omega
      rw [this]
    constructor
    · rw [hN]; exact qk_le
    · rw [N_succ, hN]
      have hdiv : ((k + 1) * 2 ^ F.t + (q - 2 ^ F.t)) / 2 ^ F.t = k + 1 := by
        rw [e1, Nat.mul_add_div hT, Nat.div_eq_of_lt hf, Nat.add_zero]
      rw [hdiv, Nat.add_sub_cancel]
      have : q * 2 ^ k + 2 ^ k = (q + 1) * 2 ^ k := by ring
      rw [this]; exact qk_gt

theorem floorOrd_le_iff {Y m : Nat} : m ≤ F.floorOrd Y ↔ F.N m ≤ Y := by
  obtain ⟨h1, h2⟩ := floorOrd_spec F Y
  constructor
  · intro h; exact le_trans ((N_le_iff F).2 h) h1
  · intro h
    by_contra hc
    have : F.floorOrd Y + 1 ≤ m := by omega
    have := (N_le_iff F).2 this
    omega

/-- the rounded ordinal is one of the two neighbours of the exact value -/
theorem roundOrd_mem (p q : Nat) :
    F.roundOrd p q = F.floorOrd (p / q) ∨ F.roundOrd p q = F.floorOrd (p / q) + 1 := by
  unfold roundOrd
  simp only []
  split_ifs <;> simp

/-- faithful rounding, integer form: `N (r-1)·q ≤ p` (for `r ≥ 1`) and `p < N (r+1)·q` -/
theorem roundOrd_faithful (p q : Nat) (hq : 0 < q) :
    F.N (F.roundOrd p q - 1) * q ≤ p ∧ p < F.N (F.roundOrd p q + 1) * q := by
  obtain ⟨h1, h2⟩ := floorOrd_spec F (p / q)
  have hpq : p / q * q ≤ p := Nat.div_mul_le_self p q
  have hpq2 : p < (p / q + 1) * q := by
    have := Nat.lt_mul_div_succ p hq; rw [Nat.mul_comm] at this; exact this
  have lo : F.N (F.floorOrd (p / q)) * q ≤ p := le_trans (Nat.mul_le_mul_right q h1) hpq
  have hi : p < F.N (F.floorOrd (p / q) + 1) * q :=
    lt_of_lt_of_le hpq2 (Nat.mul_le_mul_right q (by omega))
  rcases roundOrd_mem F p q with h | h <;> rw [h]
  · constructor
    · exact le_trans (Nat.mul_le_mul_right q ((N_le_iff F).2 (Nat.sub_le _ _))) lo
    · exact lt_of_lt_of_le hi (Nat.mul_le_mul_right q ((N_le_iff F).2 (by omega)))
  · constructor
    · rw [Nat.add_sub_cancel]; exact lo
    · exact lt_of_lt_of_le hi (Nat.mul_le_mul_right q ((N_le_iff F).2 (by omega)))

end G3d.Fmt
