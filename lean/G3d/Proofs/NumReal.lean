import Mathlib.Analysis.SpecialFunctions.Complex.Arg
import Mathlib.Analysis.SpecialFunctions.Trigonometric.Inverse
import Mathlib.Analysis.Real.Sqrt
import G3d.Num
/-!
# The exact-arithmetic instance `Num ℝ`

Exact semantics of the model: every operation is the real one, `next_float_up/down` are the identity,
decimal literals are the exact decimals, `Float::EPSILON` is `2⁻⁵²`.
-/
namespace G3d
open Num

/-- literals of the exact instance go through these two (semireducible) definitions so that the `Num` literal
    instances never unify with ℝ's own numeral instances during `simp` -/
noncomputable def realOfNat (n : Nat) : ℝ := (n : ℝ)
noncomputable def realOfSci (m : Nat) (s : Bool) (e : Nat) : ℝ := (OfScientific.ofScientific m s e : ℝ)

noncomputable instance instNumReal : Num ℝ where
  toAdd := inferInstance
  toSub := inferInstance
  toMul := inferInstance
  toDiv := inferInstance
  toNeg := inferInstance
  ofNat := realOfNat
  ofSci := realOfSci
  eps := (2 : ℝ)⁻¹ ^ 52
  maxv := (2 : ℝ) ^ 1024 - (2 : ℝ) ^ 971
  pi := Real.pi
  lt a b := decide (a < b)
  le a b := decide (a ≤ b)
  beq a b := decide (a = b)
  abs a := |a|
  sqrt := Real.sqrt
  sin := Real.sin
  cos := Real.cos
  tan := Real.tan
  acos := Real.arccos
  atan2 y x := Complex.arg ⟨x, y⟩
  toRadians x := x * (Real.pi / 180)
  toDegrees x := x * (180 / Real.pi)
  nextUp x := x
  nextDown x := x
  ofUsize n := (n : ℝ)
  -- ℝ has no infinity; `inf` is only ever used on branches guarded by `isNaN`, which are dead at this instance
  inf := 0

section simp_lemmas
@[simp] theorem real_add (a b : ℝ) : @HAdd.hAdd ℝ ℝ ℝ (@instHAdd ℝ Num.toAdd) a b = a + b := rfl
@[simp] theorem real_sub (a b : ℝ) : @HSub.hSub ℝ ℝ ℝ (@instHSub ℝ Num.toSub) a b = a - b := rfl
@[simp] theorem real_mul (a b : ℝ) : @HMul.hMul ℝ ℝ ℝ (@instHMul ℝ Num.toMul) a b = a * b := rfl
@[simp] theorem real_div (a b : ℝ) : @HDiv.hDiv ℝ ℝ ℝ (@instHDiv ℝ Num.toDiv) a b = a / b := rfl
@[simp] theorem real_neg (a : ℝ) : @Neg.neg ℝ Num.toNeg a = -a := rfl
@[simp] theorem real_lt (a b : ℝ) : (Num.lt a b = true) ↔ a < b := by simp [Num.lt]
@[simp] theorem real_le (a b : ℝ) : (Num.le a b = true) ↔ a ≤ b := by simp [Num.le]
@[simp] theorem real_gt (a b : ℝ) : (Num.gt a b = true) ↔ b < a := by simp [Num.gt, Num.lt]
@[simp] theorem real_ge (a b : ℝ) : (Num.ge a b = true) ↔ b ≤ a := by simp [Num.ge, Num.le]
@[simp] theorem real_lt_false (a b : ℝ) : (Num.lt a b = false) ↔ b ≤ a := by simp [Num.lt]
@[simp] theorem real_le_false (a b : ℝ) : (Num.le a b = false) ↔ b < a := by simp [Num.le]
@[simp] theorem real_gt_false (a b : ℝ) : (Num.gt a b = false) ↔ a ≤ b := by simp [Num.gt, Num.lt]
@[simp] theorem real_ge_false (a b : ℝ) : (Num.ge a b = false) ↔ a < b := by simp [Num.ge, Num.le]
@[simp] theorem real_abs (a : ℝ) : Num.abs a = |a| := rfl
@[simp] theorem real_sqrt (a : ℝ) : Num.sqrt a = Real.sqrt a := rfl
@[simp] theorem real_nextUp (a : ℝ) : Num.nextUp a = a := rfl
@[simp] theorem real_nextDown (a : ℝ) : Num.nextDown a = a := rfl
@[simp] theorem real_ofNat (n : Nat) : (@OfNat.ofNat ℝ n (Num.instOfNat n)) = realOfNat n := rfl
@[simp] theorem real_ofNat' (n : Nat) : (Num.ofNat n : ℝ) = realOfNat n := rfl
@[simp] theorem realOfNat_zero : realOfNat 0 = 0 := by simp [realOfNat]
@[simp] theorem realOfNat_one : realOfNat 1 = 1 := by simp [realOfNat]
@[simp] theorem realOfNat_cast (n : Nat) : realOfNat n = (n : ℝ) := rfl
@[simp] theorem real_ofSci (m : Nat) (s : Bool) (e : Nat) :
    (@OfScientific.ofScientific ℝ Num.instOfScientific m s e) = (OfScientific.ofScientific m s e : ℝ) := rfl
@[simp] theorem real_ofSci' (m : Nat) (s : Bool) (e : Nat) :
    (Num.ofSci m s e : ℝ) = (OfScientific.ofScientific m s e : ℝ) := rfl
@[simp] theorem real_eps : (Num.eps : ℝ) = (2 : ℝ)⁻¹ ^ 52 := rfl
@[simp] theorem real_isNaN (a : ℝ) : Num.isNaN a = false := by simp [Num.isNaN, Num.beq]
@[simp] theorem real_sin (a : ℝ) : Num.sin a = Real.sin a := rfl
@[simp] theorem real_cos (a : ℝ) : Num.cos a = Real.cos a := rfl
theorem real_lt_dec (a b : ℝ) : Num.lt a b = decide (a < b) := rfl
theorem real_le_dec (a b : ℝ) : Num.le a b = decide (a ≤ b) := rfl
theorem real_gt_dec (a b : ℝ) : Num.gt a b = decide (b < a) := rfl
theorem real_ge_dec (a b : ℝ) : Num.ge a b = decide (b ≤ a) := rfl
end simp_lemmas

/-- turn the Boolean comparisons of the exact instance (in hypothesis `h`) into propositions -/
macro "bool_real_at" h:ident : tactic =>
  `(tactic| simp only [real_lt_dec, real_le_dec, real_gt_dec, real_ge_dec, Bool.and_eq_true, Bool.or_eq_true,
      Bool.not_eq_true', Bool.not_eq_true, Bool.and_eq_false_imp, Bool.or_eq_false_iff, Bool.not_eq_false',
      decide_eq_true_eq, decide_eq_false_iff_not, not_and, not_or, not_not, not_lt, not_le] at $h:ident)
macro "bool_real" : tactic =>
  `(tactic| simp only [real_lt_dec, real_le_dec, real_gt_dec, real_ge_dec, Bool.and_eq_true, Bool.or_eq_true,
      Bool.not_eq_true', Bool.not_eq_true, Bool.and_eq_false_imp, Bool.or_eq_false_iff, Bool.not_eq_false',
      decide_eq_true_eq, decide_eq_false_iff_not, not_and, not_or, not_not, not_lt, not_le])

end G3d
