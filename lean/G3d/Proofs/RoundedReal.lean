import G3d.Proofs.Rounded
import G3d.Proofs.NumReal
/-! The exact arithmetic on ℝ satisfies the rounding laws (with no rounding at all): the laws are consistent,
    and every theorem stated for `Rounded F` specialises to exact interval arithmetic. -/
namespace G3d
open Num

noncomputable instance : Rounded ℝ where
  nan _ := False
  val x := (x : EReal)
  zero_val := ⟨not_false, by simp⟩
  neg_spec a _ := ⟨not_false, by simp⟩
  nextDown_spec a _ := ⟨not_false, le_refl _⟩
  nextUp_spec a _ := ⟨not_false, le_refl _⟩
  nextDown_mono a b _ _ h := h
  nextUp_mono a b _ _ h := h
  lt_iff a b _ _ := by simp
  add_spec a b x y _ _ hx hy := by
    have hx : a = x := EReal.coe_injective hx
    have hy : b = y := EReal.coe_injective hy
    subst hx hy; exact ⟨not_false, le_refl _, le_refl _⟩
  sub_spec a b x y _ _ hx hy := by
    have hx : a = x := EReal.coe_injective hx
    have hy : b = y := EReal.coe_injective hy
    subst hx hy; exact ⟨not_false, le_refl _, le_refl _⟩
  mul_spec a b x y _ _ hx hy := by
    have hx : a = x := EReal.coe_injective hx
    have hy : b = y := EReal.coe_injective hy
    subst hx hy; exact ⟨not_false, le_refl _, le_refl _⟩
  div_spec a b x y _ _ hx hy _ := by
    have hx : a = x := EReal.coe_injective hx
    have hy : b = y := EReal.coe_injective hy
    subst hx hy; exact ⟨not_false, le_refl _, le_refl _⟩
  sqrt_spec a x _ hx _ := by
    have hx : a = x := EReal.coe_injective hx
    subst hx; exact ⟨not_false, le_refl _, le_refl _⟩
  sub_zero_exact a x _ hx := by
    have hx : a = x := EReal.coe_injective hx
    subst hx; exact ⟨not_false, by simp⟩
  add_zero_exact a x _ hx := by
    have hx : a = x := EReal.coe_injective hx
    subst hx; exact ⟨not_false, by simp⟩
  four_val := ⟨not_false, by simp⟩
  half_val := ⟨not_false, by
    show (((OfScientific.ofScientific 5 true 1 : ℝ)) : EReal) = _
    norm_num⟩

end G3d
