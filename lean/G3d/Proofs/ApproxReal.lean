import G3d.Proofs.VecLemmas
import G3d.Model.Approx
/-! `ApproxFloat` at the exact instance: intervals with coinciding end points stay points, so the interval solver is the
    ordinary quadratic formula. -/
namespace G3d
open Num

noncomputable section

/-- the point interval `[x, x]` -/
def pt (x : ℝ) : Approx ℝ := ⟨x, x⟩

theorem fve_zero (v : ℝ) : Approx.fromValueAndError v (0 : ℝ) = pt v := by
  simp only [Approx.fromValueAndError, pt]; num_real; simp

theorem maxMin4_same (a : ℝ) : maxMin4 a a a a = (a, a) := by
  simp [maxMin4, real_lt_dec, real_gt_dec]

theorem pt_mul (x y : ℝ) : (pt x).mul (pt y) = pt (x * y) := by
  simp only [Approx.mul, pt, real_nextDown, real_nextUp, maxMin4_same]; num_real
theorem pt_div (x y : ℝ) : (pt x).div (pt y) = pt (x / y) := by
  simp only [Approx.div, pt, real_nextDown, real_nextUp, maxMin4_same]; num_real
theorem pt_add (x y : ℝ) : (pt x).add (pt y) = pt (x + y) := by
  simp only [Approx.add, pt, real_nextDown, real_nextUp]; num_real
theorem pt_sub (x y : ℝ) : (pt x).sub (pt y) = pt (x - y) := by
  simp only [Approx.sub, pt, real_nextDown, real_nextUp]; num_real
theorem pt_neg (x : ℝ) : (pt x).neg = pt (-x) := by
  simp only [Approx.neg, pt]; num_real
theorem pt_sqrt (x : ℝ) : (pt x).sqrt = pt (Real.sqrt x) := by
  simp only [Approx.sqrt, pt, real_nextDown, real_nextUp, real_sqrt]
theorem pt_mulF (x s : ℝ) : (pt x).mulF s = pt (x * s) := by
  simp [Approx.mulF, pt, real_gt_dec]
theorem pt_subF (x s : ℝ) : (pt x).subF s = pt (x - s) := by
  simp only [Approx.subF, Approx.ofFloat, Approx.fromValueAndError, Approx.sub, pt, real_nextDown, real_nextUp]
  num_real; simp
theorem pt_midpoint (x : ℝ) : (pt x).midpoint = x := by
  simp only [Approx.midpoint, pt]; num_real; ring
theorem pt_low (x : ℝ) : (pt x).low = x := rfl
theorem pt_high (x : ℝ) : (pt x).high = x := rfl

/-- the scalar quadratic formula the interval solver collapses to on exact inputs (cf. `utils::solve_quadratic`) -/
def qroot (a b c : ℝ) : ℝ × ℝ :=
  let disc := b * b - a * c * 4
  let q := if b < 0 then -(b - Real.sqrt disc) * (1 / 2) else -(b + Real.sqrt disc) * (1 / 2)
  (q / a, c / q)

theorem solve_point (a b c : ℝ) :
    Approx.solveQuadratic (pt a) (pt b) (pt c) =
      if b * b - a * c * 4 < 0 then none
      else if (qroot a b c).1 > (qroot a b c).2 then some (pt (qroot a b c).2, pt (qroot a b c).1)
      else some (pt (qroot a b c).1, pt (qroot a b c).2) := by
  have hhalf : ((OfScientific.ofScientific 5 true 1 : ℝ)) = 1 / 2 := by norm_num
  unfold Approx.solveQuadratic
  num_real
  simp only [pt_mul, pt_mulF, pt_sub, pt_low, pt_midpoint, pt_sqrt, pt_add, pt_neg, pt_div, real_lt_dec, real_gt_dec,
    decide_eq_true_eq, hhalf, qroot]
  split_ifs <;> simp_all [pt_div, pt_low] <;> exfalso <;> linarith

end
end G3d
