import Mathlib.Tactic.Linarith
import Mathlib.Tactic.Positivity
import Mathlib.Tactic.FieldSimp
import Mathlib.Data.Real.Basic
/-! Real-analysis facts behind interval arithmetic: a bilinear map on a box is extremal at a corner. -/
namespace G3d

theorem corner_lo {al ah bl bh x y : ℝ} (h1 : al ≤ x) (h2 : x ≤ ah) (h3 : bl ≤ y) (h4 : y ≤ bh) :
    al * bl ≤ x * y ∨ ah * bl ≤ x * y ∨ al * bh ≤ x * y ∨ ah * bh ≤ x * y := by
  by_cases hy : 0 ≤ y
  · by_cases ha : 0 ≤ al
    · left; nlinarith
    · right; right; left; nlinarith
  · by_cases ha : 0 ≤ ah
    · right; left; nlinarith
    · right; right; right; nlinarith

theorem corner_hi {al ah bl bh x y : ℝ} (h1 : al ≤ x) (h2 : x ≤ ah) (h3 : bl ≤ y) (h4 : y ≤ bh) :
    x * y ≤ al * bl ∨ x * y ≤ ah * bl ∨ x * y ≤ al * bh ∨ x * y ≤ ah * bh := by
  have := corner_lo (al := -ah) (ah := -al) (x := -x) (by linarith) (by linarith) h3 h4
  rcases this with h | h | h | h
  · right; left; nlinarith
  · left; nlinarith
  · right; right; right; nlinarith
  · right; right; left; nlinarith

/-- reciprocal of a number in a box not containing zero -/
theorem inv_box {bl bh y : ℝ} (h3 : bl ≤ y) (h4 : y ≤ bh) (h0 : 0 < bl ∨ bh < 0) :
    bh⁻¹ ≤ y⁻¹ ∧ y⁻¹ ≤ bl⁻¹ := by
  rcases h0 with h | h
  · have hy : 0 < y := lt_of_lt_of_le h h3
    have hb : 0 < bh := lt_of_lt_of_le hy h4
    exact ⟨inv_anti₀ hy h4, inv_anti₀ h h3⟩
  · have hy : y < 0 := lt_of_le_of_lt h4 h
    have hb : bl < 0 := lt_of_le_of_lt h3 hy
    constructor
    · rw [← neg_le_neg_iff, ← inv_neg, ← inv_neg]
      exact inv_anti₀ (by linarith) (by linarith)
    · rw [← neg_le_neg_iff, ← inv_neg, ← inv_neg]
      exact inv_anti₀ (by linarith) (by linarith)

theorem corner_div_lo {al ah bl bh x y : ℝ} (h1 : al ≤ x) (h2 : x ≤ ah) (h3 : bl ≤ y) (h4 : y ≤ bh)
    (h0 : 0 < bl ∨ bh < 0) :
    al / bl ≤ x / y ∨ ah / bl ≤ x / y ∨ al / bh ≤ x / y ∨ ah / bh ≤ x / y := by
  obtain ⟨i1, i2⟩ := inv_box h3 h4 h0
  simp only [div_eq_mul_inv]
  rcases corner_lo h1 h2 i1 i2 with h | h | h | h
  · right; right; left; exact h
  · right; right; right; exact h
  · left; exact h
  · right; left; exact h

theorem corner_div_hi {al ah bl bh x y : ℝ} (h1 : al ≤ x) (h2 : x ≤ ah) (h3 : bl ≤ y) (h4 : y ≤ bh)
    (h0 : 0 < bl ∨ bh < 0) :
    x / y ≤ al / bl ∨ x / y ≤ ah / bl ∨ x / y ≤ al / bh ∨ x / y ≤ ah / bh := by
  obtain ⟨i1, i2⟩ := inv_box h3 h4 h0
  simp only [div_eq_mul_inv]
  rcases corner_hi h1 h2 i1 i2 with h | h | h | h
  · right; right; left; exact h
  · right; right; right; exact h
  · left; exact h
  · right; left; exact h

end G3d
