import Mathlib.Tactic.Ring
import Mathlib.Tactic.Linarith
import Mathlib.Tactic.FieldSimp
import G3d.Proofs.NumReal
import G3d.Model.Transform
/-! Exact-arithmetic facts about the 4×4 matrices of `transform.rs`. -/
namespace G3d
open Num

/-- rewrite the `Num ℝ` operations into the ordinary real ones -/
macro "num_real" : tactic =>
  `(tactic| (try simp only [real_add, real_sub, real_mul, real_div, real_neg, real_ofNat, real_ofNat', real_abs, real_sqrt,
      real_nextUp, real_nextDown, realOfNat_zero, realOfNat_one, realOfNat_cast, Nat.cast_ofNat, Nat.cast_zero, Nat.cast_one, real_ofSci, real_ofSci']))

macro "num_real_at" h:ident : tactic =>
  `(tactic| (try simp only [real_add, real_sub, real_mul, real_div, real_neg, real_ofNat, real_ofNat', real_abs, real_sqrt,
      real_nextUp, real_nextDown, realOfNat_zero, realOfNat_one, realOfNat_cast, Nat.cast_ofNat, Nat.cast_zero, Nat.cast_one, real_ofSci, real_ofSci'] at $h:ident))

namespace M4

@[ext] theorem ext' {a b : M4 ℝ}
    (h00 : a.a00 = b.a00) (h01 : a.a01 = b.a01) (h02 : a.a02 = b.a02) (h03 : a.a03 = b.a03)
    (h10 : a.a10 = b.a10) (h11 : a.a11 = b.a11) (h12 : a.a12 = b.a12) (h13 : a.a13 = b.a13)
    (h20 : a.a20 = b.a20) (h21 : a.a21 = b.a21) (h22 : a.a22 = b.a22) (h23 : a.a23 = b.a23)
    (h30 : a.a30 = b.a30) (h31 : a.a31 = b.a31) (h32 : a.a32 = b.a32) (h33 : a.a33 = b.a33) : a = b := by
  cases a; cases b; simp_all

theorem mul_assoc (a b c : M4 ℝ) : (a.mul b).mul c = a.mul (b.mul c) := by
  ext <;> simp only [M4.mul] <;> num_real <;> ring

theorem mul_one (a : M4 ℝ) : a.mul identity = a := by
  ext <;> simp only [M4.mul, identity] <;> num_real <;> ring

theorem one_mul (a : M4 ℝ) : identity.mul a = a := by
  ext <;> simp only [M4.mul, identity] <;> num_real <;> ring

/-- last row is `0 0 0 1` -/
def Affine (m : M4 ℝ) : Prop := m.a30 = 0 ∧ m.a31 = 0 ∧ m.a32 = 0 ∧ m.a33 = 1

theorem affine_identity : Affine (identity : M4 ℝ) := by
  simp only [Affine, identity]; num_real; simp

theorem affine_mul {a b : M4 ℝ} (ha : Affine a) (hb : Affine b) : Affine (a.mul b) := by
  obtain ⟨a0, a1, a2, a3⟩ := ha
  obtain ⟨b0, b1, b2, b3⟩ := hb
  simp only [Affine, M4.mul]; num_real
  simp [a0, a1, a2, a3, b0, b1, b2, b3]

end M4
end G3d
