import G3d.Proofs.SoftFloat
/-! The operation laws of `Rounded` for the soft-float, and the instances for binary64 / binary32. -/
namespace G3d.SF
open G3d Num

variable {F : Fmt}

theorem val_fin_real {s : Bool} {m : Nat} (h : m < F.INF) : val (fin s m : SF F) = ((rval F s m : ℝ) : EReal) := by
  simp [val, not_le.2 h]

/-- a non-NaN float whose value is a real number is a finite `fin s m` -/
theorem fin_of_val {a : SF F} {x : ℝ} (hn : ¬ IsNaN a) (hv : val a = (x : EReal)) :
    ∃ s m, a = fin s m ∧ m < F.INF ∧ x = rval F s m := by
  cases a with
  | nan => exact absurd trivial hn
  | fin s m =>
    by_cases h : F.INF ≤ m
    · simp only [val, h, if_true] at hv
      cases s
      · simp at hv
      · simp at hv
    · refine ⟨s, m, rfl, not_le.1 h, ?_⟩
      rw [val_fin_real (not_le.1 h)] at hv
      exact (EReal.coe_injective hv).symm

theorem sign_mul (sa sb : Bool) :
    ((if sa then -1 else 1 : ℝ)) * (if sb then -1 else 1) = (if (sa != sb) then -1 else 1) := by
  cases sa <;> cases sb <;> simp

theorem rval_zero (s : Bool) : rval F s 0 = 0 := by simp [rval, F.N_zero]

theorem N_ne_zero {m : Nat} (h : m ≠ 0) : (F.N m : ℝ) ≠ 0 := by
  have := F.N_pos (Nat.pos_of_ne_zero h)
  exact_mod_cast (ne_of_gt this)

theorem mul_spec' (hI : 1 < F.INF) (a b : SF F) (x y : ℝ) (ha : ¬ IsNaN a) (hb : ¬ IsNaN b)
    (hx : val a = (x : EReal)) (hy : val b = (y : EReal)) :
    ¬ IsNaN (SF.mul a b) ∧ val (SF.nextDown (SF.mul a b)) ≤ ((x * y : ℝ) : EReal) ∧
      ((x * y : ℝ) : EReal) ≤ val (SF.nextUp (SF.mul a b)) := by
  obtain ⟨sa, ma, rfl, hma, rfl⟩ := fin_of_val ha hx
  obtain ⟨sb, mb, rfl, hmb, rfl⟩ := fin_of_val hb hy
  simp only [SF.mul, not_le.2 hma, not_le.2 hmb, if_false]
  by_cases hz : (ma = 0 || mb = 0) = true
  · simp only [hz, if_true]
    refine ⟨fun h => h, ?_⟩
    have : rval F sa ma * rval F sb mb = 0 := by
      simp only [Bool.or_eq_true, decide_eq_true_eq] at hz
      rcases hz with h | h <;> simp [h, rval_zero]
    rw [this]
    exact zero_bracket hI _
  · simp only [hz, Bool.false_eq_true, if_false]
    refine ⟨fun h => h, ?_⟩
    have e : rval F sa ma * rval F sb mb =
        (if (sa != sb) then -exactR F (F.N ma * F.N mb) (2 ^ F.S) else exactR F (F.N ma * F.N mb) (2 ^ F.S)) := by
      simp only [rval, exactR]
      have hS : (2 : ℝ) ^ F.S ≠ 0 := ne_of_gt S_pos
      push_cast
      cases sa <;> cases sb <;> simp <;> field_simp
    rw [e]
    exact faithful_round hI (sa != sb) _ _ (Nat.pos_of_ne_zero (by positivity))

theorem div_spec' (hI : 1 < F.INF) (a b : SF F) (x y : ℝ) (ha : ¬ IsNaN a) (hb : ¬ IsNaN b)
    (hx : val a = (x : EReal)) (hy : val b = (y : EReal)) (hy0 : y ≠ 0) :
    ¬ IsNaN (SF.div a b) ∧ val (SF.nextDown (SF.div a b)) ≤ ((x / y : ℝ) : EReal) ∧
      ((x / y : ℝ) : EReal) ≤ val (SF.nextUp (SF.div a b)) := by
  obtain ⟨sa, ma, rfl, hma, rfl⟩ := fin_of_val ha hx
  obtain ⟨sb, mb, rfl, hmb, rfl⟩ := fin_of_val hb hy
  have hmb0 : mb ≠ 0 := by
    intro h; apply hy0; rw [h, rval_zero]
  simp only [SF.div, not_le.2 hma, not_le.2 hmb, if_false, hmb0]
  by_cases hz : ma = 0
  · simp only [hz, if_true]
    refine ⟨fun h => h, ?_⟩
    rw [rval_zero, zero_div]
    exact zero_bracket hI _
  · simp only [hz, if_false]
    refine ⟨fun h => h, ?_⟩
    have hNb : 0 < F.N mb := F.N_pos (Nat.pos_of_ne_zero hmb0)
    have e : rval F sa ma / rval F sb mb =
        (if (sa != sb) then -exactR F (F.N ma * 2 ^ F.S) (F.N mb) else exactR F (F.N ma * 2 ^ F.S) (F.N mb)) := by
      simp only [rval, exactR]
      have hS : (2 : ℝ) ^ F.S ≠ 0 := ne_of_gt S_pos
      have hb' : (F.N mb : ℝ) ≠ 0 := N_ne_zero hmb0
      push_cast
      cases sa <;> cases sb <;> simp <;> field_simp
    rw [e]
    exact faithful_round hI (sa != sb) _ _ hNb

theorem sval_real (s : Bool) (m : Nat) : ((sval (F := F) s m : Int) : ℝ) / 2 ^ F.S = rval F s m := by
  cases s <;> simp [sval, rval] <;> ring

theorem add_spec' (hI : 1 < F.INF) (a b : SF F) (x y : ℝ) (ha : ¬ IsNaN a) (hb : ¬ IsNaN b)
    (hx : val a = (x : EReal)) (hy : val b = (y : EReal)) :
    ¬ IsNaN (SF.add a b) ∧ val (SF.nextDown (SF.add a b)) ≤ ((x + y : ℝ) : EReal) ∧
      ((x + y : ℝ) : EReal) ≤ val (SF.nextUp (SF.add a b)) := by
  obtain ⟨sa, ma, rfl, hma, rfl⟩ := fin_of_val ha hx
  obtain ⟨sb, mb, rfl, hmb, rfl⟩ := fin_of_val hb hy
  simp only [SF.add, not_le.2 hma, not_le.2 hmb, if_false]
  set z := sval (F := F) sa ma + sval (F := F) sb mb with hzdef
  have hsum : rval F sa ma + rval F sb mb = (z : ℝ) / 2 ^ F.S := by
    rw [hzdef]; push_cast; rw [add_div, sval_real, sval_real]
  rw [hsum]
  unfold ofExact
  by_cases hz : z = 0
  · simp only [hz, if_true]
    refine ⟨fun h => h, ?_⟩
    simp only [Int.cast_zero, zero_div]
    exact zero_bracket hI _
  · simp only [hz, if_false]
    refine ⟨fun h => h, ?_⟩
    have e : (z : ℝ) / 2 ^ F.S =
        (if decide (z < 0) then -exactR F z.natAbs 1 else exactR F z.natAbs 1) := by
      simp only [exactR, Nat.cast_one, one_mul]
      by_cases hneg : z < 0
      · simp only [hneg, decide_true, if_true]
        have : (z.natAbs : ℝ) = -(z : ℝ) := by
          have := Int.natAbs_of_nonneg (show 0 ≤ -z by omega)
          have h2 : ((z.natAbs : Int) : ℝ) = ((-z : Int) : ℝ) := by rw [← this]; simp
          simpa using h2
        rw [this]; ring
      · simp only [hneg, decide_false, Bool.false_eq_true, if_false]
        have : (z.natAbs : ℝ) = (z : ℝ) := by
          have := Int.natAbs_of_nonneg (show 0 ≤ z by omega)
          have h2 : ((z.natAbs : Int) : ℝ) = ((z : Int) : ℝ) := by rw [this]
          simpa using h2
        rw [this]
    rw [e]
    exact faithful_round hI (decide (z < 0)) _ _ (by norm_num)

theorem sub_spec' (hI : 1 < F.INF) (a b : SF F) (x y : ℝ) (ha : ¬ IsNaN a) (hb : ¬ IsNaN b)
    (hx : val a = (x : EReal)) (hy : val b = (y : EReal)) :
    ¬ IsNaN (SF.sub a b) ∧ val (SF.nextDown (SF.sub a b)) ≤ ((x - y : ℝ) : EReal) ∧
      ((x - y : ℝ) : EReal) ≤ val (SF.nextUp (SF.sub a b)) := by
  obtain ⟨nb, vb⟩ := val_neg b hb
  have hy' : val (SF.neg b) = ((-y : ℝ) : EReal) := by rw [vb, hy, EReal.coe_neg]
  have := add_spec' hI a (SF.neg b) x (-y) ha nb hx hy'
  simpa [SF.sub, sub_eq_add_neg] using this

/-! ## square root -/

theorem sqrtOrd_mem (R : Nat) :
    F.sqrtOrd R = F.floorOrd (Nat.sqrt R) ∨ F.sqrtOrd R = F.floorOrd (Nat.sqrt R) + 1 := by
  unfold Fmt.sqrtOrd
  simp only []
  split_ifs <;> simp

theorem sqrt_spec' (hI : 1 < F.INF) (a : SF F) (x : ℝ) (ha : ¬ IsNaN a) (hx : val a = (x : EReal)) (hx0 : 0 ≤ x) :
    ¬ IsNaN (SF.sqrt a) ∧ val (SF.nextDown (SF.sqrt a)) ≤ ((Real.sqrt x : ℝ) : EReal) ∧
      ((Real.sqrt x : ℝ) : EReal) ≤ val (SF.nextUp (SF.sqrt a)) := by
  obtain ⟨s, m, rfl, hm, rfl⟩ := fin_of_val ha hx
  by_cases hz : m = 0
  · subst hz
    simp only [SF.sqrt, if_true]
    refine ⟨fun h => h, ?_⟩
    rw [rval_zero, Real.sqrt_zero]
    exact zero_bracket hI _
  · have hNpos : 0 < F.N m := F.N_pos (Nat.pos_of_ne_zero hz)
    have hs : s = false := by
      cases s
      · rfl
      · exfalso
        simp only [rval, if_true] at hx0
        have : (0 : ℝ) < (F.N m : ℝ) / 2 ^ F.S := by
          apply div_pos _ S_pos; exact_mod_cast hNpos
        linarith
    subst hs
    simp only [SF.sqrt, hz, if_false, Bool.false_eq_true, not_le.2 hm]
    refine ⟨fun h => h, ?_⟩
    set R := F.N m * 2 ^ F.S with hR
    have hS : (0 : ℝ) < 2 ^ F.S := S_pos
    -- √x = √R / 2^S
    have hxR : rval F false m = (R : ℝ) / (2 ^ F.S * 2 ^ F.S) := by
      simp only [rval, Bool.false_eq_true, if_false, one_mul, hR]; push_cast; field_simp
    have hsq : Real.sqrt (rval F false m) = Real.sqrt (R : ℝ) / 2 ^ F.S := by
      rw [hxR, Real.sqrt_div' _ (by positivity), Real.sqrt_mul_self (le_of_lt hS)]
    rw [hsq]
    have hlo_nat : ((Nat.sqrt R : ℕ) : ℝ) ≤ Real.sqrt (R : ℝ) := by
      apply Real.le_sqrt_of_sq_le
      have := Nat.sqrt_le R
      have h2 : ((Nat.sqrt R * Nat.sqrt R : ℕ) : ℝ) ≤ (R : ℝ) := by exact_mod_cast this
      push_cast at h2; nlinarith
    have hhi_nat : Real.sqrt (R : ℝ) < ((Nat.sqrt R + 1 : ℕ) : ℝ) := by
      rw [Real.sqrt_lt' (by positivity)]
      have := Nat.lt_succ_sqrt R
      have h2 : (R : ℝ) < ((Nat.sqrt R).succ * (Nat.sqrt R).succ : ℕ) := by exact_mod_cast this
      push_cast at h2 ⊢; nlinarith
    obtain ⟨f1, f2⟩ := F.floorOrd_spec (Nat.sqrt R)
    have hmem := sqrtOrd_mem (F := F) R
    apply bracket_pos hI _ _ (by positivity)
    · intro h1
      have hle : F.clamp (F.sqrtOrd R) - 1 ≤ F.floorOrd (Nat.sqrt R) := by
        have : F.clamp (F.sqrtOrd R) ≤ F.sqrtOrd R := by unfold Fmt.clamp; split <;> omega
        rcases hmem with h | h <;> omega
      have hlt : F.clamp (F.sqrtOrd R) - 1 < F.INF := by have := clamp_le (F := F) (F.sqrtOrd R); omega
      rw [pval_of_lt hlt]
      apply EReal.coe_le_coe_iff.2
      apply div_le_div_of_nonneg_right _ (le_of_lt hS)
      have : (F.N (F.clamp (F.sqrtOrd R) - 1) : ℝ) ≤ (Nat.sqrt R : ℝ) := by
        exact_mod_cast le_trans ((F.N_le_iff).2 hle) f1
      linarith
    · by_cases hinf : F.INF ≤ F.clamp (F.sqrtOrd R) + 1
      · rw [min_eq_right hinf]; simp [pval]
      · have hlt : F.clamp (F.sqrtOrd R) + 1 < F.INF := not_le.1 hinf
        rw [min_eq_left (le_of_lt hlt)]
        have hc : F.clamp (F.sqrtOrd R) = F.sqrtOrd R := by
          unfold Fmt.clamp at hlt ⊢; split at hlt <;> simp_all <;> omega
        rw [pval_of_lt hlt, hc]
        apply EReal.coe_le_coe_iff.2
        apply div_le_div_of_nonneg_right _ (le_of_lt hS)
        have hge : F.floorOrd (Nat.sqrt R) + 1 ≤ F.sqrtOrd R + 1 := by rcases hmem with h | h <;> omega
        have : ((Nat.sqrt R + 1 : ℕ) : ℝ) ≤ (F.N (F.sqrtOrd R + 1) : ℝ) := by
          exact_mod_cast le_trans (by omega : Nat.sqrt R + 1 ≤ F.N (F.floorOrd (Nat.sqrt R) + 1)) ((F.N_le_iff).2 hge)
        linarith

/-! ## exact cases -/

theorem floorOrd_N (m : Nat) : F.floorOrd (F.N m) = m := by
  apply le_antisymm
  · exact (F.N_le_iff).1 (F.floorOrd_spec (F.N m)).1
  · exact (F.floorOrd_le_iff).2 (le_refl _)

theorem roundOrd_exact (m : Nat) : F.roundOrd (F.N m) 1 = m := by
  unfold Fmt.roundOrd
  simp only [Nat.div_one, floorOrd_N, Nat.mul_one]
  have := F.N_lt_succ m
  have h : 2 * F.N m < F.N m + F.N (m + 1) := by omega
  simp [h]

theorem add_signed_zero_exact (hI : 1 < F.INF) (a : SF F) (x : ℝ) (zs : Bool) (ha : ¬ IsNaN a) (hx : val a = (x : EReal)) :
    ¬ IsNaN (SF.add a (fin zs 0)) ∧ val (SF.add a (fin zs 0)) = (x : EReal) := by
  obtain ⟨s, m, rfl, hm, rfl⟩ := fin_of_val ha hx
  have h0 : ¬ F.INF ≤ 0 := by omega
  simp only [SF.add, not_le.2 hm, h0, if_false]
  have hz0 : sval (F := F) zs 0 = 0 := by cases zs <;> simp [sval, F.N_zero]
  rw [hz0, add_zero]
  unfold ofExact
  by_cases hm0 : m = 0
  · subst hm0
    have : sval (F := F) s 0 = 0 := by cases s <;> simp [sval, F.N_zero]
    simp only [this, if_true]
    refine ⟨fun h => h, ?_⟩
    rw [val_fin_real (by omega), rval_zero, rval_zero]
  · have hNpos : 0 < F.N m := F.N_pos (Nat.pos_of_ne_zero hm0)
    have hne : sval (F := F) s m ≠ 0 := by cases s <;> simp [sval] <;> omega
    simp only [hne, if_false]
    refine ⟨fun h => h, ?_⟩
    have habs : (sval (F := F) s m).natAbs = F.N m := by cases s <;> simp [sval]
    have hsign : decide (sval (F := F) s m < 0) = s := by
      cases s <;> simp [sval] <;> omega
    rw [habs, roundOrd_exact, hsign, clamp_of_lt hm]
    exact hx

/-! ## the instance -/

/-- everything `Rounded` asks for, given the format facts `1 < INF` and the exactness of the literals `4` and `0.5` -/
@[instance_reducible] noncomputable def mkRounded (F : Fmt) (hI : 1 < F.INF)
    (h4 : ¬ IsNaN (4 : SF F) ∧ val (4 : SF F) = ((4 : ℝ) : EReal))
    (hh : ¬ IsNaN (0.5 : SF F) ∧ val (0.5 : SF F) = (((1 : ℝ) / 2 : ℝ) : EReal)) : Rounded (SF F) where
  nan := IsNaN
  val := val
  zero_val := by
    have h0 : ¬ F.INF ≤ 0 := by omega
    refine ⟨fun h => h, ?_⟩
    show val (SF.ofRat 0 1 : SF F) = 0
    simp [SF.ofRat, val, h0, rval_zero]
  neg_spec a ha := val_neg a ha
  nextDown_spec a ha := by
    obtain ⟨n, k⟩ := key_nextDown a ha hI
    refine ⟨n, ?_⟩
    show val (SF.nextDown a) ≤ val a
    rw [val_le_iff_key (by omega) _ _ n ha, k]
    have := (key_bounds a).1
    omega
  nextUp_spec a ha := by
    obtain ⟨n, k⟩ := key_nextUp a ha hI
    refine ⟨n, ?_⟩
    show val a ≤ val (SF.nextUp a)
    rw [val_le_iff_key (by omega) _ _ ha n, k]
    have := (key_bounds a).2
    omega
  nextDown_mono a b ha hb h := by
    obtain ⟨na, ka⟩ := key_nextDown a ha hI
    obtain ⟨nb, kb⟩ := key_nextDown b hb hI
    rw [val_le_iff_key (by omega) _ _ ha hb] at h
    show val (SF.nextDown a) ≤ val (SF.nextDown b)
    rw [val_le_iff_key (by omega) _ _ na nb, ka, kb]
    omega
  nextUp_mono a b ha hb h := by
    obtain ⟨na, ka⟩ := key_nextUp a ha hI
    obtain ⟨nb, kb⟩ := key_nextUp b hb hI
    rw [val_le_iff_key (by omega) _ _ ha hb] at h
    show val (SF.nextUp a) ≤ val (SF.nextUp b)
    rw [val_le_iff_key (by omega) _ _ na nb, ka, kb]
    omega
  lt_iff a b ha hb := by
    rw [val_lt_iff_key (by omega) a b ha hb]
    exact lt_iff_key a b ha hb
  add_spec a b x y ha hb hx hy := add_spec' hI a b x y ha hb hx hy
  sub_spec a b x y ha hb hx hy := sub_spec' hI a b x y ha hb hx hy
  mul_spec a b x y ha hb hx hy := mul_spec' hI a b x y ha hb hx hy
  div_spec a b x y ha hb hx hy hy0 := div_spec' hI a b x y ha hb hx hy hy0
  sqrt_spec a x ha hx hx0 := sqrt_spec' hI a x ha hx hx0
  sub_zero_exact a x ha hx := by
    have h0 : (0 : SF F) = fin false 0 := by show SF.ofRat 0 1 = _; simp [SF.ofRat]
    show ¬ IsNaN (SF.sub a 0) ∧ val (SF.sub a 0) = _
    rw [h0]
    exact add_signed_zero_exact hI a x true ha hx
  add_zero_exact a x ha hx := by
    have h0 : (0 : SF F) = fin false 0 := by show SF.ofRat 0 1 = _; simp [SF.ofRat]
    show ¬ IsNaN (SF.add a 0) ∧ val (SF.add a 0) = _
    rw [h0]
    exact add_signed_zero_exact hI a x false ha hx
  four_val := h4
  half_val := hh

end G3d.SF

namespace G3d.SF
open G3d Num
set_option exponentiation.threshold 5000

theorem val_of_scaled {F : Fmt} {m k d : Nat} (hm : m < F.INF) (hN : F.N m * d = k * 2 ^ F.S) (hd : 0 < d) :
    val (fin false m : SF F) = (((k : ℝ) / d : ℝ) : EReal) := by
  rw [val_fin_real hm]
  congr 1
  simp only [rval, Bool.false_eq_true, if_false, one_mul]
  have hS : (0 : ℝ) < 2 ^ F.S := S_pos
  have hdr : (0 : ℝ) < d := by exact_mod_cast hd
  rw [div_eq_div_iff (ne_of_gt hS) (ne_of_gt hdr)]
  have : ((F.N m * d : ℕ) : ℝ) = ((k * 2 ^ F.S : ℕ) : ℝ) := by rw [hN]
  push_cast at this
  linarith

noncomputable instance instRounded64 : Rounded (SF b64) :=
  mkRounded b64 (by decide +kernel)
    ⟨by rw [show (4 : SF b64) = SF.fin false 4616189618054758400 by decide +kernel]; exact fun h => h,
     by rw [show (4 : SF b64) = SF.fin false 4616189618054758400 by decide +kernel,
            val_of_scaled (k := 4) (d := 1) (by decide +kernel) (by decide +kernel) (by norm_num)]; norm_num⟩
    ⟨by rw [show (0.5 : SF b64) = SF.fin false 4602678819172646912 by decide +kernel]; exact fun h => h,
     by rw [show (0.5 : SF b64) = SF.fin false 4602678819172646912 by decide +kernel,
            val_of_scaled (k := 1) (d := 2) (by decide +kernel) (by decide +kernel) (by norm_num)]; norm_num⟩

noncomputable instance instRounded32 : Rounded (SF b32) :=
  mkRounded b32 (by decide +kernel)
    ⟨by rw [show (4 : SF b32) = SF.fin false 1082130432 by decide +kernel]; exact fun h => h,
     by rw [show (4 : SF b32) = SF.fin false 1082130432 by decide +kernel,
            val_of_scaled (k := 4) (d := 1) (by decide +kernel) (by decide +kernel) (by norm_num)]; norm_num⟩
    ⟨by rw [show (0.5 : SF b32) = SF.fin false 1056964608 by decide +kernel]; exact fun h => h,
     by rw [show (0.5 : SF b32) = SF.fin false 1056964608 by decide +kernel,
            val_of_scaled (k := 1) (d := 2) (by decide +kernel) (by decide +kernel) (by norm_num)]; norm_num⟩

end G3d.SF
