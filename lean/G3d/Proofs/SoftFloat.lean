import G3d.Proofs.SoftFloatNat
import G3d.Proofs.Rounded
/-!
# The soft-float satisfies the rounding laws

`instance : Rounded (SF F)` for every format with at least one fraction bit and two exponent bits whose literals `4` and
`0.5` are exact (checked by evaluation for binary64 and binary32).  With this instance every theorem of `Props/C07.lean`
and `Props/C17.lean` is a statement about concrete IEEE-754 round-to-nearest-even arithmetic defined in Lean — the same
definitions the driver runs against the crate bit for bit.
-/
namespace G3d.SF
open G3d Num

variable {F : Fmt}

/-- value of a finite magnitude with sign -/
noncomputable def rval (F : Fmt) (s : Bool) (m : Nat) : ℝ := (if s then -1 else 1) * ((F.N m : ℝ) / 2 ^ F.S)

noncomputable def val : SF F → EReal
  | nan => 0
  | fin s m => if F.INF ≤ m then (if s then ⊥ else ⊤) else ((rval F s m : ℝ) : EReal)

def IsNaN : SF F → Prop
  | nan => True
  | _ => False

theorem S_pos : (0 : ℝ) < 2 ^ F.S := by positivity

theorem rval_neg (s : Bool) (m : Nat) : rval F (!s) m = - rval F s m := by
  cases s <;> simp [rval]

theorem rval_nonneg (m : Nat) : 0 ≤ rval F false m := by
  simp only [rval, Bool.false_eq_true, if_false, one_mul]; positivity

theorem rval_mono {a b : Nat} (h : a ≤ b) : rval F false a ≤ rval F false b := by
  simp only [rval, Bool.false_eq_true, if_false, one_mul]
  apply div_le_div_of_nonneg_right _ (le_of_lt S_pos)
  exact_mod_cast (F.N_le_iff).2 h

theorem rval_true (m : Nat) : rval F true m = - rval F false m := by simp [rval]

/-! ## value as a monotone function of the signed ordinal -/

theorem clamp_le (m : Nat) : F.clamp m ≤ F.INF := by unfold Fmt.clamp; split <;> omega
theorem clamp_of_lt {m : Nat} (h : m < F.INF) : F.clamp m = m := by unfold Fmt.clamp; simp [not_le.2 h]
theorem clamp_of_ge {m : Nat} (h : F.INF ≤ m) : F.clamp m = F.INF := by unfold Fmt.clamp; simp [h]
theorem clamp_mono {a b : Nat} (h : a ≤ b) : F.clamp a ≤ F.clamp b := by
  unfold Fmt.clamp; split <;> split <;> omega

/-- the value of a positive-signed float as a function of its clamped ordinal -/
noncomputable def pval (F : Fmt) (m : Nat) : EReal := if F.INF ≤ m then ⊤ else ((rval F false m : ℝ) : EReal)

theorem pval_mono {a b : Nat} (h : a ≤ b) : pval F a ≤ pval F b := by
  unfold pval
  by_cases hb : F.INF ≤ b
  · simp [hb]
  · have ha : ¬ F.INF ≤ a := by omega
    simp only [ha, hb, if_false]
    exact EReal.coe_le_coe_iff.2 (rval_mono h)

theorem pval_strict {a b : Nat} (h : a < b) (hb : b ≤ F.INF) : pval F a < pval F b := by
  unfold pval
  have ha : ¬ F.INF ≤ a := by omega
  by_cases hb' : F.INF ≤ b
  · simp only [ha, hb', if_true, if_false]; exact EReal.coe_lt_top _
  · simp only [ha, hb', if_false]
    apply EReal.coe_lt_coe_iff.2
    simp only [rval, Bool.false_eq_true, if_false, one_mul]
    apply div_lt_div_of_pos_right _ S_pos
    exact_mod_cast (F.N_lt_iff).2 h

theorem pval_nonneg (m : Nat) : (0 : EReal) ≤ pval F m := by
  unfold pval; split
  · exact le_top
  · exact_mod_cast rval_nonneg m

theorem val_fin_false (m : Nat) : val (fin false m : SF F) = pval F m := by
  simp only [val, pval]; split <;> simp

theorem val_fin_true (m : Nat) : val (fin true m : SF F) = - pval F m := by
  simp only [val, pval]; split
  · simp
  · simp [rval_true]

theorem pval_clamp (m : Nat) : pval F (F.clamp m) = pval F m := by
  by_cases h : F.INF ≤ m
  · rw [clamp_of_ge h]; simp [pval, h]
  · rw [clamp_of_lt (not_le.1 h)]

theorem pval_zero : pval F 0 = 0 ∨ F.INF = 0 := by
  by_cases h : F.INF ≤ 0
  · right; omega
  · left; simp [pval, h, rval, F.N_zero]

/-- the signed ordinal -/
theorem key_false (m : Nat) : key (fin false m : SF F) = (F.clamp m : Int) := rfl
theorem key_true (m : Nat) : key (fin true m : SF F) = -(F.clamp m : Int) := rfl

/-- value from the signed ordinal -/
noncomputable def kval (F : Fmt) (k : Int) : EReal := if 0 ≤ k then pval F k.toNat else - pval F (-k).toNat

theorem val_eq_kval (hI : 0 < F.INF) (s : Bool) (m : Nat) : val (fin s m : SF F) = kval F (key (fin s m : SF F)) := by
  cases s
  · rw [val_fin_false, key_false, kval]; simp [pval_clamp]
  · rw [val_fin_true, key_true, kval]
    by_cases h0 : F.clamp m = 0
    · have hm : m = 0 := by
        unfold Fmt.clamp at h0; split at h0 <;> omega
      subst hm
      simp [h0]
      rcases pval_zero (F := F) with h | h
      · simp [h]
      · omega
    · have : ¬ (0 : Int) ≤ -(F.clamp m : Int) := by omega
      simp only [this, if_false, neg_neg, Int.toNat_natCast, pval_clamp]

theorem kval_mono {a b : Int} (h : a ≤ b) : kval F a ≤ kval F b := by
  unfold kval
  by_cases ha : 0 ≤ a
  · have hb : 0 ≤ b := le_trans ha h
    simp only [ha, hb, if_true]
    exact pval_mono (Int.toNat_le_toNat h)
  · by_cases hb : 0 ≤ b
    · simp only [ha, hb, if_true, if_false]
      exact le_trans (EReal.neg_le_neg_iff.2 (pval_nonneg _) |>.trans (by simp)) (pval_nonneg _)
    · simp only [ha, hb, if_false]
      apply EReal.neg_le_neg_iff.2
      exact pval_mono (Int.toNat_le_toNat (by omega))

theorem kval_strict {a b : Int} (h : a < b) (ha : -(F.INF : Int) ≤ a) (hb : b ≤ F.INF) :
    kval F a < kval F b := by
  unfold kval
  by_cases ha0 : 0 ≤ a
  · have hb0 : 0 ≤ b := by omega
    simp only [ha0, hb0, if_true]
    exact pval_strict (by omega) (by omega)
  · by_cases hb0 : 0 ≤ b
    · simp only [ha0, hb0, if_true, if_false]
      have h1 : pval F 0 < pval F (-a).toNat := pval_strict (by omega) (by omega)
      have h2 : (0 : EReal) ≤ pval F 0 := pval_nonneg 0
      have h3 : - pval F (-a).toNat < 0 := by
        rw [EReal.neg_lt_comm]; simpa using lt_of_le_of_lt h2 h1
      exact lt_of_lt_of_le h3 (pval_nonneg _)
    · simp only [ha0, hb0, if_false]
      apply EReal.neg_lt_neg_iff.2
      exact pval_strict (by omega) (by omega)

theorem key_bounds (a : SF F) : -(F.INF : Int) ≤ key a ∧ key a ≤ F.INF := by
  cases a with
  | nan => simp [key]
  | fin s m =>
    have := clamp_le (F := F) m
    cases s <;> simp [key] <;> omega

/-! ## negation, next floats, comparison -/

theorem val_neg (a : SF F) (ha : ¬ IsNaN a) : ¬ IsNaN (SF.neg a) ∧ val (SF.neg a) = - val a := by
  cases a with
  | nan => exact absurd trivial ha
  | fin s m =>
    refine ⟨fun h => h, ?_⟩
    cases s
    · show val (fin true m : SF F) = - val (fin false m : SF F)
      rw [val_fin_true, val_fin_false]
    · show val (fin false m : SF F) = - val (fin true m : SF F)
      rw [val_fin_true, val_fin_false, neg_neg]

theorem val_of_key (hI : 0 < F.INF) (a : SF F) (ha : ¬ IsNaN a) : val a = kval F (key a) := by
  cases a with
  | nan => exact absurd trivial ha
  | fin s m => exact val_eq_kval hI s m

theorem key_nextUp (a : SF F) (ha : ¬ IsNaN a) (hI : 1 < F.INF) :
    ¬ IsNaN (SF.nextUp a) ∧ key (SF.nextUp a) = min (key a + 1) F.INF := by
  cases a with
  | nan => exact absurd trivial ha
  | fin s m =>
    cases s
    · simp only [SF.nextUp]
      by_cases h : F.INF ≤ m
      · simp only [h, if_true]
        refine ⟨fun h => h, ?_⟩
        rw [key_false, clamp_of_ge h]; omega
      · simp only [h, if_false]
        refine ⟨fun h => h, ?_⟩
        rw [key_false, key_false, clamp_of_lt (not_le.1 h)]
        by_cases h2 : F.INF ≤ m + 1
        · rw [clamp_of_ge h2]; omega
        · rw [clamp_of_lt (not_le.1 h2)]; omega
    · simp only [SF.nextUp]
      by_cases h : m = 0
      · subst h
        simp only [if_true]
        refine ⟨fun h => h, ?_⟩
        rw [key_false, key_true, clamp_of_lt (by omega : 1 < F.INF), clamp_of_lt (by omega : 0 < F.INF)]
        omega
      · simp only [h, if_false]
        refine ⟨fun h => h, ?_⟩
        rw [key_true, key_true]
        have hc : 1 ≤ F.clamp m := by
          unfold Fmt.clamp; split <;> omega
        have : F.clamp (F.clamp m - 1) = F.clamp m - 1 := clamp_of_lt (by have := clamp_le (F := F) m; omega)
        rw [this]
        have := clamp_le (F := F) m
        omega

theorem key_nextDown (a : SF F) (ha : ¬ IsNaN a) (hI : 1 < F.INF) :
    ¬ IsNaN (SF.nextDown a) ∧ key (SF.nextDown a) = max (key a - 1) (-(F.INF : Int)) := by
  cases a with
  | nan => exact absurd trivial ha
  | fin s m =>
    cases s
    · simp only [SF.nextDown]
      by_cases h : m = 0
      · subst h
        simp only [if_true]
        refine ⟨fun h => h, ?_⟩
        rw [key_false, key_true, clamp_of_lt (by omega : 1 < F.INF), clamp_of_lt (by omega : 0 < F.INF)]
        omega
      · simp only [h, if_false]
        refine ⟨fun h => h, ?_⟩
        rw [key_false, key_false]
        have hc : 1 ≤ F.clamp m := by
          unfold Fmt.clamp; split <;> omega
        have : F.clamp (F.clamp m - 1) = F.clamp m - 1 := clamp_of_lt (by have := clamp_le (F := F) m; omega)
        rw [this]
        have := clamp_le (F := F) m
        omega
    · simp only [SF.nextDown]
      by_cases h : F.INF ≤ m
      · simp only [h, if_true]
        refine ⟨fun h => h, ?_⟩
        rw [key_true, clamp_of_ge h]; omega
      · simp only [h, if_false]
        refine ⟨fun h => h, ?_⟩
        rw [key_true, key_true, clamp_of_lt (not_le.1 h)]
        by_cases h2 : F.INF ≤ m + 1
        · rw [clamp_of_ge h2]; omega
        · rw [clamp_of_lt (not_le.1 h2)]; omega

theorem lt_iff_key (a b : SF F) (ha : ¬ IsNaN a) (hb : ¬ IsNaN b) :
    (SF.lt a b = true) ↔ key a < key b := by
  cases a with
  | nan => exact absurd trivial ha
  | fin sa ma =>
    cases b with
    | nan => exact absurd trivial hb
    | fin sb mb => simp [SF.lt]

theorem val_lt_iff_key (hI : 0 < F.INF) (a b : SF F) (ha : ¬ IsNaN a) (hb : ¬ IsNaN b) :
    val a < val b ↔ key a < key b := by
  rw [val_of_key hI a ha, val_of_key hI b hb]
  constructor
  · intro h
    by_contra hc
    exact absurd (kval_mono (F := F) (not_lt.1 hc)) (not_le.2 h)
  · intro h
    exact kval_strict h (key_bounds a).1 (key_bounds b).2

theorem val_le_iff_key (hI : 0 < F.INF) (a b : SF F) (ha : ¬ IsNaN a) (hb : ¬ IsNaN b) :
    val a ≤ val b ↔ key a ≤ key b := by
  rw [← not_lt, ← not_lt, val_lt_iff_key hI b a hb ha]

/-! ## faithful rounding -/

/-- the exact real `p / (q·2^S)` -/
noncomputable def exactR (F : Fmt) (p q : Nat) : ℝ := (p : ℝ) / ((q : ℝ) * 2 ^ F.S)

theorem pval_of_lt {m : Nat} (h : m < F.INF) : pval F m = (((F.N m : ℝ) / 2 ^ F.S : ℝ) : EReal) := by
  simp [pval, not_le.2 h, rval]

/-- (A) one step below the rounded magnitude is `≤` the exact value -/
theorem lowP (p q : Nat) (hq : 0 < q) (h1 : 1 ≤ F.clamp (F.roundOrd p q)) :
    pval F (F.clamp (F.roundOrd p q) - 1) ≤ ((exactR F p q : ℝ) : EReal) := by
  have hle : F.clamp (F.roundOrd p q) - 1 ≤ F.roundOrd p q - 1 := by
    unfold Fmt.clamp; split <;> omega
  have hlt : F.clamp (F.roundOrd p q) - 1 < F.INF := by have := clamp_le (F := F) (F.roundOrd p q); omega
  rw [pval_of_lt hlt]
  apply EReal.coe_le_coe_iff.2
  have hf := (F.roundOrd_faithful p q hq).1
  have hN : F.N (F.clamp (F.roundOrd p q) - 1) * q ≤ p :=
    le_trans (Nat.mul_le_mul_right q ((F.N_le_iff).2 hle)) hf
  unfold exactR
  have hqr : (0 : ℝ) < q := by exact_mod_cast hq
  rw [div_le_div_iff₀ S_pos (by positivity)]
  have : ((F.N (F.clamp (F.roundOrd p q) - 1) * q : ℕ) : ℝ) ≤ (p : ℝ) := by exact_mod_cast hN
  push_cast at this
  nlinarith [S_pos (F := F)]

/-- (B) one step above the rounded magnitude (or infinity) is `≥` the exact value -/
theorem highP (p q : Nat) (hq : 0 < q) :
    ((exactR F p q : ℝ) : EReal) ≤ pval F (min (F.clamp (F.roundOrd p q) + 1) F.INF) := by
  by_cases hinf : F.INF ≤ F.clamp (F.roundOrd p q) + 1
  · rw [min_eq_right hinf]; simp [pval]
  · have hlt : F.clamp (F.roundOrd p q) + 1 < F.INF := not_le.1 hinf
    rw [min_eq_left (le_of_lt hlt)]
    have hc : F.clamp (F.roundOrd p q) = F.roundOrd p q := by
      unfold Fmt.clamp at hlt ⊢; split at hlt <;> simp_all <;> omega
    rw [pval_of_lt hlt, hc]
    apply EReal.coe_le_coe_iff.2
    have hf := (F.roundOrd_faithful p q hq).2
    unfold exactR
    have hqr : (0 : ℝ) < q := by exact_mod_cast hq
    rw [div_le_div_iff₀ (by positivity) S_pos]
    have : (p : ℝ) ≤ ((F.N (F.roundOrd p q + 1) * q : ℕ) : ℝ) := by exact_mod_cast le_of_lt hf
    push_cast at this
    nlinarith [S_pos (F := F)]

theorem kval_nat (m : Nat) : kval F (m : Int) = pval F m := by simp [kval]
theorem kval_neg_nat {m : Nat} (h : 0 < m) : kval F (-(m : Int)) = - pval F m := by
  have : ¬ (0 : Int) ≤ -(m : Int) := by omega
  simp only [kval, this, if_false, neg_neg, Int.toNat_natCast]

theorem pval_one (hI : 1 < F.INF) : pval F 1 = (((1 : ℝ) / 2 ^ F.S : ℝ) : EReal) := by
  rw [pval_of_lt hI, F.N_one]; simp

theorem clamp_idem (m : Nat) : F.clamp (F.clamp m) = F.clamp m := by
  by_cases h : F.INF ≤ m
  · rw [clamp_of_ge h, clamp_of_ge (le_refl _)]
  · rw [clamp_of_lt (not_le.1 h), clamp_of_lt (not_le.1 h)]

theorem exactR_nonneg (p q : Nat) : 0 ≤ exactR F p q := by unfold exactR; positivity

/-- bracket of a positive magnitude `r0` around a real `v ≥ 0`, from the two one-sided facts about its neighbours -/
theorem bracket_pos (hI : 1 < F.INF) (r0 : Nat) (v : ℝ) (hv : 0 ≤ v)
    (hlo : 1 ≤ F.clamp r0 → pval F (F.clamp r0 - 1) ≤ ((v : ℝ) : EReal))
    (hhi : ((v : ℝ) : EReal) ≤ pval F (min (F.clamp r0 + 1) F.INF)) :
    val (SF.nextDown (fin false r0 : SF F)) ≤ ((v : ℝ) : EReal) ∧
    ((v : ℝ) : EReal) ≤ val (SF.nextUp (fin false r0 : SF F)) := by
  have hI0 : 0 < F.INF := by omega
  set r := F.clamp r0 with hr
  have hn : ¬ IsNaN (fin false r0 : SF F) := fun h => h
  obtain ⟨nd, kd⟩ := key_nextDown (fin false r0 : SF F) hn hI
  obtain ⟨nu, ku⟩ := key_nextUp (fin false r0 : SF F) hn hI
  have hkey : key (fin false r0 : SF F) = (r : Int) := by rw [key_false]
  have rle : r ≤ F.INF := clamp_le _
  constructor
  · rw [val_of_key hI0 _ nd, kd, hkey]
    by_cases h0 : r = 0
    · have : max ((r : Int) - 1) (-(F.INF : Int)) = -((1 : ℕ) : Int) := by rw [h0]; omega
      rw [this, kval_neg_nat (by norm_num), pval_one hI]
      have : (0 : ℝ) ≤ 1 / 2 ^ F.S := by positivity
      rw [← EReal.coe_neg]
      exact EReal.coe_le_coe_iff.2 (by linarith)
    · have : max ((r : Int) - 1) (-(F.INF : Int)) = ((r - 1 : ℕ) : Int) := by omega
      rw [this, kval_nat]
      exact hlo (by omega)
  · rw [val_of_key hI0 _ nu, ku, hkey]
    have : min ((r : Int) + 1) (F.INF : Int) = ((min (r + 1) F.INF : ℕ) : Int) := by omega
    rw [this, kval_nat]
    exact hhi

theorem bracket_neg (hI : 1 < F.INF) (r0 : Nat) (v : ℝ) (hv : 0 ≤ v)
    (hlo : 1 ≤ F.clamp r0 → pval F (F.clamp r0 - 1) ≤ ((v : ℝ) : EReal))
    (hhi : ((v : ℝ) : EReal) ≤ pval F (min (F.clamp r0 + 1) F.INF)) :
    val (SF.nextDown (fin true r0 : SF F)) ≤ ((-v : ℝ) : EReal) ∧
    ((-v : ℝ) : EReal) ≤ val (SF.nextUp (fin true r0 : SF F)) := by
  have hI0 : 0 < F.INF := by omega
  set r := F.clamp r0 with hr
  have hn : ¬ IsNaN (fin true r0 : SF F) := fun h => h
  obtain ⟨nd, kd⟩ := key_nextDown (fin true r0 : SF F) hn hI
  obtain ⟨nu, ku⟩ := key_nextUp (fin true r0 : SF F) hn hI
  have hkey : key (fin true r0 : SF F) = -(r : Int) := by rw [key_true]
  have rle : r ≤ F.INF := clamp_le _
  constructor
  · rw [val_of_key hI0 _ nd, kd, hkey]
    have : max (-(r : Int) - 1) (-(F.INF : Int)) = -((min (r + 1) F.INF : ℕ) : Int) := by omega
    rw [this, kval_neg_nat (by omega), EReal.coe_neg]
    exact EReal.neg_le_neg_iff.2 hhi
  · rw [val_of_key hI0 _ nu, ku, hkey]
    by_cases h0 : r = 0
    · have : min (-(r : Int) + 1) (F.INF : Int) = ((1 : ℕ) : Int) := by rw [h0]; omega
      rw [this, kval_nat, pval_one hI]
      have : (0 : ℝ) ≤ 1 / 2 ^ F.S := by positivity
      exact EReal.coe_le_coe_iff.2 (by linarith)
    · have : min (-(r : Int) + 1) (F.INF : Int) = -((r - 1 : ℕ) : Int) := by omega
      rw [this]
      by_cases h1 : r - 1 = 0
      · rw [h1]; simp only [Nat.cast_zero, neg_zero]
        rw [show (0 : Int) = ((0 : ℕ) : Int) by rfl, kval_nat]
        have := hlo (by omega)
        rw [h1] at this
        have h0' : (0 : EReal) ≤ pval F 0 := pval_nonneg 0
        rw [EReal.coe_neg]
        calc -((v : ℝ) : EReal) ≤ -(pval F 0) := EReal.neg_le_neg_iff.2 this
          _ ≤ 0 := by simpa using h0'
          _ ≤ pval F 0 := h0'
      · rw [kval_neg_nat (by omega), EReal.coe_neg]
        exact EReal.neg_le_neg_iff.2 (hlo (by omega))

/-- signed bracket: `fin s r0` around `±v` -/
theorem bracket_signed (hI : 1 < F.INF) (s : Bool) (r0 : Nat) (v : ℝ) (hv : 0 ≤ v)
    (hlo : 1 ≤ F.clamp r0 → pval F (F.clamp r0 - 1) ≤ ((v : ℝ) : EReal))
    (hhi : ((v : ℝ) : EReal) ≤ pval F (min (F.clamp r0 + 1) F.INF)) :
    val (SF.nextDown (fin s r0 : SF F)) ≤ (((if s then -v else v) : ℝ) : EReal) ∧
    (((if s then -v else v) : ℝ) : EReal) ≤ val (SF.nextUp (fin s r0 : SF F)) := by
  cases s
  · simpa using bracket_pos hI r0 v hv hlo hhi
  · simpa using bracket_neg hI r0 v hv hlo hhi

/-- rounding `p/q`: the signed float `fin s (clamp (roundOrd p q))` brackets `± p/(q·2^S)` -/
theorem faithful_round (hI : 1 < F.INF) (s : Bool) (p q : Nat) (hq : 0 < q) :
    val (SF.nextDown (fin s (F.clamp (F.roundOrd p q)) : SF F)) ≤ (((if s then -exactR F p q else exactR F p q) : ℝ) : EReal) ∧
    (((if s then -exactR F p q else exactR F p q) : ℝ) : EReal) ≤ val (SF.nextUp (fin s (F.clamp (F.roundOrd p q)) : SF F)) := by
  apply bracket_signed hI s _ _ (exactR_nonneg p q)
  · intro h; rw [clamp_idem] at h ⊢; exact lowP p q hq h
  · rw [clamp_idem]; exact highP p q hq

/-- a signed zero brackets `0` -/
theorem zero_bracket (hI : 1 < F.INF) (s : Bool) :
    val (SF.nextDown (fin s 0 : SF F)) ≤ ((0 : ℝ) : EReal) ∧ ((0 : ℝ) : EReal) ≤ val (SF.nextUp (fin s 0 : SF F)) := by
  have h0 : F.clamp 0 = 0 := clamp_of_lt (by omega)
  have := bracket_signed hI s 0 0 (le_refl _) (by rw [h0]; omega) (by
    rw [h0]; simp only [zero_add]
    rw [min_eq_left (by omega : 1 ≤ F.INF), pval_one hI]
    exact EReal.coe_le_coe_iff.2 (by positivity))
  cases s <;> simpa using this

end G3d.SF
