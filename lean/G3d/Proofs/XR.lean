import G3d.Proofs.NumReal
import G3d.Proofs.TransformReal
/-!
# `XR`: the reals with `+∞`, `−∞` and `NaN`, with IEEE special-value rules and exact finite arithmetic

The scalar type for C14: the ray/box slab test is about what happens with reciprocals of zero direction components
(`±∞`) and with `0·∞ = NaN`, not about rounding.  Comparisons involving `NaN` are false; `∞ − ∞`, `0·∞`, `0/0`, `∞/∞` are `NaN`.
(There is one zero: the sign of `1/±0` is supplied by the caller of `BBox3D::intersect` as `inv_dir`.)
-/
namespace G3d
open Num

noncomputable section

inductive XR where
  | fin (r : ℝ)
  | pinf
  | ninf
  | nan

namespace XR

def neg : XR → XR
  | fin r => fin (-r)
  | pinf => ninf
  | ninf => pinf
  | nan => nan

def add : XR → XR → XR
  | fin a, fin b => fin (a + b)
  | fin _, pinf => pinf
  | fin _, ninf => ninf
  | pinf, fin _ => pinf
  | ninf, fin _ => ninf
  | pinf, pinf => pinf
  | ninf, ninf => ninf
  | _, _ => nan

def sgnMul (a : ℝ) (pos : XR) (negv : XR) : XR :=
  if 0 < a then pos else if a < 0 then negv else nan

def mul : XR → XR → XR
  | fin a, fin b => fin (a * b)
  | fin a, pinf => sgnMul a pinf ninf
  | fin a, ninf => sgnMul a ninf pinf
  | pinf, fin b => sgnMul b pinf ninf
  | ninf, fin b => sgnMul b ninf pinf
  | pinf, pinf => pinf
  | ninf, ninf => pinf
  | pinf, ninf => ninf
  | ninf, pinf => ninf
  | _, _ => nan

def div : XR → XR → XR
  | fin a, fin b => if b ≠ 0 then fin (a / b) else sgnMul a pinf ninf
  | fin _, pinf => fin 0
  | fin _, ninf => fin 0
  | pinf, fin b => if 0 ≤ b then pinf else ninf
  | ninf, fin b => if 0 ≤ b then ninf else pinf
  | _, _ => nan

def lt : XR → XR → Bool
  | fin a, fin b => decide (a < b)
  | fin _, pinf => true
  | ninf, fin _ => true
  | ninf, pinf => true
  | _, _ => false

def le : XR → XR → Bool
  | fin a, fin b => decide (a ≤ b)
  | fin _, pinf => true
  | ninf, fin _ => true
  | ninf, pinf => true
  | pinf, pinf => true
  | ninf, ninf => true
  | _, _ => false

def beq : XR → XR → Bool
  | fin a, fin b => decide (a = b)
  | pinf, pinf => true
  | ninf, ninf => true
  | _, _ => false

/-- lift a real function (used for the operations the slab test never calls) -/
def lift (f : ℝ → ℝ) : XR → XR
  | fin a => fin (f a)
  | _ => nan

instance instNumXR : Num XR where
  add := add
  sub a b := add a (neg b)
  mul := mul
  div := div
  neg := neg
  ofNat n := fin (n : ℝ)
  ofSci m s e := fin (OfScientific.ofScientific m s e : ℝ)
  eps := fin ((2 : ℝ)⁻¹ ^ 52)
  maxv := fin ((2 : ℝ) ^ 1024 - (2 : ℝ) ^ 971)
  pi := fin Real.pi
  lt := lt
  le := le
  beq := beq
  abs := lift (fun x => |x|)
  sqrt := lift Real.sqrt
  sin := lift Real.sin
  cos := lift Real.cos
  tan := lift Real.tan
  acos := lift Real.arccos
  atan2 _ _ := nan
  toRadians := lift (fun x => x * (Real.pi / 180))
  toDegrees := lift (fun x => x * (180 / Real.pi))
  nextUp x := x
  nextDown x := x
  ofUsize n := fin (n : ℝ)
  inf := pinf

/-- not a NaN -/
def Ok : XR → Prop
  | nan => False
  | _ => True

/-- value in the extended reals (meaningful for non-NaN) -/
def val : XR → EReal
  | fin r => (r : EReal)
  | pinf => ⊤
  | ninf => ⊥
  | nan => 0

theorem lt_iff {a b : XR} (ha : Ok a) (hb : Ok b) : (Num.lt a b = true) ↔ val a < val b := by
  cases a <;> cases b <;> simp_all [Ok, val, Num.lt, lt, EReal.coe_lt_top, EReal.bot_lt_coe]

theorem lt_nan_left (b : XR) : Num.lt nan b = false := by cases b <;> rfl
theorem lt_nan_right (a : XR) : Num.lt a nan = false := by cases a <;> rfl

theorem isNaN_iff (a : XR) : Num.isNaN a = true ↔ ¬ Ok a := by
  cases a <;> simp [Num.isNaN, Num.beq, beq, Ok]

end XR
end
end G3d
