import G3d.DriverCore
import G3d.Model.Segment
import G3d.Model.Triangle
import G3d.Model.Loop
import G3d.Model.Polygon
import G3d.Model.Json
/-! ops of the segment / triangle / loop / polygon / json layer (C19 C04 C05 C10 C11 C12 C20) -/
namespace G3d
open Num
section
variable {α : Type} [Num α] [FloatIO α]

def rdPtsL : RdM (List (V3 α)) := do return (← rdPts (α := α)).toList
def shPtsL (l : List (V3 α)) : String := l.foldl (fun s p => s ++ " " ++ shV p) (toString l.length)
def rdSeg : RdM (Segment α) := do
  let a ← rdV (α := α); let b ← rdV
  return Segment.new a b
def shSeg (s : Segment α) : String := s!"{shV s.start} {shV s.stop} {shF s.length}"
def shOptV (o : Option (V3 α)) : String := match o with | none => "0" | some p => s!"1 {shV p}"
def shResB (r : Res Bool) : String :=
  match r with | .ok b => s!"ok {shB b}" | .err _ => "err" | .panic _ => "panic"
def shResWith {β : Type} (r : Res β) (f : β → String) : String :=
  match r with | .ok b => s!"ok {f b}" | .err _ => "err" | .panic _ => "panic"

/-- observable state of a loop: `closed n verts… normal [area perimeter]` (area/perimeter only readable when closed) -/
def shLoop (l : Loop α) : String :=
  let base := s!"{shB l.closed} {shPtsL l.vertices} {shV l.normal}"
  if l.closed then s!"{base} {shF l.area} {shF l.perimeter}" else base

/-- build a loop the way every harness case does: `push` all, then `close`; `none` when any call is not `ok` -/
def buildLoopOpen (pts : List (V3 α)) : Option (Loop α) :=
  pts.foldl (fun (acc : Option (Loop α)) p =>
    match acc with
    | none => none
    | some l => match l.push p with
      | (l', .ok ()) => some l'
      | _ => none) (some Loop.new)

def buildLoop (pts : List (V3 α)) : Option (Loop α) :=
  match buildLoopOpen pts with
  | none => none
  | some l => match l.close with
    | (l', .ok ()) => some l'
    | _ => none

/-- `h <hole pts>…` -/
def rdHoles : RdM (List (List (V3 α))) := do
  let h ← rdN
  let mut hs : List (List (V3 α)) := []
  for _ in [0:h] do
    hs := hs ++ [← rdPtsL (α := α)]
  return hs

/-- outer + holes through `Polygon3D::new` and `cut_hole` (all must be ok) -/
def buildPolygon (outer : List (V3 α)) (holes : List (List (V3 α))) : Option (Polygon α) :=
  match buildLoop outer with
  | none => none
  | some o =>
    match Polygon.new o with
    | .ok pg =>
      holes.foldl (fun (acc : Option (Polygon α)) h =>
        match acc with
        | none => none
        | some pg => match buildLoop h with
          | none => none
          | some hl => match pg.cutHole hl with
            | (pg', .ok ()) => some pg'
            | _ => none) (some pg)
    | _ => none

def shPolygon (pg : Polygon α) : String :=
  let inner := pg.inner.foldl (fun s l => s ++ " " ++ shLoop l) ""
  s!"{shF pg.area} {shV pg.normal} {shLoop pg.outer} {pg.inner.length}{inner}"

/-- `loop.hist k (P x y z | C)…` -/
def runHist : RdM String := do
  let k ← rdN
  let mut l : Loop α := Loop.new
  let mut out : List String := []
  let mut dead := false
  for _ in [0:k] do
    let t ← rdTok
    let p ← if t == "P" then rdV (α := α) else pure ⟨0, 0, 0⟩
    if !dead then
      let (l', r) := if t == "P" then l.push p else l.close
      match r with
      | .panic _ => out := out ++ ["panic"]; dead := true
      | .ok () => out := out ++ [s!"ok {shLoop l'}"]; l := l'
      | .err _ => out := out ++ [s!"err {shLoop l'}"]; l := l'
  return " | ".intercalate out

/-- prefix encoding of a `serde_json::Value`: `Z` | `B 0/1` | `N hex` | `S` | `A n elems…` | `O n (S value)…` -/
partial def rdJson : RdM (Json α) := do
  let t ← rdTok
  match t with
  | "Z" => return .null
  | "B" => do let b ← rdN; return .bool (b != 0)
  | "N" => do let x ← rdF (α := α); return .num x
  | "S" => return .str ""
  | "A" => do
    let n ← rdN
    let mut l : List (Json α) := []
    for _ in [0:n] do
      l := l ++ [← rdJson]
    return .arr l
  | "O" => do
    let n ← rdN
    let mut l : List (String × Json α) := []
    for _ in [0:n] do
      l := l ++ [("", ← rdJson)]
    return .obj l
  | _ => return .null

def shNums (l : List α) : String := l.foldl (fun s x => s ++ " " ++ shF x) (toString l.length)

def runOpGeom (op : String) : Option (RdM String) :=
  match op with
  -- Vector3D / Point3D ---------------------------------------------------------------------------
  | "vec.cross" => some do let a ← rdV (α := α); let b ← rdV; return shV (a.cross b)
  | "vec.len" => some do let a ← rdV (α := α); return s!"{shF a.length} {shF a.lengthSquared}"
  | "vec.norm" => some do let a ← rdV (α := α); return shV a.normalize
  | "vec.zero" => some do let a ← rdV (α := α); return shB a.isZero
  | "vec.cmp" => some do let a ← rdV (α := α); let b ← rdV; return shB (a.compare b)
  | "vec.par" => some do let a ← rdV (α := α); let b ← rdV; return s!"{shB (a.isParallel b)} {shB (a.isSameDirection b)}"
  | "vec.perp" => some do
      let a ← rdV (α := α)
      match a.getPerpendicular with
      | none => return "err"
      | some v => return s!"ok {shV v}"
  | "vec.ops" => some do
      let a ← rdV (α := α); let b ← rdV; let s ← rdF
      return s!"{shV (a + b)} {shV (a - b)} {shV (-a)} {shV (a.smul s)} {shV (a.sdiv s)} {shF (a.dot b)} {shV a.abs}"
  | "pt.col" => some do
      let a ← rdV (α := α); let b ← rdV; let c ← rdV
      match a.isCollinear b c with
      | none => return "err"
      | some r => return s!"ok {shB r}"
  | "pt.dist" => some do let a ← rdV (α := α); let b ← rdV; return s!"{shF (a.distance b)} {shF (a.squaredDistance b)}"
  -- Segment3D ------------------------------------------------------------------------------------
  | "seg.new" => some do
      let s ← rdSeg (α := α)
      return s!"{shSeg s} {shV s.asVector} {shV s.asReversedVector} {shV s.midpoint}"
  | "seg.cmp" => some do let s ← rdSeg (α := α); let o ← rdSeg; return shB (s.compare o)
  | "seg.cpt" => some do let s ← rdSeg (α := α); let p ← rdV; return shResB (s.containsPoint p)
  | "seg.cont" => some do let s ← rdSeg (α := α); let o ← rdSeg; return shResB (s.contains o)
  | "seg.ipt" => some do
      let s ← rdSeg (α := α); let o ← rdSeg
      match s.getIntersectionPt o with
      | none => return "none"
      | some (ta, tb) => return s!"some {shF ta} {shF tb}"
  | "seg.int" => some do
      let s ← rdSeg (α := α); let o ← rdSeg
      return s!"{shOptV (s.intersect o)} {shOptV (s.touches o)}"
  -- Triangle3D -----------------------------------------------------------------------------------
  | "tri.new" => some do
      let a ← rdV (α := α); let b ← rdV; let c ← rdV
      return shResWith (Triangle.new a b c) fun t =>
        let ar := match t.aspectRatioR with | .ok x => shF x | _ => "panic"
        s!"{shV t.normal} {shF t.area} {shF t.circumradius} {ar} {shF t.aspectRatio} {shV t.circumcenter} {shV t.centroid} {shBox t.bounds}"
  | "tri.tp" => some do
      let a ← rdV (α := α); let b ← rdV; let c ← rdV; let p ← rdV
      return shResWith (Triangle.new a b c) fun t => toString (t.testPoint p).code
  | "tri.idx" => some do
      let a ← rdV (α := α); let b ← rdV; let c ← rdV; let i ← rdN
      return shResWith (Triangle.new a b c) fun t =>
        s!"{shResWith (t.vertex i) shV} {shResWith (t.segment i) shSeg}"
  | "tri.edge" => some do
      let a ← rdV (α := α); let b ← rdV; let c ← rdV; let p ← rdV; let q ← rdV
      return shResWith (Triangle.new a b c) fun t =>
        s!"{shOptN (t.getEdgeIndexFromSegment (Segment.new p q))} {shOptN (t.getEdgeIndexFromPoints p q)} {shB (t.hasVertex p)}"
  | "tri.cmp" => some do
      let a ← rdV (α := α); let b ← rdV; let c ← rdV; let d ← rdV; let e ← rdV; let f ← rdV
      match Triangle.new a b c, Triangle.new d e f with
      | .ok s, .ok t => return s!"ok {shB (s.compare t)}"
      | _, _ => return "err"
  | "tri.mt" => some do
      let r ← rdRay (α := α); let a ← rdV; let b ← rdV; let c ← rdV
      return shResWith (Triangle.new a b c) fun t =>
        match t.basicIntersection r with
        | none => "none"
        | some (p, u, v) => s!"some {shV p} {shF u} {shF v}"
  -- Loop3D ---------------------------------------------------------------------------------------
  | "loop.hist" => some (runHist (α := α))
  | "loop.tp" => some do
      let pts ← rdPtsL (α := α); let q ← rdV
      match buildLoop pts with
      | none => return "build-err"
      | some l => return shResB (l.testPoint q)
  | "loop.metrics" => some do
      let pts ← rdPtsL (α := α)
      match buildLoop pts with
      | none => return "build-err"
      | some l => return s!"{shLoop l} {shResWith l.areaR shF} {shResWith l.perimeterR shF} {shResWith l.centroid shV}"
  | "poly.metrics" => some do
      let pts ← rdPtsL (α := α)
      match buildLoop pts with
      | none => return "build-err"
      | some l => return shResWith (Polygon.new l) fun pg => s!"{shF pg.area} {shV pg.normal} {shV pg.outerCentroid}"
  | "loop.open" => some do
      -- accessors on an open loop
      let pts ← rdPtsL (α := α); let q ← rdV
      match buildLoopOpen pts with
      | none => return "build-err"
      | some l => return s!"{shLoop l} {shResWith l.areaR shF} {shResWith l.perimeterR shF} {shResWith l.centroid shV} {shResB (l.testPoint q)} {shResB (l.isCoplanar q)}"
  | "loop.sanitize" => some do
      -- build, remove `k` vertices (indices given), optionally re-open, sanitize
      let pts ← rdPtsL (α := α); let k ← rdN
      let mut idx : List Nat := []
      for _ in [0:k] do idx := idx ++ [← rdN]
      let reopen ← rdN
      match buildLoop pts with
      | none => return "build-err"
      | some l =>
        let mut cur : Res (Loop α) := .ok l
        for i in idx do
          cur := match cur with | .ok c => c.remove i | e => e
        match cur with
        | .ok c =>
          let c := if reopen != 0 then c.open else c
          return s!"{shLoop c} -> {shResWith c.sanitize shLoop}"
        | _ => return "panic"
  | "loop.rm" => some do
      -- build, remove vertices, then query the mutilated (still "closed") loop
      let pts ← rdPtsL (α := α); let k ← rdN
      let mut idx : List Nat := []
      for _ in [0:k] do idx := idx ++ [← rdN]
      let q ← rdV; let s ← rdSeg
      match buildLoop pts with
      | none => return "build-err"
      | some l =>
        let mut cur : Res (Loop α) := .ok l
        for i in idx do
          cur := match cur with | .ok c => c.remove i | e => e
        match cur with
        | .ok c =>
          return s!"{shLoop c} {shResB (c.testPoint q)} {shResB (c.isDiagonal s)} {shResB (c.containsSegment s)} {shResWith c.centroid shV} {shResB (c.isCoplanar q)}"
        | _ => return "panic"
  | "loop.idx" => some do
      let pts ← rdPtsL (α := α); let i ← rdN
      match buildLoop pts with
      | none => return "build-err"
      | some l => return s!"{l.len} {shResWith (l.index i) shV}"
  | "loop.diag" => some do
      let pts ← rdPtsL (α := α); let s ← rdSeg
      match buildLoop pts with
      | none => return "build-err"
      | some l => return s!"{shResB (l.isDiagonal s)} {shResB (l.containsSegment s)}"
  -- Polygon3D ------------------------------------------------------------------------------------
  | "poly.tp" => some do
      let outer ← rdPtsL (α := α); let holes ← rdHoles; let q ← rdV
      match buildPolygon outer holes with
      | none => return "build-err"
      | some pg => return shResB (pg.testPoint q)
  | "poly.cut" => some do
      let outer ← rdPtsL (α := α)
      let k ← rdN
      let mut cands : List (Bool × List (V3 α)) := []
      for _ in [0:k] do
        let t ← rdTok
        let pts ← rdPtsL (α := α)
        cands := cands ++ [(t == "H", pts)]
      match buildLoop outer with
      | none => return "build-err"
      | some o =>
        -- even steps use `Polygon3D::new`, the harness does the same
        match Polygon.new o with
        | .ok pg0 =>
          let mut pg := pg0
          let mut out : List String := []
          let mut dead := false
          for (closed, pts) in cands do
            if !dead then
              let hl := if closed then buildLoop pts else buildLoopOpen pts
              match hl with
              | none => out := out ++ ["nohole"]
              | some hl =>
                let (pg', r) := pg.cutHole hl
                match r with
                | .panic _ => out := out ++ ["panic"]; dead := true
                | .ok () => pg := pg'; out := out ++ [s!"ok {shF pg'.area} {pg'.inner.length}"]
                | .err _ => pg := pg'; out := out ++ [s!"err {shF pg'.area} {pg'.inner.length}"]
          return " | ".intercalate out
        | _ => return "build-err"
  | "poly.misc" => some do
      let outer ← rdPtsL (α := α); let holes ← rdHoles; let s ← rdSeg
      match buildPolygon outer holes with
      | none => return "build-err"
      | some pg =>
        let viaFrom := match buildLoop outer with
          | some o => shResWith (Polygon.ofLoop o) fun p => s!"{shF p.area} {shV p.normal}"
          | none => "build-err"
        return s!"{shPolygon pg} {shV pg.outerCentroid} {shResB (pg.containsSegment s)} {viaFrom}"
  | "poly.from" => some do
      -- `Polygon3D::new` and `From<Loop3D>` on an OPEN loop
      let pts ← rdPtsL (α := α)
      match buildLoopOpen pts with
      | none => return "build-err"
      | some l =>
        return s!"{(Polygon.new l).cls} {(Polygon.ofLoop l).cls}"
  | "poly.cl" => some do
      let outer ← rdPtsL (α := α); let holes ← rdHoles
      match buildPolygon outer holes with
      | none => return "build-err"
      | some pg =>
        match pg.getClosedLoop with
        | .ok l =>
          let (l', r) := l.close
          return s!"ok {shLoop l} close {r.cls} {shLoop l'}"
        | .err _ => return "err"
        | .panic _ => return "panic"
  -- JSON -----------------------------------------------------------------------------------------
  | "json.loop" => some do
      let j ← rdJson (α := α)
      return shResWith (Loop.deserialize j) shLoop
  | "json.poly" => some do
      let j ← rdJson (α := α)
      return shResWith (Polygon.deserialize j) shPolygon
  | "json.unparsed" => some (return "err")
  | "json.ser.loop" => some do
      let pts ← rdPtsL (α := α)
      match buildLoop pts with
      | none => return "build-err"
      | some l => return shNums l.serialize
  | "json.ser.poly" => some do
      let outer ← rdPtsL (α := α); let holes ← rdHoles
      match buildPolygon outer holes with
      | none => return "build-err"
      | some pg => return shResWith pg.serialize shNums
  | _ => none

end
end G3d
