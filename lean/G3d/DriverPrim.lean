import G3d.DriverCore
import G3d.Model.Prim
/-! ops of the ray–primitive intersection layer.

Primitive specs (tokens):
* triangle  `ax ay az bx by bz cx cy cz`
* optional chain `N` | `Y <chain>`
* disk      `D0 centre normal radius` (`Disk3D::new`) | `D1 centre normal radius inner phi_zero phi_max <optchain>` (`new_detailed`)
* sphere    `S0 radius centre` (`new`) | `S1 radius centre zmin zmax phi_max` (`new_partial`)
            | `S2 radius <optchain>` (`new_transformed`) | `S3 radius zmin zmax phi_max <optchain>` (`new_partial_transformed`)
* cylinder  `C0 p0 p1 radius` (`new`) | `C1 p0 p1 radius phi_max` (`new_partial`) | `C2 radius zmin zmax phi_max <optchain>` (`new_transformed`)
* source    `direction angle`
A constructor panic makes the whole result `panic`.
-/
namespace G3d
open Num
section
variable {α : Type} [Num α] [FloatIO α]

def rdOptChain : RdM (Option (Transform α)) := do
  let k ← rdTok
  if k == "Y" then
    let t ← rdChain (α := α)
    return some t
  else return none

def rdTri : RdM (TriV α) := do
  let a ← rdV; let b ← rdV; let c ← rdV
  return ⟨a, b, c⟩

def rdDisk : RdM (Res (Disk α)) := do
  let k ← rdTok
  let centre ← rdV (α := α); let normal ← rdV; let radius ← rdF
  if k == "D0" then return Disk.new centre normal radius
  else
    let inner ← rdF; let pz ← rdV; let pm ← rdF; let tr ← rdOptChain
    return Disk.newDetailed centre normal radius inner pz pm tr

def rdSphere : RdM (Res (Sphere α)) := do
  let k ← rdTok
  let radius ← rdF (α := α)
  match k with
  | "S0" => do let c ← rdV; return Sphere.new radius c
  | "S1" => do
      let c ← rdV; let zmin ← rdF; let zmax ← rdF; let pm ← rdF
      return Sphere.newPartial radius c zmin zmax pm
  | "S2" => do let tr ← rdOptChain; return Sphere.newTransformed radius tr
  | _ => do
      let zmin ← rdF; let zmax ← rdF; let pm ← rdF; let tr ← rdOptChain
      return Sphere.newPartialTransformed radius zmin zmax pm tr

def rdCyl : RdM (Res (Cylinder α)) := do
  let k ← rdTok
  match k with
  | "C0" => do let p0 ← rdV (α := α); let p1 ← rdV; let r ← rdF; return Cylinder.new p0 p1 r
  | "C1" => do let p0 ← rdV (α := α); let p1 ← rdV; let r ← rdF; let pm ← rdF; return Cylinder.newPartial p0 p1 r pm
  | _ => do
      let r ← rdF (α := α); let zmin ← rdF; let zmax ← rdF; let pm ← rdF; let tr ← rdOptChain
      return Cylinder.newTransformed r zmin zmax pm tr

def rdSrc : RdM (Source α) := do
  let d ← rdV (α := α); let a ← rdF
  return Source.new d a

def shOptVP (o : Option (V3 α)) : String :=
  match o with | none => "none" | some p => s!"some {shV p}"
def shOptFP (o : Option α) : String :=
  match o with | none => "none" | some p => s!"some {shF p}"
def shInfo (i : Info α) : String :=
  s!"{shV i.p} {shV i.normal} {i.side.code} {shV i.dpdu} {shV i.dpdv}"
def shOptInfo (o : Option (Info α)) : String :=
  match o with | none => "none" | some i => s!"some {shInfo i}"
/-- `Option<(Point3D, Float)>` -/
def shOptPF (o : Option (V3 α × α)) : String :=
  match o with | none => "none" | some (p, f) => s!"some {shV p} {shF f}"
def shOptPFF (o : Option (V3 α × α × α)) : String :=
  match o with | none => "none" | some (p, u, v) => s!"some {shV p} {shF u} {shF v}"
def shOptT (o : Option (Transform α)) : String :=
  match o with | none => "none" | some t => s!"some {shT t}"
def shQuad (q : Approx α × Approx α × Approx α) : String :=
  let sol := match Approx.solveQuadratic q.1 q.2.1 q.2.2 with
    | none => "none"
    | some (x1, x2) => s!"some {shA x1} {shA x2}"
  s!"{shA q.1} {shA q.2.1} {shA q.2.2} {sol}"

/-- result of an op on a constructed primitive: constructor panics become `panic` -/
def onRes {β : Type} (r : Res β) (f : β → String) : String :=
  match r with
  | .ok b => f b
  | .err _ => "err"
  | .panic _ => "panic"

def runOpPrim (op : String) : Option (RdM String) :=
  match op with
  -- intersection.rs ---------------------------------------------------------------------------------
  | "side" => some do
      let n ← rdV (α := α); let d ← rdV
      let r := getSide n d
      return s!"{shV r.1} {r.2.code}"
  | "info.new" => some do
      let ray ← rdRay (α := α); let p ← rdV; let dpdu ← rdV; let dpdv ← rdV
      let z : V3 α := ⟨0, 0, 0⟩
      return shInfo (Info.new ray p 0 0 dpdu dpdv z z z)
  | "info.tr" => some do
      let t ← rdChain (α := α)
      let p ← rdV; let n ← rdV; let sd ← rdN; let dpdu ← rdV; let dpdv ← rdV
      let side := if sd == 0 then Side.front else if sd == 1 then Side.back else Side.nonApplicable
      let i : Info α := { p := p, normal := n, side := side, dpdu := dpdu, dpdv := dpdv }
      return s!"{shInfo (i.transform t)} {shInfo (i.invTransform t)}"
  -- plane3d.rs ----------------------------------------------------------------------------------------
  | "pl.new" => some do
      let p ← rdV (α := α); let n ← rdV
      let pl := Plane.new p n
      return s!"{shV pl.normal} {shF pl.d}"
  | "pl.test" => some do
      let p ← rdV (α := α); let n ← rdV; let q ← rdV
      return shB ((Plane.new p n).testPoint q)
  | "pl.int" => some do
      let p ← rdV (α := α); let n ← rdV; let ray ← rdRay
      return shOptFP ((Plane.new p n).intersect ray)
  -- triangle3d.rs ---------------------------------------------------------------------------------------
  | "tri.basic" => some do
      let t ← rdTri (α := α); let ray ← rdRay; let oe ← rdV; let de ← rdV
      return shOptPFF (t.basicIntersection ray oe de)
  | "tri.local" => some do
      let t ← rdTri (α := α); let ray ← rdRay; let oe ← rdV; let de ← rdV
      return shOptInfo (t.intersectLocalRay ray oe de)
  | "tri.slocal" => some do
      let t ← rdTri (α := α); let ray ← rdRay; let oe ← rdV; let de ← rdV
      return shOptVP (t.simpleIntersectLocalRay ray oe de)
  | "tri.int" => some do
      let t ← rdTri (α := α); let ray ← rdRay
      return shOptInfo (t.intersect ray)
  | "tri.sint" => some do
      let t ← rdTri (α := α); let ray ← rdRay
      return shOptVP (t.simpleIntersect ray)
  | "tri.bounds" => some do
      let t ← rdTri (α := α)
      return s!"{shBox t.bounds} {shBox t.worldBounds}"
  -- disk3d.rs ---------------------------------------------------------------------------------------------
  | "dk.ctor" => some do
      let d ← rdDisk (α := α)
      return onRes d fun d => s!"ok {shF d.area} {shOptT d.transform}"
  | "dk.basic" => some do
      let d ← rdDisk (α := α); let ray ← rdRay; let oe ← rdV; let de ← rdV
      return onRes d fun d => shOptPF (d.basicIntersection ray oe de)
  | "dk.info" => some do
      let d ← rdDisk (α := α); let ray ← rdRay; let phit ← rdV; let phi ← rdF
      return onRes d fun d => shOptInfo (d.intersectionInfo ray phit phi)
  | "dk.local" => some do
      let d ← rdDisk (α := α); let ray ← rdRay; let oe ← rdV; let de ← rdV
      return onRes d fun d => shOptInfo (d.intersectLocalRay ray oe de)
  | "dk.slocal" => some do
      let d ← rdDisk (α := α); let ray ← rdRay; let oe ← rdV; let de ← rdV
      return onRes d fun d => shOptVP (d.simpleIntersectLocalRay ray oe de)
  | "dk.int" => some do
      let d ← rdDisk (α := α); let ray ← rdRay
      return onRes d fun d => shOptInfo (d.intersect ray)
  | "dk.sint" => some do
      let d ← rdDisk (α := α); let ray ← rdRay
      return onRes d fun d => shOptVP (d.simpleIntersect ray)
  -- sphere3d.rs -----------------------------------------------------------------------------------------------
  | "sp.ctor" => some do
      let s ← rdSphere (α := α)
      return onRes s fun s =>
        s!"ok {shF s.radius} {shBox s.bounds} {shF s.area} {shV s.centre} {shBox s.worldBounds} {shOptT s.transform}"
  | "sp.quad" => some do
      let s ← rdSphere (α := α); let ray ← rdRay; let oe ← rdV; let de ← rdV
      return onRes s fun s => shQuad (s.quadCoeffs ray oe de)
  | "sp.info" => some do
      let s ← rdSphere (α := α); let ray ← rdRay; let phit ← rdV; let phi ← rdF
      return onRes s fun s => shOptInfo (s.intersectionInfo ray phit phi)
  | "sp.local" => some do
      let s ← rdSphere (α := α); let ray ← rdRay; let oe ← rdV; let de ← rdV
      return onRes s fun s => shOptInfo (s.intersectLocalRay ray oe de)
  | "sp.slocal" => some do
      let s ← rdSphere (α := α); let ray ← rdRay; let oe ← rdV; let de ← rdV
      return onRes s fun s => shOptVP (s.simpleIntersectLocalRay ray oe de)
  | "sp.int" => some do
      let s ← rdSphere (α := α); let ray ← rdRay
      return onRes s fun s => shOptInfo (s.intersect ray)
  | "sp.sint" => some do
      let s ← rdSphere (α := α); let ray ← rdRay
      return onRes s fun s => shOptVP (s.simpleIntersect ray)
  -- cylinder3d.rs ---------------------------------------------------------------------------------------------
  | "cy.ctor" => some do
      let s ← rdCyl (α := α)
      return onRes s fun s => s!"ok {shBox s.bounds} {shF s.area} {shBox s.worldBounds} {shOptT s.transform}"
  | "cy.quad" => some do
      let s ← rdCyl (α := α); let ray ← rdRay; let oe ← rdV; let de ← rdV
      return onRes s fun s => shQuad (s.quadCoeffs ray oe de)
  | "cy.basic" => some do
      let s ← rdCyl (α := α); let ray ← rdRay; let oe ← rdV; let de ← rdV
      return onRes s fun s => shOptPF (s.basicIntersection ray oe de)
  | "cy.info" => some do
      let s ← rdCyl (α := α); let ray ← rdRay; let phit ← rdV; let phi ← rdF
      return onRes s fun s => shOptInfo (s.intersectionInfo ray phit phi)
  | "cy.local" => some do
      let s ← rdCyl (α := α); let ray ← rdRay; let oe ← rdV; let de ← rdV
      return onRes s fun s => shOptInfo (s.intersectLocalRay ray oe de)
  | "cy.slocal" => some do
      let s ← rdCyl (α := α); let ray ← rdRay; let oe ← rdV; let de ← rdV
      return onRes s fun s => shOptVP (s.simpleIntersectLocalRay ray oe de)
  | "cy.int" => some do
      let s ← rdCyl (α := α); let ray ← rdRay
      return onRes s fun s => shOptInfo (s.intersect ray)
  | "cy.sint" => some do
      let s ← rdCyl (α := α); let ray ← rdRay
      return onRes s fun s => shOptVP (s.simpleIntersect ray)
  -- distant_source3d.rs -----------------------------------------------------------------------------------------
  | "ds.new" => some do
      let s ← rdSrc (α := α)
      return s!"{shV s.direction} {shF s.omega} {shF s.angle} {shF s.cosHalfAlpha} {shF s.tanHalfAlpha} {shF s.area}"
  | "ds.proxy" => some do
      let s ← rdSrc (α := α); let t ← rdF
      return onRes (s.getProxyDisk t) fun d => s!"ok {shF d.area}"
  | "ds.local" => some do
      let s ← rdSrc (α := α); let ray ← rdRay; let oe ← rdV; let de ← rdV
      return onRes (s.intersectLocalRay ray oe de) shOptInfo
  | "ds.slocal" => some do
      let s ← rdSrc (α := α); let ray ← rdRay; let oe ← rdV; let de ← rdV
      return shOptVP (s.simpleIntersectLocalRay ray oe de)
  | "ds.int" => some do
      let s ← rdSrc (α := α); let ray ← rdRay
      return onRes (s.intersect ray) shOptInfo
  | "ds.sint" => some do
      let s ← rdSrc (α := α); let ray ← rdRay
      return shOptVP (s.simpleIntersect ray)
  -- bounds + hit (c15b) -------------------------------------------------------------------------------------------
  | "bh.tri" => some do
      let t ← rdChain (α := α); let tv ← rdTri; let ray ← rdRay
      let tw : TriV α := ⟨t.transformPt tv.a, t.transformPt tv.b, t.transformPt tv.c⟩
      return s!"{shV tw.a} {shV tw.b} {shV tw.c} {shBox tw.bounds} {shBox tw.worldBounds} {shOptVP (tw.simpleIntersect ray)}"
  | "bh.sp" => some do
      let s ← rdSphere (α := α); let ray ← rdRay
      return onRes s fun s => s!"{shBox s.bounds} {shBox s.worldBounds} {shOptVP (s.simpleIntersect ray)}"
  | "bh.cy" => some do
      let s ← rdCyl (α := α); let ray ← rdRay
      return onRes s fun s => s!"{shBox s.bounds} {shBox s.worldBounds} {shOptVP (s.simpleIntersect ray)}"
  | _ => none

end
end G3d
