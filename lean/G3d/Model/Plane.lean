import G3d.Model.Vec
/-! Model of `plane3d.rs`. -/
namespace G3d
open Num

/-- `Plane3D` -/
structure Plane (α : Type) where
  normal : V3 α
  d : α
deriving Repr, Inhabited

variable {α : Type} [Num α]

namespace Plane

/-- `Plane3D::new` -/
def new (point normal : V3 α) : Plane α :=
  let normal := normal.normalize
  ⟨normal, normal.dot point⟩

/-- `Plane3D::test_point` -/
def testPoint (s : Plane α) (point : V3 α) : Bool :=
  Num.abs (s.normal.dot point - s.d) <. (Num.eps : α)

/-- `Plane3D::intersect` -/
def intersect (s : Plane α) (ray : Ray α) : Option α :=
  let den := s.normal.dot ray.direction
  if Num.abs den <. (Num.eps : α) then none else
  let t := (s.d - s.normal.dot ray.origin) / den
  if t <. (0 : α) then none else some t

end Plane
end G3d
