import G3d.Model.Vec
import G3d.Model.Outcome
import G3d.Model.BBox
import G3d.Model.Segment
/-! Model of `triangle3d.rs` (literal transcription): `Triangle3D`, `PointInTriangle`, `intersect_triangle`.
    The `intersect*` / `IntersectionInfo` wrappers belong to the ray-intersection layer. -/
namespace G3d
open Num

variable {α : Type} [Num α]

/-- free function `intersect_triangle` (Möller–Trumbore as written) -/
def intersectTriangle (ray : Ray α) (vertex0 vertex1 vertex2 : V3 α) : Option (V3 α × α × α) :=
  let edge1 := vertex1 - vertex0
  let edge2 := vertex2 - vertex0
  let h := ray.direction.cross edge2
  let a := edge1.dot h
  let tiny : α := tiny100
  -- the determinant is compared with its own scale (a ray parallel to the triangle gives rounding noise only)
  if Num.abs a <=. tiny * edge1.length * h.length then none else
  let f := (1 : α) / a
  let s := ray.origin - vertex0
  let u := f * (s.dot h)
  if !(inUnitClosed u) then none else
  let q := s.cross edge1
  let v := f * (ray.direction.dot q)
  if !(inUnitClosed v) || (u + v >. (1 : α)) then none else
  let t := f * (edge2.dot q)
  if t >. tiny then some (ray.project t, u, v) else none

/-- `PointInTriangle` (declaration order = the `repr(u8)` discriminants 0..7) -/
inductive PointInTriangle where
  | vertexA | vertexB | vertexC | edgeAB | edgeBC | edgeAC | inside | outside
deriving Repr, DecidableEq, Inhabited

namespace PointInTriangle
def code : PointInTriangle → Nat
  | vertexA => 0 | vertexB => 1 | vertexC => 2 | edgeAB => 3 | edgeBC => 4 | edgeAC => 5
  | inside => 6 | outside => 7
def isVertex : PointInTriangle → Bool
  | vertexA | vertexB | vertexC => true | _ => false
def isEdge : PointInTriangle → Bool
  | edgeAB | edgeAC | edgeBC => true | _ => false
end PointInTriangle

/-- `Triangle3D` -/
structure Triangle (α : Type) where
  a : V3 α
  b : V3 α
  c : V3 α
  normal : V3 α
  area : α
deriving Repr, Inhabited

namespace Triangle

def ab (t : Triangle α) : Segment α := Segment.new t.a t.b
def bc (t : Triangle α) : Segment α := Segment.new t.b t.c
def ca (t : Triangle α) : Segment α := Segment.new t.c t.a

/-- `set_normal` (note: second edge is `c - b`) -/
def setNormal (t : Triangle α) : Triangle α :=
  let bA := t.b - t.a
  let cA := t.c - t.b
  { t with normal := (bA.cross cA).normalize }

/-- `set_area` (Heron form exactly as written) -/
def setArea (t : Triangle α) : Triangle α :=
  let ab := t.ab.length
  let bc := t.bc.length
  let ca := t.ca.length
  { t with area := Num.sqrt ((ca + bc + ab)
      * ((ca + bc + ab) / 2 - ab)
      * ((ca + bc + ab) / 2 - bc)
      * ((ca + bc + ab) / 2 - ca)
      / 2) }

/-- `Triangle3D::new` -/
def new (vertexA vertexB vertexC : V3 α) : Res (Triangle α) :=
  if vertexA.compare vertexB || vertexA.compare vertexC || vertexB.compare vertexC then
    .err "triangle3d.rs:new:two-equal-points"
  else
  match (vertexA.isCollinearR vertexB vertexC).unwrap "triangle3d.rs:new:is_collinear.unwrap" with
  | .err e => .err e
  | .panic p => .panic p
  | .ok true => .err "triangle3d.rs:new:collinear"
  | .ok false =>
    let t : Triangle α := { a := vertexA, b := vertexB, c := vertexC, area := -(1 : α), normal := ⟨0, 0, 0⟩ }
    .ok (t.setArea.setNormal)

/-- `circumradius` (default build) -/
def circumradius (t : Triangle α) : α :=
  let a := t.ab.length
  let b := t.bc.length
  let c := t.ca.length
  let s := (a + b + c) * (b + c - a) * (c + a - b) * (a + b - c)
  a * b * c / Num.sqrt s

/-- `vertex(i)` -/
def vertex (t : Triangle α) (i : Nat) : Res (V3 α) :=
  match i with
  | 0 => .ok t.a
  | 1 => .ok t.b
  | 2 => .ok t.c
  | _ => .err "triangle3d.rs:vertex:out-of-bounds"

/-- `segment(i)` -/
def segment (t : Triangle α) (i : Nat) : Res (Segment α) :=
  match i with
  | 0 => .ok t.ab
  | 1 => .ok t.bc
  | 2 => .ok t.ca
  | _ => .err "triangle3d.rs:segment:out-of-bounds"

/-- body of the `for i in 0..3` loop of `aspect_ratio`: iterations `i, i+1, …` while fuel lasts -/
def aspectRatioLoop (t : Triangle α) : Nat → Nat → α → Res α
  | 0, _, minSegment => .ok minSegment
  | fuel + 1, i, minSegment =>
    match (t.segment i).unwrap "triangle3d.rs:aspect_ratio:segment.unwrap" with
    | .err e => .err e
    | .panic p => .panic p
    | .ok s =>
      let minSegment := if s.length <. minSegment then s.length else minSegment
      aspectRatioLoop t fuel (i + 1) minSegment

/-- `aspect_ratio`, literally (with the `segment(i).unwrap()` panic sites) -/
def aspectRatioR (t : Triangle α) : Res α :=
  match aspectRatioLoop t 3 0 (1E19 : α) with
  | .ok minSegment => .ok (t.circumradius / minSegment)
  | .err e => .err e
  | .panic p => .panic p

/-- `aspect_ratio` with the three (always `Ok`) `segment(i)` calls resolved -/
def aspectRatio (t : Triangle α) : α :=
  let m : α := 1E19
  let m := if t.ab.length <. m then t.ab.length else m
  let m := if t.bc.length <. m then t.bc.length else m
  let m := if t.ca.length <. m then t.ca.length else m
  t.circumradius / m

/-- the `unwrap`s in `aspect_ratio` never fire -/
theorem aspectRatioR_eq (t : Triangle α) : t.aspectRatioR = .ok t.aspectRatio := rfl

/-- `circumcenter` -/
def circumcenter (t : Triangle α) : V3 α :=
  let ab := t.b - t.a
  let ac := t.c - t.a
  let abCrossAc := ab.cross ac
  let acSqLength := ac.length * ac.length
  let abSqLength := ab.length * ab.length
  let abXacSqLength := abCrossAc.length * abCrossAc.length
  let aCenter := (((abCrossAc.cross ab).smul acSqLength) + ((ac.cross abCrossAc).smul abSqLength)).sdiv
      (2 * abXacSqLength)
  t.a + aCenter

/-- `centroid` -/
def centroid (t : Triangle α) : V3 α :=
  let dx := t.a.x + t.b.x + t.c.x
  let dy := t.a.y + t.b.y + t.c.y
  let dz := t.a.z + t.b.z + t.c.z
  ⟨dx / 3, dy / 3, dz / 3⟩

/-- `test_point` -/
def testPoint (t : Triangle α) (p : V3 α) : PointInTriangle :=
  let vertexA := t.a
  let vertexB := t.b
  let vertexC := t.c
  let e1 := vertexB - vertexA
  let e2 := vertexC - vertexA
  let pMinusA := p - vertexA
  let e2e2 := e2.dot e2
  let e1e2 := e2.dot e1
  let e1e1 := e1.dot e1
  let left1 := e1.dot pMinusA
  let left2 := e2.dot pMinusA
  let det := e1e1 * e2e2 - e1e2 * e1e2
  let alpha := (e2e2 * left1 - e1e2 * left2) / det
  let beta := (-e1e2 * left1 + e1e1 * left2) / det
  let w := (1 : α) - alpha - beta
  let tiny : α := tiny100
  if alpha >=. -tiny && beta >=. -tiny && w >=. -tiny then
    if alpha <=. tiny && beta <=. tiny then .vertexA
    else if alpha <=. tiny && w <=. tiny then .vertexC
    else if beta <=. tiny && w <=. tiny then .vertexB
    else if alpha <=. tiny then .edgeAC
    else if w <=. tiny then .edgeBC
    else if beta <=. tiny then .edgeAB
    else .inside
  else .outside

/-- `get_edge_index_from_segment` -/
def getEdgeIndexFromSegment (t : Triangle α) (s : Segment α) : Option Nat :=
  if s.compare t.ab then some 0
  else if s.compare t.bc then some 1
  else if s.compare t.ca then some 2
  else none

/-- `get_edge_index_from_points` -/
def getEdgeIndexFromPoints (t : Triangle α) (a b : V3 α) : Option Nat :=
  t.getEdgeIndexFromSegment (Segment.new a b)

/-- `has_vertex` -/
def hasVertex (t : Triangle α) (p : V3 α) : Bool :=
  t.a.compare p || t.b.compare p || t.c.compare p

/-- `Triangle3D::compare` -/
def compare (s t : Triangle α) : Bool :=
  if !(t.hasVertex s.a) then false
  else if !(t.hasVertex s.b) then false
  else if !(t.hasVertex s.c) then false
  else true

/-- `bounds` -/
def bounds (t : Triangle α) : BBox α :=
  let bbox := BBox.fromPoint t.a
  let bbox := bbox.fromUnionPoint t.b
  bbox.fromUnionPoint t.c

/-- `basic_intersection` -/
def basicIntersection (t : Triangle α) (ray : Ray α) : Option (V3 α × α × α) :=
  intersectTriangle ray t.a t.b t.c

end Triangle
end G3d
