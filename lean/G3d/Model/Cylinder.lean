import G3d.Model.Outcome
import G3d.Model.Approx
import G3d.Model.Intersection
import G3d.Model.Sphere
/-! Model of `cylinder3d.rs` (release build: the `debug_assert!`s are absent). -/
namespace G3d
open Num

/-- `Cylinder3D` -/
structure Cylinder (α : Type) where
  radius : α
  zmin : α
  zmax : α
  /-- in radians -/
  phiMax : α
  transform : Option (Transform α)
deriving Repr, Inhabited

variable {α : Type} [Num α]

namespace Cylinder

/-- `Cylinder3D::new_transformed` -/
def newTransformed (radius zmin zmax phiMax : α) (transform : Option (Transform α)) : Res (Cylinder α) :=
  if zmin >. zmax then .panic "cylinder3d.rs:zmin > zmax" else
  if !(phiMaxInRange phiMax) then .panic "cylinder3d.rs:phi_max out of range" else
  let phiMax := toRadians (clamp phiMax (0 : α) (360 : α))
  .ok { radius := radius, zmin := zmin, zmax := zmax, phiMax := phiMax, transform := transform }

/-- the transform built by `Cylinder3D::new_partial`: `translate(p0) *= rotate_z(..) *= rotate_y(..)` -/
def axisTransform (p0 p1 : V3 α) : Transform α :=
  let l := p1 - p0
  let x := l.x
  let y := l.y
  let z := l.z
  let transform := Transform.translate p0.x p0.y p0.z
  let rotYDegrees := toDegrees (Num.atan2 (Num.sqrt (x * x + y * y)) z)
  let rotZDegrees := toDegrees (Num.atan2 y x)
  let transform := transform.mulAssign (Transform.rotateZ rotZDegrees)
  transform.mulAssign (Transform.rotateY rotYDegrees)

/-- `Cylinder3D::new_partial` -/
def newPartial (p0 p1 : V3 α) (radius phiMax : α) : Res (Cylinder α) :=
  let l := p1 - p0
  newTransformed radius (0 : α) l.length phiMax (some (axisTransform p0 p1))

/-- `Cylinder3D::new` -/
def new (p0 p1 : V3 α) (radius : α) : Res (Cylinder α) := newPartial p0 p1 radius (360 : α)

/-- the quadratic `a t² + b t + c` set up by `basic_intersection` -/
def quadCoeffs (s : Cylinder α) (ray : Ray α) (oError dError : V3 α) : Approx α × Approx α × Approx α :=
  let dx := Approx.fromValueAndError ray.direction.x dError.x
  let dy := Approx.fromValueAndError ray.direction.y dError.y
  let ox := Approx.fromValueAndError ray.origin.x oError.x
  let oy := Approx.fromValueAndError ray.origin.y oError.y
  let a := (dx.mul dx).add (dy.mul dy)
  let b := ((dx.mul ox).add (dy.mul oy)).mulF (2 : α)
  let c := ((ox.mul ox).add (oy.mul oy)).subF (s.radius * s.radius)
  (a, b, c)

/-- the closure `calc_phit_and_phi` (captures `ray` and `self`) -/
def calcPhitAndPhi (s : Cylinder α) (ray : Ray α) (thit : Approx α) : V3 α × α :=
  let phit := ray.project thit.midpoint
  let hitRad := Num.sqrt (phit.x * phit.x + phit.y * phit.y)
  let phit : V3 α := { phit with x := phit.x * (s.radius / hitRad) }
  let phit : V3 α := { phit with y := phit.y * (s.radius / hitRad) }
  let phi := Num.atan2 phit.y phit.x
  let phi := if phi <. (0 : α) then phi + (2 : α) * Num.pi else phi
  (phit, phi)

/-- the clipping test applied to a candidate hit -/
def clipped (s : Cylinder α) (phit : V3 α) (phi : α) : Bool :=
  phit.z <. s.zmin || phit.z >. s.zmax || phi >. s.phiMax

/-- `Cylinder3D::basic_intersection` -/
def basicIntersection (s : Cylinder α) (ray : Ray α) (oError dError : V3 α) : Option (V3 α × α) :=
  let q := s.quadCoeffs ray oError dError
  match Approx.solveQuadratic q.1 q.2.1 q.2.2 with
  | none => none
  | some (t0, t1) =>
    if t1.low <=. (0 : α) then none else
    let hitIsT1 := !(t0.low >. (0 : α))
    let thit := if t0.low >. (0 : α) then t0 else t1
    let r := s.calcPhitAndPhi ray thit
    if s.clipped r.1 r.2 then
      if hitIsT1 then none else
      let r2 := s.calcPhitAndPhi ray t1
      if s.clipped r2.1 r2.2 then none else some r2
    else some r

/-- `Cylinder3D::intersection_info` (always `Some`) -/
def intersectionInfo (s : Cylinder α) (ray : Ray α) (phit : V3 α) (phi : α) : Option (Info α) :=
  let u := phi / s.phiMax
  let v := (phit.z - s.zmin) / (s.zmax - s.zmin)
  let dpdu : V3 α := ⟨-s.phiMax * phit.y, s.phiMax * phit.x, 0⟩
  let dpdv : V3 α := ⟨0, 0, s.zmax - s.zmin⟩
  let d2Pduu : V3 α := (V3.mk phit.x phit.y 0).smul (-s.phiMax * s.phiMax)
  let d2Pdvv : V3 α := ⟨0, 0, 0⟩
  let d2Pduv : V3 α := ⟨0, 0, 0⟩
  some (Info.new ray phit u v dpdu dpdv d2Pduu d2Pdvv d2Pduv)

/-- `Cylinder3D::bounds` -/
def bounds (s : Cylinder α) : BBox α :=
  BBox.new ⟨-s.radius, -s.radius, s.zmin⟩ ⟨s.radius, s.radius, s.zmax⟩

/-- `Cylinder3D::area` -/
def area (s : Cylinder α) : α := (s.zmax - s.zmin) * s.radius * s.phiMax

/-- `Cylinder3D::simple_intersect_local_ray` -/
def simpleIntersectLocalRay (s : Cylinder α) (ray : Ray α) (oError dError : V3 α) : Option (V3 α) :=
  match s.basicIntersection ray oError dError with
  | none => none
  | some (phit, _) => some phit

/-- `Cylinder3D::intersect_local_ray` -/
def intersectLocalRay (s : Cylinder α) (ray : Ray α) (oError dError : V3 α) : Option (Info α) :=
  match s.basicIntersection ray oError dError with
  | none => none
  | some (phit, phi) => s.intersectionInfo ray phit phi

/-- `Cylinder3D::intersect` -/
def intersect (s : Cylinder α) (ray : Ray α) : Option (Info α) :=
  worldIntersect s.transform s.intersectLocalRay ray

/-- `Cylinder3D::simple_intersect` -/
def simpleIntersect (s : Cylinder α) (ray : Ray α) : Option (V3 α) :=
  worldSimpleIntersect s.transform s.simpleIntersectLocalRay ray

/-- `Cylinder3D::world_bounds` -/
def worldBounds (s : Cylinder α) : BBox α := worldBoundsOf s.transform s.bounds

end Cylinder
end G3d
