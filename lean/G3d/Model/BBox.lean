import G3d.Model.Vec
/-! Model of `bbox3d.rs`. -/
namespace G3d
open Num

structure BBox (α : Type) where
  min : V3 α
  max : V3 α
deriving Repr, Inhabited

variable {α : Type} [Num α]

/-- `get_mins_maxs`: per-coordinate `if a > b {swap}` -/
@[inline] def swapGt (a b : α) : α × α := if a >. b then (b, a) else (a, b)

namespace BBox

def new (a b : V3 α) : BBox α :=
  let x := swapGt a.x b.x; let y := swapGt a.y b.y; let z := swapGt a.z b.z
  ⟨⟨x.1, y.1, z.1⟩, ⟨x.2, y.2, z.2⟩⟩

def fromPoint (p : V3 α) : BBox α := ⟨p, p⟩

def fromUnionPoint (b : BBox α) (pt : V3 α) : BBox α :=
  ⟨⟨(swapGt b.min.x pt.x).1, (swapGt b.min.y pt.y).1, (swapGt b.min.z pt.z).1⟩,
   ⟨(swapGt b.max.x pt.x).2, (swapGt b.max.y pt.y).2, (swapGt b.max.z pt.z).2⟩⟩

def fromUnion (b1 b2 : BBox α) : BBox α :=
  ⟨⟨(swapGt b1.min.x b2.min.x).1, (swapGt b1.min.y b2.min.y).1, (swapGt b1.min.z b2.min.z).1⟩,
   ⟨(swapGt b1.max.x b2.max.x).2, (swapGt b1.max.y b2.max.y).2, (swapGt b1.max.z b2.max.z).2⟩⟩

def fromIntersection (b1 b2 : BBox α) : BBox α :=
  ⟨⟨(swapGt b1.min.x b2.min.x).2, (swapGt b1.min.y b2.min.y).2, (swapGt b1.min.z b2.min.z).2⟩,
   ⟨(swapGt b1.max.x b2.max.x).1, (swapGt b1.max.y b2.max.y).1, (swapGt b1.max.z b2.max.z).1⟩⟩

def overlaps (s o : BBox α) : Bool :=
  let x := (s.max.x >=. o.min.x) && (s.min.x <=. o.max.x)
  let y := (s.max.y >=. o.min.y) && (s.min.y <=. o.max.y)
  let z := (s.max.z >=. o.min.z) && (s.min.z <=. o.max.z)
  x && y && z

def pointInside (s : BBox α) (pt : V3 α) : Bool :=
  pt.x >=. s.min.x && pt.x <=. s.max.x && pt.y >=. s.min.y && pt.y <=. s.max.y
    && pt.z >=. s.min.z && pt.z <=. s.max.z

def pointInsideExclusive (s : BBox α) (pt : V3 α) : Bool :=
  pt.x >=. s.min.x && pt.x <. s.max.x && pt.y >=. s.min.y && pt.y <. s.max.y
    && pt.z >=. s.min.z && pt.z <. s.max.z

/-- `max_extent`: 0 = X, 1 = Y, 2 = Z -/
def maxExtent (s : BBox α) : Nat :=
  let d := s.max - s.min
  if d.x >. d.y && d.x >. d.z then 0 else if d.y >. d.z then 1 else 2

def surfaceArea (s : BBox α) : α :=
  let d := s.max - s.min
  2 * (d.x * d.y + d.x * d.z + d.y * d.z)

/-- one slab of `BBox3D::intersect`: the two plane parameters; a NaN (`0 * ∞`: origin on a plane of a slab the ray is
    parallel to) makes the slab unbounded; then ordered by `if a > b {swap}` -/
def slabAxis (mn mx o inv : α) : α × α :=
  let a := (mn - o) * inv
  let b := (mx - o) * inv
  if isNaN a || isNaN b then swapGt (-(Num.inf : α)) Num.inf else swapGt a b

/-- the comparison cascade of `BBox3D::intersect` on the three ordered slab intervals (`g = 1 + 2·γ(3)`).
    (The Rust code interleaves the slab computations with the early exits; the slabs are pure, so the result is the same.) -/
def slabCascade (g : α) (tx ty tz : α × α) : Bool :=
  if tx.2 <. (0 : α) then false else
  if ty.2 <. (0 : α) then false else
  let txMax := tx.2 * g
  let tyMax := ty.2 * g
  if tx.1 >. tyMax || ty.1 >. txMax then false else
  let txMin := if ty.1 >. tx.1 then ty.1 else tx.1
  let txMax := if tyMax <. txMax then tyMax else txMax
  if tz.2 <. (0 : α) then false else
  let tzMax := tz.2 * g
  if txMin >. tzMax || tz.1 >. txMax then false else
  let txMin := if tz.1 >. txMin then tz.1 else txMin
  let txMax := if tzMax <. txMax then tzMax else txMax
  txMax >. txMin && txMax >. (0 : α)

/-- `BBox3D::intersect(ray, inv_dir)` -/
def intersect (s : BBox α) (ray : Ray α) (inv : V3 α) : Bool :=
  slabCascade (1 + 2 * gamma (3 : α))
    (slabAxis s.min.x s.max.x ray.origin.x inv.x)
    (slabAxis s.min.y s.max.y ray.origin.y inv.y)
    (slabAxis s.min.z s.max.z ray.origin.z inv.z)

end BBox
end G3d
