import G3d.Model.BBox
/-! Model of `transform.rs`.  (This file is generated once by hand-run script text below and then
    maintained by hand; field `aRC` is `elements[4*R + C]`.) -/
namespace G3d
open Num

structure M4 (α : Type) where
  a00 : α
  a01 : α
  a02 : α
  a03 : α
  a10 : α
  a11 : α
  a12 : α
  a13 : α
  a20 : α
  a21 : α
  a22 : α
  a23 : α
  a30 : α
  a31 : α
  a32 : α
  a33 : α
deriving Repr, Inhabited

variable {α : Type} [Num α]

namespace M4

def identity : M4 α :=
  ⟨1, 0, 0, 0, 0, 1, 0, 0, 0, 0, 1, 0, 0, 0, 0, 1⟩

/-- `mul4x4` -/
def mul (m1 m2 : M4 α) : M4 α :=
  ⟨m1.a00 * m2.a00 + m1.a01 * m2.a10 + m1.a02 * m2.a20 + m1.a03 * m2.a30,
   m1.a00 * m2.a01 + m1.a01 * m2.a11 + m1.a02 * m2.a21 + m1.a03 * m2.a31,
   m1.a00 * m2.a02 + m1.a01 * m2.a12 + m1.a02 * m2.a22 + m1.a03 * m2.a32,
   m1.a00 * m2.a03 + m1.a01 * m2.a13 + m1.a02 * m2.a23 + m1.a03 * m2.a33,
   m1.a10 * m2.a00 + m1.a11 * m2.a10 + m1.a12 * m2.a20 + m1.a13 * m2.a30,
   m1.a10 * m2.a01 + m1.a11 * m2.a11 + m1.a12 * m2.a21 + m1.a13 * m2.a31,
   m1.a10 * m2.a02 + m1.a11 * m2.a12 + m1.a12 * m2.a22 + m1.a13 * m2.a32,
   m1.a10 * m2.a03 + m1.a11 * m2.a13 + m1.a12 * m2.a23 + m1.a13 * m2.a33,
   m1.a20 * m2.a00 + m1.a21 * m2.a10 + m1.a22 * m2.a20 + m1.a23 * m2.a30,
   m1.a20 * m2.a01 + m1.a21 * m2.a11 + m1.a22 * m2.a21 + m1.a23 * m2.a31,
   m1.a20 * m2.a02 + m1.a21 * m2.a12 + m1.a22 * m2.a22 + m1.a23 * m2.a32,
   m1.a20 * m2.a03 + m1.a21 * m2.a13 + m1.a22 * m2.a23 + m1.a23 * m2.a33,
   m1.a30 * m2.a00 + m1.a31 * m2.a10 + m1.a32 * m2.a20 + m1.a33 * m2.a30,
   m1.a30 * m2.a01 + m1.a31 * m2.a11 + m1.a32 * m2.a21 + m1.a33 * m2.a31,
   m1.a30 * m2.a02 + m1.a31 * m2.a12 + m1.a32 * m2.a22 + m1.a33 * m2.a32,
   m1.a30 * m2.a03 + m1.a31 * m2.a13 + m1.a32 * m2.a23 + m1.a33 * m2.a33⟩

/-- `mul4x4point` -/
def mulPoint (m : M4 α) (p : V3 α) : V3 α :=
  let nx := m.a00 * p.x + m.a01 * p.y + m.a02 * p.z + m.a03
  let ny := m.a10 * p.x + m.a11 * p.y + m.a12 * p.z + m.a13
  let nz := m.a20 * p.x + m.a21 * p.y + m.a22 * p.z + m.a23
  let w := m.a30 * p.x + m.a31 * p.y + m.a32 * p.z + m.a33
  (V3.mk nx ny nz).sdiv w

/-- `mul4x4vec` -/
def mulVec (m : M4 α) (v : V3 α) : V3 α :=
  ⟨m.a00 * v.x + m.a01 * v.y + m.a02 * v.z,
   m.a10 * v.x + m.a11 * v.y + m.a12 * v.z,
   m.a20 * v.x + m.a21 * v.y + m.a22 * v.z⟩

/-- `mul4x4_abs` -/
def mulAbs (m : M4 α) (x y z : α) : V3 α :=
  ⟨Num.abs (m.a00 * x) + Num.abs (m.a01 * y) + Num.abs (m.a02 * z) + Num.abs m.a03,
   Num.abs (m.a10 * x) + Num.abs (m.a11 * y) + Num.abs (m.a12 * z) + Num.abs m.a13,
   Num.abs (m.a20 * x) + Num.abs (m.a21 * y) + Num.abs (m.a22 * z) + Num.abs m.a23⟩

/-- `mul3x3_abs` -/
def mulAbs3 (m : M4 α) (x y z : α) : V3 α :=
  ⟨Num.abs (m.a00 * x) + Num.abs (m.a01 * y) + Num.abs (m.a02 * z),
   Num.abs (m.a10 * x) + Num.abs (m.a11 * y) + Num.abs (m.a12 * z),
   Num.abs (m.a20 * x) + Num.abs (m.a21 * y) + Num.abs (m.a22 * z)⟩

/-- transposed 3x3 product used by `transform_normal` -/
def mulNormalT (m : M4 α) (v : V3 α) : V3 α :=
  ⟨m.a00 * v.x + m.a10 * v.y + m.a20 * v.z,
   m.a01 * v.x + m.a11 * v.y + m.a21 * v.z,
   m.a02 * v.x + m.a12 * v.y + m.a22 * v.z⟩

end M4

structure Transform (α : Type) where
  m : M4 α
  inv : M4 α
deriving Repr, Inhabited

namespace Transform

def new : Transform α := ⟨M4.identity, M4.identity⟩

def translate (x y z : α) : Transform α :=
  ⟨{ (M4.identity : M4 α) with a03 := x, a13 := y, a23 := z },
   { (M4.identity : M4 α) with a03 := -x, a13 := -y, a23 := -z }⟩

def scale (x y z : α) : Transform α :=
  ⟨⟨x, 0, 0, 0,  0, y, 0, 0,  0, 0, z, 0,  0, 0, 0, 1⟩,
   ⟨1 / x, 0, 0, 0,  0, 1 / y, 0, 0,  0, 0, 1 / z, 0,  0, 0, 0, 1⟩⟩

/-- rotation about x from the libm values `c = cos rad`, `s = sin rad` -/
def rotXcs (c s : α) : Transform α :=
  ⟨{ (M4.identity : M4 α) with a11 := c, a12 := -s, a21 := s, a22 := c },
   { (M4.identity : M4 α) with a11 := c, a21 := -s, a12 := s, a22 := c }⟩
def rotYcs (c s : α) : Transform α :=
  ⟨{ (M4.identity : M4 α) with a00 := c, a02 := s, a20 := -s, a22 := c },
   { (M4.identity : M4 α) with a00 := c, a20 := s, a02 := -s, a22 := c }⟩
def rotZcs (c s : α) : Transform α :=
  ⟨{ (M4.identity : M4 α) with a00 := c, a01 := -s, a10 := s, a11 := c },
   { (M4.identity : M4 α) with a00 := c, a10 := -s, a01 := s, a11 := c }⟩

def rotateX (deg : α) : Transform α := let r := toRadians deg; rotXcs (Num.cos r) (Num.sin r)
def rotateY (deg : α) : Transform α := let r := toRadians deg; rotYcs (Num.cos r) (Num.sin r)
def rotateZ (deg : α) : Transform α := let r := toRadians deg; rotZcs (Num.cos r) (Num.sin r)

/-- `MulAssign`: `self *= other` -/
def mulAssign (s o : Transform α) : Transform α := ⟨M4.mul s.m o.m, M4.mul o.inv s.inv⟩

def determinant3 (m : M4 α) : α :=
  m.a00 * (m.a11 * m.a22 - m.a12 * m.a21) - m.a01 * (m.a10 * m.a22 - m.a12 * m.a20)
    + m.a02 * (m.a10 * m.a21 - m.a11 * m.a20)

def changesHands (t : Transform α) : Bool := determinant3 t.m <. (0 : α)

def transformPt (t : Transform α) (p : V3 α) : V3 α := t.m.mulPoint p
def invTransformPt (t : Transform α) (p : V3 α) : V3 α := t.inv.mulPoint p
def transformVec (t : Transform α) (v : V3 α) : V3 α := t.m.mulVec v
def invTransformVec (t : Transform α) (v : V3 α) : V3 α := t.inv.mulVec v
def transformNormal (t : Transform α) (v : V3 α) : V3 α := t.inv.mulNormalT v
def invTransformNormal (t : Transform α) (v : V3 α) : V3 α := t.m.mulNormalT v

/-- the shared body of `(inv_)transform_pt_with_error` -/
def ptWithError (m : M4 α) (p : V3 α) : V3 α × V3 α :=
  (m.mulPoint p, (m.mulAbs p.x p.y p.z).smul (gamma (4 : α)))
def ptPropagateError (m : M4 α) (p e : V3 α) : V3 α × V3 α :=
  let r := ptWithError m p
  let err1 := (m.mulAbs3 e.x e.y e.z).smul (1 + gamma (3 : α))
  (r.1, err1 + r.2)
def vecWithError (m : M4 α) (v : V3 α) : V3 α × V3 α :=
  (m.mulVec v, (m.mulAbs3 v.x v.y v.z).smul (gamma (3 : α)))
def vecPropagateError (m : M4 α) (v e : V3 α) : V3 α × V3 α :=
  let r := vecWithError m v
  let err1 := (m.mulAbs3 e.x e.y e.z).smul (1 + gamma (3 : α))
  (r.1, err1 + r.2)

/-- the shared tail of the four `*_ray*` functions -/
def advanceOrigin (origin oErr direction : V3 α) : V3 α :=
  let l2 := direction.lengthSquared
  if l2 >. (0 : α) then
    let dt := (direction.abs.dot oErr) / l2
    origin + direction.smul dt
  else origin

def rayWith (m : M4 α) (r : Ray α) : Ray α × V3 α × V3 α :=
  let o := ptWithError m r.origin
  let d := vecWithError m r.direction
  (⟨advanceOrigin o.1 o.2 d.1, d.1⟩, o.2, d.2)
def rayPropagate (m : M4 α) (r : Ray α) (oe de : V3 α) : Ray α × V3 α × V3 α :=
  let o := ptPropagateError m r.origin oe
  let d := vecPropagateError m r.direction de
  (⟨advanceOrigin o.1 o.2 d.1, d.1⟩, o.2, d.2)

def transformRay (t : Transform α) (r : Ray α) := rayWith t.m r
def invTransformRay (t : Transform α) (r : Ray α) := rayWith t.inv r

/-- the shared body of `(inv_)transform_bbox`: union of the images of the 8 corners, in the code's order -/
def bboxWith (m : M4 α) (b : BBox α) : BBox α :=
  let f := fun (x y z : α) => m.mulPoint ⟨x, y, z⟩
  let r := BBox.fromPoint (f b.min.x b.min.y b.min.z)
  let r := r.fromUnionPoint (f b.max.x b.min.y b.min.z)
  let r := r.fromUnionPoint (f b.min.x b.max.y b.min.z)
  let r := r.fromUnionPoint (f b.min.x b.min.y b.max.z)
  let r := r.fromUnionPoint (f b.min.x b.max.y b.max.z)
  let r := r.fromUnionPoint (f b.max.x b.max.y b.min.z)
  let r := r.fromUnionPoint (f b.max.x b.min.y b.max.z)
  r.fromUnionPoint (f b.max.x b.max.y b.max.z)

def transformBBox (t : Transform α) (b : BBox α) : BBox α := bboxWith t.m b
def invTransformBBox (t : Transform α) (b : BBox α) : BBox α := bboxWith t.inv b

end Transform
end G3d
