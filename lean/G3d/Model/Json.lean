import G3d.Model.Vec
import G3d.Model.Outcome
import G3d.Model.Loop
import G3d.Model.Polygon
/-! Model of the `Serialize` / `Deserialize` impls of `Loop3D` (loop3d.rs) and `Polygon3D` (polygon3d.rs),
    from the parsed `serde_json::Value` inwards (the JSON text parser itself is serde_json's, not the crate's).
    A `Value::Number` carries the `Float` the crate obtains from it (`as_f64() as Float`; `as_f64` never fails
    without serde_json's `arbitrary_precision`). -/
namespace G3d
open Num

/-- `serde_json::Value` -/
inductive Json (α : Type) where
  | null
  | bool (b : Bool)
  | num (x : α)
  | str (s : String)
  | arr (elems : List (Json α))
  | obj (fields : List (String × Json α))
deriving Inhabited

variable {α : Type} [Num α]

namespace Loop

/-- the `while let Some(x) = it.next()` loop of `Deserialize for Loop3D`: three numbers at a time, `push` -/
def deserializeItems : List (Json α) → Loop α → Res (Loop α)
  | [], ret => .ok ret
  | .num x :: .num y :: .num z :: rest, ret =>
    match ret.push ⟨x, y, z⟩ with
    | (ret', .ok ()) => deserializeItems rest ret'
    | (_, .err e) => .err e
    | (_, .panic p) => .panic p
  | _, _ => .err "loop3d.rs:deserialize:not-numbers"

/-- `Deserialize for Loop3D` (after `let data: Value = …`) -/
def deserialize (data : Json α) : Res (Loop α) :=
  match data with
  | .arr a =>
    match deserializeItems a Loop.new with
    | .err e => .err e
    | .panic p => .panic p
    | .ok ret =>
      match ret.close with
      | (ret', .ok ()) => .ok ret'
      | (_, .err e) => .err e
      | (_, .panic p) => .panic p
  | _ => .err "loop3d.rs:deserialize:not-an-array"

/-- `Serialize for Loop3D`: the emitted number sequence -/
def serialize (l : Loop α) : List α :=
  l.vertices.foldr (fun v acc => v.x :: v.y :: v.z :: acc) []

end Loop

namespace Polygon

/-- `Deserialize for Polygon3D`: `Loop3D` then `.into()` -/
def deserialize (data : Json α) : Res (Polygon α) := do
  let l ← Loop.deserialize data
  Polygon.ofLoop l

/-- `Serialize for Polygon3D`: `try_get_closed_loop()` (its `Err` becomes a serialisation error), then `serialize()` -/
def serialize (pg : Polygon α) : Res (List α) := do
  let l ← pg.tryGetClosedLoop
  .ok l.serialize

end Polygon
end G3d
