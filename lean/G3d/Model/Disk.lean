import G3d.Model.Outcome
import G3d.Model.Plane
import G3d.Model.Intersection
/-! Model of `disk3d.rs`. -/
namespace G3d
open Num

/-- `Disk3D` -/
structure Disk (α : Type) where
  centre : V3 α
  normal : V3 α
  radius : α
  innerRadius : α
  phiZero : V3 α
  /-- in radians -/
  phiMax : α
  transform : Option (Transform α)
deriving Repr, Inhabited

variable {α : Type} [Num α]

namespace Disk

/-- `Disk3D::new_detailed`; the four `panic!`s are explicit (release build: the `debug_assert!` is absent) -/
def newDetailed (centre normal : V3 α) (radius innerRadius : α) (phiZero : V3 α) (phiMax : α)
    (transform : Option (Transform α)) : Res (Disk α) :=
  let normal := normal.normalize
  if normal.isParallel phiZero then .panic "disk3d.rs:normal parallel to phi_zero" else
  let phiZero := (phiZero - normal.smul (normal.dot phiZero)).normalize
  if radius <=. innerRadius then .panic "disk3d.rs:radius <= inner_radius" else
  if radius <. (0 : α) then .panic "disk3d.rs:radius negative" else
  if innerRadius <. (0 : α) then .panic "disk3d.rs:inner_radius negative" else
  let phiMax := toRadians (clamp phiMax (0 : α) (360 : α))
  .ok { centre := centre, normal := normal, radius := radius, innerRadius := innerRadius,
        phiZero := phiZero, phiMax := phiMax, transform := transform }

/-- `Disk3D::new` (`normal.get_perpendicular().unwrap()` is evaluated before the call) -/
def new (centre normal : V3 α) (radius : α) : Res (Disk α) :=
  match normal.getPerpendicular with
  | none => .panic "disk3d.rs:new get_perpendicular unwrap"
  | some perp => newDetailed centre normal radius (0 : α) perp (360 : α) none

/-- `Disk3D::basic_intersection` -/
def basicIntersection (s : Disk α) (ray : Ray α) (_oError _dError : V3 α) : Option (V3 α × α) :=
  let diskPlane := Plane.new s.centre s.normal
  match diskPlane.intersect ray with
  | none => none
  | some t =>
    let phit := ray.project t
    let rSquared := (phit - s.centre).lengthSquared
    if rSquared >. s.radius * s.radius || rSquared <. s.innerRadius * s.innerRadius then none else
    let zxn := s.phiZero.cross s.normal
    let r := phit - s.centre
    let x := r.dot s.phiZero
    let y := (-r).dot zxn
    let phi := Num.atan2 y x
    let phi := if phi <. (0 : α) then phi + (2 : α) * Num.pi else phi
    if phi >. s.phiMax then none else some (phit, phi)

/-- `Disk3D::intersection_info` (always `Some`) -/
def intersectionInfo (s : Disk α) (ray : Ray α) (phit : V3 α) (_phi : α) : Option (Info α) :=
  let r := phit - s.centre
  let rhit := r.length
  let zxn := s.phiZero.cross s.normal
  let rhitSinPhi := (-r).dot zxn
  let rhitCosPhi := r.dot s.phiZero
  let dpdu := s.phiZero.smul (-rhitSinPhi) + zxn.smul (rhitCosPhi / rhit * (s.innerRadius - s.radius))
  let dpdv := s.phiZero.smul (-rhitCosPhi) + zxn.smul (rhitSinPhi / rhit * (s.radius - s.innerRadius))
  let ns := getSide s.normal ray.direction
  some { p := phit, dpdu := dpdu, dpdv := dpdv, normal := ns.1, side := ns.2 }

/-- `Disk3D::area` -/
def area (s : Disk α) : α :=
  s.phiMax * (0.5 : α) * (s.radius * s.radius - s.innerRadius * s.innerRadius)

/-- `Disk3D::simple_intersect_local_ray` -/
def simpleIntersectLocalRay (s : Disk α) (ray : Ray α) (oError dError : V3 α) : Option (V3 α) :=
  match s.basicIntersection ray oError dError with
  | none => none
  | some (phit, _) => some phit

/-- `Disk3D::intersect_local_ray` -/
def intersectLocalRay (s : Disk α) (ray : Ray α) (oError dError : V3 α) : Option (Info α) :=
  match s.basicIntersection ray oError dError with
  | none => none
  | some (phit, phi) => s.intersectionInfo ray phit phi

/-- `Disk3D::intersect` -/
def intersect (s : Disk α) (ray : Ray α) : Option (Info α) :=
  worldIntersect s.transform s.intersectLocalRay ray

/-- `Disk3D::simple_intersect` -/
def simpleIntersect (s : Disk α) (ray : Ray α) : Option (V3 α) :=
  worldSimpleIntersect s.transform s.simpleIntersectLocalRay ray

end Disk
end G3d
