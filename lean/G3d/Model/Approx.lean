import G3d.Num
/-! Model of `round_error.rs`: `ApproxFloat` and its 18 operator forms. -/
namespace G3d
open Num

structure Approx (α : Type) where
  low : α
  high : α
deriving Repr, Inhabited

variable {α : Type} [Num α]

/-- `max_min(&[Float;4]) -> (max, min)` -/
def maxMin4 (a0 a1 a2 a3 : α) : α × α :=
  let step := fun (mm : α × α) (v : α) =>
    let mx := if v >. mm.1 then v else mm.1
    let mn := if v <. mm.2 then v else mm.2
    (mx, mn)
  step (step (step (a0, a0) a1) a2) a3

namespace Approx

def fromValueAndError (value absError : α) : Approx α := ⟨value - absError, value + absError⟩
/-- `From<Float>` -/
def ofFloat (v : α) : Approx α := fromValueAndError v 0
def fromBounds (low high : α) : Approx α := ⟨low, high⟩
def midpoint (a : Approx α) : α := (a.low + a.high) / 2
def absoluteError (a : Approx α) : α := (a.high - a.low) / 2

def sqrt (a : Approx α) : Approx α := ⟨nextDown (Num.sqrt a.low), nextUp (Num.sqrt a.high)⟩

def neg (a : Approx α) : Approx α := ⟨-a.high, -a.low⟩

def add (a b : Approx α) : Approx α := ⟨nextDown (a.low + b.low), nextUp (a.high + b.high)⟩
def addF (a : Approx α) (b : α) : Approx α := add a (ofFloat b)

def sub (a b : Approx α) : Approx α := ⟨nextDown (a.low - b.high), nextUp (a.high - b.low)⟩
def subF (a : Approx α) (b : α) : Approx α := sub a (ofFloat b)

def mul (a b : Approx α) : Approx α :=
  let mn := (maxMin4 (nextDown (a.low * b.low)) (nextDown (a.high * b.low))
                     (nextDown (a.low * b.high)) (nextDown (a.high * b.high))).2
  let mx := (maxMin4 (nextUp (a.low * b.low)) (nextUp (a.high * b.low))
                     (nextUp (a.low * b.high)) (nextUp (a.high * b.high))).1
  ⟨nextDown mn, nextUp mx⟩

/-- `Mul<Float>` (its own body) -/
def mulF (a : Approx α) (o : α) : Approx α :=
  let mn := a.low * o
  let mx := a.high * o
  let (mn, mx) := if mn >. mx then (mx, mn) else (mn, mx)
  ⟨nextDown (nextDown mn), nextUp (nextUp mx)⟩

def div (a b : Approx α) : Approx α :=
  let mn := (maxMin4 (nextDown (a.low / b.low)) (nextDown (a.high / b.low))
                     (nextDown (a.low / b.high)) (nextDown (a.high / b.high))).2
  let mx := (maxMin4 (nextUp (a.low / b.low)) (nextUp (a.high / b.low))
                     (nextUp (a.low / b.high)) (nextUp (a.high / b.high))).1
  ⟨nextDown mn, nextUp mx⟩
def divF (a : Approx α) (b : α) : Approx α := div a (ofFloat b)

/-- `AddAssign` -/
def addAssign (a b : Approx α) : Approx α := ⟨nextDown (a.low + b.low), nextUp (a.high + b.high)⟩
def addAssignF (a : Approx α) (b : α) : Approx α := addAssign a (ofFloat b)
/-- `SubAssign` -/
def subAssign (a b : Approx α) : Approx α := ⟨nextDown (a.low - b.high), nextUp (a.high - b.low)⟩
def subAssignF (a : Approx α) (b : α) : Approx α := subAssign a (ofFloat b)
/-- `MulAssign` (its own body: one outward step) -/
def mulAssign (a b : Approx α) : Approx α :=
  let mm := maxMin4 (a.low * b.low) (a.high * b.low) (a.low * b.high) (a.high * b.high)
  ⟨nextDown mm.2, nextUp mm.1⟩
def mulAssignF (a : Approx α) (b : α) : Approx α := mulAssign a (ofFloat b)
/-- `DivAssign` (its own body) -/
def divAssign (a b : Approx α) : Approx α :=
  let mm := maxMin4 (a.low / b.low) (a.high / b.low) (a.low / b.high) (a.high / b.high)
  ⟨nextDown mm.2, nextUp mm.1⟩
def divAssignF (a : Approx α) (b : α) : Approx α := divAssign a (ofFloat b)

/-- `ApproxFloat::solve_quadratic` -/
def solveQuadratic (a b c : Approx α) : Option (Approx α × Approx α) :=
  let disc := sub (mul b b) (mulF (mul a c) 4)
  if disc.low <. (0 : α) then none else
  let ds := disc.sqrt
  let q : Approx α :=
    if b.midpoint <. (0 : α) then mulF (neg (sub b ds)) 0.5 else mulF (neg (add b ds)) 0.5
  let x1 := div q a
  let x2 := div c q
  if x1.low >. x2.low then some (x2, x1) else some (x1, x2)

end Approx
end G3d
