import G3d.Model.Outcome
import G3d.Model.Approx
import G3d.Model.Intersection
/-! Model of `sphere3d.rs` (release build: no `debug_assertions`). -/
namespace G3d
open Num

/-- `Sphere3D` -/
structure Sphere (α : Type) where
  radius : α
  zmin : α
  zmax : α
  /-- in radians -/
  phiMax : α
  deltaTheta : α
  thetaMin : α
  transform : Option (Transform α)
deriving Repr, Inhabited

variable {α : Type} [Num α]

/-- the test `(-Float::EPSILON..=360. + Float::EPSILON).contains(&phi_max)` shared by sphere and cylinder -/
def phiMaxInRange (phiMax : α) : Bool :=
  (-(Num.eps : α)) <=. phiMax && phiMax <=. ((360 : α) + Num.eps)

namespace Sphere

/-- `Sphere3D::new_partial_transformed`.  `f64::clamp(min, max)` asserts `min <= max` (also in release builds),
    which is a further panic site when `radius` is negative or NaN. -/
def newPartialTransformed (radius zmin zmax phiMax : α) (transform : Option (Transform α)) : Res (Sphere α) :=
  if zmin >. zmax then .panic "sphere3d.rs:zmin > zmax" else
  if !((-radius) <=. radius) then .panic "sphere3d.rs:clamp(-radius, radius) min > max" else
  let zmin := clamp zmin (-radius) radius
  let zmax := clamp zmax (-radius) radius
  let thetaMin := Num.acos (clamp (zmin / radius) (-1 : α) (1 : α))
  let thetaMax := Num.acos (clamp (zmax / radius) (-1 : α) (1 : α))
  let (thetaMin, thetaMax) := if thetaMin >. thetaMax then (thetaMax, thetaMin) else (thetaMin, thetaMax)
  if !(phiMaxInRange phiMax) then .panic "sphere3d.rs:phi_max out of range" else
  let phiMax := toRadians (clamp phiMax (0 : α) (360 : α))
  .ok { radius := radius, zmin := zmin, zmax := zmax, phiMax := phiMax, thetaMin := thetaMin,
        deltaTheta := thetaMax - thetaMin, transform := transform }

/-- `Sphere3D::new_partial` -/
def newPartial (radius : α) (centre : V3 α) (zmin zmax phiMax : α) : Res (Sphere α) :=
  let transform : Option (Transform α) :=
    if !centre.isZero then some (Transform.translate centre.x centre.y centre.z) else none
  newPartialTransformed radius zmin zmax phiMax transform

/-- `Sphere3D::new` -/
def new (radius : α) (centre : V3 α) : Res (Sphere α) :=
  newPartial radius centre ((-2 : α) * radius) ((2 : α) * radius) (360 : α)

/-- `Sphere3D::new_transformed` -/
def newTransformed (radius : α) (transform : Option (Transform α)) : Res (Sphere α) :=
  newPartialTransformed radius ((-2 : α) * radius) ((2 : α) * radius) (360 : α) transform

/-- `Sphere3D::centre` -/
def centre (s : Sphere α) : V3 α :=
  let o : V3 α := ⟨0, 0, 0⟩
  match s.transform with
  | none => o
  | some t => t.transformPt o

/-- the quadratic `a t² + b t + c` set up by `approx_basic_intersection` -/
def quadCoeffs (s : Sphere α) (ray : Ray α) (oError dError : V3 α) : Approx α × Approx α × Approx α :=
  let dx := Approx.fromValueAndError ray.direction.x dError.x
  let dy := Approx.fromValueAndError ray.direction.y dError.y
  let dz := Approx.fromValueAndError ray.direction.z dError.z
  let ox := Approx.fromValueAndError ray.origin.x oError.x
  let oy := Approx.fromValueAndError ray.origin.y oError.y
  let oz := Approx.fromValueAndError ray.origin.z oError.z
  let a := ((dx.mul dx).add (dy.mul dy)).add (dz.mul dz)
  let b := (((ox.mul dx).add (oy.mul dy)).add (oz.mul dz)).mulF (2 : α)
  let c := (((ox.mul ox).add (oy.mul oy)).add (oz.mul oz)).subF (s.radius * s.radius)
  (a, b, c)

/-- the closure `calc_phit_and_phi` (captures `ray` and `self`) -/
def calcPhitAndPhi (s : Sphere α) (ray : Ray α) (thit : Approx α) : V3 α × α :=
  let phit := ray.project thit.midpoint
  let aux := phit
  let k := s.radius / aux.length
  let phit : V3 α := ⟨phit.x * k, phit.y * k, phit.z * k⟩
  let limit := (1e-5 : α) * s.radius
  let phit : V3 α :=
    if Num.abs phit.x <. limit && Num.abs phit.y <. limit then { phit with x := limit } else phit
  let phi := Num.atan2 phit.y phit.x
  let phi := if phi <. (0 : α) then phi + (2 : α) * Num.pi else phi
  (phit, phi)

/-- the clipping test applied to a candidate hit -/
def clipped (s : Sphere α) (phit : V3 α) (phi : α) : Bool :=
  (s.zmin >. -s.radius && phit.z <. s.zmin) || (s.zmax <. s.radius && phit.z >. s.zmax) || phi >. s.phiMax

/-- `Sphere3D::approx_basic_intersection` -/
def approxBasicIntersection (s : Sphere α) (ray : Ray α) (oError dError : V3 α) : Option (V3 α × α) :=
  let q := s.quadCoeffs ray oError dError
  match Approx.solveQuadratic q.1 q.2.1 q.2.2 with
  | none => none
  | some (t0, t1) =>
    if t1.low <=. (0 : α) then none else
    let hitIsT1 := !(t0.low >. (0 : α))
    let thit := if t0.low >. (0 : α) then t0 else t1
    let r := s.calcPhitAndPhi ray thit
    if s.clipped r.1 r.2 then
      if hitIsT1 then none else
      let r2 := s.calcPhitAndPhi ray t1
      if s.clipped r2.1 r2.2 then none else some r2
    else some r

/-- `Sphere3D::intersection_info` (always `Some`) -/
def intersectionInfo (s : Sphere α) (ray : Ray α) (phit : V3 α) (phi : α) : Option (Info α) :=
  let hitX := phit.x
  let hitY := phit.y
  let hitZ := phit.z
  let zrad := Num.sqrt (phit.x * phit.x + phit.y * phit.y)
  let invZrad := (1 : α) / zrad
  let cosTheta := clamp (hitZ / s.radius) (-1 : α) (1 : α)
  let theta := Num.acos cosTheta
  let sinTheta := Num.sin theta
  let cosPhi := hitX * invZrad
  let sinPhi := hitY * invZrad
  let u := phi / s.phiMax
  let v := (theta - s.thetaMin) / s.deltaTheta
  let dpdu : V3 α := ⟨-s.phiMax * hitY, s.phiMax * hitX, 0⟩
  let dpdv : V3 α := (V3.mk (hitZ * cosPhi) (hitZ * sinPhi) (-s.radius * sinTheta)).smul s.deltaTheta
  let d2Pduu : V3 α := (V3.mk hitX hitY 0).smul (-s.phiMax * s.phiMax)
  let d2Pduv : V3 α := (V3.mk (-sinPhi) cosPhi 0).smul (s.deltaTheta * hitZ * s.phiMax)
  let d2Pdvv : V3 α := (V3.mk hitX hitY hitZ).smul (-s.deltaTheta * s.deltaTheta)
  some (Info.new ray phit u v dpdu dpdv d2Pduu d2Pdvv d2Pduv)

/-- `Sphere3D::bounds` -/
def bounds (s : Sphere α) : BBox α :=
  BBox.new ⟨-s.radius, -s.radius, s.zmin⟩ ⟨s.radius, s.radius, s.zmax⟩

/-- `Sphere3D::area` -/
def area (s : Sphere α) : α := s.phiMax * s.radius * (s.zmax - s.zmin)

/-- `Sphere3D::intersect_local_ray` -/
def intersectLocalRay (s : Sphere α) (ray : Ray α) (oError dError : V3 α) : Option (Info α) :=
  match s.approxBasicIntersection ray oError dError with
  | none => none
  | some (phit, phi) => s.intersectionInfo ray phit phi

/-- `Sphere3D::simple_intersect_local_ray` -/
def simpleIntersectLocalRay (s : Sphere α) (ray : Ray α) (oError dError : V3 α) : Option (V3 α) :=
  match s.approxBasicIntersection ray oError dError with
  | none => none
  | some (phit, _) => some phit

/-- `Sphere3D::intersect` -/
def intersect (s : Sphere α) (ray : Ray α) : Option (Info α) :=
  worldIntersect s.transform s.intersectLocalRay ray

/-- `Sphere3D::simple_intersect` -/
def simpleIntersect (s : Sphere α) (ray : Ray α) : Option (V3 α) :=
  worldSimpleIntersect s.transform s.simpleIntersectLocalRay ray

/-- `Sphere3D::world_bounds` -/
def worldBounds (s : Sphere α) : BBox α := worldBoundsOf s.transform s.bounds

end Sphere
end G3d
