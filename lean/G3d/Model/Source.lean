import G3d.Model.Disk
/-! Model of `distant_source3d.rs`.  A `DistantSource3D` never has a transform (`new` stores `None` and the field is private). -/
namespace G3d
open Num

/-- `DistantSource3D` -/
structure Source (α : Type) where
  direction : V3 α
  omega : α
  angle : α
  cosHalfAlpha : α
  tanHalfAlpha : α
  transform : Option (Transform α)
deriving Repr, Inhabited

variable {α : Type} [Num α]

namespace Source

/-- `DistantSource3D::new` -/
def new (direction : V3 α) (angle : α) : Source α :=
  let tanHalfAlpha := Num.tan (angle / (2.0 : α))
  let omega := tanHalfAlpha * tanHalfAlpha * Num.pi
  { omega := omega, angle := angle, tanHalfAlpha := tanHalfAlpha, cosHalfAlpha := Num.cos (angle / (2 : α)),
    direction := direction.normalize, transform := none }

/-- `DistantSource3D::get_proxy_disk` (panics are those of `Disk3D::new`) -/
def getProxyDisk (s : Source α) (t : α) : Res (Disk α) :=
  let center := s.direction.smul t
  let normal := s.direction
  let radius := t * s.tanHalfAlpha
  Disk.new center normal radius

/-- `DistantSource3D::area` -/
def area (_s : Source α) : α := Num.maxv

/-- `DistantSource3D::simple_intersect_local_ray` -/
def simpleIntersectLocalRay (s : Source α) (ray : Ray α) (_oError _dError : V3 α) : Option (V3 α) :=
  let cosAngle := ray.direction.normalize.dot s.direction
  if cosAngle >=. s.cosHalfAlpha then some (ray.project (Num.maxv : α)) else none

/-- `DistantSource3D::intersect_local_ray`; the proxy disk's constructor can panic (e.g. `angle = 0` gives radius 0) -/
def intersectLocalRay (s : Source α) (ray : Ray α) (oError dError : V3 α) : Res (Option (Info α)) :=
  match s.simpleIntersectLocalRay ray oError dError with
  | none => .ok none
  | some phit =>
    let t : α := 10
    let phi : α := 0.5
    match s.getProxyDisk t with
    | .panic site => .panic site
    | .err k => .err k
    | .ok disk =>
      match disk.intersectionInfo ray (ray.project t) phi with
      | none => .ok none
      | some info => .ok (some { info with p := phit })

/-- `DistantSource3D::intersect` -/
def intersect (s : Source α) (ray : Ray α) : Res (Option (Info α)) :=
  let l := localRayIntersect s.transform ray
  match s.intersectLocalRay l.1 l.2.1 l.2.2 with
  | .panic site => .panic site
  | .err k => .err k
  | .ok none => .ok none
  | .ok (some info) =>
    match s.transform with
    | some t => .ok (some (info.transform t))
    | none => .ok (some info)

/-- `DistantSource3D::simple_intersect` -/
def simpleIntersect (s : Source α) (ray : Ray α) : Option (V3 α) :=
  worldSimpleIntersect s.transform s.simpleIntersectLocalRay ray

end Source
end G3d
