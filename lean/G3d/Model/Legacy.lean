import G3d.Model.Approx
/-! Bodies of `round_error.rs` as they were BEFORE the repairs (kept verbatim so that the defects stay recognisable:
    `Props/Findings.lean` proves that these bodies violate C07, with kernel-evaluated soft-float witnesses). -/
namespace G3d.Legacy
open G3d Num
variable {α : Type} [Num α]

/-- pre-repair `Neg`: bounds not swapped -/
def neg (a : Approx α) : Approx α := ⟨-a.low, -a.high⟩
/-- pre-repair `Sub`: `low - low`, `high - high` -/
def sub (a b : Approx α) : Approx α := ⟨nextDown (a.low - b.low), nextUp (a.high - b.high)⟩
/-- pre-repair `Mul<Float>`: products nudged before the swap -/
def mulF (a : Approx α) (o : α) : Approx α :=
  let mn := nextDown (a.low * o)
  let mx := nextUp (a.high * o)
  let (mn, mx) := if mn >. mx then (mx, mn) else (mn, mx)
  ⟨nextDown mn, nextUp mx⟩

end G3d.Legacy
