/-! Outcomes of modelled Rust functions: `Ok`, `Err(String)` and panics are three distinct results.
    Every `unwrap`/`expect`/`panic!`/`unreachable!`/out-of-bounds index of the modelled code is an explicit
    `.panic site`; nothing is defaulted away. -/
namespace G3d

inductive Res (β : Type) where
  | ok (b : β)
  | err (kind : String)
  | panic (site : String)
deriving Repr, Inhabited

namespace Res
variable {β γ : Type}

@[inline] def bind (r : Res β) (f : β → Res γ) : Res γ :=
  match r with
  | ok b => f b
  | err k => err k
  | panic s => panic s

instance : Monad Res where
  pure := ok
  bind := bind

/-- Rust `.unwrap()` on a `Result`: an `Err` becomes a panic at `site` -/
@[inline] def unwrap (r : Res β) (site : String) : Res β :=
  match r with
  | err _ => panic site
  | r => r

def isOk : Res β → Bool | ok _ => true | _ => false
def cls : Res β → String | ok _ => "ok" | err _ => "err" | panic _ => "panic"

end Res
end G3d
