import G3d.Model.Vec
import G3d.Model.Outcome
import G3d.Model.Segment
import G3d.Model.Loop
/-! Model of `polygon3d.rs` (literal transcription). -/
namespace G3d
open Num

variable {α : Type} [Num α]

/-! Integer casts of `get_closed_loop` (`as i32`, `as usize`, release-mode wrapping `+` on `i32`; 64-bit `usize`). -/
/-- `x as i32` for `x : usize` (truncation to the low 32 bits, two's complement) -/
def usizeAsI32 (n : Nat) : Int :=
  let m := n % 4294967296
  if m ≥ 2147483648 then (m : Int) - 4294967296 else (m : Int)
/-- wrapping `i32 + i32` -/
def i32Add (a b : Int) : Int :=
  let s := (a + b + 2147483648) % 4294967296
  s - 2147483648
/-- `x as usize` for `x : i32` (sign extension to 64 bits) -/
def i32AsUsize (i : Int) : Nat :=
  if i ≥ 0 then i.toNat else (18446744073709551616 + i).toNat

/-- `Polygon3D` -/
structure Polygon (α : Type) where
  outer : Loop α
  inner : List (Loop α)
  area : α
  normal : V3 α
deriving Repr, Inhabited

namespace Polygon

/-- `Polygon3D::new` -/
def new (outer : Loop α) : Res (Polygon α) :=
  if !outer.closed then .err "polygon3d.rs:new:not-closed" else do
  let area ← outer.areaR
  let normal := outer.normal
  .ok { outer := outer, area := area, normal := normal, inner := [] }

/-- `impl From<Loop3D> for Polygon3D` (`area().expect(..)`) -/
def ofLoop (outer : Loop α) : Res (Polygon α) :=
  match outer.areaR with
  | .ok area => .ok { outer := outer, inner := [], area := area, normal := outer.normal }
  | .err _ => .panic "polygon3d.rs:from:area.expect"
  | .panic p => .panic p

/-- `outer_centroid` -/
def outerCentroid (pg : Polygon α) : V3 α :=
  let centroid := pg.outer.vertices.foldl (fun (c v : V3 α) => c + v) ⟨0, 0, 0⟩
  centroid.sdiv (Num.ofUsize pg.outer.len)

/-- `n_inner_loops` -/
def nInnerLoops (pg : Polygon α) : Nat := pg.inner.length

/-- `inner(i)` -/
def innerR (pg : Polygon α) (i : Nat) : Res (Loop α) :=
  match pg.inner[i]? with
  | some l => .ok l
  | none => .err "polygon3d.rs:inner:out-of-bounds"

/-- the `for i in 0..self.inner.len()` loop of `test_point` -/
def testPointInner : List (Loop α) → V3 α → Res Bool
  | [], _ => .ok true
  | lp :: rest, p =>
    match lp.testPoint p with
    | .err e => .err e
    | .panic s => .panic s
    | .ok isIn => if isIn then .ok false else testPointInner rest p

/-- `test_point` -/
def testPoint (pg : Polygon α) (p : V3 α) : Res Bool := do
  let inOuter ← pg.outer.testPoint p
  if !inOuter then .ok false else testPointInner pg.inner p

/-- first loop of `cut_hole`: `ok false` = some hole vertex is not inside the polygon -/
def holeVerticesInside (pg : Polygon α) : List (V3 α) → Res Bool
  | [] => .ok true
  | p :: rest => do
    let t ← pg.testPoint p
    if !t then .ok false else holeVerticesInside pg rest

/-- inner loop of the second check of `cut_hole`: `ok true` = some vertex lies in the new hole -/
def holeContainsAnyVertex (hole : Loop α) : List (V3 α) → Res Bool
  | [] => .ok false
  | p :: rest => do
    let t ← hole.testPoint p
    if t then .ok true else holeContainsAnyVertex hole rest

/-- second check of `cut_hole` over all existing inner loops -/
def holeContainsAnyLoop (hole : Loop α) : List (Loop α) → Res Bool
  | [] => .ok false
  | inner :: rest => do
    let t ← holeContainsAnyVertex hole inner.vertices
    if t then .ok true else holeContainsAnyLoop hole rest

/-- `cut_hole` (all mutations happen after the last check, so an `Err` leaves `self` untouched) -/
def cutHole (pg : Polygon α) (hole : Loop α) : Polygon α × Res Unit :=
  if !(pg.normal.isParallel hole.normal) then (pg, .err "polygon3d.rs:cut_hole:normals-not-parallel") else
  let checks : Res α := do
    let allIn ← holeVerticesInside pg hole.vertices
    if !allIn then .err "polygon3d.rs:cut_hole:point-not-inside" else
    let swallows ← holeContainsAnyLoop hole pg.inner
    if swallows then .err "polygon3d.rs:cut_hole:contains-other-hole" else
    hole.areaR
  match checks with
  | .err e => (pg, .err e)
  | .panic p => (pg, .panic p)
  | .ok holeArea => ({ pg with area := pg.area - holeArea, inner := pg.inner ++ [hole] }, .ok ())

/-! ### `get_closed_loop` -/

/-- the mutable variables of the nearest-pair search.  `innerLoopId` / `innerVertexId` are declared
    outside the `for _i` loop in Rust and therefore persist across its iterations. -/
structure MinSearch (α : Type) where
  minDistance : α
  minInnerLoopId : Nat
  minExtVertexId : Nat
  innerLoopId : Nat
  innerVertexId : Nat
deriving Repr, Inhabited

/-- `for l in 0..n_inner_vertices` -/
def searchInnerVertices (extVertex : V3 α) (j k : Nat) : List (V3 α) → Nat → MinSearch α → MinSearch α
  | [], _, st => st
  | innerVertex :: rest, l, st =>
    let distance := extVertex.squaredDistance innerVertex
    let st :=
      if distance <. st.minDistance then
        { minDistance := distance, minExtVertexId := j, minInnerLoopId := k, innerLoopId := k, innerVertexId := l }
      else st
    searchInnerVertices extVertex j k rest (l + 1) st

/-- `for k in 0..n_inner_loops` (skipping processed loops) -/
def searchInnerLoops (extVertex : V3 α) (j : Nat) (processed : List Nat) :
    List (Loop α) → Nat → MinSearch α → MinSearch α
  | [], _, st => st
  | innerLoop :: rest, k, st =>
    let st := if processed.contains k then st else searchInnerVertices extVertex j k innerLoop.vertices 0 st
    searchInnerLoops extVertex j processed rest (k + 1) st

/-- `for j in 0..n_ext_vertices` -/
def searchExtVertices (inner : List (Loop α)) (processed : List Nat) :
    List (V3 α) → Nat → MinSearch α → MinSearch α
  | [], _, st => st
  | extVertex :: rest, j, st =>
    searchExtVertices inner processed rest (j + 1) (searchInnerLoops extVertex j processed inner 0 st)

/-- `aux.push(p)?` inside `try_get_closed_loop` (the `site` only names the call; a refused push is the `Err` itself) -/
def pushQ (aux : Loop α) (p : V3 α) (_site : String) : Res (Loop α) :=
  match aux.push p with
  | (aux', .ok ()) => .ok aux'
  | (_, .err e) => .err e
  | (_, .panic s) => .panic s

/-- `for j in 0..n_inner_loop_vertices + 1` -/
def addInnerVertices (innerLoop : Loop α) (sameDirection : Bool) (innerVertexId nInner : Nat) :
    Nat → Nat → Loop α → Res (Loop α)
  | 0, _, aux => .ok aux
  | fuel + 1, j, aux =>
    if nInner == 0 then .panic "polygon3d.rs:get_closed_loop:rem-by-zero" else do
    let vertexToAdd :=
      if sameDirection then (innerVertexId + nInner - j) % nInner
      else i32AsUsize (i32Add (usizeAsI32 innerVertexId) (usizeAsI32 j)) % nInner
    let innerVertex ← innerLoop.index vertexToAdd
    let aux ← pushQ aux ⟨innerVertex.x, innerVertex.y, innerVertex.z⟩ "polygon3d.rs:get_closed_loop:push-inner.unwrap"
    addInnerVertices innerLoop sameDirection innerVertexId nInner fuel (j + 1) aux

/-- `for i in 0..n_ext_vertices` building `aux` -/
def buildAux (inner : List (Loop α)) (outerNormal : V3 α) (minExtVertexId minInnerLoopId innerVertexId : Nat) :
    List (V3 α) → Nat → Loop α → Res (Loop α)
  | [], _, aux => .ok aux
  | extVertex :: rest, i, aux => do
    let aux ← pushQ aux extVertex "polygon3d.rs:get_closed_loop:push-ext.unwrap"
    let aux ←
      if i == minExtVertexId then do
        let innerLoop ← match inner[minInnerLoopId]? with
          | some l => Res.ok l
          | none => Res.panic "polygon3d.rs:get_closed_loop:inner-index"
        let nInnerLoopVertices := innerLoop.len
        let innerNormal := innerLoop.normal
        let aux ← addInnerVertices innerLoop (outerNormal.isSameDirection innerNormal) innerVertexId
          nInnerLoopVertices (nInnerLoopVertices + 1) 0 aux
        pushQ aux extVertex "polygon3d.rs:get_closed_loop:push-return.unwrap"
      else Res.ok aux
    buildAux inner outerNormal minExtVertexId minInnerLoopId innerVertexId rest (i + 1) aux

/-- `Point3D == Point3D` (derived `PartialEq`: component-wise float equality) -/
def ptEq (a b : V3 α) : Bool := Num.beq a.x b.x && Num.beq a.y b.y && Num.beq a.z b.z

/-- the `for j in 0..n_ext_vertices` loop that picks the copy of the bridge vertex whose corner contains the bridge
    (with its `break`); returns the (possibly updated) `min_ext_vertex_id` -/
def chooseCopyLoop (ret : Loop α) (nExt : Nat) (extVertex bridge outerNormal : V3 α) : Nat → Nat → Nat → Res Nat
  | 0, _, cur => .ok cur
  | fuel + 1, j, cur => do
    let rj ← ret.index j
    if !(ptEq rj extVertex) then chooseCopyLoop ret nExt extVertex bridge outerNormal fuel (j + 1) cur else
    if nExt == 0 then .panic "polygon3d.rs:get_closed_loop:copy-rem-by-zero" else do
    let prev ← ret.index ((j + nExt - 1) % nExt)
    let next ← ret.index ((j + 1) % nExt)
    let into := extVertex - prev
    let out := next - extVertex
    let leftOfInto := (into.cross bridge).dot outerNormal
    let leftOfOut := (out.cross bridge).dot outerNormal
    let inCorner :=
      if (into.cross out).dot outerNormal >=. (0 : α) then leftOfInto >. (0 : α) && leftOfOut >. (0 : α)
      else !(leftOfInto <=. (0 : α) && leftOfOut <=. (0 : α))
    if inCorner then .ok j
    else chooseCopyLoop ret nExt extVertex bridge outerNormal fuel (j + 1) cur

/-- `if min_distance < 9E14 { … }`: choose the copy of the bridge vertex -/
def chooseCopy (pg : Polygon α) (ret : Loop α) (outerNormal : V3 α) (s : MinSearch α) : Res Nat :=
  if s.minDistance <. (9E14 : α) then do
    let extVertex ← ret.index s.minExtVertexId
    let innerLoop ← match pg.inner[s.minInnerLoopId]? with
      | some l => Res.ok l
      | none => Res.panic "polygon3d.rs:get_closed_loop:copy-inner-index"
    let innerVertex ← innerLoop.index s.innerVertexId
    let bridge := innerVertex - extVertex
    chooseCopyLoop ret ret.len extVertex bridge outerNormal ret.len 0 s.minExtVertexId
  else .ok s.minExtVertexId

/-- the variables that live across iterations of `for _i in 0..n_inner_loops` -/
structure ClosedLoopState (α : Type) where
  retLoop : Loop α
  processed : List Nat
  innerLoopId : Nat
  innerVertexId : Nat
deriving Repr, Inhabited

/-- `for _i in 0..n_inner_loops` -/
def closedLoopIter (pg : Polygon α) (outerNormal : V3 α) : Nat → ClosedLoopState α → Res (Loop α)
  | 0, st => .ok st.retLoop
  | fuel + 1, st =>
    let s0 : MinSearch α :=
      { minDistance := (9E14 : α), minInnerLoopId := 0, minExtVertexId := 0,
        innerLoopId := st.innerLoopId, innerVertexId := st.innerVertexId }
    let s := searchExtVertices pg.inner st.processed st.retLoop.vertices 0 s0
    match chooseCopy pg st.retLoop outerNormal s with
    | .err e => .err e
    | .panic p => .panic p
    | .ok minExt =>
    match buildAux pg.inner outerNormal minExt s.minInnerLoopId s.innerVertexId
        st.retLoop.vertices 0 Loop.new with
    | .err e => .err e
    | .panic p => .panic p
    | .ok aux =>
      closedLoopIter pg outerNormal fuel
        { retLoop := aux, processed := st.processed ++ [s.innerLoopId],
          innerLoopId := s.innerLoopId, innerVertexId := s.innerVertexId }

/-- `try_get_closed_loop` -/
def tryGetClosedLoop (pg : Polygon α) : Res (Loop α) :=
  let nInnerLoops := pg.inner.length
  let retLoop := pg.outer.open
  let outerNormal := pg.outer.normal
  closedLoopIter pg outerNormal nInnerLoops
    { retLoop := retLoop, processed := [], innerLoopId := 0, innerVertexId := 0 }

/-- `get_closed_loop`: `self.try_get_closed_loop().unwrap()` -/
def getClosedLoop (pg : Polygon α) : Res (Loop α) :=
  pg.tryGetClosedLoop.unwrap "polygon3d.rs:get_closed_loop:unwrap"

/-- the `for inner in self.inner.iter()` loop of `contains_segment` -/
def containsSegmentInner (s : Segment α) : List (Loop α) → Res Bool
  | [] => .ok false
  | inner :: rest => do
    let c ← inner.containsSegment s
    if c then .ok true else containsSegmentInner s rest

/-- `contains_segment` -/
def containsSegment (pg : Polygon α) (s : Segment α) : Res Bool := do
  let c ← pg.outer.containsSegment s
  if c then .ok true else containsSegmentInner s pg.inner

end Polygon
end G3d
