import G3d.Num
/-! Model of `vector3d.rs` / `point3d.rs` / `ray3d.rs`.  `Point3D` and `Vector3D` have the same
    representation and the same operator bodies, so one structure `V3` models both. -/
namespace G3d
open Num

structure V3 (α : Type) where
  x : α
  y : α
  z : α
deriving Repr, Inhabited

variable {α : Type} [Num α]

namespace V3

@[inline] def add (a b : V3 α) : V3 α := ⟨a.x + b.x, a.y + b.y, a.z + b.z⟩
@[inline] def sub (a b : V3 α) : V3 α := ⟨a.x - b.x, a.y - b.y, a.z - b.z⟩
@[inline] def neg (a : V3 α) : V3 α := ⟨-a.x, -a.y, -a.z⟩
@[inline] def smul (a : V3 α) (s : α) : V3 α := ⟨a.x * s, a.y * s, a.z * s⟩
@[inline] def sdiv (a : V3 α) (s : α) : V3 α := ⟨a.x / s, a.y / s, a.z / s⟩
/-- `impl Mul<Vector3D> for Vector3D` etc.: the dot product, summed left to right -/
@[inline] def dot (a b : V3 α) : α := a.x * b.x + a.y * b.y + a.z * b.z
@[inline] def abs (a : V3 α) : V3 α := ⟨Num.abs a.x, Num.abs a.y, Num.abs a.z⟩
@[inline] def zero : V3 α := ⟨0, 0, 0⟩

instance : Add (V3 α) := ⟨add⟩
instance : Sub (V3 α) := ⟨sub⟩
instance : Neg (V3 α) := ⟨neg⟩

/-- `Vector3D::cross` -/
def cross (a v : V3 α) : V3 α :=
  ⟨a.y * v.z - a.z * v.y, a.z * v.x - a.x * v.z, a.x * v.y - a.y * v.x⟩

def lengthSquared (a : V3 α) : α := a.x * a.x + a.y * a.y + a.z * a.z
def length (a : V3 α) : α := Num.sqrt a.lengthSquared

/-- `Vector3D::normalize` (default build: `l = 1/length`) -/
def normalize (a : V3 α) : V3 α :=
  let l : α := 1 / a.length
  ⟨a.x * l, a.y * l, a.z * l⟩

/-- `Vector3D::is_zero` / `Point3D::is_zero` -/
def isZero (a : V3 α) : Bool :=
  let t : α := tiny100
  Num.abs a.x <. t && Num.abs a.y <. t && Num.abs a.z <. t

/-- `Vector3D::compare` / `Point3D::compare` (tolerance 1e-5) -/
def compare (a p : V3 α) : Bool :=
  let t : α := 1e-5
  Num.abs (a.x - p.x) <. t && Num.abs (a.y - p.y) <. t && Num.abs (a.z - p.z) <. t

/-- `Vector3D::is_parallel` -/
def isParallel (a v : V3 α) : Bool :=
  if v.isZero || a.isZero then false else
  let abSquared := a.lengthSquared * v.lengthSquared
  let d := a.dot v
  let r := Num.abs ((d * d) - abSquared)
  r <. (1e-5 : α)

/-- `Vector3D::is_same_direction` -/
def isSameDirection (a v : V3 α) : Bool :=
  if !(a.isParallel v) then false else (a.dot v) >. (0 : α)

/-- `Vector3D::get_perpendicular` (default build); `none` = `Err` -/
def getPerpendicular (a : V3 α) : Option (V3 α) :=
  let t : α := tiny100
  if Num.abs a.x >. t then
    let vx2 := a.x * a.x
    let vy2 := a.y * a.y
    let ay := a.x / Num.sqrt (vx2 + vy2)
    let ax := -a.y * ay / a.x
    some ⟨ax, ay, 0⟩
  else if Num.abs a.y >. t then
    let vx2 := a.x * a.x
    let vy2 := a.y * a.y
    let ax := a.y / Num.sqrt (vx2 + vy2)
    let ay := -a.x * ax / a.y
    some ⟨ax, ay, 0⟩
  else if Num.abs a.z >. t then
    let vx2 := a.x * a.x
    let vz2 := a.z * a.z
    let ax := a.z / Num.sqrt (vz2 + vx2)
    let az := -a.x * ax / a.z
    some ⟨ax, 0, az⟩
  else none

/-- `Point3D::squared_distance` -/
def squaredDistance (a p : V3 α) : α :=
  let dx := (a.x - p.x) * (a.x - p.x)
  let dy := (a.y - p.y) * (a.y - p.y)
  let dz := (a.z - p.z) * (a.z - p.z)
  dx + dy + dz

def distance (a p : V3 α) : α := Num.sqrt (a.squaredDistance p)

/-- `Point3D::is_collinear`; `none` = `Err` (three coincident points) -/
def isCollinear (a b c : V3 α) : Option Bool :=
  if a.compare b && a.compare c then none else
  if a.compare b || a.compare c || b.compare c then some true else
  let ab := b - a
  let bc := c - b
  let cr := (ab.cross bc).length
  some (cr <. (1e-5 : α))

end V3

/-- `Ray3D` -/
structure Ray (α : Type) where
  origin : V3 α
  direction : V3 α
deriving Repr, Inhabited

namespace Ray
/-- `Ray3D::project` -/
def project (r : Ray α) (t : α) : V3 α := r.origin + r.direction.smul t
end Ray

end G3d
