import G3d.Model.Vec
import G3d.Model.Outcome
import G3d.Model.Segment
/-! Model of `loop3d.rs` (literal transcription).

Conventions
* `&mut self` methods returning `Result<(), String>` are modelled as `Loop α → … → Loop α × Res Unit`:
  the first component is the state Rust leaves behind (also on `Err`), the second the outcome.
* `self.vertices[i]` is `vget … i site`: an out-of-bounds index is the explicit panic `site`
  (also where a guard makes it unreachable).
* `for i in a..b` loops are recursive functions `…Loop fuel i …` (fuel = number of iterations left). -/
namespace G3d
open Num

variable {α : Type} [Num α]

/-- `vertices[i]` (panics when out of bounds) -/
@[inline] def vget (vs : List (V3 α)) (i : Nat) (site : String) : Res (V3 α) :=
  match vs[i]? with
  | some v => .ok v
  | none => .panic site

/-- `Loop3D` -/
structure Loop (α : Type) where
  vertices : List (V3 α)
  normal : V3 α
  closed : Bool
  area : α
  perimeter : α
deriving Repr, Inhabited

namespace Loop

/-- `Loop3D::new` / `with_capacity` -/
def new : Loop α := { vertices := [], normal := ⟨0, 0, 0⟩, closed := false, area := -(1.0 : α), perimeter := -(1.0 : α) }

/-- `len` / `n_vertices` -/
def len (l : Loop α) : Nat := l.vertices.length

/-- `impl Index<usize>` -/
def index (l : Loop α) (i : Nat) : Res (V3 α) :=
  if i ≥ l.vertices.length then .panic "loop3d.rs:index:out-of-bounds"
  else vget l.vertices i "loop3d.rs:index:vec"

/-- `remove(i)` (`Vec::remove` panics when `i >= len`) -/
def remove (l : Loop α) (i : Nat) : Res (Loop α) :=
  if i < l.vertices.length then .ok { l with vertices := l.vertices.eraseIdx i }
  else .panic "loop3d.rs:remove:out-of-bounds"

/-- `open` -/
def «open» (l : Loop α) : Loop α := { l with closed := false }

/-- `is_coplanar` -/
def isCoplanar (l : Loop α) (p : V3 α) : Res Bool :=
  match l.vertices with
  | [] => .err "loop3d.rs:is_coplanar:no-vertices"
  | firstPoint :: _ =>
    if l.normal.isZero then .err "loop3d.rs:is_coplanar:no-normal" else
    let d := firstPoint - p
    let aux := Num.abs (l.normal.dot d)
    .ok (aux <. (1e-7 : α))

/-- the `for i in 0..n - 2` loop of `valid_to_add` -/
def validToAddLoop (vs : List (V3 α)) (newEdge : Segment α) : Nat → Nat → Res Unit
  | 0, _ => .ok ()
  | fuel + 1, i => do
    let v ← vget vs i "loop3d.rs:valid_to_add:v"
    let vP1 ← vget vs (i + 1) "loop3d.rs:valid_to_add:v_p1"
    let thisS := Segment.new v vP1
    if (newEdge.intersect thisS).isSome then
      .err "loop3d.rs:valid_to_add:self-intersection"
    else validToAddLoop vs newEdge fuel (i + 1)

/-- `valid_to_add` -/
def validToAdd (l : Loop α) (point : V3 α) : Res Unit :=
  if l.closed then .err "loop3d.rs:valid_to_add:closed" else
  let coplanar : Res Unit :=
    if !l.normal.isZero then
      match l.isCoplanar point with
      | .ok true => .ok ()
      | .ok false => .err "loop3d.rs:valid_to_add:non-coplanar"
      | .err e => .err e
      | .panic p => .panic p
    else .ok ()
  match coplanar with
  | .err e => .err e
  | .panic p => .panic p
  | .ok () =>
    let n := l.vertices.length
    if 3 ≤ n then do
      let lastV ← vget l.vertices (n - 1) "loop3d.rs:valid_to_add:last_v"
      let newEdge := Segment.new lastV point
      validToAddLoop l.vertices newEdge (n - 2) 0
    else .ok ()

/-- `set_normal` -/
def setNormal (l : Loop α) : Loop α × Res Unit :=
  match l.vertices with
  | a :: b :: c :: _ =>
    let ab := b - a
    let bc := c - b
    ({ l with normal := (ab.cross bc).normalize }, .ok ())
  | _ => (l, .err "loop3d.rs:set_normal:less-than-3")

/-- the `loop { … }` of `push` that drops the vertices the new point makes redundant: the vertex list and normal it
leaves and whether the point is still to be appended (`false` = the early `return Ok(())` for a repeated point).
Every iteration but the last pops a vertex, so `length + 1` iterations always suffice (`pushDrop_fuel`). -/
def pushDrop (point : V3 α) : Nat → List (V3 α) → V3 α → Res (List (V3 α) × V3 α × Bool)
  | 0, _, _ => .panic "model:pushDrop:out-of-fuel"
  | fuel + 1, vs, nrm =>
    let n := vs.length
    let rep : Res Bool :=
      if 1 ≤ n then do
        let b ← vget vs (n - 1) "loop3d.rs:push:last"
        pure (b.compare point)
      else pure false
    match rep with
    | .err e => .err e
    | .panic p => .panic p
    | .ok true => .ok (vs, nrm, false)
    | .ok false =>
      if 2 ≤ n then
        match vget vs (n - 2) "loop3d.rs:push:a", vget vs (n - 1) "loop3d.rs:push:b" with
        | .ok a, .ok b =>
          -- `a.is_collinear(b, point).unwrap_or(true)`
          if (a.isCollinear b point).getD true then
            let vs' := vs.dropLast
            -- below three vertices the plane is not defined any more
            pushDrop point fuel vs' (if vs'.length < 3 then ⟨0, 0, 0⟩ else nrm)
          else .ok (vs, nrm, true)
        | .panic p, _ => .panic p
        | .err e, _ => .err e
        | _, .panic p => .panic p
        | _, .err e => .err e
      else .ok (vs, nrm, true)

/-- `push` -/
def push (l : Loop α) (point : V3 α) : Loop α × Res Unit :=
  match l.validToAdd point with
  | .err e => (l, .err e)
  | .panic p => (l, .panic p)
  | .ok () =>
    match pushDrop point (l.vertices.length + 1) l.vertices l.normal with
    | .err e => (l, .err e)
    | .panic p => (l, .panic p)
    | .ok (vs, nrm, false) => ({ l with vertices := vs, normal := nrm }, .ok ())
    | .ok (vs, nrm, true) =>
      let vs := vs ++ [point]
      let l1 := { l with vertices := vs, normal := nrm }
      if vs.length == 3 then l1.setNormal else (l1, .ok ())

/-- the `for i in 0..n` loop of `set_perimeter` -/
def setPerimeterLoop (vs : List (V3 α)) (n : Nat) : Nat → Nat → α → Res α
  | 0, _, per => .ok per
  | fuel + 1, i, per => do
    let a ← vget vs (i % n) "loop3d.rs:set_perimeter:a"
    let b ← vget vs ((i + 1) % n) "loop3d.rs:set_perimeter:b"
    setPerimeterLoop vs n fuel (i + 1) (per + (a - b).length)

/-- `set_perimeter` -/
def setPerimeter (l : Loop α) : Loop α × Res α :=
  if !l.closed then (l, .err "loop3d.rs:set_perimeter:not-closed") else
  if l.normal.isZero then (l, .err "loop3d.rs:set_perimeter:zero-normal") else
  let n := l.vertices.length
  if n < 3 then (l, .err "loop3d.rs:set_perimeter:less-than-3") else
  match setPerimeterLoop l.vertices n n 0 (0.0 : α) with
  | .ok per => ({ l with perimeter := per }, .ok per)
  | .err e => (l, .err e)
  | .panic p => (l, .panic p)

/-- the `for i in 2..n + 2` loop of `set_area` -/
def setAreaLoop (vs : List (V3 α)) (n : Nat) : Nat → Nat → V3 α → V3 α → V3 α → Res (V3 α)
  | 0, _, rhs, _, _ => .ok rhs
  | fuel + 1, i, rhs, v, vP1 => do
    let rhs := rhs + v.cross vP1
    let nxt ← vget vs (i % n) "loop3d.rs:set_area:v_p1"
    setAreaLoop vs n fuel (i + 1) rhs vP1 nxt

/-- `set_area` -/
def setArea (l : Loop α) : Loop α × Res α :=
  if !l.closed then (l, .err "loop3d.rs:set_area:not-closed") else
  if l.normal.isZero then (l, .err "loop3d.rs:set_area:zero-normal") else
  let n := l.vertices.length
  if n < 3 then (l, .err "loop3d.rs:set_area:less-than-3") else
  let rhsR : Res (V3 α) := do
    let v ← vget l.vertices 0 "loop3d.rs:set_area:v0"
    let vP1 ← vget l.vertices 1 "loop3d.rs:set_area:v1"
    setAreaLoop l.vertices n n 2 ⟨0.0, 0.0, 0.0⟩ v vP1
  match rhsR with
  | .err e => (l, .err e)
  | .panic p => (l, .panic p)
  | .ok rhs =>
    let area := l.normal.dot rhs / (2.0 : α)
    let normal := if area <. (0 : α) then l.normal.smul (-(1 : α)) else l.normal
    ({ l with normal := normal, area := Num.abs area }, .ok (Num.abs area))

/-- the `loop { … }` of `close` that drops the redundant (collinear or repeated) vertices at the seam; every iteration that
    continues removes a vertex, so the number of vertices is enough fuel -/
def closeSeam : Nat → List (V3 α) → Res (List (V3 α))
  | 0, vs => .ok vs
  | fuel + 1, vs =>
    let n := vs.length
    if n < 3 then .err "loop3d.rs:close:less-than-3" else do
    let a ← vget vs (n - 2) "loop3d.rs:close:a"
    let b ← vget vs (n - 1) "loop3d.rs:close:b"
    let c ← vget vs 0 "loop3d.rs:close:c"
    let lastCol ← a.isCollinearR b c
    if lastCol then closeSeam fuel vs.dropLast else do
    let c2 ← vget vs 1 "loop3d.rs:close:c2"
    let firstCol ← b.isCollinearR c c2
    if firstCol then closeSeam fuel (vs.eraseIdx 0) else .ok vs

/-- `close`: works on a copy; the loop is replaced only when everything succeeded -/
def close (l : Loop α) : Loop α × Res Unit :=
  if l.vertices.length < 3 then (l, .err "loop3d.rs:close:less-than-3") else
  match closeSeam (l.vertices.length + 1) l.vertices with
  | .err e => (l, .err e)
  | .panic p => (l, .panic p)
  | .ok vs =>
    let l1 := { l with vertices := vs }
    let closing : Res Unit := do
      let v0 ← vget l1.vertices 0 "loop3d.rs:close:v0"
      l1.validToAdd v0
    match closing with
    | .err e => (l, .err e)
    | .panic p => (l, .panic p)
    | .ok () =>
      let l3 := { l1 with closed := true }
      match l3.setArea with
      | (_, .err e) => (l, .err e)
      | (_, .panic p) => (l, .panic p)
      | (l4, .ok _) =>
        match l4.setPerimeter with
        | (_, .err e) => (l, .err e)
        | (_, .panic p) => (l, .panic p)
        | (l5, .ok _) => (l5, .ok ())

/-- the closure `on_ray` of `test_point`: the vertex is within `SNAP` of the ray (not of its supporting line) -/
def onRay (point d : V3 α) (p : V3 α) : Bool :=
  let snap : α := 1e-8
  let d2 := d.dot d
  let w := p - point
  let t := (w.dot d) / d2
  inUnitClosed t && ((w - d.smul t).length <=. snap)

/-- what one edge `segment_ab` adds to `n_cross` in `test_point` (0 or 1): whether the ray passes through an end of the edge
    is decided per vertex (`onRay`), so the two edges meeting at a vertex agree about it -/
def crossingIncrement (normal d : V3 α) (ray segmentAB : Segment α) : Nat :=
  let aOn := onRay ray.start d segmentAB.start
  let bOn := onRay ray.start d segmentAB.stop
  if aOn && bOn then 0
  else if aOn then
    let sideNormal := d.cross segmentAB.asVector
    if sideNormal.dot normal >. (0 : α) then 1 else 0
  else if bOn then
    let sideNormal := d.cross segmentAB.asReversedVector
    if sideNormal.dot normal >. (0 : α) then 1 else 0
  else
    match segmentAB.getIntersectionPt ray with
    | some (tA, tB) => if inUnitClosed tB && inUnitClosed tA then 1 else 0
    | none => 0

/-- the `for i in 0..n` loop of `test_point` (with its early returns) -/
def testPointLoop (l : Loop α) (point d : V3 α) (ray : Segment α) (n : Nat) : Nat → Nat → Nat → Res Bool
  | 0, _, nCross => .ok (nCross != 0 && nCross % 2 != 0)
  | fuel + 1, i, nCross => do
    let vertexA ← vget l.vertices i "loop3d.rs:test_point:vertex_a"
    let vertexB ← vget l.vertices ((i + 1) % n) "loop3d.rs:test_point:vertex_b"
    let segmentAB := Segment.new vertexA vertexB
    let onSegment ← segmentAB.containsPoint point
    if onSegment then .ok true else
    testPointLoop l point d ray n fuel (i + 1) (nCross + crossingIncrement l.normal d ray segmentAB)

/-- `test_point` -/
def testPoint (l : Loop α) (point : V3 α) : Res Bool :=
  if !l.closed then .err "loop3d.rs:test_point:open" else
  match l.isCoplanar point with
  | .err e => .err e
  | .panic p => .panic p
  | .ok false => .ok false
  | .ok true => do
    let v0 ← vget l.vertices 0 "loop3d.rs:test_point:v0"
    let v1 ← vget l.vertices 1 "loop3d.rs:test_point:v1"
    let d := point - (v0 + v1).smul (0.5 : α)
    let d := d.normalize
    let d := d.smul l.perimeter
    let ray := Segment.new point (point + d)
    let n := l.vertices.length
    testPointLoop l point d ray n n 0 0

/-- `area()` -/
def areaR (l : Loop α) : Res α :=
  if !l.closed then .err "loop3d.rs:area:open" else .ok l.area

/-- `perimeter()` -/
def perimeterR (l : Loop α) : Res α :=
  if !l.closed then .err "loop3d.rs:perimeter:open" else .ok l.perimeter

/-- `centroid()` -/
def centroid (l : Loop α) : Res (V3 α) :=
  if !l.closed then .err "loop3d.rs:centroid:open" else
  let n : α := Num.ofUsize l.vertices.length
  let x := l.vertices.foldl (fun acc v => acc + v.x) (0 : α)
  let y := l.vertices.foldl (fun acc v => acc + v.y) (0 : α)
  let z := l.vertices.foldl (fun acc v => acc + v.z) (0 : α)
  .ok ⟨x / n, y / n, z / n⟩

/-- the `for v in self.vertices.iter() { new.push(*v)? }` loop of `sanitize` -/
def sanitizePush : List (V3 α) → Loop α → Res (Loop α)
  | [], new => .ok new
  | v :: rest, new =>
    match new.push v with
    | (new', .ok ()) => sanitizePush rest new'
    | (_, .err e) => .err e
    | (_, .panic p) => .panic p

/-- `sanitize` -/
def sanitize (l : Loop α) : Res (Loop α) := do
  let new ← sanitizePush l.vertices Loop.new
  if l.closed && 3 ≤ new.vertices.length then
    match new.close with
    | (new', .ok ()) => .ok new'
    | (_, .err e) => .err e
    | (_, .panic p) => .panic p
  else .ok new

/-- the `for i in 0..=n` loop of `is_diagonal`: `ok false` = some edge rejected the segment -/
def isDiagonalLoop (l : Loop α) (s : Segment α) (n : Nat) : Nat → Nat → Res Bool
  | 0, _ => .ok true
  | fuel + 1, i => do
    if n == 0 then .panic "loop3d.rs:is_diagonal:rem-by-zero" else
    let a ← vget l.vertices (i % n) "loop3d.rs:is_diagonal:a"
    let b ← vget l.vertices ((i + 1) % n) "loop3d.rs:is_diagonal:b"
    -- a diagonal cannot pass through a vertex of the loop (other than its own ends)
    let through ← (if !(a.compare s.start) && !(a.compare s.stop) then s.containsPoint a else Res.ok false)
    if through then .ok false else
    let polyS := Segment.new a b
    let intersects := (s.intersect polyS).isSome
    let differentLength := Num.abs (s.length - polyS.length) >. (1e-7 : α)
    let c ← s.contains polyS
    let contains := c && differentLength
    if intersects || contains then .ok false
    else isDiagonalLoop l s n fuel (i + 1)

/-- `is_diagonal` -/
def isDiagonal (l : Loop α) (s : Segment α) : Res Bool :=
  if s.length <. (1e-5 : α) then .ok false else do
  let n := l.len
  let noCrossing ← isDiagonalLoop l s n (n + 1) 0
  if !noCrossing then .ok false else
  let inside ← (l.testPoint s.midpoint).unwrap "loop3d.rs:is_diagonal:test_point.unwrap"
  if !inside then .ok false else .ok true

/-- the `enumerate` loop of `contains_segment` -/
def containsSegmentLoop (vs : List (V3 α)) (s : Segment α) (n : Nat) : List (V3 α) → Nat → Res Bool
  | [], _ => .ok false
  | v :: rest, i => do
    let nextV ← vget vs ((i + 1) % n) "loop3d.rs:contains_segment:next_v"
    let segment := Segment.new v nextV
    if segment.compare s then .ok true else containsSegmentLoop vs s n rest (i + 1)

/-- `contains_segment` (a `bool` in Rust; the `Res` only carries the unreachable index panic) -/
def containsSegment (l : Loop α) (s : Segment α) : Res Bool :=
  containsSegmentLoop l.vertices s l.vertices.length l.vertices 0

end Loop
end G3d
