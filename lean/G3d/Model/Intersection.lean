import G3d.Model.Transform
/-! Model of `intersection.rs` (default feature set: no `textures`) and of the world-space wrapper
    functions `intersect` / `simple_intersect` / `world_bounds` whose bodies are repeated verbatim in every primitive. -/
namespace G3d
open Num

/-- `SurfaceSide` -/
inductive Side where
  | front
  | back
  | nonApplicable
deriving Repr, Inhabited, DecidableEq

/-- protocol code of a side: 0 front, 1 back, 2 n/a -/
def Side.code : Side → Nat
  | .front => 0
  | .back => 1
  | .nonApplicable => 2

variable {α : Type} [Num α]

/-- `SurfaceSide::get_side` (release build: the `debug_assert!` is absent) -/
def getSide (normal rayDir : V3 α) : V3 α × Side :=
  let dot := normal.dot rayDir
  if dot <. (0 : α) then (normal, Side.front)
  else if dot >. (0 : α) then (normal.smul (-1 : α), Side.back)
  else (⟨0, 0, 0⟩, Side.nonApplicable)

/-- `IntersectionInfo` (default features) -/
structure Info (α : Type) where
  p : V3 α
  normal : V3 α
  side : Side
  dpdu : V3 α
  dpdv : V3 α
deriving Repr, Inhabited

namespace Info

/-- `IntersectionInfo::new`.  The Weingarten block computes `_dndu`, `_dndv` from pure float arithmetic (it cannot
    panic) and, without the `textures` feature, the results are dropped; `u`, `v` and the second derivatives
    therefore do not influence any returned field.  They stay in the signature so that callers are literal. -/
def new (ray : Ray α) (p : V3 α) (_u _v : α) (dpdu dpdv _d2Pduu _d2Pdvv _d2Pduv : V3 α) : Info α :=
  let normal := (dpdv.cross dpdu).normalize
  let ns := getSide normal ray.direction
  { p := p, normal := ns.1, side := ns.2, dpdu := dpdu, dpdv := dpdv }

/-- `IntersectionInfo::transform` -/
def transform (i : Info α) (t : Transform α) : Info α :=
  { p := t.transformPt i.p
    dpdu := t.transformVec i.dpdu
    dpdv := t.transformVec i.dpdv
    normal := t.transformNormal i.normal
    side := i.side }

/-- `IntersectionInfo::inv_transform` -/
def invTransform (i : Info α) (t : Transform α) : Info α :=
  { p := t.invTransformPt i.p
    dpdu := t.invTransformVec i.dpdu
    dpdv := t.invTransformVec i.dpdv
    normal := t.invTransformNormal i.normal
    side := i.side }

end Info

/-- the ray handed to `intersect_local_ray` by `intersect`: inverse-transformed when a transform is attached,
    otherwise the ray itself with zero errors -/
def localRayIntersect (tr : Option (Transform α)) (ray : Ray α) : Ray α × V3 α × V3 α :=
  match tr with
  | some t => t.invTransformRay ray
  | none => (ray, ⟨0, 0, 0⟩, ⟨0, 0, 0⟩)

/-- the ray handed to `simple_intersect_local_ray` by `simple_intersect`: without a transform the ray still goes
    through `Transform::new().inv_transform_ray` -/
def localRaySimple (tr : Option (Transform α)) (ray : Ray α) : Ray α × V3 α × V3 α :=
  match tr with
  | some t => t.invTransformRay ray
  | none => (Transform.new : Transform α).invTransformRay ray

/-- the body shared by every primitive's `intersect` -/
def worldIntersect (tr : Option (Transform α)) (loc : Ray α → V3 α → V3 α → Option (Info α)) (ray : Ray α) :
    Option (Info α) :=
  let l := localRayIntersect tr ray
  match loc l.1 l.2.1 l.2.2 with
  | none => none
  | some info =>
    match tr with
    | some t => some (info.transform t)
    | none => some info

/-- the body shared by every primitive's `simple_intersect` -/
def worldSimpleIntersect (tr : Option (Transform α)) (loc : Ray α → V3 α → V3 α → Option (V3 α)) (ray : Ray α) :
    Option (V3 α) :=
  let l := localRaySimple tr ray
  match loc l.1 l.2.1 l.2.2 with
  | none => none
  | some phit =>
    match tr with
    | some t => some (t.transformPt phit)
    | none => some phit

/-- the body shared by every primitive's `world_bounds` -/
def worldBoundsOf (tr : Option (Transform α)) (localB : BBox α) : BBox α :=
  match tr with
  | some t => t.transformBBox localB
  | none => localB

end G3d
