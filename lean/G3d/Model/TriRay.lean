import G3d.Model.Intersection
import G3d.Model.Triangle
/-! Model of the ray–triangle part of `triangle3d.rs`: `intersect_triangle` (Möller–Trumbore) and
    `Triangle3D::{basic_intersection, intersect_local_ray, simple_intersect_local_ray, intersect, simple_intersect,
    bounds, world_bounds}`.  Only the three stored vertices matter here. -/
namespace G3d
open Num

variable {α : Type} [Num α]

/-- the vertices `a`, `b`, `c` stored in a `Triangle3D` -/
structure TriV (α : Type) where
  a : V3 α
  b : V3 α
  c : V3 α
deriving Repr, Inhabited

namespace TriV

/-- `Triangle3D::basic_intersection` -/
def basicIntersection (s : TriV α) (ray : Ray α) (_oError _dError : V3 α) : Option (V3 α × α × α) :=
  intersectTriangle ray s.a s.b s.c

/-- `Triangle3D::bounds` -/
def bounds (s : TriV α) : BBox α :=
  let bbox := BBox.fromPoint s.a
  let bbox := bbox.fromUnionPoint s.b
  bbox.fromUnionPoint s.c

/-- `Triangle3D::transform` is the constant `&None` -/
def transform (_s : TriV α) : Option (Transform α) := none

/-- `Triangle3D::intersect_local_ray` -/
def intersectLocalRay (s : TriV α) (ray : Ray α) (oError dError : V3 α) : Option (Info α) :=
  match s.basicIntersection ray oError dError with
  | none => none
  | some (phit, _u, _v) =>
    let dpdu := s.b - s.a
    let dpdv := s.c - s.a
    let normal := (dpdu.cross dpdv).normalize
    let ns := getSide normal ray.direction
    some { p := phit, dpdu := dpdu, dpdv := dpdv, normal := ns.1, side := ns.2 }

/-- `Triangle3D::simple_intersect_local_ray` -/
def simpleIntersectLocalRay (s : TriV α) (ray : Ray α) (oError dError : V3 α) : Option (V3 α) :=
  match s.basicIntersection ray oError dError with
  | none => none
  | some (p, _u, _v) => some p

/-- `Triangle3D::intersect` -/
def intersect (s : TriV α) (ray : Ray α) : Option (Info α) :=
  worldIntersect s.transform s.intersectLocalRay ray

/-- `Triangle3D::simple_intersect` -/
def simpleIntersect (s : TriV α) (ray : Ray α) : Option (V3 α) :=
  worldSimpleIntersect s.transform s.simpleIntersectLocalRay ray

/-- `Triangle3D::world_bounds` -/
def worldBounds (s : TriV α) : BBox α := worldBoundsOf s.transform s.bounds

end TriV
end G3d
