import G3d.Model.Vec
import G3d.Model.Outcome
import G3d.Model.Segment
import G3d.Model.Triangle
import G3d.Model.Loop
import G3d.Model.Polygon
/-! Model of `triangulation3d.rs` (literal transcription): `Edge`, `TriPiece`, `Triangulation3D`, `is_convex`.

Conventions
* The state of a `Triangulation3D` is `Mesh α = {triangles : Array (TriPiece α), nValid : Nat}`.
  `n_valid_triangles` is a `usize`; the harness is a RELEASE build, so `-= 1` / `+= 1` wrap modulo 2^64
  (`usizeDec` / `usizeInc`) instead of panicking.
* `&mut self` methods are `MeshM α β = Mesh α → Mesh α × Res β`: the first component is the state Rust
  leaves behind, ALSO after an `Err` (a `?` in the middle of a step keeps every earlier mutation) — these
  partial mutations are observable through later steps.  After a `.panic` the state is unspecified.
  `MeshM` is a plain function type with an explicit `bind`; `do` blocks over it use no `for`/`mut`.
* `self.triangles[i]` is `tgetM i site`: out of bounds is the explicit panic `site`.
* `for` loops are recursive functions `…Loop fuel i …` (fuel = iterations left); `loop {}` / `while` / the
  recursion of `refine` get the bound that the code itself guarantees (1000, `MAX_LOOPS`) or, for `refine`,
  an explicit fuel with the distinct outcome `refineOutOfFuel`. -/
namespace G3d
open Num

variable {α : Type} [Num α]

/-! ### `Edge` -/

/-- `enum Edge { Ab, Bc, Ca }` -/
inductive Edge where
  | ab | bc | ca
deriving Repr, DecidableEq, Inhabited

namespace Edge

/-- `Edge::from_i` (panics for `i > 2`) -/
def fromI (i : Nat) : Res Edge :=
  match i with
  | 0 => .ok ab
  | 1 => .ok bc
  | 2 => .ok ca
  | _ => .panic "triangulation3d.rs:Edge::from_i:out-of-bounds"

/-- `Edge::as_i` -/
def asI : Edge → Nat
  | ab => 0
  | bc => 1
  | ca => 2

/-- `impl Add<usize> for Edge`, literally (`from_i` of a number `< 3`) -/
def addR (e : Edge) (other : Nat) : Res Edge :=
  let i := (e.asI + other) % 3
  fromI i

/-- `impl Add<usize> for Edge` with the (never firing) panic resolved -/
def add (e : Edge) (other : Nat) : Edge :=
  match (e.asI + other) % 3 with
  | 0 => ab
  | 1 => bc
  | _ => ca

/-- the `panic!` of `from_i` cannot fire inside `+` -/
theorem addR_eq (e : Edge) (other : Nat) : e.addR other = .ok (e.add other) := by
  have h : (e.asI + other) % 3 < 3 := Nat.mod_lt _ (by decide)
  unfold addR add
  generalize (e.asI + other) % 3 = m at h
  match m, h with
  | 0, _ => rfl
  | 1, _ => rfl
  | 2, _ => rfl

end Edge

/-! ### `TriPiece` -/

/-- `struct TriPiece` -/
structure TriPiece (α : Type) where
  triangle : Triangle α
  n0 : Option Nat
  n1 : Option Nat
  n2 : Option Nat
  c0 : Bool
  c1 : Bool
  c2 : Bool
  aspectRatio : α
  circumcenter : V3 α
  centroid : V3 α
  valid : Bool
  index : Nat
deriving Repr, Inhabited

namespace TriPiece

/-- `TriPiece::new` -/
def new (vertexA vertexB vertexC : V3 α) (i : Nat) : Res (TriPiece α) := do
  let triangle ← Triangle.new vertexA vertexB vertexC
  -- `triangle.aspect_ratio()` (its internal `segment(i).unwrap()`s never fire: `Triangle.aspectRatioR_eq`)
  let aspectRatio ← triangle.aspectRatioR
  .ok { n0 := none, n1 := none, n2 := none,
        c0 := false, c1 := false, c2 := false,
        aspectRatio := aspectRatio,
        circumcenter := triangle.circumcenter,
        centroid := triangle.centroid,
        index := i,
        valid := true,
        triangle := triangle }

/-- `invalidate` -/
def invalidate (t : TriPiece α) : TriPiece α := { t with valid := false }

/-- `set_neighbour` -/
def setNeighbour (t : TriPiece α) (edge : Edge) (i : Nat) : TriPiece α :=
  match edge with
  | .ab => { t with n0 := some i }
  | .bc => { t with n1 := some i }
  | .ca => { t with n2 := some i }

/-- `neighbour` -/
def neighbour (t : TriPiece α) (edge : Edge) : Option Nat :=
  match edge with
  | .ab => t.n0
  | .bc => t.n1
  | .ca => t.n2

/-- `constrain` -/
def constrain (t : TriPiece α) (edge : Edge) : TriPiece α :=
  match edge with
  | .ab => { t with c0 := true }
  | .bc => { t with c1 := true }
  | .ca => { t with c2 := true }

/-- `is_constrained` -/
def isConstrained (t : TriPiece α) (edge : Edge) : Bool :=
  match edge with
  | .ab => t.c0
  | .bc => t.c1
  | .ca => t.c2

end TriPiece

/-! ### `is_convex` -/

/-- free function `is_convex` -/
def isConvex (a b c d : V3 α) : Bool :=
  -- 1st... ABC
  let ab := b - a
  let bc := c - b
  let nAbc := ab.cross bc
  if nAbc.isZero then false else
  -- 2nd... BCD
  let cd := d - c
  let nBcd := bc.cross cd
  if nBcd.isZero then false else
  if !(nAbc.isSameDirection nBcd) then false else
  -- 3rd... CDA
  let da := a - d
  let nCda := cd.cross da
  if nCda.isZero then false else
  if !(nAbc.isSameDirection nCda) then false else
  -- 4th... DAB
  let nDab := da.cross ab
  if nDab.isZero then false else
  if !(nAbc.isSameDirection nDab) then false else
  true

/-! ### `Triangulation3D` -/

/-- 2^64: `usize` arithmetic of the (64-bit, release) harness wraps modulo this -/
def usizeModulus : Nat := 18446744073709551616
/-- `x -= 1` on a `usize` in a release build -/
def usizeDec (n : Nat) : Nat := (n + usizeModulus - 1) % usizeModulus
/-- `x += 1` on a `usize` in a release build -/
def usizeInc (n : Nat) : Nat := (n + 1) % usizeModulus

/-- `struct Triangulation3D` -/
structure Mesh (α : Type) where
  triangles : Array (TriPiece α)
  nValid : Nat
deriving Repr, Inhabited

/-- a `&mut self` method: the state left behind (also on `Err`) and the outcome -/
def MeshM (α : Type) (β : Type) : Type := Mesh α → Mesh α × Res β

namespace MeshM
variable {β γ : Type}

@[inline] def pure (b : β) : MeshM α β := fun m => (m, .ok b)

/-- sequencing with `?`: an `Err`/panic stops here and keeps the state reached so far -/
@[inline] def bind (x : MeshM α β) (f : β → MeshM α γ) : MeshM α γ := fun m =>
  match x m with
  | (m', .ok b) => f b m'
  | (m', .err e) => (m', .err e)
  | (m', .panic p) => (m', .panic p)

instance : Monad (MeshM α) where
  pure := MeshM.pure
  bind := MeshM.bind

/-- a computation that does not touch the state -/
@[inline] def ofRes (r : Res β) : MeshM α β := fun m => (m, r)
/-- a `&self` method -/
@[inline] def readR (f : Mesh α → Res β) : MeshM α β := fun m => (m, f m)
@[inline] def err (k : String) : MeshM α β := fun m => (m, .err k)
@[inline] def panic (s : String) : MeshM α β := fun m => (m, .panic s)

end MeshM

namespace Mesh
open MeshM

/-- `Triangulation3D::new` -/
def new : Mesh α := { nValid := 0, triangles := #[] }

/-- `Triangulation3D::with_capacity` (the capacity is not observable) -/
def withCapacity (_i : Nat) : Mesh α := { nValid := 0, triangles := #[] }

/-- `get_trilist`: ALL slots, also invalid ones -/
def getTrilist (m : Mesh α) : List (Triangle α) := m.triangles.toList.map (·.triangle)

/-- `n_triangles` -/
def nTriangles (m : Mesh α) : Nat := m.triangles.size

/-- `n_valid_triangles` -/
def nValidTriangles (m : Mesh α) : Nat := m.nValid

/-- `self.triangles[i]` (read) -/
@[inline] def tget (m : Mesh α) (i : Nat) (site : String) : Res (TriPiece α) :=
  match m.triangles[i]? with
  | some t => .ok t
  | none => .panic site

/-- `self.triangles[i]` (read) inside a `&mut self` method -/
@[inline] def tgetM (i : Nat) (site : String) : MeshM α (TriPiece α) := fun m => (m, m.tget i site)

/-- `self.triangles[i].<mutator>()` -/
@[inline] def tmodifyM (i : Nat) (f : TriPiece α → TriPiece α) (site : String) : MeshM α Unit := fun m =>
  if i < m.triangles.size then ({ m with triangles := m.triangles.modify i f }, .ok ())
  else (m, .panic site)

/-- `invalidate(i)` -/
def invalidate (i : Nat) : MeshM α Unit := fun m =>
  let n := m.triangles.size
  if i < n then
    ({ triangles := m.triangles.modify i TriPiece.invalidate, nValid := usizeDec m.nValid }, .ok ())
  else (m, .err "triangulation3d.rs:invalidate:out-of-bounds")

/-- the `for i in start..n` loop of `get_first_invalid` -/
def getFirstInvalidLoop (m : Mesh α) : Nat → Nat → Res (Option Nat)
  | 0, _ => .ok none
  | fuel + 1, i => do
    let t ← m.tget i "triangulation3d.rs:get_first_invalid:index"
    if !t.valid then .ok (some i) else getFirstInvalidLoop m fuel (i + 1)

/-- `get_first_invalid(start)` (the `Res` only carries the unreachable index panic) -/
def getFirstInvalid (m : Mesh α) (start : Nat) : Res (Option Nat) :=
  let n := m.triangles.size
  if start < n then getFirstInvalidLoop m (n - start) start else .ok none

/-- `mark_as_neighbours(i1, edge_1, i2)` -/
def markAsNeighbours (i1 : Nat) (edge1 : Edge) (i2 : Nat) : MeshM α Unit :=
  if i1 == i2 then MeshM.err "triangulation3d.rs:mark_as_neighbours:own-neighbour" else do
  let t1 ← tgetM i1 "triangulation3d.rs:mark_as_neighbours:index-i1"
  if !t1.valid then MeshM.err "triangulation3d.rs:mark_as_neighbours:invalid-i1" else do
  let seg1 ← ofRes (t1.triangle.segment edge1.asI)
  let t2 ← tgetM i2 "triangulation3d.rs:mark_as_neighbours:index-i2"
  if !t2.valid then MeshM.err "triangulation3d.rs:mark_as_neighbours:invalid-i2" else do
  let edge2 ← ofRes (match t2.triangle.getEdgeIndexFromSegment seg1 with
    | some e => Res.ok e
    | none => Res.panic "triangulation3d.rs:mark_as_neighbours:no-shared-segment")
  let edge2 ← ofRes (Edge.fromI edge2)
  tmodifyM i1 (fun t => t.setNeighbour edge1 i2) "triangulation3d.rs:mark_as_neighbours:set-i1"
  tmodifyM i2 (fun t => t.setNeighbour edge2 i1) "triangulation3d.rs:mark_as_neighbours:set-i2"

/-- `push(vertex_a, vertex_b, vertex_c, last_added)`: reuses the first invalid slot at index `≥ last_added` -/
def push (vertexA vertexB vertexC : V3 α) (lastAdded : Nat) : MeshM α Nat := do
  let firstInvalid ← readR (fun m => m.getFirstInvalid lastAdded)
  let len ← readR (fun m => .ok m.triangles.size)
  let (extend, n) := match firstInvalid with
    | some i => (false, i)
    | none => (true, len)
  let result := TriPiece.new vertexA vertexB vertexC n
  match result with
  | .ok t =>
    fun m =>
      if extend then
        ({ triangles := m.triangles.push t, nValid := usizeInc m.nValid }, .ok n)
      else if n < m.triangles.size then
        ({ triangles := m.triangles.set! n t, nValid := usizeInc m.nValid }, .ok n)
      else (m, .panic "triangulation3d.rs:push:index")
  | .err e => MeshM.err e
  | .panic p => MeshM.panic p

/-- `get_opposite_vertex(triangle, segment)` -/
def getOppositeVertex (triangle : Triangle α) (segment : Segment α) : Res (V3 α) :=
  match triangle.getEdgeIndexFromSegment segment with
  | some i =>
    match i with
    | 0 => triangle.vertex 2
    | 1 => triangle.vertex 0
    | 2 => triangle.vertex 1
    | _ => .err "triangulation3d.rs:get_opposite_vertex:strange"
  | none => .err "triangulation3d.rs:get_opposite_vertex:no-such-edge"

/-- `get_flipped_aspect_ratio(index, edge)` -/
def getFlippedAspectRatio (m : Mesh α) (index : Nat) (edge : Edge) : Res (Option α) := do
  let tripiece ← m.tget index "triangulation3d.rs:get_flipped_aspect_ratio:index"
  if !tripiece.valid then .panic "triangulation3d.rs:get_flipped_aspect_ratio:invalid-triangle" else
  if tripiece.isConstrained edge then .ok none else
  match tripiece.neighbour edge with
  | none => .ok none
  | some neighbourI => do
    let neighbour ← m.tget neighbourI "triangulation3d.rs:get_flipped_aspect_ratio:neighbour-index"
    if !neighbour.valid then .panic "triangulation3d.rs:get_flipped_aspect_ratio:invalid-neighbour" else
    if neighbour.index == tripiece.index then .panic "triangulation3d.rs:get_flipped_aspect_ratio:own-neighbour" else do
    -- get vertices
    let vertexA ← tripiece.triangle.vertex (edge.asI % 3)
    let vertexB ← tripiece.triangle.vertex ((edge.asI + 1) % 3)
    let vertexC ← tripiece.triangle.vertex ((edge.asI + 2) % 3)
    -- Get the oposite side
    let s := Segment.new vertexA vertexB
    let opposite ← getOppositeVertex neighbour.triangle s
    if !(isConvex vertexA opposite vertexB vertexC) then .ok none else do
    -- get the other situation
    let flipped1 ← TriPiece.new vertexA opposite vertexC 0
    let flipped2 ← TriPiece.new opposite vertexB vertexC 0
    let f1Aspect := flipped1.aspectRatio
    let f2Aspect := flipped2.aspectRatio
    -- Return the maximum
    if f1Aspect >. f2Aspect then .ok (some f1Aspect) else .ok (some f2Aspect)

/-- `match … get_edge_index_from_points(p, q) { Some(i) => i, None => panic!(..) }` followed by `Edge::from_i` -/
def edgeFromPointsOrPanic (t : Triangle α) (p q : V3 α) (site : String) : Res Edge :=
  match t.getEdgeIndexFromPoints p q with
  | some i => Edge.fromI i
  | none => .panic site

/-- `flip_diagonal(index, edge)` -/
def flipDiagonal (index : Nat) (edge : Edge) : MeshM α Unit := do
  -- Check if valid
  let tp ← tgetM index "triangulation3d.rs:flip_diagonal:index"
  if !tp.valid then MeshM.panic "triangulation3d.rs:flip_diagonal:invalid-triangle" else
  -- get neighbour index... There needs to be one, or panic
  match tp.neighbour edge with
  | none => MeshM.panic "triangulation3d.rs:flip_diagonal:no-neighbour"
  | some neighbourIndex => do
    -- check if neighbour is valid
    let nb ← tgetM neighbourIndex "triangulation3d.rs:flip_diagonal:neighbour-index"
    if !nb.valid then MeshM.panic "triangulation3d.rs:flip_diagonal:invalid-neighbour" else do
    -- get vertices
    let vertexA ← ofRes (tp.triangle.vertex (edge.asI % 3))
    let vertexB ← ofRes (tp.triangle.vertex ((edge.asI + 1) % 3))
    let vertexC ← ofRes (tp.triangle.vertex ((edge.asI + 2) % 3))
    -- ... including the oposite side
    let s := Segment.new vertexA vertexB
    let opposite ← ofRes (getOppositeVertex nb.triangle s)
    /- CHECK SURROUNDINGS -/
    -- AC segment
    let acEdge ← ofRes (edgeFromPointsOrPanic tp.triangle vertexA vertexC "triangulation3d.rs:flip_diagonal:AC-not-found")
    let neighbourAcIndex := tp.neighbour acEdge
    let constrainAc := tp.isConstrained acEdge
    -- BC segment
    let cbEdge ← ofRes (edgeFromPointsOrPanic tp.triangle vertexC vertexB "triangulation3d.rs:flip_diagonal:CB-not-found")
    let neighbourBcI := tp.neighbour cbEdge
    let constrainBc := tp.isConstrained cbEdge
    -- B-Opposite
    let boppEdge ← ofRes (edgeFromPointsOrPanic nb.triangle vertexB opposite "triangulation3d.rs:flip_diagonal:B-Opposite-not-found")
    let neighbourBoppI := nb.neighbour boppEdge
    let constrainBopp := nb.isConstrained boppEdge
    -- A-Opposite
    let aoppEdge ← ofRes (edgeFromPointsOrPanic nb.triangle vertexA opposite "triangulation3d.rs:flip_diagonal:A-Opposite-not-found")
    let neighbourAoppI := nb.neighbour aoppEdge
    let constrainAopp := nb.isConstrained aoppEdge
    /- INVALIDATE THE ORIGINAL TRIANGLES, AND PUSH THE NEW ONES -/
    invalidate index
    invalidate neighbourIndex
    let aocI ← push vertexA opposite vertexC index
    let cobI ← push vertexC opposite vertexB neighbourIndex
    /- REORGANIZE NEIGHBOURHOOD -/
    -- Segment A-Opposite
    (match neighbourAoppI with
      | some ni => markAsNeighbours index Edge.ab ni
      | none => MeshM.pure ())
    (if constrainAopp then tmodifyM aocI (fun t => t.constrain Edge.ab) "triangulation3d.rs:flip_diagonal:constrain-aoc-ab" else MeshM.pure ())
    -- Segment C-Opposite
    markAsNeighbours aocI Edge.bc cobI
    -- Segment AC
    (match neighbourAcIndex with
      | some ni => markAsNeighbours index Edge.ca ni
      | none => MeshM.pure ())
    (if constrainAc then tmodifyM aocI (fun t => t.constrain Edge.ca) "triangulation3d.rs:flip_diagonal:constrain-aoc-ca" else MeshM.pure ())
    -- Segment B-Opposite
    (match neighbourBoppI with
      | some ni => markAsNeighbours cobI Edge.bc ni
      | none => MeshM.pure ())
    (if constrainBopp then tmodifyM cobI (fun t => t.constrain Edge.bc) "triangulation3d.rs:flip_diagonal:constrain-cob-bc" else MeshM.pure ())
    -- Segment BC
    (match neighbourBcI with
      | some ni => markAsNeighbours cobI Edge.ca ni
      | none => MeshM.pure ())
    (if constrainBc then tmodifyM cobI (fun t => t.constrain Edge.ca) "triangulation3d.rs:flip_diagonal:constrain-cob-ca" else MeshM.pure ())

/-- `.ok_or_else(|| "Could not get index from segment")?` -/
def okOrErr {β : Type} (o : Option β) (kind : String) : Res β :=
  match o with
  | some b => .ok b
  | none => .err kind

/-- the closure `process_hemisphere` of `split_edge` (captures `segment_to_split` and `p`).
    `self.invalidate(index)` happens BEFORE the neighbour / constraint reads (which do not depend on `valid`)
    and before the pushes; an `Err` of a later `push` leaves the invalidation (and an earlier push) in place. -/
def processHemisphere (segmentToSplit : Segment α) (p : V3 α) (index : Nat) : MeshM α (Nat × Nat) := do
  let tp ← tgetM index "triangulation3d.rs:split_edge:hemisphere-index"
  let abIndex ← ofRes (okOrErr (tp.triangle.getEdgeIndexFromSegment segmentToSplit) "triangulation3d.rs:split_edge:no-index-from-segment")
  let ab ← ofRes (tp.triangle.segment abIndex)
  let vertexA := ab.start
  let vertexB := ab.stop
  let edge ← ofRes (okOrErr (tp.triangle.getEdgeIndexFromSegment ab) "triangulation3d.rs:split_edge:no-index-from-ab")
  let edge ← ofRes (Edge.fromI edge)
  -- Get points
  let vertexC ← ofRes (getOppositeVertex tp.triangle ab)
  -- invalidate base triangle.
  invalidate index
  -- Get neighbours in AC and BC and Constrains
  let tp ← tgetM index "triangulation3d.rs:split_edge:hemisphere-index-2"
  let edge1 ← ofRes (edge.addR 1)
  let edge2 ← ofRes (edge.addR 2)
  let bcN := tp.neighbour edge1
  let acN := tp.neighbour edge2
  let abC := tp.isConstrained edge
  let bcC := tp.isConstrained edge1
  let acC := tp.isConstrained edge2
  -- Replace base triangle with two new triangles.
  let apcI ← push vertexA p vertexC index
  let pbcI ← push p vertexB vertexC 0
  -- APC TRIANGLE
  (if abC then tmodifyM apcI (fun t => t.constrain Edge.ab) "triangulation3d.rs:split_edge:constrain-apc-ab" else MeshM.pure ())
  -- Segment 1: PC
  markAsNeighbours apcI Edge.bc pbcI
  -- Segment 2: CA
  (match acN with
    | some ni => markAsNeighbours apcI Edge.ca ni
    | none => MeshM.pure ())
  (if acC then tmodifyM apcI (fun t => t.constrain Edge.ca) "triangulation3d.rs:split_edge:constrain-apc-ca" else MeshM.pure ())
  -- PBC Triangle
  (if abC then tmodifyM pbcI (fun t => t.constrain Edge.ab) "triangulation3d.rs:split_edge:constrain-pbc-ab" else MeshM.pure ())
  -- Segment 1: BC
  (match bcN with
    | some ni => markAsNeighbours pbcI Edge.bc ni
    | none => MeshM.pure ())
  (if bcC then tmodifyM pbcI (fun t => t.constrain Edge.bc) "triangulation3d.rs:split_edge:constrain-pbc-bc" else MeshM.pure ())
  -- Return positions of new triangles.
  MeshM.pure (apcI, pbcI)

/-- `split_edge(triangle_index, edge_to_split, p)` -/
def splitEdge (triangleIndex : Nat) (edgeToSplit : Edge) (p : V3 α) : MeshM α Unit := do
  let tp ← tgetM triangleIndex "triangulation3d.rs:split_edge:index"
  if !tp.valid then MeshM.err "triangulation3d.rs:split_edge:invalid-triangle" else do
  let segmentToSplit ← ofRes (tp.triangle.segment edgeToSplit.asI)
  -- Neighbour... this is not necessarily there
  let neiI := tp.neighbour edgeToSplit
  -- PROCESS BASE TRIANGLE
  let (topLeftI, topRightI) ← processHemisphere segmentToSplit p triangleIndex
  -- PROCESS NEIGHBOUR
  match neiI with
  | some neiI => do
    let (bottomRightI, bottomLeftI) ← processHemisphere segmentToSplit p neiI
    -- Mark the upper and lower hemispheres as neighbours.
    markAsNeighbours topLeftI Edge.ab bottomLeftI
    markAsNeighbours topRightI Edge.ab bottomRightI
  | none => MeshM.pure ()

/-- `get_edge_index_from_points(p, q).ok_or_else(..)?` followed by `Edge::from_i` -/
def edgeFromPointsOrErr (t : Triangle α) (p q : V3 α) : Res Edge := do
  let i ← okOrErr (t.getEdgeIndexFromPoints p q) "triangulation3d.rs:split_triangle:no-index-from-segment"
  Edge.fromI i

/-- `split_triangle(i, point)` -/
def splitTriangle (i : Nat) (point : V3 α) : MeshM α Unit := do
  let tp ← tgetM i "triangulation3d.rs:split_triangle:index"
  if !tp.valid then MeshM.err "triangulation3d.rs:split_triangle:invalid-triangle" else do
  -- get vertices
  let vertexA := tp.triangle.a
  let vertexB := tp.triangle.b
  let vertexC := tp.triangle.c
  -- Get neighbours and constraints
  let edge ← ofRes (edgeFromPointsOrErr tp.triangle vertexA vertexB)
  let neighbourAbI := tp.neighbour edge
  let constrainAb := tp.isConstrained edge
  let edge ← ofRes (edgeFromPointsOrErr tp.triangle vertexB vertexC)
  let neighbourBcI := tp.neighbour edge
  let constrainBc := tp.isConstrained edge
  let edge ← ofRes (edgeFromPointsOrErr tp.triangle vertexC vertexA)
  let neighbourCaI := tp.neighbour edge
  let constrainCa := tp.isConstrained edge
  -- Invalidate this triangle.
  invalidate i
  -- Add new triangles, noting their indices
  let capI ← push vertexC vertexA point 0
  let abpI ← push vertexA vertexB point 0
  let bcpI ← push vertexB vertexC point 0
  -- Connect them to each other
  markAsNeighbours capI Edge.bc abpI
  markAsNeighbours abpI Edge.bc bcpI
  markAsNeighbours bcpI Edge.bc capI
  -- Connect to outside
  (if constrainCa then tmodifyM capI (fun t => t.constrain Edge.ab) "triangulation3d.rs:split_triangle:constrain-cap" else MeshM.pure ())
  (match neighbourCaI with
    | some ni => markAsNeighbours capI Edge.ab ni
    | none => MeshM.pure ())
  (if constrainAb then tmodifyM abpI (fun t => t.constrain Edge.ab) "triangulation3d.rs:split_triangle:constrain-abp" else MeshM.pure ())
  (match neighbourAbI with
    | some ni => markAsNeighbours abpI Edge.ab ni
    | none => MeshM.pure ())
  (if constrainBc then tmodifyM bcpI (fun t => t.constrain Edge.ab) "triangulation3d.rs:split_triangle:constrain-bcp" else MeshM.pure ())
  (match neighbourBcI with
    | some ni => markAsNeighbours bcpI Edge.ab ni
    | none => MeshM.pure ())

/-- the `for j in 0..3` loop of `restore_delaunay`: carries `(best_edge, best_aspect_ratio)` -/
def restoreEdgeLoop (m : Mesh α) (i : Nat) (currentAr : α) : Nat → Nat → Option Edge → α → Res (Option Edge × α)
  | 0, _, bestEdge, bestAspectRatio => .ok (bestEdge, bestAspectRatio)
  | fuel + 1, j, bestEdge, bestAspectRatio => do
    let thisEdge ← Edge.fromI j
    -- calculate possible aspect ratio...
    let far ← m.getFlippedAspectRatio i thisEdge
    match far with
    | some ar =>
      if currentAr >. ar && bestAspectRatio >. ar then
        restoreEdgeLoop m i currentAr fuel (j + 1) (some thisEdge) ar
      else restoreEdgeLoop m i currentAr fuel (j + 1) bestEdge bestAspectRatio
    | none => restoreEdgeLoop m i currentAr fuel (j + 1) bestEdge bestAspectRatio

/-- the `for i in 0..n` loop of `restore_delaunay`: carries `any_changes` -/
def restoreTriLoop (maxAspectRatio : α) : Nat → Nat → Bool → MeshM α Bool
  | 0, _, anyChanges => MeshM.pure anyChanges
  | fuel + 1, i, anyChanges => do
    let tp ← tgetM i "triangulation3d.rs:restore_delaunay:index"
    -- Skip invalids
    if !tp.valid then restoreTriLoop maxAspectRatio fuel (i + 1) anyChanges else
    -- get the current aspect ratio
    let currentAr := tp.aspectRatio
    -- If it is acceptable, skip.
    if currentAr <. maxAspectRatio then restoreTriLoop maxAspectRatio fuel (i + 1) anyChanges else do
    -- Otherwise, check if it is worth flipping the diagonal
    let (bestEdge, _) ← readR (fun m => restoreEdgeLoop m i currentAr 3 0 none (Num.maxv : α))
    match bestEdge with
    | some best => do
      flipDiagonal i best
      restoreTriLoop maxAspectRatio fuel (i + 1) true
    | none => restoreTriLoop maxAspectRatio fuel (i + 1) anyChanges

/-- the `while any_changes && n_loops < MAX_LOOPS` loop of `restore_delaunay` (fuel = `MAX_LOOPS - n_loops`) -/
def restoreWhile (maxAspectRatio : α) (n : Nat) : Nat → Bool → MeshM α Unit
  | 0, _ => MeshM.pure ()
  | fuel + 1, anyChanges =>
    if !anyChanges then MeshM.pure () else do
    let anyChanges ← restoreTriLoop maxAspectRatio n 0 false
    restoreWhile maxAspectRatio n fuel anyChanges

/-- `restore_delaunay(max_aspect_ratio)` (`MAX_LOOPS = 30`) -/
def restoreDelaunay (maxAspectRatio : α) : MeshM α Unit := do
  -- Flipping diagonals does not change the number of triangles.
  let n ← readR (fun m => .ok m.triangles.size)
  restoreWhile maxAspectRatio n 30 true

/-- `add_point_to_triangle(index, point, p_location)` -/
def addPointToTriangle (index : Nat) (point : V3 α) (pLocation : PointInTriangle) : MeshM α Bool := do
  let tp ← tgetM index "triangulation3d.rs:add_point_to_triangle:index"
  if !tp.valid then MeshM.panic "triangulation3d.rs:add_point_to_triangle:obsolete-triangle" else
  if pLocation.isVertex then
    -- Point is a vertex... ignore, but pretend we did something
    MeshM.pure false
  else if pLocation.isEdge then do
    let edge ← ofRes (match pLocation with
      | .edgeAB => Res.ok Edge.ab
      | .edgeBC => Res.ok Edge.bc
      | .edgeAC => Res.ok Edge.ca
      | _ => Res.panic "triangulation3d.rs:add_point_to_triangle:not-an-edge")
    splitEdge index edge point
    MeshM.pure true
  else if pLocation == PointInTriangle.inside then do
    splitTriangle index point
    MeshM.pure true
  else MeshM.panic "triangulation3d.rs:add_point_to_triangle:unreachable"

/-- the `enumerate` loop of `find_point`: the first valid triangle that does not see the point outside -/
def findPointLoop (ts : Array (TriPiece α)) (point : V3 α) : Nat → Nat → Res (Option (Nat × PointInTriangle))
  | 0, _ => .ok none
  | fuel + 1, i =>
    match ts[i]? with
    | none => .panic "triangulation3d.rs:find_point:index"
    | some tripiece =>
      -- skip triangle if it has been deleted
      if !tripiece.valid then findPointLoop ts point fuel (i + 1) else
      let pLocation := tripiece.triangle.testPoint point
      if pLocation != PointInTriangle.outside then .ok (some (i, pLocation))
      else findPointLoop ts point fuel (i + 1)

/-- `find_point(point)` -/
def findPoint (point : V3 α) : MeshM α (Option (Nat × PointInTriangle)) :=
  readR (fun m => findPointLoop m.triangles point m.triangles.size 0)

/-- `add_point(point)` -/
def addPoint (point : V3 α) : MeshM α Bool := do
  match (← findPoint point) with
  | some (i, pLocation) => addPointToTriangle i point pLocation
  | none => MeshM.err "triangulation3d.rs:add_point:no-triangle-contains-point"

/-- the `for j in 1..3` loop of `refine` (longest edge): carries `(s, s_i)` -/
def longestEdgeLoop (t : Triangle α) : Nat → Nat → Segment α → Nat → Res (Segment α × Nat)
  | 0, _, s, sI => .ok (s, sI)
  | fuel + 1, j, s, sI => do
    let sj ← t.segment j
    if s.length <. sj.length then do
      let sj' ← t.segment j
      longestEdgeLoop t fuel (j + 1) sj' j
    else longestEdgeLoop t fuel (j + 1) s sI

/-- the outcome kind used when the explicit fuel of `refine` runs out (never produced by the crate) -/
def refineOutOfFuel : String := "out-of-fuel"

/-- the `for i in 0..self.n_triangles()` loop of one pass of `refine` (the range is evaluated once): carries `any_changes` -/
def refinePass (maxArea maxAspectRatio : α) : Nat → Nat → Bool → MeshM α Bool
  | 0, _, anyChanges => MeshM.pure anyChanges
  | fuel + 1, i, anyChanges => do
    let tp ← tgetM i "triangulation3d.rs:refine:index"
    if !tp.valid then MeshM.panic "triangulation3d.rs:refine:unreachable-invalid-triangle" else
    let area := tp.triangle.area
    -- if area is already too small, just ignore
    if area <. (1e-3 : α) then refinePass maxArea maxAspectRatio fuel (i + 1) anyChanges else
    -- If it is an issue of aspect ratio
    if tp.aspectRatio >. maxAspectRatio then do
      -- find the longest edge... assume it is the first one, but check the other two.
      let (s, sI) ← ofRes (longestEdgeLoop tp.triangle 2 1 tp.triangle.ab 0)
      let edgeToSplit ← ofRes (Edge.fromI sI)
      -- add midpoint
      let midS := s.midpoint
      splitEdge i edgeToSplit midS
      restoreDelaunay maxAspectRatio
      refinePass maxArea maxAspectRatio fuel (i + 1) true
    else if area >. maxArea then
      -- try to add the circumcenter
      let cCenter := tp.circumcenter
      -- Since the circumcenter may be in another triangle, we need to search for it.
      match (← findPoint cCenter) with
      | some (index, pLocation) => do
        -- an error while inserting is an error
        let did ← addPointToTriangle index cCenter pLocation
        if did then do
          restoreDelaunay maxAspectRatio
          refinePass maxArea maxAspectRatio fuel (i + 1) true
        else refinePass maxArea maxAspectRatio fuel (i + 1) anyChanges
      | none => do
        -- the circumcenter is out of the polygon: add the centroid of slot `i`
        let tp ← tgetM i "triangulation3d.rs:refine:index-centroid"
        let centroid := tp.centroid
        let did ← addPointToTriangle i centroid PointInTriangle.inside
        if did then do
          restoreDelaunay maxAspectRatio
          refinePass maxArea maxAspectRatio fuel (i + 1) true
        else refinePass maxArea maxAspectRatio fuel (i + 1) anyChanges
    else refinePass maxArea maxAspectRatio fuel (i + 1) anyChanges

/-- `refine(max_area, max_aspect_ratio)`; the Rust function recurses while a pass changed something, the model
    takes the number of passes as explicit fuel and answers `err refineOutOfFuel` when it is exhausted -/
def refine (maxArea maxAspectRatio : α) : Nat → MeshM α Unit
  | 0 => MeshM.err refineOutOfFuel
  | fuel + 1 => do
    let n ← readR (fun m => .ok m.nTriangles)
    let anyChanges ← refinePass maxArea maxAspectRatio n 0 false
    if anyChanges then refine maxArea maxAspectRatio fuel else MeshM.pure ()

/-- the fuel the driver gives to `refine` -/
def refineFuel : Nat := 10000

/-- the `for edge_i in 0..3` loop of `mark_neighbourhouds` (with its `break`) -/
def markEdgeLoop (thisI otherI : Nat) : Nat → Nat → MeshM α Unit
  | 0, _ => MeshM.pure ()
  | fuel + 1, edgeI => do
    let t ← tgetM thisI "triangulation3d.rs:mark_neighbourhouds:this-index"
    let edge ← ofRes (t.triangle.segment edgeI)
    let o ← tgetM otherI "triangulation3d.rs:mark_neighbourhouds:other-index"
    if (o.triangle.getEdgeIndexFromSegment edge).isSome then do
      let e ← ofRes (Edge.fromI edgeI)
      markAsNeighbours thisI e otherI
      -- break: dont test other edges
    else markEdgeLoop thisI otherI fuel (edgeI + 1)

/-- the `for other_i in this_i + 1..n` loop -/
def markOtherLoop (thisI : Nat) : Nat → Nat → MeshM α Unit
  | 0, _ => MeshM.pure ()
  | fuel + 1, otherI => do
    markEdgeLoop thisI otherI 3 0
    markOtherLoop thisI fuel (otherI + 1)

/-- the `for this_i in 0..n` loop -/
def markThisLoop (n : Nat) : Nat → Nat → MeshM α Unit
  | 0, _ => MeshM.pure ()
  | fuel + 1, thisI => do
    markOtherLoop thisI (n - (thisI + 1)) (thisI + 1)
    markThisLoop n fuel (thisI + 1)

/-- `mark_neighbourhouds` -/
def markNeighbourhouds : MeshM α Unit := do
  let n ← readR (fun m => .ok m.triangles.size)
  markThisLoop n n 0

/-- `if poly.contains_segment(&s) { t.triangles[last_added].constrain(Edge::from_i(k)) }` -/
def constrainIfContained (poly : Polygon α) (s : Segment α) (lastAdded k : Nat) : MeshM α Unit := do
  let c ← ofRes (poly.containsSegment s)
  if c then do
    let e ← ofRes (Edge.fromI k)
    tmodifyM lastAdded (fun t => t.constrain e) "triangulation3d.rs:from_polygon:constrain-index"
  else MeshM.pure ()

/-- the `for v in the_loop.vertices()` loop of `ear_contains_vertex` -/
def earContainsVertexLoop (ear : Triangle α) (v0 v1 v2 : V3 α) : List (V3 α) → Bool
  | [] => false
  | v :: rest =>
    if v.compare v0 || v.compare v1 || v.compare v2 then earContainsVertexLoop ear v0 v1 v2 rest
    else if ear.testPoint v != PointInTriangle.outside then true
    else earContainsVertexLoop ear v0 v1 v2 rest

/-- `ear_contains_vertex(the_loop, v0, v1, v2)` -/
def earContainsVertex (theLoop : Loop α) (v0 v1 v2 : V3 α) : Res Bool := do
  let ear ← Triangle.new v0 v1 v2
  .ok (earContainsVertexLoop ear v0 v1 v2 theLoop.vertices)

/-- the `loop {}` of `from_polygon` (`count` is the value BEFORE `count += 1`); it ends by itself after at most
    1001 iterations, the fuel only makes this structural -/
def fromPolygonLoop (poly : Polygon α) : Nat → Loop α → Mesh α → Nat → Nat → Res (Mesh α)
  | 0, _, _, _, _ => .panic "model:from_polygon:fuel-exhausted(unreachable)"
  | fuel + 1, theLoop, t, anchor, count =>
    let count := count + 1
    if count > 1000 then .err "triangulation3d.rs:from_polygon:excessive-iterations" else
    -- `if count % 10 == 0 { the_loop = the_loop.sanitize()?; n = the_loop.len(); }`
    let theLoopR : Res (Loop α) := if count % 10 == 0 then theLoop.sanitize else .ok theLoop
    match theLoopR with
    | .err e => .err e
    | .panic p => .panic p
    | .ok theLoop =>
    let n := theLoop.len
    let lastAdded := t.nTriangles
    if n == 2 then
      match markNeighbourhouds t with
      | (t', .ok ()) => .ok t'
      | (_, .err e) => .err e
      | (_, .panic p) => .panic p
    else
    if n == 0 then .panic "triangulation3d.rs:from_polygon:rem-by-zero" else do
    let v0 ← theLoop.index (anchor % n)
    let v1 ← theLoop.index ((anchor + 1) % n)
    let v2 ← theLoop.index ((anchor + 2) % n)
    let potentialDiag := Segment.new v0 v2
    let isLine ← v0.isCollinearR v1 v2
    -- this will be false if potential_diag is very small.
    let isDiagonal ← theLoop.isDiagonal potentialDiag
    -- an ear is a convex corner
    let isConvexCorner := ((v1 - v0).cross (v2 - v1)).dot theLoop.normal >. (0 : α)
    -- `!is_line && is_convex && is_diagonal && !Self::ear_contains_vertex(..)?` (short-circuit)
    let isEar ← (if !isLine && isConvexCorner && isDiagonal then do
        let c ← earContainsVertex theLoop v0 v1 v2
        pure (!c)
      else pure false)
    if isEar then
      let step : MeshM α Unit := do
        -- Add triangle
        let _ ← push v0 v1 v2 lastAdded
        -- Set contrain...
        constrainIfContained poly (Segment.new v0 v1) lastAdded 0
        constrainIfContained poly (Segment.new v1 v2) lastAdded 1
        constrainIfContained poly (Segment.new v2 v0) lastAdded 2
      match step t with
      | (_, .err e) => .err e
      | (_, .panic p) => .panic p
      | (t', .ok ()) => do
        -- remove v1
        let theLoop' ← theLoop.remove ((anchor + 1) % n)
        fromPolygonLoop poly fuel theLoop' t' anchor count
    else fromPolygonLoop poly fuel theLoop t (anchor + 1) count

/-- `from_polygon(poly)` -/
def fromPolygon (poly : Polygon α) : Res (Mesh α) := do
  let theLoop ← poly.tryGetClosedLoop
  match theLoop.close with
  | (_, .err e) => .err e
  | (_, .panic p) => .panic p
  | (theLoop, .ok ()) =>
    -- `with_capacity(the_loop.len() - 2)`: after a successful `close` there are at least 3 vertices
    let t : Mesh α := Mesh.withCapacity (theLoop.len - 2)
    fromPolygonLoop poly 1001 theLoop t 0 0

/-- `mesh_polygon(poly, max_area, max_aspect_ratio)` with explicit fuel for `refine` -/
def meshPolygon (poly : Polygon α) (maxArea maxAspectRatio : α) (fuel : Nat) : Res (Mesh α) := do
  let t ← fromPolygon poly
  match refine maxArea maxAspectRatio fuel t with
  | (t', .ok ()) => .ok t'
  | (_, .err e) => .err e
  | (_, .panic p) => .panic p

end Mesh
end G3d
