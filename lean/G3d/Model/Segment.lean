import G3d.Model.Vec
import G3d.Model.Outcome
/-! Model of `segment3d.rs` (literal transcription). -/
namespace G3d
open Num

variable {α : Type} [Num α]

/-- `(0. ..=1.).contains(&t)` -/
@[inline] def inUnitClosed (t : α) : Bool := (0 : α) <=. t && t <=. (1 : α)
/-- `(0. ..1.).contains(&t)` -/
@[inline] def inUnitHalfOpen (t : α) : Bool := (0 : α) <=. t && t <. (1 : α)

namespace V3
/-- `Point3D::is_collinear` as a `Result` (the `Err` is "three equal points") -/
@[inline] def isCollinearR (a b c : V3 α) : Res Bool :=
  match a.isCollinear b c with
  | none => .err "point3d.rs:is_collinear:three-equal-points"
  | some r => .ok r
end V3

/-- `Segment3D` (`end` is a Lean keyword: the end point is `stop`) -/
structure Segment (α : Type) where
  start : V3 α
  stop : V3 α
  length : α
deriving Repr, Inhabited

namespace Segment

/-- `Segment3D::new`: caches `a.distance(b)` -/
def new (a b : V3 α) : Segment α := ⟨a, b, a.distance b⟩

/-- `as_vector3d` -/
def asVector (s : Segment α) : V3 α := s.stop - s.start
/-- `as_reversed_vector3d` -/
def asReversedVector (s : Segment α) : V3 α := s.start - s.stop

/-- `Segment3D::compare` -/
def compare (s o : Segment α) : Bool :=
  (s.start.compare o.start && s.stop.compare o.stop)
    || (s.stop.compare o.start && s.start.compare o.stop)

/-- `Segment3D::contains_point` -/
def containsPoint (s : Segment α) (point : V3 α) : Res Bool :=
  match point.isCollinearR s.start s.stop with
  | .err e => .err e
  | .panic p => .panic p
  | .ok false => .ok false
  | .ok true =>
    let ab := s.stop - s.start
    let ap := point - s.start
    -- `is_collinear` bounds distance x length: next to a short segment, check the distance itself
    if (ap.cross ab).length >. (1e-5 : α) * ab.length then .ok false else
    if Num.abs ab.x >. (Num.eps : α) && Num.abs ab.x >=. Num.abs ab.y && Num.abs ab.x >=. Num.abs ab.z then
      .ok (inUnitClosed (ap.x / ab.x))
    else if Num.abs ab.y >. (Num.eps : α) && Num.abs ab.y >=. Num.abs ab.z then
      .ok (inUnitClosed (ap.y / ab.y))
    else if Num.abs ab.z >. (Num.eps : α) then
      .ok (inUnitClosed (ap.z / ab.z))
    else .err "segment3d.rs:contains_point:zero-length"

/-- `Segment3D::contains` -/
def contains (s input : Segment α) : Res Bool :=
  let tiny : α := 1e-6
  if s.length <. tiny then .err "segment3d.rs:contains:zero-length" else
  let a1 := s.start
  let b1 := s.stop
  let a2 := input.start
  let b2 := input.stop
  -- `!a1.is_collinear(b1, a2)? || !a1.is_collinear(b1, b2)?`
  match a1.isCollinearR b1 a2 with
  | .err e => .err e
  | .panic p => .panic p
  | .ok false => .ok false
  | .ok true =>
  match a1.isCollinearR b1 b2 with
  | .err e => .err e
  | .panic p => .panic p
  | .ok false => .ok false
  | .ok true =>
    let a1b1 := b1 - a1
    -- interpolate along the dominant component of the segment
    let dx := Num.abs a1b1.x
    let dy := Num.abs a1b1.y
    let dz := Num.abs a1b1.z
    if dx >. tiny && dx >=. dy && dx >=. dz then
      let alpha := (a2.x - a1.x) / a1b1.x
      let beta := (b2.x - a1.x) / a1b1.x
      .ok (inUnitClosed alpha && inUnitClosed beta)
    else if dy >. tiny && dy >=. dz then
      let alpha := (a2.y - a1.y) / a1b1.y
      let beta := (b2.y - a1.y) / a1b1.y
      .ok (inUnitClosed alpha && inUnitClosed beta)
    else if dz >. tiny then
      let alpha := (a2.z - a1.z) / a1b1.z
      let beta := (b2.z - a1.z) / a1b1.z
      .ok (inUnitClosed alpha && inUnitClosed beta)
    else .err "segment3d.rs:contains:zero-length-2"

/-- `Segment3D::get_intersection_pt` -/
def getIntersectionPt (s input : Segment α) : Option (α × α) :=
  let a := s.stop - s.start
  let b := input.stop - input.start
  let normal := a.cross b
  let delta := s.start - input.start
  if Num.abs (delta.dot normal) >. (1e-5 : α) * normal.length then none else
  let tiny : α := 1e-5
  -- project along the dominant component of the normal
  let nx := Num.abs normal.x
  let ny := Num.abs normal.y
  let nz := Num.abs normal.z
  if nz >. tiny && nz >=. nx && nz >=. ny then
    let det := a.y * b.x - a.x * b.y
    let tA := (b.y * delta.x - b.x * delta.y) / det
    let tB := (a.y * delta.x - a.x * delta.y) / det
    some (tA, tB)
  else if nx >. tiny && nx >=. ny then
    let det := a.y * b.z - a.z * b.y
    let tA := (b.y * delta.z - b.z * delta.y) / det
    let tB := (a.y * delta.z - a.z * delta.y) / det
    some (tA, tB)
  else if ny >. tiny then
    let det := a.x * b.z - a.z * b.x
    let tA := (b.x * delta.z - b.z * delta.x) / det
    let tB := (a.x * delta.z - a.z * delta.x) / det
    some (tA, tB)
  else none

/-- `Segment3D::intersect`: `some p` = returned `true` and wrote `p` into `output`;
    `none` = returned `false` (output untouched) -/
def intersect (s input : Segment α) : Option (V3 α) :=
  let tiny : α := 1e-8
  match s.getIntersectionPt input with
  | some (tA, tB) =>
    let a := s.stop - s.start
    if inUnitHalfOpen tA && (tiny <=. tB && tB <. ((1 : α) - tiny)) then
      some (s.start + a.smul tA)
    else none
  | none => none

/-- `Segment3D::touches` (same convention as `intersect`) -/
def touches (s input : Segment α) : Option (V3 α) :=
  match s.getIntersectionPt input with
  | some (tA, tB) =>
    let a := s.stop - s.start
    if inUnitClosed tA && inUnitClosed tB then
      some (s.start + a.smul tA)
    else none
  | none => none

/-- `Segment3D::midpoint` -/
def midpoint (s : Segment α) : V3 α := (s.start + s.stop).smul (0.5 : α)

end Segment
end G3d
