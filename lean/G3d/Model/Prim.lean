import G3d.Model.Intersection
import G3d.Model.Plane
import G3d.Model.TriRay
import G3d.Model.Disk
import G3d.Model.Sphere
import G3d.Model.Cylinder
import G3d.Model.Source
/-! The ray–primitive intersection layer: `intersection.rs`, `plane3d.rs`, the ray part of `triangle3d.rs`,
    `disk3d.rs`, `sphere3d.rs`, `cylinder3d.rs`, `distant_source3d.rs`. -/
