import G3d.DriverCore
import G3d.SoftFloat
import G3d.DriverAlgebra
import G3d.DriverGeom
import G3d.DriverMesh
import G3d.DriverPrim
import G3d.DriverPrimStats
/-!
Line-protocol driver (test apparatus; imports only core + the model).  See DriverCore for the protocol.
Each layer of the model contributes a partial dispatcher `runOpX : String → Option (RdM String)`.
-/
namespace G3d
open Num
section
variable {α : Type} [Num α] [FloatIO α]

def runOp (op : String) : RdM String :=
  match runOpAlgebra (α := α) op with
  | some m => m
  | none =>
  match runOpGeom (α := α) op with
  | some m => m
  | none =>
  match runOpMesh (α := α) op with
  | some m => m
  | none =>
  match runOpPrim (α := α) op with
  | some m => m
  | none => return "unknown-op"

def processLine (line : String) : Option String :=
  match line.splitOn " => " with
  | [lhs, rhs] =>
    let toks := (lhs.splitOn " ").toArray
    let op := toks.getD 0 ""
    let (res, _) := (runOp (α := α) op).run { toks := toks, pos := 1 }
    if res == rhs then none else some s!"DIS {line} || {res}"
  | _ => some s!"BAD {line}"

end

instance : FloatIO (SF b64) where
  ofHex s := if s == "nan" then SF.nan else SF.ofBits (parseHex s)
  toHex x := match x with | SF.nan => "nan" | _ => natToHex x.toBits 16
instance : FloatIO (SF b32) where
  ofHex s := if s == "nan" then SF.nan else SF.ofBits (parseHex s)
  toHex x := match x with | SF.nan => "nan" | _ => natToHex x.toBits 8

/-- soft-float mode: the same model functions evaluated with the Lean-defined IEEE arithmetic `SF` (only the ops of
    `round_error.rs` are meaningful there: no libm) -/
partial def loopSF (h : IO.FS.Stream) (f32 : Bool) (n dis : Nat) : IO (Nat × Nat) := do
  let line ← h.getLine
  if line.isEmpty then return (n, dis)
  let line := line.trimAscii.toString
  if line.isEmpty || line.startsWith "#" || line.startsWith "consts" then loopSF h f32 n dis
  else
    let r := if f32 then processLine (α := SF b32) line else processLine (α := SF b64) line
    match r with
    | none => loopSF h f32 (n + 1) dis
    | some msg => do
        IO.println msg
        loopSF h f32 (n + 1) (dis + 1)

partial def loop (h : IO.FS.Stream) (f32 : Bool) (n dis : Nat) : IO (Nat × Nat) := do
  let line ← h.getLine
  if line.isEmpty then return (n, dis)
  let line := line.trimAscii.toString
  if line.isEmpty || line.startsWith "#" then loop h f32 n dis
  else
    let r := if f32 then processLine (α := Float32) line else processLine (α := Float) line
    match r with
    | none => loop h f32 (n + 1) dis
    | some msg => do
        IO.println msg
        loop h f32 (n + 1) (dis + 1)

def driverMain (args : List String) : IO UInt32 := do
  if args.contains "primstats" then return (← primStatsMain args)
  let f32 := args.contains "f32"
  if args.contains "sf" then
    let (n, dis) ← loopSF (← IO.getStdin) f32 0 0
    IO.println s!"TOTAL {n} DIS {dis}"
    return 0
  let (n, dis) ← loop (← IO.getStdin) f32 0 0
  IO.println s!"TOTAL {n} DIS {dis}"
  return 0

end G3d
