import G3d.NumFloat
import G3d.Model.Vec
import G3d.Model.Approx
import G3d.Model.BBox
import G3d.Model.Transform
/-!
Line-protocol driver (test apparatus; imports only core + the model).

A case line is   `<op> <arg> <arg> … => <result tokens…>`   where the part after `=>` is what the Rust
implementation returned.  The driver recomputes the result with the model (hardware floats), and
prints nothing when the two strings are equal, else `DIS <line> || <model result>`.
Floats are hex bit patterns (16 digits for f64, 8 for f32); NaN is canonicalised to `nan`.
-/
namespace G3d
open Num

class FloatIO (α : Type) where
  ofHex : String → α
  toHex : α → String

def hexDigit (c : Char) : Nat :=
  if '0' ≤ c ∧ c ≤ '9' then c.toNat - '0'.toNat
  else if 'a' ≤ c ∧ c ≤ 'f' then c.toNat - 'a'.toNat + 10
  else if 'A' ≤ c ∧ c ≤ 'F' then c.toNat - 'A'.toNat + 10 else 0

def parseHex (s : String) : Nat := s.foldl (fun acc c => acc * 16 + hexDigit c) 0

def natToHex (n : Nat) (digits : Nat) : String :=
  let rec go (k : Nat) (n : Nat) (acc : List Char) : List Char :=
    match k with
    | 0 => acc
    | k+1 => go k (n / 16) ((Nat.digitChar (n % 16)) :: acc)
  String.ofList (go digits n [])

instance : FloatIO Float where
  ofHex s := if s == "nan" then Float.ofBits 0x7FF8000000000000 else Float.ofBits (parseHex s).toUInt64
  toHex x := if x.isNaN then "nan" else natToHex x.toBits.toNat 16

instance : FloatIO Float32 where
  ofHex s := if s == "nan" then Float32.ofBits 0x7FC00000 else Float32.ofBits (parseHex s).toUInt32
  toHex x := if x.isNaN then "nan" else natToHex x.toBits.toNat 8

/-- token reader -/
structure Rd where
  toks : Array String
  pos : Nat

abbrev RdM := StateM Rd

def rdTok : RdM String := do
  let s ← get
  set { s with pos := s.pos + 1 }
  return s.toks.getD s.pos ""

section
variable {α : Type} [Num α] [FloatIO α]

def rdF : RdM α := do return FloatIO.ofHex (← rdTok)
def rdN : RdM Nat := do return (← rdTok).toNat!
def rdV : RdM (V3 α) := do
  let x ← rdF; let y ← rdF; let z ← rdF
  return ⟨x, y, z⟩
def rdA : RdM (Approx α) := do
  let l ← rdF; let h ← rdF
  return ⟨l, h⟩
def rdRay : RdM (Ray α) := do
  let o ← rdV; let d ← rdV
  return ⟨o, d⟩
def rdBox : RdM (BBox α) := do
  let a ← rdV; let b ← rdV
  return ⟨a, b⟩

def shF (x : α) : String := FloatIO.toHex x
def shB (b : Bool) : String := if b then "1" else "0"
def shV (v : V3 α) : String := s!"{shF v.x} {shF v.y} {shF v.z}"
def shA (a : Approx α) : String := s!"{shF a.low} {shF a.high}"
def shBox (b : BBox α) : String := s!"{shV b.min} {shV b.max}"
def shRay (r : Ray α) : String := s!"{shV r.origin} {shV r.direction}"
def shM4 (m : M4 α) : String :=
  " ".intercalate ([m.a00, m.a01, m.a02, m.a03, m.a10, m.a11, m.a12, m.a13,
                    m.a20, m.a21, m.a22, m.a23, m.a30, m.a31, m.a32, m.a33].map shF)
def shT (t : Transform α) : String := s!"{shM4 t.m} {shM4 t.inv}"

/-- an elementary transform: `I`, `T x y z`, `S x y z`, `RX d`, `RY d`, `RZ d` -/
def rdElem : RdM (Transform α) := do
  let k ← rdTok
  match k with
  | "T" => do let x ← rdF; let y ← rdF; let z ← rdF; return Transform.translate x y z
  | "S" => do let x ← rdF; let y ← rdF; let z ← rdF; return Transform.scale x y z
  | "RX" => do let d ← rdF; return Transform.rotateX d
  | "RY" => do let d ← rdF; return Transform.rotateY d
  | "RZ" => do let d ← rdF; return Transform.rotateZ d
  | _ => return Transform.new

/-- a chain: `n e1 … en`, composed as `t = new(); t *= e1; …; t *= en` -/
def rdChain : RdM (Transform α) := do
  let n ← rdN
  let mut t : Transform α := Transform.new
  for _ in [0:n] do
    let e ← rdElem (α := α)
    t := t.mulAssign e
  return t

/-- `consts` line: every constant the model hard-codes, as computed by the model -/
def constsLine : String :=
  " ".intercalate [shF (Num.eps : α), shF (tiny100 : α), shF (Num.maxv : α), shF (Num.pi : α),
    shF (gamma (3 : α)), shF ((1 : α) + 2 * gamma (3 : α)), shF ((1e-5 : α)), shF ((1e-7 : α)),
    shF ((1e-6 : α)), shF ((1e-8 : α)), shF ((1e-3 : α)), shF (toRadians (1 : α)), shF (toDegrees (1 : α)),
    shF ((0.5 : α)), shF ((9E14 : α)), shF ((1E19 : α)), shF ((1 : α) - (1e-8 : α))]

def runOp (op : String) : RdM String := do
  match op with
  | "consts" => return constsLine (α := α)
  -- ApproxFloat ------------------------------------------------------------
  | "nu" => do let x ← rdF (α := α); return shF (nextUp x)
  | "nd" => do let x ← rdF (α := α); return shF (nextDown x)
  | "ap.neg" => do let a ← rdA (α := α); return shA a.neg
  | "ap.sqrt" => do let a ← rdA (α := α); return shA a.sqrt
  | "ap.add" => do let a ← rdA (α := α); let b ← rdA; return shA (a.add b)
  | "ap.sub" => do let a ← rdA (α := α); let b ← rdA; return shA (a.sub b)
  | "ap.mul" => do let a ← rdA (α := α); let b ← rdA; return shA (a.mul b)
  | "ap.div" => do let a ← rdA (α := α); let b ← rdA; return shA (a.div b)
  | "ap.addF" => do let a ← rdA (α := α); let b ← rdF; return shA (a.addF b)
  | "ap.subF" => do let a ← rdA (α := α); let b ← rdF; return shA (a.subF b)
  | "ap.mulF" => do let a ← rdA (α := α); let b ← rdF; return shA (a.mulF b)
  | "ap.divF" => do let a ← rdA (α := α); let b ← rdF; return shA (a.divF b)
  | "ap.addA" => do let a ← rdA (α := α); let b ← rdA; return shA (a.addAssign b)
  | "ap.subA" => do let a ← rdA (α := α); let b ← rdA; return shA (a.subAssign b)
  | "ap.mulA" => do let a ← rdA (α := α); let b ← rdA; return shA (a.mulAssign b)
  | "ap.divA" => do let a ← rdA (α := α); let b ← rdA; return shA (a.divAssign b)
  | "ap.addAF" => do let a ← rdA (α := α); let b ← rdF; return shA (a.addAssignF b)
  | "ap.subAF" => do let a ← rdA (α := α); let b ← rdF; return shA (a.subAssignF b)
  | "ap.mulAF" => do let a ← rdA (α := α); let b ← rdF; return shA (a.mulAssignF b)
  | "ap.divAF" => do let a ← rdA (α := α); let b ← rdF; return shA (a.divAssignF b)
  | "ap.fve" => do let v ← rdF (α := α); let e ← rdF; return shA (Approx.fromValueAndError v e)
  | "ap.mid" => do let a ← rdA (α := α); return s!"{shF a.midpoint} {shF a.absoluteError}"
  | "ap.maxmin" => do
      let a ← rdF (α := α); let b ← rdF; let c ← rdF; let d ← rdF
      let r := maxMin4 a b c d
      return s!"{shF r.1} {shF r.2}"
  | "ap.solve" => do
      let a ← rdA (α := α); let b ← rdA; let c ← rdA
      match Approx.solveQuadratic a b c with
      | none => return "none"
      | some (x1, x2) => return s!"some {shA x1} {shA x2}"
  -- Transform -----------------------------------------------------------------
  | "tr.chain" => do let t ← rdChain (α := α); return shT t
  | "tr.hands" => do let t ← rdChain (α := α); return shB t.changesHands
  | "tr.pt" => do let t ← rdChain (α := α); let p ← rdV; return s!"{shV (t.transformPt p)} {shV (t.invTransformPt p)}"
  | "tr.vec" => do let t ← rdChain (α := α); let p ← rdV; return s!"{shV (t.transformVec p)} {shV (t.invTransformVec p)}"
  | "tr.nrm" => do let t ← rdChain (α := α); let p ← rdV; return s!"{shV (t.transformNormal p)} {shV (t.invTransformNormal p)}"
  | "tr.box" => do let t ← rdChain (α := α); let b ← rdBox; return s!"{shBox (t.transformBBox b)} {shBox (t.invTransformBBox b)}"
  | "tr.pterr" => do
      let t ← rdChain (α := α); let p ← rdV
      let a := Transform.ptWithError t.m p; let b := Transform.ptWithError t.inv p
      return s!"{shV a.1} {shV a.2} {shV b.1} {shV b.2}"
  | "tr.vecerr" => do
      let t ← rdChain (α := α); let p ← rdV
      let a := Transform.vecWithError t.m p; let b := Transform.vecWithError t.inv p
      return s!"{shV a.1} {shV a.2} {shV b.1} {shV b.2}"
  | "tr.ptprop" => do
      let t ← rdChain (α := α); let p ← rdV; let e ← rdV
      let a := Transform.ptPropagateError t.m p e; let b := Transform.ptPropagateError t.inv p e
      return s!"{shV a.1} {shV a.2} {shV b.1} {shV b.2}"
  | "tr.vecprop" => do
      let t ← rdChain (α := α); let p ← rdV; let e ← rdV
      let a := Transform.vecPropagateError t.m p e; let b := Transform.vecPropagateError t.inv p e
      return s!"{shV a.1} {shV a.2} {shV b.1} {shV b.2}"
  | "tr.ray" => do
      let t ← rdChain (α := α); let r ← rdRay
      let a := Transform.rayWith t.m r; let b := Transform.rayWith t.inv r
      return s!"{shRay a.1} {shV a.2.1} {shV a.2.2} {shRay b.1} {shV b.2.1} {shV b.2.2}"
  | "tr.rayprop" => do
      let t ← rdChain (α := α); let r ← rdRay; let oe ← rdV; let de ← rdV
      let a := Transform.rayPropagate t.m r oe de; let b := Transform.rayPropagate t.inv r oe de
      return s!"{shRay a.1} {shV a.2.1} {shV a.2.2} {shRay b.1} {shV b.2.1} {shV b.2.2}"
  -- BBox ------------------------------------------------------------------------
  | "bb.new" => do let a ← rdV (α := α); let b ← rdV; return shBox (BBox.new a b)
  | "bb.unionpt" => do let b ← rdBox (α := α); let p ← rdV; return shBox (b.fromUnionPoint p)
  | "bb.union" => do let a ← rdBox (α := α); let b ← rdBox; return shBox (a.fromUnion b)
  | "bb.inter" => do let a ← rdBox (α := α); let b ← rdBox; return shBox (a.fromIntersection b)
  | "bb.overlaps" => do let a ← rdBox (α := α); let b ← rdBox; return shB (a.overlaps b)
  | "bb.inside" => do let a ← rdBox (α := α); let p ← rdV; return s!"{shB (a.pointInside p)} {shB (a.pointInsideExclusive p)}"
  | "bb.misc" => do let a ← rdBox (α := α); return s!"{a.maxExtent} {shF a.surfaceArea}"
  | "bb.hit" => do let a ← rdBox (α := α); let r ← rdRay; let inv ← rdV; return shB (a.intersect r inv)
  | _ => return "unknown-op"

def processLine (line : String) : Option String :=
  match line.splitOn " => " with
  | [lhs, rhs] =>
    let toks := (lhs.splitOn " ").toArray
    let op := toks.getD 0 ""
    let (res, _) := (runOp (α := α) op).run { toks := toks, pos := 1 }
    if res == rhs then none else some s!"DIS {line} || {res}"
  | _ => some s!"BAD {line}"

end

partial def loop (h : IO.FS.Stream) (f32 : Bool) (n dis : Nat) : IO (Nat × Nat) := do
  let line ← h.getLine
  if line.isEmpty then return (n, dis)
  let line := line.trimAscii.toString
  if line.isEmpty || line.startsWith "#" then loop h f32 n dis
  else
    let r := if f32 then processLine (α := Float32) line else processLine (α := Float) line
    match r with
    | none => loop h f32 (n + 1) dis
    | some msg => do
        IO.println msg
        loop h f32 (n + 1) (dis + 1)

def driverMain (args : List String) : IO UInt32 := do
  let f32 := args.contains "f32"
  let (n, dis) ← loop (← IO.getStdin) f32 0 0
  IO.println s!"TOTAL {n} DIS {dis}"
  return 0

end G3d
