import G3d.Num
/-!
# A soft-float: IEEE-754 binary formats as integer arithmetic on *ordinals*

A format has `t` fraction bits and `w` exponent bits (52/11 for binary64, 23/8 for binary32).  A finite magnitude is
identified with its **ordinal** `m` (the low `t + w` bits of the encoding read as a natural number); its value is
`N m / 2^S`, `S = 2^(w-1) + t - 2`, where

    N m = if m / 2^t = 0 then m % 2^t else (2^t + m % 2^t) * 2^(m / 2^t - 1)

so every finite float is an integer multiple of `2^-S`.  The ordinal of `+∞` is `INF = (2^w - 1) * 2^t`.
All operations are round-to-nearest-even on exact integer/rational intermediate results.  Core Lean only; executable
(the driver compares it with the hardware bit for bit); `Proofs/SoftFloat*.lean` proves the rounding laws `Rounded`.
-/
namespace G3d

structure Fmt where
  t : Nat
  w : Nat
deriving Repr, DecidableEq

def b64 : Fmt := ⟨52, 11⟩
def b32 : Fmt := ⟨23, 8⟩

namespace Fmt
variable (F : Fmt)
/-- scale: every finite value is an integer multiple of `2^-S` -/
def S : Nat := 2 ^ (F.w - 1) + F.t - 2
/-- ordinal of infinity -/
def INF : Nat := (2 ^ F.w - 1) * 2 ^ F.t
/-- scaled value of the magnitude ordinal `m` -/
def N (m : Nat) : Nat :=
  if m / 2 ^ F.t = 0 then m % 2 ^ F.t else (2 ^ F.t + m % 2 ^ F.t) * 2 ^ (m / 2 ^ F.t - 1)
/-- the largest ordinal `m` with `N m ≤ Y` -/
def floorOrd (Y : Nat) : Nat :=
  if Y < 2 ^ (F.t + 1) then Y
  else
    let k := Nat.log2 Y - F.t
    (k + 1) * 2 ^ F.t + (Y / 2 ^ k - 2 ^ F.t)
/-- round-to-nearest-even ordinal of the non-negative rational `p / q` (in units of `2^-S`), `q > 0`; not clamped -/
def roundOrd (p q : Nat) : Nat :=
  let m := F.floorOrd (p / q)
  let mid2 := (F.N m + F.N (m + 1)) * q
  if 2 * p < mid2 then m else if mid2 < 2 * p then m + 1 else if m % 2 = 0 then m else m + 1
/-- clamp to infinity -/
def clamp (m : Nat) : Nat := if F.INF ≤ m then F.INF else m
/-- correctly rounded square root of the scaled radicand `R` (value `R / 2^(2S)`): ordinal of `rnd (√R / 2^S)` -/
def sqrtOrd (R : Nat) : Nat :=
  let m := F.floorOrd (Nat.sqrt R)
  let s := F.N m + F.N (m + 1)
  if 4 * R < s * s then m else if s * s < 4 * R then m + 1 else if m % 2 = 0 then m else m + 1
end Fmt

/-- a float of format `F`: NaN, or sign and magnitude ordinal (`m ≥ INF` is infinity) -/
inductive SF (F : Fmt) where
  | nan
  | fin (neg : Bool) (m : Nat)
deriving Repr, DecidableEq, Inhabited

namespace SF
variable {F : Fmt}

def isInf : SF F → Bool
  | fin _ m => decide (F.INF ≤ m)
  | nan => false
def isZero : SF F → Bool
  | fin _ m => m == 0
  | nan => false

def neg : SF F → SF F
  | nan => nan
  | fin s m => fin (!s) m

/-- signed ordinal: orders the non-NaN floats like their values (both zeros map to 0) -/
def key : SF F → Int
  | nan => 0
  | fin s m => if s then -(F.clamp m : Int) else (F.clamp m : Int)

def lt : SF F → SF F → Bool
  | nan, _ => false
  | _, nan => false
  | a, b => decide (key a < key b)
def le : SF F → SF F → Bool
  | nan, _ => false
  | _, nan => false
  | a, b => decide (key a ≤ key b)
def beq : SF F → SF F → Bool
  | nan, _ => false
  | _, nan => false
  | a, b => decide (key a = key b)

/-- the crate's `next_float_up` (after the repair: both zeros step to the smallest positive subnormal) -/
def nextUp : SF F → SF F
  | nan => nan
  | fin false m => if F.INF ≤ m then fin false m else fin false (m + 1)
  | fin true m => if m = 0 then fin false 1 else fin true (F.clamp m - 1)
def nextDown : SF F → SF F
  | nan => nan
  | fin true m => if F.INF ≤ m then fin true m else fin true (m + 1)
  | fin false m => if m = 0 then fin true 1 else fin false (F.clamp m - 1)

/-- scaled signed value of a finite float -/
def sval (s : Bool) (m : Nat) : Int := if s then -(F.N m : Int) else (F.N m : Int)

/-- sign/magnitude result of rounding the signed integer-scaled exact value `z / q` (`q > 0`); `zs` is the sign given to an exact zero -/
def ofExact (z : Int) (q : Nat) (zs : Bool) : SF F :=
  if z = 0 then fin zs 0
  else fin (decide (z < 0)) (F.clamp (F.roundOrd z.natAbs q))

def add : SF F → SF F → SF F
  | nan, _ => nan
  | _, nan => nan
  | fin sa ma, fin sb mb =>
    if F.INF ≤ ma then
      if F.INF ≤ mb then (if sa = sb then fin sa F.INF else nan) else fin sa F.INF
    else if F.INF ≤ mb then fin sb F.INF
    else ofExact (sval (F := F) sa ma + sval (F := F) sb mb) 1 (sa && sb)

def sub (a b : SF F) : SF F := add a (neg b)

def mul : SF F → SF F → SF F
  | nan, _ => nan
  | _, nan => nan
  | fin sa ma, fin sb mb =>
    let s := sa != sb
    if F.INF ≤ ma then (if mb = 0 then nan else fin s F.INF)
    else if F.INF ≤ mb then (if ma = 0 then nan else fin s F.INF)
    else if ma = 0 || mb = 0 then fin s 0
    else fin s (F.clamp (F.roundOrd (F.N ma * F.N mb) (2 ^ F.S)))

def div : SF F → SF F → SF F
  | nan, _ => nan
  | _, nan => nan
  | fin sa ma, fin sb mb =>
    let s := sa != sb
    if F.INF ≤ ma then (if F.INF ≤ mb then nan else fin s F.INF)
    else if F.INF ≤ mb then fin s 0
    else if mb = 0 then (if ma = 0 then nan else fin s F.INF)
    else if ma = 0 then fin s 0
    else fin s (F.clamp (F.roundOrd (F.N ma * 2 ^ F.S) (F.N mb)))

def sqrt : SF F → SF F
  | nan => nan
  | fin s m =>
    if m = 0 then fin s 0
    else if s then nan
    else if F.INF ≤ m then fin false F.INF
    else fin false (F.sqrtOrd (F.N m * 2 ^ F.S))

def abs : SF F → SF F
  | nan => nan
  | fin _ m => fin false m

/-- the float nearest to the rational `p / q` (`q > 0`) -/
def ofRat (p q : Nat) : SF F :=
  if p = 0 then fin false 0 else fin false (F.clamp (F.roundOrd (p * 2 ^ F.S) q))

def ofScientific (m : Nat) (s : Bool) (e : Nat) : SF F :=
  if s then ofRat m (10 ^ e) else ofRat (m * 10 ^ e) 1

/-- encoding as a bit pattern (sign bit, then the ordinal); NaN gets the canonical quiet NaN -/
def toBits : SF F → Nat
  | nan => F.INF + 2 ^ (F.t - 1)
  | fin s m => (if s then 2 ^ (F.t + F.w) else 0) + F.clamp m
def ofBits (b : Nat) : SF F :=
  let m := b % 2 ^ (F.t + F.w)
  let s := (b / 2 ^ (F.t + F.w)) % 2 = 1
  if F.INF < m then nan else fin s m

instance : Num (SF F) where
  add := add
  sub := sub
  mul := mul
  div := div
  neg := neg
  ofNat n := ofRat n 1
  ofSci := ofScientific
  eps := fin false ((2 ^ (F.w - 1) - 1 - F.t) * 2 ^ F.t)
  maxv := fin false (F.INF - 1)
  pi := nan
  lt := lt
  le := le
  beq := beq
  abs := abs
  sqrt := sqrt
  sin _ := nan
  cos _ := nan
  tan _ := nan
  acos _ := nan
  atan2 _ _ := nan
  toRadians _ := nan
  toDegrees _ := nan
  nextUp := nextUp
  nextDown := nextDown
  ofUsize n := ofRat n 1
  inf := fin false F.INF

end SF
end G3d
