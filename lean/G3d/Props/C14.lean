import G3d.Proofs.XR
import G3d.Props.C06
import G3d.Model.BBox
/-!
# C14 — the ray/box test never loses a ray that enters the box (exact arithmetic with ±∞ and NaN)

The model of `BBox3D::intersect` is instantiated at `XR` (reals + `±∞` + `NaN` with the IEEE special-value rules, exact finite
arithmetic).  `slab_complete`: for a well-formed finite box, a finite origin and direction, the caller-supplied reciprocal
direction (`1/dᵢ`, or `+∞`/`−∞` — either sign — where `dᵢ = 0`), **if some point `o + t·d` with `t > 0` lies in the (closed)
box then `intersect` returns `true`**: every sign pattern, zero extents, origins inside the box, axis-parallel rays, origins
exactly on a face plane (where `0·∞ = NaN` arises — the case the repaired code handles).  Rounding is not modelled here: the
`(1+2γ₃)` widening is only used as a factor `> 1`; the claim for floating-point rays within 1e-7 of grazing rests on the oracle.
-/
namespace G3d.C14
open G3d Num XR

noncomputable section

/-! ### arithmetic on `XR` as far as the slab test uses it -/

theorem sub_fin (a b : ℝ) : (fin a - fin b : XR) = fin (a + -b) := rfl
theorem mul_fin (a b : ℝ) : (fin a * fin b : XR) = fin (a * b) := rfl
theorem add_fin (a b : ℝ) : (fin a + fin b : XR) = fin (a + b) := rfl
theorem mul_fin_pinf (a : ℝ) : (fin a * pinf : XR) = sgnMul a pinf ninf := rfl
theorem mul_fin_ninf (a : ℝ) : (fin a * ninf : XR) = sgnMul a ninf pinf := rfl
theorem mul_pinf_fin (a : ℝ) : (pinf * fin a : XR) = sgnMul a pinf ninf := rfl
theorem neg_inf : (-(Num.inf : XR)) = ninf := rfl
theorem inf_eq : (Num.inf : XR) = pinf := rfl
theorem neg_pinf : (-(pinf : XR)) = ninf := rfl
theorem div_fin (a b : ℝ) (hb : b ≠ 0) : (fin a / fin b : XR) = fin (a / b) := by
  show XR.div (fin a) (fin b) = _
  simp [XR.div, hb]
theorem zero_eq : (0 : XR) = fin 0 := by show fin ((0 : ℕ) : ℝ) = _; simp
theorem one_eq : (1 : XR) = fin 1 := by show fin ((1 : ℕ) : ℝ) = _; simp
theorem two_eq : (2 : XR) = fin 2 := by show fin ((2 : ℕ) : ℝ) = _; simp
theorem three_eq : (3 : XR) = fin 3 := by show fin ((3 : ℕ) : ℝ) = _; simp

/-- the widening factor `1 + 2·γ(3)` is a finite number `> 1` -/
theorem g_spec : ∃ G : ℝ, ((1 : XR) + 2 * Num.gamma (3 : XR)) = fin G ∧ 1 < G := by
  have he : (0 : ℝ) < (2 : ℝ)⁻¹ ^ 52 := by positivity
  have hsmall : (2 : ℝ)⁻¹ ^ 52 < 1 / 8 := by
    have : ((2:ℝ)⁻¹) ^ 52 ≤ ((2:ℝ)⁻¹) ^ 4 := pow_le_pow_of_le_one (by norm_num) (by norm_num) (by norm_num)
    linarith [show ((2:ℝ)⁻¹) ^ 4 = 1 / 16 by norm_num]
  generalize hE : (2 : ℝ)⁻¹ ^ 52 = e at he hsmall
  have heps : (Num.eps : XR) = fin e := by rw [← hE]; rfl
  have hden : (1 + -(e / 2 * 3)) ≠ 0 := by linarith
  refine ⟨1 + 2 * (e / 2 * 3 / (1 + -(e / 2 * 3))), ?_, ?_⟩
  · simp only [Num.gamma, heps, one_eq, two_eq, three_eq]
    rw [div_fin _ _ (by norm_num), mul_fin, sub_fin, div_fin _ _ hden, mul_fin, add_fin]
  · have : 0 < e / 2 * 3 / (1 + -(e / 2 * 3)) := by apply div_pos <;> linarith
    linarith

/-- a non-NaN value that is `≥ t > 0` stays non-NaN and becomes `> t` when multiplied by a finite `G > 1` -/
theorem mul_g {h : XR} {t G : ℝ} (hok : Ok h) (ht : 0 < t) (hge : (t : EReal) ≤ val h) (hG : 1 < G) :
    Ok (h * fin G) ∧ (t : EReal) < val (h * fin G) := by
  cases h with
  | fin x =>
    have hx : t ≤ x := by simpa [val] using hge
    rw [mul_fin]
    refine ⟨trivial, ?_⟩
    show (t : EReal) < ((x * G : ℝ) : EReal)
    exact EReal.coe_lt_coe_iff.2 (by nlinarith)
  | pinf =>
    rw [mul_pinf_fin]
    have : (0:ℝ) < G := by linarith
    simp only [sgnMul, this, if_true]
    exact ⟨trivial, EReal.coe_lt_top t⟩
  | ninf => simp [val] at hge
  | nan => exact absurd hok (by simp [Ok])

/-! ### one slab -/

theorem swapGt_ok {a b : XR} (ha : Ok a) (hb : Ok b) :
    Ok (swapGt a b).1 ∧ Ok (swapGt a b).2 ∧ val (swapGt a b).1 = min (val a) (val b) ∧ val (swapGt a b).2 = max (val a) (val b) := by
  unfold swapGt Num.gt
  by_cases h : Num.lt b a = true
  · have := (lt_iff hb ha).1 h
    simp only [h, if_true]
    exact ⟨hb, ha, (min_eq_right (le_of_lt this)).symm, (max_eq_left (le_of_lt this)).symm⟩
  · have hn : ¬ val b < val a := fun hl => h ((lt_iff hb ha).2 hl)
    simp only [h]
    exact ⟨ha, hb, (min_eq_left (not_lt.1 hn)).symm, (max_eq_right (not_lt.1 hn)).symm⟩

/-- **one slab contains the parameter of every ray point inside it** — for a non-zero direction component with the exact
    reciprocal, and for a zero component with a reciprocal of either infinite sign (origin possibly on a slab plane). -/
theorem slab_contains {mn mx o d t : ℝ} {inv : XR} (hmn : mn ≤ o + t * d) (hmx : o + t * d ≤ mx)
    (hinv : (d ≠ 0 ∧ inv = fin (1 / d)) ∨ (d = 0 ∧ (inv = pinf ∨ inv = ninf))) :
    Ok (BBox.slabAxis (fin mn) (fin mx) (fin o) inv).1 ∧ Ok (BBox.slabAxis (fin mn) (fin mx) (fin o) inv).2 ∧
    val (BBox.slabAxis (fin mn) (fin mx) (fin o) inv).1 ≤ (t : EReal) ∧
    (t : EReal) ≤ val (BBox.slabAxis (fin mn) (fin mx) (fin o) inv).2 := by
  unfold BBox.slabAxis
  simp only [sub_fin]
  rcases hinv with ⟨hd, rfl⟩ | ⟨hd, hi⟩
  · -- finite reciprocal
    simp only [mul_fin]
    have hnan : (Num.isNaN (fin ((mn + -o) * (1 / d)) : XR) || Num.isNaN (fin ((mx + -o) * (1 / d)) : XR)) = false := by
      simp [Num.isNaN, Num.beq, XR.beq]
    simp only [hnan, Bool.false_eq_true, if_false]
    obtain ⟨o1, o2, v1, v2⟩ := swapGt_ok (a := fin ((mn + -o) * (1 / d))) (b := fin ((mx + -o) * (1 / d))) trivial trivial
    refine ⟨o1, o2, ?_, ?_⟩
    · rw [v1]; simp only [val]
      rcases lt_or_gt_of_ne hd with hneg | hpos
      · refine min_le_of_right_le (EReal.coe_le_coe_iff.2 ?_)
        rw [mul_one_div, div_le_iff_of_neg hneg]; linarith
      · refine min_le_of_left_le (EReal.coe_le_coe_iff.2 ?_)
        rw [mul_one_div, div_le_iff₀ hpos]; linarith
    · rw [v2]; simp only [val]
      rcases lt_or_gt_of_ne hd with hneg | hpos
      · refine le_max_of_le_left (EReal.coe_le_coe_iff.2 ?_)
        rw [mul_one_div, le_div_iff_of_neg hneg]; linarith
      · refine le_max_of_le_right (EReal.coe_le_coe_iff.2 ?_)
        rw [mul_one_div, le_div_iff₀ hpos]; linarith
  · -- zero direction component: the slab is the whole line
    subst hd
    have h1 : mn + -o ≤ 0 := by linarith
    have h2 : 0 ≤ mx + -o := by linarith
    have whole : ∀ p : XR × XR, p = (ninf, pinf) →
        Ok p.1 ∧ Ok p.2 ∧ val p.1 ≤ (t : EReal) ∧ (t : EReal) ≤ val p.2 := by
      rintro _ rfl; exact ⟨trivial, trivial, bot_le, le_top⟩
    apply whole
    have sw1 : swapGt (ninf : XR) pinf = (ninf, pinf) := by simp [swapGt, Num.gt, Num.lt, XR.lt]
    have sw2 : swapGt (pinf : XR) ninf = (ninf, pinf) := by simp [swapGt, Num.gt, Num.lt, XR.lt]
    rcases hi with rfl | rfl
    · simp only [mul_fin_pinf, neg_inf, inf_eq]
      rcases lt_or_eq_of_le h1 with a | a <;> rcases lt_or_eq_of_le h2 with b | b
      · have e1 : sgnMul (mn + -o) pinf ninf = ninf := by simp [sgnMul, a, not_lt.2 (le_of_lt a)]
        have e2 : sgnMul (mx + -o) pinf ninf = pinf := by simp [sgnMul, b]
        simp [e1, e2, Num.isNaN, Num.beq, XR.beq, neg_pinf, sw1]
      · have e1 : sgnMul (mn + -o) pinf ninf = ninf := by simp [sgnMul, a, not_lt.2 (le_of_lt a)]
        have e2 : sgnMul (mx + -o) pinf ninf = nan := by simp [sgnMul, ← b]
        simp [e1, e2, Num.isNaN, Num.beq, XR.beq, neg_pinf, sw1]
      · have e1 : sgnMul (mn + -o) pinf ninf = nan := by simp [sgnMul, a]
        simp [e1, Num.isNaN, Num.beq, XR.beq, neg_pinf, sw1]
      · have e1 : sgnMul (mn + -o) pinf ninf = nan := by simp [sgnMul, a]
        simp [e1, Num.isNaN, Num.beq, XR.beq, neg_pinf, sw1]
    · simp only [mul_fin_ninf, neg_inf, inf_eq]
      rcases lt_or_eq_of_le h1 with a | a <;> rcases lt_or_eq_of_le h2 with b | b
      · have e1 : sgnMul (mn + -o) ninf pinf = pinf := by simp [sgnMul, a, not_lt.2 (le_of_lt a)]
        have e2 : sgnMul (mx + -o) ninf pinf = ninf := by simp [sgnMul, b]
        simp [e1, e2, Num.isNaN, Num.beq, XR.beq, neg_pinf, sw2]
      · have e1 : sgnMul (mn + -o) ninf pinf = pinf := by simp [sgnMul, a, not_lt.2 (le_of_lt a)]
        have e2 : sgnMul (mx + -o) ninf pinf = nan := by simp [sgnMul, ← b]
        simp [e1, e2, Num.isNaN, Num.beq, XR.beq, neg_pinf, sw1]
      · have e1 : sgnMul (mn + -o) ninf pinf = nan := by simp [sgnMul, a]
        simp [e1, Num.isNaN, Num.beq, XR.beq, neg_pinf, sw1]
      · have e1 : sgnMul (mn + -o) ninf pinf = nan := by simp [sgnMul, a]
        simp [e1, Num.isNaN, Num.beq, XR.beq, neg_pinf, sw1]

/-! ### the cascade -/

theorem pick_max {a b : XR} (ha : Ok a) (hb : Ok b) :
    Ok (if Num.gt b a then b else a) ∧ val (if Num.gt b a then b else a) = max (val a) (val b) := by
  unfold Num.gt
  by_cases h : Num.lt a b = true
  · have := (lt_iff ha hb).1 h
    simp only [h, if_true]; exact ⟨hb, (max_eq_right (le_of_lt this)).symm⟩
  · have hn : ¬ val a < val b := fun hl => h ((lt_iff ha hb).2 hl)
    simp only [h]; exact ⟨ha, (max_eq_left (not_lt.1 hn)).symm⟩

theorem pick_min {a b : XR} (ha : Ok a) (hb : Ok b) :
    Ok (if Num.lt b a then b else a) ∧ val (if Num.lt b a then b else a) = min (val a) (val b) := by
  by_cases h : Num.lt b a = true
  · have := (lt_iff hb ha).1 h
    simp only [h, if_true]; exact ⟨hb, (min_eq_right (le_of_lt this)).symm⟩
  · have hn : ¬ val b < val a := fun hl => h ((lt_iff hb ha).2 hl)
    simp only [h]; exact ⟨ha, (min_eq_left (not_lt.1 hn)).symm⟩

theorem not_lt_of_le {a b : XR} (ha : Ok a) (hb : Ok b) (h : val b ≤ val a) : Num.lt a b = false := by
  by_contra hc
  have : Num.lt a b = true := by simpa using hc
  exact absurd ((lt_iff ha hb).1 this) (not_lt.2 h)

/-- three slab intervals that all contain a parameter `t > 0` pass the cascade -/
theorem cascade_true {G t : ℝ} (hG : 1 < G) (ht : 0 < t) {tx ty tz : XR × XR}
    (hx : Ok tx.1 ∧ Ok tx.2 ∧ val tx.1 ≤ (t : EReal) ∧ (t : EReal) ≤ val tx.2)
    (hy : Ok ty.1 ∧ Ok ty.2 ∧ val ty.1 ≤ (t : EReal) ∧ (t : EReal) ≤ val ty.2)
    (hz : Ok tz.1 ∧ Ok tz.2 ∧ val tz.1 ≤ (t : EReal) ∧ (t : EReal) ≤ val tz.2) :
    BBox.slabCascade (fin G) tx ty tz = true := by
  obtain ⟨x1, x2, x3, x4⟩ := hx
  obtain ⟨y1, y2, y3, y4⟩ := hy
  obtain ⟨z1, z2, z3, z4⟩ := hz
  have zok : Ok (0 : XR) := by rw [zero_eq]; trivial
  have zval : val (0 : XR) = ((0 : ℝ) : EReal) := by rw [zero_eq]; rfl
  have tpos : ((0 : ℝ) : EReal) < (t : EReal) := EReal.coe_lt_coe_iff.2 ht
  have gx := mul_g x2 ht x4 hG
  have gy := mul_g y2 ht y4 hG
  have gz := mul_g z2 ht z4 hG
  -- the three early exits `t?_max < 0` do not fire
  have e1 : Num.lt tx.2 (0 : XR) = false := not_lt_of_le x2 zok (by rw [zval]; exact le_trans (le_of_lt tpos) x4)
  have e2 : Num.lt ty.2 (0 : XR) = false := not_lt_of_le y2 zok (by rw [zval]; exact le_trans (le_of_lt tpos) y4)
  have e3 : Num.lt tz.2 (0 : XR) = false := not_lt_of_le z2 zok (by rw [zval]; exact le_trans (le_of_lt tpos) z4)
  -- x/y overlap
  have e4 : Num.gt tx.1 (ty.2 * fin G) = false :=
    not_lt_of_le gy.1 x1 (le_trans x3 (le_of_lt gy.2))
  have e5 : Num.gt ty.1 (tx.2 * fin G) = false :=
    not_lt_of_le gx.1 y1 (le_trans y3 (le_of_lt gx.2))
  obtain ⟨m1ok, m1v⟩ := pick_max (a := tx.1) (b := ty.1) x1 y1
  obtain ⟨n1ok, n1v⟩ := pick_min (a := tx.2 * fin G) (b := ty.2 * fin G) gx.1 gy.1
  have m1le : val (if Num.gt ty.1 tx.1 then ty.1 else tx.1) ≤ (t : EReal) := by rw [m1v]; exact max_le x3 y3
  have n1gt : (t : EReal) < val (if Num.lt (ty.2 * fin G) (tx.2 * fin G) then ty.2 * fin G else tx.2 * fin G) := by
    rw [n1v]; exact lt_min gx.2 gy.2
  have e6 : Num.gt (if Num.gt ty.1 tx.1 then ty.1 else tx.1) (tz.2 * fin G) = false :=
    not_lt_of_le gz.1 m1ok (le_trans m1le (le_of_lt gz.2))
  have e7 : Num.gt tz.1 (if Num.lt (ty.2 * fin G) (tx.2 * fin G) then ty.2 * fin G else tx.2 * fin G) = false :=
    not_lt_of_le n1ok z1 (le_trans z3 (le_of_lt n1gt))
  obtain ⟨m2ok, m2v⟩ := pick_max (a := (if Num.gt ty.1 tx.1 then ty.1 else tx.1)) (b := tz.1) m1ok z1
  obtain ⟨n2ok, n2v⟩ := pick_min (a := (if Num.lt (ty.2 * fin G) (tx.2 * fin G) then ty.2 * fin G else tx.2 * fin G))
    (b := tz.2 * fin G) n1ok gz.1
  have m2le : val (if Num.gt tz.1 (if Num.gt ty.1 tx.1 then ty.1 else tx.1) then tz.1
      else (if Num.gt ty.1 tx.1 then ty.1 else tx.1)) ≤ (t : EReal) := by rw [m2v]; exact max_le m1le z3
  have n2gt : (t : EReal) < val (if Num.lt (tz.2 * fin G)
      (if Num.lt (ty.2 * fin G) (tx.2 * fin G) then ty.2 * fin G else tx.2 * fin G) then tz.2 * fin G
      else (if Num.lt (ty.2 * fin G) (tx.2 * fin G) then ty.2 * fin G else tx.2 * fin G)) := by
    rw [n2v]; exact lt_min n1gt gz.2
  have f1 := (lt_iff m2ok n2ok).2 (lt_of_le_of_lt m2le n2gt)
  have f2 := (lt_iff zok n2ok).2 (by rw [zval]; exact lt_trans tpos n2gt)
  unfold BBox.slabCascade
  simp only [Num.gt] at e4 e5 e6 e7 f1 f2 ⊢
  simp only [e1, e2, e3, e4, e5, e6, e7, f1, f2, Bool.false_eq_true, if_false, Bool.or_false, Bool.and_self]

/-- **the ray/box test never loses a ray that enters the box** -/
theorem slab_complete {bmin bmax o d : V3 ℝ} {inv : V3 XR} {t : ℝ} (ht : 0 < t)
    (hx : bmin.x ≤ o.x + t * d.x ∧ o.x + t * d.x ≤ bmax.x)
    (hy : bmin.y ≤ o.y + t * d.y ∧ o.y + t * d.y ≤ bmax.y)
    (hz : bmin.z ≤ o.z + t * d.z ∧ o.z + t * d.z ≤ bmax.z)
    (ix : (d.x ≠ 0 ∧ inv.x = fin (1 / d.x)) ∨ (d.x = 0 ∧ (inv.x = pinf ∨ inv.x = ninf)))
    (iy : (d.y ≠ 0 ∧ inv.y = fin (1 / d.y)) ∨ (d.y = 0 ∧ (inv.y = pinf ∨ inv.y = ninf)))
    (iz : (d.z ≠ 0 ∧ inv.z = fin (1 / d.z)) ∨ (d.z = 0 ∧ (inv.z = pinf ∨ inv.z = ninf))) :
    BBox.intersect (α := XR)
      ⟨⟨fin bmin.x, fin bmin.y, fin bmin.z⟩, ⟨fin bmax.x, fin bmax.y, fin bmax.z⟩⟩
      ⟨⟨fin o.x, fin o.y, fin o.z⟩, ⟨fin d.x, fin d.y, fin d.z⟩⟩ inv = true := by
  obtain ⟨G, hG, hG1⟩ := g_spec
  unfold BBox.intersect
  rw [hG]
  exact cascade_true hG1 ht (slab_contains hx.1 hx.2 ix) (slab_contains hy.1 hy.2 iy) (slab_contains hz.1 hz.2 iz)

/-- non-vacuity: the configuration that the pre-repair code lost (unit cube, origin on the face plane `x = 0`, ray along `+y`) -/
example : BBox.intersect (α := XR) ⟨⟨fin 0, fin 0, fin 0⟩, ⟨fin 1, fin 1, fin 1⟩⟩
    ⟨⟨fin 0, fin (-1), fin (1/2)⟩, ⟨fin 0, fin 1, fin 0⟩⟩ ⟨pinf, fin (1 / 1), pinf⟩ = true :=
  slab_complete (bmin := ⟨0, 0, 0⟩) (bmax := ⟨1, 1, 1⟩) (o := ⟨0, -1, 1/2⟩) (d := ⟨0, 1, 0⟩) (t := 3/2) (by norm_num)
    (by norm_num) (by norm_num) (by norm_num) (Or.inr ⟨rfl, Or.inl rfl⟩) (Or.inl ⟨by norm_num, rfl⟩) (Or.inr ⟨rfl, Or.inl rfl⟩)

end
end G3d.C14
