import G3d.Props.C15
/-!
# C15 — the box lattice (exact semantics): unions are *least* boxes, intersections *greatest*

`C15.lean` shows that unions contain and intersections are contained.  This file adds the converse direction and the
algebraic laws a BVH builder relies on when it folds boxes in an arbitrary order: the union is the least
well-formed box containing both arguments (so a union that over-grows is also a departure from the model), union and
intersection are commutative, associative and idempotent, a fold of unions contains every member whatever the order,
`from_union_point` is the union with the degenerate box of the point, `new` gives the least box of its two corners,
and `max_extent` really names a longest axis, `surface_area` is that of the box.  Last section: `transform_bbox` gives the
*least* box around the images of the corners (`bboxWith_least`), hence around the image of the box, and is monotone.
-/
namespace G3d.C15
open G3d Num

/-- `a ⊆ b` for boxes, coordinatewise -/
def Sub (a b : BBox ℝ) : Prop :=
  b.min.x ≤ a.min.x ∧ a.max.x ≤ b.max.x ∧ b.min.y ≤ a.min.y ∧ a.max.y ≤ b.max.y ∧ b.min.z ≤ a.min.z ∧ a.max.z ≤ b.max.z

theorem sub_contains {a b : BBox ℝ} (h : Sub a b) {p : V3 ℝ} (hp : Contains a p) : Contains b p := by
  obtain ⟨h1, h2, h3, h4, h5, h6⟩ := h
  obtain ⟨p1, p2, p3, p4, p5, p6⟩ := hp
  exact ⟨by linarith, by linarith, by linarith, by linarith, by linarith, by linarith⟩

/-- for a well-formed box, coordinatewise inclusion is the same as inclusion of point sets -/
theorem sub_iff_contains {a b : BBox ℝ} (ha : WF a) : Sub a b ↔ ∀ p, Contains a p → Contains b p := by
  constructor
  · intro h p hp; exact sub_contains h hp
  · intro h
    obtain ⟨w1, w2, w3⟩ := ha
    have hmin := h a.min ⟨le_refl _, w1, le_refl _, w2, le_refl _, w3⟩
    have hmax := h a.max ⟨w1, le_refl _, w2, le_refl _, w3, le_refl _⟩
    exact ⟨hmin.1, hmax.2.1, hmin.2.2.1, hmax.2.2.2.1, hmin.2.2.2.2.1, hmax.2.2.2.2.2⟩

theorem union_wf {a b : BBox ℝ} (ha : WF a) : WF (a.fromUnion b) := by
  obtain ⟨w1, w2, w3⟩ := ha
  simp only [WF, BBox.fromUnion, swapGt_fst, swapGt_snd]
  exact ⟨le_trans (min_le_left _ _) (le_trans w1 (le_max_left _ _)),
    le_trans (min_le_left _ _) (le_trans w2 (le_max_left _ _)),
    le_trans (min_le_left _ _) (le_trans w3 (le_max_left _ _))⟩

theorem sub_union_left (a b : BBox ℝ) : Sub a (a.fromUnion b) := by
  simp only [Sub, BBox.fromUnion, swapGt_fst, swapGt_snd]
  exact ⟨min_le_left _ _, le_max_left _ _, min_le_left _ _, le_max_left _ _, min_le_left _ _, le_max_left _ _⟩

theorem sub_union_right (a b : BBox ℝ) : Sub b (a.fromUnion b) := by
  simp only [Sub, BBox.fromUnion, swapGt_fst, swapGt_snd]
  exact ⟨min_le_right _ _, le_max_right _ _, min_le_right _ _, le_max_right _ _, min_le_right _ _, le_max_right _ _⟩

/-- **the union is the least box**: any box that contains both arguments contains their union -/
theorem union_least {a b c : BBox ℝ} (ha : Sub a c) (hb : Sub b c) : Sub (a.fromUnion b) c := by
  obtain ⟨a1, a2, a3, a4, a5, a6⟩ := ha
  obtain ⟨b1, b2, b3, b4, b5, b6⟩ := hb
  simp only [Sub, BBox.fromUnion, swapGt_fst, swapGt_snd]
  exact ⟨le_min a1 b1, max_le a2 b2, le_min a3 b3, max_le a4 b4, le_min a5 b5, max_le a6 b6⟩

/-- **the intersection is the greatest box** inside both -/
theorem inter_greatest {a b c : BBox ℝ} (ha : Sub c a) (hb : Sub c b) : Sub c (a.fromIntersection b) := by
  obtain ⟨a1, a2, a3, a4, a5, a6⟩ := ha
  obtain ⟨b1, b2, b3, b4, b5, b6⟩ := hb
  simp only [Sub, BBox.fromIntersection, swapGt_fst, swapGt_snd]
  exact ⟨max_le a1 b1, le_min a2 b2, max_le a3 b3, le_min a4 b4, max_le a5 b5, le_min a6 b6⟩

theorem union_comm (a b : BBox ℝ) : a.fromUnion b = b.fromUnion a := by
  simp only [BBox.fromUnion, swapGt_fst, swapGt_snd, min_comm, max_comm]

theorem union_assoc (a b c : BBox ℝ) : (a.fromUnion b).fromUnion c = a.fromUnion (b.fromUnion c) := by
  simp only [BBox.fromUnion, swapGt_fst, swapGt_snd, min_assoc, max_assoc]

theorem union_idem (a : BBox ℝ) : a.fromUnion a = a := by
  simp only [BBox.fromUnion, swapGt_fst, swapGt_snd, min_self, max_self]

theorem inter_comm (a b : BBox ℝ) : a.fromIntersection b = b.fromIntersection a := by
  simp only [BBox.fromIntersection, swapGt_fst, swapGt_snd, min_comm, max_comm]

theorem inter_assoc (a b c : BBox ℝ) :
    (a.fromIntersection b).fromIntersection c = a.fromIntersection (b.fromIntersection c) := by
  simp only [BBox.fromIntersection, swapGt_fst, swapGt_snd, min_assoc, max_assoc]

theorem inter_idem (a : BBox ℝ) : a.fromIntersection a = a := by
  simp only [BBox.fromIntersection, swapGt_fst, swapGt_snd, min_self, max_self]

/-- absorption: a box that already contains `b` is unchanged by the union with it -/
theorem union_absorb {a b : BBox ℝ} (h : Sub b a) : a.fromUnion b = a := by
  obtain ⟨h1, h2, h3, h4, h5, h6⟩ := h
  simp only [BBox.fromUnion, swapGt_fst, swapGt_snd, min_eq_left h1, max_eq_left h2, min_eq_left h3, max_eq_left h4,
    min_eq_left h5, max_eq_left h6]

/-- `from_union_point` is the union with the degenerate box of the point -/
theorem unionPoint_eq_union (b : BBox ℝ) (p : V3 ℝ) : b.fromUnionPoint p = b.fromUnion (BBox.fromPoint p) := rfl

/-- a fold of unions (a BVH node's bounds) contains every member, in whatever order the members come -/
theorem foldl_union_contains (bs : List (BBox ℝ)) (acc : BBox ℝ) :
    Sub acc (bs.foldl BBox.fromUnion acc) ∧ ∀ b ∈ bs, Sub b (bs.foldl BBox.fromUnion acc) := by
  induction bs generalizing acc with
  | nil => exact ⟨⟨le_refl _, le_refl _, le_refl _, le_refl _, le_refl _, le_refl _⟩, by simp⟩
  | cons x xs ih =>
    obtain ⟨h1, h2⟩ := ih (acc.fromUnion x)
    have tr : ∀ {u v w : BBox ℝ}, Sub u v → Sub v w → Sub u w := by
      rintro u v w ⟨a1, a2, a3, a4, a5, a6⟩ ⟨b1, b2, b3, b4, b5, b6⟩
      exact ⟨by linarith, by linarith, by linarith, by linarith, by linarith, by linarith⟩
    refine ⟨tr (sub_union_left acc x) h1, ?_⟩
    intro b hb
    rcases List.mem_cons.1 hb with rfl | hb
    · exact tr (sub_union_right acc b) h1
    · exact h2 b hb

/-- … and is the least such box -/
theorem foldl_union_least (bs : List (BBox ℝ)) (acc c : BBox ℝ) (hacc : Sub acc c) (h : ∀ b ∈ bs, Sub b c) :
    Sub (bs.foldl BBox.fromUnion acc) c := by
  induction bs generalizing acc with
  | nil => exact hacc
  | cons x xs ih =>
    exact ih (acc.fromUnion x) (union_least hacc (h x (by simp))) (fun b hb => h b (by simp [hb]))

/-- `new` gives a well-formed box, whatever the order of the corners -/
theorem new_wf (a b : V3 ℝ) : WF (BBox.new a b) := by
  simp only [WF, BBox.new, swapGt_fst, swapGt_snd]
  exact ⟨min_le_max, min_le_max, min_le_max⟩

theorem new_comm (a b : V3 ℝ) : BBox.new a b = BBox.new b a := by
  simp only [BBox.new, swapGt_fst, swapGt_snd, min_comm, max_comm]

/-- `new a b` is the least box containing both corners -/
theorem new_least {a b : V3 ℝ} {c : BBox ℝ} (ha : Contains c a) (hb : Contains c b) : Sub (BBox.new a b) c := by
  obtain ⟨a1, a2, a3, a4, a5, a6⟩ := ha
  obtain ⟨b1, b2, b3, b4, b5, b6⟩ := hb
  simp only [Sub, BBox.new, swapGt_fst, swapGt_snd]
  exact ⟨le_min a1 b1, max_le a2 b2, le_min a3 b3, max_le a4 b4, le_min a5 b5, max_le a6 b6⟩

/-- `max_extent` names an axis along which the box is longest -/
theorem maxExtent_is_longest (b : BBox ℝ) :
    let d : V3 ℝ := b.max - b.min
    (b.maxExtent = 0 → d.y ≤ d.x ∧ d.z ≤ d.x) ∧ (b.maxExtent = 1 → d.x ≤ d.y ∧ d.z ≤ d.y) ∧
    (b.maxExtent = 2 → d.x ≤ d.z ∧ d.y ≤ d.z) ∧ b.maxExtent ≤ 2 := by
  intro d
  have hd : d = b.max - b.min := rfl
  unfold BBox.maxExtent
  simp only [← hd]
  by_cases h1 : d.y < d.x <;> by_cases h2 : d.z < d.x <;> by_cases h3 : d.z < d.y <;>
    simp [h1, h2, h3, real_gt] <;> (try constructor) <;> linarith

/-- the surface area of a well-formed box is non-negative and is `2(wh + wd + hd)` -/
theorem surfaceArea_nonneg {b : BBox ℝ} (h : WF b) : 0 ≤ b.surfaceArea := by
  obtain ⟨w1, w2, w3⟩ := h
  unfold BBox.surfaceArea
  have e : ∀ u v : V3 ℝ, (u - v).x = u.x - v.x ∧ (u - v).y = u.y - v.y ∧ (u - v).z = u.z - v.z := by
    intro u v; exact ⟨rfl, rfl, rfl⟩
  simp only [(e _ _).1, (e _ _).2.1, (e _ _).2.2]
  have hx : 0 ≤ b.max.x - b.min.x := by linarith
  have hy : 0 ≤ b.max.y - b.min.y := by linarith
  have hz : 0 ≤ b.max.z - b.min.z := by linarith
  have := mul_nonneg hx hy; have := mul_nonneg hx hz; have := mul_nonneg hy hz
  show (0:ℝ) ≤ (2:ℝ) * _
  linarith

/-- surface area is monotone under inclusion (the SAH heuristic's premise) -/
theorem surfaceArea_mono {a b : BBox ℝ} (ha : WF a) (h : Sub a b) : a.surfaceArea ≤ b.surfaceArea := by
  obtain ⟨w1, w2, w3⟩ := ha
  obtain ⟨h1, h2, h3, h4, h5, h6⟩ := h
  unfold BBox.surfaceArea
  have e : ∀ u v : V3 ℝ, (u - v).x = u.x - v.x ∧ (u - v).y = u.y - v.y ∧ (u - v).z = u.z - v.z := by
    intro u v; exact ⟨rfl, rfl, rfl⟩
  simp only [(e _ _).1, (e _ _).2.1, (e _ _).2.2]
  have ax : 0 ≤ a.max.x - a.min.x := by linarith
  have ay : 0 ≤ a.max.y - a.min.y := by linarith
  have az : 0 ≤ a.max.z - a.min.z := by linarith
  have dx : a.max.x - a.min.x ≤ b.max.x - b.min.x := by linarith
  have dy : a.max.y - a.min.y ≤ b.max.y - b.min.y := by linarith
  have dz : a.max.z - a.min.z ≤ b.max.z - b.min.z := by linarith
  have m1 := mul_le_mul dx dy ay (by linarith)
  have m2 := mul_le_mul dx dz az (by linarith)
  have m3 := mul_le_mul dy dz az (by linarith)
  show (2:ℝ) * _ ≤ (2:ℝ) * _
  linarith

/-! ## the transformed box is tight -/

theorem sub_refl (a : BBox ℝ) : Sub a a := ⟨le_refl _, le_refl _, le_refl _, le_refl _, le_refl _, le_refl _⟩

theorem sub_trans {u v w : BBox ℝ} : Sub u v → Sub v w → Sub u w := by
  rintro ⟨a1, a2, a3, a4, a5, a6⟩ ⟨b1, b2, b3, b4, b5, b6⟩
  exact ⟨by linarith, by linarith, by linarith, by linarith, by linarith, by linarith⟩

theorem sub_antisymm {a b : BBox ℝ} (h1 : Sub a b) (h2 : Sub b a) : a = b := by
  obtain ⟨a1, a2, a3, a4, a5, a6⟩ := h1
  obtain ⟨b1, b2, b3, b4, b5, b6⟩ := h2
  rcases a with ⟨⟨x0, y0, z0⟩, ⟨x1, y1, z1⟩⟩
  rcases b with ⟨⟨u0, v0, w0⟩, ⟨u1, v1, w1⟩⟩
  simp only at a1 a2 a3 a4 a5 a6 b1 b2 b3 b4 b5 b6
  simp only [BBox.mk.injEq, V3.mk.injEq]
  exact ⟨⟨le_antisymm b1 a1, le_antisymm b3 a3, le_antisymm b5 a5⟩, le_antisymm a2 b2, le_antisymm a4 b4, le_antisymm a6 b6⟩

theorem fromPoint_sub_iff (p : V3 ℝ) (c : BBox ℝ) : Sub (BBox.fromPoint p) c ↔ Contains c p := by
  simp only [Sub, Contains, BBox.fromPoint]

theorem unionPoint_least {b c : BBox ℝ} {p : V3 ℝ} (hb : Sub b c) (hp : Contains c p) : Sub (b.fromUnionPoint p) c := by
  rw [unionPoint_eq_union]; exact union_least hb ((fromPoint_sub_iff p c).2 hp)

/-- **the transformed box is tight**: any box that contains the images of the eight corners contains `transform_bbox`'s result;
    so the result is the least box around the image of the box (an implementation that pads or adds a stray point departs) -/
theorem bboxWith_least (m : M4 ℝ) (b c : BBox ℝ)
    (h : ∀ cx ∈ ({b.min.x, b.max.x} : Set ℝ), ∀ cy ∈ ({b.min.y, b.max.y} : Set ℝ), ∀ cz ∈ ({b.min.z, b.max.z} : Set ℝ),
      Contains c (m.mulPoint ⟨cx, cy, cz⟩)) : Sub (Transform.bboxWith m b) c := by
  unfold Transform.bboxWith
  have L : ∀ x, x ∈ ({b.min.x, b.max.x} : Set ℝ) ↔ (x = b.min.x ∨ x = b.max.x) := by intro x; simp
  have hmn : ∀ {s t : ℝ}, s ∈ ({s, t} : Set ℝ) := by intro s t; simp
  have hmx : ∀ {s t : ℝ}, t ∈ ({s, t} : Set ℝ) := by intro s t; simp
  refine unionPoint_least (unionPoint_least (unionPoint_least (unionPoint_least (unionPoint_least (unionPoint_least
    (unionPoint_least ((fromPoint_sub_iff _ _).2 ?_) ?_) ?_) ?_) ?_) ?_) ?_) ?_
  · exact h _ hmn _ hmn _ hmn
  · exact h _ hmx _ hmn _ hmn
  · exact h _ hmn _ hmx _ hmn
  · exact h _ hmn _ hmn _ hmx
  · exact h _ hmn _ hmx _ hmx
  · exact h _ hmx _ hmx _ hmn
  · exact h _ hmx _ hmn _ hmx
  · exact h _ hmx _ hmx _ hmx

/-- for a well-formed box: the transformed box is the least box containing the image of every point -/
theorem bboxWith_least_image {m : M4 ℝ} {b c : BBox ℝ} (hb : WF b)
    (h : ∀ p, Contains b p → Contains c (m.mulPoint p)) : Sub (Transform.bboxWith m b) c := by
  obtain ⟨w1, w2, w3⟩ := hb
  apply bboxWith_least
  intro cx hx cy hy cz hz
  simp only [Set.mem_insert_iff, Set.mem_singleton_iff] at hx hy hz
  apply h
  rcases hx with rfl | rfl <;> rcases hy with rfl | rfl <;> rcases hz with rfl | rfl <;>
    exact ⟨by first | exact le_refl _ | assumption, by first | exact le_refl _ | assumption,
      by first | exact le_refl _ | assumption, by first | exact le_refl _ | assumption,
      by first | exact le_refl _ | assumption, by first | exact le_refl _ | assumption⟩

/-- the transformed box only depends on the point set: it is monotone in the box -/
theorem bboxWith_mono {m : M4 ℝ} (hm : M4.Affine m) {a b : BBox ℝ} (ha : WF a) (h : Sub a b) :
    Sub (Transform.bboxWith m a) (Transform.bboxWith m b) :=
  bboxWith_least_image ha (fun _ hp => bbox_contains_image hm (sub_contains h hp))


/-! ## intersection and overlap -/

/-- the intersection box is well formed exactly when the boxes overlap (otherwise `from_intersection` returns an inverted,
    empty box: callers must test `overlaps` first) -/
theorem inter_wf_iff_overlaps {a b : BBox ℝ} (ha : WF a) (hb : WF b) :
    WF (a.fromIntersection b) ↔ a.overlaps b = true := by
  obtain ⟨a1, a2, a3⟩ := ha
  obtain ⟨b1, b2, b3⟩ := hb
  simp only [WF, BBox.fromIntersection, swapGt_fst, swapGt_snd, BBox.overlaps, Bool.and_eq_true, real_ge, real_le,
    max_le_iff, le_min_iff]
  constructor
  · rintro ⟨⟨⟨_, x2⟩, x3, _⟩, ⟨⟨_, y2⟩, y3, _⟩, ⟨_, z2⟩, z3, _⟩
    exact ⟨⟨⟨x2, x3⟩, y2, y3⟩, z2, z3⟩
  · rintro ⟨⟨⟨x1, x2⟩, y1, y2⟩, z1, z2⟩
    exact ⟨⟨⟨a1, x1⟩, x2, b1⟩, ⟨⟨a2, y1⟩, y2, b2⟩, ⟨a3, z1⟩, z2, b3⟩

/-- a non-overlapping pair has an empty intersection box: it contains no point -/
theorem inter_empty_of_not_overlaps {a b : BBox ℝ} (ha : WF a) (hb : WF b) (h : a.overlaps b = false) (p : V3 ℝ) :
    ¬ Contains (a.fromIntersection b) p := by
  intro hp
  have := (overlaps_iff_common_point ha hb).2 ⟨p, (inter_contains_iff a b p).1 hp⟩
  rw [h] at this; exact Bool.false_ne_true this

/-- `point_inside` is `overlaps` with the degenerate box of the point -/
theorem pointInside_eq_overlaps_fromPoint (b : BBox ℝ) (p : V3 ℝ) :
    b.pointInside p = b.overlaps (BBox.fromPoint p) := by
  rw [Bool.eq_iff_iff]
  simp only [BBox.pointInside, BBox.overlaps, BBox.fromPoint, Bool.and_eq_true, real_ge, real_le]
  tauto

/-- overlap is monotone: enlarging either box keeps an overlap -/
theorem overlaps_mono {a a' b : BBox ℝ} (h : Sub a a') (ho : a.overlaps b = true) : a'.overlaps b = true := by
  obtain ⟨h1, h2, h3, h4, h5, h6⟩ := h
  simp only [BBox.overlaps, Bool.and_eq_true, real_ge, real_le] at ho ⊢
  obtain ⟨⟨⟨x1, x2⟩, y1, y2⟩, z1, z2⟩ := ho
  exact ⟨⟨⟨by linarith, by linarith⟩, by linarith, by linarith⟩, by linarith, by linarith⟩


/-! ## boxes of point clouds -/

/-- the box of a point cloud (fold of `from_union_point`) contains every point, in whatever order they come … -/
theorem foldl_unionPoint_contains (ps : List (V3 ℝ)) (acc : BBox ℝ) :
    Sub acc (ps.foldl BBox.fromUnionPoint acc) ∧ ∀ p ∈ ps, Contains (ps.foldl BBox.fromUnionPoint acc) p := by
  have e : ps.foldl BBox.fromUnionPoint acc = (ps.map BBox.fromPoint).foldl BBox.fromUnion acc := by
    rw [List.foldl_map]; rfl
  rw [e]
  obtain ⟨h1, h2⟩ := foldl_union_contains (ps.map BBox.fromPoint) acc
  refine ⟨h1, fun p hp => ?_⟩
  exact (fromPoint_sub_iff p _).1 (h2 _ (List.mem_map.2 ⟨p, hp, rfl⟩))

/-- … and is the least box doing so -/
theorem foldl_unionPoint_least (ps : List (V3 ℝ)) (acc c : BBox ℝ) (hacc : Sub acc c) (h : ∀ p ∈ ps, Contains c p) :
    Sub (ps.foldl BBox.fromUnionPoint acc) c := by
  have e : ps.foldl BBox.fromUnionPoint acc = (ps.map BBox.fromPoint).foldl BBox.fromUnion acc := by
    rw [List.foldl_map]; rfl
  rw [e]
  apply foldl_union_least _ _ _ hacc
  intro b hb
  obtain ⟨p, hp, rfl⟩ := List.mem_map.1 hb
  exact (fromPoint_sub_iff p c).2 (h p hp)


/-- non-vacuity: a concrete pair of boxes, their union and a third box above both -/
example : Sub (BBox.fromUnion ⟨⟨0, 0, 0⟩, ⟨1, 1, 1⟩⟩ ⟨⟨2, -1, 0⟩, ⟨3, 0, 0⟩⟩ : BBox ℝ) ⟨⟨-1, -1, -1⟩, ⟨3, 1, 1⟩⟩ :=
  union_least (by simp [Sub]) (by simp [Sub]; norm_num)

end G3d.C15
