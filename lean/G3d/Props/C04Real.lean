import G3d.Props.C04
import G3d.Proofs.VecLemmas
/-!
# C04 over ℝ — what the coplanarity gate of `valid_to_add` means

With a plane known (cached unit normal `n`, first vertex `v₀`), a point is accepted only if `|n·(v₀ − p)| < 1e-7`, i.e. only if
it lies within `1e-7 / |n|` of the plane through `v₀` perpendicular to `n`; a point farther away is refused and the loop is
unchanged. (What `intersect` means for the crossing test is C19.)
-/
namespace G3d.C04
open G3d Num

noncomputable section

theorem isCoplanar_real (l : Loop ℝ) (p v0 : V3 ℝ) (rest : List (V3 ℝ)) (hv : l.vertices = v0 :: rest)
    (hz : l.normal.isZero = false) :
    l.isCoplanar p = .ok (decide (|l.normal.dot (v0 - p)| < 1e-7)) := by
  unfold Loop.isCoplanar
  rw [hv]
  simp only [hz, Bool.false_eq_true, if_false, real_lt_dec]
  num_real
  rfl

/-- **a point off the loop's plane is refused, and the loop is unchanged** -/
theorem off_plane_refused (l : Loop ℝ) (p v0 : V3 ℝ) (rest : List (V3 ℝ)) (hv : l.vertices = v0 :: rest)
    (hz : l.normal.isZero = false) (hc : l.closed = false) (hoff : 1e-7 ≤ |l.normal.dot (v0 - p)|) :
    l.push p = (l, .err "loop3d.rs:valid_to_add:non-coplanar") := by
  have h := isCoplanar_real l p v0 rest hv hz
  have hd : decide (|l.normal.dot (v0 - p)| < 1e-7) = false := by
    simp only [decide_eq_false_iff_not, not_lt]; exact hoff
  rw [hd] at h
  simp [Loop.push, Loop.validToAdd, hc, hz, h]

/-- **an accepted point lies in the loop's plane** (within the gate's tolerance), for every loop with a known plane -/
theorem accepted_in_plane (l : Loop ℝ) (p v0 : V3 ℝ) (rest : List (V3 ℝ)) (hv : l.vertices = v0 :: rest)
    (hz : l.normal.isZero = false) (hok : (l.push p).2 = .ok ()) :
    |l.normal.dot (v0 - p)| < 1e-7 := by
  rw [push_ok_iff_valid, validToAdd_ok_iff] at hok
  have h := hok.2.1 hz
  rw [isCoplanar_real l p v0 rest hv hz] at h
  simpa using h

/-- the premises are satisfiable: the unit square in `z = 0` with its normal, and a point 1 above it -/
example : (⟨[⟨0,0,0⟩, ⟨1,0,0⟩, ⟨1,1,0⟩], ⟨0,0,1⟩, false, -1, -1⟩ : Loop ℝ).push ⟨0, 1, 1⟩
    = (⟨[⟨0,0,0⟩, ⟨1,0,0⟩, ⟨1,1,0⟩], ⟨0,0,1⟩, false, -1, -1⟩, .err "loop3d.rs:valid_to_add:non-coplanar") := by
  apply off_plane_refused _ _ ⟨0,0,0⟩ [⟨1,0,0⟩, ⟨1,1,0⟩] rfl
  · simp only [V3.isZero, tiny100, real_lt_dec]
    num_real
    norm_num
  · rfl
  · vec_real; norm_num

end
end G3d.C04
