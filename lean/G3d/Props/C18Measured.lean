import G3d.Props.C01Plane
import G3d.Props.C18
/-!
# C18 — the bound is about the triangles themselves, not about a cache

`refine` compares the aspect ratio each slot *cached* when it was built.  With the per-slot invariant logic of `C01Plane`
(`Tr`, `meshPolygon_allQ`): in every mesh that `mesh_polygon` returns, every slot's cached value is `aspect_ratio()` of the
triangle stored in that slot (`meshPolygon_cachedAR`) — no mutator ever touches one without the other — hence
`meshPolygon_ok_bound_measured`: a successful `mesh_polygon` leaves only live triangles that are below the area floor or whose own
`aspect_ratio()` is within the requested bound.  Over ℝ, `C19.aspectRatio_eq` identifies that value with circumradius over
shortest edge.
-/
namespace G3d.C18M
open G3d Num Mesh MeshM C08S C01P
section generic
variable {α : Type} [Num α]
set_option linter.unusedSectionVars false

/-- the slot's cached aspect ratio is `Triangle3D::aspect_ratio()` of its triangle -/
def CachedAR (t : TriPiece α) : Prop := t.aspectRatio = t.triangle.aspectRatio

theorem pq_cachedAR : PQ (fun _ : V3 α => True) (CachedAR (α := α)) where
  setN := by intro t e i h; cases e <;> exact h
  con := by intro t e h; cases e <;> exact h
  inv := by intro t h; exact h
  corners := by intro t _; exact ⟨trivial, trivial, trivial⟩
  cached := by intro t _; exact ⟨trivial, trivial⟩
  mid := by intro s _ _; trivial
  new := by intro a b c i tp _ _ _ h; exact (C18.TriPiece.new_aspectRatio a b c i tp h).1

/-- **in every mesh `mesh_polygon` returns, every slot's cached aspect ratio is the aspect ratio of its triangle** -/
theorem meshPolygon_cachedAR (poly : Polygon α) (ma mar : α) (fuel : Nat) (t' : Mesh α)
    (h : meshPolygon poly ma mar fuel = .ok t') :
    ∀ (i : Nat) (tp : TriPiece α), t'.triangles[i]? = some tp → tp.aspectRatio = tp.triangle.aspectRatio :=
  meshPolygon_allQ pq_cachedAR poly ma mar fuel t' (fun _ _ _ _ => trivial) h

/-- **what a successful `mesh_polygon` guarantees, in terms of the triangles themselves**: every slot is a live triangle
    that is below the area floor or whose own `aspect_ratio()` does not exceed the requested maximum -/
theorem meshPolygon_ok_bound_measured (poly : Polygon α) (ma mar : α) (fuel : Nat) (t' : Mesh α)
    (h : meshPolygon poly ma mar fuel = .ok t') :
    ∀ j, j < t'.triangles.size → ∃ tp, t'.triangles[j]? = some tp ∧ tp.valid = true ∧
      ((tp.triangle.area <. (1e-3 : α)) = true ∨ (tp.triangle.aspectRatio >. mar) = false) := by
  intro j hj
  obtain ⟨tp, htp, hv, hb⟩ := C18.meshPolygon_ok_bound poly ma mar fuel t' h j hj
  refine ⟨tp, htp, hv, ?_⟩
  rw [← meshPolygon_cachedAR poly ma mar fuel t' h j tp htp]
  exact hb
end generic

section Real
open C19
noncomputable section

theorem cross_shift (a b c : V3 ℝ) : (b - a).cross (c - a) = (b - a).cross (c - b) := by
  apply V3.ext' <;> (vec_real; ring)

/-- what `Triangle3D::new` accepted is not degenerate: `|(b − a) × (c − a)| ≥ 1e-5` -/
theorem newOk_nondegenerate (a b c : V3 ℝ) (h : NewOk (a, b, c)) : ((b - a).cross (c - a)).lengthSquared ≠ 0 := by
  obtain ⟨tri, htri⟩ := h
  simp only [] at htri
  unfold Triangle.new at htri
  split at htri
  · cases htri
  · rename_i hne
    cases hc : a.isCollinearR b c with
    | err e => simp [hc, Res.unwrap] at htri
    | panic q => simp [hc, Res.unwrap] at htri
    | ok v =>
      cases v with
      | true => simp [hc, Res.unwrap] at htri
      | false =>
        unfold V3.isCollinearR at hc
        cases hi : a.isCollinear b c with
        | none => simp [hi] at hc
        | some r =>
          simp only [hi, Res.ok.injEq] at hc
          subst hc
          unfold V3.isCollinear at hi
          have key : (((b - a).cross (c - b)).length <. (1e-5 : ℝ)) = false := by
            by_cases h1 : (a.compare b && a.compare c) = true
            · simp [h1] at hi
            · simp only [h1, Bool.false_eq_true, if_false] at hi
              by_cases h2 : (a.compare b || a.compare c || b.compare c) = true
              · simp [h2] at hi
              · simp only [h2, Bool.false_eq_true, if_false, Option.some.injEq] at hi
                exact hi
          bool_real_at key
          num_real_at key
          rw [cross_shift]
          intro h0
          have : ((b - a).cross (c - b)).length = 0 := by
            simp only [V3.length, real_sqrt, h0, Real.sqrt_zero]
          rw [this] at key
          norm_num at key

/-- **C18 end to end, in exact arithmetic**: when `mesh_polygon` succeeds, every returned triangle is below the area floor of `refine`
    or its circumradius — the distance from its circumcentre to its corners — over its shortest edge (capped at 1e19) does not
    exceed the requested maximum aspect ratio -/
theorem meshPolygon_ok_circumradius_bound (poly : Polygon ℝ) (ma mar : ℝ) (fuel : Nat) (t' : Mesh ℝ)
    (h : meshPolygon poly ma mar fuel = .ok t') :
    ∀ j, j < t'.triangles.size → ∃ tp, t'.triangles[j]? = some tp ∧ tp.valid = true ∧
      ((tp.triangle.area <. (1e-3 : ℝ)) = true ∨
        (tp.triangle.circumcenter - tp.triangle.a).length
          / min (min (min (1e19 : ℝ) tp.triangle.ab.length) tp.triangle.bc.length) tp.triangle.ca.length ≤ mar) := by
  intro j hj
  obtain ⟨tp, htp, hv, hb⟩ := meshPolygon_ok_bound_measured poly ma mar fuel t' h j hj
  refine ⟨tp, htp, hv, ?_⟩
  rcases hb with hb | hb
  · exact Or.inl hb
  · right
    have hall := meshPolygon_allNewOk poly ma mar fuel t' h
    have hmem : some (tp.triangle.a, tp.triangle.b, tp.triangle.c) ∈ vgeom t' := by
      have : (vgeom t')[j]? = some (some (tp.triangle.a, tp.triangle.b, tp.triangle.c)) := by
        rw [vgeom_getElem?, htp]; simp [slotV, hv]
      exact List.mem_of_getElem? this
    have hnd := newOk_nondegenerate _ _ _ (hall _ hmem)
    rw [← aspectRatio_eq tp.triangle hnd]
    bool_real_at hb
    exact hb
/-- **no returned triangle is degenerate** (exact arithmetic): after a successful `mesh_polygon` every slot is a live triangle whose
    corners are not collinear — `(b − a) × (c − a) ≠ 0` — because every live triangle went through `Triangle3D::new` -/
theorem meshPolygon_triangles_nondegenerate (poly : Polygon ℝ) (ma mar : ℝ) (fuel : Nat) (t' : Mesh ℝ)
    (h : meshPolygon poly ma mar fuel = .ok t') :
    ∀ tri ∈ t'.getTrilist, ((tri.b - tri.a).cross (tri.c - tri.a)).lengthSquared ≠ 0 := by
  intro tri htri
  unfold Mesh.getTrilist at htri
  simp only [List.mem_map, Array.mem_toList_iff] at htri
  obtain ⟨tp, htp, rfl⟩ := htri
  obtain ⟨j, hj, hget⟩ := Array.mem_iff_getElem.mp htp
  obtain ⟨tp', htp', hv, _⟩ := meshPolygon_ok_bound_measured poly ma mar fuel t' h j hj
  have e : tp' = tp := by
    rw [Array.getElem?_eq_getElem hj, hget] at htp'
    exact (Option.some.inj htp').symm
  subst e
  have hall := meshPolygon_allNewOk poly ma mar fuel t' h
  have hmem : some (tp'.triangle.a, tp'.triangle.b, tp'.triangle.c) ∈ vgeom t' := by
    have : (vgeom t')[j]? = some (some (tp'.triangle.a, tp'.triangle.b, tp'.triangle.c)) := by
      rw [vgeom_getElem?, Array.getElem?_eq_getElem hj, hget]; simp [slotV, hv]
    exact List.mem_of_getElem? this
  exact newOk_nondegenerate _ _ _ (hall _ hmem)
end
end Real
end G3d.C18M
