import G3d.Props.C01Plane
import G3d.Props.C18
/-!
# C18 — the bound is about the triangles themselves, not about a cache

`refine` compares the aspect ratio each slot *cached* when it was built.  With the per-slot invariant logic of `C01Plane`
(`Tr`, `meshPolygon_allQ`): in every mesh that `mesh_polygon` returns, every slot's cached value is `aspect_ratio()` of the
triangle stored in that slot (`meshPolygon_cachedAR`) — no mutator ever touches one without the other — hence
`meshPolygon_ok_bound_measured`: a successful `mesh_polygon` leaves only live triangles that are below the area floor or whose own
`aspect_ratio()` is within the requested bound.  Over ℝ, `C19.aspectRatio_eq` identifies that value with circumradius over
shortest edge.
-/
namespace G3d.C18M
open G3d Num Mesh MeshM C08S C01P
section generic
variable {α : Type} [Num α]
set_option linter.unusedSectionVars false

/-- the slot's cached aspect ratio is `Triangle3D::aspect_ratio()` of its triangle -/
def CachedAR (t : TriPiece α) : Prop := t.aspectRatio = t.triangle.aspectRatio

theorem pq_cachedAR : PQ (fun _ : V3 α => True) (CachedAR (α := α)) where
  setN := by intro t e i h; cases e <;> exact h
  con := by intro t e h; cases e <;> exact h
  inv := by intro t h; exact h
  corners := by intro t _; exact ⟨trivial, trivial, trivial⟩
  cached := by intro t _; exact ⟨trivial, trivial⟩
  mid := by intro s _ _; trivial
  new := by intro a b c i tp _ _ _ h; exact (C18.TriPiece.new_aspectRatio a b c i tp h).1

/-- **in every mesh `mesh_polygon` returns, every slot's cached aspect ratio is the aspect ratio of its triangle** -/
theorem meshPolygon_cachedAR (poly : Polygon α) (ma mar : α) (fuel : Nat) (t' : Mesh α)
    (h : meshPolygon poly ma mar fuel = .ok t') :
    ∀ (i : Nat) (tp : TriPiece α), t'.triangles[i]? = some tp → tp.aspectRatio = tp.triangle.aspectRatio :=
  meshPolygon_allQ pq_cachedAR poly ma mar fuel t' (fun _ _ _ _ => trivial) h

/-- **what a successful `mesh_polygon` guarantees, in terms of the triangles themselves**: every slot is a live triangle
    that is below the area floor or whose own `aspect_ratio()` does not exceed the requested maximum -/
theorem meshPolygon_ok_bound_measured (poly : Polygon α) (ma mar : α) (fuel : Nat) (t' : Mesh α)
    (h : meshPolygon poly ma mar fuel = .ok t') :
    ∀ j, j < t'.triangles.size → ∃ tp, t'.triangles[j]? = some tp ∧ tp.valid = true ∧
      ((tp.triangle.area <. (1e-3 : α)) = true ∨ (tp.triangle.aspectRatio >. mar) = false) := by
  intro j hj
  obtain ⟨tp, htp, hv, hb⟩ := C18.meshPolygon_ok_bound poly ma mar fuel t' h j hj
  refine ⟨tp, htp, hv, ?_⟩
  rw [← meshPolygon_cachedAR poly ma mar fuel t' h j tp htp]
  exact hb
end generic
end G3d.C18M
