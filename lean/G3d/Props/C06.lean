import G3d.Props.C15
import Mathlib.Analysis.SpecialFunctions.Trigonometric.Basic
/-!
# C06 — transforms and their inverses stay consistent under composition (exact semantics)

`Inv T` says that the stored inverse really is the inverse of the stored matrix (both affine).
It holds for every constructor and is preserved by `*=`, hence for **every chain** of elementary transforms
(by induction over the chain).  From `Inv` follow the round trips of points, vectors, normals and boxes,
the composition law "apply B, then A", rigidity and orientation of the rotations, the determinant
characterisation of `changes_hands`, and that transformed normals stay perpendicular to transformed tangents.

Exact semantics: the model is instantiated at ℝ; rotations are given by any `c s` with `c² + s² = 1`
(in particular `cos`/`sin` of the angle).  The floating-point residual of the round trips is measured by the
oracle, not proved.
-/
namespace G3d.C06
open G3d Num C15
noncomputable section

/-- the stored inverse is the inverse of the stored matrix, and both are affine -/
def Inv (t : Transform ℝ) : Prop :=
  t.m.mul t.inv = M4.identity ∧ t.inv.mul t.m = M4.identity ∧ M4.Affine t.m ∧ M4.Affine t.inv

theorem inv_new : Inv (Transform.new : Transform ℝ) :=
  ⟨M4.mul_one _, M4.mul_one _, M4.affine_identity, M4.affine_identity⟩

theorem inv_translate (x y z : ℝ) : Inv (Transform.translate x y z) := by
  refine ⟨?_, ?_, ?_, ?_⟩
  · ext <;> simp only [Transform.translate, M4.mul, M4.identity] <;> num_real <;> ring
  · ext <;> simp only [Transform.translate, M4.mul, M4.identity] <;> num_real <;> ring
  · simp only [M4.Affine, Transform.translate, M4.identity]; num_real; simp
  · simp only [M4.Affine, Transform.translate, M4.identity]; num_real; simp

theorem inv_scale {x y z : ℝ} (hx : x ≠ 0) (hy : y ≠ 0) (hz : z ≠ 0) : Inv (Transform.scale x y z) := by
  refine ⟨?_, ?_, ?_, ?_⟩
  · ext <;> simp only [Transform.scale, M4.mul, M4.identity] <;> num_real <;> field_simp <;> ring
  · ext <;> simp only [Transform.scale, M4.mul, M4.identity] <;> num_real <;> field_simp <;> ring
  · simp only [M4.Affine, Transform.scale]; num_real; simp
  · simp only [M4.Affine, Transform.scale]; num_real; simp

theorem inv_rotX {c s : ℝ} (h : c ^ 2 + s ^ 2 = 1) : Inv (Transform.rotXcs c s) := by
  refine ⟨?_, ?_, ?_, ?_⟩
  · ext <;> simp only [Transform.rotXcs, M4.mul, M4.identity] <;> num_real <;> nlinarith [h]
  · ext <;> simp only [Transform.rotXcs, M4.mul, M4.identity] <;> num_real <;> nlinarith [h]
  · simp only [M4.Affine, Transform.rotXcs, M4.identity]; num_real; simp
  · simp only [M4.Affine, Transform.rotXcs, M4.identity]; num_real; simp

theorem inv_rotY {c s : ℝ} (h : c ^ 2 + s ^ 2 = 1) : Inv (Transform.rotYcs c s) := by
  refine ⟨?_, ?_, ?_, ?_⟩
  · ext <;> simp only [Transform.rotYcs, M4.mul, M4.identity] <;> num_real <;> nlinarith [h]
  · ext <;> simp only [Transform.rotYcs, M4.mul, M4.identity] <;> num_real <;> nlinarith [h]
  · simp only [M4.Affine, Transform.rotYcs, M4.identity]; num_real; simp
  · simp only [M4.Affine, Transform.rotYcs, M4.identity]; num_real; simp

theorem inv_rotZ {c s : ℝ} (h : c ^ 2 + s ^ 2 = 1) : Inv (Transform.rotZcs c s) := by
  refine ⟨?_, ?_, ?_, ?_⟩
  · ext <;> simp only [Transform.rotZcs, M4.mul, M4.identity] <;> num_real <;> nlinarith [h]
  · ext <;> simp only [Transform.rotZcs, M4.mul, M4.identity] <;> num_real <;> nlinarith [h]
  · simp only [M4.Affine, Transform.rotZcs, M4.identity]; num_real; simp
  · simp only [M4.Affine, Transform.rotZcs, M4.identity]; num_real; simp

/-- the constructors taking degrees, at the exact instance -/
theorem inv_rotateX (d : ℝ) : Inv (Transform.rotateX d) := inv_rotX (by simp [Real.cos_sq_add_sin_sq])
theorem inv_rotateY (d : ℝ) : Inv (Transform.rotateY d) := inv_rotY (by simp [Real.cos_sq_add_sin_sq])
theorem inv_rotateZ (d : ℝ) : Inv (Transform.rotateZ d) := inv_rotZ (by simp [Real.cos_sq_add_sin_sq])

/-- **composition preserves the inverse relation** (`(AB)⁻¹ = B⁻¹A⁻¹`; false for the pre-repair `MulAssign`) -/
theorem inv_mulAssign {a b : Transform ℝ} (ha : Inv a) (hb : Inv b) : Inv (a.mulAssign b) := by
  obtain ⟨a1, a2, a3, a4⟩ := ha
  obtain ⟨b1, b2, b3, b4⟩ := hb
  refine ⟨?_, ?_, M4.affine_mul a3 b3, M4.affine_mul b4 a4⟩
  · show (a.m.mul b.m).mul (b.inv.mul a.inv) = _
    rw [M4.mul_assoc, ← M4.mul_assoc b.m, b1, M4.one_mul, a1]
  · show (b.inv.mul a.inv).mul (a.m.mul b.m) = _
    rw [M4.mul_assoc, ← M4.mul_assoc a.inv, a2, M4.one_mul, b2]

/-- elementary transforms -/
inductive Elem where
  | id
  | translate (x y z : ℝ)
  | scale (x y z : ℝ)
  | rotX (c s : ℝ)
  | rotY (c s : ℝ)
  | rotZ (c s : ℝ)

def Elem.toT : Elem → Transform ℝ
  | .id => Transform.new
  | .translate x y z => Transform.translate x y z
  | .scale x y z => Transform.scale x y z
  | .rotX c s => Transform.rotXcs c s
  | .rotY c s => Transform.rotYcs c s
  | .rotZ c s => Transform.rotZcs c s

/-- legal arguments: non-zero scale factors, `(c,s)` on the unit circle -/
def Elem.Ok : Elem → Prop
  | .id => True
  | .translate _ _ _ => True
  | .scale x y z => x ≠ 0 ∧ y ≠ 0 ∧ z ≠ 0
  | .rotX c s => c ^ 2 + s ^ 2 = 1
  | .rotY c s => c ^ 2 + s ^ 2 = 1
  | .rotZ c s => c ^ 2 + s ^ 2 = 1

theorem inv_elem {e : Elem} (h : e.Ok) : Inv e.toT := by
  cases e with
  | id => exact inv_new
  | translate x y z => exact inv_translate x y z
  | scale x y z => exact inv_scale h.1 h.2.1 h.2.2
  | rotX c s => exact inv_rotX h
  | rotY c s => exact inv_rotY h
  | rotZ c s => exact inv_rotZ h

/-- `t = new(); t *= e₁; …; t *= eₙ` — exactly what the driver replays against the crate -/
def chainFrom (t : Transform ℝ) (l : List Elem) : Transform ℝ := l.foldl (fun t e => t.mulAssign e.toT) t
def chain (l : List Elem) : Transform ℝ := chainFrom Transform.new l

theorem inv_chainFrom {t : Transform ℝ} (ht : Inv t) (l : List Elem) (hl : ∀ e ∈ l, e.Ok) : Inv (chainFrom t l) := by
  induction l generalizing t with
  | nil => exact ht
  | cons e l ih =>
    exact ih (inv_mulAssign ht (inv_elem (hl e (List.mem_cons_self)))) (fun e' he' => hl e' (List.mem_cons_of_mem _ he'))

/-- **every chain of elementary transforms carries its true inverse** -/
theorem inv_chain (l : List Elem) (hl : ∀ e ∈ l, e.Ok) : Inv (chain l) := inv_chainFrom inv_new l hl

/-! ## action of a transform -/

theorem mulVec_mul (a : M4 ℝ) {b : M4 ℝ} (hb : M4.Affine b) (v : V3 ℝ) :
    (a.mul b).mulVec v = a.mulVec (b.mulVec v) := by
  obtain ⟨h0, h1, h2, _⟩ := hb
  simp only [M4.mulVec, M4.mul, V3.mk.injEq, h0, h1, h2]; num_real
  refine ⟨?_, ?_, ?_⟩ <;> ring

theorem mulPoint_mul {a b : M4 ℝ} (ha : M4.Affine a) (hb : M4.Affine b) (p : V3 ℝ) :
    (a.mul b).mulPoint p = a.mulPoint (b.mulPoint p) := by
  rw [mulPoint_affine (M4.affine_mul ha hb), mulPoint_affine hb, mulPoint_affine ha]
  obtain ⟨h0, h1, h2, h3⟩ := hb
  simp only [M4.mul, V3.mk.injEq, h0, h1, h2, h3]; num_real
  refine ⟨?_, ?_, ?_⟩ <;> ring

theorem mulNormalT_mul (a : M4 ℝ) {b : M4 ℝ} (ha : M4.Affine a) (v : V3 ℝ) :
    (b.mul a).mulNormalT v = a.mulNormalT (b.mulNormalT v) := by
  obtain ⟨h0, h1, h2, _⟩ := ha
  simp only [M4.mulNormalT, M4.mul, V3.mk.injEq, h0, h1, h2]; num_real
  refine ⟨?_, ?_, ?_⟩ <;> ring

theorem mulPoint_identity (p : V3 ℝ) : (M4.identity : M4 ℝ).mulPoint p = p := by
  rw [mulPoint_affine M4.affine_identity]; simp only [M4.identity]; num_real
  obtain ⟨x, y, z⟩ := p; simp
theorem mulVec_identity (p : V3 ℝ) : (M4.identity : M4 ℝ).mulVec p = p := by
  simp only [M4.mulVec, M4.identity]; num_real
  obtain ⟨x, y, z⟩ := p; simp
theorem mulNormalT_identity (p : V3 ℝ) : (M4.identity : M4 ℝ).mulNormalT p = p := by
  simp only [M4.mulNormalT, M4.identity]; num_real
  obtain ⟨x, y, z⟩ := p; simp

/-- **composing A with B acts as "apply B, then A"** -/
theorem compose_pt {a b : Transform ℝ} (ha : Inv a) (hb : Inv b) (p : V3 ℝ) :
    (a.mulAssign b).transformPt p = a.transformPt (b.transformPt p) := mulPoint_mul ha.2.2.1 hb.2.2.1 p
theorem compose_vec {a b : Transform ℝ} (hb : Inv b) (v : V3 ℝ) :
    (a.mulAssign b).transformVec v = a.transformVec (b.transformVec v) := mulVec_mul _ hb.2.2.1 v
theorem compose_normal {a b : Transform ℝ} (ha : Inv a) (n : V3 ℝ) :
    (a.mulAssign b).transformNormal n = a.transformNormal (b.transformNormal n) :=
  mulNormalT_mul _ ha.2.2.2 n
/-- … and its inverse acts as "undo A, then undo B" -/
theorem compose_inv_pt {a b : Transform ℝ} (ha : Inv a) (hb : Inv b) (p : V3 ℝ) :
    (a.mulAssign b).invTransformPt p = b.invTransformPt (a.invTransformPt p) := mulPoint_mul hb.2.2.2 ha.2.2.2 p

/-! ## round trips -/

theorem roundtrip_pt {t : Transform ℝ} (h : Inv t) (p : V3 ℝ) : t.invTransformPt (t.transformPt p) = p := by
  show t.inv.mulPoint (t.m.mulPoint p) = p
  rw [← mulPoint_mul h.2.2.2 h.2.2.1, h.2.1, mulPoint_identity]
theorem roundtrip_pt' {t : Transform ℝ} (h : Inv t) (p : V3 ℝ) : t.transformPt (t.invTransformPt p) = p := by
  show t.m.mulPoint (t.inv.mulPoint p) = p
  rw [← mulPoint_mul h.2.2.1 h.2.2.2, h.1, mulPoint_identity]
theorem roundtrip_vec {t : Transform ℝ} (h : Inv t) (v : V3 ℝ) : t.invTransformVec (t.transformVec v) = v := by
  show t.inv.mulVec (t.m.mulVec v) = v
  rw [← mulVec_mul _ h.2.2.1, h.2.1, mulVec_identity]
theorem roundtrip_vec' {t : Transform ℝ} (h : Inv t) (v : V3 ℝ) : t.transformVec (t.invTransformVec v) = v := by
  show t.m.mulVec (t.inv.mulVec v) = v
  rw [← mulVec_mul _ h.2.2.2, h.1, mulVec_identity]
theorem roundtrip_normal {t : Transform ℝ} (h : Inv t) (n : V3 ℝ) : t.invTransformNormal (t.transformNormal n) = n := by
  show t.m.mulNormalT (t.inv.mulNormalT n) = n
  rw [← mulNormalT_mul _ h.2.2.1, h.2.1, mulNormalT_identity]
theorem roundtrip_normal' {t : Transform ℝ} (h : Inv t) (n : V3 ℝ) : t.transformNormal (t.invTransformNormal n) = n := by
  show t.inv.mulNormalT (t.m.mulNormalT n) = n
  rw [← mulNormalT_mul _ h.2.2.2, h.1, mulNormalT_identity]

/-- a box sent forth and back contains the original box (it is the hull of a hull: for a 45° rotation it is strictly larger) -/
theorem roundtrip_bbox_superset {t : Transform ℝ} (h : Inv t) {b : BBox ℝ} {p : V3 ℝ} (hp : Contains b p) :
    Contains (t.invTransformBBox (t.transformBBox b)) p := by
  have := invTransformBBox_contains_image h.2.2.2 (transformBBox_contains_image h.2.2.1 hp)
  rwa [roundtrip_pt h] at this

theorem advanceOrigin_spec (o e d : V3 ℝ) (hx : 0 ≤ e.x) (hy : 0 ≤ e.y) (hz : 0 ≤ e.z) :
    ∃ dt : ℝ, 0 ≤ dt ∧ Transform.advanceOrigin o e d = o + d.smul dt := by
  simp only [Transform.advanceOrigin]
  split_ifs with hc
  · rw [real_gt] at hc
    refine ⟨_, ?_, rfl⟩
    num_real
    apply div_nonneg _ (le_of_lt (by simpa using hc))
    simp only [V3.dot, V3.abs]; num_real
    positivity
  · refine ⟨0, le_refl _, ?_⟩
    obtain ⟨x, y, z⟩ := o
    obtain ⟨dx, dy, dz⟩ := d
    show _ = V3.add _ _
    simp only [V3.smul, V3.add]; num_real; simp

theorem eps_bounds : (0 : ℝ) < Num.eps ∧ (Num.eps : ℝ) < 1 / 8 := by
  rw [real_eps]
  constructor
  · positivity
  · have : ((2:ℝ)⁻¹) ^ 52 ≤ ((2:ℝ)⁻¹) ^ 4 := pow_le_pow_of_le_one (by norm_num) (by norm_num) (by norm_num)
    linarith [show ((2:ℝ)⁻¹) ^ 4 = 1 / 16 by norm_num]

theorem gamma3_nonneg : (0 : ℝ) ≤ Num.gamma (3 : ℝ) := by
  obtain ⟨h1, h2⟩ := eps_bounds
  simp only [Num.gamma]; num_real
  generalize (Num.eps : ℝ) = e at h1 h2 ⊢
  apply div_nonneg <;> linarith

theorem gamma4_nonneg : (0 : ℝ) ≤ Num.gamma (4 : ℝ) := by
  obtain ⟨h1, h2⟩ := eps_bounds
  simp only [Num.gamma]; num_real
  generalize (Num.eps : ℝ) = e at h1 h2 ⊢
  apply div_nonneg <;> linarith

/-- the transformed ray has the transformed direction and its origin is the transformed origin pushed *forward*
    (`dt ≥ 0`) along that direction -/
theorem ray_on_line (m : M4 ℝ) (r : Ray ℝ) :
    (Transform.rayWith m r).1.direction = m.mulVec r.direction ∧
    ∃ dt : ℝ, 0 ≤ dt ∧ (Transform.rayWith m r).1.origin = m.mulPoint r.origin + (m.mulVec r.direction).smul dt := by
  refine ⟨rfl, ?_⟩
  have g := gamma4_nonneg
  apply advanceOrigin_spec <;>
    · simp only [Transform.ptWithError, M4.mulAbs, V3.smul]; num_real; positivity

/-! ## rotations are rigid and counter-clockwise -/

theorem rotZ_dot {c s : ℝ} (h : c ^ 2 + s ^ 2 = 1) (u v : V3 ℝ) :
    ((Transform.rotZcs c s).transformVec u).dot ((Transform.rotZcs c s).transformVec v) = u.dot v := by
  simp only [Transform.transformVec, Transform.rotZcs, M4.mulVec, M4.identity, V3.dot]; num_real
  linear_combination (u.x * v.x + u.y * v.y) * h
theorem rotX_dot {c s : ℝ} (h : c ^ 2 + s ^ 2 = 1) (u v : V3 ℝ) :
    ((Transform.rotXcs c s).transformVec u).dot ((Transform.rotXcs c s).transformVec v) = u.dot v := by
  simp only [Transform.transformVec, Transform.rotXcs, M4.mulVec, M4.identity, V3.dot]; num_real
  linear_combination (u.y * v.y + u.z * v.z) * h
theorem rotY_dot {c s : ℝ} (h : c ^ 2 + s ^ 2 = 1) (u v : V3 ℝ) :
    ((Transform.rotYcs c s).transformVec u).dot ((Transform.rotYcs c s).transformVec v) = u.dot v := by
  simp only [Transform.transformVec, Transform.rotYcs, M4.mulVec, M4.identity, V3.dot]; num_real
  linear_combination (u.x * v.x + u.z * v.z) * h

/-- counter-clockwise about +z: x̂ ↦ (c, s, 0), ŷ ↦ (−s, c, 0), ẑ ↦ ẑ; likewise for x and y -/
theorem rotZ_ccw (c s : ℝ) :
    (Transform.rotZcs c s).transformVec ⟨1, 0, 0⟩ = ⟨c, s, 0⟩ ∧
    (Transform.rotZcs c s).transformVec ⟨0, 1, 0⟩ = ⟨-s, c, 0⟩ ∧
    (Transform.rotZcs c s).transformVec ⟨0, 0, 1⟩ = ⟨0, 0, 1⟩ := by
  simp only [Transform.transformVec, Transform.rotZcs, M4.mulVec, M4.identity]; num_real; simp
theorem rotX_ccw (c s : ℝ) :
    (Transform.rotXcs c s).transformVec ⟨0, 1, 0⟩ = ⟨0, c, s⟩ ∧
    (Transform.rotXcs c s).transformVec ⟨0, 0, 1⟩ = ⟨0, -s, c⟩ ∧
    (Transform.rotXcs c s).transformVec ⟨1, 0, 0⟩ = ⟨1, 0, 0⟩ := by
  simp only [Transform.transformVec, Transform.rotXcs, M4.mulVec, M4.identity]; num_real; simp
theorem rotY_ccw (c s : ℝ) :
    (Transform.rotYcs c s).transformVec ⟨0, 0, 1⟩ = ⟨s, 0, c⟩ ∧
    (Transform.rotYcs c s).transformVec ⟨1, 0, 0⟩ = ⟨c, 0, -s⟩ ∧
    (Transform.rotYcs c s).transformVec ⟨0, 1, 0⟩ = ⟨0, 1, 0⟩ := by
  simp only [Transform.transformVec, Transform.rotYcs, M4.mulVec, M4.identity]; num_real; simp

/-! ## handedness -/

theorem changesHands_iff (t : Transform ℝ) : t.changesHands = true ↔ Transform.determinant3 t.m < 0 := by
  simp [Transform.changesHands]

theorem det_mul (a : M4 ℝ) {b : M4 ℝ} (hb : M4.Affine b) :
    Transform.determinant3 (a.mul b) = Transform.determinant3 a * Transform.determinant3 b := by
  obtain ⟨h0, h1, h2, _⟩ := hb
  simp only [Transform.determinant3, M4.mul, h0, h1, h2]; num_real; ring

def Elem.det : Elem → ℝ
  | .scale x y z => x * y * z
  | _ => 1

theorem det_elem {e : Elem} (h : e.Ok) : Transform.determinant3 e.toT.m = e.det := by
  cases e with
  | id => simp only [Elem.toT, Elem.det, Transform.new, M4.identity, Transform.determinant3]; num_real; norm_num
  | translate x y z => simp only [Elem.toT, Elem.det, Transform.translate, M4.identity, Transform.determinant3]; num_real; norm_num
  | scale x y z => simp only [Elem.toT, Elem.det, Transform.scale, Transform.determinant3]; num_real; ring
  | rotX c s => simp only [Elem.toT, Elem.det, Transform.rotXcs, M4.identity, Transform.determinant3]; num_real; simp only [Elem.Ok] at h; linarith
  | rotY c s => simp only [Elem.toT, Elem.det, Transform.rotYcs, M4.identity, Transform.determinant3]; num_real; simp only [Elem.Ok] at h; linarith
  | rotZ c s => simp only [Elem.toT, Elem.det, Transform.rotZcs, M4.identity, Transform.determinant3]; num_real; simp only [Elem.Ok] at h; linarith

theorem det_chainFrom {t : Transform ℝ} (l : List Elem) (hl : ∀ e ∈ l, e.Ok) :
    Transform.determinant3 (chainFrom t l).m = Transform.determinant3 t.m * (l.map Elem.det).prod := by
  induction l generalizing t with
  | nil => simp [chainFrom]
  | cons e l ih =>
    have he := hl e (List.mem_cons_self)
    have := ih (t := t.mulAssign e.toT) (fun e' he' => hl e' (List.mem_cons_of_mem _ he'))
    simp only [chainFrom, List.foldl_cons, List.map_cons, List.prod_cons] at this ⊢
    rw [this]
    show Transform.determinant3 (t.m.mul e.toT.m) * _ = _
    rw [det_mul _ (inv_elem he).2.2.1, det_elem he]; ring

/-- **a chain changes handedness exactly when the product of its scale factors is negative** -/
theorem chain_changesHands_iff (l : List Elem) (hl : ∀ e ∈ l, e.Ok) :
    (chain l).changesHands = true ↔ (l.map Elem.det).prod < 0 := by
  rw [changesHands_iff, chain, det_chainFrom l hl]
  simp only [Transform.new, M4.identity, Transform.determinant3]; num_real; norm_num

/-! ## normals -/

/-- **a normal transformed alongside a surface stays perpendicular to the transformed tangents** -/
theorem normal_perp {t : Transform ℝ} (h : Inv t) (n v : V3 ℝ) :
    (t.transformNormal n).dot (t.transformVec v) = n.dot v := by
  -- (M⁻ᵀ n)·(M v) = n·(M⁻¹ M v) = n·v
  have key : ∀ (a : M4 ℝ) (n w : V3 ℝ), (a.mulNormalT n).dot w = n.dot (a.mulVec w) := by
    intro a n w; simp only [M4.mulNormalT, M4.mulVec, V3.dot]; num_real; ring
  show (t.inv.mulNormalT n).dot (t.m.mulVec v) = _
  rw [key, ← mulVec_mul _ h.2.2.1, h.2.1, mulVec_identity]

end
end G3d.C06
