import G3d.Props.C08Split
/-!
# C08 / C01 / C18 — `refine` is a sequence of primitive steps; what every step keeps, `mesh_polygon` keeps

Model of `triangulation3d.rs`, any number type.
* `Step`: one successful `split_triangle`, `split_edge` or `flip_diagonal`; `Steps`: a finite sequence of them.
* `restoreDelaunay_steps`, `addPointToTriangle_steps`, `refinePass_steps`, `refine_steps`: **every successful `restore_delaunay`,
  `add_point_to_triangle`, pass of `refine` and `refine` itself is such a sequence** — no failed step is ever swallowed (an `Err`
  or panic anywhere makes the whole call an `Err` / panic), so the single-step histories the C08 check replays against the real
  code are exactly what `refine` is made of.
* `Steps.invariant` / `meshPolygon_invariant`: whatever `from_polygon` establishes and every primitive step preserves holds for
  every mesh `mesh_polygon` returns.
* an instance, proved also for FAILING steps (`PresNew`): `meshPolygon_allNewOk` — every live triangle of every mesh that
  `from_polygon` / `mesh_polygon` returns went through `Triangle3D::new` (corners pairwise outside the coincidence tolerance and not
  collinear by the crate's own test); over ℝ that is the `Distinct` hypothesis of `processHemisphere_area` (`newOk_distinct`).
-/
namespace G3d.C08S
open G3d Num Mesh MeshM
set_option linter.unusedSectionVars false
variable {α : Type} [Num α]

/-- one successful primitive refinement step -/
inductive Step : Mesh α → Mesh α → Prop where
  | splitT (i : Nat) (p : V3 α) (m m' : Mesh α) : splitTriangle i p m = (m', .ok ()) → Step m m'
  | splitE (i : Nat) (e : Edge) (p : V3 α) (m m' : Mesh α) : splitEdge i e p m = (m', .ok ()) → Step m m'
  | flip (i : Nat) (e : Edge) (m m' : Mesh α) : flipDiagonal i e m = (m', .ok ()) → Step m m'

/-- a finite sequence of successful primitive steps -/
inductive Steps : Mesh α → Mesh α → Prop where
  | refl (m : Mesh α) : Steps m m
  | head (m m1 m' : Mesh α) : Step m m1 → Steps m1 m' → Steps m m'

theorem Steps.single {m m' : Mesh α} (h : Step m m') : Steps m m' := Steps.head _ _ _ h (Steps.refl _)

theorem Steps.trans {m m1 m' : Mesh α} (h1 : Steps m m1) (h2 : Steps m1 m') : Steps m m' := by
  induction h1 with
  | refl _ => exact h2
  | head a b c hs _ ih => exact Steps.head _ _ _ hs (ih h2)

/-- **whatever every primitive step preserves, every sequence of steps preserves** -/
theorem Steps.invariant {m m' : Mesh α} (Inv : Mesh α → Prop) (hstep : ∀ a b, Step a b → Inv a → Inv b)
    (h : Steps m m') (h0 : Inv m) : Inv m' := by
  induction h with
  | refl _ => exact h0
  | head a b c hs _ ih => exact ih (hstep a b hs h0)

theorem readR_ok_inv {β : Type} (f : Mesh α → Res β) (m m1 : Mesh α) (b : β) (h : readR f m = (m1, .ok b)) :
    m1 = m ∧ f m = .ok b := by
  simp only [readR, Prod.mk.injEq] at h
  exact ⟨h.1.symm, h.2⟩

theorem pure_ok_inv {β : Type} (b b' : β) (m m1 : Mesh α) (h : (MeshM.pure b : MeshM α β) m = (m1, .ok b')) :
    m1 = m ∧ b' = b := by
  simp only [MeshM.pure, Prod.mk.injEq] at h
  obtain ⟨h1, h2⟩ := h
  injection h2 with h2
  exact ⟨h1.symm, h2.symm⟩

/-- the `for i in 0..n` loop of `restore_delaunay` is a sequence of flips -/
theorem restoreTriLoop_steps (mar : α) : ∀ (fuel i : Nat) (ac : Bool) (m m' : Mesh α) (b : Bool),
    restoreTriLoop mar fuel i ac m = (m', .ok b) → Steps m m' := by
  intro fuel
  induction fuel with
  | zero =>
    intro i ac m m' b h
    obtain ⟨h1, _⟩ := pure_ok_inv _ _ _ _ h
    subst h1; exact Steps.refl _
  | succ f ih =>
    intro i ac m m' b h
    unfold restoreTriLoop at h
    obtain ⟨tp, m0, htp, h1⟩ := C01T.mbind_ok_inv _ _ _ _ _ h
    clear h
    obtain ⟨hm0, _⟩ := C18.tgetM_ok_inv _ _ _ _ _ htp
    subst hm0
    split at h1
    · exact ih _ _ _ _ _ h1
    · simp only [] at h1
      split at h1
      · exact ih _ _ _ _ _ h1
      · obtain ⟨be, m1, hbe, h2⟩ := C01T.mbind_ok_inv _ _ _ _ _ h1
        clear h1
        obtain ⟨hm1, _⟩ := readR_ok_inv _ _ _ _ hbe
        subst hm1
        obtain ⟨best, ar⟩ := be
        simp only [] at h2
        cases best with
        | none => exact ih _ _ _ _ _ h2
        | some e =>
          simp only [] at h2
          obtain ⟨u, m2, hflip, h3⟩ := C01T.mbind_ok_inv _ _ _ _ _ h2
          exact Steps.head _ _ _ (Step.flip _ _ _ _ hflip) (ih _ _ _ _ _ h3)

theorem restoreWhile_steps (mar : α) (n : Nat) : ∀ (fuel : Nat) (ac : Bool) (m m' : Mesh α),
    restoreWhile mar n fuel ac m = (m', .ok ()) → Steps m m' := by
  intro fuel
  induction fuel with
  | zero =>
    intro ac m m' h
    obtain ⟨h1, _⟩ := pure_ok_inv _ _ _ _ h
    subst h1; exact Steps.refl _
  | succ f ih =>
    intro ac m m' h
    unfold restoreWhile at h
    split at h
    · obtain ⟨h1, _⟩ := pure_ok_inv _ _ _ _ h
      subst h1; exact Steps.refl _
    · obtain ⟨ac', m1, h1, h2⟩ := C01T.mbind_ok_inv _ _ _ _ _ h
      exact (restoreTriLoop_steps mar _ _ _ _ _ _ h1).trans (ih _ _ _ h2)

/-- **`restore_delaunay` is a sequence of successful `flip_diagonal`s** -/
theorem restoreDelaunay_steps (mar : α) (m m' : Mesh α) (h : restoreDelaunay mar m = (m', .ok ())) : Steps m m' := by
  unfold restoreDelaunay at h
  obtain ⟨n, m1, h1, h2⟩ := C01T.mbind_ok_inv _ _ _ _ _ h
  obtain ⟨hm1, _⟩ := readR_ok_inv _ _ _ _ h1
  subst hm1
  exact restoreWhile_steps mar n _ _ _ _ h2

/-- **`add_point_to_triangle` is no step, one `split_edge` or one `split_triangle`** -/
theorem addPointToTriangle_steps (index : Nat) (point : V3 α) (loc : PointInTriangle) (m m' : Mesh α) (b : Bool)
    (h : addPointToTriangle index point loc m = (m', .ok b)) : Steps m m' := by
  unfold addPointToTriangle at h
  obtain ⟨tp, m0, htp, h1⟩ := C01T.mbind_ok_inv _ _ _ _ _ h
  clear h
  obtain ⟨hm0, _⟩ := C18.tgetM_ok_inv _ _ _ _ _ htp
  subst hm0
  split at h1
  · simp [MeshM.panic] at h1
  · split at h1
    · obtain ⟨h2, _⟩ := pure_ok_inv _ _ _ _ h1
      subst h2; exact Steps.refl _
    · split at h1
      · obtain ⟨e, m1, he, h2⟩ := C01T.mbind_ok_inv _ _ _ _ _ h1
        clear h1
        obtain ⟨hm1, _⟩ := ofRes_ok_inv _ _ _ _ he
        subst hm1
        obtain ⟨u, m2, hs, h3⟩ := C01T.mbind_ok_inv _ _ _ _ _ h2
        obtain ⟨hm2, _⟩ := pure_ok_inv _ _ _ _ h3
        subst hm2
        exact Steps.single (Step.splitE _ _ _ _ _ hs)
      · split at h1
        · obtain ⟨u, m2, hs, h3⟩ := C01T.mbind_ok_inv _ _ _ _ _ h1
          obtain ⟨hm2, _⟩ := pure_ok_inv _ _ _ _ h3
          subst hm2
          exact Steps.single (Step.splitT _ _ _ _ hs)
        · simp [MeshM.panic] at h1

/-- one pass of `refine` is a sequence of steps -/
theorem refinePass_steps (ma mar : α) : ∀ (fuel i : Nat) (ac : Bool) (m m' : Mesh α) (b : Bool),
    refinePass ma mar fuel i ac m = (m', .ok b) → Steps m m' := by
  intro fuel
  induction fuel with
  | zero =>
    intro i ac m m' b h
    obtain ⟨h1, _⟩ := pure_ok_inv _ _ _ _ h
    subst h1; exact Steps.refl _
  | succ f ih =>
    intro i ac m m' b h
    unfold refinePass at h
    obtain ⟨tp, m0, htp, h1⟩ := C01T.mbind_ok_inv _ _ _ _ _ h
    clear h
    obtain ⟨hm0, _⟩ := C18.tgetM_ok_inv _ _ _ _ _ htp
    subst hm0
    split at h1
    · simp [MeshM.panic] at h1
    · simp only [] at h1
      split at h1
      · exact ih _ _ _ _ _ h1
      · split at h1
        · -- aspect ratio: split the longest edge, restore, go on
          obtain ⟨ss, m1, hss, h2⟩ := C01T.mbind_ok_inv _ _ _ _ _ h1
          clear h1
          obtain ⟨hm1, _⟩ := ofRes_ok_inv _ _ _ _ hss
          subst hm1
          obtain ⟨s, sI⟩ := ss
          simp only [] at h2
          obtain ⟨e, m2, he, h3⟩ := C01T.mbind_ok_inv _ _ _ _ _ h2
          clear h2
          obtain ⟨hm2, _⟩ := ofRes_ok_inv _ _ _ _ he
          subst hm2
          obtain ⟨u, m3, hse, h4⟩ := C01T.mbind_ok_inv _ _ _ _ _ h3
          clear h3
          obtain ⟨u2, m4, hrd, h5⟩ := C01T.mbind_ok_inv _ _ _ _ _ h4
          clear h4
          exact (Steps.single (Step.splitE _ _ _ _ _ hse)).trans
            ((restoreDelaunay_steps _ _ _ hrd).trans (ih _ _ _ _ _ h5))
        · split at h1
          · -- area: insert the circumcentre (or the centroid)
            obtain ⟨fp, m1, hfp, h2⟩ := C01T.mbind_ok_inv _ _ _ _ _ h1
            clear h1
            have hm1 : m1 = m0 := by
              unfold findPoint at hfp
              exact (readR_ok_inv _ _ _ _ hfp).1
            subst hm1
            cases fp with
            | some ip =>
              obtain ⟨index, loc⟩ := ip
              simp only [] at h2
              obtain ⟨did, m2, hadd, h3⟩ := C01T.mbind_ok_inv _ _ _ _ _ h2
              clear h2
              have s1 := addPointToTriangle_steps _ _ _ _ _ _ hadd
              split at h3
              · obtain ⟨u2, m4, hrd, h5⟩ := C01T.mbind_ok_inv _ _ _ _ _ h3
                exact s1.trans ((restoreDelaunay_steps _ _ _ hrd).trans (ih _ _ _ _ _ h5))
              · exact s1.trans (ih _ _ _ _ _ h3)
            | none =>
              simp only [] at h2
              obtain ⟨tp2, m2, htp2, h3⟩ := C01T.mbind_ok_inv _ _ _ _ _ h2
              clear h2
              obtain ⟨hm2, _⟩ := C18.tgetM_ok_inv _ _ _ _ _ htp2
              subst hm2
              obtain ⟨did, m3, hadd, h4⟩ := C01T.mbind_ok_inv _ _ _ _ _ h3
              clear h3
              have s1 := addPointToTriangle_steps _ _ _ _ _ _ hadd
              split at h4
              · obtain ⟨u2, m4, hrd, h5⟩ := C01T.mbind_ok_inv _ _ _ _ _ h4
                exact s1.trans ((restoreDelaunay_steps _ _ _ hrd).trans (ih _ _ _ _ _ h5))
              · exact s1.trans (ih _ _ _ _ _ h4)
          · exact ih _ _ _ _ _ h1

/-- **every successful `refine` is a finite sequence of successful `split_triangle` / `split_edge` / `flip_diagonal` steps**
    (no failed step is ever swallowed: an `Err` anywhere makes `refine` an `Err`) -/
theorem refine_steps (ma mar : α) : ∀ (fuel : Nat) (m m' : Mesh α), refine ma mar fuel m = (m', .ok ()) → Steps m m' := by
  intro fuel
  induction fuel with
  | zero => intro m m' h; simp [refine, MeshM.err] at h
  | succ f ih =>
    intro m m' h
    unfold refine at h
    obtain ⟨n, m1, hn, h1⟩ := C01T.mbind_ok_inv _ _ _ _ _ h
    clear h
    obtain ⟨hm1, _⟩ := readR_ok_inv _ _ _ _ hn
    subst hm1
    obtain ⟨ac, m2, hp, h2⟩ := C01T.mbind_ok_inv _ _ _ _ _ h1
    clear h1
    have s1 := refinePass_steps _ _ _ _ _ _ _ _ hp
    split at h2
    · exact s1.trans (ih _ _ h2)
    · obtain ⟨hm, _⟩ := pure_ok_inv _ _ _ _ h2
      subst hm; exact s1

/-- **`mesh_polygon` = `from_polygon`, then a sequence of primitive steps**: whatever `from_polygon` establishes and every
    primitive step preserves holds for every mesh `mesh_polygon` returns -/
theorem meshPolygon_invariant (poly : Polygon α) (ma mar : α) (fuel : Nat) (t' : Mesh α) (Inv : Mesh α → Prop)
    (h : meshPolygon poly ma mar fuel = .ok t')
    (h0 : ∀ t, fromPolygon poly = .ok t → Inv t) (hstep : ∀ a b, Step a b → Inv a → Inv b) : Inv t' := by
  unfold meshPolygon at h
  obtain ⟨t, ht, h1⟩ := C01T.res_bind_ok_inv _ _ _ h
  split at h1
  · rename_i t2 hr
    injection h1 with h1
    subst h1
    exact Steps.invariant Inv hstep (refine_steps _ _ _ _ _ hr) (h0 t ht)
  · cases h1
  · cases h1

/-! ## an invariant carried through every step, also a failing one: live triangles passed `Triangle3D::new` -/

/-- the corners were accepted by `Triangle3D::new` (pairwise distinct and not collinear, by its tolerances) -/
def NewOk (t : V3 α × V3 α × V3 α) : Prop := ∃ tri, Triangle.new t.1 t.2.1 t.2.2 = .ok tri

def AllNewOk (l : List (Option (V3 α × V3 α × V3 α))) : Prop := ∀ t, some t ∈ l → NewOk t

/-- a `&mut self` computation after which — whatever its outcome — every live triangle is still one `Triangle3D::new` accepted -/
def PresNew {β : Type} (x : MeshM α β) : Prop :=
  ∀ m m' r, x m = (m', r) → AllNewOk (vgeom m) → AllNewOk (vgeom m')

theorem presNew_of_keepsV {β : Type} (x : MeshM α β) (h : KeepsV x) : PresNew x := by
  intro m m' r hx hm
  rw [keepsV_apply x h m m' r hx]; exact hm

theorem presNew_bind {β γ : Type} (x : MeshM α β) (f : β → MeshM α γ) (hx : PresNew x) (hf : ∀ b, PresNew (f b)) :
    PresNew (x >>= f) := by
  intro m m' r h hm
  change MeshM.bind x f m = _ at h
  unfold MeshM.bind at h
  cases hxm : x m with
  | mk m1 r1 =>
    rw [hxm] at h
    have h1 := hx m m1 r1 hxm hm
    cases r1 with
    | ok b => exact hf b m1 m' r h h1
    | err e => simp only [Prod.mk.injEq] at h; rw [← h.1]; exact h1
    | panic q => simp only [Prod.mk.injEq] at h; rw [← h.1]; exact h1

theorem allNewOk_set_none (l : List (Option (V3 α × V3 α × V3 α))) (i : Nat) (h : AllNewOk l) :
    AllNewOk (l.set i none) := by
  intro t ht
  rcases List.mem_or_eq_of_mem_set ht with h1 | h1
  · exact h t h1
  · cases h1

theorem allNewOk_added (l l' : List (Option (V3 α × V3 α × V3 α))) (t : V3 α × V3 α × V3 α) (h : AllNewOk l)
    (ht : NewOk t) (ha : Added l l' t) : AllNewOk l' := by
  intro x hx
  rcases ha with ha | ⟨n, _, ha⟩
  · rw [ha] at hx
    rcases List.mem_append.mp hx with h1 | h1
    · exact h x h1
    · simp at h1; rw [h1]; exact ht
  · rw [ha] at hx
    rcases List.mem_or_eq_of_mem_set hx with h1 | h1
    · exact h x h1
    · injection h1 with h1; rw [h1]; exact ht

theorem presNew_invalidate (i : Nat) : PresNew (invalidate i : MeshM α Unit) := by
  intro m m' r h hm
  cases r with
  | ok u =>
    obtain ⟨_, hv⟩ := invalidate_vgeom i m m' h
    rw [hv]; exact allNewOk_set_none _ _ hm
  | err e =>
    unfold invalidate at h
    simp only [] at h
    split at h
    · injection h with _ h2; cases h2
    · injection h with h1 _; rw [← h1]; exact hm
  | panic e =>
    unfold invalidate at h
    simp only [] at h
    split at h
    · injection h with _ h2; cases h2
    · injection h with _ h2; cases h2

theorem tripiece_new_newOk (a b c : V3 α) (i : Nat) (t : TriPiece α) (h : TriPiece.new a b c i = .ok t) : NewOk (a, b, c) := by
  unfold TriPiece.new at h
  cases htri : Triangle.new a b c with
  | err e => rw [htri] at h; cases h
  | panic e => rw [htri] at h; cases h
  | ok tri => exact ⟨tri, htri⟩

theorem presNew_push (a b c : V3 α) (la : Nat) : PresNew (Mesh.push a b c la : MeshM α Nat) := by
  intro m m' r h hm
  cases r with
  | ok n =>
    have ha := push_vgeom a b c la m m' n h
    refine allNewOk_added _ _ _ hm ?_ ha
    -- the new triangle went through `TriPiece::new`
    unfold Mesh.push at h
    simp only [Bind.bind, MeshM.bind, readR] at h
    cases hfi : m.getFirstInvalid la with
    | err e => rw [hfi] at h; simp at h
    | panic e => rw [hfi] at h; simp at h
    | ok fi =>
      rw [hfi] at h
      simp only [] at h
      cases fi with
      | none =>
        simp only [] at h
        cases ht : TriPiece.new a b c m.triangles.size with
        | err e => rw [ht] at h; simp [MeshM.err] at h
        | panic e => rw [ht] at h; simp [MeshM.panic] at h
        | ok t => exact tripiece_new_newOk _ _ _ _ t ht
      | some j =>
        simp only [] at h
        cases ht : TriPiece.new a b c j with
        | err e => rw [ht] at h; simp [MeshM.err] at h
        | panic e => rw [ht] at h; simp [MeshM.panic] at h
        | ok t => exact tripiece_new_newOk _ _ _ _ t ht
  | err e =>
    have : m' = m := by
      unfold Mesh.push at h
      simp only [Bind.bind, MeshM.bind, readR] at h
      cases hfi : m.getFirstInvalid la with
      | err e => rw [hfi] at h; simp at h; exact h.1.symm
      | panic e => rw [hfi] at h; simp at h
      | ok fi =>
        rw [hfi] at h
        simp only [] at h
        cases fi with
        | none =>
          simp only [] at h
          cases ht : TriPiece.new a b c m.triangles.size with
          | err e => rw [ht] at h; simp [MeshM.err] at h; exact h.1.symm
          | panic e => rw [ht] at h; simp [MeshM.panic] at h
          | ok t => rw [ht] at h; simp at h
        | some j =>
          simp only [] at h
          cases ht : TriPiece.new a b c j with
          | err e => rw [ht] at h; simp [MeshM.err] at h; exact h.1.symm
          | panic e => rw [ht] at h; simp [MeshM.panic] at h
          | ok t =>
            rw [ht] at h
            simp only [Bool.false_eq_true, if_false] at h
            split at h <;> simp at h
    rw [this]; exact hm
  | panic e =>
    have : m' = m := by
      unfold Mesh.push at h
      simp only [Bind.bind, MeshM.bind, readR] at h
      cases hfi : m.getFirstInvalid la with
      | err e => rw [hfi] at h; simp at h
      | panic e => rw [hfi] at h; simp at h; exact h.1.symm
      | ok fi =>
        rw [hfi] at h
        simp only [] at h
        cases fi with
        | none =>
          simp only [] at h
          cases ht : TriPiece.new a b c m.triangles.size with
          | err e => rw [ht] at h; simp [MeshM.err] at h
          | panic e => rw [ht] at h; simp [MeshM.panic] at h; exact h.1.symm
          | ok t => rw [ht] at h; simp at h
        | some j =>
          simp only [] at h
          cases ht : TriPiece.new a b c j with
          | err e => rw [ht] at h; simp [MeshM.err] at h
          | panic e => rw [ht] at h; simp [MeshM.panic] at h; exact h.1.symm
          | ok t =>
            rw [ht] at h
            simp only [Bool.false_eq_true, if_false] at h
            split at h
            · simp at h
            · simp at h; exact h.1.symm
    rw [this]; exact hm

theorem presNew_pure {β : Type} (b : β) : PresNew (MeshM.pure b : MeshM α β) := presNew_of_keepsV _ (keepsV_pure b)
theorem presNew_ofRes {β : Type} (r : Res β) : PresNew (ofRes r : MeshM α β) := presNew_of_keepsV _ (keepsV_ofRes r)
theorem presNew_readR {β : Type} (f : Mesh α → Res β) : PresNew (readR f) := presNew_of_keepsV _ (keepsV_readR f)
theorem presNew_err {β : Type} (k : String) : PresNew (MeshM.err k : MeshM α β) := presNew_of_keepsV _ (keepsV_err k)
theorem presNew_panic {β : Type} (k : String) : PresNew (MeshM.panic k : MeshM α β) := presNew_of_keepsV _ (keepsV_panic k)
theorem presNew_tgetM (i : Nat) (s : String) : PresNew (tgetM i s : MeshM α (TriPiece α)) :=
  presNew_of_keepsV _ (keepsV_tgetM i s)
theorem presNew_mark (i1 : Nat) (e : Edge) (i2 : Nat) : PresNew (markAsNeighbours i1 e i2 : MeshM α Unit) :=
  presNew_of_keepsV _ (keepsV_markAsNeighbours i1 e i2)
theorem presNew_optMark (o : Option Nat) (i : Nat) (e : Edge) :
    PresNew (match o with
      | some ni => markAsNeighbours i e ni
      | none => (MeshM.pure () : MeshM α Unit)) := presNew_of_keepsV _ (keepsV_optMark o i e)
theorem presNew_optConstrain (c : Bool) (i : Nat) (e : Edge) (s : String) :
    PresNew (if c then tmodifyM i (fun t => t.constrain e) s else (MeshM.pure () : MeshM α Unit)) :=
  presNew_of_keepsV _ (keepsV_optConstrain c i e s)

theorem presNew_splitTriangle (i : Nat) (p : V3 α) : PresNew (splitTriangle i p : MeshM α Unit) := by
  unfold splitTriangle
  refine presNew_bind _ _ (presNew_tgetM _ _) (fun tp => ?_)
  split
  · exact presNew_err _
  · refine presNew_bind _ _ (presNew_ofRes _) (fun _ => ?_)
    refine presNew_bind _ _ (presNew_ofRes _) (fun _ => ?_)
    refine presNew_bind _ _ (presNew_ofRes _) (fun _ => ?_)
    refine presNew_bind _ _ (presNew_invalidate _) (fun _ => ?_)
    refine presNew_bind _ _ (presNew_push _ _ _ _) (fun _ => ?_)
    refine presNew_bind _ _ (presNew_push _ _ _ _) (fun _ => ?_)
    refine presNew_bind _ _ (presNew_push _ _ _ _) (fun _ => ?_)
    refine presNew_bind _ _ (presNew_mark _ _ _) (fun _ => ?_)
    refine presNew_bind _ _ (presNew_mark _ _ _) (fun _ => ?_)
    refine presNew_bind _ _ (presNew_mark _ _ _) (fun _ => ?_)
    refine presNew_bind _ _ (presNew_optConstrain _ _ _ _) (fun _ => ?_)
    refine presNew_bind _ _ (presNew_optMark _ _ _) (fun _ => ?_)
    refine presNew_bind _ _ (presNew_optConstrain _ _ _ _) (fun _ => ?_)
    refine presNew_bind _ _ (presNew_optMark _ _ _) (fun _ => ?_)
    refine presNew_bind _ _ (presNew_optConstrain _ _ _ _) (fun _ => ?_)
    exact presNew_optMark _ _ _

theorem presNew_processHemisphere (seg : Segment α) (p : V3 α) (index : Nat) :
    PresNew (processHemisphere seg p index : MeshM α (Nat × Nat)) := by
  unfold processHemisphere
  refine presNew_bind _ _ (presNew_tgetM _ _) (fun tp => ?_)
  refine presNew_bind _ _ (presNew_ofRes _) (fun _ => ?_)
  refine presNew_bind _ _ (presNew_ofRes _) (fun _ => ?_)
  refine presNew_bind _ _ (presNew_ofRes _) (fun _ => ?_)
  refine presNew_bind _ _ (presNew_ofRes _) (fun _ => ?_)
  refine presNew_bind _ _ (presNew_ofRes _) (fun _ => ?_)
  refine presNew_bind _ _ (presNew_invalidate _) (fun _ => ?_)
  refine presNew_bind _ _ (presNew_tgetM _ _) (fun tp2 => ?_)
  refine presNew_bind _ _ (presNew_ofRes _) (fun _ => ?_)
  refine presNew_bind _ _ (presNew_ofRes _) (fun _ => ?_)
  refine presNew_bind _ _ (presNew_push _ _ _ _) (fun _ => ?_)
  refine presNew_bind _ _ (presNew_push _ _ _ _) (fun _ => ?_)
  refine presNew_bind _ _ (presNew_optConstrain _ _ _ _) (fun _ => ?_)
  refine presNew_bind _ _ (presNew_mark _ _ _) (fun _ => ?_)
  refine presNew_bind _ _ (presNew_optMark _ _ _) (fun _ => ?_)
  refine presNew_bind _ _ (presNew_optConstrain _ _ _ _) (fun _ => ?_)
  refine presNew_bind _ _ (presNew_optConstrain _ _ _ _) (fun _ => ?_)
  refine presNew_bind _ _ (presNew_optMark _ _ _) (fun _ => ?_)
  refine presNew_bind _ _ (presNew_optConstrain _ _ _ _) (fun _ => ?_)
  exact presNew_pure _

theorem presNew_splitEdge (i : Nat) (e : Edge) (p : V3 α) : PresNew (splitEdge i e p : MeshM α Unit) := by
  unfold splitEdge
  refine presNew_bind _ _ (presNew_tgetM _ _) (fun tp => ?_)
  split
  · exact presNew_err _
  · refine presNew_bind _ _ (presNew_ofRes _) (fun _ => ?_)
    refine presNew_bind _ _ (presNew_processHemisphere _ _ _) (fun r1 => ?_)
    obtain ⟨tl, tr⟩ := r1
    simp only []
    split
    · refine presNew_bind _ _ (presNew_processHemisphere _ _ _) (fun r2 => ?_)
      obtain ⟨br, bl⟩ := r2
      simp only []
      exact presNew_bind _ _ (presNew_mark _ _ _) (fun _ => presNew_mark _ _ _)
    · exact presNew_pure _

theorem presNew_flipDiagonal (index : Nat) (edge : Edge) : PresNew (flipDiagonal index edge : MeshM α Unit) := by
  unfold flipDiagonal
  refine presNew_bind _ _ (presNew_tgetM _ _) (fun tp => ?_)
  split
  · exact presNew_panic _
  · split
    · exact presNew_panic _
    · refine presNew_bind _ _ (presNew_tgetM _ _) (fun nb => ?_)
      split
      · exact presNew_panic _
      · refine presNew_bind _ _ (presNew_ofRes _) (fun _ => ?_)
        refine presNew_bind _ _ (presNew_ofRes _) (fun _ => ?_)
        refine presNew_bind _ _ (presNew_ofRes _) (fun _ => ?_)
        refine presNew_bind _ _ (presNew_ofRes _) (fun _ => ?_)
        refine presNew_bind _ _ (presNew_ofRes _) (fun _ => ?_)
        refine presNew_bind _ _ (presNew_ofRes _) (fun _ => ?_)
        refine presNew_bind _ _ (presNew_ofRes _) (fun _ => ?_)
        refine presNew_bind _ _ (presNew_ofRes _) (fun _ => ?_)
        refine presNew_bind _ _ (presNew_invalidate _) (fun _ => ?_)
        refine presNew_bind _ _ (presNew_invalidate _) (fun _ => ?_)
        refine presNew_bind _ _ (presNew_push _ _ _ _) (fun _ => ?_)
        refine presNew_bind _ _ (presNew_push _ _ _ _) (fun _ => ?_)
        refine presNew_bind _ _ (presNew_optMark _ _ _) (fun _ => ?_)
        refine presNew_bind _ _ (presNew_optConstrain _ _ _ _) (fun _ => ?_)
        refine presNew_bind _ _ (presNew_mark _ _ _) (fun _ => ?_)
        refine presNew_bind _ _ (presNew_optMark _ _ _) (fun _ => ?_)
        refine presNew_bind _ _ (presNew_optConstrain _ _ _ _) (fun _ => ?_)
        refine presNew_bind _ _ (presNew_optMark _ _ _) (fun _ => ?_)
        refine presNew_bind _ _ (presNew_optConstrain _ _ _ _) (fun _ => ?_)
        refine presNew_bind _ _ (presNew_optMark _ _ _) (fun _ => ?_)
        exact presNew_optConstrain _ _ _ _

/-- **every primitive step — successful or not — leaves only live triangles that `Triangle3D::new` accepted** -/
theorem step_allNewOk (a b : Mesh α) (h : Step a b) (ha : AllNewOk (vgeom a)) : AllNewOk (vgeom b) := by
  cases h with
  | splitT i p _ _ h => exact presNew_splitTriangle i p a b _ h ha
  | splitE i e p _ _ h => exact presNew_splitEdge i e p a b _ h ha
  | flip i e _ _ h => exact presNew_flipDiagonal i e a b _ h ha

/-! ## `from_polygon` establishes the invariant, `mesh_polygon` keeps it -/

theorem keepsV_markEdgeLoop (thisI otherI : Nat) : ∀ fuel e, KeepsV (markEdgeLoop thisI otherI fuel e : MeshM α Unit) := by
  intro fuel
  induction fuel with
  | zero => intro e; exact keepsV_pure _
  | succ f ih =>
    intro e
    unfold markEdgeLoop
    refine keepsV_bind _ _ (keepsV_tgetM _ _) (fun t => ?_)
    refine keepsV_bind _ _ (keepsV_ofRes _) (fun edge => ?_)
    refine keepsV_bind _ _ (keepsV_tgetM _ _) (fun o => ?_)
    split
    · refine keepsV_bind _ _ (keepsV_ofRes _) (fun e' => ?_)
      exact keepsV_markAsNeighbours _ _ _
    · exact ih _

theorem keepsV_markOtherLoop (thisI : Nat) : ∀ fuel o, KeepsV (markOtherLoop thisI fuel o : MeshM α Unit) := by
  intro fuel
  induction fuel with
  | zero => intro o; exact keepsV_pure _
  | succ f ih =>
    intro o
    unfold markOtherLoop
    exact keepsV_bind _ _ (keepsV_markEdgeLoop _ _ _ _) (fun _ => ih _)

theorem keepsV_markThisLoop (n : Nat) : ∀ fuel i, KeepsV (markThisLoop n fuel i : MeshM α Unit) := by
  intro fuel
  induction fuel with
  | zero => intro i; exact keepsV_pure _
  | succ f ih =>
    intro i
    unfold markThisLoop
    exact keepsV_bind _ _ (keepsV_markOtherLoop _ _ _) (fun _ => ih _)

theorem keepsV_markNeighbourhouds : KeepsV (markNeighbourhouds : MeshM α Unit) := by
  unfold markNeighbourhouds
  exact keepsV_bind _ _ (keepsV_readR _) (fun n => keepsV_markThisLoop _ _ _)

theorem keepsV_constrainIfContained (poly : Polygon α) (s : Segment α) (la k : Nat) :
    KeepsV (constrainIfContained poly s la k) := by
  unfold constrainIfContained
  refine keepsV_bind _ _ (keepsV_ofRes _) (fun c => ?_)
  split
  · refine keepsV_bind _ _ (keepsV_ofRes _) (fun e => ?_)
    exact keepsV_tmodifyM _ _ _ (fun t => slotV_constrain t _)
  · exact keepsV_pure _

theorem fromPolygonLoop_allNewOk (poly : Polygon α) : ∀ (fuel : Nat) (L : Loop α) (t t' : Mesh α) (anchor count : Nat),
    fromPolygonLoop poly fuel L t anchor count = .ok t' → AllNewOk (vgeom t) → AllNewOk (vgeom t') := by
  intro fuel
  induction fuel with
  | zero => intro L t t' anchor count h; simp [fromPolygonLoop] at h
  | succ f ih =>
    intro L t t' anchor count h ht
    rw [fromPolygonLoop] at h
    simp only [] at h
    split at h
    · cases h
    · split at h
      · cases h
      · cases h
      · rename_i L1 hL1
        split at h
        · split at h
          · rename_i t'' hm
            injection h with h
            subst h
            rw [keepsV_apply _ keepsV_markNeighbourhouds _ _ _ hm]; exact ht
          · cases h
          · cases h
        · split at h
          · cases h
          · obtain ⟨v0, _, h1⟩ := C01T.res_bind_ok_inv _ _ _ h
            clear h
            obtain ⟨v1, _, h2⟩ := C01T.res_bind_ok_inv _ _ _ h1
            clear h1
            obtain ⟨v2, _, h3⟩ := C01T.res_bind_ok_inv _ _ _ h2
            clear h2
            obtain ⟨isLine, _, h4⟩ := C01T.res_bind_ok_inv _ _ _ h3
            clear h3
            obtain ⟨isDiag, _, h5⟩ := C01T.res_bind_ok_inv _ _ _ h4
            clear h4
            obtain ⟨isEar, _, h⟩ := C01T.res_bind_ok_inv _ _ _ h5
            clear h5
            split at h
            · split at h
              · cases h
              · cases h
              · rename_i t1 hstep
                obtain ⟨L2, _, h6⟩ := C01T.res_bind_ok_inv _ _ _ h
                clear h
                refine ih _ _ _ _ _ h6 ?_
                refine (presNew_bind _ _ (presNew_push _ _ _ _) (fun _ => ?_)) t t1 _ hstep ht
                refine presNew_bind _ _ (presNew_of_keepsV _ (keepsV_constrainIfContained _ _ _ _)) (fun _ => ?_)
                refine presNew_bind _ _ (presNew_of_keepsV _ (keepsV_constrainIfContained _ _ _ _)) (fun _ => ?_)
                exact presNew_of_keepsV _ (keepsV_constrainIfContained _ _ _ _)
            · exact ih _ _ _ _ _ h ht

/-- **every live triangle of an `Ok` `from_polygon` was accepted by `Triangle3D::new`** -/
theorem fromPolygon_allNewOk (poly : Polygon α) (t : Mesh α) (h : fromPolygon poly = .ok t) : AllNewOk (vgeom t) := by
  unfold fromPolygon at h
  obtain ⟨L0, _, h1⟩ := C01T.res_bind_ok_inv _ _ _ h
  clear h
  split at h1
  · cases h1
  · cases h1
  · refine fromPolygonLoop_allNewOk poly _ _ _ _ _ _ h1 ?_
    intro x hx
    simp [vgeom, withCapacity] at hx

/-- **every live triangle `mesh_polygon` returns was accepted by `Triangle3D::new`**: no two corners within the coincidence
    tolerance, corners not collinear by the crate's test — through ear clipping and every refinement step -/
theorem meshPolygon_allNewOk (poly : Polygon α) (ma mar : α) (fuel : Nat) (t' : Mesh α)
    (h : meshPolygon poly ma mar fuel = .ok t') : AllNewOk (vgeom t') :=
  meshPolygon_invariant poly ma mar fuel t' (fun m => AllNewOk (vgeom m)) h (fromPolygon_allNewOk poly)
    (fun a b hs ha => step_allNewOk a b hs ha)

section Real
noncomputable section

/-- over ℝ, what `Triangle3D::new` accepted has pairwise distinct corners in the sense of `C08Split.Distinct` -/
theorem newOk_distinct (a b c : V3 ℝ) (h : NewOk (a, b, c)) :
    a.compare b = false ∧ b.compare c = false ∧ c.compare a = false := by
  obtain ⟨tri, htri⟩ := h
  obtain ⟨ha, hb, hc⟩ := C01T.triangle_new_abc a b c tri htri
  have hd := triangle_new_distinct a b c tri htri
  rw [Distinct, ha, hb, hc] at hd
  exact hd

end
end Real

end G3d.C08S
