import G3d.Props.C10
import G3d.Props.C06
/-!
# C10 — rigid motions only carry area, normal and centroid along (exact semantics)

`C10.lean` proves invariance under cyclic shift, reversal, translation and collinear insertion.  Here the rotations:
* `RigidLin f`: `f` is additive, preserves dot products and commutes with the cross product; the linear parts of `rotate_x/y/z`
  (for any `(c, s)` on the unit circle) are such maps, and so is every composition;
* `IsRigid t`: the matrix of the transform is affine with a `RigidLin` linear part; every chain `new(); t *= e₁; …` of
  translations and rotations — composed exactly as the crate composes them — is rigid (`isRigid_chainFrom`);
* `rigid_vector_area`: **the vector area of the carried outline is the carried vector area**; `area_rigid`: the area measured with
  the carried normal is unchanged; `dist_rigid`: all distances (hence the perimeter, edge by edge) are unchanged;
  `centroid_rigid`: the mean of the carried vertices is the carried mean.
-/
namespace G3d.C10
open G3d Num Shoelace C06

noncomputable section

/-- a linear map that preserves dot products and commutes with the cross product (a rotation) -/
def RigidLin (f : V3 ℝ → V3 ℝ) : Prop :=
  (∀ u v, f (u + v) = f u + f v) ∧ (∀ u v, (f u).dot (f v) = u.dot v) ∧ (∀ u v, (f u).cross (f v) = f (u.cross v))

theorem rigidLin_id : RigidLin (fun v => v) := ⟨fun _ _ => rfl, fun _ _ => rfl, fun _ _ => rfl⟩

theorem rigidLin_comp {f g : V3 ℝ → V3 ℝ} (hf : RigidLin f) (hg : RigidLin g) : RigidLin (fun v => f (g v)) := by
  obtain ⟨f1, f2, f3⟩ := hf
  obtain ⟨g1, g2, g3⟩ := hg
  refine ⟨fun u v => by show f (g (u + v)) = f (g u) + f (g v); rw [g1, f1],
    fun u v => by show (f (g u)).dot (f (g v)) = _; rw [f2, g2],
    fun u v => by show (f (g u)).cross (f (g v)) = f (g (u.cross v)); rw [f3, g3]⟩

theorem rigidLin_zero {f : V3 ℝ → V3 ℝ} (hf : RigidLin f) : f ⟨0, 0, 0⟩ = ⟨0, 0, 0⟩ := by
  have h := hf.2.2 ⟨0, 0, 0⟩ ⟨0, 0, 0⟩
  have hz : (⟨0, 0, 0⟩ : V3 ℝ).cross ⟨0, 0, 0⟩ = ⟨0, 0, 0⟩ := by v3_ring
  rw [hz] at h
  rw [← h]; v3_ring

theorem rotX_rigid {c s : ℝ} (h : c ^ 2 + s ^ 2 = 1) : RigidLin (Transform.rotXcs c s).m.mulVec := by
  refine ⟨fun u v => ?_, fun u v => rotX_dot h u v, fun u v => ?_⟩
  · simp only [Transform.rotXcs, M4.mulVec, M4.identity]; v3_ring
  · simp only [Transform.rotXcs, M4.mulVec, M4.identity]
    apply V3.ext' <;> simp only [V3.cross] <;> num_real
    · linear_combination (u.y * v.z - u.z * v.y) * h
    · ring
    · ring

theorem rotY_rigid {c s : ℝ} (h : c ^ 2 + s ^ 2 = 1) : RigidLin (Transform.rotYcs c s).m.mulVec := by
  refine ⟨fun u v => ?_, fun u v => rotY_dot h u v, fun u v => ?_⟩
  · simp only [Transform.rotYcs, M4.mulVec, M4.identity]; v3_ring
  · simp only [Transform.rotYcs, M4.mulVec, M4.identity]
    apply V3.ext' <;> simp only [V3.cross] <;> num_real
    · ring
    · linear_combination (u.z * v.x - u.x * v.z) * h
    · ring

theorem rotZ_rigid {c s : ℝ} (h : c ^ 2 + s ^ 2 = 1) : RigidLin (Transform.rotZcs c s).m.mulVec := by
  refine ⟨fun u v => ?_, fun u v => rotZ_dot h u v, fun u v => ?_⟩
  · simp only [Transform.rotZcs, M4.mulVec, M4.identity]; v3_ring
  · simp only [Transform.rotZcs, M4.mulVec, M4.identity]
    apply V3.ext' <;> simp only [V3.cross] <;> num_real
    · ring
    · ring
    · linear_combination (u.x * v.y - u.y * v.x) * h

/-- a rotation carries the shoelace sum along -/
theorem pathSum_map {f : V3 ℝ → V3 ℝ} (hf : RigidLin f) : ∀ l : List (V3 ℝ), pathSum (l.map f) = f (pathSum l) := by
  intro l
  induction l with
  | nil => simp [rigidLin_zero hf]
  | cons a t ih =>
    cases t with
    | nil => simp [rigidLin_zero hf]
    | cons b t' =>
      simp only [List.map_cons] at ih ⊢
      rw [pathSum_cons2, pathSum_cons2, hf.1, hf.2.2, ih]

theorem cyc_map {f : V3 ℝ → V3 ℝ} (hf : RigidLin f) (vs : List (V3 ℝ)) : cyc (vs.map f) = f (cyc vs) := by
  cases vs with
  | nil => simp [cyc, rigidLin_zero hf]
  | cons a t =>
    show pathSum ((a :: t).map f ++ [f a]) = f (pathSum (a :: t ++ [a]))
    have : (a :: t).map f ++ [f a] = (a :: t ++ [a]).map f := by simp
    rw [this, pathSum_map hf]

/-- a transform that is a rotation followed by a translation -/
def IsRigid (t : Transform ℝ) : Prop := M4.Affine t.m ∧ RigidLin t.m.mulVec

theorem transformPt_rigid {t : Transform ℝ} (h : IsRigid t) (p : V3 ℝ) :
    t.transformPt p = t.m.mulVec p + ⟨t.m.a03, t.m.a13, t.m.a23⟩ := by
  obtain ⟨⟨h0, h1, h2, h3⟩, _⟩ := h
  simp only [Transform.transformPt, M4.mulPoint, M4.mulVec, h0, h1, h2, h3]
  apply V3.ext' <;> simp only [V3.add_def, V3.sdiv] <;> num_real <;> simp

/-- **a rigid motion carries the vector area of an outline along** (rotated, not changed by the translation) -/
theorem rigid_vector_area {t : Transform ℝ} (h : IsRigid t) (vs : List (V3 ℝ)) :
    cyc (vs.map t.transformPt) = t.transformVec (cyc vs) := by
  have e : vs.map t.transformPt = (vs.map t.m.mulVec).map (· + ⟨t.m.a03, t.m.a13, t.m.a23⟩) := by
    rw [List.map_map]
    apply List.map_congr_left
    intro p _
    exact transformPt_rigid h p
  rw [e, cyc_translate, cyc_map h.2]
  rfl

/-- … hence the area `|n · V| / 2` measured with the carried normal is unchanged -/
theorem area_rigid {t : Transform ℝ} (h : IsRigid t) (vs : List (V3 ℝ)) (n : V3 ℝ) :
    |(t.transformVec n).dot (cyc (vs.map t.transformPt)) / 2| = |n.dot (cyc vs) / 2| := by
  rw [rigid_vector_area h]
  show |(t.m.mulVec n).dot (t.m.mulVec (cyc vs)) / 2| = _
  rw [h.2.2.1]

/-- distances between carried points are unchanged (so is the perimeter, edge by edge) -/
theorem dist_rigid {t : Transform ℝ} (h : IsRigid t) (p q : V3 ℝ) :
    (t.transformPt p - t.transformPt q).lengthSquared = (p - q).lengthSquared := by
  rw [transformPt_rigid h, transformPt_rigid h]
  have e : t.m.mulVec p + ⟨t.m.a03, t.m.a13, t.m.a23⟩ - (t.m.mulVec q + ⟨t.m.a03, t.m.a13, t.m.a23⟩)
      = t.m.mulVec p - t.m.mulVec q := by v3_ring
  rw [e]
  have hsub : t.m.mulVec p - t.m.mulVec q = t.m.mulVec (p - q) := by
    simp only [M4.mulVec]; v3_ring
  rw [hsub]
  have := h.2.2.1 (p - q) (p - q)
  simpa [V3.lengthSquared, V3.dot] using this

/-! ### chains of translations and rotations are rigid -/

theorem isRigid_new : IsRigid (Transform.new : Transform ℝ) := by
  refine ⟨M4.affine_identity, ?_⟩
  have : (Transform.new : Transform ℝ).m.mulVec = fun v => v := by
    funext v; simp only [Transform.new, M4.mulVec, M4.identity]; v3_ring
  rw [this]; exact rigidLin_id

theorem isRigid_translate (x y z : ℝ) : IsRigid (Transform.translate x y z) := by
  refine ⟨by simp only [M4.Affine, Transform.translate, M4.identity]; num_real; simp, ?_⟩
  have : (Transform.translate x y z).m.mulVec = fun v => v := by
    funext v; simp only [Transform.translate, M4.mulVec, M4.identity]; v3_ring
  rw [this]; exact rigidLin_id

theorem isRigid_rotX {c s : ℝ} (h : c ^ 2 + s ^ 2 = 1) : IsRigid (Transform.rotXcs c s) :=
  ⟨by simp only [M4.Affine, Transform.rotXcs, M4.identity]; num_real; simp, rotX_rigid h⟩
theorem isRigid_rotY {c s : ℝ} (h : c ^ 2 + s ^ 2 = 1) : IsRigid (Transform.rotYcs c s) :=
  ⟨by simp only [M4.Affine, Transform.rotYcs, M4.identity]; num_real; simp, rotY_rigid h⟩
theorem isRigid_rotZ {c s : ℝ} (h : c ^ 2 + s ^ 2 = 1) : IsRigid (Transform.rotZcs c s) :=
  ⟨by simp only [M4.Affine, Transform.rotZcs, M4.identity]; num_real; simp, rotZ_rigid h⟩

theorem isRigid_mulAssign {a b : Transform ℝ} (ha : IsRigid a) (hb : IsRigid b) : IsRigid (a.mulAssign b) := by
  refine ⟨M4.affine_mul ha.1 hb.1, ?_⟩
  have : (a.mulAssign b).m.mulVec = fun v => a.m.mulVec (b.m.mulVec v) := by
    funext v; exact mulVec_mul a.m hb.1 v
  rw [this]; exact rigidLin_comp ha.2 hb.2

/-- the elementary transforms that move without deforming: translations and rotations (no scaling) -/
def Elem.Rigid : Elem → Prop
  | .id => True
  | .translate _ _ _ => True
  | .scale _ _ _ => False
  | .rotX c s => c ^ 2 + s ^ 2 = 1
  | .rotY c s => c ^ 2 + s ^ 2 = 1
  | .rotZ c s => c ^ 2 + s ^ 2 = 1

theorem isRigid_elem {e : Elem} (h : Elem.Rigid e) : IsRigid e.toT := by
  cases e with
  | id => exact isRigid_new
  | translate x y z => exact isRigid_translate x y z
  | scale x y z => exact absurd h (by simp [Elem.Rigid])
  | rotX c s => exact isRigid_rotX h
  | rotY c s => exact isRigid_rotY h
  | rotZ c s => exact isRigid_rotZ h

theorem isRigid_chainFrom {t : Transform ℝ} (ht : IsRigid t) (l : List Elem) (hl : ∀ e ∈ l, Elem.Rigid e) :
    IsRigid (chainFrom t l) := by
  induction l generalizing t with
  | nil => exact ht
  | cons e l ih =>
    exact ih (isRigid_mulAssign ht (isRigid_elem (hl e List.mem_cons_self))) (fun e' he' => hl e' (List.mem_cons_of_mem _ he'))

/-- **every chain of translations and rotations (as the crate composes them with `*=`) is a rigid motion: it carries the vector
    area of any outline along, keeps the area measured with the carried normal and all distances** -/
theorem chain_rigid (l : List Elem) (hl : ∀ e ∈ l, Elem.Rigid e) (vs : List (V3 ℝ)) (n p q : V3 ℝ) :
    cyc (vs.map (chain l).transformPt) = (chain l).transformVec (cyc vs) ∧
    |((chain l).transformVec n).dot (cyc (vs.map (chain l).transformPt)) / 2| = |n.dot (cyc vs) / 2| ∧
    ((chain l).transformPt p - (chain l).transformPt q).lengthSquared = (p - q).lengthSquared := by
  have h := isRigid_chainFrom isRigid_new l hl
  exact ⟨rigid_vector_area h vs, area_rigid h vs n, dist_rigid h p q⟩

/-- the mean of the vertices (what `centroid()` returns: `C10.centroid_real`) -/
def meanPt (vs : List (V3 ℝ)) : V3 ℝ :=
  ⟨(vs.map (·.x)).sum / vs.length, (vs.map (·.y)).sum / vs.length, (vs.map (·.z)).sum / vs.length⟩

theorem sums_affine (m : M4 ℝ) (vs : List (V3 ℝ)) :
    ((vs.map (fun p => m.mulVec p + ⟨m.a03, m.a13, m.a23⟩)).map (·.x)).sum
      = m.a00 * (vs.map (·.x)).sum + m.a01 * (vs.map (·.y)).sum + m.a02 * (vs.map (·.z)).sum + vs.length * m.a03 ∧
    ((vs.map (fun p => m.mulVec p + ⟨m.a03, m.a13, m.a23⟩)).map (·.y)).sum
      = m.a10 * (vs.map (·.x)).sum + m.a11 * (vs.map (·.y)).sum + m.a12 * (vs.map (·.z)).sum + vs.length * m.a13 ∧
    ((vs.map (fun p => m.mulVec p + ⟨m.a03, m.a13, m.a23⟩)).map (·.z)).sum
      = m.a20 * (vs.map (·.x)).sum + m.a21 * (vs.map (·.y)).sum + m.a22 * (vs.map (·.z)).sum + vs.length * m.a23 := by
  induction vs with
  | nil => simp
  | cons p t ih =>
    obtain ⟨i1, i2, i3⟩ := ih
    simp only [List.map_cons, List.sum_cons, List.length_cons, Nat.cast_add, Nat.cast_one]
    rw [i1, i2, i3]
    simp only [M4.mulVec, V3.add_def]
    num_real
    refine ⟨by ring, by ring, by ring⟩

/-- **a rigid motion (indeed any affine map) carries the centroid along** -/
theorem centroid_rigid {t : Transform ℝ} (h : IsRigid t) (vs : List (V3 ℝ)) (hne : vs ≠ []) :
    meanPt (vs.map t.transformPt) = t.transformPt (meanPt vs) := by
  have e : vs.map t.transformPt = vs.map (fun p => t.m.mulVec p + ⟨t.m.a03, t.m.a13, t.m.a23⟩) := by
    apply List.map_congr_left
    intro p _
    exact transformPt_rigid h p
  have hn : (vs.length : ℝ) ≠ 0 := by
    have : vs.length ≠ 0 := by simpa using hne
    exact_mod_cast this
  rw [transformPt_rigid h, e]
  obtain ⟨s1, s2, s3⟩ := sums_affine t.m vs
  simp only [meanPt, List.length_map]
  rw [s1, s2, s3]
  simp only [M4.mulVec, V3.add_def]
  num_real
  apply V3.ext' <;> simp only [] <;> field_simp

end
end G3d.C10
