import G3d.Props.C02b
import G3d.Model.Source
/-!
# C03 — rays that clearly hit are reported, nearest crossing first (exact semantics, exact inputs)

* `mt_complete`: a ray that crosses the open triangle at a parameter `t > 100·EPSILON`, not parallel to its plane
  (`|a| ≥ 100·EPSILON`), is reported — with exactly that point and those barycentric coordinates.
* `plane_complete`, `plane_behind_none`.
* quadrics (sphere, cylinder): `select_first`: the nearer root is returned whenever it is positive and passes the clips;
  `select_second_only_if`: the farther root is returned only if the nearer one is non-positive or clipped;
  `select_none_iff`: nothing is returned iff neither root is positive-and-unclipped; `miss_none` (negative discriminant),
  `behind_none` (both roots non-positive).  `sphere_nearest` / `cyl_nearest` instantiate them for the two shapes.
-/
namespace G3d.C03
open G3d Num C06 C17 C02

noncomputable section

/-- **Möller–Trumbore is complete away from its thresholds** -/
theorem mt_complete {ray : Ray ℝ} {v0 v1 v2 : V3 ℝ} {t u v : ℝ}
    (hpt : ray.project t = v0 + (v1 - v0).smul u + (v2 - v0).smul v)
    (hu : 0 ≤ u) (hv : 0 ≤ v) (huv : u + v ≤ 1) (ht : (tiny100 : ℝ) < t)
    (hdet : (tiny100 : ℝ) * (v1 - v0).length * (ray.direction.cross (v2 - v0)).length
      < |(v1 - v0).dot (ray.direction.cross (v2 - v0))|) :
    intersectTriangle ray v0 v1 v2 = some (ray.project t, u, v) := by
  have tp := tiny_pos
  obtain ⟨a, ha⟩ : ∃ a, a = (v1 - v0).dot (ray.direction.cross (v2 - v0)) := ⟨_, rfl⟩
  obtain ⟨su, hsu⟩ : ∃ su, su = (ray.origin - v0).dot (ray.direction.cross (v2 - v0)) := ⟨_, rfl⟩
  obtain ⟨sv, hsv⟩ : ∃ sv, sv = ray.direction.dot ((ray.origin - v0).cross (v1 - v0)) := ⟨_, rfl⟩
  obtain ⟨st, hst⟩ : ∃ st, st = (v2 - v0).dot ((ray.origin - v0).cross (v1 - v0)) := ⟨_, rfl⟩
  rw [← ha] at hdet
  have hL1 : 0 ≤ (v1 - v0).length := by simp only [V3.length, real_sqrt]; exact Real.sqrt_nonneg _
  have hL2 : 0 ≤ (ray.direction.cross (v2 - v0)).length := by simp only [V3.length, real_sqrt]; exact Real.sqrt_nonneg _
  have hτ : 0 ≤ (tiny100 : ℝ) * (v1 - v0).length * (ray.direction.cross (v2 - v0)).length :=
    mul_nonneg (mul_nonneg tp.le hL1) hL2
  have hane : a ≠ 0 := by
    intro h0; rw [h0] at hdet; simp only [abs_zero] at hdet; linarith
  -- Cramer: the computed coordinates are the given ones
  have key : su = u * a ∧ sv = v * a ∧ st = t * a := by
    obtain ⟨⟨ox, oy, oz⟩, ⟨dx, dy, dz⟩⟩ := ray
    obtain ⟨x0, y0, z0⟩ := v0; obtain ⟨x1, y1, z1⟩ := v1; obtain ⟨x2, y2, z2⟩ := v2
    vec_real_at hpt; vec_real_at ha; vec_real_at hsu; vec_real_at hsv; vec_real_at hst
    obtain ⟨e1, e2, e3⟩ := hpt
    have ox' : ox = x0 + (x1 - x0) * u + (x2 - x0) * v - dx * t := by linarith
    have oy' : oy = y0 + (y1 - y0) * u + (y2 - y0) * v - dy * t := by linarith
    have oz' : oz = z0 + (z1 - z0) * u + (z2 - z0) * v - dz * t := by linarith
    subst ox' oy' oz'
    refine ⟨?_, ?_, ?_⟩
    · rw [hsu, ha]; ring
    · rw [hsv, ha]; ring
    · rw [hst, ha]; ring
  have eu : 1 / a * su = u := by rw [key.1]; field_simp
  have ev : 1 / a * sv = v := by rw [key.2.1]; field_simp
  have et : 1 / a * st = t := by rw [key.2.2]; field_simp
  rw [intersectTriangle_eq]
  simp only []
  rw [← ha, ← hsu, ← hsv, ← hst]
  generalize (tiny100 : ℝ) = tiny at *
  have c1 : (|a| <=. tiny * (v1 - v0).length * (ray.direction.cross (v2 - v0)).length) = false := by
    bool_real; num_real
    exact hdet
  have c2 : (!((0:ℝ) <=. u && u <=. (1:ℝ))) = false := by
    bool_real; exact ⟨hu, by linarith⟩
  have c3 : (!((0:ℝ) <=. v && v <=. (1:ℝ)) || (u + v) >. (1:ℝ)) = false := by
    bool_real; exact ⟨⟨hv, by linarith⟩, huv⟩
  have c4 : (t >. tiny) = true := by
    bool_real; exact ht
  num_real
  simp only [eu, ev, et, c1, c2, c3, c4, Bool.false_eq_true, if_false, if_true]

/-- a ray that meets the plane in front of its origin, not (nearly) parallel to it, is reported at that parameter -/
theorem plane_complete {c n : V3 ℝ} {ray : Ray ℝ} {t : ℝ} (ht : 0 ≤ t)
    (hon : n.normalize.dot (ray.project t - c) = 0)
    (hden : (Num.eps : ℝ) ≤ |n.normalize.dot ray.direction|) :
    (Plane.new c n).intersect ray = some t := by
  have ep := eps_pos
  unfold Plane.intersect Plane.new
  simp only []
  generalize (Num.eps : ℝ) = e at *
  obtain ⟨m, hm⟩ : ∃ m, m = n.normalize := ⟨_, rfl⟩
  rw [← hm] at hon hden ⊢
  have hne : m.dot ray.direction ≠ 0 := by
    intro h0; rw [h0] at hden; simp at hden; linarith
  have c1 : (|m.dot ray.direction| <. e) = false := by bool_real; exact hden
  have et : (m.dot c - m.dot ray.origin) / m.dot ray.direction = t := by
    obtain ⟨⟨ox, oy, oz⟩, ⟨dx, dy, dz⟩⟩ := ray
    obtain ⟨mx, my, mz⟩ := m; obtain ⟨cx, cy, cz⟩ := c
    vec_real_at hon; vec_real_at hne
    vec_real
    field_simp
    linarith
  num_real
  rw [et]
  have c2 : (t <. (0:ℝ)) = false := by bool_real; exact ht
  simp only [c1, c2, Bool.false_eq_true, if_false]

/-- a plane entirely behind the origin (negative parameter) is not reported -/
theorem plane_behind_none {c n : V3 ℝ} {ray : Ray ℝ}
    (h : ((Plane.new c n).d - (Plane.new c n).normal.dot ray.origin) / (Plane.new c n).normal.dot ray.direction < 0) :
    (Plane.new c n).intersect ray = none := by
  unfold Plane.intersect
  simp only []
  split_ifs with h1 h2
  · rfl
  · rfl
  · bool_real_at h2; num_real_at h2; exact absurd h (not_lt.2 h2)

/-! ## quadrics: nearest valid crossing first -/

variable {calcF : ℝ → V3 ℝ × ℝ} {clip : V3 ℝ → ℝ → Bool} {t0 t1 : ℝ}

/-- **the nearer root wins whenever it is in front of the origin and unclipped** -/
theorem select_first (h0 : 0 < t0) (h01 : t0 ≤ t1) (hc : clip (calcF t0).1 (calcF t0).2 = false) :
    selectSpec calcF clip t0 t1 = some (calcF t0) := by
  unfold selectSpec
  have : ¬ t1 ≤ 0 := by linarith
  simp [this, h0, hc]

/-- **the farther root is reported only when the nearer one is behind the origin or clipped away** -/
theorem select_second_only_if {r : V3 ℝ × ℝ} (h : selectSpec calcF clip t0 t1 = some r) :
    (0 < t0 ∧ clip (calcF t0).1 (calcF t0).2 = false ∧ r = calcF t0) ∨
    ((t0 ≤ 0 ∨ clip (calcF t0).1 (calcF t0).2 = true) ∧ 0 < t1 ∧ clip (calcF t1).1 (calcF t1).2 = false ∧ r = calcF t1) := by
  unfold selectSpec at h
  split_ifs at h with c1 c2 c3
  · left; simp only [Option.some.injEq] at h; exact ⟨c2.1, c2.2, h.symm⟩
  · right; simp only [Option.some.injEq] at h
    refine ⟨?_, not_le.1 c1, c3, h.symm⟩
    by_contra hc
    push Not at hc
    exact c2 ⟨hc.1, by simpa using hc.2⟩

/-- the second crossing is reported when the first is clipped (or behind) and the second is valid -/
theorem select_second (h1 : 0 < t1) (hfirst : t0 ≤ 0 ∨ clip (calcF t0).1 (calcF t0).2 = true)
    (hc : clip (calcF t1).1 (calcF t1).2 = false) :
    selectSpec calcF clip t0 t1 = some (calcF t1) := by
  unfold selectSpec
  have n1 : ¬ t1 ≤ 0 := by linarith
  have n2 : ¬ (0 < t0 ∧ clip (calcF t0).1 (calcF t0).2 = false) := by
    rintro ⟨a, b⟩
    rcases hfirst with h | h
    · linarith
    · rw [h] at b; exact absurd b (by simp)
  simp [n1, n2, hc]

/-- nothing is reported iff neither root is positive and unclipped -/
theorem select_none_iff (h01 : t0 ≤ t1) :
    selectSpec calcF clip t0 t1 = none ↔
      ¬ (0 < t0 ∧ clip (calcF t0).1 (calcF t0).2 = false) ∧ ¬ (0 < t1 ∧ clip (calcF t1).1 (calcF t1).2 = false) := by
  unfold selectSpec
  by_cases c1 : t1 ≤ 0
  · simp only [c1, if_true, true_iff]
    exact ⟨fun ⟨a, _⟩ => by linarith, fun ⟨a, _⟩ => by linarith⟩
  · by_cases c2 : 0 < t0 ∧ clip (calcF t0).1 (calcF t0).2 = false
    · simp [c1, c2]
    · have t1pos : 0 < t1 := not_le.1 c1
      by_cases c3 : clip (calcF t1).1 (calcF t1).2 = false
      · simp [c1, c2, c3, t1pos]
      · simp [c1, c2, c3]

/-- **a clear miss (negative discriminant) reports nothing** — sphere and cylinder -/
theorem sphere_miss_none {s : Sphere ℝ} {ray : Ray ℝ}
    (h : sphB ray * sphB ray - sphA ray * sphC s.radius ray * 4 < 0) :
    s.approxBasicIntersection ray ⟨0, 0, 0⟩ ⟨0, 0, 0⟩ = none := by
  rw [sphere_basic_exact s ray _ _ _ (sphere_quad_point s ray)]
  simp [sortedRoots, h]

theorem cyl_miss_none {s : Cylinder ℝ} {ray : Ray ℝ}
    (h : cylB ray * cylB ray - cylA ray * cylC s.radius ray * 4 < 0) :
    s.basicIntersection ray ⟨0, 0, 0⟩ ⟨0, 0, 0⟩ = none := by
  rw [cyl_basic_exact s ray _ _ _ (cyl_quad_point s ray)]
  simp [sortedRoots, h]

/-- **sphere: the first crossing is reported when valid; the second only when the first is clipped or behind;
    nothing when the surface is entirely behind the origin** -/
theorem sphere_nearest {s : Sphere ℝ} {ray : Ray ℝ} {t0 t1 : ℝ}
    (hs : sortedRoots (sphA ray) (sphB ray) (sphC s.radius ray) = some (t0, t1)) :
    let calcF := fun t => s.calcPhitAndPhi ray (pt t)
    (0 < t0 → s.clipped (calcF t0).1 (calcF t0).2 = false →
        s.approxBasicIntersection ray ⟨0, 0, 0⟩ ⟨0, 0, 0⟩ = some (calcF t0)) ∧
    (0 < t1 → (t0 ≤ 0 ∨ s.clipped (calcF t0).1 (calcF t0).2 = true) → s.clipped (calcF t1).1 (calcF t1).2 = false →
        s.approxBasicIntersection ray ⟨0, 0, 0⟩ ⟨0, 0, 0⟩ = some (calcF t1)) ∧
    (t1 ≤ 0 → s.approxBasicIntersection ray ⟨0, 0, 0⟩ ⟨0, 0, 0⟩ = none) := by
  intro calcF
  have h01 := (sortedRoots_mem hs).2.2.2
  rw [sphere_basic_exact s ray _ _ _ (sphere_quad_point s ray), hs]
  refine ⟨fun a b => select_first a h01 b, fun a b c => select_second a b c, fun a => ?_⟩
  simp [selectSpec, a]

theorem cyl_nearest {s : Cylinder ℝ} {ray : Ray ℝ} {t0 t1 : ℝ}
    (hs : sortedRoots (cylA ray) (cylB ray) (cylC s.radius ray) = some (t0, t1)) :
    let calcF := fun t => s.calcPhitAndPhi ray (pt t)
    (0 < t0 → s.clipped (calcF t0).1 (calcF t0).2 = false →
        s.basicIntersection ray ⟨0, 0, 0⟩ ⟨0, 0, 0⟩ = some (calcF t0)) ∧
    (0 < t1 → (t0 ≤ 0 ∨ s.clipped (calcF t0).1 (calcF t0).2 = true) → s.clipped (calcF t1).1 (calcF t1).2 = false →
        s.basicIntersection ray ⟨0, 0, 0⟩ ⟨0, 0, 0⟩ = some (calcF t1)) ∧
    (t1 ≤ 0 → s.basicIntersection ray ⟨0, 0, 0⟩ ⟨0, 0, 0⟩ = none) := by
  intro calcF
  have h01 := (sortedRoots_mem hs).2.2.2
  rw [cyl_basic_exact s ray _ _ _ (cyl_quad_point s ray), hs]
  refine ⟨fun a b => select_first a h01 b, fun a b c => select_second a b c, fun a => ?_⟩
  simp [selectSpec, a]

/-! ## disks -/

/-- **a full disk (or annulus) reports every ray that crosses its plane inside the ring, in front of the origin** -/
theorem disk_complete {s : Disk ℝ} {ray : Ray ℝ} {t : ℝ} (oe de : V3 ℝ) (ht : 0 ≤ t)
    (hon : s.normal.normalize.dot (ray.project t - s.centre) = 0)
    (hden : (Num.eps : ℝ) ≤ |s.normal.normalize.dot ray.direction|)
    (hr1 : s.innerRadius * s.innerRadius ≤ (ray.project t - s.centre).lengthSquared)
    (hr2 : (ray.project t - s.centre).lengthSquared ≤ s.radius * s.radius)
    (hfull : 2 * Real.pi ≤ s.phiMax) :
    ∃ phi, s.basicIntersection ray oe de = some (ray.project t, phi) := by
  unfold Disk.basicIntersection
  simp only []
  rw [plane_complete ht hon hden]
  simp only []
  have c1 : ((ray.project t - s.centre).lengthSquared >. s.radius * s.radius ||
      (ray.project t - s.centre).lengthSquared <. s.innerRadius * s.innerRadius) = false := by
    bool_real; exact ⟨hr2, hr1⟩
  simp only [c1, Bool.false_eq_true, if_false]
  -- the angle is in [0, 2π)
  obtain ⟨a, ha⟩ : ∃ a : ℝ, a = Num.atan2 ((-(ray.project t - s.centre)).dot (s.phiZero.cross s.normal))
      ((ray.project t - s.centre).dot s.phiZero) := ⟨_, rfl⟩
  rw [← ha]
  have hle : a ≤ Real.pi := by rw [ha]; exact Complex.arg_le_pi _
  have hpi := Real.pi_pos
  split
  · split
    · rename_i hneg hc
      exfalso
      bool_real_at hneg
      num_real_at hneg
      bool_real_at hc
      num_real_at hc
      have hc' : s.phiMax < a + 2 * Real.pi := hc
      linarith
    · exact ⟨_, rfl⟩
  · split
    · rename_i hneg hc
      exfalso
      bool_real_at hc
      have : a ≤ s.phiMax := by linarith
      exact absurd hc (not_lt.2 this)
    · exact ⟨_, rfl⟩


/-! ## distant source -/

/-- **the distant source** (cone half-angle test, exact semantics): a ray "hits" it exactly when the cosine of the angle between
    its (normalised) direction and the source's direction is at least `cos(α/2)`; the reported point is then the point of
    the ray at the largest finite parameter — on the ray, at a positive distance -/
theorem source_hit_iff (s : Source ℝ) (ray : Ray ℝ) (oe de : V3 ℝ) (p : V3 ℝ) :
    s.simpleIntersectLocalRay ray oe de = some p ↔
      s.cosHalfAlpha ≤ ray.direction.normalize.dot s.direction ∧ p = ray.project (Num.maxv : ℝ) := by
  unfold Source.simpleIntersectLocalRay
  simp only []
  by_cases h : s.cosHalfAlpha ≤ ray.direction.normalize.dot s.direction
  · have hc : (ray.direction.normalize.dot s.direction >=. s.cosHalfAlpha) = true := by bool_real; exact h
    rw [if_pos hc]
    constructor
    · intro hp; injection hp with hp; exact ⟨h, hp.symm⟩
    · rintro ⟨_, rfl⟩; rfl
  · have hc : ¬ ((ray.direction.normalize.dot s.direction >=. s.cosHalfAlpha) = true) := by bool_real; exact not_le.1 h
    rw [if_neg hc]
    constructor
    · intro hp; cases hp
    · rintro ⟨h', _⟩; exact absurd h' h

/-- nothing is reported for a ray outside the cone -/
theorem source_miss_none (s : Source ℝ) (ray : Ray ℝ) (oe de : V3 ℝ)
    (h : ray.direction.normalize.dot s.direction < s.cosHalfAlpha) : s.simpleIntersectLocalRay ray oe de = none := by
  cases hr : s.simpleIntersectLocalRay ray oe de with
  | none => rfl
  | some p => exact absurd ((source_hit_iff s ray oe de p).1 hr).1 (not_le.2 h)


end
end G3d.C03
