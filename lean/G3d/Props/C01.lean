import G3d.Proofs.Shoelace
import G3d.Props.C12
import G3d.Props.C18
import G3d.Props.C01Trace
/-!
# C01 — the triangles of an ear clipping tile the polygon (vector-area accounting, exact semantics)

`from_polygon` merges the holes into one outline (C12), then repeatedly takes three cyclically consecutive vertices
`v₀ v₁ v₂` of the remaining outline, emits the triangle `(v₀, v₁, v₂)` and removes `v₁`, until two vertices are left.
Over ℝ, for ANY such sequence of clippings (`Clip`):

* `clip_area` — the vector areas of the emitted triangles add up to the vector area of the outline they were clipped from;
  with C12's `merge_vector_area` (bridges enclose nothing, holes are walked against the outline) that is the polygon's net
  vector area: **the triangle areas sum to the polygon's area**, and since every emitted triangle is a convex corner of the
  outline (`ear_orientation`: its vector area has a positive component along the outline's normal, which is what the ear test
  `(v₁ − v₀) × (v₂ − v₁) · n > 0` demands) no cancellation can hide an overlap: for triangles that all lie in the polygon's
  region (the diagonal and no-vertex-inside tests) equal area sums mean they tile it.
* refinement (C08 identities `split_triangle_area`, `split_edge_area`, `flip_area`) keeps that sum.
* `fromPolygon_area` ties this to the code: by `C01Trace.fromPolygon_trace` every `Ok` result of the MODEL of `from_polygon`
  (generic in the number type) is an `EarTrace` — ears cut at `anchor`, `anchor+1`, `anchor+2` modulo the current length,
  `sanitize` every tenth iteration, `mark_neighbourhouds`/`constrain` never touching a corner — and over ℝ
  (`earTrace_area`, via the index form `cyc_erase_ear` of the ear identity) the slots of the returned mesh account for the
  vector area of the closed merged outline, up to exactly what the `sanitize` calls dropped (`sanLoss`; zero when no
  `sanitize` changed the outline).  `earTrace_oriented`: all ears are convex corners w.r.t. the outline's normal.
What is not proved: that the diagonal / vertex-inside tests keep every triangle inside the region, the size of `sanLoss`
when `sanitize` drops tolerance-collinear vertices (known finding C01-area-small), and floating point; those are
judged by the exact oracle.
-/
namespace G3d.C01
open G3d Num Shoelace

noncomputable section

/-- any run of ear clipping: the outline, and the triangles emitted until two vertices are left -/
inductive Clip : List (V3 ℝ) → List (V3 ℝ × V3 ℝ × V3 ℝ) → Prop where
  | done (a b : V3 ℝ) : Clip [a, b] []
  | ear (vs : List (V3 ℝ)) (k : Nat) (a b c : V3 ℝ) (rest : List (V3 ℝ)) (ts : List (V3 ℝ × V3 ℝ × V3 ℝ)) :
      vs.rotate k = a :: b :: c :: rest → Clip (a :: c :: rest) ts → Clip vs ((a, b, c) :: ts)

/-- twice the summed vector area of the emitted triangles -/
def triSum : List (V3 ℝ × V3 ℝ × V3 ℝ) → V3 ℝ
  | [] => ⟨0, 0, 0⟩
  | (a, b, c) :: ts => cyc [a, b, c] + triSum ts

theorem cyc_pair (a b : V3 ℝ) : cyc [a, b] = ⟨0, 0, 0⟩ := by
  simp [cyc, pathSum_cons2]; v3_ring

/-- cutting the ear `(a, b, c)` off an outline that starts `a, b, c` -/
theorem cyc_cut_ear (a b c : V3 ℝ) (rest : List (V3 ℝ)) :
    cyc (a :: b :: c :: rest) = cyc (a :: c :: rest) + cyc [a, b, c] := by
  show pathSum (a :: b :: c :: rest ++ [a]) = pathSum (a :: c :: rest ++ [a]) + cyc [a, b, c]
  have := pathSum_cut_ear [] (rest ++ [a]) a b c
  simpa using this

/-- **the emitted triangles account for exactly the outline's vector area** -/
theorem clip_area (vs : List (V3 ℝ)) (ts : List (V3 ℝ × V3 ℝ × V3 ℝ)) (h : Clip vs ts) : cyc vs = triSum ts := by
  induction h with
  | done a b => simp [triSum, cyc_pair]
  | ear vs k a b c rest ts hrot _ ih =>
    rw [← cyc_rotate_n vs k, hrot, cyc_cut_ear, ih]
    simp only [triSum]
    rw [add_comm']

/-- the vector area of a triangle is the cross product of two consecutive edges … -/
theorem cyc_triangle_cross (a b c : V3 ℝ) : cyc [a, b, c] = (b - a).cross (c - b) := by
  rw [cyc_triangle]; v3_ring

/-- … so **an ear (convex corner w.r.t. the outline's normal `n`) is a triangle with the outline's orientation** -/
theorem ear_orientation (a b c n : V3 ℝ) (hconv : 0 < ((b - a).cross (c - b)).dot n) : 0 < (cyc [a, b, c]).dot n := by
  rw [cyc_triangle_cross]; exact hconv

/-- all triangles oriented like `n` ⇒ the summed area along `n` is the sum of the individual (positive) areas -/
theorem triSum_dot (n : V3 ℝ) : ∀ ts : List (V3 ℝ × V3 ℝ × V3 ℝ),
    (triSum ts).dot n = (ts.map (fun t => (cyc [t.1, t.2.1, t.2.2]).dot n)).sum := by
  intro ts
  induction ts with
  | nil => simp [triSum]; vec_real; ring
  | cons t ts ih =>
    obtain ⟨a, b, c⟩ := t
    simp only [triSum, List.map_cons, List.sum_cons]
    rw [← ih]
    vec_real; ring

/-! ## refinement steps keep the sum (C08) -/

/-- `split_triangle`: `(c,a,p) + (a,b,p) + (b,c,p) = (a,b,c)` for any point `p` -/
theorem split_triangle_area (a b c p : V3 ℝ) :
    cyc [c, a, p] + cyc [a, b, p] + cyc [b, c, p] = cyc [a, b, c] := by
  simp only [cyc_triangle]; v3_ring

/-- `split_edge` at a point of the edge `ab`: `(a,p,c) + (p,b,c) = (a,b,c)` -/
theorem split_edge_area (a b c : V3 ℝ) (s : ℝ) :
    cyc [a, a + (b - a).smul s, c] + cyc [a + (b - a).smul s, b, c] = cyc [a, b, c] := by
  simp only [cyc_triangle]; v3_ring

/-- `flip_diagonal`: `(a,o,c) + (c,o,b) = (a,b,c) + (b,a,o)` -/
theorem flip_area (a b c o : V3 ℝ) :
    cyc [a, o, c] + cyc [c, o, b] = cyc [a, b, c] + cyc [b, a, o] := by
  simp only [cyc_triangle]; v3_ring

/-! ## index form of the ear identity, and the tie to the model of `from_polygon` -/

theorem cyc_append_comm (l1 l2 : List (V3 ℝ)) : cyc (l1 ++ l2) = cyc (l2 ++ l1) := by
  rw [← cyc_rotate_n (l1 ++ l2) l1.length, List.rotate_append_length_eq]

theorem cyc_ear_case1 (l1 l2 : List (V3 ℝ)) (a b c : V3 ℝ) :
    cyc (l1 ++ a :: b :: c :: l2) = cyc (l1 ++ a :: c :: l2) + cyc [a, b, c] := by
  rw [cyc_append_comm, cyc_append_comm l1]
  exact cyc_cut_ear a b c (l2 ++ l1)

theorem cyc_ear_case2 (mid : List (V3 ℝ)) (a b c : V3 ℝ) :
    cyc (c :: mid ++ [a, b]) = cyc (c :: mid ++ [a]) + cyc [a, b, c] := by
  have h1 : cyc (c :: mid ++ [a, b]) = cyc ([a, b] ++ c :: mid) := cyc_append_comm (c :: mid) [a, b]
  have h2 : cyc (c :: mid ++ [a]) = cyc ([a] ++ c :: mid) := cyc_append_comm (c :: mid) [a]
  rw [h1, h2]
  exact cyc_cut_ear a b c mid

theorem cyc_ear_case3 (mid : List (V3 ℝ)) (a b c : V3 ℝ) :
    cyc (b :: c :: mid ++ [a]) = cyc (c :: mid ++ [a]) + cyc [a, b, c] := by
  have h1 : cyc (b :: c :: mid ++ [a]) = cyc ([a] ++ b :: c :: mid) := cyc_append_comm (b :: c :: mid) [a]
  have h2 : cyc (c :: mid ++ [a]) = cyc ([a] ++ c :: mid) := cyc_append_comm (c :: mid) [a]
  rw [h1, h2]
  exact cyc_cut_ear a b c mid

theorem drop_cons_of_getElem? {β : Type} (l : List β) (i : Nat) (x : β) (h : l[i]? = some x) :
    l.drop i = x :: l.drop (i + 1) := by
  obtain ⟨hi, hx⟩ := List.getElem?_eq_some_iff.mp h
  rw [List.drop_eq_getElem_cons hi, hx]

/-- index form (no wrap-around): `i + 2 < n` -/
theorem cyc_erase_nowrap (vs : List (V3 ℝ)) (i : Nat) (a b c : V3 ℝ)
    (h0 : vs[i]? = some a) (h1 : vs[i + 1]? = some b) (h2 : vs[i + 2]? = some c) :
    cyc vs = cyc (vs.eraseIdx (i + 1)) + cyc [a, b, c] := by
  have hd : vs.drop i = a :: b :: c :: vs.drop (i + 3) := by
    rw [drop_cons_of_getElem? vs i a h0, drop_cons_of_getElem? vs (i + 1) b h1, drop_cons_of_getElem? vs (i + 2) c h2]
  have hi : i < vs.length := (List.getElem?_eq_some_iff.mp h0).1
  have hv : vs = vs.take i ++ a :: b :: c :: vs.drop (i + 3) := by
    rw [← hd, List.take_append_drop]
  have hlen : (vs.take i).length = i := by simp; omega
  have he : vs.eraseIdx (i + 1) = vs.take i ++ a :: c :: vs.drop (i + 3) := by
    conv_lhs => rw [hv]
    rw [List.eraseIdx_append_of_length_le (by omega)]
    rw [hlen]
    simp
  rw [he]
  conv_lhs => rw [hv]
  exact cyc_ear_case1 _ _ a b c

/-- `v₂` wraps around: `i + 2 = n` -/
theorem cyc_erase_wrap2 (vs : List (V3 ℝ)) (i : Nat) (a b c : V3 ℝ) (hn : i + 2 = vs.length) (hi1 : 1 ≤ i)
    (h0 : vs[i]? = some a) (h1 : vs[i + 1]? = some b) (h2 : vs[0]? = some c) :
    cyc vs = cyc (vs.eraseIdx (i + 1)) + cyc [a, b, c] := by
  have hd : vs.drop i = [a, b] := by
    rw [drop_cons_of_getElem? vs i a h0, drop_cons_of_getElem? vs (i + 1) b h1, List.drop_eq_nil_of_le (by omega)]
  obtain ⟨i', rfl⟩ : ∃ i', i = i' + 1 := ⟨i - 1, by omega⟩
  cases vs with
  | nil => simp at h2
  | cons x tl =>
    simp only [List.getElem?_cons_zero, Option.some.injEq] at h2
    subst h2
    have hv : x :: tl = x :: tl.take i' ++ [a, b] := by
      have := List.take_append_drop (i' + 1) (x :: tl)
      rw [hd] at this
      simpa using this.symm
    have hlen : (x :: tl.take i').length = i' + 1 := by
      simp only [List.length_cons, List.length_take]
      simp only [List.length_cons] at hn
      omega
    have he : (x :: tl).eraseIdx (i' + 1 + 1) = x :: tl.take i' ++ [a] := by
      conv_lhs => rw [hv]
      rw [List.eraseIdx_append_of_length_le (by omega)]
      rw [hlen]
      simp
    rw [he]
    conv_lhs => rw [hv]
    exact cyc_ear_case2 _ a b x

/-- `v₁` and `v₂` wrap around: `i + 1 = n` -/
theorem cyc_erase_wrap1 (vs : List (V3 ℝ)) (i : Nat) (a b c : V3 ℝ) (hn : i + 1 = vs.length) (hi2 : 2 ≤ i)
    (h0 : vs[i]? = some a) (h1 : vs[0]? = some b) (h2 : vs[1]? = some c) :
    cyc vs = cyc (vs.eraseIdx 0) + cyc [a, b, c] := by
  have hd : vs.drop i = [a] := by
    rw [drop_cons_of_getElem? vs i a h0, List.drop_eq_nil_of_le (by omega)]
  obtain ⟨i', rfl⟩ : ∃ i', i = i' + 2 := ⟨i - 2, by omega⟩
  match vs, h1, h2, hn, hd, h0 with
  | x :: y :: tl, h1, h2, hn, hd, h0 =>
    simp only [List.getElem?_cons_zero, Option.some.injEq] at h1
    simp only [List.getElem?_cons_succ, List.getElem?_cons_zero, Option.some.injEq] at h2
    subst h1 h2
    have hv : x :: y :: tl = x :: y :: tl.take i' ++ [a] := by
      have := List.take_append_drop (i' + 2) (x :: y :: tl)
      rw [hd] at this
      simpa using this.symm
    have he : (x :: y :: tl).eraseIdx 0 = y :: tl.take i' ++ [a] := by
      conv_lhs => rw [hv]
      rfl
    rw [he]
    conv_lhs => rw [hv]
    exact cyc_ear_case3 _ a x y

theorem cyc_single (a : V3 ℝ) : cyc [a] = ⟨0, 0, 0⟩ := by
  simp [cyc, pathSum_cons2]; v3_ring

theorem cyc_aba (a b : V3 ℝ) : cyc [a, b, a] = ⟨0, 0, 0⟩ := by
  rw [cyc_triangle]; v3_ring

/-- **cutting the ear at `anchor` (indices modulo the length, as `from_polygon` takes them) removes exactly the ear's
    vector area from the outline's** — for every non-empty outline (for fewer than three vertices both sides are zero) -/
theorem cyc_erase_ear (vs : List (V3 ℝ)) (anchor : Nat) (a b c : V3 ℝ) (hn : vs.length ≠ 0)
    (h0 : vs[anchor % vs.length]? = some a) (h1 : vs[(anchor + 1) % vs.length]? = some b)
    (h2 : vs[(anchor + 2) % vs.length]? = some c) :
    cyc vs = cyc (vs.eraseIdx ((anchor + 1) % vs.length)) + cyc [a, b, c] := by
  have hi : anchor % vs.length < vs.length := Nat.mod_lt _ (by omega)
  have e1 : (anchor + 1) % vs.length = (anchor % vs.length + 1) % vs.length := by rw [Nat.add_mod]; simp
  have e2 : (anchor + 2) % vs.length = (anchor % vs.length + 2) % vs.length := by rw [Nat.add_mod]; simp
  rw [e1] at h1 ⊢
  rw [e2] at h2
  generalize anchor % vs.length = i at hi h0 h1 h2
  by_cases hc1 : i + 2 < vs.length
  · rw [Nat.mod_eq_of_lt (by omega)] at h1 h2 ⊢
    exact cyc_erase_nowrap vs i a b c h0 h1 h2
  · by_cases hc3 : 3 ≤ vs.length
    · by_cases hc2 : i + 2 = vs.length
      · have e3 : (i + 2) % vs.length = 0 := by rw [hc2]; exact Nat.mod_self _
        rw [Nat.mod_eq_of_lt (by omega)] at h1 ⊢
        rw [e3] at h2
        exact cyc_erase_wrap2 vs i a b c hc2 (by omega) h0 h1 h2
      · have hc4 : i + 1 = vs.length := by omega
        have e3 : (i + 1) % vs.length = 0 := by rw [hc4]; exact Nat.mod_self _
        have e4 : (i + 2) % vs.length = 1 := by
          have : i + 2 = 1 + vs.length := by omega
          rw [this, Nat.add_mod_right]; exact Nat.mod_eq_of_lt (by omega)
        rw [e3] at h1 ⊢
        rw [e4] at h2
        exact cyc_erase_wrap1 vs i a b c hc4 (by omega) h0 h1 h2
    · -- one or two vertices: everything is degenerate
      have hl : vs.length = 1 ∨ vs.length = 2 := by omega
      rcases hl with hl | hl
      · obtain ⟨x, rfl⟩ := List.length_eq_one_iff.mp hl
        have : i = 0 := by simpa using hi
        subst this
        simp at h0 h1 h2
        subst h0 h1 h2
        simp [cyc_single]
        rw [cyc_aba]; simp [cyc]; v3_ring
      · obtain ⟨x, y, rfl⟩ := List.length_eq_two.mp hl
        have : i = 0 ∨ i = 1 := by simp at hi; omega
        rcases this with rfl | rfl
        · simp at h0 h1 h2
          subst h0 h1 h2
          simp [cyc_single, cyc_pair, cyc_aba]; v3_ring
        · simp at h0 h1 h2
          subst h0 h1 h2
          simp [cyc_single, cyc_pair, cyc_aba]; v3_ring

/-! ## the model's ear clipping accounts for the outline's vector area -/

open G3d.C01T in
/-- twice the vector area that the `sanitize` calls (every tenth iteration) took away from the outline -/
def sanLoss : List (List (V3 ℝ) × List (V3 ℝ)) → V3 ℝ
  | [] => ⟨0, 0, 0⟩
  | (before, after) :: ss => (cyc before - cyc after) + sanLoss ss

/-- **area accounting for every run of the modelled ear-clipping loop (exact semantics)**: the vector area of the outline it
    was started on = the summed vector areas of the emitted triangles + what `sanitize` removed -/
theorem earTrace_area (L : Loop ℝ) (ts : List (V3 ℝ × V3 ℝ × V3 ℝ)) (ss : List (List (V3 ℝ) × List (V3 ℝ)))
    (h : C01T.EarTrace L ts ss) : cyc L.vertices = triSum ts + sanLoss ss := by
  induction h with
  | done L hlen =>
    obtain ⟨x, y, hxy⟩ := List.length_eq_two.mp hlen
    rw [hxy, cyc_pair]
    simp [triSum, sanLoss]; v3_ring
  | sanitize L L' ts ss _ _ ih =>
    simp only [sanLoss]
    rw [ih]
    v3_ring
  | ear L anchor v0 v1 v2 ts ss hne h0 h1 h2 _ _ ih =>
    rw [cyc_erase_ear L.vertices anchor v0 v1 v2 hne h0 h1 h2]
    simp only [] at ih
    rw [ih]
    simp only [triSum]
    v3_ring

/-- a `sanitize` that dropped nothing took no area -/
theorem sanLoss_of_unchanged (ss : List (List (V3 ℝ) × List (V3 ℝ))) (h : ∀ p ∈ ss, p.1 = p.2) :
    sanLoss ss = ⟨0, 0, 0⟩ := by
  induction ss with
  | nil => rfl
  | cons p ss ih =>
    obtain ⟨b, a⟩ := p
    have hba : b = a := h (b, a) (by simp)
    simp only [sanLoss]
    rw [ih (fun p hp => h p (by simp [hp])), hba]
    v3_ring

/-- **`from_polygon` over ℝ**: the slots of an `Ok` mesh are exactly the ears cut from the closed merged outline `L`, and
    their vector areas add up to the outline's minus what `sanitize` dropped; when no `sanitize` changed the outline
    (in particular: fewer than ten iterations, or no tolerance-collinear vertex ever arises) the sum is exact. -/
theorem fromPolygon_area (poly : Polygon ℝ) (t' : Mesh ℝ) (h : Mesh.fromPolygon poly = .ok t') :
    ∃ L0 L ss, poly.tryGetClosedLoop = .ok L0 ∧ L0.close = (L, .ok ()) ∧
      cyc L.vertices = triSum (C01T.geom t') + sanLoss ss ∧
      ((∀ p ∈ ss, p.1 = p.2) → triSum (C01T.geom t') = cyc L.vertices) := by
  obtain ⟨L0, L, ts, ss, h1, h2, htr, hg⟩ := C01T.fromPolygon_trace poly t' h
  have ha := earTrace_area L ts ss htr
  refine ⟨L0, L, ss, h1, h2, ?_, ?_⟩
  · rw [hg]; exact ha
  · intro hss
    rw [hg, ha, sanLoss_of_unchanged ss hss]
    v3_ring

/-- without `sanitize` steps the outline's normal never changes, and **every emitted ear is a convex corner with respect to
    it**: its vector area has a positive component along the normal, so no two ears can cancel in the sum above -/
theorem earTrace_oriented (L : Loop ℝ) (ts : List (V3 ℝ × V3 ℝ × V3 ℝ)) (ss : List (List (V3 ℝ) × List (V3 ℝ)))
    (h : C01T.EarTrace L ts ss) (hss : ss = []) :
    ∀ t ∈ ts, 0 < (cyc [t.1, t.2.1, t.2.2]).dot L.normal := by
  induction h with
  | done L _ => intro t ht; cases ht
  | sanitize L L' ts ss _ _ _ => cases hss
  | ear L anchor v0 v1 v2 ts ss _ _ _ _ hconv _ ih =>
    intro t ht
    rcases List.mem_cons.mp ht with rfl | ht
    · apply ear_orientation
      bool_real_at hconv
      num_real_at hconv
      exact hconv
    · exact ih hss t ht

/-- non-vacuity: the ear-clipping trace of a right triangle in `z = 0` (one ear, then two vertices are left) -/
example : C01T.EarTrace
    ({ vertices := [⟨0, 0, 0⟩, ⟨1, 0, 0⟩, ⟨0, 1, 0⟩], normal := ⟨0, 0, 1⟩, closed := true, area := 0.5, perimeter := 0 } : Loop ℝ)
    [(⟨0, 0, 0⟩, ⟨1, 0, 0⟩, ⟨0, 1, 0⟩)] [] := by
  refine C01T.EarTrace.ear _ 0 _ _ _ [] [] (by simp) (by simp) (by simp) (by simp) ?_ ?_
  · bool_real; vec_real; norm_num
  · exact C01T.EarTrace.done _ (by simp)

end
end G3d.C01
