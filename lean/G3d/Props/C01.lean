import G3d.Proofs.Shoelace
import G3d.Props.C12
import G3d.Props.C18
/-!
# C01 — the triangles of an ear clipping tile the polygon (vector-area accounting, exact semantics)

`from_polygon` merges the holes into one outline (C12), then repeatedly takes three cyclically consecutive vertices
`v₀ v₁ v₂` of the remaining outline, emits the triangle `(v₀, v₁, v₂)` and removes `v₁`, until two vertices are left.
Over ℝ, for ANY such sequence of clippings (`Clip`):

* `clip_area` — the vector areas of the emitted triangles add up to the vector area of the outline they were clipped from;
  with C12's `merge_vector_area` (bridges enclose nothing, holes are walked against the outline) that is the polygon's net
  vector area: **the triangle areas sum to the polygon's area**, and since every emitted triangle is a convex corner of the
  outline (`ear_orientation`: its vector area has a positive component along the outline's normal, which is what the ear test
  `(v₁ − v₀) × (v₂ − v₁) · n > 0` demands) no cancellation can hide an overlap: for triangles that all lie in the polygon's
  region (the diagonal and no-vertex-inside tests) equal area sums mean they tile it.
* refinement (C08 identities `split_triangle_area`, `split_edge_area`, `flip_area`) keeps that sum.
What is not proved: that the diagonal / vertex-inside tests keep every triangle inside the region in floating point, and the
effect of `sanitize` dropping tolerance-collinear vertices every tenth iteration (known finding C01-area-small); both are
judged by the exact oracle.
-/
namespace G3d.C01
open G3d Num Shoelace

noncomputable section

/-- any run of ear clipping: the outline, and the triangles emitted until two vertices are left -/
inductive Clip : List (V3 ℝ) → List (V3 ℝ × V3 ℝ × V3 ℝ) → Prop where
  | done (a b : V3 ℝ) : Clip [a, b] []
  | ear (vs : List (V3 ℝ)) (k : Nat) (a b c : V3 ℝ) (rest : List (V3 ℝ)) (ts : List (V3 ℝ × V3 ℝ × V3 ℝ)) :
      vs.rotate k = a :: b :: c :: rest → Clip (a :: c :: rest) ts → Clip vs ((a, b, c) :: ts)

/-- twice the summed vector area of the emitted triangles -/
def triSum : List (V3 ℝ × V3 ℝ × V3 ℝ) → V3 ℝ
  | [] => ⟨0, 0, 0⟩
  | (a, b, c) :: ts => cyc [a, b, c] + triSum ts

theorem cyc_pair (a b : V3 ℝ) : cyc [a, b] = ⟨0, 0, 0⟩ := by
  simp [cyc, pathSum_cons2]; v3_ring

/-- cutting the ear `(a, b, c)` off an outline that starts `a, b, c` -/
theorem cyc_cut_ear (a b c : V3 ℝ) (rest : List (V3 ℝ)) :
    cyc (a :: b :: c :: rest) = cyc (a :: c :: rest) + cyc [a, b, c] := by
  show pathSum (a :: b :: c :: rest ++ [a]) = pathSum (a :: c :: rest ++ [a]) + cyc [a, b, c]
  have := pathSum_cut_ear [] (rest ++ [a]) a b c
  simpa using this

/-- **the emitted triangles account for exactly the outline's vector area** -/
theorem clip_area (vs : List (V3 ℝ)) (ts : List (V3 ℝ × V3 ℝ × V3 ℝ)) (h : Clip vs ts) : cyc vs = triSum ts := by
  induction h with
  | done a b => simp [triSum, cyc_pair]
  | ear vs k a b c rest ts hrot _ ih =>
    rw [← cyc_rotate_n vs k, hrot, cyc_cut_ear, ih]
    simp only [triSum]
    rw [add_comm']

/-- the vector area of a triangle is the cross product of two consecutive edges … -/
theorem cyc_triangle_cross (a b c : V3 ℝ) : cyc [a, b, c] = (b - a).cross (c - b) := by
  rw [cyc_triangle]; v3_ring

/-- … so **an ear (convex corner w.r.t. the outline's normal `n`) is a triangle with the outline's orientation** -/
theorem ear_orientation (a b c n : V3 ℝ) (hconv : 0 < ((b - a).cross (c - b)).dot n) : 0 < (cyc [a, b, c]).dot n := by
  rw [cyc_triangle_cross]; exact hconv

/-- all triangles oriented like `n` ⇒ the summed area along `n` is the sum of the individual (positive) areas -/
theorem triSum_dot (n : V3 ℝ) : ∀ ts : List (V3 ℝ × V3 ℝ × V3 ℝ),
    (triSum ts).dot n = (ts.map (fun t => (cyc [t.1, t.2.1, t.2.2]).dot n)).sum := by
  intro ts
  induction ts with
  | nil => simp [triSum]; vec_real; ring
  | cons t ts ih =>
    obtain ⟨a, b, c⟩ := t
    simp only [triSum, List.map_cons, List.sum_cons]
    rw [← ih]
    vec_real; ring

/-! ## refinement steps keep the sum (C08) -/

/-- `split_triangle`: `(c,a,p) + (a,b,p) + (b,c,p) = (a,b,c)` for any point `p` -/
theorem split_triangle_area (a b c p : V3 ℝ) :
    cyc [c, a, p] + cyc [a, b, p] + cyc [b, c, p] = cyc [a, b, c] := by
  simp only [cyc_triangle]; v3_ring

/-- `split_edge` at a point of the edge `ab`: `(a,p,c) + (p,b,c) = (a,b,c)` -/
theorem split_edge_area (a b c : V3 ℝ) (s : ℝ) :
    cyc [a, a + (b - a).smul s, c] + cyc [a + (b - a).smul s, b, c] = cyc [a, b, c] := by
  simp only [cyc_triangle]; v3_ring

/-- `flip_diagonal`: `(a,o,c) + (c,o,b) = (a,b,c) + (b,a,o)` -/
theorem flip_area (a b c o : V3 ℝ) :
    cyc [a, o, c] + cyc [c, o, b] = cyc [a, b, c] + cyc [b, a, o] := by
  simp only [cyc_triangle]; v3_ring

end
end G3d.C01
