import G3d.Model.Mesh
/-!
# C01 — what the ear-clipping loop of `from_polygon` does, step by step (generic in the number type)

`fromPolygonLoop_trace`: whenever the model of `from_polygon`'s `loop {}` returns `Ok`, the triangles it added are an
`EarTrace` of the outline it was started on: every emitted triangle `(v₀, v₁, v₂)` consists of three cyclically consecutive
vertices of the CURRENT outline, forms a convex corner with respect to the outline's normal, and `v₁` is then removed from the
outline; every tenth iteration the outline is replaced by its `sanitize`d version; the loop stops when two vertices are left.
Nothing else ever touches the geometry of the mesh: `mark_neighbourhouds` and the `constrain` calls only write neighbour /
constraint fields (`KeepsGeom`).  `C01.lean` turns an `EarTrace` over ℝ into the area accounting.
-/
namespace G3d.C01T
open G3d Num Mesh MeshM

set_option linter.unusedSectionVars false
variable {α : Type} [Num α]

/-- the corner triples of all slots of the mesh, in slot order -/
def geom (m : Mesh α) : List (V3 α × V3 α × V3 α) :=
  m.triangles.toList.map (fun t => (t.triangle.a, t.triangle.b, t.triangle.c))

/-- a `&mut self` step that never changes a corner of any slot (also when it ends in `Err` or a panic) -/
def KeepsGeom {β : Type} (x : MeshM α β) : Prop := ∀ m, geom (x m).1 = geom m

theorem keeps_pure {β : Type} (b : β) : KeepsGeom (MeshM.pure b : MeshM α β) := fun _ => rfl
theorem keeps_ofRes {β : Type} (r : Res β) : KeepsGeom (ofRes r : MeshM α β) := fun _ => rfl
theorem keeps_readR {β : Type} (f : Mesh α → Res β) : KeepsGeom (readR f) := fun _ => rfl
theorem keeps_err {β : Type} (k : String) : KeepsGeom (MeshM.err k : MeshM α β) := fun _ => rfl
theorem keeps_panic {β : Type} (k : String) : KeepsGeom (MeshM.panic k : MeshM α β) := fun _ => rfl
theorem keeps_tgetM (i : Nat) (s : String) : KeepsGeom (tgetM i s : MeshM α (TriPiece α)) := fun _ => rfl

theorem keeps_bind {β γ : Type} (x : MeshM α β) (f : β → MeshM α γ) (hx : KeepsGeom x) (hf : ∀ b, KeepsGeom (f b)) :
    KeepsGeom (x.bind f) := by
  intro m
  unfold MeshM.bind
  have h1 := hx m
  cases hxm : x m with
  | mk m1 r =>
    rw [hxm] at h1
    cases r with
    | ok b => simp only []; rw [hf b m1]; exact h1
    | err e => exact h1
    | panic q => exact h1

theorem keeps_bind' {β γ : Type} (x : MeshM α β) (f : β → MeshM α γ) (hx : KeepsGeom x) (hf : ∀ b, KeepsGeom (f b)) :
    KeepsGeom (x >>= f) := keeps_bind x f hx hf

/-- a field update that leaves `.triangle` alone -/
theorem keeps_tmodifyM (i : Nat) (f : TriPiece α → TriPiece α) (s : String) (hf : ∀ t, (f t).triangle = t.triangle) :
    KeepsGeom (tmodifyM i f s) := by
  intro m
  unfold tmodifyM
  split
  · simp only [geom]
    apply List.ext_getElem?
    intro k
    simp only [List.getElem?_map, Array.getElem?_toList, Array.getElem?_modify]
    by_cases hk : i = k
    · subst hk; cases m.triangles[i]? <;> simp [hf]
    · simp [hk]
  · rfl

theorem setNeighbour_triangle (t : TriPiece α) (e : Edge) (i : Nat) : (t.setNeighbour e i).triangle = t.triangle := by
  cases e <;> rfl

theorem constrain_triangle (t : TriPiece α) (e : Edge) : (t.constrain e).triangle = t.triangle := by
  cases e <;> rfl

theorem keeps_markAsNeighbours (i1 : Nat) (e : Edge) (i2 : Nat) : KeepsGeom (markAsNeighbours i1 e i2 : MeshM α Unit) := by
  unfold markAsNeighbours
  split
  · exact keeps_err _
  · refine keeps_bind' _ _ (keeps_tgetM _ _) (fun t1 => ?_)
    split
    · exact keeps_err _
    · refine keeps_bind' _ _ (keeps_ofRes _) (fun seg1 => ?_)
      refine keeps_bind' _ _ (keeps_tgetM _ _) (fun t2 => ?_)
      split
      · exact keeps_err _
      · refine keeps_bind' _ _ (keeps_ofRes _) (fun e2 => ?_)
        refine keeps_bind' _ _ (keeps_ofRes _) (fun e2' => ?_)
        refine keeps_bind' _ _ (keeps_tmodifyM _ _ _ (fun t => setNeighbour_triangle t _ _)) (fun _ => ?_)
        exact keeps_tmodifyM _ _ _ (fun t => setNeighbour_triangle t _ _)

theorem keeps_markEdgeLoop (thisI otherI : Nat) : ∀ fuel e, KeepsGeom (markEdgeLoop thisI otherI fuel e : MeshM α Unit) := by
  intro fuel
  induction fuel with
  | zero => intro e; exact keeps_pure _
  | succ f ih =>
    intro e
    unfold markEdgeLoop
    refine keeps_bind' _ _ (keeps_tgetM _ _) (fun t => ?_)
    refine keeps_bind' _ _ (keeps_ofRes _) (fun edge => ?_)
    refine keeps_bind' _ _ (keeps_tgetM _ _) (fun o => ?_)
    split
    · refine keeps_bind' _ _ (keeps_ofRes _) (fun e' => ?_)
      exact keeps_markAsNeighbours _ _ _
    · exact ih _

theorem keeps_markOtherLoop (thisI : Nat) : ∀ fuel o, KeepsGeom (markOtherLoop thisI fuel o : MeshM α Unit) := by
  intro fuel
  induction fuel with
  | zero => intro o; exact keeps_pure _
  | succ f ih =>
    intro o
    unfold markOtherLoop
    exact keeps_bind' _ _ (keeps_markEdgeLoop _ _ _ _) (fun _ => ih _)

theorem keeps_markThisLoop (n : Nat) : ∀ fuel i, KeepsGeom (markThisLoop n fuel i : MeshM α Unit) := by
  intro fuel
  induction fuel with
  | zero => intro i; exact keeps_pure _
  | succ f ih =>
    intro i
    unfold markThisLoop
    exact keeps_bind' _ _ (keeps_markOtherLoop _ _ _) (fun _ => ih _)

/-- **`mark_neighbourhouds` never moves a corner** -/
theorem keeps_markNeighbourhouds : KeepsGeom (markNeighbourhouds : MeshM α Unit) := by
  unfold markNeighbourhouds
  exact keeps_bind' _ _ (keeps_readR _) (fun n => keeps_markThisLoop _ _ _)

/-- **the `constrain` calls of `from_polygon` never move a corner** -/
theorem keeps_constrainIfContained (poly : Polygon α) (s : Segment α) (la k : Nat) :
    KeepsGeom (constrainIfContained poly s la k) := by
  unfold constrainIfContained
  refine keeps_bind' _ _ (keeps_ofRes _) (fun c => ?_)
  split
  · refine keeps_bind' _ _ (keeps_ofRes _) (fun e => ?_)
    exact keeps_tmodifyM _ _ _ (fun t => constrain_triangle t _)
  · exact keeps_pure _

/-! ## `push` -/

theorem setArea_abc (t : Triangle α) : t.setArea.a = t.a ∧ t.setArea.b = t.b ∧ t.setArea.c = t.c := by
  unfold Triangle.setArea; exact ⟨rfl, rfl, rfl⟩

theorem setNormal_abc (t : Triangle α) : t.setNormal.a = t.a ∧ t.setNormal.b = t.b ∧ t.setNormal.c = t.c := by
  unfold Triangle.setNormal; exact ⟨rfl, rfl, rfl⟩

/-- `Triangle3D::new` stores its three arguments -/
theorem triangle_new_abc (a b c : V3 α) (t : Triangle α) (h : Triangle.new a b c = .ok t) : t.a = a ∧ t.b = b ∧ t.c = c := by
  unfold Triangle.new at h
  split at h
  · cases h
  · split at h
    · cases h
    · cases h
    · cases h
    · injection h with h
      subst h
      obtain ⟨n1, n2, n3⟩ := setNormal_abc ({ a := a, b := b, c := c, area := -(1 : α), normal := ⟨0, 0, 0⟩ } : Triangle α).setArea
      obtain ⟨a1, a2, a3⟩ := setArea_abc ({ a := a, b := b, c := c, area := -(1 : α), normal := ⟨0, 0, 0⟩ } : Triangle α)
      exact ⟨n1.trans a1, n2.trans a2, n3.trans a3⟩

theorem tripiece_new_abc (a b c : V3 α) (i : Nat) (t : TriPiece α) (h : TriPiece.new a b c i = .ok t) :
    t.triangle.a = a ∧ t.triangle.b = b ∧ t.triangle.c = c := by
  unfold TriPiece.new at h
  cases ht : Triangle.new a b c with
  | err e => rw [ht] at h; cases h
  | panic e => rw [ht] at h; cases h
  | ok tri =>
    rw [ht] at h
    simp only [Bind.bind, Res.bind] at h
    cases har : tri.aspectRatioR with
    | err e => rw [har] at h; cases h
    | panic e => rw [har] at h; cases h
    | ok ar =>
      rw [har] at h
      injection h with h
      subst h
      exact triangle_new_abc a b c tri ht

theorem getFirstInvalid_at_end (m : Mesh α) : m.getFirstInvalid m.triangles.size = .ok none := by
  unfold getFirstInvalid
  simp

/-- **`push(v₀, v₁, v₂, last_added = n_triangles())` appends exactly the slot `(v₀, v₁, v₂)`** -/
theorem push_at_end (a b c : V3 α) (m m' : Mesh α) (n : Nat)
    (h : Mesh.push a b c m.triangles.size m = (m', .ok n)) : geom m' = geom m ++ [(a, b, c)] := by
  unfold Mesh.push at h
  simp only [Bind.bind, MeshM.bind, readR, getFirstInvalid_at_end] at h
  cases ht : TriPiece.new a b c m.triangles.size with
  | err e => rw [ht] at h; simp [MeshM.err] at h
  | panic e => rw [ht] at h; simp [MeshM.panic] at h
  | ok t =>
    rw [ht] at h
    simp only [if_true, Prod.mk.injEq] at h
    obtain ⟨h1, _⟩ := h
    subst h1
    obtain ⟨ha, hb, hc⟩ := tripiece_new_abc a b c _ t ht
    simp [geom, ha, hb, hc]

/-- every outcome of `push` other than `Ok` leaves the mesh alone, `Ok` at the end appends: in all cases the old slots stay -/
theorem push_err_keeps (a b c : V3 α) (m : Mesh α) (r : Res Nat) (m' : Mesh α)
    (h : Mesh.push a b c m.triangles.size m = (m', r)) (hr : r.isOk = false) : m' = m := by
  unfold Mesh.push at h
  simp only [Bind.bind, MeshM.bind, readR, getFirstInvalid_at_end] at h
  cases ht : TriPiece.new a b c m.triangles.size with
  | err e => rw [ht] at h; simp [MeshM.err] at h; exact h.1.symm
  | panic e => rw [ht] at h; simp [MeshM.panic] at h; exact h.1.symm
  | ok t =>
    rw [ht] at h
    simp only [if_true, Prod.mk.injEq] at h
    obtain ⟨_, h2⟩ := h
    subst h2
    simp [Res.isOk] at hr

/-! ## the trace -/

/-- a run of the ear-clipping loop on an outline: the triangles emitted, and the outlines before/after each `sanitize` -/
inductive EarTrace : Loop α → List (V3 α × V3 α × V3 α) → List (List (V3 α) × List (V3 α)) → Prop where
  /-- two vertices left: the loop ends -/
  | done (L : Loop α) : L.vertices.length = 2 → EarTrace L [] []
  /-- `the_loop = the_loop.sanitize()?` -/
  | sanitize (L L' : Loop α) (ts) (ss) : L.sanitize = .ok L' → EarTrace L' ts ss →
      EarTrace L ts ((L.vertices, L'.vertices) :: ss)
  /-- an ear at `anchor`: three cyclically consecutive vertices forming a convex corner; `v₁` leaves the outline -/
  | ear (L : Loop α) (anchor : Nat) (v0 v1 v2 : V3 α) (ts) (ss) :
      L.vertices.length ≠ 0 →
      L.vertices[anchor % L.vertices.length]? = some v0 →
      L.vertices[(anchor + 1) % L.vertices.length]? = some v1 →
      L.vertices[(anchor + 2) % L.vertices.length]? = some v2 →
      (((v1 - v0).cross (v2 - v1)).dot L.normal >. (0 : α)) = true →
      EarTrace { L with vertices := L.vertices.eraseIdx ((anchor + 1) % L.vertices.length) } ts ss →
      EarTrace L ((v0, v1, v2) :: ts) ss

theorem res_bind_ok_inv {β γ : Type} (x : Res β) (f : β → Res γ) (v : γ) (h : (x >>= f) = .ok v) :
    ∃ b, x = .ok b ∧ f b = .ok v := by
  cases x with
  | ok b => exact ⟨b, rfl, h⟩
  | err e => cases h
  | panic e => cases h

theorem mbind_ok_inv {β γ : Type} (x : MeshM α β) (f : β → MeshM α γ) (m m' : Mesh α) (v : γ)
    (h : (x >>= f) m = (m', .ok v)) : ∃ b m1, x m = (m1, .ok b) ∧ f b m1 = (m', .ok v) := by
  change MeshM.bind x f m = _ at h
  unfold MeshM.bind at h
  cases hx : x m with
  | mk m1 r =>
    rw [hx] at h
    cases r with
    | ok b => exact ⟨b, m1, rfl, h⟩
    | err e => simp at h
    | panic q => simp at h

theorem index_ok_inv (L : Loop α) (i : Nat) (v : V3 α) (h : L.index i = .ok v) : L.vertices[i]? = some v := by
  unfold Loop.index at h
  split at h
  · cases h
  · unfold vget at h
    split at h
    · rename_i w hw; injection h with h; rw [hw, h]
    · cases h

theorem remove_ok_inv (L L' : Loop α) (i : Nat) (h : L.remove i = .ok L') :
    L' = { L with vertices := L.vertices.eraseIdx i } := by
  unfold Loop.remove at h
  split at h
  · injection h with h; exact h.symm
  · cases h

/-- **every successful run of the ear-clipping loop is an `EarTrace`**, and the mesh it returns holds the old slots followed
    by exactly the emitted ears, in order -/
theorem fromPolygonLoop_trace (poly : Polygon α) : ∀ (fuel : Nat) (L : Loop α) (t t' : Mesh α) (anchor count : Nat),
    fromPolygonLoop poly fuel L t anchor count = .ok t' →
      ∃ ts ss, EarTrace L ts ss ∧ geom t' = geom t ++ ts := by
  intro fuel
  induction fuel with
  | zero => intro L t t' anchor count h; simp [fromPolygonLoop] at h
  | succ f ih =>
    intro L t t' anchor count h
    rw [fromPolygonLoop] at h
    simp only [] at h
    split at h
    · cases h
    · split at h
      · cases h
      · cases h
      · rename_i L1 hL1
        have wrap : ∀ ts ss, EarTrace L1 ts ss → ∃ ss', EarTrace L ts ss' := by
          intro ts ss htr
          split at hL1
          · exact ⟨_, EarTrace.sanitize L L1 ts ss hL1 htr⟩
          · injection hL1 with hL1; subst hL1; exact ⟨ss, htr⟩
        have fin : ∀ ts ss, EarTrace L1 ts ss → geom t' = geom t ++ ts →
            ∃ ts ss, EarTrace L ts ss ∧ geom t' = geom t ++ ts :=
          fun ts ss htr hg => let ⟨ss', h'⟩ := wrap ts ss htr; ⟨ts, ss', h', hg⟩
        split at h
        · rename_i hn
          split at h
          · rename_i t'' hm
            injection h with h
            subst h
            have hk := keeps_markNeighbourhouds t
            rw [hm] at hk
            exact fin [] [] (EarTrace.done L1 (by simpa [Loop.len] using hn)) (by simp [hk])
          · cases h
          · cases h
        · rename_i hn2
          split at h
          · cases h
          · rename_i hn0
            obtain ⟨v0, hv0, h1⟩ := res_bind_ok_inv _ _ _ h
            clear h
            obtain ⟨v1, hv1, h2⟩ := res_bind_ok_inv _ _ _ h1
            clear h1
            obtain ⟨v2, hv2, h3⟩ := res_bind_ok_inv _ _ _ h2
            clear h2
            obtain ⟨isLine, _, h4⟩ := res_bind_ok_inv _ _ _ h3
            clear h3
            obtain ⟨isDiag, _, h5⟩ := res_bind_ok_inv _ _ _ h4
            clear h4
            obtain ⟨isEar, hisEar, h⟩ := res_bind_ok_inv _ _ _ h5
            clear h5
            split at h
            · rename_i hEar
              split at h
              · cases h
              · cases h
              · rename_i t1 hstep
                obtain ⟨L2, hrem, h6⟩ := res_bind_ok_inv _ _ _ h
                clear h
                obtain ⟨ts, ss, htr, hg⟩ := ih _ _ _ _ _ h6
                have hL2 := remove_ok_inv _ _ _ hrem
                subst hL2
                -- the corner is convex
                have hconv : (((v1 - v0).cross (v2 - v1)).dot L1.normal >. (0 : α)) = true := by
                  subst hEar
                  split at hisEar
                  · rename_i hc
                    simp only [Bool.and_eq_true] at hc
                    exact hc.1.2
                  · cases hisEar
                -- the mesh after the step
                obtain ⟨n, m1, hpush, hrest⟩ := mbind_ok_inv _ _ _ _ _ hstep
                have hg1 : geom m1 = geom t ++ [(v0, v1, v2)] := push_at_end v0 v1 v2 t m1 n hpush
                have hk : KeepsGeom (do
                    constrainIfContained poly (Segment.new v0 v1) t.nTriangles 0
                    constrainIfContained poly (Segment.new v1 v2) t.nTriangles 1
                    constrainIfContained poly (Segment.new v2 v0) t.nTriangles 2 : MeshM α Unit) :=
                  keeps_bind' _ _ (keeps_constrainIfContained _ _ _ _) (fun _ =>
                    keeps_bind' _ _ (keeps_constrainIfContained _ _ _ _) (fun _ => keeps_constrainIfContained _ _ _ _))
                have hg2 := hk m1
                rw [hrest] at hg2
                simp only [] at hg2
                refine fin ((v0, v1, v2) :: ts) ss ?_ ?_
                · have hne : L1.vertices.length ≠ 0 := by simpa [Loop.len] using hn0
                  exact EarTrace.ear L1 anchor v0 v1 v2 ts ss hne (index_ok_inv _ _ _ hv0) (index_ok_inv _ _ _ hv1)
                    (index_ok_inv _ _ _ hv2) hconv htr
                · rw [hg, hg2, hg1]; simp
            · obtain ⟨ts, ss, htr, hg⟩ := ih _ _ _ _ _ h
              exact fin ts ss htr hg

/-- **`from_polygon`**: an `Ok` mesh consists of exactly the ears of an `EarTrace` of the closed merged outline
    (`try_get_closed_loop`, then `close`), in the order they were cut -/
theorem fromPolygon_trace (poly : Polygon α) (t' : Mesh α) (h : fromPolygon poly = .ok t') :
    ∃ L0 L ts ss, poly.tryGetClosedLoop = .ok L0 ∧ L0.close = (L, .ok ()) ∧ EarTrace L ts ss ∧ geom t' = ts := by
  unfold fromPolygon at h
  obtain ⟨L0, hL0, h1⟩ := res_bind_ok_inv _ _ _ h
  clear h
  split at h1
  · cases h1
  · cases h1
  · rename_i L hclose
    obtain ⟨ts, ss, htr, hg⟩ := fromPolygonLoop_trace poly _ _ _ _ _ _ h1
    refine ⟨L0, L, ts, ss, hL0, hclose, htr, ?_⟩
    rw [hg]
    simp [geom, withCapacity]

end G3d.C01T
