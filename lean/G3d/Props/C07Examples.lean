import G3d.Props.C07
import G3d.Proofs.RoundedReal
/-! Non-vacuity of the C07 theorems: the hypotheses are met by concrete, non-trivial intervals
    (here over the exact instance; the soft-float instance gives the same for binary64). -/
namespace G3d.C07
open G3d Num Rounded

example : WFin (F := ℝ) ⟨1, 2⟩ 1 2 := ⟨⟨not_false, rfl⟩, ⟨not_false, rfl⟩, by norm_num⟩
example : WFin (F := ℝ) ⟨-3, 5⟩ (-3) 5 := ⟨⟨not_false, rfl⟩, ⟨not_false, rfl⟩, by norm_num⟩

/-- the pre-repair `Sub` body (`low − low`, `high − high`) does **not** enclose: `[1,2] − [0,10]` must contain `1 − 10`. -/
example : ¬ (((1:ℝ) - 0 ≤ 1 - 10) ∧ ((1:ℝ) - 10 ≤ 2 - 10)) := by norm_num

example : Encl (F := ℝ) ((⟨1, 2⟩ : Approx ℝ).sub ⟨0, 10⟩) (1 - 10) :=
  sub_encloses (al := 1) (ah := 2) (bl := 0) (bh := 10)
    ⟨⟨not_false, rfl⟩, ⟨not_false, rfl⟩, by norm_num⟩ ⟨⟨not_false, rfl⟩, ⟨not_false, rfl⟩, by norm_num⟩
    (by norm_num) (by norm_num) (by norm_num) (by norm_num)

end G3d.C07
