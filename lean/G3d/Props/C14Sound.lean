import G3d.Props.C14
/-!
# C14, the other half — the ray/box test accepts only rays that (almost) enter the box (exact arithmetic with ±∞ and NaN)

`C14.lean` proves completeness (no ray that enters the box is lost).  Here the comparison cascade is read backwards:
* `cascade_inv`: a `true` of the cascade yields a parameter `t > 0` that lies, on every axis, between the slab's near value and
  `G = 1 + 2γ₃` times its far value, and no far value is negative;
* `slab_sound`: on one axis that puts the ray point inside the slab widened by `(G − 1)·max(|mn − o|, |mx − o|)` — for a
  non-zero direction component with the exact reciprocal, and for a zero component with a reciprocal of either infinite sign
  (then the origin itself must lie in the slab: an origin outside makes both plane parameters the same infinity, which the
  cascade rejects);
* `g_spec'`: `0 < G − 1 ≤ 2⁻⁵⁰`;
* `slab_sound_box` / `miss_rejected`: **`intersect = true` implies that some ray point with `t > 0` lies in the box grown on each
  axis by `2⁻⁵⁰` times the origin's distance from that axis' planes; a ray that misses this minutely grown box is rejected.**
Rounding of the float evaluation is not modelled (the oracle judges clear misses at a relative 1e-6).
-/
namespace G3d.C14
open G3d Num XR

noncomputable section

theorem ok_zero : Ok (0 : XR) := by rw [zero_eq]; trivial
theorem val_zero : val (0 : XR) = ((0 : ℝ) : EReal) := by rw [zero_eq]; rfl

/-- `¬ (h < 0)` for a non-NaN `h` means `0 ≤ h` -/
theorem nonneg_of_not_lt {h : XR} (hok : Ok h) (hn : Num.lt h (0 : XR) = false) : (0 : EReal) ≤ val h := by
  by_contra hc
  have : val h < val (0 : XR) := by rw [val_zero]; exact not_le.1 hc
  have := (lt_iff hok ok_zero).2 this
  rw [hn] at this; cases this

/-- a non-NaN, non-negative value times a finite `G > 1` is non-NaN and at least as large -/
theorem mul_g_ok {h : XR} {G : ℝ} (hok : Ok h) (h0 : (0 : EReal) ≤ val h) (hG : 1 < G) :
    Ok (h * fin G) ∧ val h ≤ val (h * fin G) := by
  cases h with
  | fin x =>
    have hx : 0 ≤ x := by simpa [val] using h0
    rw [mul_fin]
    exact ⟨trivial, EReal.coe_le_coe_iff.2 (by nlinarith)⟩
  | pinf =>
    rw [mul_pinf_fin]
    have : (0:ℝ) < G := by linarith
    simp only [sgnMul, this, if_true]
    exact ⟨trivial, le_refl _⟩
  | ninf => simp [val] at h0
  | nan => exact absurd hok (by simp [Ok])

/-- **what a `true` of the comparison cascade means**: some parameter `t > 0` lies, for every axis, between the near value of the
    slab and `G` times its far value, and no far value is negative -/
theorem cascade_inv {G : ℝ} (hG : 1 < G) {tx ty tz : XR × XR}
    (x1 : Ok tx.1) (x2 : Ok tx.2) (y1 : Ok ty.1) (y2 : Ok ty.2) (z1 : Ok tz.1) (z2 : Ok tz.2)
    (h : BBox.slabCascade (fin G) tx ty tz = true) :
    ∃ t : ℝ, 0 < t ∧
      (val tx.1 ≤ (t : EReal) ∧ (t : EReal) ≤ val (tx.2 * fin G) ∧ (0 : EReal) ≤ val tx.2) ∧
      (val ty.1 ≤ (t : EReal) ∧ (t : EReal) ≤ val (ty.2 * fin G) ∧ (0 : EReal) ≤ val ty.2) ∧
      (val tz.1 ≤ (t : EReal) ∧ (t : EReal) ≤ val (tz.2 * fin G) ∧ (0 : EReal) ≤ val tz.2) := by
  unfold BBox.slabCascade at h
  by_cases e1 : Num.lt tx.2 (0 : XR) = true
  · simp [e1] at h
  by_cases e2 : Num.lt ty.2 (0 : XR) = true
  · simp [e1, e2] at h
  by_cases e3 : Num.lt tz.2 (0 : XR) = true
  · simp [e1, e2, e3] at h
  have e1' : Num.lt tx.2 (0 : XR) = false := by simpa using e1
  have e2' : Num.lt ty.2 (0 : XR) = false := by simpa using e2
  have e3' : Num.lt tz.2 (0 : XR) = false := by simpa using e3
  have nx := nonneg_of_not_lt x2 e1'
  have ny := nonneg_of_not_lt y2 e2'
  have nz := nonneg_of_not_lt z2 e3'
  obtain ⟨gxok, gxle⟩ := mul_g_ok x2 nx hG
  obtain ⟨gyok, gyle⟩ := mul_g_ok y2 ny hG
  obtain ⟨gzok, gzle⟩ := mul_g_ok z2 nz hG
  obtain ⟨m1ok, m1v⟩ := pick_max (a := tx.1) (b := ty.1) x1 y1
  obtain ⟨n1ok, n1v⟩ := pick_min (a := tx.2 * fin G) (b := ty.2 * fin G) gxok gyok
  obtain ⟨m2ok, m2v⟩ := pick_max (a := (if Num.gt ty.1 tx.1 then ty.1 else tx.1)) (b := tz.1) m1ok z1
  obtain ⟨n2ok, n2v⟩ := pick_min (a := (if Num.lt (ty.2 * fin G) (tx.2 * fin G) then ty.2 * fin G else tx.2 * fin G))
    (b := tz.2 * fin G) n1ok gzok
  simp only [e1', e2', e3', Bool.false_eq_true, if_false] at h
  by_cases c1 : (Num.gt tx.1 (ty.2 * fin G) || Num.gt ty.1 (tx.2 * fin G)) = true
  · simp [c1] at h
  have c1' := Bool.eq_false_iff.2 c1
  simp only [c1', Bool.false_eq_true, if_false] at h
  by_cases c2 : (Num.gt (if Num.gt ty.1 tx.1 then ty.1 else tx.1) (tz.2 * fin G) ||
      Num.gt tz.1 (if Num.lt (ty.2 * fin G) (tx.2 * fin G) then ty.2 * fin G else tx.2 * fin G)) = true
  · simp [c2] at h
  have c2' := Bool.eq_false_iff.2 c2
  simp only [c2', Bool.false_eq_true, if_false, Bool.and_eq_true] at h
  obtain ⟨f1, f2⟩ := h
  simp only [Num.gt] at f1 f2
  have hLH := (lt_iff m2ok n2ok).1 f1
  have h0H := (lt_iff ok_zero n2ok).1 f2
  rw [val_zero] at h0H
  rw [m2v, m1v] at hLH
  rw [n2v, n1v] at hLH h0H
  -- a real parameter strictly between max(lows, 0) and the min of the widened highs
  have hlt : max (max (max (val tx.1) (val ty.1)) (val tz.1)) ((0 : ℝ) : EReal) <
      min (min (val (tx.2 * fin G)) (val (ty.2 * fin G))) (val (tz.2 * fin G)) := max_lt hLH h0H
  obtain ⟨t, ht1, ht2⟩ := EReal.lt_iff_exists_real_btwn.1 hlt
  have tpos : 0 < t := by
    have : ((0 : ℝ) : EReal) < (t : EReal) := lt_of_le_of_lt (le_max_right _ _) ht1
    exact EReal.coe_lt_coe_iff.1 this
  have lo : max (max (val tx.1) (val ty.1)) (val tz.1) ≤ (t : EReal) := le_of_lt (lt_of_le_of_lt (le_max_left _ _) ht1)
  have hi := le_of_lt ht2
  refine ⟨t, tpos, ⟨?_, ?_, nx⟩, ⟨?_, ?_, ny⟩, ⟨?_, ?_, nz⟩⟩
  · exact le_trans (le_trans (le_max_left _ _) (le_max_left _ _)) lo
  · exact le_trans hi (le_trans (min_le_left _ _) (min_le_left _ _))
  · exact le_trans (le_trans (le_max_right _ _) (le_max_left _ _)) lo
  · exact le_trans hi (le_trans (min_le_left _ _) (min_le_right _ _))
  · exact le_trans (le_max_right _ _) lo
  · exact le_trans hi (min_le_right _ _)

/-! ### one slab, read backwards -/

/-- the two values of a slab are never NaN (finite box and origin, reciprocal finite or infinite) -/
theorem slabAxis_ok {mn mx o : ℝ} {inv : XR} (hinv : Ok inv) :
    Ok (BBox.slabAxis (fin mn) (fin mx) (fin o) inv).1 ∧ Ok (BBox.slabAxis (fin mn) (fin mx) (fin o) inv).2 := by
  unfold BBox.slabAxis
  simp only []
  by_cases hn : (Num.isNaN ((fin mn - fin o) * inv) || Num.isNaN ((fin mx - fin o) * inv)) = true
  · simp only [hn, if_true]
    have sw1 : swapGt (-(Num.inf : XR)) Num.inf = (ninf, pinf) := by
      rw [neg_inf, inf_eq]; simp [swapGt, Num.gt, Num.lt, XR.lt]
    rw [sw1]; exact ⟨trivial, trivial⟩
  · have hn' := Bool.eq_false_iff.2 hn
    simp only [hn', Bool.false_eq_true, if_false]
    rw [Bool.or_eq_false_iff] at hn'
    have oa : Ok ((fin mn - fin o) * inv) := by
      by_contra hc; exact absurd ((isNaN_iff _).2 hc) (by rw [hn'.1]; simp)
    have ob : Ok ((fin mx - fin o) * inv) := by
      by_contra hc; exact absurd ((isNaN_iff _).2 hc) (by rw [hn'.2]; simp)
    obtain ⟨o1, o2, _, _⟩ := swapGt_ok oa ob
    exact ⟨o1, o2⟩

theorem swapGt_fin_fst (a b : ℝ) : (swapGt (fin a : XR) (fin b)).1 = fin (min a b) := by
  unfold swapGt Num.gt
  show (if XR.lt (fin b) (fin a) = true then ((fin b, fin a) : XR × XR) else (fin a, fin b)).1 = _
  by_cases h : b < a
  · simp [XR.lt, h, min_eq_right (le_of_lt h)]
  · simp [XR.lt, h, min_eq_left (not_lt.1 h)]

theorem swapGt_fin_snd (a b : ℝ) : (swapGt (fin a : XR) (fin b)).2 = fin (max a b) := by
  unfold swapGt Num.gt
  show (if XR.lt (fin b) (fin a) = true then ((fin b, fin a) : XR × XR) else (fin a, fin b)).2 = _
  by_cases h : b < a
  · simp [XR.lt, h, max_eq_left (le_of_lt h)]
  · simp [XR.lt, h, max_eq_right (not_lt.1 h)]

/-- **one slab, soundness**: if a parameter `t > 0` is at least the near value and at most `G` times the (non-negative) far
    value of the slab, then the ray point `o + t·d` lies in the slab widened by `(G − 1)` times the larger distance of the
    origin from the two planes -/
theorem slab_sound {mn mx o d t G : ℝ} {inv : XR} (hmm : mn ≤ mx) (ht : 0 < t) (hG : 1 < G)
    (hinv : (d ≠ 0 ∧ inv = fin (1 / d)) ∨ (d = 0 ∧ (inv = pinf ∨ inv = ninf)))
    (hlo : val (BBox.slabAxis (fin mn) (fin mx) (fin o) inv).1 ≤ (t : EReal))
    (hhi : (t : EReal) ≤ val ((BBox.slabAxis (fin mn) (fin mx) (fin o) inv).2 * fin G))
    (h0 : (0 : EReal) ≤ val (BBox.slabAxis (fin mn) (fin mx) (fin o) inv).2) :
    mn - (G - 1) * max |mn - o| |mx - o| ≤ o + t * d ∧ o + t * d ≤ mx + (G - 1) * max |mn - o| |mx - o| := by
  have hD1 : |mn - o| ≤ max |mn - o| |mx - o| := le_max_left _ _
  have hD2 : |mx - o| ≤ max |mn - o| |mx - o| := le_max_right _ _
  have hG0 : 0 < G - 1 := by linarith
  rcases hinv with ⟨hd, rfl⟩ | ⟨hd, hi⟩
  · -- finite reciprocal: the slab is the ordered pair of the two plane parameters
    unfold BBox.slabAxis at hlo hhi h0
    simp only [sub_fin, mul_fin] at hlo hhi h0
    have hnan : (Num.isNaN (fin ((mn + -o) * (1 / d)) : XR) || Num.isNaN (fin ((mx + -o) * (1 / d)) : XR)) = false := by
      simp [Num.isNaN, Num.beq, XR.beq]
    simp only [hnan, Bool.false_eq_true, if_false] at hlo hhi h0
    rw [swapGt_fin_fst] at hlo
    rw [swapGt_fin_snd] at hhi h0
    simp only [mul_fin, val] at hlo hhi h0
    have k1 := EReal.coe_le_coe_iff.1 hlo
    have k2 := EReal.coe_le_coe_iff.1 hhi
    have k3 := EReal.coe_nonneg.1 h0
    clear hlo hhi h0 hnan
    have ea : (mn + -o) * (1 / d) = (mn - o) / d := by rw [mul_one_div, sub_eq_add_neg]
    have eb : (mx + -o) * (1 / d) = (mx - o) / d := by rw [mul_one_div, sub_eq_add_neg]
    rw [ea, eb] at k1 k2 k3
    rcases lt_or_gt_of_ne hd with hneg | hpos
    · -- d < 0: near = (mx-o)/d, far = (mn-o)/d
      have hab : (mx - o) / d ≤ (mn - o) / d := by rw [div_le_div_right_of_neg hneg]; linarith
      rw [min_eq_right hab] at k1
      rw [max_eq_left hab] at k2 k3
      have e1 : t * d ≤ mx - o := (div_le_iff_of_neg hneg).1 k1
      have e3 : mn - o ≤ 0 := by
        by_contra hc
        have : (mn - o) / d < 0 := div_neg_of_pos_of_neg (not_le.1 hc) hneg
        linarith
      have e2 : G * (mn - o) ≤ t * d := by
        have h1 : t ≤ G * (mn - o) / d := by rw [mul_div_assoc]; linarith [mul_comm ((mn - o) / d) G]
        exact (le_div_iff_of_neg hneg).1 h1
      have habs : -(max |mn - o| |mx - o|) ≤ mn - o := by
        have := neg_abs_le (mn - o)
        linarith
      constructor
      · nlinarith
      · nlinarith [abs_nonneg (mn - o), abs_nonneg (mx - o)]
    · -- d > 0: near = (mn-o)/d, far = (mx-o)/d
      have hab : (mn - o) / d ≤ (mx - o) / d := by rw [div_le_div_iff_of_pos_right hpos]; linarith
      rw [min_eq_left hab] at k1
      rw [max_eq_right hab] at k2 k3
      have e1 : mn - o ≤ t * d := (div_le_iff₀ hpos).1 k1
      have e3 : 0 ≤ mx - o := by
        by_contra hc
        have : (mx - o) / d < 0 := div_neg_of_neg_of_pos (not_le.1 hc) hpos
        linarith
      have e2 : t * d ≤ G * (mx - o) := by
        have h1 : t ≤ G * (mx - o) / d := by rw [mul_div_assoc]; linarith [mul_comm ((mx - o) / d) G]
        exact (le_div_iff₀ hpos).1 h1
      have habs : mx - o ≤ max |mn - o| |mx - o| := by
        have := le_abs_self (mx - o)
        linarith
      constructor
      · nlinarith [abs_nonneg (mn - o), abs_nonneg (mx - o)]
      · nlinarith
  · -- zero direction component: the point keeps the origin's coordinate, which must be inside the slab
    subst hd
    have hDn : 0 ≤ max |mn - o| |mx - o| := le_trans (abs_nonneg _) hD1
    have hin : mn ≤ o ∧ o ≤ mx := by
      by_contra hc
      rw [not_and_or, not_le, not_le] at hc
      unfold BBox.slabAxis at hlo h0
      simp only [sub_fin] at hlo h0
      rcases hc with hc | hc
      · -- origin below the slab: both plane distances positive
        have p1 : 0 < mn + -o := by linarith
        have p2 : 0 < mx + -o := by linarith
        rcases hi with rfl | rfl
        · simp only [mul_fin_pinf, sgnMul, p1, p2, if_true] at hlo
          have : (Num.isNaN (pinf : XR) || Num.isNaN (pinf : XR)) = false := by simp [Num.isNaN, Num.beq, XR.beq]
          simp only [this, Bool.false_eq_true, if_false] at hlo
          have sw : swapGt (pinf : XR) pinf = (pinf, pinf) := by simp [swapGt, Num.gt, Num.lt, XR.lt]
          rw [sw] at hlo
          simp [val] at hlo
        · simp only [mul_fin_ninf, sgnMul, p1, p2, if_true] at h0
          have : (Num.isNaN (ninf : XR) || Num.isNaN (ninf : XR)) = false := by simp [Num.isNaN, Num.beq, XR.beq]
          simp only [this, Bool.false_eq_true, if_false] at h0
          have sw : swapGt (ninf : XR) ninf = (ninf, ninf) := by simp [swapGt, Num.gt, Num.lt, XR.lt]
          rw [sw] at h0
          simp [val] at h0
      · -- origin above the slab: both plane distances negative
        have p1 : mn + -o < 0 := by linarith
        have p2 : mx + -o < 0 := by linarith
        have q1 : ¬ 0 < mn + -o := not_lt.2 (le_of_lt p1)
        have q2 : ¬ 0 < mx + -o := not_lt.2 (le_of_lt p2)
        rcases hi with rfl | rfl
        · simp only [mul_fin_pinf, sgnMul, p1, p2, q1, q2, if_true, if_false] at h0
          have : (Num.isNaN (ninf : XR) || Num.isNaN (ninf : XR)) = false := by simp [Num.isNaN, Num.beq, XR.beq]
          simp only [this, Bool.false_eq_true, if_false] at h0
          have sw : swapGt (ninf : XR) ninf = (ninf, ninf) := by simp [swapGt, Num.gt, Num.lt, XR.lt]
          rw [sw] at h0
          simp [val] at h0
        · simp only [mul_fin_ninf, sgnMul, p1, p2, q1, q2, if_true, if_false] at hlo
          have : (Num.isNaN (pinf : XR) || Num.isNaN (pinf : XR)) = false := by simp [Num.isNaN, Num.beq, XR.beq]
          simp only [this, Bool.false_eq_true, if_false] at hlo
          have sw : swapGt (pinf : XR) pinf = (pinf, pinf) := by simp [swapGt, Num.gt, Num.lt, XR.lt]
          rw [sw] at hlo
          simp [val] at hlo
    constructor <;> nlinarith

/-! ### the whole test, read backwards -/

/-- the widening factor is a finite number between `1` and `1 + 2⁻⁵⁰` -/
theorem g_spec' : ∃ G : ℝ, ((1 : XR) + 2 * Num.gamma (3 : XR)) = fin G ∧ 1 < G ∧ G - 1 ≤ (2 : ℝ)⁻¹ ^ 50 := by
  have he : (0 : ℝ) < (2 : ℝ)⁻¹ ^ 52 := by positivity
  have hsmall : (2 : ℝ)⁻¹ ^ 52 < 1 / 8 := by
    have : ((2:ℝ)⁻¹) ^ 52 ≤ ((2:ℝ)⁻¹) ^ 4 := pow_le_pow_of_le_one (by norm_num) (by norm_num) (by norm_num)
    linarith [show ((2:ℝ)⁻¹) ^ 4 = 1 / 16 by norm_num]
  have h50 : (2 : ℝ)⁻¹ ^ 50 = 4 * (2 : ℝ)⁻¹ ^ 52 := by
    rw [show (52 : ℕ) = 50 + 2 by norm_num, pow_add]; norm_num
  rw [h50]
  generalize hE : (2 : ℝ)⁻¹ ^ 52 = e at he hsmall
  have heps : (Num.eps : XR) = fin e := by rw [← hE]; rfl
  have hden : (1 + -(e / 2 * 3)) ≠ 0 := by linarith
  have hdpos : 0 < 1 + -(e / 2 * 3) := by linarith
  refine ⟨1 + 2 * (e / 2 * 3 / (1 + -(e / 2 * 3))), ?_, ?_, ?_⟩
  · simp only [Num.gamma, heps, one_eq, two_eq, three_eq]
    rw [div_fin _ _ (by norm_num), mul_fin, sub_fin, div_fin _ _ hden, mul_fin, add_fin]
  · have : 0 < e / 2 * 3 / (1 + -(e / 2 * 3)) := by apply div_pos <;> linarith
    linarith
  · have : e / 2 * 3 / (1 + -(e / 2 * 3)) ≤ 2 * e := by
      rw [div_le_iff₀ hdpos]; nlinarith
    linarith

/-- the box grown, on one axis, by `w` times the larger distance of the origin from the two planes of that axis -/
def InGrown (w mn mx o x : ℝ) : Prop := mn - w * max |mn - o| |mx - o| ≤ x ∧ x ≤ mx + w * max |mn - o| |mx - o|

theorem inGrown_mono {w w' mn mx o x : ℝ} (hw : w ≤ w') (h : InGrown w mn mx o x) : InGrown w' mn mx o x := by
  have hD : 0 ≤ max |mn - o| |mx - o| := le_trans (abs_nonneg _) (le_max_left _ _)
  obtain ⟨h1, h2⟩ := h
  constructor <;> nlinarith

/-- **the ray/box test accepts only rays that (almost) enter the box** (exact arithmetic with ±∞ and NaN): if `intersect`
    answers `true` for a well-formed finite box, then some point `o + t·d` of the ray with `t > 0` lies in the box grown, on
    every axis, by `2⁻⁵⁰` (≈ 8.9e-16) times the origin's distance from that axis' planes — the `1 + 2γ₃` widening of the far
    distances and nothing more -/
theorem slab_sound_box {bmin bmax o d : V3 ℝ} {inv : V3 XR}
    (wx : bmin.x ≤ bmax.x) (wy : bmin.y ≤ bmax.y) (wz : bmin.z ≤ bmax.z)
    (ix : (d.x ≠ 0 ∧ inv.x = fin (1 / d.x)) ∨ (d.x = 0 ∧ (inv.x = pinf ∨ inv.x = ninf)))
    (iy : (d.y ≠ 0 ∧ inv.y = fin (1 / d.y)) ∨ (d.y = 0 ∧ (inv.y = pinf ∨ inv.y = ninf)))
    (iz : (d.z ≠ 0 ∧ inv.z = fin (1 / d.z)) ∨ (d.z = 0 ∧ (inv.z = pinf ∨ inv.z = ninf)))
    (h : BBox.intersect (α := XR)
      ⟨⟨fin bmin.x, fin bmin.y, fin bmin.z⟩, ⟨fin bmax.x, fin bmax.y, fin bmax.z⟩⟩
      ⟨⟨fin o.x, fin o.y, fin o.z⟩, ⟨fin d.x, fin d.y, fin d.z⟩⟩ inv = true) :
    ∃ t : ℝ, 0 < t ∧
      InGrown ((2 : ℝ)⁻¹ ^ 50) bmin.x bmax.x o.x (o.x + t * d.x) ∧
      InGrown ((2 : ℝ)⁻¹ ^ 50) bmin.y bmax.y o.y (o.y + t * d.y) ∧
      InGrown ((2 : ℝ)⁻¹ ^ 50) bmin.z bmax.z o.z (o.z + t * d.z) := by
  obtain ⟨G, hG, hG1, hG2⟩ := g_spec'
  unfold BBox.intersect at h
  rw [hG] at h
  have okinv : ∀ {dd : ℝ} {iv : XR}, ((dd ≠ 0 ∧ iv = fin (1 / dd)) ∨ (dd = 0 ∧ (iv = pinf ∨ iv = ninf))) → Ok iv := by
    intro dd iv hh
    rcases hh with ⟨_, rfl⟩ | ⟨_, rfl | rfl⟩ <;> trivial
  obtain ⟨ax1, ax2⟩ := slabAxis_ok (mn := bmin.x) (mx := bmax.x) (o := o.x) (okinv ix)
  obtain ⟨ay1, ay2⟩ := slabAxis_ok (mn := bmin.y) (mx := bmax.y) (o := o.y) (okinv iy)
  obtain ⟨az1, az2⟩ := slabAxis_ok (mn := bmin.z) (mx := bmax.z) (o := o.z) (okinv iz)
  obtain ⟨t, tpos, ⟨lx, hx, nx⟩, ⟨ly, hy, ny⟩, ⟨lz, hz, nz⟩⟩ := cascade_inv hG1 ax1 ax2 ay1 ay2 az1 az2 h
  refine ⟨t, tpos, ?_, ?_, ?_⟩
  · exact inGrown_mono hG2 (slab_sound wx tpos hG1 ix lx hx nx)
  · exact inGrown_mono hG2 (slab_sound wy tpos hG1 iy ly hy ny)
  · exact inGrown_mono hG2 (slab_sound wz tpos hG1 iz lz hz nz)

/-- **a ray that misses the (minutely) grown box is rejected** -/
theorem miss_rejected {bmin bmax o d : V3 ℝ} {inv : V3 XR}
    (wx : bmin.x ≤ bmax.x) (wy : bmin.y ≤ bmax.y) (wz : bmin.z ≤ bmax.z)
    (ix : (d.x ≠ 0 ∧ inv.x = fin (1 / d.x)) ∨ (d.x = 0 ∧ (inv.x = pinf ∨ inv.x = ninf)))
    (iy : (d.y ≠ 0 ∧ inv.y = fin (1 / d.y)) ∨ (d.y = 0 ∧ (inv.y = pinf ∨ inv.y = ninf)))
    (iz : (d.z ≠ 0 ∧ inv.z = fin (1 / d.z)) ∨ (d.z = 0 ∧ (inv.z = pinf ∨ inv.z = ninf)))
    (hmiss : ∀ t : ℝ, 0 < t → ¬ (InGrown ((2 : ℝ)⁻¹ ^ 50) bmin.x bmax.x o.x (o.x + t * d.x) ∧
      InGrown ((2 : ℝ)⁻¹ ^ 50) bmin.y bmax.y o.y (o.y + t * d.y) ∧
      InGrown ((2 : ℝ)⁻¹ ^ 50) bmin.z bmax.z o.z (o.z + t * d.z))) :
    BBox.intersect (α := XR)
      ⟨⟨fin bmin.x, fin bmin.y, fin bmin.z⟩, ⟨fin bmax.x, fin bmax.y, fin bmax.z⟩⟩
      ⟨⟨fin o.x, fin o.y, fin o.z⟩, ⟨fin d.x, fin d.y, fin d.z⟩⟩ inv = false := by
  by_contra hc
  have ht : BBox.intersect (α := XR)
      ⟨⟨fin bmin.x, fin bmin.y, fin bmin.z⟩, ⟨fin bmax.x, fin bmax.y, fin bmax.z⟩⟩
      ⟨⟨fin o.x, fin o.y, fin o.z⟩, ⟨fin d.x, fin d.y, fin d.z⟩⟩ inv = true := by simpa using hc
  obtain ⟨t, tpos, hh⟩ := slab_sound_box wx wy wz ix iy iz ht
  exact hmiss t tpos hh

/-- non-vacuity: a ray along `+x` that passes the unit cube one unit above it is rejected -/
example : BBox.intersect (α := XR) ⟨⟨fin 0, fin 0, fin 0⟩, ⟨fin 1, fin 1, fin 1⟩⟩
    ⟨⟨fin (-1), fin 2, fin (1/2)⟩, ⟨fin 1, fin 0, fin 0⟩⟩ ⟨fin (1 / 1), pinf, pinf⟩ = false := by
  refine miss_rejected (bmin := ⟨0, 0, 0⟩) (bmax := ⟨1, 1, 1⟩) (o := ⟨-1, 2, 1/2⟩) (d := ⟨1, 0, 0⟩)
    (by norm_num) (by norm_num) (by norm_num) (Or.inl ⟨by norm_num, rfl⟩) (Or.inr ⟨rfl, Or.inl rfl⟩)
    (Or.inr ⟨rfl, Or.inl rfl⟩) ?_
  intro t _ ⟨_, hy, _⟩
  obtain ⟨_, hy2⟩ := hy
  have hw : (2 : ℝ)⁻¹ ^ 50 ≤ 1 / 4 := by
    have : ((2:ℝ)⁻¹) ^ 50 ≤ ((2:ℝ)⁻¹) ^ 2 := pow_le_pow_of_le_one (by norm_num) (by norm_num) (by norm_num)
    linarith [show ((2:ℝ)⁻¹) ^ 2 = 1 / 4 by norm_num]
  have hm : max |(0:ℝ) - 2| |(1:ℝ) - 2| = 2 := by norm_num [abs_of_neg]
  simp only [] at hy2
  rw [hm] at hy2
  nlinarith

end
end G3d.C14
