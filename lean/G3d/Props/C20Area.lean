import G3d.Props.C12Area
import G3d.Props.C20
/-!
# C20 — what a polygon with holes is written as

`Serialize for Polygon3D` writes the flat coordinate list of the merged outline of `try_get_closed_loop`.  With
`C12A.tryGetClosedLoop_area`: for a clean run the document is `flat` of an outline that contains every vertex of the outer loop
and of every hole and whose vector area is the polygon's net vector area; an `Err` of the merge is the serialisation error (never a
panic: `poly_serialize_noPanic_of`).
-/
namespace G3d.C20A
open G3d Num C04 C12 C12A C20 Shoelace
/-- a polygon without holes is written as its outer loop's vertices -/
theorem poly_serialize_no_holes {α : Type} [Num α] (pg : Polygon α) (h : pg.inner = []) : pg.serialize = .ok (flat pg.outer.vertices) := by
  unfold Polygon.serialize
  rw [(getClosedLoop_no_holes pg h).1]
  simp [bind, Res.bind, serialize_eq, (open_vertices pg.outer).1]

noncomputable section

/-- **the document written for a polygon with holes is the merged outline, with the net area** -/
theorem poly_serialize_area (pg : Polygon ℝ) (doc : List ℝ)
    (hsmall : ∀ il ∈ pg.inner, il.vertices.length < 1073741824)
    (h : pg.serialize = .ok doc)
    (hc : Clean pg pg.outer.normal pg.inner.length
      { retLoop := pg.outer.open, processed := [], innerLoopId := 0, innerVertexId := 0 }) :
    ∃ L : Loop ℝ, pg.tryGetClosedLoop = .ok L ∧ doc = flat L.vertices ∧ doc.length = 3 * L.vertices.length
      ∧ cyc L.vertices = cyc pg.outer.vertices + holesSum pg pg.outer.normal (List.range pg.inner.length)
      ∧ L.vertices.length = pg.outer.vertices.length + holesLen pg (List.range pg.inner.length) := by
  unfold Polygon.serialize at h
  cases hL : pg.tryGetClosedLoop with
  | err e => simp [hL, bind, Res.bind] at h
  | panic q => simp [hL, bind, Res.bind] at h
  | ok L =>
    simp only [hL, bind, Res.bind, Res.ok.injEq] at h
    obtain ⟨h1, h2⟩ := tryGetClosedLoop_area pg L hsmall hL hc
    refine ⟨L, rfl, ?_, ?_, h1, h2⟩
    · rw [← h, serialize_eq]
    · rw [← h, serialize_eq, flat_length]

end
end G3d.C20A
